/-
  C10 — helper lemmas: positional association (`lookupBy`) against append / map / fancy indexing,
  the two loops of `concat` turned into by-ID statements, transposition of a grid, sums.
-/
import BiomModel.C10
import Mathlib.Algebra.Group.Basic
import Mathlib.Algebra.Ring.Rat

namespace Biom.C10
variable {α β γ : Type}

theorem lookupBy_nil_right (ids : List Id) (i : Id) : lookupBy ids ([] : List β) i = none := by
  cases ids <;> rfl

theorem lookupBy_not_mem (ids : List Id) (xs : List β) (i : Id) (h : i ∉ ids) :
    lookupBy ids xs i = none := by
  induction ids generalizing xs with
  | nil => rfl
  | cons a as ih =>
    cases xs with
    | nil => rfl
    | cons x xs =>
      have ha : a ≠ i := fun e => h (e ▸ List.mem_cons_self)
      simp only [lookupBy, ha, if_false]
      exact ih xs (fun hm => h (List.mem_cons_of_mem _ hm))

theorem lookupBy_isSome (ids : List Id) (xs : List β) (i : Id) (hl : ids.length ≤ xs.length)
    (h : i ∈ ids) : ∃ x, lookupBy ids xs i = some x := by
  induction ids generalizing xs with
  | nil => cases h
  | cons a as ih =>
    cases xs with
    | nil => simp at hl
    | cons x xs =>
      by_cases ha : a = i
      · exact ⟨x, by simp [lookupBy, ha]⟩
      · simp only [lookupBy, ha, if_false]
        have : i ∈ as := by
          rcases List.mem_cons.mp h with e | e
          · exact absurd e.symm ha
          · exact e
        exact ih xs (by simpa using hl) this

theorem lookupBy_append (ids ids' : List Id) (xs xs' : List β) (i : Id)
    (hl : ids.length = xs.length) :
    lookupBy (ids ++ ids') (xs ++ xs') i = if i ∈ ids then lookupBy ids xs i else lookupBy ids' xs' i := by
  induction ids generalizing xs with
  | nil =>
    cases xs with
    | nil => simp
    | cons x xs => simp at hl
  | cons a as ih =>
    cases xs with
    | nil => simp at hl
    | cons x xs =>
      by_cases ha : a = i
      · simp [lookupBy, ha]
      · have hne : ¬ i = a := fun e => ha e.symm
        simp only [List.cons_append, lookupBy, ha, if_false, List.mem_cons, hne, false_or]
        exact ih xs (by simpa using hl)

theorem lookupBy_map (ids : List Id) (f : Id → β) (i : Id) (h : i ∈ ids) :
    lookupBy ids (ids.map f) i = some (f i) := by
  induction ids with
  | nil => cases h
  | cons a as ih =>
    by_cases ha : a = i
    · simp [lookupBy, ha]
    · simp only [List.map_cons, lookupBy, ha, if_false]
      rcases List.mem_cons.mp h with e | e
      · exact absurd e.symm ha
      · exact ih e

theorem lookupBy_replicate (ids : List Id) (n : Nat) (d : β) (i : Id) :
    (lookupBy ids (List.replicate n d) i).getD d = d := by
  induction ids generalizing n with
  | nil => rfl
  | cons a as ih =>
    cases n with
    | zero => rfl
    | succ n =>
      by_cases ha : a = i
      · simp [List.replicate_succ, lookupBy, ha]
      · simp only [List.replicate_succ, lookupBy, ha, if_false]
        exact ih n

theorem map_lookupBy_self (ids : List Id) (xs : List β) (d : β) (hn : ids.Nodup)
    (hl : ids.length = xs.length) :
    ids.map (fun i => (lookupBy ids xs i).getD d) = xs := by
  induction ids generalizing xs with
  | nil =>
    cases xs with
    | nil => rfl
    | cons x xs => simp at hl
  | cons a as ih =>
    cases xs with
    | nil => simp at hl
    | cons x xs =>
      have hna : a ∉ as := (List.nodup_cons.mp hn).1
      simp only [List.map_cons, lookupBy, if_true, Option.getD_some]
      congr 1
      rw [← ih xs (List.nodup_cons.mp hn).2 (by simpa using hl)]
      apply List.map_congr_left
      intro i hi
      have : a ≠ i := fun e => hna (e ▸ hi)
      simp only [this, if_false]
      rw [ih xs (List.nodup_cons.mp hn).2 (by simpa using hl)]

theorem lookupBy_eq_getElem? (ids : List Id) (xs : List β) (i : Id) (j : Nat)
    (h : indexOf? ids i = some j) : xs[j]? = lookupBy ids xs i := by
  induction ids generalizing xs j with
  | nil => simp [indexOf?] at h
  | cons a as ih =>
    unfold indexOf? at h
    by_cases ha : a = i
    · subst ha
      simp at h
      subst h
      cases xs <;> simp [lookupBy]
    · have hb : (a == i) = false := by simpa using ha
      simp only [List.idxOf_cons, hb, cond_false, List.length_cons] at h
      split at h
      · rename_i hlt
        injection h with h
        subst h
        cases xs with
        | nil => simp [lookupBy]
        | cons x xs =>
          simp only [lookupBy, ha, if_false, List.getElem?_cons_succ]
          apply ih
          unfold indexOf?
          simp only []
          rw [if_pos (by omega)]
      · cases h

theorem indexOf?_isSome (ids : List Id) (i : Id) (h : i ∈ ids) : ∃ j, indexOf? ids i = some j := by
  unfold indexOf?
  have := (List.idxOf_lt_length_iff (l := ids) (a := i)).mpr h
  refine ⟨ids.idxOf i, ?_⟩
  show (if ids.idxOf i < ids.length then some (ids.idxOf i) else none) = _
  rw [if_pos this]

theorem indexOf?_some_mem (ids : List Id) (i : Id) (j : Nat) (h : indexOf? ids i = some j) : i ∈ ids := by
  unfold indexOf? at h
  by_cases hlt : ids.idxOf i < ids.length
  · exact List.idxOf_lt_length_iff.mp hlt
  · simp only [hlt, if_false] at h; cases h

theorem mapO_cons_some (f : β → Option γ) (x : β) (xs : List β) (l : List γ)
    (h : mapO f (x :: xs) = some l) : ∃ y ys, f x = some y ∧ mapO f xs = some ys ∧ l = y :: ys := by
  unfold mapO at h
  split at h
  · rename_i y ys hy hys
    injection h with h
    exact ⟨y, ys, hy, hys, h.symm⟩
  · cases h

theorem mapO_eq_map (f : β → Option γ) (g : β → γ) (xs : List β) (h : ∀ x ∈ xs, f x = some (g x)) :
    mapO f xs = some (xs.map g) := by
  induction xs with
  | nil => rfl
  | cons x xs ih =>
    unfold mapO
    rw [h x List.mem_cons_self, ih (fun y hy => h y (List.mem_cons_of_mem _ hy))]
    rfl

theorem mapO_isSome (f : β → Option γ) (xs : List β) (h : ∀ x ∈ xs, ∃ y, f x = some y) :
    ∃ l, mapO f xs = some l := by
  induction xs with
  | nil => exact ⟨[], rfl⟩
  | cons x xs ih =>
    obtain ⟨y, hy⟩ := h x List.mem_cons_self
    obtain ⟨ys, hys⟩ := ih (fun z hz => h z (List.mem_cons_of_mem _ hz))
    exact ⟨y :: ys, by unfold mapO; rw [hy, hys]⟩

theorem gather_fancy (ids : List Id) (xs : List β) (d : β) (order : List Id) (fancy : List Nat)
    (hf : mapO (indexOf? ids) order = some fancy) (hl : ids.length ≤ xs.length) :
    gather xs fancy = some (order.map (fun b => (lookupBy ids xs b).getD d)) := by
  induction order generalizing fancy with
  | nil =>
    have : fancy = [] := by simpa [mapO] using hf.symm
    subst this; rfl
  | cons b bs ih =>
    obtain ⟨j, js, hj, hjs, rfl⟩ := mapO_cons_some _ _ _ _ hf
    have hmem := indexOf?_some_mem ids b j hj
    obtain ⟨x, hx⟩ := lookupBy_isSome ids xs b hl hmem
    have hget := lookupBy_eq_getElem? ids xs b j hj
    have ih' := ih js hjs
    unfold gather at ih' ⊢
    unfold mapO
    rw [hget, hx, ih']
    simp [hx]

/-- what `sort_order` yields, by ID -/
def reorderSpec [Zero α] (order : List Id) (v : View α) : View α :=
  { aids := v.aids, oids := order,
    vecs := v.vecs.map (fun vec => order.map (fun b => (lookupBy v.oids vec b).getD 0)),
    amd := normMd v.amd,
    omd := normMd (v.omd.map (fun m => order.map (fun b => (lookupBy v.oids m b).getD []))) }

theorem reorder_eq [Zero α] (order : List Id) (v : View α)
    (h1 : ∀ b ∈ order, b ∈ v.oids) (h2 : ∀ vec ∈ v.vecs, v.oids.length ≤ vec.length)
    (h3 : ∀ m, v.omd = some m → v.oids.length ≤ m.length) :
    reorder order v = .ok (reorderSpec order v) := by
  obtain ⟨fancy, hf⟩ := mapO_isSome (indexOf? v.oids) order (fun b hb => indexOf?_isSome _ _ (h1 b hb))
  have hv : mapO (fun vec => gather vec fancy) v.vecs =
      some (v.vecs.map (fun vec => order.map (fun b => (lookupBy v.oids vec b).getD 0))) :=
    mapO_eq_map _ _ _ (fun vec hvec => gather_fancy v.oids vec 0 order fancy hf (h2 vec hvec))
  unfold reorder reorderSpec
  rw [hf]
  simp only [hv]
  cases hm : v.omd with
  | none => rfl
  | some m =>
    simp only [gather_fancy v.oids m [] order fancy hf (h3 m hm)]
    rfl


/-! ### metadata normalisation -/

theorem normMd_all (l : List Md) (h : l.all (fun m => m.isEmpty) = true) : normMd (some l) = none := by
  simp [normMd, h]

theorem normMd_not_all (l : List Md) (h : l.all (fun m => m.isEmpty) = false) :
    normMd (some l) = some l := by
  simp [normMd, h]

theorem normMd_idem (x : Option (List Md)) : normMd (normMd x) = normMd x := by
  cases x with
  | none => rfl
  | some l =>
    cases h : l.all (fun m => m.isEmpty) with
    | true => rw [normMd_all l h]; rfl
    | false => rw [normMd_not_all l h, normMd_not_all l h]

theorem all_empty_eq_replicate (l : List Md) (h : l.all (fun m => m.isEmpty) = true) :
    l = List.replicate l.length [] := by
  induction l with
  | nil => rfl
  | cons m ms ih =>
    simp only [List.all_cons, Bool.and_eq_true] at h
    have hm : m = [] := List.isEmpty_iff.mp h.1
    rw [List.length_cons, List.replicate_succ, ← ih h.2, hm]

theorem normMd_getD (x : Option (List Md)) (n : Nat) (h : ∀ m, x = some m → m.length = n) :
    (normMd x).getD (List.replicate n []) = x.getD (List.replicate n []) := by
  cases x with
  | none => rfl
  | some l =>
    cases hall : l.all (fun m => m.isEmpty) with
    | true =>
      rw [normMd_all l hall]
      simp only [Option.getD_none, Option.getD_some]
      rw [← h l rfl]; exact (all_empty_eq_replicate l hall).symm
    | false => rw [normMd_not_all l hall]

theorem normMd_length (x : Option (List Md)) (n : Nat) (h : ∀ m, x = some m → m.length = n) :
    ∀ m, normMd x = some m → m.length = n := by
  intro m hm
  cases x with
  | none => cases hm
  | some l =>
    cases hall : l.all (fun m => m.isEmpty) with
    | true => rw [normMd_all l hall] at hm; cases hm
    | false =>
      rw [normMd_not_all l hall] at hm
      exact h m hm

/-! ### view well-formedness -/

structure View.WF (v : View α) : Prop where
  nvecs : v.vecs.length = v.aids.length
  lens : ∀ vec ∈ v.vecs, vec.length = v.oids.length
  amdLen : ∀ m, v.amd = some m → m.length = v.aids.length
  omdLen : ∀ m, v.omd = some m → m.length = v.oids.length

/-- the vector of an operand brought to the common order, by ID -/
def ovec [Zero α] (order : List Id) (v : View α) (vec : List α) : List α :=
  order.map (fun b => (lookupBy v.oids vec b).getD 0)

theorem sortIfNeeded_cases [Zero α] (order : List Id) (p : View α)
    (h1 : ∀ b ∈ order, b ∈ p.oids) (h2 : ∀ vec ∈ p.vecs, vec.length = p.oids.length)
    (h3 : ∀ m, p.omd = some m → m.length = p.oids.length) :
    (p.oids = order ∧ sortIfNeeded order p = .ok p) ∨
    (sortIfNeeded order p = .ok (reorderSpec order p)) := by
  unfold sortIfNeeded
  by_cases h : p.oids = order
  · left; exact ⟨h, by simp [h]⟩
  · right
    simp only [h, if_false]
    exact reorder_eq order p h1 (fun vec hv => (h2 vec hv).ge) (fun m hm => (h3 m hm).ge)

theorem map_ovec_self [Zero α] (p : View α) (hn : p.oids.Nodup)
    (h2 : ∀ vec ∈ p.vecs, vec.length = p.oids.length) :
    p.vecs.map (ovec p.oids p) = p.vecs := by
  conv => rhs; rw [← List.map_id p.vecs]
  apply List.map_congr_left
  intro vec hvec
  exact map_lookupBy_self p.oids vec 0 hn (h2 vec hvec).symm

/-- fields of the operand after `sortIfNeeded` -/
theorem sortIfNeeded_spec [Zero α] (order : List Id) (p : View α) (hn : order.Nodup)
    (h1 : ∀ b ∈ order, b ∈ p.oids) (h2 : ∀ vec ∈ p.vecs, vec.length = p.oids.length)
    (h3 : ∀ m, p.omd = some m → m.length = p.oids.length) :
    ∃ p', sortIfNeeded order p = .ok p' ∧ p'.aids = p.aids ∧ p'.oids = order ∧
      p'.vecs = p.vecs.map (ovec order p) ∧ (p'.amd = p.amd ∨ p'.amd = normMd p.amd) ∧
      (∀ m, p'.omd = some m → m.length = order.length) := by
  rcases sortIfNeeded_cases order p h1 h2 h3 with ⟨he, hs⟩ | hs
  · refine ⟨p, hs, rfl, he, ?_, Or.inl rfl, fun m hm => he ▸ h3 m hm⟩
    rw [← he]
    exact (map_ovec_self p (he ▸ hn) h2).symm
  · refine ⟨_, hs, rfl, rfl, rfl, Or.inr rfl, ?_⟩
    show ∀ m, normMd _ = some m → m.length = order.length
    apply normMd_length
    intro l hl
    cases hm : p.omd with
    | none => rw [hm] at hl; cases hl
    | some m =>
      rw [hm] at hl
      injection hl with hl
      subst hl
      simp


theorem mem_missingOf (order : List Id) (v : View α) (b : Id) :
    b ∈ missingOf order v ↔ b ∈ order ∧ b ∉ v.oids := by
  simp [missingOf]

theorem padWith_nil [Zero α] (first : List (Id × Md)) (v : View α) : padWith first [] v = v := by
  simp [padWith]

theorem padWith_cons [Zero α] (first : List (Id × Md)) (m : Id) (ms : List Id) (v : View α) :
    padWith first (m :: ms) v =
    { aids := v.aids, oids := v.oids ++ (m :: ms),
      vecs := v.vecs.map (fun vec => vec ++ List.replicate (m :: ms).length 0),
      amd := normMd v.amd,
      omd := normMd (some (v.omd.getD (List.replicate v.oids.length []) ++
                           (m :: ms).map (fun i => (first.lookup i).getD []))) } := by
  simp [padWith]

theorem omdList_length (v : View α) (hv : v.WF) :
    (v.omd.getD (List.replicate v.oids.length [])).length = v.oids.length := by
  cases h : v.omd with
  | none => simp
  | some m => simpa using hv.omdLen m h

theorem padWith_ovec [Zero α] (order : List Id) (first : List (Id × Md)) (missing : List Id)
    (v : View α) (hv : v.WF) :
    (padWith first missing v).vecs.map (ovec order (padWith first missing v)) =
      v.vecs.map (ovec order v) := by
  cases missing with
  | nil => rw [padWith_nil]
  | cons m ms =>
    rw [padWith_cons]
    simp only [List.map_map]
    apply List.map_congr_left
    intro vec hvec
    simp only [Function.comp, ovec]
    apply List.map_congr_left
    intro b _
    rw [lookupBy_append _ _ _ _ _ (hv.lens vec hvec).symm]
    by_cases hb : b ∈ v.oids
    · simp only [hb, if_true]
    · simp only [hb, if_false]
      rw [lookupBy_replicate, lookupBy_not_mem _ _ _ hb]
      rfl

theorem padWith_facts [Zero α] (first : List (Id × Md)) (missing : List Id) (v : View α) (hv : v.WF) :
    let p := padWith first missing v
    p.aids = v.aids ∧ (∀ b, b ∈ p.oids ↔ b ∈ v.oids ∨ b ∈ missing) ∧
    (∀ vec ∈ p.vecs, vec.length = p.oids.length) ∧ (∀ m, p.omd = some m → m.length = p.oids.length) ∧
    p.vecs.length = v.vecs.length ∧ (p.amd = v.amd ∨ p.amd = normMd v.amd) := by
  cases missing with
  | nil =>
    rw [padWith_nil]
    exact ⟨rfl, by simp, hv.lens, hv.omdLen, rfl, Or.inl rfl⟩
  | cons m ms =>
    rw [padWith_cons]
    refine ⟨rfl, by simp, ?_, ?_, by simp, Or.inr rfl⟩
    · intro vec hvec
      obtain ⟨w, hw, rfl⟩ := List.mem_map.mp hvec
      simp [hv.lens w hw]
    · dsimp only
      apply normMd_length
      intro l hl
      injection hl with hl
      subst hl
      simp [omdList_length v hv]

theorem amdEntries_eq (p v : View α) (hv : v.WF) (hlen : p.vecs.length = v.vecs.length)
    (h : p.amd = v.amd ∨ p.amd = normMd v.amd ∨ p.amd = normMd (normMd v.amd)) :
    amdEntries p = amdEntries v := by
  unfold amdEntries
  rw [hlen]
  have hl : ∀ m, v.amd = some m → m.length = v.vecs.length := fun m hm => (hv.amdLen m hm).trans hv.nvecs.symm
  rcases h with h | h | h
  · rw [h]
  · rw [h]; exact normMd_getD _ _ hl
  · rw [h, normMd_idem]; exact normMd_getD _ _ hl

/-- One operand after the second loop, by ID — for ANY enumeration of its missing IDs. -/
theorem padWith_sort_spec [Zero α] (order : List Id) (first : List (Id × Md)) (missing : List Id)
    (v : View α) (hn : order.Nodup) (hv : v.WF) (hcover : ∀ b ∈ order, b ∈ v.oids ∨ b ∈ missing) :
    ∃ p', sortIfNeeded order (padWith first missing v) = .ok p' ∧ p'.aids = v.aids ∧ p'.oids = order ∧
      p'.vecs = v.vecs.map (ovec order v) ∧ amdEntries p' = amdEntries v ∧
      (∀ m, p'.omd = some m → m.length = order.length) := by
  obtain ⟨ha, hmem, h2, h3, hlen, hamd⟩ := padWith_facts first missing v hv
  obtain ⟨p', hp, hpa, hpo, hpv, hpm, hpo'⟩ :=
    sortIfNeeded_spec order (padWith first missing v) hn (fun b hb => (hmem b).mpr (hcover b hb)) h2 h3
  refine ⟨p', hp, hpa.trans ha, hpo, ?_, ?_, hpo'⟩
  · rw [hpv]; exact padWith_ovec order first missing v hv
  · apply amdEntries_eq p' v hv
    · rw [hpv, List.length_map]; exact hlen
    · rcases hpm with h | h <;> rcases hamd with h' | h'
      · exact Or.inl (h.trans h')
      · exact Or.inr (Or.inl (h.trans h'))
      · exact Or.inr (Or.inl (h.trans (by rw [h'])))
      · exact Or.inr (Or.inr (h.trans (by rw [h'])))

theorem padSort_spec [Zero α] (order : List Id) (first : List (Id × Md)) (v : View α)
    (hn : order.Nodup) (hv : v.WF) :
    ∃ p', padSort order first v = .ok p' ∧ p'.aids = v.aids ∧ p'.oids = order ∧
      p'.vecs = v.vecs.map (ovec order v) ∧ amdEntries p' = amdEntries v ∧
      (∀ m, p'.omd = some m → m.length = order.length) := by
  unfold padSort pad
  apply padWith_sort_spec order first _ v hn hv
  intro b hb
  by_cases h : b ∈ v.oids
  · exact Or.inl h
  · exact Or.inr ((mem_missingOf order v b).mpr ⟨hb, h⟩)


/-- no ID of `x` occurs in `y` -/
def Disj (x y : List Id) : Prop := ∀ a ∈ x, a ∉ y

theorem pairwiseDisjoint_iff (ls : List (List Id)) :
    pairwiseDisjoint ls = true ↔ ls.Pairwise Disj := by
  induction ls with
  | nil => simp [pairwiseDisjoint]
  | cons x rest ih =>
    simp only [pairwiseDisjoint, Bool.and_eq_true, List.pairwise_cons, ih, List.all_eq_true]
    constructor
    · rintro ⟨h, hp⟩
      refine ⟨fun y hy a ha => ?_, hp⟩
      have := h y hy a ha
      simpa using this
    · rintro ⟨h, hp⟩
      refine ⟨fun y hy a ha => ?_, hp⟩
      have := h y hy a ha
      simpa using this

theorem scan_error (vs : List (View α)) (seen : List Id) (inv : List (Id × Md)) (e : Err)
    (h : scan vs seen inv = .error e) : e = .disjointId := by
  induction vs generalizing seen inv with
  | nil => simp [scan] at h
  | cons v rest ih =>
    unfold scan at h
    split at h
    · injection h with h; exact h.symm
    · exact ih _ _ h

theorem scan_ok_iff (vs : List (View α)) (seen : List Id) (inv : List (Id × Md)) :
    (∃ inv', scan vs seen inv = .ok inv') ↔
      (∀ v ∈ vs, ∀ a ∈ v.aids, a ∉ seen) ∧ (vs.map (·.aids)).Pairwise Disj := by
  induction vs generalizing seen inv with
  | nil => simp [scan]
  | cons v rest ih =>
    unfold scan
    by_cases hany : v.aids.any (fun a => seen.contains a) = true
    · simp only [hany, if_true]
      constructor
      · rintro ⟨_, h⟩; cases h
      · rintro ⟨h, _⟩
        obtain ⟨a, ha, hs⟩ := List.any_eq_true.mp hany
        exact absurd (by simpa using hs) (h v List.mem_cons_self a ha)
    · have hany' : v.aids.any (fun a => seen.contains a) = false := by simpa using hany
      simp only [hany', Bool.false_eq_true, if_false]
      rw [ih]
      have hv : ∀ a ∈ v.aids, a ∉ seen := by
        intro a ha hs
        exact hany (List.any_eq_true.mpr ⟨a, ha, by simpa using hs⟩)
      simp only [List.map_cons, List.pairwise_cons, List.mem_cons, List.mem_append, List.mem_map]
      constructor
      · rintro ⟨h1, hp⟩
        refine ⟨?_, ?_, hp⟩
        · rintro w (rfl | hw) a ha
          · exact hv a ha
          · exact fun hs => h1 w hw a ha (Or.inl hs)
        · rintro y ⟨w, hw, rfl⟩ a ha hy
          exact h1 w hw a hy (Or.inr ha)
      · rintro ⟨h1, h2, hp⟩
        refine ⟨?_, hp⟩
        rintro w hw a ha (hs | hs)
        · exact h1 w (Or.inr hw) a ha hs
        · exact h2 w.aids ⟨w, hw, rfl⟩ a hs ha

theorem scan_ids (vs : List (View α)) (seen : List Id) (inv inv' : List (Id × Md))
    (h : scan vs seen inv = .ok inv') :
    (∀ b, b ∈ inv'.map (·.1) ↔ b ∈ inv.map (·.1) ∨ ∃ v ∈ vs, b ∈ v.oids) ∧
    ((inv.map (·.1)).Nodup → (∀ v ∈ vs, v.oids.Nodup) → (inv'.map (·.1)).Nodup) := by
  induction vs generalizing seen inv with
  | nil =>
    simp only [scan] at h
    injection h with h
    subst h
    simp
  | cons v rest ih =>
    unfold scan at h
    split at h
    · cases h
    · obtain ⟨hm, hn⟩ := ih _ _ h
      have hids : (inv ++ (v.oids.filter (fun i => !(inv.map (·.1)).contains i)).map
            (fun i => (i, entryOf v i))).map (·.1) =
          inv.map (·.1) ++ v.oids.filter (fun i => !(inv.map (·.1)).contains i) := by
        simp [List.map_append, List.map_map, Function.comp_def]
      rw [hids] at hm hn
      constructor
      · intro b
        rw [hm b]
        simp only [List.mem_append, List.mem_filter, List.mem_cons]
        constructor
        · rintro ((h1 | ⟨h1, _⟩) | ⟨w, hw, hb⟩)
          · exact Or.inl h1
          · exact Or.inr ⟨v, Or.inl rfl, h1⟩
          · exact Or.inr ⟨w, Or.inr hw, hb⟩
        · rintro (h1 | ⟨w, (rfl | hw), hb⟩)
          · exact Or.inl (Or.inl h1)
          · by_cases hin : b ∈ inv.map (·.1)
            · exact Or.inl (Or.inl hin)
            · exact Or.inl (Or.inr ⟨hb, by simpa using hin⟩)
          · exact Or.inr ⟨w, hw, hb⟩
      · intro hnd hall
        apply hn
        · rw [List.nodup_append]
          refine ⟨hnd, (hall v List.mem_cons_self).filter _, ?_⟩
          intro a ha b hb hab
          subst hab
          have := (List.mem_filter.mp hb).2
          have hc : (inv.map (·.1)).contains a = false := by simpa using this
          have hc' : (inv.map (·.1)).contains a = true := by simpa using ha
          rw [hc] at hc'; cases hc'
        · exact fun w hw => hall w (List.mem_cons_of_mem _ hw)

theorem insertId_perm (a : Id) (l : List Id) : (insertId a l).Perm (a :: l) := by
  induction l with
  | nil => exact List.Perm.refl _
  | cons b bs ih =>
    unfold insertId
    split
    · exact List.Perm.refl _
    · exact (List.Perm.cons b ih).trans (List.Perm.swap a b bs)

theorem sortIds_perm (l : List Id) : (sortIds l).Perm l := by
  induction l with
  | nil => exact List.Perm.refl _
  | cons a as ih => exact (insertId_perm a (sortIds as)).trans (List.Perm.cons a ih)

theorem mem_sortIds (l : List Id) (b : Id) : b ∈ sortIds l ↔ b ∈ l := (sortIds_perm l).mem_iff

theorem nodup_sortIds (l : List Id) : (sortIds l).Nodup ↔ l.Nodup := (sortIds_perm l).nodup_iff

theorem insertId_sorted (a : Id) (l : List Id) (h : l.Pairwise (· ≤ ·)) :
    (insertId a l).Pairwise (· ≤ ·) := by
  induction l with
  | nil => simp [insertId]
  | cons b bs ih =>
    unfold insertId
    rw [List.pairwise_cons] at h
    split
    · rename_i hab
      rw [List.pairwise_cons]
      refine ⟨?_, List.pairwise_cons.mpr h⟩
      intro c hc
      rcases List.mem_cons.mp hc with rfl | hc
      · exact hab
      · exact String.le_trans hab (h.1 c hc)
    · rename_i hab
      have hba : b ≤ a := (String.le_total a b).resolve_left hab
      rw [List.pairwise_cons]
      refine ⟨?_, ih h.2⟩
      intro c hc
      rcases List.mem_cons.mp ((insertId_perm a bs).mem_iff.mp hc) with rfl | hc
      · exact hba
      · exact h.1 c hc

theorem sorted_sortIds (l : List Id) : (sortIds l).Pairwise (· ≤ ·) := by
  induction l with
  | nil => exact List.Pairwise.nil
  | cons a as ih => exact insertId_sorted a (sortIds as) ih


theorem mapE_ok (f : β → Except Err γ) (g : β → γ) (xs : List β) (h : ∀ x ∈ xs, f x = .ok (g x)) :
    mapE f xs = .ok (xs.map g) := by
  induction xs with
  | nil => rfl
  | cons x xs ih =>
    unfold mapE
    rw [h x List.mem_cons_self]
    simp only [ih (fun y hy => h y (List.mem_cons_of_mem _ hy))]
    rfl

theorem mapE_error (f : β → Except Err γ) (xs : List β) (e : Err) (h : mapE f xs = .error e) :
    ∃ x ∈ xs, f x = .error e := by
  induction xs with
  | nil => simp [mapE] at h
  | cons x xs ih =>
    unfold mapE at h
    split at h
    · rename_i e' he
      injection h with h
      exact ⟨x, List.mem_cons_self, h ▸ he⟩
    · split at h
      · rename_i e' he
        injection h with h
        obtain ⟨y, hy, hfy⟩ := ih (h ▸ he)
        exact ⟨y, List.mem_cons_of_mem _ hy, hfy⟩
      · cases h

theorem reorder_error (order : List Id) (v : View α) (e : Err) (h : reorder order v = .error e) :
    e ≠ .disjointId := by
  unfold reorder at h
  split at h
  · injection h with h; subst h; decide
  · split at h
    · cases h
    · injection h with h; subst h; decide

theorem padSort_error [Zero α] (order : List Id) (first : List (Id × Md)) (v : View α) (e : Err)
    (h : padSort order first v = .error e) : e ≠ .disjointId := by
  unfold padSort sortIfNeeded at h
  split at h
  · cases h
  · exact reorder_error _ _ _ h

/-- the operand after the second loop, as a total function -/
def padSortD [Zero α] (order : List Id) (first : List (Id × Md)) (v : View α) : View α :=
  match padSort order first v with
  | .ok p => p
  | .error _ => v

def ViewsWF (vs : List (View α)) : Prop := ∀ v ∈ vs, v.WF ∧ v.oids.Nodup

theorem flatMap_map_congr {δ ε : Type} (vs : List β) (g : β → ε) (f : ε → List δ) (f' : β → List δ)
    (h : ∀ v ∈ vs, f (g v) = f' v) : (vs.map g).flatMap f = vs.flatMap f' := by
  induction vs with
  | nil => rfl
  | cons v vs ih =>
    simp only [List.map_cons, List.flatMap_cons]
    rw [h v List.mem_cons_self, ih (fun w hw => h w (List.mem_cons_of_mem _ hw))]

theorem concatViews_refuses_iff [Zero α] (vs : List (View α)) :
    concatViews vs = .error .disjointId ↔ ¬ (vs.map (·.aids)).Pairwise Disj := by
  unfold concatViews
  constructor
  · intro h hp
    obtain ⟨first, hf⟩ := (scan_ok_iff vs [] []).mpr ⟨by simp, hp⟩
    rw [hf] at h
    simp only at h
    split at h
    · rename_i e he
      injection h with h
      obtain ⟨x, _, hx⟩ := mapE_error _ _ _ he
      exact padSort_error _ _ _ _ hx h
    · cases h
  · intro hp
    cases hs : scan vs [] [] with
    | error e => rw [scan_error vs [] [] e hs]
    | ok first => exact absurd ((scan_ok_iff vs [] []).mp ⟨first, hs⟩).2 hp

theorem length_flatMap_congr {δ ε : Type} (vs : List β) (f : β → List δ) (g : β → List ε)
    (h : ∀ v ∈ vs, (f v).length = (g v).length) : (vs.flatMap f).length = (vs.flatMap g).length := by
  induction vs with
  | nil => rfl
  | cons v vs ih =>
    simp only [List.flatMap_cons, List.length_append]
    rw [h v List.mem_cons_self, ih (fun w hw => h w (List.mem_cons_of_mem _ hw))]

theorem amdEntries_length (v : View α) (hv : v.WF) : (amdEntries v).length = v.aids.length := by
  unfold amdEntries
  cases h : v.amd with
  | none => simp [hv.nvecs]
  | some m => simpa using hv.amdLen m h

/-- The result of the whole method on the oriented views, by ID. -/
theorem concatViews_spec [Zero α] (vs : List (View α)) (hwf : ViewsWF vs)
    (hdis : (vs.map (·.aids)).Pairwise Disj) :
    ∃ R, concatViews vs = .ok R ∧ R.oids.Nodup ∧ R.oids.Pairwise (· ≤ ·) ∧
      (∀ b, b ∈ R.oids ↔ ∃ v ∈ vs, b ∈ v.oids) ∧
      R.aids = vs.flatMap (·.aids) ∧
      R.vecs = vs.flatMap (fun v => v.vecs.map (ovec R.oids v)) ∧
      R.amd = normMd (some (vs.flatMap amdEntries)) ∧ R.WF := by
  obtain ⟨first, hf⟩ := (scan_ok_iff vs [] []).mpr ⟨by simp, hdis⟩
  obtain ⟨hmem, hnd⟩ := scan_ids vs [] [] first hf
  have hnd' : (sortIds (first.map (·.1))).Nodup :=
    (nodup_sortIds _).mpr (hnd (by simp) (fun v hv => (hwf v hv).2))
  have hpad : ∀ v ∈ vs, padSort (sortIds (first.map (·.1))) first v =
      .ok (padSortD (sortIds (first.map (·.1))) first v) := by
    intro v hv
    obtain ⟨p', hp, _⟩ := padSort_spec (sortIds (first.map (·.1))) first v hnd' (hwf v hv).1
    unfold padSortD
    rw [hp]
  have hfield : ∀ v ∈ vs,
      (padSortD (sortIds (first.map (·.1))) first v).aids = v.aids ∧
      (padSortD (sortIds (first.map (·.1))) first v).vecs =
        v.vecs.map (ovec (sortIds (first.map (·.1))) v) ∧
      amdEntries (padSortD (sortIds (first.map (·.1))) first v) = amdEntries v ∧
      (∀ m, (padSortD (sortIds (first.map (·.1))) first v).omd = some m →
        m.length = (sortIds (first.map (·.1))).length) := by
    intro v hv
    obtain ⟨p', hp, h1, _, h3, h4, h5⟩ := padSort_spec (sortIds (first.map (·.1))) first v hnd' (hwf v hv).1
    unfold padSortD
    rw [hp]
    exact ⟨h1, h3, h4, h5⟩
  refine ⟨{ aids := (vs.map (padSortD (sortIds (first.map (·.1))) first)).flatMap (·.aids),
             oids := sortIds (first.map (·.1)),
             vecs := (vs.map (padSortD (sortIds (first.map (·.1))) first)).flatMap (·.vecs),
             amd := normMd (some ((vs.map (padSortD (sortIds (first.map (·.1))) first)).flatMap amdEntries)),
             omd := normMd ((vs.map (padSortD (sortIds (first.map (·.1))) first)).head?.bind (·.omd)) },
          ?_, ?_⟩
  · unfold concatViews
    rw [hf]
    simp only
    rw [mapE_ok _ _ vs hpad]
  · have hA := flatMap_map_congr vs (padSortD (sortIds (first.map (·.1))) first) (·.aids) (·.aids)
      (fun v hv => (hfield v hv).1)
    have hV := flatMap_map_congr vs (padSortD (sortIds (first.map (·.1))) first) (·.vecs)
      (fun v => v.vecs.map (ovec (sortIds (first.map (·.1))) v)) (fun v hv => (hfield v hv).2.1)
    have hM := flatMap_map_congr vs (padSortD (sortIds (first.map (·.1))) first) amdEntries amdEntries
      (fun v hv => (hfield v hv).2.2.1)
    refine ⟨hnd', sorted_sortIds _, ?_, hA, hV, ?_, ?_⟩
    · intro b
      rw [mem_sortIds, hmem b]
      simp
    · show normMd (some _) = _
      rw [hM]
    · constructor
      · show (List.flatMap _ _).length = (List.flatMap _ _).length
        rw [hA, hV]
        exact length_flatMap_congr vs _ _ (fun v hv => by simp [(hwf v hv).1.nvecs])
      · show ∀ vec ∈ List.flatMap (fun (x : View α) => x.vecs) _,
            vec.length = (sortIds (first.map (·.1))).length
        rw [hV]
        intro vec hvec
        obtain ⟨v, _, hv2⟩ := List.mem_flatMap.mp hvec
        obtain ⟨w, _, rfl⟩ := List.mem_map.mp hv2
        simp [ovec]
      · show ∀ m, normMd (some _) = some m → m.length = (List.flatMap _ _).length
        rw [hA, hM]
        apply normMd_length
        intro l hl
        injection hl with hl
        subst hl
        exact length_flatMap_congr vs _ _ (fun v hv => amdEntries_length v (hwf v hv).1)
      · show ∀ m, normMd _ = some m → m.length = (sortIds (first.map (·.1))).length
        apply normMd_length
        intro l hl
        cases vs with
        | nil => cases hl
        | cons v rest =>
          simp only [List.map_cons, List.head?_cons, Option.bind_some] at hl
          exact (hfield v List.mem_cons_self).2.2.2 l hl


theorem lookupBy_map_right (ids : List Id) (xs : List β) (f : β → γ) (i : Id) :
    lookupBy ids (xs.map f) i = (lookupBy ids xs i).map f := by
  induction ids generalizing xs with
  | nil => rfl
  | cons a as ih =>
    cases xs with
    | nil => rfl
    | cons x xs =>
      by_cases ha : a = i
      · simp [lookupBy, ha]
      · simp only [List.map_cons, lookupBy, ha, if_false]; exact ih xs

theorem lookupBy_mem (ids : List Id) (xs : List β) (i : Id) (x : β) (h : lookupBy ids xs i = some x) :
    x ∈ xs := by
  induction ids generalizing xs with
  | nil => cases h
  | cons a as ih =>
    cases xs with
    | nil => cases h
    | cons y ys =>
      by_cases ha : a = i
      · simp only [lookupBy, ha, if_true] at h
        injection h with h; subst h; exact List.mem_cons_self
      · simp only [lookupBy, ha, if_false] at h
        exact List.mem_cons_of_mem _ (ih ys h)

/-- blocks laid side by side: an ID is found in the block of the operand that owns it -/
theorem lookupBy_flatMap (vs : List β) (f : β → List Id) (g : β → List γ)
    (hlen : ∀ v ∈ vs, (f v).length = (g v).length) (hdis : (vs.map f).Pairwise Disj)
    (v : β) (hv : v ∈ vs) (a : Id) (ha : a ∈ f v) :
    lookupBy (vs.flatMap f) (vs.flatMap g) a = lookupBy (f v) (g v) a := by
  induction vs with
  | nil => cases hv
  | cons w rest ih =>
    simp only [List.flatMap_cons]
    rw [lookupBy_append _ _ _ _ _ (hlen w List.mem_cons_self)]
    simp only [List.map_cons, List.pairwise_cons] at hdis
    rcases List.mem_cons.mp hv with rfl | hrest
    · simp only [ha, if_true]
    · have hnw : a ∉ f w := fun haw => hdis.1 (f v) (List.mem_map_of_mem hrest) a haw ha
      simp only [hnw, if_false]
      exact ih (fun u hu => hlen u (List.mem_cons_of_mem _ hu)) hdis.2 hrest

def View.cell? (v : View α) (a b : Id) : Option α :=
  (lookupBy v.aids v.vecs a).bind (fun vec => lookupBy v.oids vec b)

def View.amdEntry (v : View α) (a : Id) : Md := (v.amd.bind (fun m => lookupBy v.aids m a)).getD []

def View.total [Add α] [Zero α] (v : View α) : α := sumL (v.vecs.map sumL)

theorem view_cell [Zero α] (vs : List (View α)) (hwf : ViewsWF vs)
    (hdis : (vs.map (·.aids)).Pairwise Disj) (R : View α)
    (hRa : R.aids = vs.flatMap (·.aids))
    (hRv : R.vecs = vs.flatMap (fun v => v.vecs.map (ovec R.oids v)))
    (v : View α) (hv : v ∈ vs) (a : Id) (ha : a ∈ v.aids) (b : Id) (hb : b ∈ R.oids) :
    R.cell? a b = some (if b ∈ v.oids then (v.cell? a b).getD 0 else 0) ∧
    (b ∈ v.oids → ∃ x, v.cell? a b = some x) := by
  have hvw := (hwf v hv).1
  obtain ⟨vec, hvec⟩ := lookupBy_isSome v.aids v.vecs a hvw.nvecs.ge ha
  have hlen := hvw.lens vec (lookupBy_mem _ _ _ _ hvec)
  have hR : lookupBy R.aids R.vecs a = some (ovec R.oids v vec) := by
    rw [hRa, hRv]
    rw [lookupBy_flatMap vs (·.aids) (fun v => v.vecs.map (ovec R.oids v))
      (fun u hu => by simp [(hwf u hu).1.nvecs]) hdis v hv a ha]
    rw [lookupBy_map_right, hvec]; rfl
  have hvc : v.cell? a b = lookupBy v.oids vec b := by
    unfold View.cell?; rw [hvec]; rfl
  constructor
  · rw [hvc]
    unfold View.cell?
    rw [hR]
    simp only [Option.bind_some, ovec]
    rw [lookupBy_map _ _ _ hb]
    by_cases hbv : b ∈ v.oids
    · simp only [hbv, if_true]
    · simp only [hbv, if_false, lookupBy_not_mem _ _ _ hbv]; rfl
  · intro hbv
    rw [hvc]
    exact lookupBy_isSome _ _ _ hlen.ge hbv

theorem amdEntry_eq (v : View α) (a : Id) :
    v.amdEntry a = (lookupBy v.aids (amdEntries v) a).getD [] := by
  unfold View.amdEntry amdEntries
  cases v.amd with
  | none => simp [lookupBy_replicate]
  | some m => rfl

theorem lookupBy_all_empty (ids : List Id) (l : List Md) (a : Id)
    (h : l.all (fun m => m.isEmpty) = true) : (lookupBy ids l a).getD [] = [] := by
  cases hl : lookupBy ids l a with
  | none => rfl
  | some m =>
    have := List.all_eq_true.mp h m (lookupBy_mem _ _ _ _ hl)
    simpa using this

theorem normMd_lookup (ids : List Id) (l : List Md) (a : Id) :
    ((normMd (some l)).bind (fun m => lookupBy ids m a)).getD [] = (lookupBy ids l a).getD [] := by
  cases h : l.all (fun m => m.isEmpty) with
  | true => rw [normMd_all l h, lookupBy_all_empty ids l a h]; rfl
  | false => rw [normMd_not_all l h]; rfl

theorem view_md (vs : List (View α)) (hwf : ViewsWF vs)
    (hdis : (vs.map (·.aids)).Pairwise Disj) (R : View α)
    (hRa : R.aids = vs.flatMap (·.aids))
    (hRm : R.amd = normMd (some (vs.flatMap amdEntries)))
    (v : View α) (hv : v ∈ vs) (a : Id) (ha : a ∈ v.aids) :
    R.amdEntry a = v.amdEntry a := by
  rw [amdEntry_eq v a]
  unfold View.amdEntry
  rw [hRm, normMd_lookup, hRa]
  rw [lookupBy_flatMap vs (·.aids) amdEntries
    (fun u hu => (amdEntries_length u (hwf u hu).1).symm) hdis v hv a ha]

/-- the axis has no metadata in the result exactly when every operand's entries are empty -/
theorem view_md_none (vs : List (View α)) (R : View α)
    (hRm : R.amd = normMd (some (vs.flatMap amdEntries))) :
    R.amd = none ↔ ∀ v ∈ vs, ∀ m ∈ amdEntries v, m = [] := by
  rw [hRm]
  cases h : (vs.flatMap amdEntries).all (fun m => m.isEmpty) with
  | true =>
    rw [normMd_all _ h]
    simp only [true_iff]
    intro v hv m hm
    have := List.all_eq_true.mp h m (List.mem_flatMap.mpr ⟨v, hv, hm⟩)
    simpa using this
  | false =>
    rw [normMd_not_all _ h]
    simp only [reduceCtorEq, false_iff]
    intro hall
    have : (vs.flatMap amdEntries).all (fun m => m.isEmpty) = true := by
      apply List.all_eq_true.mpr
      intro m hm
      obtain ⟨v, hv, hmv⟩ := List.mem_flatMap.mp hm
      simp [hall v hv m hmv]
    rw [h] at this; cases this


section sums
variable {M : Type} [AddCommMonoid M]

theorem sumL_nil : sumL ([] : List M) = 0 := rfl
theorem sumL_cons (x : M) (xs : List M) : sumL (x :: xs) = x + sumL xs := rfl

theorem sumL_append (xs ys : List M) : sumL (xs ++ ys) = sumL xs + sumL ys := by
  induction xs with
  | nil => simp [sumL_nil]
  | cons x xs ih => rw [List.cons_append, sumL_cons, sumL_cons, ih, add_assoc]

theorem sumL_perm {xs ys : List M} (h : xs.Perm ys) : sumL xs = sumL ys := by
  induction h with
  | nil => rfl
  | cons x _ ih => rw [sumL_cons, sumL_cons, ih]
  | swap x y l => rw [sumL_cons, sumL_cons, sumL_cons, sumL_cons, add_left_comm]
  | trans _ _ ih1 ih2 => exact ih1.trans ih2

theorem sumL_map_zero (l : List β) : sumL (l.map (fun _ => (0 : M))) = 0 := by
  induction l with
  | nil => rfl
  | cons x xs ih => rw [List.map_cons, sumL_cons, ih, add_zero]

theorem sumL_flatMap (l : List β) (f : β → List M) :
    sumL (l.flatMap f) = sumL (l.map (fun x => sumL (f x))) := by
  induction l with
  | nil => rfl
  | cons x xs ih => rw [List.flatMap_cons, sumL_append, ih, List.map_cons, sumL_cons]

theorem sumL_map_add (l : List β) (f g : β → M) :
    sumL (l.map (fun x => f x + g x)) = sumL (l.map f) + sumL (l.map g) := by
  induction l with
  | nil => simp [sumL_nil]
  | cons x xs ih =>
    simp only [List.map_cons, sumL_cons, ih]
    rw [add_assoc, add_assoc, add_left_comm (g x)]

/-- re-indexing a vector to the common order (zeros for the IDs it lacks) keeps its sum -/
theorem sumL_ovec (order : List Id) (v : View M) (vec : List M) (hn : order.Nodup)
    (hvn : v.oids.Nodup) (hsub : ∀ b ∈ v.oids, b ∈ order) (hlen : vec.length = v.oids.length) :
    sumL (ovec order v vec) = sumL vec := by
  have hperm : order.Perm (v.oids ++ order.filter (fun b => !v.oids.contains b)) := by
    apply (List.perm_ext_iff_of_nodup hn ?_).mpr
    · intro b
      simp only [List.mem_append, List.mem_filter]
      constructor
      · intro hb
        by_cases h : b ∈ v.oids
        · exact Or.inl h
        · exact Or.inr ⟨hb, by simpa using h⟩
      · rintro (h | h)
        · exact hsub b h
        · exact h.1
    · rw [List.nodup_append]
      refine ⟨hvn, hn.filter _, ?_⟩
      intro a ha b hb hab
      subst hab
      have := (List.mem_filter.mp hb).2
      have hc : v.oids.contains a = false := by simpa using this
      have hc' : v.oids.contains a = true := by simpa using ha
      rw [hc] at hc'; cases hc'
  unfold ovec
  rw [sumL_perm (hperm.map _), List.map_append, sumL_append]
  rw [map_lookupBy_self v.oids vec 0 hvn hlen.symm]
  have hz : (order.filter (fun b => !v.oids.contains b)).map (fun b => (lookupBy v.oids vec b).getD 0) =
      (order.filter (fun b => !v.oids.contains b)).map (fun _ => (0 : M)) := by
    apply List.map_congr_left
    intro b hb
    have : b ∉ v.oids := by
      have := (List.mem_filter.mp hb).2
      simpa using this
    rw [lookupBy_not_mem _ _ _ this]; rfl
  rw [hz, sumL_map_zero, add_zero]

theorem view_total (vs : List (View M)) (hwf : ViewsWF vs) (R : View M) (hn : R.oids.Nodup)
    (hmem : ∀ b, b ∈ R.oids ↔ ∃ v ∈ vs, b ∈ v.oids)
    (hRv : R.vecs = vs.flatMap (fun v => v.vecs.map (ovec R.oids v))) :
    R.total = sumL (vs.map View.total) := by
  unfold View.total
  rw [hRv, List.map_flatMap, sumL_flatMap]
  congr 1
  apply List.map_congr_left
  intro v hv
  congr 1
  rw [List.map_map]
  apply List.map_congr_left
  intro vec hvec
  exact sumL_ovec R.oids v vec hn (hwf v hv).2 (fun b hb => (hmem b).mpr ⟨v, hv, hb⟩)
    ((hwf v hv).1.lens vec hvec)

end sums

/-! ### transposition of a grid, by ID -/

theorem lookupBy_filterMap (ids : List Id) (grid : List β) (f : β → Option γ) (b : Id)
    (h : ∀ r ∈ grid, ∃ y, f r = some y) :
    lookupBy ids (grid.filterMap f) b = (lookupBy ids grid b).bind f := by
  induction ids generalizing grid with
  | nil => cases grid <;> rfl
  | cons a as ih =>
    cases grid with
    | nil => rfl
    | cons r rs =>
      obtain ⟨y, hy⟩ := h r List.mem_cons_self
      rw [List.filterMap_cons, hy]
      by_cases ha : a = b
      · simp [lookupBy, ha, hy]
      · simp only [lookupBy, ha, if_false]
        exact ih rs (fun r' hr' => h r' (List.mem_cons_of_mem _ hr'))

theorem transposeGrid_getElem? (n : Nat) (grid : List (List α)) (j : Nat) (hj : j < n) :
    (transposeGrid n grid)[j]? = some (colAt grid j) := by
  unfold transposeGrid
  rw [List.getElem?_map, List.getElem?_range hj]
  rfl

theorem indexOf?_lt (ids : List Id) (i : Id) (j : Nat) (h : indexOf? ids i = some j) : j < ids.length := by
  unfold indexOf? at h
  by_cases hlt : ids.idxOf i < ids.length
  · simp only [hlt, if_true] at h
    injection h with h
    omega
  · simp only [hlt, if_false] at h; cases h

/-- the value at (a, b) read through the transposed grid equals the value read directly -/
theorem cell_transpose (ids1 ids2 : List Id) (grid : List (List α)) (a b : Id)
    (hl : ∀ r ∈ grid, r.length = ids2.length) :
    (lookupBy ids2 (transposeGrid ids2.length grid) a).bind (fun c => lookupBy ids1 c b) =
    (lookupBy ids1 grid b).bind (fun r => lookupBy ids2 r a) := by
  by_cases ha : a ∈ ids2
  · obtain ⟨j, hj⟩ := indexOf?_isSome ids2 a ha
    have hlt := indexOf?_lt ids2 a j hj
    rw [← lookupBy_eq_getElem? ids2 _ a j hj, transposeGrid_getElem? _ _ _ hlt]
    simp only [Option.bind_some]
    unfold colAt
    rw [lookupBy_filterMap ids1 grid _ b
      (fun r hr => ⟨r[j]'(by rw [hl r hr]; exact hlt), List.getElem?_eq_getElem _⟩)]
    congr 1
    funext r
    exact lookupBy_eq_getElem? ids2 r a j hj
  · rw [lookupBy_not_mem _ _ _ ha]
    cases lookupBy ids1 grid b with
    | none => rfl
    | some r => simp [lookupBy_not_mem _ _ _ ha]

theorem colAt_length (grid : List (List α)) (j : Nat) (h : ∀ r ∈ grid, j < r.length) :
    (colAt grid j).length = grid.length := by
  unfold colAt
  induction grid with
  | nil => rfl
  | cons r rs ih =>
    have hr : r[j]? = some (r[j]'(h r List.mem_cons_self)) := List.getElem?_eq_getElem _
    rw [List.filterMap_cons, hr]
    simp only [List.length_cons]
    rw [ih (fun r' hr' => h r' (List.mem_cons_of_mem _ hr'))]

section sums
variable {M : Type} [AddCommMonoid M]

theorem range_map_getD (r : List M) : (List.range r.length).map (fun j => (r[j]?).getD 0) = r := by
  apply List.ext_getElem
  · simp
  · intro i h1 h2
    simp at h1
    simp [h1]

/-- summing a grid by columns or by rows gives the same total -/
theorem sumL_transposeGrid (n : Nat) (grid : List (List M)) (hl : ∀ r ∈ grid, r.length = n) :
    sumL ((transposeGrid n grid).map sumL) = sumL (grid.map sumL) := by
  unfold transposeGrid
  rw [List.map_map]
  induction grid with
  | nil =>
    have : (List.range n).map (sumL ∘ colAt ([] : List (List M))) = (List.range n).map (fun _ => (0 : M)) := by
      apply List.map_congr_left
      intro j _
      rfl
    rw [this, sumL_map_zero]; rfl
  | cons r rs ih =>
    have hr := hl r List.mem_cons_self
    have hstep : (List.range n).map (sumL ∘ colAt (r :: rs)) =
        (List.range n).map (fun j => (r[j]?).getD 0 + (sumL ∘ colAt rs) j) := by
      apply List.map_congr_left
      intro j hj
      have hjn : j < r.length := by rw [hr]; exact List.mem_range.mp hj
      have hrj : r[j]? = some (r[j]'hjn) := List.getElem?_eq_getElem _
      simp only [Function.comp, colAt, List.filterMap_cons, hrj, Option.getD_some]
      rfl
    rw [hstep, sumL_map_add, ih (fun r' hr' => hl r' (List.mem_cons_of_mem _ hr'))]
    rw [List.map_cons, sumL_cons]
    congr 1
    rw [← hr, range_map_getD]

end sums

/-! ### tables and their oriented views -/

/-- the operands are tables: consistent shapes, distinct IDs on both axes -/
def OpsWF (ts : List (Table α)) : Prop := ∀ t ∈ ts, t.WF ∧ t.obs.Nodup ∧ t.samp.Nodup

theorem viewOf_aids (ax : Axis) (t : Table α) : (viewOf ax t).aids = t.ids ax := by cases ax <;> rfl
theorem viewOf_oids (ax : Axis) (t : Table α) : (viewOf ax t).oids = t.ids ax.other := by cases ax <;> rfl
theorem tableOf_aids (ax : Axis) (ty : Option String) (R : View α) : (tableOf ax ty R).ids ax = R.aids := by
  cases ax <;> rfl
theorem tableOf_oids (ax : Axis) (ty : Option String) (R : View α) :
    (tableOf ax ty R).ids ax.other = R.oids := by cases ax <;> rfl

theorem transposeGrid_lens (n : Nat) (grid : List (List α)) (h : ∀ r ∈ grid, r.length = n) :
    (transposeGrid n grid).length = n ∧ ∀ c ∈ transposeGrid n grid, c.length = grid.length := by
  unfold transposeGrid
  refine ⟨by simp, ?_⟩
  intro c hc
  obtain ⟨j, hj, rfl⟩ := List.mem_map.mp hc
  exact colAt_length grid j (fun r hr => by rw [h r hr]; exact List.mem_range.mp hj)

theorem viewOf_WF (ax : Axis) (t : Table α) (h : t.WF) : (viewOf ax t).WF := by
  obtain ⟨h1, h2, h3, h4⟩ := h
  cases ax with
  | obs => exact ⟨h1, h2, h3, h4⟩
  | samp =>
    obtain ⟨l1, l2⟩ := transposeGrid_lens t.samp.length t.rows h2
    exact ⟨l1, fun c hc => (l2 c hc).trans h1, h4, h3⟩

theorem viewsWF_of_ops (ax : Axis) (ts : List (Table α)) (h : OpsWF ts) : ViewsWF (ts.map (viewOf ax)) := by
  intro v hv
  obtain ⟨t, ht, rfl⟩ := List.mem_map.mp hv
  refine ⟨viewOf_WF ax t (h t ht).1, ?_⟩
  rw [viewOf_oids]
  cases ax with
  | obs => exact (h t ht).2.2
  | samp => exact (h t ht).2.1

theorem tableOf_WF (ax : Axis) (ty : Option String) (R : View α) (h : R.WF) : (tableOf ax ty R).WF := by
  obtain ⟨h1, h2, h3, h4⟩ := h
  cases ax with
  | obs => exact ⟨h1, h2, h3, h4⟩
  | samp =>
    obtain ⟨l1, l2⟩ := transposeGrid_lens R.oids.length R.vecs h2
    exact ⟨l1, fun c hc => (l2 c hc).trans h1, h4, h3⟩

theorem wfb_of_WF [DecidableEq α] (t : Table α) (h : t.WF) : t.wfb = true := by
  obtain ⟨h1, h2, h3, h4⟩ := h
  unfold Table.wfb
  simp only [Bool.and_eq_true, beq_iff_eq, List.all_eq_true]
  refine ⟨⟨⟨h1, h2⟩, ?_⟩, ?_⟩
  · cases ho : t.omd with
    | none => rfl
    | some m => simpa using h3 m ho
  · cases hs : t.smd with
    | none => rfl
    | some m => simpa using h4 m hs

theorem cellAx_viewOf (ax : Axis) (t : Table α) (h : t.WF) (a b : Id) :
    (viewOf ax t).cell? a b = cellAx? t ax a b := by
  cases ax with
  | obs => rfl
  | samp => exact cell_transpose t.obs t.samp t.rows a b h.2.1

theorem cellAx_tableOf (ax : Axis) (ty : Option String) (R : View α)
    (h : ∀ vec ∈ R.vecs, vec.length = R.oids.length) (a b : Id) :
    cellAx? (tableOf ax ty R) ax a b = R.cell? a b := by
  cases ax with
  | obs => rfl
  | samp => exact cell_transpose R.aids R.oids R.vecs b a h

theorem mdEntry_viewOf (ax : Axis) (t : Table α) (a : Id) : (viewOf ax t).amdEntry a = mdEntry t ax a := by
  cases ax <;> rfl

theorem mdEntry_tableOf (ax : Axis) (ty : Option String) (R : View α) (a : Id) :
    mdEntry (tableOf ax ty R) ax a = R.amdEntry a := by
  cases ax <;> rfl

theorem total_viewOf {M : Type} [AddCommMonoid M] (ax : Axis) (t : Table M) (h : t.WF) :
    (viewOf ax t).total = total t := by
  cases ax with
  | obs => rfl
  | samp => exact sumL_transposeGrid t.samp.length t.rows h.2.1

theorem total_tableOf {M : Type} [AddCommMonoid M] (ax : Axis) (ty : Option String) (R : View M)
    (h : ∀ vec ∈ R.vecs, vec.length = R.oids.length) : total (tableOf ax ty R) = R.total := by
  cases ax with
  | obs => rfl
  | samp => exact sumL_transposeGrid R.oids.length R.vecs h


/-! ### other-axis metadata of a padded operand; the enumeration of the missing IDs is irrelevant -/

abbrev omdList (v : View α) : List Md := v.omd.getD (List.replicate v.oids.length [])

/-- other-axis metadata entry of `b` in the padded operand: the operand's own entry if it has `b`,
else the entry of the operand that showed `b` first -/
def padEntry (first : List (Id × Md)) (v : View α) (b : Id) : Md :=
  if b ∈ v.oids then (lookupBy v.oids (omdList v) b).getD [] else (first.lookup b).getD []

theorem padWith_sort_omd [Zero α] (order : List Id) (first : List (Id × Md)) (m : Id) (ms : List Id)
    (v : View α) (hn : order.Nodup) (hv : v.WF) (hcover : ∀ b ∈ order, b ∈ v.oids ∨ b ∈ m :: ms)
    (p' : View α) (hp : sortIfNeeded order (padWith first (m :: ms) v) = .ok p') :
    p'.omd = normMd (some (order.map (padEntry first v))) := by
  obtain ⟨_, hmem, h2, h3, _, _⟩ := padWith_facts first (m :: ms) v hv
  have hcases := sortIfNeeded_cases order (padWith first (m :: ms) v)
    (fun b hb => (hmem b).mpr (hcover b hb)) h2 h3
  rw [padWith_cons] at hcases hp
  -- the entry list of the padded operand, read by ID
  have hE : ∀ b ∈ order,
      (lookupBy (v.oids ++ m :: ms) (omdList v ++ (m :: ms).map (fun i => (first.lookup i).getD [])) b).getD [] =
        padEntry first v b := by
    intro b hb
    rw [lookupBy_append _ _ _ _ _ (omdList_length v hv).symm]
    unfold padEntry
    by_cases hbv : b ∈ v.oids
    · simp only [hbv, if_true]
    · simp only [hbv, if_false]
      have hbm : b ∈ m :: ms := (hcover b hb).resolve_left hbv
      rw [lookupBy_map _ _ _ hbm]; rfl
  have hmap : order.map (fun b => (lookupBy (v.oids ++ m :: ms)
      (omdList v ++ (m :: ms).map (fun i => (first.lookup i).getD [])) b).getD []) =
      order.map (padEntry first v) := List.map_congr_left hE
  rcases hcases with ⟨he, hs⟩ | hs
  · rw [hs] at hp
    injection hp with hp
    subst hp
    show normMd (some _) = _
    dsimp only at he
    congr 2
    rw [← hmap, ← he]
    exact (map_lookupBy_self _ _ [] (he ▸ hn) (by simp [omdList_length v hv])).symm
  · rw [hs] at hp
    injection hp with hp
    subst hp
    show normMd (Option.map _ (normMd (some _))) = _
    cases hall : (v.omd.getD (List.replicate v.oids.length []) ++
        (m :: ms).map (fun i => (first.lookup i).getD [])).all (fun m => m.isEmpty) with
    | true =>
      rw [normMd_all _ hall]
      symm
      apply normMd_all
      rw [← hmap]
      apply List.all_eq_true.mpr
      intro x hx
      obtain ⟨b, _, rfl⟩ := List.mem_map.mp hx
      have := lookupBy_all_empty (v.oids ++ m :: ms) _ b hall
      simp only [omdList]
      rw [this]; rfl
    | false =>
      rw [normMd_not_all _ hall]
      simp only [Option.map_some]
      congr 2

/-- **The order in which the missing IDs are enumerated does not matter**: Python iterates a set
here; whatever order it produces, the operand after `sort_order` is the one the model computes. -/
theorem padSort_missing_order [Zero α] (order : List Id) (first : List (Id × Md)) (v : View α)
    (missing' : List Id) (hn : order.Nodup) (hv : v.WF) (hperm : missing'.Perm (missingOf order v)) :
    sortIfNeeded order (padWith first missing' v) = padSort order first v := by
  unfold padSort pad
  cases hm : missingOf order v with
  | nil =>
    rw [hm] at hperm
    rw [List.perm_nil.mp hperm]
  | cons m ms =>
    rw [hm] at hperm
    cases hm' : missing' with
    | nil => rw [hm'] at hperm; exact absurd hperm.symm.eq_nil (by simp)
    | cons m' ms' =>
      rw [hm'] at hperm
      have hc : ∀ b ∈ order, b ∈ v.oids ∨ b ∈ m :: ms := by
        intro b hb
        by_cases h : b ∈ v.oids
        · exact Or.inl h
        · exact Or.inr (hm ▸ (mem_missingOf order v b).mpr ⟨hb, h⟩)
      have hc' : ∀ b ∈ order, b ∈ v.oids ∨ b ∈ m' :: ms' :=
        fun b hb => (hc b hb).imp id (fun h => hperm.mem_iff.mpr h)
      obtain ⟨p1, hp1, a1, o1, v1, _, _⟩ := padWith_sort_spec order first (m :: ms) v hn hv hc
      obtain ⟨p2, hp2, a2, o2, v2, _, _⟩ := padWith_sort_spec order first (m' :: ms') v hn hv hc'
      have m1 := padWith_sort_omd order first m ms v hn hv hc p1 hp1
      have m2 := padWith_sort_omd order first m' ms' v hn hv hc' p2 hp2
      have am : ∀ (x : Id) (xs : List Id) (p : View α),
          sortIfNeeded order (padWith first (x :: xs) v) = .ok p → p.amd = normMd v.amd := by
        intro x xs p hp
        rw [padWith_cons] at hp
        unfold sortIfNeeded at hp
        split at hp
        · injection hp with hp; subst hp; rfl
        · rename_i hne
          obtain ⟨_, hmem, h2, h3, _, _⟩ := padWith_facts first (x :: xs) v hv
          rw [padWith_cons] at hmem h2 h3
          cases hr : reorder order
              { aids := v.aids, oids := v.oids ++ x :: xs,
                vecs := v.vecs.map (fun vec => vec ++ List.replicate (x :: xs).length 0),
                amd := normMd v.amd,
                omd := normMd (some (v.omd.getD (List.replicate v.oids.length []) ++
                  (x :: xs).map (fun i => (first.lookup i).getD []))) } with
          | error e => rw [hr] at hp; cases hp
          | ok q =>
            rw [hr] at hp
            injection hp with hp
            subst hp
            unfold reorder at hr
            split at hr
            · cases hr
            · split at hr
              · injection hr with hr
                subst hr
                exact normMd_idem _
              · cases hr
      rw [hp1, hp2]
      congr 1
      cases p1; cases p2
      simp only [View.mk.injEq]
      simp only at a1 a2 o1 o2 v1 v2 m1 m2
      refine ⟨a2.trans a1.symm, o2.trans o1.symm, v2.trans v1.symm, ?_, m2.trans m1.symm⟩
      exact (am m' ms' _ hp2).trans (am m ms _ hp1).symm


/-! ### other-axis metadata (modelled and compared in the correspondence; not part of `holds`) -/

theorem lookup_append_left {κ : Type} (l l' : List (Id × κ)) (b : Id) (h : b ∈ l.map (·.1)) :
    (l ++ l').lookup b = l.lookup b := by
  induction l with
  | nil => cases h
  | cons x xs ih =>
    obtain ⟨k, y⟩ := x
    by_cases hk : b = k
    · subst hk; simp [List.lookup]
    · have hb : (b == k) = false := by simpa using hk
      simp only [List.cons_append, List.lookup, hb]
      apply ih
      simp only [List.map_cons, List.mem_cons] at h
      exact h.resolve_left hk

theorem lookup_append_right {κ : Type} (l l' : List (Id × κ)) (b : Id) (h : b ∉ l.map (·.1)) :
    (l ++ l').lookup b = l'.lookup b := by
  induction l with
  | nil => rfl
  | cons x xs ih =>
    obtain ⟨k, y⟩ := x
    simp only [List.map_cons, List.mem_cons, not_or] at h
    have hb : (b == k) = false := by simpa using h.1
    simp only [List.cons_append, List.lookup, hb]
    exact ih h.2

theorem lookup_map_pair {κ : Type} (l : List Id) (f : Id → κ) (b : Id) (h : b ∈ l) :
    (l.map (fun i => (i, f i))).lookup b = some (f b) := by
  induction l with
  | nil => cases h
  | cons x xs ih =>
    by_cases hk : b = x
    · subst hk; simp
    · have hb : (b == x) = false := by simpa using hk
      simp only [List.map_cons, List.lookup, hb]
      exact ih ((List.mem_cons.mp h).resolve_left hk)

theorem lookup_none_of_not_mem {κ : Type} (l : List (Id × κ)) (b : Id) (h : b ∉ l.map (·.1)) :
    l.lookup b = none := by
  induction l with
  | nil => rfl
  | cons x xs ih =>
    obtain ⟨k, y⟩ := x
    simp only [List.map_cons, List.mem_cons, not_or] at h
    have hb : (b == k) = false := by simpa using h.1
    simp only [List.lookup, hb]
    exact ih h.2

/-- `first` maps an other-axis ID to the entry of the first operand (in operand order) that has it -/
theorem scan_lookup (vs : List (View α)) (seen : List Id) (inv inv' : List (Id × Md))
    (h : scan vs seen inv = .ok inv') (b : Id) :
    inv'.lookup b = if b ∈ inv.map (·.1) then inv.lookup b
      else (vs.find? (fun v => v.oids.contains b)).map (fun v => entryOf v b) := by
  induction vs generalizing seen inv with
  | nil =>
    simp only [scan] at h
    injection h with h
    subst h
    split
    · rfl
    · rename_i hb
      rw [lookup_none_of_not_mem _ b hb]; rfl
  | cons v rest ih =>
    unfold scan at h
    split at h
    · cases h
    · have := ih _ _ h
      rw [this]
      have hids : (inv ++ (v.oids.filter (fun i => !(inv.map (·.1)).contains i)).map
            (fun i => (i, entryOf v i))).map (·.1) =
          inv.map (·.1) ++ v.oids.filter (fun i => !(inv.map (·.1)).contains i) := by
        simp [List.map_append, List.map_map, Function.comp_def]
      rw [hids]
      by_cases hb : b ∈ inv.map (·.1)
      · simp only [List.mem_append, hb, true_or, if_true]
        exact lookup_append_left _ _ b hb
      · simp only [hb, if_false, List.mem_append, false_or, List.mem_filter]
        by_cases hbv : b ∈ v.oids
        · have hc : (!(inv.map (·.1)).contains b) = true := by simpa using hb
          have hfresh : b ∈ v.oids.filter (fun i => !(inv.map (·.1)).contains i) :=
            List.mem_filter.mpr ⟨hbv, hc⟩
          simp only [hbv, hc, and_self, if_true]
          rw [lookup_append_right _ _ b hb, lookup_map_pair _ _ b hfresh]
          simp [hbv]
        · simp [hbv]

theorem sortIfNeeded_omd_norm [Zero α] (order : List Id) (p : View α) (hn : order.Nodup)
    (h1 : ∀ b ∈ order, b ∈ p.oids) (h2 : ∀ vec ∈ p.vecs, vec.length = p.oids.length)
    (h3 : ∀ m, p.omd = some m → m.length = p.oids.length)
    (p' : View α) (hp : sortIfNeeded order p = .ok p') :
    normMd p'.omd = normMd (p.omd.map (fun m => order.map (fun b => (lookupBy p.oids m b).getD []))) := by
  rcases sortIfNeeded_cases order p h1 h2 h3 with ⟨he, hs⟩ | hs
  · rw [hs] at hp; injection hp with hp; subst hp
    cases hm : p.omd with
    | none => rfl
    | some m =>
      simp only [Option.map_some]
      rw [← he, map_lookupBy_self p.oids m [] (he ▸ hn) (h3 m hm).symm]
  · rw [hs] at hp; injection hp with hp; subst hp
    exact normMd_idem _

/-- other-axis metadata of an operand after the second loop, up to the constructor's normalisation -/
theorem padSort_omd_norm [Zero α] (order : List Id) (first : List (Id × Md)) (v : View α)
    (hn : order.Nodup) (hv : v.WF) (p' : View α) (hp : padSort order first v = .ok p') :
    normMd p'.omd = normMd (some (order.map (padEntry first v))) := by
  unfold padSort pad at hp
  have hc : ∀ b ∈ order, b ∈ v.oids ∨ b ∈ missingOf order v := by
    intro b hb
    by_cases h : b ∈ v.oids
    · exact Or.inl h
    · exact Or.inr ((mem_missingOf order v b).mpr ⟨hb, h⟩)
  cases hm : missingOf order v with
  | cons m ms =>
    rw [hm] at hp hc
    rw [padWith_sort_omd order first m ms v hn hv hc p' hp, normMd_idem]
  | nil =>
    rw [hm, padWith_nil] at hp
    rw [hm] at hc
    have hsub : ∀ b ∈ order, b ∈ v.oids := fun b hb => (hc b hb).resolve_right (by simp)
    rw [sortIfNeeded_omd_norm order v hn hsub hv.lens hv.omdLen p' hp]
    have hpe : ∀ b ∈ order, padEntry first v b = (lookupBy v.oids (omdList v) b).getD [] := by
      intro b hb
      simp [padEntry, hsub b hb]
    rw [List.map_congr_left hpe]
    cases ho : v.omd with
    | some m => simp [omdList, ho]
    | none =>
      simp only [Option.map_none, omdList, ho, Option.getD_none]
      symm
      apply normMd_all
      apply List.all_eq_true.mpr
      intro x hx
      obtain ⟨b, _, rfl⟩ := List.mem_map.mp hx
      rw [lookupBy_replicate]; rfl

theorem concatViews_omd [Zero α] (v0 : View α) (rest : List (View α)) (hwf : ViewsWF (v0 :: rest))
    (R : View α) (h : concatViews (v0 :: rest) = .ok R) :
    ∃ first, scan (v0 :: rest) [] [] = .ok first ∧
      R.omd = normMd (some (R.oids.map (padEntry first v0))) := by
  unfold concatViews at h
  cases hs : scan (v0 :: rest) [] [] with
  | error e => rw [hs] at h; cases h
  | ok first =>
    rw [hs] at h
    simp only at h
    obtain ⟨_, hnd⟩ := scan_ids (v0 :: rest) [] [] first hs
    have hnd' : (sortIds (first.map (·.1))).Nodup :=
      (nodup_sortIds _).mpr (hnd (by simp) (fun v hv => (hwf v hv).2))
    cases hm : mapE (padSort (sortIds (first.map (·.1))) first) (v0 :: rest) with
    | error e => rw [hm] at h; cases h
    | ok padded =>
      rw [hm] at h
      injection h with h
      subst h
      refine ⟨first, rfl, ?_⟩
      unfold mapE at hm
      cases hp0 : padSort (sortIds (first.map (·.1))) first v0 with
      | error e => rw [hp0] at hm; cases hm
      | ok p0 =>
        rw [hp0] at hm
        simp only at hm
        cases hr : mapE (padSort (sortIds (first.map (·.1))) first) rest with
        | error e => rw [hr] at hm; cases hm
        | ok ps =>
          rw [hr] at hm
          injection hm with hm
          subst hm
          simp only [List.head?_cons, Option.bind_some]
          exact padSort_omd_norm _ first v0 hnd' (hwf v0 List.mem_cons_self).1 p0 hp0

theorem entryOf_viewOf (ax : Axis) (t : Table α) (b : Id) : entryOf (viewOf ax t) b = mdEntry t ax.other b := by
  cases ax <;> (simp only [entryOf, viewOf, mdEntry, Table.mdOf?, Table.md, Table.ids, Axis.other]; split <;> simp_all)

theorem padEntry_self (first : List (Id × Md)) (v : View α) (b : Id) (hb : b ∈ v.oids) :
    padEntry first v b = entryOf v b := by
  unfold padEntry entryOf omdList
  simp only [hb, if_true]
  cases v.omd with
  | none => simp [lookupBy_replicate]
  | some m => rfl

end Biom.C10
