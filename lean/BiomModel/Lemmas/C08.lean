/-
  C08 — helper lemmas: the merge loop on sorted entries, insertion sort, the slice representation
  of compressed matrices (`ofSlices`), and the in-place compaction `removeRows`.
-/
import BiomModel.C08

namespace Biom.C08

variable {α : Type}

/-! ### `mergeRow` on strictly increasing entries -/

/-- minor indices strictly increasing and all `≥ j` -/
def SortedFrom (ents : List (Nat × α)) (j : Nat) : Prop :=
  (ents.map (·.1)).Pairwise (· < ·) ∧ ∀ c ∈ ents.map (·.1), j ≤ c

theorem entryAt_nil [Zero α] (j : Nat) : CS.entryAt ([] : List (Nat × α)) j = 0 := rfl

theorem entryAt_cons [Zero α] (c : Nat) (v : α) (es : List (Nat × α)) (j : Nat) :
    CS.entryAt ((c, v) :: es) j = if c = j then v else CS.entryAt es j := by
  unfold CS.entryAt
  by_cases h : c = j
  · simp [List.find?, h]
  · have hb : (c == j) = false := by simpa using h
    simp [List.find?, hb, h]

theorem entryAt_of_not_mem [Zero α] (ents : List (Nat × α)) (j : Nat) (h : j ∉ ents.map (·.1)) :
    CS.entryAt ents j = 0 := by
  induction ents with
  | nil => rfl
  | cons e es ih =>
    obtain ⟨c, v⟩ := e
    rw [entryAt_cons]
    have hc : c ≠ j := fun e => h (by simp [e])
    have : j ∉ es.map (·.1) := fun hm => h (by simp only [List.map_cons, List.mem_cons]; exact Or.inr hm)
    simp [hc, ih this]

theorem mergeRow_sortedFrom [Zero α] (prev : List α) (ents : List (Nat × α)) (j : Nat)
    (h : SortedFrom ents j) :
    mergeRow prev ents j = (List.range' j prev.length).map (CS.entryAt ents) := by
  induction prev generalizing ents j with
  | nil => simp [mergeRow]
  | cons p ps ih =>
    cases ents with
    | nil =>
      have := ih [] (j + 1) ⟨by simp, by simp⟩
      simp only [mergeRow, List.length_cons, List.range'_succ, List.map_cons, entryAt_nil, this]
    | cons e es =>
      obtain ⟨c, v⟩ := e
      obtain ⟨hp, hge⟩ := h
      have hjc : j ≤ c := hge c (by simp)
      simp only [List.map_cons, List.pairwise_cons] at hp
      simp only [mergeRow, List.length_cons, List.range'_succ, List.map_cons]
      by_cases hlt : j < c
      · have hs : SortedFrom ((c, v) :: es) (j + 1) := by
          refine ⟨by simp only [List.map_cons, List.pairwise_cons]; exact hp, ?_⟩
          intro c' hc'
          simp only [List.map_cons, List.mem_cons] at hc'
          rcases hc' with rfl | hc'
          · omega
          · have := hp.1 c' hc'; omega
        have h0 : CS.entryAt ((c, v) :: es) j = 0 := by
          apply entryAt_of_not_mem
          simp only [List.map_cons, List.mem_cons, not_or]
          exact ⟨by omega, fun hm => by have := hp.1 j hm; omega⟩
        simp only [hlt, if_true, ih _ _ hs, h0]
      · have hjc' : j = c := by omega
        subst hjc'
        have hs : SortedFrom es (j + 1) := ⟨hp.2, fun c' hc' => by have := hp.1 c' hc'; omega⟩
        have hcong : (List.range' (j + 1) ps.length).map (CS.entryAt ((j, v) :: es)) =
            (List.range' (j + 1) ps.length).map (CS.entryAt es) := by
          apply List.map_congr_left
          intro k hk
          rw [entryAt_cons]
          have : j + 1 ≤ k := (List.mem_range'_1.mp hk).1
          have : j ≠ k := by omega
          simp [this]
        simp only [Nat.lt_irrefl, if_false, if_true, ih _ _ hs, hcong, entryAt_cons]

/-- the rebuilt vector is the true dense vector whatever the buffer held before -/
theorem mergeRow_dense [Zero α] (buf : List α) (ents : List (Nat × α)) (n : Nat) (hn : buf.length = n)
    (h : (ents.map (·.1)).Pairwise (· < ·)) :
    mergeRow buf ents 0 = CS.denseVec n ents := by
  rw [mergeRow_sortedFrom buf ents 0 ⟨h, fun _ _ => Nat.zero_le _⟩, hn, CS.denseVec, List.range_eq_range']

/-! ### insertion sort of the entries of one vector -/

theorem insertEnt_perm (e : Nat × α) (l : List (Nat × α)) : (insertEnt e l).Perm (e :: l) := by
  induction l with
  | nil => exact List.Perm.refl _
  | cons x xs ih =>
    simp only [insertEnt]
    split
    · exact List.Perm.refl _
    · exact (List.Perm.cons x ih).trans (List.Perm.swap e x xs)

theorem sortEnts_perm (l : List (Nat × α)) : (sortEnts l).Perm l := by
  induction l with
  | nil => exact List.Perm.refl _
  | cons e es ih => exact (insertEnt_perm e (sortEnts es)).trans (List.Perm.cons e ih)

theorem insertEnt_sorted (e : Nat × α) (l : List (Nat × α)) (hl : (l.map (·.1)).Pairwise (· < ·))
    (he : e.1 ∉ l.map (·.1)) : ((insertEnt e l).map (·.1)).Pairwise (· < ·) := by
  induction l with
  | nil => simp [insertEnt]
  | cons x xs ih =>
    simp only [List.map_cons, List.pairwise_cons] at hl
    simp only [List.map_cons, List.mem_cons, not_or] at he
    simp only [insertEnt]
    split
    · rename_i hle
      simp only [List.map_cons, List.pairwise_cons]
      refine ⟨?_, hl⟩
      intro c hc
      simp only [List.mem_cons] at hc
      rcases hc with rfl | hc
      · have := he.1; omega
      · have := hl.1 c hc; have := he.1; omega
    · rename_i hle
      simp only [List.map_cons, List.pairwise_cons]
      refine ⟨?_, ih hl.2 he.2⟩
      intro c hc
      have hp := (insertEnt_perm e xs).map (·.1)
      have := hp.mem_iff.mp hc
      simp only [List.map_cons, List.mem_cons] at this
      rcases this with rfl | h
      · omega
      · exact hl.1 c h

theorem sortEnts_sorted (l : List (Nat × α)) (hn : (l.map (·.1)).Nodup) :
    ((sortEnts l).map (·.1)).Pairwise (· < ·) := by
  induction l with
  | nil => simp [sortEnts]
  | cons e es ih =>
    simp only [List.map_cons, List.nodup_cons] at hn
    simp only [sortEnts]
    apply insertEnt_sorted _ _ (ih hn.2)
    intro hm
    exact hn.1 (((sortEnts_perm es).map (·.1)).mem_iff.mp hm)

theorem entryAt_of_mem [Zero α] (ents : List (Nat × α)) (j : Nat) (v : α)
    (hn : (ents.map (·.1)).Nodup) (hm : (j, v) ∈ ents) : CS.entryAt ents j = v := by
  induction ents with
  | nil => cases hm
  | cons e es ih =>
    obtain ⟨c, w⟩ := e
    simp only [List.map_cons, List.nodup_cons] at hn
    rw [entryAt_cons]
    rcases List.mem_cons.mp hm with h | h
    · cases h; simp
    · have : c ≠ j := by
        intro hc
        subst hc
        exact hn.1 (List.mem_map_of_mem (f := (·.1)) h)
      simp [this, ih hn.2 h]

theorem entryAt_perm [Zero α] (l₁ l₂ : List (Nat × α)) (hp : l₁.Perm l₂) (hn : (l₁.map (·.1)).Nodup)
    (j : Nat) : CS.entryAt l₁ j = CS.entryAt l₂ j := by
  have hn₂ : (l₂.map (·.1)).Nodup := (hp.map (·.1)).nodup_iff.mp hn
  by_cases hj : j ∈ l₁.map (·.1)
  · obtain ⟨e, he, rfl⟩ := List.mem_map.mp hj
    rw [entryAt_of_mem l₁ e.1 e.2 hn he, entryAt_of_mem l₂ e.1 e.2 hn₂ (hp.mem_iff.mp he)]
  · have hj₂ : j ∉ l₂.map (·.1) := fun h => hj ((hp.map (·.1)).mem_iff.mpr h)
    rw [entryAt_of_not_mem _ _ hj, entryAt_of_not_mem _ _ hj₂]

theorem denseVec_sortEnts [Zero α] (n : Nat) (l : List (Nat × α)) (hn : (l.map (·.1)).Nodup) :
    CS.denseVec n (sortEnts l) = CS.denseVec n l := by
  unfold CS.denseVec
  apply List.map_congr_left
  intro j _
  exact (entryAt_perm l (sortEnts l) (sortEnts_perm l).symm hn j).symm

/-! ### the slice representation -/

def sliceAt (P I : List Nat) (D : List α) (i : Nat) : List (Nat × α) :=
  ((I.drop (P.getD i 0)).take (P.getD (i + 1) 0 - P.getD i 0)).zip
    ((D.drop (P.getD i 0)).take (P.getD (i + 1) 0 - P.getD i 0))

theorem slice_eq_sliceAt (cs : CS α) (i : Nat) : cs.slice i = sliceAt cs.indptr cs.indices cs.data i := rfl

theorem zip_fst_snd (s : List (Nat × α)) : (s.map (·.1)).zip (s.map (·.2)) = s := by
  induction s with
  | nil => rfl
  | cons e es ih => simp [ih]

theorem psums_head (a : Nat) (l : List Nat) : (psums a l).getD 0 0 = a := by
  cases l <;> simp [psums]

theorem psums_length (a : Nat) (l : List Nat) : (psums a l).length = l.length + 1 := by
  induction l generalizing a with
  | nil => rfl
  | cons x xs ih => simp [psums, ih]

theorem sliceAt_psums (sl : List (List (Nat × α))) (a : Nat) (preI : List Nat) (preD : List α)
    (hI : preI.length = a) (hD : preD.length = a) (i : Nat) (hi : i < sl.length) :
    sliceAt (psums a (sl.map List.length)) (preI ++ (sl.map (·.map (·.1))).flatten)
      (preD ++ (sl.map (·.map (·.2))).flatten) i = sl[i] := by
  induction sl generalizing a preI preD i with
  | nil => cases hi
  | cons s0 rest ih =>
    cases i with
    | zero =>
      simp only [sliceAt, List.map_cons, psums, List.getD_cons_zero, List.getD_cons_succ, psums_head,
        List.flatten_cons, List.getElem_cons_zero]
      have e1 : (preI ++ (s0.map (·.1) ++ (rest.map (·.map (·.1))).flatten)).drop a =
          s0.map (·.1) ++ (rest.map (·.map (·.1))).flatten := by
        rw [← hI]; simp
      have e2 : (preD ++ (s0.map (·.2) ++ (rest.map (·.map (·.2))).flatten)).drop a =
          s0.map (·.2) ++ (rest.map (·.map (·.2))).flatten := by
        rw [← hD]; simp
      rw [e1, e2]
      have l1 : a + s0.length - a = (s0.map (·.1)).length := by simp
      have l2 : a + s0.length - a = (s0.map (·.2)).length := by simp
      rw [show ((s0.map (·.1) ++ (rest.map (·.map (·.1))).flatten).take (a + s0.length - a)) = s0.map (·.1) by
            rw [l1, List.take_left']; rfl,
          show ((s0.map (·.2) ++ (rest.map (·.map (·.2))).flatten).take (a + s0.length - a)) = s0.map (·.2) by
            rw [l2, List.take_left']; rfl]
      exact zip_fst_snd s0
    | succ i =>
      have hi' : i < rest.length := by simpa using hi
      have := ih (a + s0.length) (preI ++ s0.map (·.1)) (preD ++ s0.map (·.2)) (by simp [hI]) (by simp [hD]) i hi'
      simp only [List.map_cons, psums, List.flatten_cons, List.getElem_cons_succ]
      rw [← this]
      simp only [sliceAt, List.getD_cons_succ, List.append_assoc]

theorem slice_ofSlices (n : Nat) (sl : List (List (Nat × α))) (i : Nat) (hi : i < sl.length) :
    (ofSlices n sl).slice i = sl[i] := by
  have := sliceAt_psums sl 0 [] [] rfl rfl i hi
  simpa [slice_eq_sliceAt, ofSlices] using this

theorem slices_ofSlices (n : Nat) (sl : List (List (Nat × α))) : slices (ofSlices n sl) = sl := by
  apply List.ext_getElem
  · simp [slices, ofSlices]
  · intro i h1 h2
    simp only [slices, List.getElem_map, List.getElem_range]
    exact slice_ofSlices n sl i h2

theorem toDense_eq_slices [Zero α] (cs : CS α) :
    cs.toDense = (slices cs).map (CS.denseVec cs.nMinor) := by
  simp [CS.toDense, slices, List.map_map, Function.comp_def]

theorem toDense_ofSlices [Zero α] (n : Nat) (sl : List (List (Nat × α))) :
    (ofSlices n sl).toDense = sl.map (CS.denseVec n) := by
  rw [toDense_eq_slices, slices_ofSlices]; rfl

theorem psums_mono (l : List Nat) (a i : Nat) (hi : i < l.length) :
    (psums a l).getD i 0 ≤ (psums a l).getD (i + 1) 0 := by
  induction l generalizing a i with
  | nil => cases hi
  | cons x xs ih =>
    cases i with
    | zero => simp only [psums, List.getD_cons_zero, List.getD_cons_succ, psums_head]; omega
    | succ i =>
      simp only [psums, List.getD_cons_succ]
      exact ih (a + x) i (by simpa using hi)

theorem psums_last (l : List Nat) (a : Nat) : (psums a l).getD l.length 0 = a + l.sum := by
  induction l generalizing a with
  | nil => simp [psums]
  | cons x xs ih => simp only [psums, List.length_cons, List.getD_cons_succ, ih, List.sum_cons]; omega

theorem wf_ofSlices (n : Nat) (sl : List (List (Nat × α)))
    (hr : ∀ s ∈ sl, ∀ e ∈ s, e.1 < n) (hd : ∀ s ∈ sl, (s.map (·.1)).Nodup) : (ofSlices n sl).WF where
  ptrLen := by simp [ofSlices, psums_length]
  ptrZero := by
    have := psums_head 0 (sl.map List.length)
    simp only [ofSlices]
    cases h : psums 0 (sl.map List.length) with
    | nil => have := psums_length 0 (sl.map List.length); simp [h] at this
    | cons x xs => simp [h] at this; simp [this]
  ptrMono := by
    intro i hi
    exact psums_mono _ 0 i (by simpa [ofSlices] using hi)
  ptrLast := by
    have := psums_last (sl.map List.length) 0
    simp only [List.length_map] at this
    simp only [ofSlices, this, List.length_flatten, List.map_map, Nat.zero_add]
    congr 1
    apply List.map_congr_left
    intro s _
    simp
  sameLen := by
    simp only [ofSlices, List.length_flatten, List.map_map]
    congr 1
    apply List.map_congr_left
    intro s _
    simp
  inRange := by
    intro j hj
    simp only [ofSlices, List.mem_flatten, List.mem_map] at hj
    obtain ⟨ks, ⟨s, hs, rfl⟩, hj⟩ := hj
    obtain ⟨e, he, rfl⟩ := List.mem_map.mp hj
    exact hr s hs e he
  distinct := by
    intro i hi
    have hi' : i < sl.length := by simpa [ofSlices] using hi
    rw [slice_ofSlices n sl i hi']
    exact hd _ (List.getElem_mem hi')

theorem slices_length (cs : CS α) : (slices cs).length = cs.nMajor := by simp [slices]

theorem slices_nodup (cs : CS α) (h : cs.WF) : ∀ s ∈ slices cs, (s.map (·.1)).Nodup := by
  intro s hs
  simp only [slices, List.mem_map, List.mem_range] at hs
  obtain ⟨i, hi, rfl⟩ := hs
  exact h.distinct i hi

theorem slices_inRange (cs : CS α) (h : cs.WF) : ∀ s ∈ slices cs, ∀ e ∈ s, e.1 < cs.nMinor := by
  intro s hs e he
  simp only [slices, List.mem_map, List.mem_range] at hs
  obtain ⟨i, _, rfl⟩ := hs
  obtain ⟨c, v⟩ := e
  have := (List.of_mem_zip he).1
  exact h.inRange c (List.mem_of_mem_drop (List.mem_of_mem_take this))

/-! ### scipy's `sort_indices` (modelled): contract -/

theorem sortIndices_nMajor (cs : CS α) : (sortIndices cs).nMajor = cs.nMajor := by
  simp [sortIndices, ofSlices, slices]

theorem sortIndices_nMinor (cs : CS α) : (sortIndices cs).nMinor = cs.nMinor := rfl

theorem sortIndices_wf (cs : CS α) (h : cs.WF) : (sortIndices cs).WF := by
  apply wf_ofSlices
  · intro s hs e he
    obtain ⟨s0, hs0, rfl⟩ := List.mem_map.mp hs
    exact slices_inRange cs h s0 hs0 e ((sortEnts_perm s0).mem_iff.mp he)
  · intro s hs
    obtain ⟨s0, hs0, rfl⟩ := List.mem_map.mp hs
    exact (((sortEnts_perm s0).map (·.1)).nodup_iff).mpr (slices_nodup cs h s0 hs0)

theorem sortIndices_toDense [Zero α] (cs : CS α) (h : cs.WF) : (sortIndices cs).toDense = cs.toDense := by
  rw [sortIndices, toDense_ofSlices, toDense_eq_slices, List.map_map]
  apply List.map_congr_left
  intro s hs
  exact denseVec_sortEnts cs.nMinor s (slices_nodup cs h s hs)

theorem sortIndices_sorted (cs : CS α) (h : cs.WF) : (sortIndices cs).SortedIndices := by
  intro i hi
  have hi' : i < ((slices cs).map sortEnts).length := by
    simpa [sortIndices_nMajor, slices] using hi
  rw [sortIndices, slice_ofSlices _ _ i hi', List.getElem_map]
  exact sortEnts_sorted _ (slices_nodup cs h _ (List.getElem_mem _))

/-! ### `_remove_rows_csr`: the in-place compaction -/

theorem getE_ok {β : Type} (a : List β) (i : Nat) (h : i < a.length) : getE a i = .ok a[i] := by
  simp [getE, h]

theorem putE_ok {β : Type} (a : List β) (i : Nat) (x : β) (h : i < a.length) :
    putE a i x = .ok (a.set i x) := by
  simp [putE, h]

/-- one element copied from the read position `j` to the write position `j - off ≤ j` -/
theorem set_copy {β : Type} (l : List β) (j off : Nat) (h : off ≤ j) (hj : j < l.length) :
    (l.set (j - off) l[j]).drop (j + 1) = l.drop (j + 1) ∧
    (l.set (j - off) l[j]).take (j - off + 1) = l.take (j - off) ++ [l[j]] := by
  constructor
  · exact List.drop_set_of_lt (by omega)
  · rw [List.take_add_one, List.take_set_of_le (Nat.le_refl _), List.getElem?_set_self (by omega)]
    rfl

/-- the block copy: positions from the read cursor on are untouched, the written prefix is the old
prefix followed by the block (write position ≤ read position, so no source cell is overwritten
before it is read) -/
theorem rrInner_ok (len : Nat) : ∀ (j : Nat) (s : RR α), s.offset ≤ j → j + len ≤ s.data.length →
    s.indices.length = s.data.length →
    ∃ s', rrInner s j len = .ok s' ∧ s'.indptr = s.indptr ∧ s'.nnz = s.nnz ∧ s'.offset = s.offset ∧
      s'.offsetRows = s.offsetRows ∧ s'.data.length = s.data.length ∧ s'.indices.length = s.indices.length ∧
      s'.data.drop (j + len) = s.data.drop (j + len) ∧ s'.indices.drop (j + len) = s.indices.drop (j + len) ∧
      s'.data.take (j - s.offset + len) = s.data.take (j - s.offset) ++ (s.data.drop j).take len ∧
      s'.indices.take (j - s.offset + len) = s.indices.take (j - s.offset) ++ (s.indices.drop j).take len := by
  induction len with
  | zero =>
    intro j s _ _ _
    exact ⟨s, rfl, rfl, rfl, rfl, rfl, rfl, rfl, rfl, rfl, by simp, by simp⟩
  | succ len ih =>
    intro j s hoff hlen hsame
    have hjd : j < s.data.length := by omega
    have hji : j < s.indices.length := by omega
    have hwd : j - s.offset < s.data.length := by omega
    have hwi : j - s.offset < s.indices.length := by omega
    obtain ⟨s', hrun, hp, hn, ho, hor, hdl, hil, hdd, hid, hdt, hit⟩ :=
      ih (j + 1) { s with data := s.data.set (j - s.offset) s.data[j],
                          indices := s.indices.set (j - s.offset) s.indices[j] }
        (by simp only; omega) (by simp only [List.length_set]; omega) (by simp only [List.length_set]; exact hsame)
    refine ⟨s', ?_, hp, hn, ho, hor, by simpa using hdl, by simpa using hil, ?_, ?_, ?_, ?_⟩
    · simp only [rrInner, getE_ok _ _ hjd, getE_ok _ _ hji, putE_ok _ _ _ hwd, putE_ok _ _ _ hwi]
      exact hrun
    · have e : j + 1 + len = j + (len + 1) := by omega
      rw [e] at hdd
      rw [hdd]
      exact List.drop_set_of_lt (by omega)
    · have e : j + 1 + len = j + (len + 1) := by omega
      rw [e] at hid
      rw [hid]
      exact List.drop_set_of_lt (by omega)
    · have e : j + 1 - s.offset + len = j - s.offset + (len + 1) := by omega
      have e2 : j + 1 - s.offset = j - s.offset + 1 := by omega
      simp only at hdt
      rw [e, e2, (set_copy s.data j s.offset hoff hjd).1, (set_copy s.data j s.offset hoff hjd).2] at hdt
      rw [hdt, List.drop_eq_getElem_cons hjd, List.take_succ_cons]
      simp
    · have e : j + 1 - s.offset + len = j - s.offset + (len + 1) := by omega
      have e2 : j + 1 - s.offset = j - s.offset + 1 := by omega
      simp only at hit
      rw [e, e2, (set_copy s.indices j s.offset hoff hji).1, (set_copy s.indices j s.offset hoff hji).2] at hit
      rw [hit, List.drop_eq_getElem_cons hji, List.take_succ_cons]
      simp

theorem getE_getD {β : Type} (a : List β) (i : Nat) (d : β) (h : i < a.length) :
    getE a i = .ok (a.getD i d) := by
  simp [getE, h, List.getD]

theorem filterMask_snoc {β : Type} (xs : List β) (done : List Bool) (b : Bool) (h : done.length < xs.length) :
    filterMask xs (done ++ [b]) = filterMask xs done ++ (if b then [xs[done.length]] else []) := by
  induction xs generalizing done with
  | nil => cases h
  | cons x xs ih =>
    cases done with
    | nil => cases b <;> simp [filterMask]
    | cons d ds =>
      have h' : ds.length < xs.length := by simpa using h
      cases d <;> simp [filterMask, ih ds h']

theorem filterMask_nil_right {β : Type} (xs : List β) : filterMask xs [] = [] := by
  cases xs <;> rfl

theorem filterMask_nil_left {β : Type} (m : List Bool) : filterMask ([] : List β) m = [] := by
  cases m <;> rfl

theorem count_true_false (l : List Bool) : l.count true + l.count false = l.length := by
  induction l with
  | nil => rfl
  | cons b bs ih => cases b <;> simp <;> omega

theorem psums_append (a : Nat) (l : List Nat) (x : Nat) : psums a (l ++ [x]) = psums a l ++ [a + l.sum + x] := by
  induction l generalizing a with
  | nil => simp [psums]
  | cons y ys ih =>
    simp only [List.cons_append, psums, ih, List.sum_cons]
    rw [show a + y + ys.sum + x = a + (y + ys.sum) + x by omega]

abbrev ptr (cs : CS α) (i : Nat) : Nat := cs.indptr.getD i 0

theorem ptr_mono_le (cs : CS α) (h : cs.WF) (i j : Nat) (hij : i ≤ j) (hj : j ≤ cs.nMajor) :
    ptr cs i ≤ ptr cs j := by
  induction j with
  | zero => have : i = 0 := by omega
            subst this; exact Nat.le_refl _
  | succ j ih =>
    by_cases he : i = j + 1
    · subst he; exact Nat.le_refl _
    · exact Nat.le_trans (ih (by omega) (by omega)) (h.ptrMono j (by omega))

theorem ptr_le_len (cs : CS α) (h : cs.WF) (i : Nat) (hi : i ≤ cs.nMajor) : ptr cs i ≤ cs.data.length := by
  have := ptr_mono_le cs h i cs.nMajor hi (Nat.le_refl _)
  have hl := h.ptrLast
  simp only [ptr] at this ⊢
  omega

/-- the stored entries of vector `row`, as the two array blocks -/
theorem slice_blocks (cs : CS α) (h : cs.WF) (row : Nat) (hr : row < cs.nMajor) :
    (cs.slice row).map (·.1) = (cs.indices.drop (ptr cs row)).take (ptr cs (row + 1) - ptr cs row) ∧
    (cs.slice row).map (·.2) = (cs.data.drop (ptr cs row)).take (ptr cs (row + 1) - ptr cs row) ∧
    (cs.slice row).length = ptr cs (row + 1) - ptr cs row := by
  have hm := h.ptrMono row hr
  have hl := ptr_le_len cs h (row + 1) (by omega)
  have hs := h.sameLen
  simp only [ptr] at hl
  have l1 : ((cs.indices.drop (ptr cs row)).take (ptr cs (row + 1) - ptr cs row)).length =
      ptr cs (row + 1) - ptr cs row := by
    simp only [List.length_take, List.length_drop, ptr]; omega
  have l2 : ((cs.data.drop (ptr cs row)).take (ptr cs (row + 1) - ptr cs row)).length =
      ptr cs (row + 1) - ptr cs row := by
    simp only [List.length_take, List.length_drop, ptr]; omega
  refine ⟨?_, ?_, ?_⟩
  · exact List.map_fst_zip (by rw [l1, l2]; exact Nat.le_refl _)
  · exact List.map_snd_zip (by rw [l1, l2]; exact Nat.le_refl _)
  · simp only [CS.slice, List.length_zip]
    simp only [ptr] at l1 l2
    rw [l1, l2]; exact Nat.min_self _

def keptI (cs : CS α) (done : List Bool) : List Nat :=
  ((filterMask (slices cs) done).map (·.map (·.1))).flatten
def keptD (cs : CS α) (done : List Bool) : List α :=
  ((filterMask (slices cs) done).map (·.map (·.2))).flatten
def keptLens (cs : CS α) (done : List Bool) : List Nat := (filterMask (slices cs) done).map List.length

/-- loop invariant of `_remove_rows_csr` after the rows of the mask prefix `done` -/
structure Inv (cs : CS α) (done : List Bool) (s : RR α) : Prop where
  lp : s.indptr.length = cs.indptr.length
  li : s.indices.length = cs.indices.length
  ld : s.data.length = cs.data.length
  rows : s.offsetRows = done.count false
  pos : s.nnz + s.offset = ptr cs done.length
  off0 : s.offsetRows = 0 → s.offset = 0
  nnzSum : s.nnz = (keptLens cs done).sum
  dataPre : s.data.take s.nnz = keptD cs done
  idxPre : s.indices.take s.nnz = keptI cs done
  dataSuf : s.data.drop (ptr cs done.length) = cs.data.drop (ptr cs done.length)
  idxSuf : s.indices.drop (ptr cs done.length) = cs.indices.drop (ptr cs done.length)
  ptrPre : s.indptr.take (done.count true + 1) = psums 0 (keptLens cs done)
  ptrSuf : ∀ i, done.length ≤ i → s.indptr.getD i 0 = ptr cs i

theorem inv_init (cs : CS α) (h : cs.WF) :
    Inv cs [] { indptr := cs.indptr, indices := cs.indices, data := cs.data } where
  lp := rfl
  li := rfl
  ld := rfl
  rows := rfl
  pos := by
    have := h.ptrZero
    simp only [ptr, List.length_nil, List.getD, this]; rfl
  off0 := fun _ => rfl
  nnzSum := by simp [keptLens, filterMask_nil_right]
  dataPre := by simp [keptD, filterMask_nil_right]
  idxPre := by simp [keptI, filterMask_nil_right]
  dataSuf := rfl
  idxSuf := rfl
  ptrPre := by
    have h0 := h.ptrZero
    have hl := h.ptrLen
    simp only [List.count_nil, Nat.zero_add, keptLens, filterMask_nil_right]
    cases hp : cs.indptr with
    | nil => simp [hp] at hl
    | cons x xs => simp [hp] at h0; simp [psums, h0]
  ptrSuf := fun _ _ => rfl

theorem kept_snoc_false (cs : CS α) (done : List Bool) (hr : done.length < cs.nMajor) :
    filterMask (slices cs) (done ++ [false]) = filterMask (slices cs) done := by
  rw [filterMask_snoc _ _ _ (by rw [slices_length]; exact hr)]; simp

theorem kept_snoc_true (cs : CS α) (done : List Bool) (hr : done.length < cs.nMajor) :
    filterMask (slices cs) (done ++ [true]) = filterMask (slices cs) done ++ [cs.slice done.length] := by
  rw [filterMask_snoc _ _ _ (by rw [slices_length]; exact hr)]
  simp [slices]

theorem rrRow_reads (cs : CS α) (h : cs.WF) (done : List Bool) (s : RR α) (inv : Inv cs done s)
    (hr : done.length < cs.nMajor) :
    getE s.indptr done.length = .ok (ptr cs done.length) ∧
    getE s.indptr (done.length + 1) = .ok (ptr cs (done.length + 1)) := by
  have hl := h.ptrLen
  constructor
  · rw [getE_getD _ _ 0 (by rw [inv.lp]; omega), inv.ptrSuf _ (Nat.le_refl _)]
  · rw [getE_getD _ _ 0 (by rw [inv.lp]; omega), inv.ptrSuf _ (by omega)]

theorem drop_more {β : Type} (a b : List β) (i j : Nat) (hij : i ≤ j) (h : a.drop i = b.drop i) :
    a.drop j = b.drop j := by
  have e : j = i + (j - i) := by omega
  rw [e, ← List.drop_drop, ← List.drop_drop, h]

/-- a dropped row: only the two offsets move -/
theorem rrRow_dropped (cs : CS α) (h : cs.WF) (done : List Bool) (s : RR α) (inv : Inv cs done s)
    (hr : done.length < cs.nMajor) :
    ∃ s', rrRow s done.length false = .ok s' ∧ Inv cs (done ++ [false]) s' := by
  obtain ⟨r1, r2⟩ := rrRow_reads cs h done s inv hr
  have hm : ptr cs done.length ≤ ptr cs (done.length + 1) := h.ptrMono done.length hr
  refine ⟨{ s with offset := s.offset + (ptr cs (done.length + 1) - ptr cs done.length),
                   offsetRows := s.offsetRows + 1 }, ?_, ?_⟩
  · simp [rrRow, r1, r2]
  · have hlen : (done ++ [false]).length = done.length + 1 := by simp
    exact {
      lp := inv.lp
      li := inv.li
      ld := inv.ld
      rows := by simp [inv.rows]
      pos := by
        have := inv.pos
        rw [hlen]
        show s.nnz + (s.offset + (ptr cs (done.length + 1) - ptr cs done.length)) = ptr cs (done.length + 1)
        omega
      off0 := by intro h0; simp at h0
      nnzSum := by simp only [keptLens, kept_snoc_false cs done hr]; exact inv.nnzSum
      dataPre := by simp only [keptD, kept_snoc_false cs done hr]; exact inv.dataPre
      idxPre := by simp only [keptI, kept_snoc_false cs done hr]; exact inv.idxPre
      dataSuf := by rw [hlen]; exact drop_more _ _ _ _ hm inv.dataSuf
      idxSuf := by rw [hlen]; exact drop_more _ _ _ _ hm inv.idxSuf
      ptrPre := by
        have := inv.ptrPre
        simp only [keptLens] at this
        simp only [keptLens, kept_snoc_false cs done hr, List.count_append]
        simpa using this
      ptrSuf := by
        intro i hi
        rw [hlen] at hi
        exact inv.ptrSuf i (by omega) }

theorem length_filterMask {β : Type} (xs : List β) (m : List Bool) (h : m.length ≤ xs.length) :
    (filterMask xs m).length = m.count true := by
  induction xs generalizing m with
  | nil => cases m with
    | nil => rfl
    | cons _ _ => simp at h
  | cons x xs ih =>
    cases m with
    | nil => rfl
    | cons b bs =>
      have h' : bs.length ≤ xs.length := by simpa using h
      cases b <;> simp [filterMask, ih bs h']

theorem getD_set_ne {β : Type} (l : List β) (i j : Nat) (a d : β) (h : i ≠ j) :
    (l.set i a).getD j d = l.getD j d := by
  simp [List.getD, List.getElem?_set_ne h]

theorem getD_set_self {β : Type} (l : List β) (i : Nat) (a d : β) (h : i < l.length) :
    (l.set i a).getD i d = a := by
  simp [List.getD, List.getElem?_set_self h]

theorem getD_take {β : Type} (l : List β) (i n : Nat) (d : β) (h : i < n) :
    (l.take n).getD i d = l.getD i d := by
  simp [List.getD, h]

/-- a kept row: `indptr[k]`, `indptr[k+1]` are rewritten (`k ≤ row`), the block is copied down -/
theorem rrRow_kept (cs : CS α) (h : cs.WF) (done : List Bool) (s : RR α) (inv : Inv cs done s)
    (hr : done.length < cs.nMajor) :
    ∃ s', rrRow s done.length true = .ok s' ∧ Inv cs (done ++ [true]) s' := by
  obtain ⟨r1, r2⟩ := rrRow_reads cs h done s inv hr
  have hm : ptr cs done.length ≤ ptr cs (done.length + 1) := h.ptrMono done.length hr
  have hcnt := count_true_false done
  have hk : done.length - s.offsetRows = done.count true := by rw [inv.rows]; omega
  have hpl := h.ptrLen
  have hlp := inv.lp
  have hkl : done.count true + 1 < s.indptr.length := by omega
  obtain ⟨bI, bD, bL⟩ := slice_blocks cs h done.length hr
  have hend := ptr_le_len cs h (done.length + 1) (by omega)
  have hpos := inv.pos
  -- the value already stored at indptr[k] is nnz
  have hLlen : (keptLens cs done).length = done.count true := by
    simp only [keptLens, List.length_map]
    exact length_filterMask _ _ (by rw [slices_length]; omega)
  have hAtK : s.indptr.getD (done.count true) 0 = s.nnz := by
    have := psums_last (keptLens cs done) 0
    rw [hLlen, ← inv.ptrPre, getD_take _ _ _ _ (by omega)] at this
    rw [this, inv.nnzSum]; omega
  have hset : s.indptr.set (done.count true) s.nnz = s.indptr := by
    apply List.ext_getElem?
    intro i
    by_cases hi : done.count true = i
    · subst hi
      rw [List.getElem?_set_self (by omega)]
      have : s.indptr.getD (done.count true) 0 = s.indptr[done.count true] := by
        simp [List.getD, List.getElem?_eq_getElem (show done.count true < s.indptr.length by omega)]
      rw [List.getElem?_eq_getElem (show done.count true < s.indptr.length by omega), ← this, hAtK]
    · rw [List.getElem?_set_ne hi]
  obtain ⟨s', hrun, hp, hn, ho, hor, hdl, hil, hdd, hid, hdt, hit⟩ :=
    rrInner_ok (ptr cs (done.length + 1) - ptr cs done.length) (ptr cs done.length)
      { s with indptr := (s.indptr.set (done.count true) s.nnz).set (done.count true + 1)
                            (s.nnz + (ptr cs (done.length + 1) - ptr cs done.length)),
               nnz := s.nnz + (ptr cs (done.length + 1) - ptr cs done.length) }
      (by simp only; omega) (by simp only [inv.ld]; omega) (by simp only [inv.li, inv.ld]; exact h.sameLen)
  simp only at hp hn ho hor hdl hil hdd hid hdt hit
  refine ⟨s', ?_, ?_⟩
  · simp only [rrRow, r1, r2, if_true, hk]
    rw [putE_ok _ _ _ (by omega)]
    simp only
    rw [putE_ok _ _ _ (by simp only [List.length_set]; omega)]
    exact hrun
  · have hlen : (done ++ [true]).length = done.length + 1 := by simp
    have hstart : ptr cs done.length - s.offset = s.nnz := by omega
    have hse : ptr cs done.length + (ptr cs (done.length + 1) - ptr cs done.length) = ptr cs (done.length + 1) := by
      omega
    rw [hstart] at hdt hit
    rw [hse] at hdd hid
    exact {
      lp := by rw [hp]; simp only [List.length_set]; exact inv.lp
      li := by rw [hil]; exact inv.li
      ld := by rw [hdl]; exact inv.ld
      rows := by rw [hor]; simp [inv.rows]
      pos := by rw [hlen, hn, ho]; omega
      off0 := by rw [hor, ho]; exact inv.off0
      nnzSum := by
        rw [hn]
        simp only [keptLens, kept_snoc_true cs done hr, List.map_append, List.map_cons, List.map_nil,
          List.sum_append, List.sum_cons, List.sum_nil, bL]
        have := inv.nnzSum
        simp only [keptLens] at this
        omega
      dataPre := by
        rw [hn, hdt, inv.dataPre, inv.dataSuf]
        simp only [keptD, kept_snoc_true cs done hr, List.map_append, List.map_cons, List.map_nil,
          List.flatten_append, List.flatten_cons, List.flatten_nil, List.append_nil, bD]
      idxPre := by
        rw [hn, hit, inv.idxPre, inv.idxSuf]
        simp only [keptI, kept_snoc_true cs done hr, List.map_append, List.map_cons, List.map_nil,
          List.flatten_append, List.flatten_cons, List.flatten_nil, List.append_nil, bI]
      dataSuf := by rw [hlen, hdd]; exact drop_more _ _ _ _ hm inv.dataSuf
      idxSuf := by rw [hlen, hid]; exact drop_more _ _ _ _ hm inv.idxSuf
      ptrPre := by
        rw [hp, hset]
        have hcount : (done ++ [true]).count true = done.count true + 1 := by simp
        rw [hcount, List.take_add_one, List.take_set_of_le (Nat.le_refl _), inv.ptrPre,
          List.getElem?_set_self hkl]
        simp only [keptLens, kept_snoc_true cs done hr, List.map_append, List.map_cons, List.map_nil, bL]
        rw [psums_append]
        have := inv.nnzSum
        simp only [keptLens] at this
        simp [← this]
      ptrSuf := by
        intro i hi
        rw [hlen] at hi
        rw [hp, hset]
        by_cases hik : done.count true + 1 = i
        · subst hik
          rw [getD_set_self _ _ _ _ hkl]
          have hrows0 : s.offsetRows = 0 := by rw [inv.rows]; omega
          have := inv.off0 hrows0
          have e : done.count true = done.length := by omega
          rw [e]
          omega
        · rw [getD_set_ne _ _ _ _ _ hik]
          exact inv.ptrSuf i (by omega) }

theorem rrLoop_ok (cs : CS α) (h : cs.WF) : ∀ (bs done : List Bool) (s : RR α), Inv cs done s →
    done.length + bs.length = cs.nMajor →
    ∃ s', rrLoop s done.length bs = .ok s' ∧ Inv cs (done ++ bs) s' := by
  intro bs
  induction bs with
  | nil => intro done s inv _; exact ⟨s, rfl, by simpa using inv⟩
  | cons b bs ih =>
    intro done s inv hl
    have hr : done.length < cs.nMajor := by simp only [List.length_cons] at hl; omega
    obtain ⟨s1, hs1, inv1⟩ : ∃ s', rrRow s done.length b = .ok s' ∧ Inv cs (done ++ [b]) s' := by
      cases b
      · exact rrRow_dropped cs h done s inv hr
      · exact rrRow_kept cs h done s inv hr
    have hl2 : (done ++ [b]).length + bs.length = cs.nMajor := by
      simp only [List.length_append, List.length_cons, List.length_nil] at hl ⊢
      omega
    obtain ⟨s', hs', inv'⟩ := ih (done ++ [b]) s1 inv1 hl2
    refine ⟨s', ?_, by simpa using inv'⟩
    simp only [rrLoop, hs1]
    simpa using hs'

theorem mem_filterMask {β : Type} (xs : List β) (m : List Bool) (x : β) (h : x ∈ filterMask xs m) : x ∈ xs := by
  induction xs generalizing m with
  | nil => cases m <;> simp [filterMask] at h
  | cons y ys ih =>
    cases m with
    | nil => simp [filterMask] at h
    | cons b bs =>
      cases b
      · simp only [filterMask] at h
        exact List.mem_cons_of_mem _ (ih bs (by simpa using h))
      · simp only [filterMask, if_true, List.mem_cons] at h
        rcases h with rfl | h
        · exact List.mem_cons_self
        · exact List.mem_cons_of_mem _ (ih bs h)

theorem map_filterMask {β γ : Type} (f : β → γ) (xs : List β) (m : List Bool) :
    (filterMask xs m).map f = filterMask (xs.map f) m := by
  induction xs generalizing m with
  | nil => cases m <;> rfl
  | cons y ys ih =>
    cases m with
    | nil => rfl
    | cons b bs => cases b <;> simp [filterMask, ih bs]

/-- the in-place compaction computes exactly its functional twin, for every well-formed layout -/
theorem removeRows_eq_kept (cs : CS α) (h : cs.WF) (mask : List Bool) (hm : mask.length = cs.nMajor) :
    removeRows cs mask = .ok (keptSlices cs mask) := by
  obtain ⟨s', hrun, inv⟩ := rrLoop_ok cs h mask [] _ (inv_init cs h) (by simpa using hm)
  simp only [List.length_nil, List.nil_append] at hrun inv
  have hcnt := count_true_false mask
  have hnm : cs.nMajor - s'.offsetRows = mask.count true := by rw [inv.rows]; omega
  have hlen : (filterMask (slices cs) mask).length = mask.count true :=
    length_filterMask _ _ (by rw [slices_length]; omega)
  unfold removeRows
  rw [if_neg (by omega), ← hm, List.take_length, hrun]
  simp only [hm, hnm, inv.ptrPre, inv.idxPre, inv.dataPre]
  simp only [keptSlices, ofSlices, hlen, keptLens, keptI, keptD]

theorem keptSlices_wf (cs : CS α) (h : cs.WF) (mask : List Bool) : (keptSlices cs mask).WF := by
  apply wf_ofSlices
  · intro s hs
    exact slices_inRange cs h s (mem_filterMask _ _ _ hs)
  · intro s hs
    exact slices_nodup cs h s (mem_filterMask _ _ _ hs)

theorem keptSlices_toDense [Zero α] (cs : CS α) (mask : List Bool) :
    (keptSlices cs mask).toDense = filterMask cs.toDense mask := by
  rw [keptSlices, toDense_ofSlices, toDense_eq_slices, map_filterMask]

/-! ### the two ways of computing the mask -/

/-- positional zip of vectors, IDs and metadata arguments -/
def callsOf : List (List α) → List Id → List (Option Md) → List (Call α)
  | v :: vs, id :: ids, md :: mds => ⟨v, id, md⟩ :: callsOf vs ids mds
  | _, _, _ => []

def verdictOf (p : Pred α) (invert : Bool) (c : Call α) : Bool := p c.vec c.id c.md ^^ invert

theorem toDense_drop [Zero α] (cs : CS α) (i : Nat) (hi : i < cs.nMajor) :
    cs.toDense.drop i = CS.denseVec cs.nMinor (cs.slice i) :: cs.toDense.drop (i + 1) := by
  have hl : i < cs.toDense.length := by simp [CS.toDense, hi]
  rw [List.drop_eq_getElem_cons hl]
  simp [CS.toDense]

theorem denseVec_length [Zero α] (n : Nat) (ents : List (Nat × α)) : (CS.denseVec n ents).length = n := by
  simp [CS.denseVec]

/-- on sorted indices the predicate is handed the true vectors, whatever the buffer held -/
theorem genMask_sorted [Zero α] (p : Pred α) (invert : Bool) (cs : CS α) (hs : cs.SortedIndices)
    (hl : cs.indptr.length = cs.nMajor + 1) : ∀ (ids : List Id) (mds : List (Option Md)) (i : Nat) (buf : List α),
    mds.length = ids.length → i + ids.length ≤ cs.nMajor → buf.length = cs.nMinor →
    genMask p invert cs i ids mds buf =
      .ok ((callsOf (cs.toDense.drop i) ids mds).map (verdictOf p invert), callsOf (cs.toDense.drop i) ids mds) := by
  intro ids
  induction ids with
  | nil => intro mds i buf _ _ _; cases h : cs.toDense.drop i <;> simp [genMask, callsOf]
  | cons id ids ih =>
    intro mds i buf hm hi hb
    cases mds with
    | nil => simp at hm
    | cons md mds =>
      have hi' : i < cs.nMajor := by simp only [List.length_cons] at hi; omega
      have hv : mergeRow buf (cs.slice i) 0 = CS.denseVec cs.nMinor (cs.slice i) :=
        mergeRow_dense buf _ _ hb (hs i hi')
      have := ih mds (i + 1) (CS.denseVec cs.nMinor (cs.slice i)) (by simpa using hm)
        (by simp only [List.length_cons] at hi; omega) (denseVec_length _ _)
      simp only [genMask, hl, show i + 1 < cs.nMajor + 1 by omega, if_true, hv, this, toDense_drop cs i hi', callsOf,
        List.map_cons, verdictOf]

theorem indexOf?_of_mem (ids : List Id) (k : Id) (h : k ∈ ids) : indexOf? ids k = some (ids.idxOf k) := by
  simp [indexOf?, List.idxOf_lt_length_iff.mpr h]

theorem indexOf?_of_not_mem (ids : List Id) (k : Id) (h : k ∉ ids) : indexOf? ids k = none := by
  have : ¬ ids.idxOf k < ids.length := fun hlt => h (List.idxOf_lt_length_iff.mp hlt)
  simp [indexOf?, this]

theorem lookupAll_spec (ids keep : List Id) :
    lookupAll ids keep = if keep.all (fun k => ids.contains k) then .ok (keep.map (ids.idxOf ·)) else .error .key := by
  induction keep with
  | nil => rfl
  | cons k ks ih =>
    by_cases hk : k ∈ ids
    · have hc : ids.contains k = true := by simpa using hk
      by_cases hall : ks.all (fun k => ids.contains k) = true
      · simp only [lookupAll, indexOf?_of_mem ids k hk, ih, List.all_cons, hc, hall, Bool.true_and, if_true,
          List.map_cons]
      · simp only [lookupAll, indexOf?_of_mem ids k hk, ih, List.all_cons, hc, hall, Bool.true_and]
        rfl
    · have hc : ids.contains k = false := by simpa using hk
      simp only [lookupAll, indexOf?_of_not_mem ids k hk, List.all_cons, hc, Bool.false_and]
      rfl

theorem foldl_set_getElem? (idx : List Nat) (m : List Bool) (j : Nat) :
    (idx.foldl (fun m i => m.set i true) m)[j]? = m[j]?.map (fun b => b || idx.contains j) := by
  induction idx generalizing m with
  | nil => simp
  | cons i is ih =>
    simp only [List.foldl_cons, ih, List.contains_cons]
    by_cases hij : i = j
    · subst hij
      by_cases hl : i < m.length
      · simp [List.getElem?_set_self hl, List.getElem?_eq_getElem hl]
      · have : m.length ≤ i := by omega
        have h1 : (m.set i true)[i]? = none := List.getElem?_eq_none (by simpa using this)
        rw [h1, List.getElem?_eq_none this]
        rfl
    · rw [List.getElem?_set_ne hij]
      have : (j == i) = false := by simpa using fun h => hij h.symm
      simp [this]

theorem idMask_spec (ids keep : List Id) (invert : Bool) (hn : ids.Nodup) :
    idMask ids keep invert =
      if keep.all (fun k => ids.contains k) then .ok (ids.map (fun id => keep.contains id ^^ invert))
      else .error .key := by
  unfold idMask
  rw [lookupAll_spec]
  by_cases hall : keep.all (fun k => ids.contains k) = true
  · rw [if_pos hall, if_pos hall]
    simp only
    congr 1
    apply List.ext_getElem?
    intro j
    simp only [List.getElem?_map, foldl_set_getElem?]
    by_cases hj : j < ids.length
    · simp only [List.getElem?_replicate, hj, if_true, List.getElem?_eq_getElem hj, Option.map_some, Bool.false_or]
      congr 2
      -- position j is marked iff the ID standing there was named
      rw [Bool.eq_iff_iff]
      simp only [List.contains_iff_mem, List.mem_map]
      constructor
      · rintro ⟨k, hk, rfl⟩
        have hkm : k ∈ ids := by
          have := List.all_eq_true.mp hall k hk
          simpa using this
        rw [List.getElem_idxOf (List.idxOf_lt_length_iff.mpr hkm)]
        exact hk
      · intro hm
        exact ⟨ids[j], hm, hn.idxOf_getElem j hj⟩
    · have : ids.length ≤ j := by omega
      simp [hj]
  · rw [if_neg hall, if_neg hall]

/-! ### transposition of rectangular grids -/

theorem colAt_eq_map [Zero α] (rows : List (List α)) (j : Nat) (h : ∀ r ∈ rows, j < r.length) :
    colAt rows j = rows.map (·.getD j 0) := by
  induction rows with
  | nil => rfl
  | cons r rs ih =>
    have hr : j < r.length := h r List.mem_cons_self
    have := ih (fun r' hr' => h r' (List.mem_cons_of_mem _ hr'))
    simp only [colAt] at this ⊢
    simp [List.getElem?_eq_getElem hr, this, List.getD]

theorem range_map_getD [Zero α] (l : List α) : (List.range l.length).map (l.getD · 0) = l := by
  apply List.ext_getElem
  · simp
  · intro i h1 h2
    simp [List.getD, List.getElem?_eq_getElem h2]

theorem transposeGrid_col_length [Zero α] (rows : List (List α)) (m : Nat) (h : ∀ r ∈ rows, r.length = m) :
    ∀ c ∈ transposeGrid m rows, c.length = rows.length := by
  intro c hc
  simp only [transposeGrid, List.mem_map, List.mem_range] at hc
  obtain ⟨j, hj, rfl⟩ := hc
  rw [colAt_eq_map rows j (fun r hr => by rw [h r hr]; exact hj)]
  simp

/-- the columns of a rectangular grid, filtered and transposed back, are the grid with every row filtered -/
theorem transpose_filter [Zero α] (rows : List (List α)) (m : Nat) (mask : List Bool)
    (h : ∀ r ∈ rows, r.length = m) :
    transposeGrid rows.length (filterMask (transposeGrid m rows) mask) = rows.map (filterMask · mask) := by
  apply List.ext_getElem
  · simp [transposeGrid]
  · intro i h1 h2
    have hi : i < rows.length := by simpa using h2
    have hri : rows[i].length = m := h _ (List.getElem_mem hi)
    simp only [transposeGrid, List.getElem_map, List.getElem_range]
    have hcol : ∀ c ∈ filterMask ((List.range m).map (colAt rows)) mask, i < c.length := by
      intro c hc
      have := transposeGrid_col_length rows m h c (mem_filterMask _ _ _ hc)
      omega
    rw [colAt_eq_map _ i hcol, map_filterMask, List.map_map]
    congr 1
    rw [← hri]
    conv => rhs; rw [← range_map_getD rows[i]]
    apply List.map_congr_left
    intro j hj
    have hj' : j < m := by rw [← hri]; exact List.mem_range.mp hj
    simp only [Function.comp]
    rw [colAt_eq_map rows j (fun r hr => by rw [h r hr]; exact hj')]
    simp [List.getD, List.getElem?_eq_getElem hi]

/-! ### `Table.filter` -/

/-- the recorded contract of scipy's `tocsr()` / `tocsc()`: SOME well-formed layout (any index order,
stored zeros allowed) whose dense content is the receiver's vectors along the filtered axis -/
structure LayoutOf [Zero α] (t : Table α) (ax : Axis) (layout : CS α) : Prop where
  wf : layout.WF
  nMajor : layout.nMajor = (t.ids ax).length
  nMinor : layout.nMinor = (t.ids ax.other).length
  dense : layout.toDense = vecs t ax

/-- the mask the request stands for, computed on the specification side -/
def maskOf (t : Table α) (ax : Axis) (keep : Keep α) (invert : Bool) : List Bool :=
  match keep with
  | .ids l => (t.ids ax).map (fun id => l.contains id ^^ invert)
  | .pred p => (callsOf (vecs t ax) (t.ids ax) (mdArgs (t.md ax) (t.ids ax).length)).map (verdictOf p invert)
  | .other => []

def callsSpec (t : Table α) (ax : Axis) (keep : Keep α) : List (Call α) :=
  match keep with
  | .pred _ => callsOf (vecs t ax) (t.ids ax) (mdArgs (t.md ax) (t.ids ax).length)
  | _ => []

theorem callsOf_length (vs : List (List α)) (ids : List Id) (mds : List (Option Md))
    (h1 : vs.length = ids.length) (h2 : mds.length = ids.length) : (callsOf vs ids mds).length = ids.length := by
  induction ids generalizing vs mds with
  | nil => cases vs <;> simp [callsOf]
  | cons id ids ih =>
    cases vs with
    | nil => simp at h1
    | cons v vs =>
      cases mds with
      | nil => simp at h2
      | cons md mds => simp [callsOf, ih vs mds (by simpa using h1) (by simpa using h2)]

theorem mdArgs_length (t : Table α) (hwf : t.WF) (ax : Axis) :
    (mdArgs (t.md ax) (t.ids ax).length).length = (t.ids ax).length := by
  obtain ⟨_, _, ho, hs⟩ := hwf
  cases ax with
  | obs =>
    simp only [Table.md, Table.ids]
    cases hm : t.omd with
    | none => simp [mdArgs]
    | some m => simp [mdArgs, ho m hm]
  | samp =>
    simp only [Table.md, Table.ids]
    cases hm : t.smd with
    | none => simp [mdArgs]
    | some m => simp [mdArgs, hs m hm]

theorem vecs_length [Zero α] (t : Table α) (ax : Axis) (layout : CS α) (hl : LayoutOf t ax layout) :
    (vecs t ax).length = (t.ids ax).length := by
  rw [← hl.dense, ← hl.nMajor]; simp [CS.toDense]

theorem maskOf_length [Zero α] (t : Table α) (hwf : t.WF) (ax : Axis) (layout : CS α) (hl : LayoutOf t ax layout)
    (keep : Keep α) (invert : Bool) (hk : ∀ (_ : Unit), keep ≠ .other) :
    (maskOf t ax keep invert).length = (t.ids ax).length := by
  cases keep with
  | ids l => simp [maskOf]
  | pred p =>
    simp only [maskOf, List.length_map]
    exact callsOf_length _ _ _ (vecs_length t ax layout hl) (mdArgs_length t hwf ax)
  | other => exact absurd rfl (hk ())

/-- what the installation step of `Table.filter` builds from the kernel's output is the specified table -/
theorem install_eq [Zero α] (t : Table α) (hwf : t.WF) (ax : Axis) (mask : List Bool) :
    (match ax with
     | .obs => ({ t with obs := filterMask (t.ids .obs) mask, omd := normMd ((t.md .obs).map (filterMask · mask)),
                         rows := filterMask (vecs t .obs) mask } : Table α)
     | .samp => { t with samp := filterMask (t.ids .samp) mask, smd := normMd ((t.md .samp).map (filterMask · mask)),
                         rows := transposeGrid t.obs.length (filterMask (vecs t .samp) mask) }) =
    filterAxis t mask ax := by
  cases ax with
  | obs => rfl
  | samp =>
    simp only [filterAxis, vecs, Table.ids, Table.md]
    rw [← hwf.1, transpose_filter t.rows t.samp.length mask hwf.2.1]

theorem tableFilter_of_mask [Zero α] (t : Table α) (hwf : t.WF) (ax : Axis) (layout : CS α)
    (hl : LayoutOf t ax layout) (keep : Keep α) (invert : Bool) (mask : List Bool) (calls : List (Call α))
    (hm : mask.length = (t.ids ax).length)
    (hk : computeMask (sortIndices layout) (t.ids ax) (t.md ax) keep invert = .ok (mask, calls)) :
    tableFilter t layout ax keep invert = .ok (filterAxis t mask ax, calls) := by
  have hwfS := sortIndices_wf layout hl.wf
  have hrr := removeRows_eq_kept (sortIndices layout) hwfS mask (by rw [sortIndices_nMajor, hl.nMajor, hm])
  have hd : (keptSlices (sortIndices layout) mask).toDense = filterMask (vecs t ax) mask := by
    rw [keptSlices_toDense, sortIndices_toDense layout hl.wf, hl.dense]
  unfold tableFilter filterKernel
  simp only [hk, hrr]
  rw [← install_eq t hwf ax mask]
  cases ax <;> simp only [hd]

theorem computeMask_ids [Zero α] (cs : CS α) (ids : List Id) (md : Option (List Md)) (l : List Id)
    (invert : Bool) (hn : ids.Nodup) :
    computeMask cs ids md (.ids l) invert =
      if l.all (fun k => ids.contains k) then .ok (ids.map (fun id => l.contains id ^^ invert), [])
      else .error .key := by
  simp only [computeMask, idMask_spec ids l invert hn]
  by_cases hall : l.all (fun k => ids.contains k) = true
  · simp only [hall, if_true]
  · simp only [hall]; rfl

theorem computeMask_pred [Zero α] (t : Table α) (hwf : t.WF) (ax : Axis) (layout : CS α)
    (hl : LayoutOf t ax layout) (p : Pred α) (invert : Bool) :
    computeMask (sortIndices layout) (t.ids ax) (t.md ax) (.pred p) invert =
      .ok (maskOf t ax (.pred p) invert, callsSpec t ax (.pred p)) := by
  have hS := sortIndices_wf layout hl.wf
  have := genMask_sorted p invert (sortIndices layout) (sortIndices_sorted layout hl.wf) hS.ptrLen (t.ids ax)
    (mdArgs (t.md ax) (t.ids ax).length) 0 (List.replicate (sortIndices layout).nMinor 0)
    (mdArgs_length t hwf ax) (by rw [sortIndices_nMajor, hl.nMajor]; omega) (by simp)
  simp only [computeMask, this, List.drop_zero, sortIndices_toDense layout hl.wf, hl.dense, maskOf, callsSpec]

/-! ### by-ID views of the specification -/

theorem filterMask_map_self {β : Type} (ids : List β) (f : β → Bool) : filterMask ids (ids.map f) = ids.filter f := by
  induction ids with
  | nil => rfl
  | cons x xs ih => simp only [List.map_cons, filterMask, List.filter_cons, ih]

theorem lookupBy_filterMask {β : Type} (ids : List Id) (xs : List β) (mask : List Bool) (id : Id)
    (hn : ids.Nodup) (hm : id ∈ filterMask ids mask) :
    lookupBy (filterMask ids mask) (filterMask xs mask) id = lookupBy ids xs id := by
  induction ids generalizing xs mask with
  | nil => cases mask <;> simp [filterMask] at hm
  | cons i is ih =>
    simp only [List.nodup_cons] at hn
    cases mask with
    | nil => simp [filterMask] at hm
    | cons b bs =>
      cases xs with
      | nil =>
        have : lookupBy (i :: is) ([] : List β) id = none := by simp [lookupBy]
        rw [this]
        cases h : filterMask (i :: is) (b :: bs) <;> simp [filterMask_nil_left, lookupBy]
      | cons x xs =>
        cases b
        · simp only [filterMask, Bool.false_eq_true, if_false] at hm ⊢
          have hne : i ≠ id := fun e => hn.1 (e ▸ mem_filterMask _ _ _ hm)
          simp only [lookupBy, hne, if_false]
          exact ih xs bs hn.2 hm
        · simp only [filterMask, if_true] at hm ⊢
          by_cases he : i = id
          · simp [lookupBy, he]
          · simp only [lookupBy, he, if_false]
            rcases List.mem_cons.mp hm with h | h
            · exact absurd h.symm he
            · exact ih xs bs hn.2 h

theorem lookupBy_getElem {β : Type} (ids : List Id) (xs : List β) (hn : ids.Nodup) (i : Nat)
    (hi : i < ids.length) (hx : i < xs.length) : lookupBy ids xs ids[i] = some xs[i] := by
  induction ids generalizing xs i with
  | nil => cases hi
  | cons a as ih =>
    simp only [List.nodup_cons] at hn
    cases xs with
    | nil => cases hx
    | cons x xs =>
      cases i with
      | zero => simp [lookupBy]
      | succ i =>
        have hi' : i < as.length := by simpa using hi
        have hne : a ≠ as[i] := fun e => hn.1 (e ▸ List.getElem_mem hi')
        simp only [List.getElem_cons_succ, lookupBy, hne, if_false]
        exact ih xs hn.2 i hi' (by simpa using hx)

theorem lookupBy_eq_getElem? {β : Type} (ids : List Id) (xs : List β) (id : Id) (h : id ∈ ids) :
    lookupBy ids xs id = xs[ids.idxOf id]? := by
  induction ids generalizing xs with
  | nil => cases h
  | cons a as ih =>
    cases xs with
    | nil => simp [lookupBy]
    | cons x xs =>
      by_cases he : a = id
      · simp [lookupBy, he]
      · have hm : id ∈ as := by
          rcases List.mem_cons.mp h with h | h
          · exact absurd h.symm he
          · exact h
        have hb : (a == id) = false := by simpa using he
        simp only [lookupBy, he, if_false, List.idxOf_cons, hb, cond_false, List.getElem?_cons_succ]
        exact ih xs hm

theorem indexOf?_getElem (ids : List Id) (hn : ids.Nodup) (i : Nat) (hi : i < ids.length) :
    indexOf? ids ids[i] = some i := by
  rw [indexOf?_of_mem ids _ (List.getElem_mem hi), hn.idxOf_getElem i hi]

theorem vec?_getElem (t : Table α) (_hwf : t.WF) (ax : Axis) (hn : (t.ids ax).Nodup) (i : Nat)
    (hi : i < (t.ids ax).length) (hv : i < (vecs t ax).length) :
    t.vec? ax (t.ids ax)[i] = some (vecs t ax)[i] := by
  cases ax with
  | obs => exact lookupBy_getElem t.obs t.rows hn i hi hv
  | samp =>
    simp only [Table.vec?, Table.col?, Table.ids] at hn hi ⊢
    rw [indexOf?_getElem t.samp hn i hi]
    simp [vecs, transposeGrid]

theorem mdOf?_getElem (t : Table α) (hwf : t.WF) (ax : Axis) (hn : (t.ids ax).Nodup) (i : Nat)
    (hi : i < (t.ids ax).length) :
    (mdArgs (t.md ax) (t.ids ax).length)[i]? = some (t.mdOf? ax (t.ids ax)[i]) := by
  unfold Table.mdOf?
  cases hm : t.md ax with
  | none => simp [mdArgs, hi]
  | some m =>
    have hml : m.length = (t.ids ax).length := by
      obtain ⟨_, _, ho, hs⟩ := hwf
      cases ax with
      | obs => exact ho m hm
      | samp => exact hs m hm
    simp only [mdArgs, Option.bind_some, List.getElem?_map]
    rw [lookupBy_getElem _ m hn i hi (by omega), List.getElem?_eq_getElem (by omega)]
    rfl

theorem callsOf_getElem? (vs : List (List α)) (ids : List Id) (mds : List (Option Md)) (i : Nat) :
    (callsOf vs ids mds)[i]? =
      match vs[i]?, ids[i]?, mds[i]? with
      | some v, some id, some md => some ⟨v, id, md⟩
      | _, _, _ => none := by
  induction vs generalizing ids mds i with
  | nil => simp [callsOf]
  | cons v vs ih =>
    cases ids with
    | nil => simp [callsOf]
    | cons id ids =>
      cases mds with
      | nil => simp [callsOf]
      | cons md mds =>
        cases i with
        | zero => simp [callsOf]
        | succ i => simp only [callsOf, List.getElem?_cons_succ]; exact ih ids mds i

/-- the true call of an ID: its vector and metadata looked up BY ID in the table -/
def callById (t : Table α) (ax : Axis) (id : Id) : Call α := ⟨(t.vec? ax id).getD [], id, t.mdOf? ax id⟩

theorem callsSpec_byId [Zero α] (t : Table α) (hwf : t.WF) (ax : Axis) (hn : (t.ids ax).Nodup) (layout : CS α)
    (hl : LayoutOf t ax layout) :
    callsOf (vecs t ax) (t.ids ax) (mdArgs (t.md ax) (t.ids ax).length) = (t.ids ax).map (callById t ax) := by
  have hvl := vecs_length t ax layout hl
  apply List.ext_getElem?
  intro i
  rw [callsOf_getElem?, List.getElem?_map]
  by_cases hi : i < (t.ids ax).length
  · rw [List.getElem?_eq_getElem hi, List.getElem?_eq_getElem (show i < (vecs t ax).length by omega),
      mdOf?_getElem t hwf ax hn i hi]
    simp only [Option.map_some, callById, vec?_getElem t hwf ax hn i hi (by omega), Option.getD_some]
  · have : (t.ids ax).length ≤ i := by omega
    rw [List.getElem?_eq_none this]
    split <;> simp_all

/-! ### the specified result, looked up by ID -/

theorem filterMap_congr' {β γ : Type} (l : List β) (f g : β → Option γ) (h : ∀ x ∈ l, f x = g x) :
    l.filterMap f = l.filterMap g := by
  induction l with
  | nil => rfl
  | cons x xs ih =>
    simp only [List.filterMap_cons, h x List.mem_cons_self,
      ih (fun y hy => h y (List.mem_cons_of_mem _ hy))]

theorem filterAxis_ids (t : Table α) (mask : List Bool) (ax : Axis) :
    (filterAxis t mask ax).ids ax = filterMask (t.ids ax) mask := by cases ax <;> rfl

theorem filterAxis_other_ids (t : Table α) (mask : List Bool) (ax : Axis) :
    (filterAxis t mask ax).ids ax.other = t.ids ax.other := by cases ax <;> rfl

theorem filterAxis_other_md (t : Table α) (mask : List Bool) (ax : Axis) :
    (filterAxis t mask ax).md ax.other = t.md ax.other := by cases ax <;> rfl

theorem filterAxis_md (t : Table α) (mask : List Bool) (ax : Axis) :
    (filterAxis t mask ax).md ax = normMd ((t.md ax).map (filterMask · mask)) := by cases ax <;> rfl

theorem normMd_eq_some (m : Option (List Md)) (l : List Md) (h : normMd m = some l) : m = some l := by
  cases m with
  | none => simp [normMd] at h
  | some l' =>
    simp only [normMd] at h
    split at h
    · cases h
    · exact h

theorem lookupBy_mem {β : Type} (ids : List Id) (xs : List β) (id : Id) (x : β) (h : lookupBy ids xs id = some x) :
    x ∈ xs := by
  induction ids generalizing xs with
  | nil => cases xs <;> simp [lookupBy] at h
  | cons a as ih =>
    cases xs with
    | nil => simp [lookupBy] at h
    | cons y ys =>
      by_cases he : a = id
      · simp only [lookupBy, he, if_true, Option.some.injEq] at h
        subst h; exact List.mem_cons_self
      · simp only [lookupBy, he, if_false] at h
        exact List.mem_cons_of_mem _ (ih ys h)

/-- dropping an all-empty metadata tuple does not change any canonical entry -/
theorem mdCanon_normMd (m : Option (List Md)) (ids : List Id) (id : Id) :
    mdCanon ((normMd m).bind (fun l => lookupBy ids l id)) = mdCanon (m.bind (fun l => lookupBy ids l id)) := by
  cases m with
  | none => rfl
  | some l =>
    simp only [normMd]
    split
    · rename_i hall
      simp only [Option.bind_none, Option.bind_some, mdCanon, Option.getD_none]
      cases hlk : lookupBy ids l id with
      | none => rfl
      | some e =>
        have := List.all_eq_true.mp hall e (lookupBy_mem ids l id e hlk)
        simp only [Option.getD_some]
        exact (List.isEmpty_iff.mp this).symm
    · rfl

theorem filterAxis_ttype (t : Table α) (mask : List Bool) (ax : Axis) :
    (filterAxis t mask ax).ttype = t.ttype := by cases ax <;> rfl

/-- a kept ID keeps its vector -/
theorem filterAxis_vec? (t : Table α) (mask : List Bool) (ax : Axis) (hn : (t.ids ax).Nodup) (id : Id)
    (hm : id ∈ filterMask (t.ids ax) mask) : (filterAxis t mask ax).vec? ax id = t.vec? ax id := by
  cases ax with
  | obs => exact lookupBy_filterMask t.obs t.rows mask id hn hm
  | samp =>
    simp only [Table.ids] at hn hm
    have hmem : id ∈ t.samp := mem_filterMask _ _ _ hm
    simp only [Table.vec?, Table.col?, filterAxis, indexOf?_of_mem _ _ hm, indexOf?_of_mem _ _ hmem, Option.map_some,
      colAt, List.filterMap_map]
    congr 1
    apply filterMap_congr'
    intro r _
    simp only [Function.comp]
    rw [← lookupBy_eq_getElem? _ _ _ hm, ← lookupBy_eq_getElem? _ _ _ hmem]
    exact lookupBy_filterMask t.samp r mask id hn hm

/-- a kept ID keeps its metadata (canonically: an absent tuple ≡ an empty entry) -/
theorem filterAxis_mdOf? (t : Table α) (mask : List Bool) (ax : Axis) (hn : (t.ids ax).Nodup) (id : Id)
    (hm : id ∈ filterMask (t.ids ax) mask) :
    mdCanon ((filterAxis t mask ax).mdOf? ax id) = mdCanon (t.mdOf? ax id) := by
  unfold Table.mdOf?
  rw [filterAxis_md, filterAxis_ids, mdCanon_normMd]
  cases t.md ax with
  | none => rfl
  | some m =>
    simp only [Option.map_some, Option.bind_some]
    rw [lookupBy_filterMask (t.ids ax) m mask id hn hm]

theorem wfb_of_wf (t : Table α) (h : t.WF) : t.wfb = true := by
  obtain ⟨h1, h2, h3, h4⟩ := h
  simp only [Table.wfb, Bool.and_eq_true, beq_iff_eq, List.all_eq_true]
  refine ⟨⟨⟨h1, h2⟩, ?_⟩, ?_⟩
  · cases hm : t.omd with
    | none => rfl
    | some m => simpa using h3 m hm
  · cases hm : t.smd with
    | none => rfl
    | some m => simpa using h4 m hm

theorem filterAxis_wf (t : Table α) (h : t.WF) (mask : List Bool) (ax : Axis)
    (hm : mask.length = (t.ids ax).length) : (filterAxis t mask ax).WF := by
  obtain ⟨h1, h2, h3, h4⟩ := h
  cases ax with
  | obs =>
    simp only [Table.ids] at hm
    refine ⟨?_, ?_, ?_, h4⟩
    · show (filterMask t.rows mask).length = (filterMask t.obs mask).length
      rw [length_filterMask _ _ (by omega), length_filterMask _ _ (by omega)]
    · intro r hr
      exact h2 r (mem_filterMask _ _ _ hr)
    · intro m hmd
      have hmd := normMd_eq_some _ _ hmd
      simp only [Option.map_eq_some_iff] at hmd
      obtain ⟨m0, hm0, rfl⟩ := hmd
      have := h3 m0 hm0
      show (filterMask m0 mask).length = (filterMask t.obs mask).length
      rw [length_filterMask _ _ (by omega), length_filterMask _ _ (by omega)]
  | samp =>
    simp only [Table.ids] at hm
    refine ⟨?_, ?_, h3, ?_⟩
    · show (t.rows.map (filterMask · mask)).length = t.obs.length
      simpa using h1
    · intro r hr
      simp only [filterAxis, List.mem_map] at hr
      obtain ⟨r0, hr0, rfl⟩ := hr
      have := h2 r0 hr0
      show (filterMask r0 mask).length = (filterMask t.samp mask).length
      rw [length_filterMask _ _ (by omega), length_filterMask _ _ (by omega)]
    · intro m hmd
      have hmd := normMd_eq_some _ _ hmd
      simp only [Option.map_eq_some_iff] at hmd
      obtain ⟨m0, hm0, rfl⟩ := hmd
      have := h4 m0 hm0
      show (filterMask m0 mask).length = (filterMask t.samp mask).length
      rw [length_filterMask _ _ (by omega), length_filterMask _ _ (by omega)]

/-! ### masks given as ID lists -/

/-- naming the IDs that a positional mask keeps gives that mask back (distinct IDs) -/
theorem contains_filterMask_self (ids : List Id) (hn : ids.Nodup) (m : List Bool) (hm : m.length = ids.length) :
    ids.map (fun id => (filterMask ids m).contains id) = m := by
  induction ids generalizing m with
  | nil => cases m with
    | nil => rfl
    | cons _ _ => simp at hm
  | cons a as ih =>
    simp only [List.nodup_cons] at hn
    cases m with
    | nil => simp at hm
    | cons b bs =>
      have hbs : bs.length = as.length := by simpa using hm
      have hrest : ∀ (F : List Id), as.map (fun id => (a :: F).contains id) = as.map (fun id => F.contains id) := by
        intro F
        apply List.map_congr_left
        intro id hid
        have hne : id ≠ a := fun e => hn.1 (e ▸ hid)
        have : (id == a) = false := by simpa using hne
        rw [List.contains_cons, this, Bool.false_or]
      cases b
      · have hna : (filterMask as bs).contains a = false := by
          simpa using fun hm => hn.1 (mem_filterMask _ _ _ hm)
        simp only [filterMask, Bool.false_eq_true, if_false, List.map_cons, hna, ih hn.2 bs hbs]
      · simp only [filterMask, if_true, List.map_cons, List.contains_cons, beq_self_eq_true, Bool.true_or]
        rw [show as.map (fun id => (id == a || (filterMask as bs).contains id)) =
              as.map (fun id => (a :: filterMask as bs).contains id) from
                List.map_congr_left (fun id _ => (List.contains_cons ..).symm), hrest,
            ih hn.2 bs hbs]

/-- the mask "leading `n` positions" -/
def takeMask : Nat → Nat → List Bool
  | _, 0 => []
  | 0, len + 1 => false :: takeMask 0 len
  | n + 1, len + 1 => true :: takeMask n len

theorem takeMask_length (n len : Nat) : (takeMask n len).length = len := by
  induction len generalizing n with
  | zero => cases n <;> rfl
  | succ len ih => cases n <;> simp [takeMask, ih]

theorem filterMask_takeMask {β : Type} (xs : List β) (n : Nat) : filterMask xs (takeMask n xs.length) = xs.take n := by
  induction xs generalizing n with
  | nil => cases n <;> rfl
  | cons x xs ih =>
    cases n with
    | zero => simp only [List.length_cons, takeMask, filterMask, Bool.false_eq_true, if_false, ih 0, List.take_zero]
    | succ n => simp only [List.length_cons, takeMask, filterMask, if_true, ih n, List.take_succ_cons]

end Biom.C08
