/-
  Lemmas for C04 (and, through it, C01): domain predicates of the theorems, the scipy contract,
  list facts, the per-category formatter, `WF → wfb`, stored count = non-zero count, transposition.
-/
import BiomModel.C04
import Mathlib.Data.List.Nodup
import Mathlib.Data.List.Perm.Basic

set_option linter.unusedSectionVars false

namespace Biom.Hdf5
open Biom Biom.C04

variable {α δ : Type}

/-! ### hypotheses of the theorems -/

/-- shape well-formedness of the table being written -/
structure SrcWF (t : Src α) : Prop where
  rowsLen : t.rows.length = t.obs.length
  rowLen : ∀ r ∈ t.rows, r.length = t.samp.length
  omdLen : ∀ m, t.omd = some m → m.length = t.obs.length
  smdLen : ∀ m, t.smd = some m → m.length = t.samp.length
  /-- group metadata of an axis is a dict: distinct keys -/
  ogmdKeys : ((gmdAll t.ogmd t.ogmdBare).map (·.1)).Nodup
  sgmdKeys : ((gmdAll t.sgmd t.sgmdBare).map (·.1)).Nodup

/-- The scipy contract for the two layouts `to_hdf5` obtains from `asformat('csr')` /
`asformat('csc')` after `nnz` has eliminated stored zeros: each is well formed, has the table's
dimensions and dense content (`D` resp. `Dᵀ`) and stores no zero.  Index order inside a vector is
free.  (That both store the same number of entries is derived: `views_sameCount`.) -/
structure Views [Zero α] [DecidableEq α] (t : Src α) (csr csc : CS α) : Prop where
  csrWF : csr.WF
  csrMajor : csr.nMajor = t.obs.length
  csrMinor : csr.nMinor = t.samp.length
  csrDense : csr.toDense = t.rows
  csrNZ : csr.NoStoredZeros
  cscWF : csc.WF
  cscMajor : csc.nMajor = t.samp.length
  cscMinor : csc.nMinor = t.obs.length
  cscDense : csc.toDense = transposeGrid t.samp.length t.rows
  cscNZ : csc.NoStoredZeros

/-! ### list facts -/

theorem mapM_ok_map {β γ : Type} (f : β → Except Err γ) (g : β → γ) (l : List β)
    (h : ∀ x ∈ l, f x = .ok (g x)) : l.mapM f = .ok (l.map g) := by
  induction l with
  | nil => rfl
  | cons x xs ih =>
    rw [List.mapM_cons, h x (List.mem_cons_self), ih (fun y hy => h y (List.mem_cons_of_mem _ hy))]
    rfl

theorem mapM_map_ok {β γ : Type} (f : γ → Except Err β) (g : β → γ) (l : List β)
    (h : ∀ x, f (g x) = .ok x) : (l.map g).mapM f = .ok l := by
  induction l with
  | nil => rfl
  | cons x xs ih => rw [List.map_cons, List.mapM_cons, h x, ih]; rfl

theorem le_maxL {l : List Nat} {x : Nat} (h : x ∈ l) : x ≤ maxL l := by
  induction l with
  | nil => cases h
  | cons y ys ih =>
    simp only [maxL, List.foldr_cons]
    rcases List.mem_cons.mp h with rfl | h'
    · exact Nat.le_max_left _ _
    · exact Nat.le_trans (ih h') (Nat.le_max_right _ _)

/-! ### cells -/

theorem cellStr_strCell (c : Utf8) (hc : c.RT) (s : String) : cellStr (α := α) c (strCell c s) = .ok s := hc.rt s

theorem mapM_cellStr (c : Utf8) (hc : c.RT) (l : List String) :
    (l.map (strCell (α := α) c)).mapM (cellStr c) = .ok l :=
  mapM_map_ok _ _ _ (cellStr_strCell c hc)

theorem cellNat_natCell (n : Nat) : cellNat (α := α) (natCell n) = .ok n := by
  simp [cellNat, natCell]

theorem mapM_cellNat (l : List Nat) : (l.map (natCell (α := α))).mapM cellNat = .ok l :=
  mapM_map_ok _ _ _ cellNat_natCell

theorem mapM_cellVal (l : List α) : (l.map Cell.f).mapM cellVal = .ok l :=
  mapM_map_ok _ _ _ (fun _ => rfl)

theorem specIds_strDs [DecidableEq α] (c : Utf8) (hc : c.RT) (ids : List String) :
    specIds (α := α) c (some (strDs c ids)) = .ok ids := by
  simp [specIds, reqE, strDs, mapM_cellStr c hc, bind, Except.bind]

/-! ### `CS.WF → wfb` -/

theorem wfb_of_WF {cs : CS α} (h : cs.WF) : cs.wfb = true := by
  unfold CS.wfb
  simp only [Bool.and_eq_true, beq_iff_eq, List.all_eq_true, List.mem_range, decide_eq_true_eq]
  exact ⟨⟨⟨⟨⟨⟨h.ptrLen, h.ptrZero⟩, h.ptrMono⟩, h.ptrLast⟩, h.sameLen⟩, h.inRange⟩, h.distinct⟩

/-! ### stored count = number of non-zero cells -/
section nnz
variable [Zero α] [DecidableEq α]

theorem entryAt_ne_zero_iff (ents : List (Nat × α)) (hnz : ∀ e ∈ ents, e.2 ≠ 0) (j : Nat) :
    CS.entryAt ents j ≠ 0 ↔ j ∈ ents.map (·.1) := by
  unfold CS.entryAt
  cases hf : ents.find? (fun e => e.1 == j) with
  | none =>
    simp only [ne_eq, not_true_eq_false, false_iff]
    intro hm
    obtain ⟨e, he, hej⟩ := List.mem_map.mp hm
    have := List.find?_eq_none.mp hf e he
    simp [hej] at this
  | some e =>
    have hmem := List.mem_of_find?_eq_some hf
    have hp := List.find?_some hf
    simp only [beq_iff_eq] at hp
    constructor
    · intro _; exact List.mem_map.mpr ⟨e, hmem, hp⟩
    · intro _; exact hnz e hmem

theorem countP_range_mem (keys : List Nat) (n : Nat) (hnd : keys.Nodup) (hlt : ∀ k ∈ keys, k < n) :
    (List.range n).countP (fun j => decide (j ∈ keys)) = keys.length := by
  rw [List.countP_eq_length_filter]
  apply List.Perm.length_eq
  rw [List.perm_ext_iff_of_nodup (List.Nodup.filter _ List.nodup_range) hnd]
  intro a
  simp only [List.mem_filter, List.mem_range, decide_eq_true_eq]
  exact ⟨fun h => h.2, fun h => ⟨hlt a h, h⟩⟩

theorem countP_denseVec (n : Nat) (ents : List (Nat × α)) (hnd : (ents.map (·.1)).Nodup)
    (hlt : ∀ e ∈ ents, e.1 < n) (hnz : ∀ e ∈ ents, e.2 ≠ 0) :
    (CS.denseVec n ents).countP (fun v => decide (v ≠ 0)) = ents.length := by
  unfold CS.denseVec
  rw [List.countP_map]
  have h1 : (List.range n).countP ((fun v => decide (v ≠ 0)) ∘ CS.entryAt ents) =
      (List.range n).countP (fun j => decide (j ∈ ents.map (·.1))) := by
    apply List.countP_congr
    intro j _
    simp only [Function.comp, decide_eq_true_eq]
    exact entryAt_ne_zero_iff ents hnz j
  rw [h1, countP_range_mem _ n hnd, List.length_map]
  intro k hk
  obtain ⟨e, he, rfl⟩ := List.mem_map.mp hk
  exact hlt e he

def sumN (l : List Nat) : Nat := l.foldr (· + ·) 0

theorem sumN_append (a b : List Nat) : sumN (a ++ b) = sumN a + sumN b := by
  induction a with
  | nil => simp [sumN]
  | cons x xs ih => simp only [sumN, List.cons_append, List.foldr_cons] at ih ⊢; omega

theorem ptr_mono {cs : CS α} (h : cs.WF) (i j : Nat) (hij : i ≤ j) (hj : j ≤ cs.nMajor) :
    cs.indptr.getD i 0 ≤ cs.indptr.getD j 0 := by
  induction j with
  | zero => have : i = 0 := by omega
            subst this; exact Nat.le_refl _
  | succ k ih =>
    by_cases hik : i = k + 1
    · subst hik; exact Nat.le_refl _
    · exact Nat.le_trans (ih (by omega) (by omega)) (h.ptrMono k (by omega))

theorem slice_length {cs : CS α} (h : cs.WF) (i : Nat) (hi : i < cs.nMajor) :
    (cs.slice i).length = cs.indptr.getD (i + 1) 0 - cs.indptr.getD i 0 := by
  have hle : cs.indptr.getD (i + 1) 0 ≤ cs.data.length := by
    rw [← h.ptrLast]; exact ptr_mono h _ _ (by omega) (Nat.le_refl _)
  have hsl := h.sameLen
  unfold CS.slice
  simp only [List.length_zip, List.length_take, List.length_drop]
  omega

theorem sum_slices {cs : CS α} (h : cs.WF) (k : Nat) (hk : k ≤ cs.nMajor) :
    sumN ((List.range k).map (fun i => (cs.slice i).length)) = cs.indptr.getD k 0 := by
  induction k with
  | zero =>
    have h0 := h.ptrZero
    simp only [List.range_zero, List.map_nil, sumN, List.foldr_nil]
    rw [List.getD_eq_getElem?_getD, h0]; rfl
  | succ k ih =>
    rw [List.range_succ, List.map_append, sumN_append, ih (by omega)]
    simp only [List.map_cons, List.map_nil, sumN, List.foldr_cons, List.foldr_nil, Nat.add_zero]
    rw [slice_length h k (by omega)]
    have := h.ptrMono k (by omega)
    omega

theorem slice_mem {cs : CS α} (i : Nat) (e : Nat × α) (he : e ∈ cs.slice i) :
    e.1 ∈ cs.indices ∧ e.2 ∈ cs.data := by
  unfold CS.slice at he
  obtain ⟨e1, e2⟩ := e
  have := List.of_mem_zip he
  exact ⟨List.mem_of_mem_drop (List.mem_of_mem_take this.1), List.mem_of_mem_drop (List.mem_of_mem_take this.2)⟩

/-- For a well-formed layout without stored zeros the number of stored entries is the number of
non-zero cells of its dense content. -/
theorem stored_eq_nnz {cs : CS α} (h : cs.WF) (hz : cs.NoStoredZeros) :
    cs.data.length = nnzGrid cs.toDense := by
  unfold nnzGrid CS.toDense
  rw [List.map_map]
  have hmap : (List.range cs.nMajor).map ((fun r => List.countP (fun v => decide (v ≠ 0)) r) ∘ fun i => CS.denseVec cs.nMinor (cs.slice i))
      = (List.range cs.nMajor).map (fun i => (cs.slice i).length) := by
    apply List.map_congr_left
    intro i hi
    simp only [Function.comp]
    apply countP_denseVec
    · exact h.distinct i (List.mem_range.mp hi)
    · intro e he; exact h.inRange _ (slice_mem i e he).1
    · intro e he; exact hz _ (slice_mem i e he).2
  rw [hmap]
  have := sum_slices h cs.nMajor (Nat.le_refl _)
  unfold sumN at this
  rw [this, h.ptrLast]

end nnz

/-! ### transposition -/

theorem colAt_cons (r : List α) (D : List (List α)) (j : Nat) (hj : j < r.length) :
    colAt (r :: D) j = r[j] :: colAt D j := by
  simp [colAt, List.getElem?_eq_getElem hj]

theorem colAt_length (D : List (List α)) (j : Nat) (hj : ∀ r ∈ D, j < r.length) :
    (colAt D j).length = D.length := by
  induction D with
  | nil => rfl
  | cons r D ih =>
    rw [colAt_cons r D j (hj r List.mem_cons_self)]
    simp [ih (fun r hr => hj r (List.mem_cons_of_mem _ hr))]

theorem colAt_getElem? (D : List (List α)) (j : Nat) (hj : ∀ r ∈ D, j < r.length) (i : Nat) :
    (colAt D j)[i]? = D[i]?.bind (·[j]?) := by
  induction D generalizing i with
  | nil => simp [colAt]
  | cons r D ih =>
    rw [colAt_cons r D j (hj r List.mem_cons_self)]
    cases i with
    | zero => simp [List.getElem?_eq_getElem (hj r List.mem_cons_self)]
    | succ i => simpa using ih (fun r hr => hj r (List.mem_cons_of_mem _ hr)) i

theorem transposeGrid_getElem? (m : Nat) (D : List (List α)) (k : Nat) :
    (transposeGrid m D)[k]? = if k < m then some (colAt D k) else none := by
  unfold transposeGrid
  rw [List.getElem?_map]
  by_cases hk : k < m
  · simp [hk]
  · simp [hk]

/-- transposing twice gives the grid back (rectangular grids) -/
theorem transpose_transpose (D : List (List α)) (n m : Nat) (hn : D.length = n)
    (hm : ∀ r ∈ D, r.length = m) : transposeGrid n (transposeGrid m D) = D := by
  apply List.ext_getElem?
  intro i
  rw [transposeGrid_getElem?]
  by_cases hi : i < n
  · have hiD : i < D.length := by omega
    simp only [hi, if_true, List.getElem?_eq_getElem hiD, Option.some.injEq]
    apply List.ext_getElem?
    intro k
    have hrow : D[i].length = m := hm _ (List.getElem_mem hiD)
    have hT : ∀ r ∈ transposeGrid m D, i < r.length := by
      intro r hr
      unfold transposeGrid at hr
      obtain ⟨j, hj, rfl⟩ := List.mem_map.mp hr
      rw [colAt_length D j (fun r hr => by rw [hm r hr]; exact List.mem_range.mp hj)]
      exact hiD
    rw [colAt_getElem? _ i hT k, transposeGrid_getElem?]
    by_cases hk : k < m
    · simp only [hk, if_true, Option.bind_some]
      rw [colAt_getElem? D k (fun r hr => by rw [hm r hr]; exact hk) i, List.getElem?_eq_getElem hiD]
      rfl
    · simp only [hk, if_false, Option.bind_none]
      symm
      exact List.getElem?_eq_none (by omega)
  · simp only [hi, if_false]
    symm
    exact List.getElem?_eq_none (by omega)

/-! ### the per-category formatter on the domain -/

theorem special_sanitize (k : String) (h : isSpecial k = true) : sanitize k = k := by
  simp only [isSpecial, Bool.or_eq_true, beq_iff_eq] at h
  rcases h with ((h | h) | h) | h <;> subst h <;> decide

theorem map_noneToText_atoms (col : List (MdVal α)) (h : col.all MdVal.isAtom = true) :
    col.map noneToText = col := by
  induction col with
  | nil => rfl
  | cons x xs ih =>
    simp only [List.all_cons, Bool.and_eq_true] at h
    rw [List.map_cons, ih h.2]
    cases x <;> simp [MdVal.isAtom] at h <;> rfl

def atomKind (col : List (MdVal α)) : Kind :=
  if col.all MdVal.isText then .vlenStr else if col.all MdVal.isInt then .i64
  else if col.all MdVal.isFloat then .f64 else .bool

def atomDomain (col : List (MdVal α)) : Bool :=
  col.all MdVal.isText || col.all MdVal.isInt || col.all MdVal.isFloat || col.all MdVal.isBool

theorem all_atom_of (p : MdVal α → Bool) (hp : ∀ v, p v = true → MdVal.isAtom v = true)
    (col : List (MdVal α)) (h : col.all p = true) : col.all MdVal.isAtom = true := by
  rw [List.all_eq_true] at h ⊢
  exact fun x hx => hp x (h x hx)

theorem atomDomain_atoms (col : List (MdVal α)) (h : atomDomain col = true) : col.all MdVal.isAtom = true := by
  simp only [atomDomain, Bool.or_eq_true] at h
  rcases h with ((h | h) | h) | h
  · exact all_atom_of _ (fun v hv => by cases v <;> simp_all [MdVal.isText, MdVal.isAtom]) col h
  · exact all_atom_of _ (fun v hv => by cases v <;> simp_all [MdVal.isInt, MdVal.isAtom]) col h
  · exact all_atom_of _ (fun v hv => by cases v <;> simp_all [MdVal.isFloat, MdVal.isAtom]) col h
  · exact all_atom_of _ (fun v hv => by cases v <;> simp_all [MdVal.isBool, MdVal.isAtom]) col h

/-- all-text / all-integer / all-float / all-boolean category: a 1-D dataset of the matching kind
under the escaped name -/
theorem generalFmt_atoms (c : Utf8) (k : String) (col : List (MdVal α)) (hne : col ≠ [])
    (hd : atomDomain col = true) :
    generalFmt c k col =
      .ok (sanitize k, { kind := atomKind col, data := .d1 (col.filterMap (scalarCell c)) }) := by
  have hat := atomDomain_atoms col hd
  unfold generalFmt
  simp only [map_noneToText_atoms col hat]
  cases col with
  | nil => exact absurd rfl hne
  | cons x xs =>
    by_cases h1 : (x :: xs).all MdVal.isText = true
    · simp [h1, atomKind]
    · have hl : (x :: xs).all MdVal.isList = false := by
        simp only [List.all_cons, Bool.and_eq_true] at hat
        cases x <;> simp_all [MdVal.isAtom, MdVal.isList]
      simp only [h1, hl, atomKind, if_false, Bool.false_eq_true]
      by_cases h2 : (x :: xs).all MdVal.isInt = true
      · simp [h2]
      · simp only [h2]
        by_cases h3 : (x :: xs).all MdVal.isFloat = true
        · simp [h3]
        · simp only [h3]
          have h4 : (x :: xs).all MdVal.isBool = true := by
            simp only [atomDomain, Bool.or_eq_true] at hd
            rcases hd with ((h | h) | h) | h
            · exact absurd h h1
            · exact absurd h h2
            · exact absurd h h3
            · exact h
          simp [h4]

theorem goodList_not (col : List (MdVal α)) (h : col.all goodList = true) :
    col.any MdVal.isNum = false ∧ col.any MdVal.isText = false := by
  rw [List.all_eq_true] at h
  constructor
  · rw [List.any_eq_false]; intro x hx; have := h x hx; cases x <;> simp_all [goodList, MdVal.isNum]
  · rw [List.any_eq_false]; intro x hx; have := h x hx; cases x <;> simp_all [goodList, MdVal.isText]

/-- lists of text under a hierarchical name: a 2-D dataset padded to the longest list -/
theorem listFmt_good (c : Utf8) (k : String) (col : List (MdVal α)) (hne : col ≠ [])
    (hd : col.all goodList = true) :
    listFmt c k col = .ok (k, ⟨.vlenStr, .d2 (maxL (listLens col)) (col.map (listRow c (maxL (listLens col)))), none⟩) := by
  obtain ⟨h1, h2⟩ := goodList_not col hd
  have hlens : (listLens col).isEmpty = false := by
    cases col with
    | nil => exact absurd rfl hne
    | cons x xs =>
      simp only [List.all_cons, Bool.and_eq_true] at hd
      cases x <;> simp_all [goodList, listLens]
  unfold listFmt
  simp [h1, h2, hlens]

/-- the column the hierarchical formatter lays out: flat texts are split first -/
def taxCol (col : List (MdVal α)) : List (MdVal α) :=
  if col.any MdVal.isText then splitCol col else col

def listDs (c : Utf8) (col : List (MdVal α)) : DSet α :=
  { kind := .vlenStr, data := .d2 (maxL (listLens col)) (col.map (listRow c (maxL (listLens col)))) }

theorem splitCol_lists (col : List (MdVal α)) (h : col.all MdVal.isText = true) :
    (splitCol col).all MdVal.isList = true := by
  rw [List.all_eq_true] at h ⊢
  intro v hv
  obtain ⟨x, hx, rfl⟩ := List.mem_map.mp hv
  have := h x hx
  cases x <;> simp_all [MdVal.isText, MdVal.isList]

/-- flat texts under `taxonomy`: split, then laid out like lists -/
theorem listFmt_flat (c : Utf8) (col : List (MdVal α)) (hne : col ≠ [])
    (hd : col.all MdVal.isText = true) :
    listFmt c "taxonomy" col = .ok ("taxonomy", listDs c (splitCol col)) := by
  have hnum : col.any MdVal.isNum = false := by
    rw [List.all_eq_true] at hd
    rw [List.any_eq_false]; intro x hx; have := hd x hx; cases x <;> simp_all [MdVal.isText, MdVal.isNum]
  have hany : col.any MdVal.isText = true := by
    cases col with
    | nil => exact absurd rfl hne
    | cons x xs => simp only [List.all_cons, Bool.and_eq_true] at hd; simp [hd.1]
  have hlens : (listLens (splitCol col)).isEmpty = false := by
    cases col with
    | nil => exact absurd rfl hne
    | cons x xs =>
      simp only [List.all_cons, Bool.and_eq_true] at hd
      cases x <;> simp_all [MdVal.isText, splitCol, listLens]
  unfold listFmt
  simp only [hnum, hany, hd, Bool.false_eq_true, if_false, if_true, beq_self_eq_true, Bool.and_self]
  simp only [hlens, Bool.false_eq_true, if_false, listDs]

/-- the dataset written for a category of the domain -/
def fmtDs (c : Utf8) (k : String) (col : List (MdVal α)) : DSet α :=
  if isSpecial k then listDs c (taxCol col)
  else { kind := atomKind col, data := .d1 (col.filterMap (scalarCell c)) }

theorem taxCol_good (col : List (MdVal α)) (h : col.all goodList = true) : taxCol col = col := by
  simp [taxCol, (goodList_not col h).2]

theorem taxCol_flat (col : List (MdVal α)) (hne : col ≠ []) (h : col.all MdVal.isText = true) :
    taxCol col = splitCol col := by
  cases col with
  | nil => exact absurd rfl hne
  | cons x xs => simp only [List.all_cons, Bool.and_eq_true] at h; simp [taxCol, h.1]

theorem fmtCategory_domain (c : Utf8) (k : String) (col : List (MdVal α)) (hne : col ≠ [])
    (hd : colDomain k col = true) : fmtCategory c k col = .ok (sanitize k, fmtDs c k col) := by
  unfold fmtCategory fmtDs colDomain at *
  by_cases hs : isSpecial k = true
  · simp only [hs, if_true, Bool.or_eq_true, Bool.and_eq_true, beq_iff_eq] at hd ⊢
    rcases hd with hd | ⟨hk, hd⟩
    · rw [listFmt_good c k col hne hd, special_sanitize k hs, taxCol_good col hd]; rfl
    · subst hk
      rw [listFmt_flat c col hne hd, special_sanitize _ hs, taxCol_flat col hne hd]
  · simp only [hs, if_false, Bool.false_eq_true] at hd ⊢
    exact generalFmt_atoms c k col hne hd

/-! ### stored entries stand for the values, in order -/
section rep
variable [DecidableEq α]

theorem okEq_ok {β : Type} [BEq β] [LawfulBEq β] (x : β) : okEq (.ok x) x = true := by
  simp [okEq]

theorem allRep_atoms (c : Utf8) (hc : c.RT) (col : List (MdVal α)) (h : col.all MdVal.isAtom = true) :
    allRep c col ((col.filterMap (scalarCell c)).map .scalar) = true := by
  induction col with
  | nil => rfl
  | cons x xs ih =>
    simp only [List.all_cons, Bool.and_eq_true] at h
    have ih' := ih h.2
    cases x <;> simp [MdVal.isAtom] at h <;>
      simp [scalarCell, allRep, represents, ih', strCell, hc.rt, okEq]

theorem filterMap_scalarCell_length (c : Utf8) (col : List (MdVal α)) (h : col.all MdVal.isAtom = true) :
    (col.filterMap (scalarCell c)).length = col.length := by
  induction col with
  | nil => rfl
  | cons x xs ih =>
    simp only [List.all_cons, Bool.and_eq_true] at h
    have ih' := ih h.2
    cases x <;> simp [MdVal.isAtom] at h <;> simp [scalarCell, ih']

theorem strCell_ne_empty (c : Utf8) (hc : c.RT) (s : String) (hs : s ≠ "") :
    (strCell (α := α) c s != Cell.s c.empty) = true := by
  simp only [strCell, bne_iff_ne, ne_eq, Cell.s.injEq]
  exact fun h => hs (hc.encNonEmpty s h)

theorem filter_padRow (c : Utf8) (hc : c.RT) (w : Nat) (l : List String) (hl : ∀ s ∈ l, s ≠ "") :
    (padRow (α := α) c w l).filter (fun x => x != .s c.empty) = l.map (strCell c) := by
  unfold padRow
  rw [List.filter_append, List.filter_replicate]
  simp only [bne_self_eq_false, Bool.false_eq_true, if_false, List.append_nil]
  rw [List.filter_eq_self]
  intro x hx
  obtain ⟨s, hs, rfl⟩ := List.mem_map.mp hx
  exact strCell_ne_empty c hc s (hl s hs)

theorem padRow_allS (c : Utf8) (w : Nat) (l : List String) :
    (padRow (α := α) c w l).all (fun x => match x with | .s _ => true | _ => false) = true := by
  unfold padRow
  rw [List.all_append, Bool.and_eq_true]
  constructor
  · rw [List.all_eq_true]; intro x hx
    obtain ⟨s, _, rfl⟩ := List.mem_map.mp hx; rfl
  · rw [List.all_eq_true]; intro x hx
    rw [List.eq_of_mem_replicate hx]

theorem padRow_length (c : Utf8) (w : Nat) (l : List String) (h : l.length ≤ w) :
    (padRow (α := α) c w l).length = w := by
  simp [padRow]; omega

theorem goodList_elems {v : MdVal α} (h : goodList v = true) :
    ∃ l, v = .list l ∧ l ≠ [] ∧ ∀ s ∈ l, s ≠ "" := by
  cases v <;> simp [goodList] at h
  rename_i l
  exact ⟨l, rfl, h.1, fun s hs => h.2 s hs⟩

theorem represents_list (c : Utf8) (hc : c.RT) (w : Nat) (l : List String) (hl : ∀ s ∈ l, s ≠ "") :
    represents (α := α) c (.list l) (.vec (padRow c w l)) = true := by
  simp only [represents, Bool.and_eq_true]
  refine ⟨padRow_allS c w l, ?_⟩
  rw [filter_padRow c hc w l hl, mapM_cellStr c hc]
  exact okEq_ok l

theorem allRep_lists (c : Utf8) (hc : c.RT) (w : Nat) (col : List (MdVal α)) (h : col.all goodList = true) :
    allRep c col ((col.map (listRow c w)).map .vec) = true := by
  induction col with
  | nil => rfl
  | cons x xs ih =>
    simp only [List.all_cons, Bool.and_eq_true] at h
    obtain ⟨l, rfl, _, hl⟩ := goodList_elems h.1
    simp only [List.map_cons, allRep, Bool.and_eq_true]
    exact ⟨represents_list c hc w l hl, ih h.2⟩

theorem listLens_mem (col : List (MdVal α)) (l : List String) (h : MdVal.list l ∈ col) :
    l.length ∈ listLens col := by
  induction col with
  | nil => cases h
  | cons x xs ih =>
    rcases List.mem_cons.mp h with rfl | h'
    · simp [listLens]
    · cases x <;> simp [listLens, ih h']

theorem listRow_length (c : Utf8) (col : List (MdVal α)) (v : MdVal α) (hv : v ∈ col) :
    (listRow c (maxL (listLens col)) v).length = maxL (listLens col) := by
  cases v with
  | list l => exact padRow_length c _ l (le_maxL (listLens_mem col l hv))
  | _ => simp [listRow]

/-- the dataset of a category of the domain: one entry per ID, rectangular, entry `i` standing
for value `i` -/
theorem filter_padRow_parts (c : Utf8) (hc : c.RT) (w : Nat) (l : List String) :
    (padRow (α := α) c w l).filter (fun x => x != .s c.empty) = (l.filter (fun p => p != "")).map (strCell c) := by
  unfold padRow
  rw [List.filter_append, List.filter_replicate]
  simp only [bne_self_eq_false, Bool.false_eq_true, if_false, List.append_nil]
  induction l with
  | nil => rfl
  | cons s ss ih =>
    by_cases hs : s = ""
    · subst hs
      have : (strCell (α := α) c "" != Cell.s c.empty) = false := by simp [strCell, hc.encEmpty]
      simp [this, ih]
    · have h1 := strCell_ne_empty (α := α) c hc s hs
      have h2 : (s != "") = true := by simpa using hs
      simp [h1, h2, ih]

theorem represents_flat (c : Utf8) (hc : c.RT) (w : Nat) (s : String) :
    represents (α := α) c (.text s) (.vec (padRow c w (splitTax s))) = true := by
  simp only [represents, Bool.and_eq_true]
  refine ⟨padRow_allS c w _, ?_⟩
  rw [filter_padRow_parts c hc w _, mapM_cellStr c hc]
  exact okEq_ok _

theorem allRep_flat (c : Utf8) (hc : c.RT) (w : Nat) (col : List (MdVal α)) (h : col.all MdVal.isText = true) :
    allRep c col (((splitCol col).map (listRow c w)).map .vec) = true := by
  induction col with
  | nil => rfl
  | cons x xs ih =>
    simp only [List.all_cons, Bool.and_eq_true] at h
    have ih' := ih h.2
    cases x <;> simp [MdVal.isText] at h
    rename_i s
    simp only [splitCol, List.map_cons, allRep, Bool.and_eq_true, listRow] at ih' ⊢
    exact ⟨represents_flat c hc w s, ih'⟩

theorem fmtDs_spec (c : Utf8) (hc : c.RT) (k : String) (col : List (MdVal α)) (hne : col ≠ [])
    (hd : colDomain k col = true) :
    dsRect (fmtDs c k col) = true ∧ dsRows (fmtDs c k col) = col.length ∧
    ∃ rs, (fmtDs c k col).data.rowsOf = some rs ∧ allRep c col rs = true := by
  unfold colDomain at hd
  unfold fmtDs
  by_cases hs : isSpecial k = true
  · simp only [hs, if_true, Bool.or_eq_true, Bool.and_eq_true, beq_iff_eq] at hd ⊢
    rcases hd with hd | ⟨_, hd⟩
    · rw [taxCol_good col hd]
      refine ⟨?_, by simp [dsRows, listDs], _, rfl, allRep_lists c hc _ col hd⟩
      simp only [dsRect, listDs, List.all_eq_true, beq_iff_eq]
      intro r hr
      obtain ⟨v, hv, rfl⟩ := List.mem_map.mp hr
      exact listRow_length c col v hv
    · rw [taxCol_flat col hne hd]
      refine ⟨?_, by simp [dsRows, listDs, splitCol], _, rfl, allRep_flat c hc _ col hd⟩
      simp only [dsRect, listDs, List.all_eq_true, beq_iff_eq]
      intro r hr
      obtain ⟨v, hv, rfl⟩ := List.mem_map.mp hr
      exact listRow_length c (splitCol col) v hv
  · simp only [hs, if_false, Bool.false_eq_true] at hd ⊢
    have hat := atomDomain_atoms col hd
    exact ⟨rfl, by simp [dsRows, filterMap_scalarCell_length c col hat], _, rfl, allRep_atoms c hc col hat⟩

end rep

/-! ### the metadata group, the matrix groups, the axis group -/
section groups
variable [DecidableEq α]

theorem lookup_map_nodup {β γ : Type} (f : β → String) (g : β → γ) (l : List β)
    (hnd : (l.map f).Nodup) (k : β) (hk : k ∈ l) :
    (l.map (fun x => (f x, g x))).lookup (f k) = some (g k) := by
  induction l with
  | nil => cases hk
  | cons x xs ih =>
    simp only [List.map_cons, List.nodup_cons] at hnd
    rw [List.map_cons, List.lookup_cons]
    rcases List.mem_cons.mp hk with rfl | hk'
    · simp
    · have hne : (f k == f x) = false := by
        have : f k ∈ xs.map f := List.mem_map_of_mem hk'
        have : f k ≠ f x := fun e => hnd.1 (e ▸ this)
        simpa using this
      rw [hne]; exact ih hnd.2 hk'

structure MdFacts (e0 : MdE α) (es : List (MdE α)) : Prop where
  keysNe : keysOf e0 ≠ []
  keysNodup : (keysOf e0).Nodup
  rest : ∀ e ∈ es, (keysOf e).Nodup ∧ sameKeys e e0 = true ∧ (keysOf e).length = (keysOf e0).length
  sanNodup : ((keysOf e0).map sanitize).Nodup
  cols : ∀ k ∈ keysOf e0, colDomain k (colOf (e0 :: es) k) = true

theorem mdDomain_facts (e0 : MdE α) (es : List (MdE α)) (h : mdDomain (some (e0 :: es)) = true) :
    MdFacts e0 es := by
  simp only [mdDomain, Bool.and_eq_true, Bool.not_eq_true', List.isEmpty_eq_false_iff, decide_eq_true_eq,
    List.all_eq_true, beq_iff_eq] at h
  obtain ⟨⟨⟨⟨h1, h2⟩, h3⟩, h4⟩, h5⟩ := h
  exact ⟨h1, h2, fun e he => ⟨(h3 e he).1.1, (h3 e he).1.2, (h3 e he).2⟩, h4, h5⟩

theorem mdDsets_domain (c : Utf8) (e0 : MdE α) (es : List (MdE α)) (h : mdDomain (some (e0 :: es)) = true) :
    mdDsets c (some (e0 :: es)) =
      .ok ((keysOf e0).map (fun k => (sanitize k, fmtDs c k (colOf (e0 :: es) k)))) := by
  have hf := mdDomain_facts e0 es h
  have hany : es.any (fun e => !sameKeys e e0) = false := by
    rw [List.any_eq_false]; intro e he; simp [(hf.rest e he).2.1]
  unfold mdDsets
  simp only [hany, Bool.false_eq_true, if_false]
  apply mapM_ok_map
  intro k hk
  exact fmtCategory_domain c k _ (by simp [colOf]) (hf.cols k hk)

/-- what `mdDsets` yields on the domain (`[]` without metadata) -/
def mdTree (c : Utf8) : Option (List (MdE α)) → List (String × DSet α)
  | some (e0 :: es) => (keysOf e0).map (fun k => (sanitize k, fmtDs c k (colOf (e0 :: es) k)))
  | _ => []

theorem mdDsets_ok (c : Utf8) (md : Option (List (MdE α))) (h : mdDomain md = true) :
    mdDsets c md = .ok (mdTree c md) := by
  match md with
  | none => rfl
  | some [] => rfl
  | some (e0 :: es) => exact mdDsets_domain c e0 es h

theorem mdOK_mdTree (c : Utf8) (hc : c.RT) (ids : List Id) (md : Option (List (MdE α)))
    (hlen : ∀ m, md = some m → m.length = ids.length) (h : mdDomain md = true) (g : AxGrp α)
    (hg : g.md = some (mdTree c md)) : mdOK c ids md (some g) = true := by
  unfold mdOK
  simp only [hg]
  match md with
  | none => simp [mdTree]
  | some [] => simp [mdDomain] at h
  | some (e0 :: es) =>
    have hf := mdDomain_facts e0 es h
    have hn := hlen _ rfl
    simp only [mdTree, Bool.and_eq_true, List.all_eq_true]
    constructor
    · intro nd hnd
      obtain ⟨k, hk, rfl⟩ := List.mem_map.mp hnd
      obtain ⟨h1, h2, _⟩ := fmtDs_spec c hc k _ (by simp [colOf]) (hf.cols k hk)
      simp only [h1, h2, beq_iff_eq]
      simp only [colOf, List.length_map]; exact ⟨trivial, hn⟩
    · intro k hk
      rw [lookup_map_nodup sanitize (fun k => fmtDs c k (colOf (e0 :: es) k)) _ hf.sanNodup k hk]
      obtain ⟨_, _, rs, hrs, hrep⟩ := fmtDs_spec c hc k _ (by simp [colOf]) (hf.cols k hk)
      simp only [hrs, hrep]

theorem idsDs_eq (c : Utf8) (ids : List Id) :
    (if ids.length > 0 then strDs (α := α) c ids else { kind := .vlenStr, data := .d1 [] }) = strDs c ids := by
  cases ids with
  | nil => rfl
  | cons x xs => simp

/-- the matrix group written for a layout -/
def matTree (cs : CS α) : MatGrp α :=
  { data := some { kind := .f64, data := .d1 (cs.data.map .f) },
    indices := some { kind := .i32, data := .d1 (cs.indices.map natCell) },
    indptr := some { kind := .i32, data := .d1 (cs.indptr.map natCell) } }

def axTree (c : Utf8) (ids : List Id) (md : Option (List (MdE α))) (gmd : List (String × String × String))
    (cs : CS α) : AxGrp α :=
  { ids := some (strDs c ids), md := some (mdTree c md), gmd := some (gmdDsets c gmd), matrix := some (matTree cs) }

theorem axGrp_ok (c : Utf8) (ids : List Id) (md : Option (List (MdE α))) (gmd : List (String × String × String))
    (bare : List (String × String)) (nnz : Nat) (cs : CS α) (hmd : mdDomain md = true) (hd : cs.data.length = nnz) (hi : cs.indices.length = nnz) :
    axGrp c ids md gmd bare nnz cs = .ok (axTree c ids md (gmdAll gmd bare) cs) := by
  unfold axGrp matGrp
  simp only [mdDsets_ok c md hmd, hd, hi, and_self, if_true, idsDs_eq]
  rfl

theorem specVals_f (l : List α) : specVals (some ({ kind := .f64, data := .d1 (l.map .f) } : DSet α)) = .ok l := by
  show (do let d ← reqE (some _); _) = _
  simp only [reqE, bind, Except.bind]
  exact mapM_cellVal l

theorem specNats_nat (l : List Nat) :
    specNats (some ({ kind := .i32, data := .d1 (l.map natCell) } : DSet α)) = .ok l := by
  show (do let d ← reqE (some _); _) = _
  simp only [reqE, bind, Except.bind]
  exact mapM_cellNat l

theorem readView_matTree (major minor : Nat) (cs : CS α) :
    readView major minor (some (matTree cs)) =
      .ok { nMajor := major, nMinor := minor, indptr := cs.indptr, indices := cs.indices, data := cs.data } := by
  simp only [readView, reqE, matTree, specVals_f, specNats_nat, bind, Except.bind, pure, Except.pure]

end groups

theorem gmdOK_axTree [DecidableEq α] (c : Utf8) (hc : c.RT) (ids : List Id) (md : Option (List (MdE α)))
    (g : List (String × String × String)) (cs : CS α) (hnd : (g.map (·.1)).Nodup) :
    gmdOK c g (some (axTree c ids md g cs)) = true := by
  have hds : gmdDsets (α := α) c g = g.map (fun x => ((fun kv : String × String × String => kv.1) x,
      (fun kv : String × String × String =>
        ({ kind := .vlenStr, data := .d1 [strCell c kv.2.2], dataType := some kv.2.1 } : DSet α)) x)) := rfl
  unfold gmdOK
  simp only [axTree, Bool.and_eq_true, beq_iff_eq, List.all_eq_true]
  refine ⟨by simp [gmdDsets], ?_⟩
  intro kv hkv
  rw [hds, lookup_map_nodup _ _ g hnd kv hkv]
  simp [strCell, hc.rt, okEq]

/-- the root attributes `to_hdf5` writes -/
def attrTree (dc : DateC δ) (t : Src α) (genBy : String) (date : Option δ) (now : δ) (csr : CS α) :
    List (String × Attr) :=
  [("id", .str (idAttr t.tableId)), ("type", .str (typeAttr t.ttype)),
   ("format-url", .str "http://biom-format.org"), ("format-version", .ints [2, 1]),
   ("generated-by", .str genBy), ("creation-date", .str (dc.iso (date.getD now))),
   ("shape", .ints [Int.ofNat csr.nMajor, Int.ofNat csr.nMinor]), ("nnz", .int (Int.ofNat csr.data.length))]

/-- the tree `to_hdf5` writes for a table of the domain -/
def written (c : Utf8) (dc : DateC δ) (t : Src α) (genBy : String) (date : Option δ) (now : δ)
    (csr csc : CS α) : H5 α :=
  { attrs := attrTree dc t genBy date now csr,
    obs := some (axTree c t.obs t.omd (gmdAll t.ogmd t.ogmdBare) csr),
    samp := some (axTree c t.samp t.smd (gmdAll t.sgmd t.sgmdBare) csc) }

section tn
variable [Zero α] [DecidableEq α]

theorem transposeGrid_cons (m : Nat) (r : List α) (D : List (List α)) (hr : r.length = m) :
    transposeGrid m (r :: D) = List.zipWith (fun a col => a :: col) r (transposeGrid m D) := by
  apply List.ext_getElem?
  intro k
  rw [transposeGrid_getElem?, List.getElem?_zipWith, transposeGrid_getElem?]
  by_cases hk : k < m
  · have hkr : k < r.length := by omega
    simp [hk, List.getElem?_eq_getElem hkr, colAt_cons r D k hkr]
  · have : r[k]? = none := List.getElem?_eq_none (by omega)
    simp [hk, this]

theorem nnz_zipWith_cons (r : List α) (T : List (List α)) (h : r.length = T.length) :
    nnzGrid (List.zipWith (fun a col => a :: col) r T) = r.countP (fun v => decide (v ≠ 0)) + nnzGrid T := by
  induction r generalizing T with
  | nil => cases T <;> simp_all [nnzGrid]
  | cons a r ih =>
    cases T with
    | nil => simp at h
    | cons c T =>
      have ih' := ih T (by simpa using h)
      simp only [nnzGrid, List.zipWith_cons_cons, List.map_cons, List.foldr_cons, List.countP_cons] at ih' ⊢
      rw [ih']
      omega

theorem transposeGrid_length (m : Nat) (D : List (List α)) : (transposeGrid m D).length = m := by
  simp [transposeGrid]

/-- transposition keeps the number of non-zero cells -/
theorem nnz_transpose (m : Nat) (D : List (List α)) (hm : ∀ r ∈ D, r.length = m) :
    nnzGrid (transposeGrid m D) = nnzGrid D := by
  induction D with
  | nil =>
    have hz : ∀ (l : List Nat), (l.map (fun _ => (0 : Nat))).foldr (· + ·) 0 = 0 := by
      intro l; induction l with
      | nil => rfl
      | cons x xs ih => rw [List.map_cons, List.foldr_cons, ih]
    have hcol : ∀ j, colAt ([] : List (List α)) j = [] := fun _ => rfl
    simp only [transposeGrid, nnzGrid, List.map_map, List.map_nil, List.foldr_nil]
    have : ((fun r => List.countP (fun v => decide (v ≠ 0)) r) ∘ colAt ([] : List (List α))) = fun _ => 0 := by
      funext j; simp [hcol]
    rw [this]; exact hz _
  | cons r D ih =>
    have hr := hm r List.mem_cons_self
    rw [transposeGrid_cons m r D hr, nnz_zipWith_cons r _ (by rw [transposeGrid_length, hr]),
      ih (fun r hr => hm r (List.mem_cons_of_mem _ hr))]
    simp [nnzGrid]

/-- both layouts store the same number of entries (derived, not assumed) -/
theorem views_sameCount (t : Src α) (csr csc : CS α) (hw : SrcWF t) (hv : Views t csr csc) :
    csc.data.length = csr.data.length := by
  rw [stored_eq_nnz hv.cscWF hv.cscNZ, stored_eq_nnz hv.csrWF hv.csrNZ, hv.cscDense, hv.csrDense,
    nnz_transpose _ _ hw.rowLen]

end tn

end Biom.Hdf5
