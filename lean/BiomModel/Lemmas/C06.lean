/-
  C06 — helper lemmas: the id → position index, fancy indexing, lookups by ID after reordering,
  relabelling, transposition of a rectangular grid.
-/
import BiomModel.C06

namespace Biom.C06

variable {α β γ : Type}

instance : LawfulBEq Axis where
  eq_of_beq {a b} h := by cases a <;> cases b <;> first | rfl | cases h
  rfl {a} := by cases a <;> rfl

instance {ε : Type} [DecidableEq ε] [DecidableEq β] : DecidableEq (Except ε β) := fun a b =>
  match a, b with
  | .ok x, .ok y => if h : x = y then isTrue (h ▸ rfl) else isFalse (fun e => by cases e; exact h rfl)
  | .error x, .error y => if h : x = y then isTrue (h ▸ rfl) else isFalse (fun e => by cases e; exact h rfl)
  | .ok _, .error _ => isFalse (fun e => by cases e)
  | .error _, .ok _ => isFalse (fun e => by cases e)

/-! ### distinct / membership -/

theorem filterMap_congr' {f g : β → Option γ} {l : List β} (h : ∀ a ∈ l, f a = g a) :
    l.filterMap f = l.filterMap g := by
  induction l with
  | nil => rfl
  | cons a as ih =>
    rw [List.filterMap_cons, List.filterMap_cons, h a List.mem_cons_self,
      ih (fun b hb => h b (List.mem_cons_of_mem _ hb))]

theorem distinct_iff (l : List Id) : distinct l = true ↔ l.Nodup := by
  induction l with
  | nil => simp [distinct]
  | cons i is ih => simp [distinct, ih, List.nodup_cons]

theorem contains_iff (l : List Id) (i : Id) : l.contains i = true ↔ i ∈ l := by simp

/-! ### lookupBy and the index -/

theorem indexOf?_of_mem {ids : List Id} {i : Id} (h : i ∈ ids) :
    indexOf? ids i = some (ids.idxOf i) := by
  unfold indexOf?
  simp [List.idxOf_lt_length_iff.mpr h]

theorem indexOf?_of_not_mem {ids : List Id} {i : Id} (h : i ∉ ids) : indexOf? ids i = none := by
  unfold indexOf?
  have : ¬ ids.idxOf i < ids.length := fun hlt => h (List.idxOf_lt_length_iff.mp hlt)
  simp [this]

theorem lookupBy_nil_right (ids : List Id) (id : Id) : lookupBy ids ([] : List β) id = none := by
  cases ids <;> rfl

theorem lookupBy_cons (i : Id) (is : List Id) (x : β) (xs : List β) (id : Id) :
    lookupBy (i :: is) (x :: xs) id = if i = id then some x else lookupBy is xs id := rfl

/-- the element found by ID is the element at the position the index gives -/
theorem lookupBy_eq_getElem? (ids : List Id) (xs : List β) (id : Id) :
    lookupBy ids xs id = (indexOf? ids id).bind (xs[·]?) := by
  induction ids generalizing xs with
  | nil => cases xs <;> simp [lookupBy, indexOf?]
  | cons i is ih =>
    cases xs with
    | nil =>
      rw [lookupBy_nil_right]
      cases indexOf? (i :: is) id <;> simp
    | cons x xs =>
      rw [lookupBy_cons]
      by_cases h : i = id
      · subst h
        simp [indexOf?]
      · rw [if_neg h, ih xs]
        by_cases hm : id ∈ is
        · have hm' : id ∈ i :: is := List.mem_cons_of_mem _ hm
          rw [indexOf?_of_mem hm, indexOf?_of_mem hm']
          have : (i == id) = false := by simpa using h
          simp [List.idxOf_cons, this]
        · have hm' : id ∉ i :: is := by
            intro hc; rcases List.mem_cons.mp hc with e | e
            · exact h e.symm
            · exact hm e
          rw [indexOf?_of_not_mem hm, indexOf?_of_not_mem hm']
          rfl

theorem lookupBy_of_not_mem {ids : List Id} (xs : List β) {id : Id} (h : id ∉ ids) :
    lookupBy ids xs id = none := by
  rw [lookupBy_eq_getElem?, indexOf?_of_not_mem h]; rfl

theorem lookupBy_mem {ids : List Id} {xs : List β} {id : Id} {x : β}
    (h : lookupBy ids xs id = some x) : x ∈ xs := by
  induction ids generalizing xs with
  | nil => cases xs <;> simp [lookupBy] at h
  | cons i is ih =>
    cases xs with
    | nil => simp [lookupBy] at h
    | cons y ys =>
      rw [lookupBy_cons] at h
      split at h
      · cases h; exact List.mem_cons_self
      · exact List.mem_cons_of_mem _ (ih h)

theorem lookupBy_isSome {ids : List Id} {xs : List β} {id : Id}
    (hl : ids.length ≤ xs.length) (h : id ∈ ids) : (lookupBy ids xs id).isSome = true := by
  induction ids generalizing xs with
  | nil => cases h
  | cons i is ih =>
    cases xs with
    | nil => simp at hl
    | cons y ys =>
      rw [lookupBy_cons]
      split
      · rfl
      · rename_i hne
        have : id ∈ is := by
          rcases List.mem_cons.mp h with e | e
          · exact absurd e.symm hne
          · exact e
        exact ih (by simpa using hl) this

theorem lookupBy_map (f : β → γ) (ids : List Id) (xs : List β) (id : Id) :
    lookupBy ids (xs.map f) id = (lookupBy ids xs id).map f := by
  induction ids generalizing xs with
  | nil => cases xs <;> rfl
  | cons i is ih =>
    cases xs with
    | nil => rfl
    | cons y ys =>
      simp only [List.map_cons, lookupBy_cons]
      split
      · rfl
      · exact ih ys

/-! ### positions and pick -/

theorem positions_ok {ids order : List Id} (h : ∀ i ∈ order, i ∈ ids) :
    positions ids order = .ok (order.map (ids.idxOf ·)) := by
  induction order with
  | nil => rfl
  | cons a rest ih =>
    have ha : a ∈ ids := h a List.mem_cons_self
    have hr : ∀ i ∈ rest, i ∈ ids := fun i hi => h i (List.mem_cons_of_mem _ hi)
    simp [positions, indexOf?_of_mem ha, ih hr]

theorem positions_unknown {ids order : List Id} (h : ∃ i ∈ order, i ∉ ids) :
    positions ids order = .error .unknownId := by
  induction order with
  | nil => obtain ⟨i, hi, _⟩ := h; cases hi
  | cons a rest ih =>
    by_cases ha : a ∈ ids
    · have : ∃ i ∈ rest, i ∉ ids := by
        obtain ⟨i, hi, hn⟩ := h
        rcases List.mem_cons.mp hi with e | e
        · subst e; exact absurd ha hn
        · exact ⟨i, e, hn⟩
      simp [positions, indexOf?_of_mem ha, ih this]
    · simp [positions, indexOf?_of_not_mem ha]

/-- fancy indexing with the positions of `order` = looking every ID of `order` up -/
theorem pick_positions {ids order : List Id} (xs : List β) (h : ∀ i ∈ order, i ∈ ids) :
    pick xs (order.map (ids.idxOf ·)) = order.filterMap (lookupBy ids xs) := by
  unfold pick
  rw [List.filterMap_map]
  apply filterMap_congr'
  intro i hi
  simp [lookupBy_eq_getElem?, indexOf?_of_mem (h i hi)]

theorem mem_pick {xs : List β} {pos : List Nat} {x : β} (h : x ∈ pick xs pos) : x ∈ xs := by
  unfold pick at h
  obtain ⟨p, _, hp⟩ := List.mem_filterMap.mp h
  exact List.mem_of_getElem? hp

theorem length_filterMap_lookupBy {ids order : List Id} {xs : List β}
    (hl : ids.length ≤ xs.length) (h : ∀ i ∈ order, i ∈ ids) :
    (order.filterMap (lookupBy ids xs)).length = order.length := by
  induction order with
  | nil => rfl
  | cons a rest ih =>
    have ha := lookupBy_isSome hl (h a List.mem_cons_self)
    obtain ⟨x, hx⟩ := Option.isSome_iff_exists.mp ha
    simp [hx, ih (fun i hi => h i (List.mem_cons_of_mem _ hi))]

/-- after reordering, the element found under an ID of `order` is the one it had before -/
theorem lookupBy_reordered {ids order : List Id} {xs : List β}
    (hl : ids.length ≤ xs.length) (h : ∀ i ∈ order, i ∈ ids) (id : Id) :
    lookupBy order (order.filterMap (lookupBy ids xs)) id =
      if id ∈ order then lookupBy ids xs id else none := by
  induction order with
  | nil => simp [lookupBy]
  | cons a rest ih =>
    have ha := lookupBy_isSome hl (h a List.mem_cons_self)
    obtain ⟨x, hx⟩ := Option.isSome_iff_exists.mp ha
    have hr : ∀ i ∈ rest, i ∈ ids := fun i hi => h i (List.mem_cons_of_mem _ hi)
    rw [List.filterMap_cons, hx]
    simp only [lookupBy_cons]
    by_cases e : a = id
    · subst e; simp [hx]
    · rw [if_neg e, ih hr]
      have : (id ∈ a :: rest) ↔ id ∈ rest := by
        constructor
        · intro hm; rcases List.mem_cons.mp hm with e' | e'
          · exact absurd e'.symm e
          · exact e'
        · exact List.mem_cons_of_mem _
      simp only [this]

/-- looking every ID up in its own list gives the list back -/
theorem filterMap_lookupBy_self {ids : List Id} {xs : List β}
    (hl : ids.length = xs.length) (hn : ids.Nodup) : ids.filterMap (lookupBy ids xs) = xs := by
  induction ids generalizing xs with
  | nil => cases xs with
    | nil => rfl
    | cons _ _ => simp at hl
  | cons i is ih =>
    cases xs with
    | nil => simp at hl
    | cons y ys =>
      have hni : i ∉ is := (List.nodup_cons.mp hn).1
      rw [List.filterMap_cons]
      simp only [lookupBy_cons, if_true]
      congr 1
      rw [← ih (xs := ys) (by simpa using hl) (List.nodup_cons.mp hn).2]
      apply filterMap_congr'
      intro a ha
      have : i ≠ a := fun e => hni (e ▸ ha)
      rw [lookupBy_cons, if_neg this, ih (by simpa using hl) (List.nodup_cons.mp hn).2]

/-- reordering by a list with the same IDs and then by the original order restores the list -/
theorem reorder_inverse {ids order : List Id} {xs : List β}
    (hl : ids.length = xs.length) (hn : ids.Nodup)
    (h1 : ∀ i ∈ order, i ∈ ids) (h2 : ∀ i ∈ ids, i ∈ order) :
    ids.filterMap (lookupBy order (order.filterMap (lookupBy ids xs))) = xs := by
  have : ids.filterMap (lookupBy order (order.filterMap (lookupBy ids xs))) =
      ids.filterMap (lookupBy ids xs) := by
    apply filterMap_congr'
    intro a ha
    rw [lookupBy_reordered (Nat.le_of_eq hl) h1, if_pos (h2 a ha)]
  rw [this, filterMap_lookupBy_self hl hn]

/-! ### well-formed tables, the constructor -/

theorem wfb_iff (t : Table α) : t.wfb = true ↔ t.WF := by
  unfold Table.wfb Table.WF
  cases ho : t.omd <;> cases hs : t.smd <;> simp [Bool.and_eq_true, List.all_eq_true, and_assoc]

/-- a table of the domain -/
structure Valid (t : Table α) : Prop where
  wf : t.WF
  obsNodup : t.obs.Nodup
  sampNodup : t.samp.Nodup

theorem valid_iff [DecidableEq α] (t : Table α) : valid t = true ↔ Valid t := by
  unfold valid
  rw [Bool.and_eq_true, Bool.and_eq_true, wfb_iff, distinct_iff, distinct_iff]
  exact ⟨fun ⟨⟨a, b⟩, c⟩ => ⟨a, b, c⟩, fun ⟨a, b, c⟩ => ⟨⟨a, b⟩, c⟩⟩

theorem WF.row_len {t : Table α} (h : t.WF) {r : List α} (hr : r ∈ t.rows) : r.length = t.samp.length :=
  h.2.1 r hr

theorem errcheck_ok_of_nodup {t : Table α} (ho : t.obs.Nodup) (hs : t.samp.Nodup) :
    errcheck t = .ok () := by
  unfold errcheck
  simp [(distinct_iff _).mpr ho, (distinct_iff _).mpr hs]

theorem errcheck_ok_of_empty {t : Table α} (h : t.obs = [] ∨ t.samp = []) : errcheck t = .ok () := by
  unfold errcheck
  rcases h with h | h <;> simp [h]

theorem errcheck_dup {t : Table α} (ho : t.obs ≠ []) (hs : t.samp ≠ [])
    (hd : ¬ (t.obs.Nodup ∧ t.samp.Nodup)) : errcheck t = .error .tableException := by
  unfold errcheck
  have h1 : t.obs.isEmpty = false := by simpa using ho
  have h2 : t.samp.isEmpty = false := by simpa using hs
  have h3 : (distinct t.obs && distinct t.samp) = false := by
    rw [Bool.eq_false_iff]
    intro h
    rw [Bool.and_eq_true, distinct_iff, distinct_iff] at h
    exact hd h
  simp [h1, h2, h3]

theorem ctor_of_ok {t : Table α} (h : errcheck t = .ok ()) : ctor t = .ok (norm t) := by
  unfold ctor; rw [h]

theorem ctor_of_err {t : Table α} {e : Err} (h : errcheck t = .error e) : ctor t = .error e := by
  unfold ctor; rw [h]

theorem ctor_ok_eq {t r : Table α} (h : ctor t = .ok r) : r = norm t := by
  unfold ctor at h
  split at h
  · cases h
  · cases h; rfl

theorem normMd_length {md : Option (List Md)} {n : Nat} (h : ∀ m, md = some m → m.length = n) :
    ∀ m, normMd md = some m → m.length = n := by
  intro m hm
  cases md with
  | none => simp [normMd] at hm
  | some m' =>
    simp only [normMd] at hm
    split at hm
    · cases hm
    · cases hm; exact h _ rfl

theorem norm_WF {t : Table α} (h : t.WF) : (norm t).WF :=
  ⟨h.1, h.2.1, normMd_length h.2.2.1, normMd_length h.2.2.2⟩

theorem norm_valid {t : Table α} (h : Valid t) : Valid (norm t) :=
  ⟨norm_WF h.wf, h.obsNodup, h.sampNodup⟩

@[simp] theorem norm_cell? (t : Table α) (o s : Id) : (norm t).cell? o s = t.cell? o s := rfl
@[simp] theorem norm_obs (t : Table α) : (norm t).obs = t.obs := rfl
@[simp] theorem norm_samp (t : Table α) : (norm t).samp = t.samp := rfl
@[simp] theorem norm_rows (t : Table α) : (norm t).rows = t.rows := rfl
@[simp] theorem norm_ttype (t : Table α) : (norm t).ttype = t.ttype := rfl
@[simp] theorem norm_ids (t : Table α) (ax : Axis) : (norm t).ids ax = t.ids ax := by cases ax <;> rfl

theorem lookupBy_all_empty {ids : List Id} {m : List Md} (h : m.all (·.isEmpty) = true) (id : Id) :
    (lookupBy ids m id).getD [] = [] := by
  cases hl : lookupBy ids m id with
  | none => rfl
  | some x =>
    have hx := lookupBy_mem hl
    have := List.all_eq_true.mp h x hx
    simpa using this

theorem mdE_def (t : Table α) (ax : Axis) (id : Id) :
    mdE t ax id = ((t.md ax).bind (fun m => lookupBy (t.ids ax) m id)).getD [] := rfl

theorem normMd_entry (md : Option (List Md)) (ids : List Id) (id : Id) :
    ((normMd md).bind (fun m => lookupBy ids m id)).getD [] = (md.bind (fun m => lookupBy ids m id)).getD [] := by
  cases md with
  | none => rfl
  | some m =>
    simp only [normMd]
    split
    · rename_i h
      simp [lookupBy_all_empty h]
    · rfl

/-- normalising metadata (all-empty → absent) does not change any entry -/
@[simp] theorem norm_mdE (t : Table α) (ax : Axis) (id : Id) : mdE (norm t) ax id = mdE t ax id := by
  cases ax <;> exact normMd_entry _ _ _

theorem normMd_idem (md : Option (List Md)) : normMd (normMd md) = normMd md := by
  cases md with
  | none => rfl
  | some m =>
    by_cases h : m.all (·.isEmpty) = true
    · simp [normMd, h]
    · simp [normMd, h]

theorem norm_idem (t : Table α) : norm (norm t) = norm t := by
  simp [norm, normMd_idem]

/-! ### sort_order -/

/-- what `sort_order` hands to the constructor, written with lookups by ID -/
def reordered (t : Table α) (order : List Id) : Axis → Table α
  | .samp => { t with samp := order, rows := t.rows.map (fun r => order.filterMap (lookupBy t.samp r)),
                      smd := t.smd.map (fun m => order.filterMap (lookupBy t.samp m)) }
  | .obs => { t with obs := order, rows := order.filterMap (lookupBy t.obs t.rows),
                     omd := t.omd.map (fun m => order.filterMap (lookupBy t.obs m)) }

theorem sortOrder_known {t : Table α} {order : List Id} {ax : Axis} (h : ∀ i ∈ order, i ∈ t.ids ax) :
    sortOrder t order ax = ctor (reordered t order ax) := by
  cases ax with
  | obs =>
    have h' : ∀ i ∈ order, i ∈ t.obs := h
    simp only [sortOrder, positions_ok h', pick_positions _ h', reordered]
  | samp =>
    have h' : ∀ i ∈ order, i ∈ t.samp := h
    simp only [sortOrder, positions_ok h', pick_positions _ h', reordered]

theorem sortOrder_unknown {t : Table α} {order : List Id} {ax : Axis} (h : ∃ i ∈ order, i ∉ t.ids ax) :
    sortOrder t order ax = .error .unknownId := by
  cases ax with
  | obs => have h' : ∃ i ∈ order, i ∉ t.obs := h; simp only [sortOrder, positions_unknown h']
  | samp => have h' : ∃ i ∈ order, i ∉ t.samp := h; simp only [sortOrder, positions_unknown h']

@[simp] theorem reordered_ids_self (t : Table α) (order : List Id) (ax : Axis) :
    (reordered t order ax).ids ax = order := by cases ax <;> rfl

@[simp] theorem reordered_ids_other (t : Table α) (order : List Id) (ax : Axis) :
    (reordered t order ax).ids ax.other = t.ids ax.other := by cases ax <;> rfl

@[simp] theorem reordered_ttype (t : Table α) (order : List Id) (ax : Axis) :
    (reordered t order ax).ttype = t.ttype := by cases ax <;> rfl

theorem reordered_WF {t : Table α} {order : List Id} {ax : Axis} (hw : t.WF)
    (h : ∀ i ∈ order, i ∈ t.ids ax) : (reordered t order ax).WF := by
  obtain ⟨h1, h2, h3, h4⟩ := hw
  cases ax with
  | samp =>
    have h' : ∀ i ∈ order, i ∈ t.samp := h
    refine ⟨?_, ?_, ?_, ?_⟩
    · simpa [reordered] using h1
    · intro r hr
      simp only [reordered, List.mem_map] at hr
      obtain ⟨r0, hr0, rfl⟩ := hr
      exact length_filterMap_lookupBy (Nat.le_of_eq (h2 r0 hr0).symm) h'
    · exact h3
    · intro m hm
      simp only [reordered, Option.map_eq_some_iff] at hm
      obtain ⟨m0, hm0, rfl⟩ := hm
      exact length_filterMap_lookupBy (Nat.le_of_eq (h4 m0 hm0).symm) h'
  | obs =>
    have h' : ∀ i ∈ order, i ∈ t.obs := h
    refine ⟨?_, ?_, ?_, ?_⟩
    · exact length_filterMap_lookupBy (Nat.le_of_eq h1.symm) h'
    · intro r hr
      simp only [reordered] at hr
      obtain ⟨i, _, hi⟩ := List.mem_filterMap.mp hr
      exact h2 r (lookupBy_mem hi)
    · intro m hm
      simp only [reordered, Option.map_eq_some_iff] at hm
      obtain ⟨m0, hm0, rfl⟩ := hm
      exact length_filterMap_lookupBy (Nat.le_of_eq (h3 m0 hm0).symm) h'
    · exact h4

theorem cell?_def (t : Table α) (o s : Id) :
    t.cell? o s = (lookupBy t.obs t.rows o).bind (fun r => lookupBy t.samp r s) := rfl

/-- cells after reordering samples: an ID of `order` keeps its column, others are gone -/
theorem reordered_cell_samp {t : Table α} {order : List Id} (hw : t.WF) (h : ∀ i ∈ order, i ∈ t.samp)
    (o s : Id) : (reordered t order .samp).cell? o s = if s ∈ order then t.cell? o s else none := by
  simp only [cell?_def, reordered, lookupBy_map]
  cases hr : lookupBy t.obs t.rows o with
  | none => simp
  | some r =>
    have hlen := hw.2.1 r (lookupBy_mem hr)
    simp only [Option.map_some, Option.bind_some]
    exact lookupBy_reordered (Nat.le_of_eq hlen.symm) h s

theorem reordered_cell_obs {t : Table α} {order : List Id} (hw : t.WF) (h : ∀ i ∈ order, i ∈ t.obs)
    (o s : Id) : (reordered t order .obs).cell? o s = if o ∈ order then t.cell? o s else none := by
  simp only [cell?_def, reordered]
  rw [lookupBy_reordered (Nat.le_of_eq hw.1.symm) h o]
  split <;> rfl

theorem mdOf?_def (t : Table α) (ax : Axis) (id : Id) :
    t.mdOf? ax id = (t.md ax).bind (fun m => lookupBy (t.ids ax) m id) := rfl

theorem reordered_mdE_self {t : Table α} {order : List Id} {ax : Axis} (hw : t.WF)
    (h : ∀ i ∈ order, i ∈ t.ids ax) {id : Id} (hid : id ∈ order) :
    mdE (reordered t order ax) ax id = mdE t ax id := by
  cases ax with
  | samp =>
    simp only [mdE_def, reordered, Table.md, Table.ids]
    cases hm : t.smd with
    | none => rfl
    | some m =>
      simp only [Option.map_some, Option.bind_some]
      rw [lookupBy_reordered (Nat.le_of_eq (hw.2.2.2 m hm).symm) h id, if_pos hid]
  | obs =>
    simp only [mdE_def, reordered, Table.md, Table.ids]
    cases hm : t.omd with
    | none => rfl
    | some m =>
      simp only [Option.map_some, Option.bind_some]
      rw [lookupBy_reordered (Nat.le_of_eq (hw.2.2.1 m hm).symm) h id, if_pos hid]

theorem reordered_mdE_other (t : Table α) (order : List Id) (ax : Axis) (id : Id) :
    mdE (reordered t order ax) ax.other id = mdE t ax.other id := by
  cases ax <;> rfl

/-! ### "kept by ID" -/

theorem cell_isSome {t : Table α} (hw : t.WF) {o s : Id} (ho : o ∈ t.obs) (hs : s ∈ t.samp) :
    (t.cell? o s).isSome = true := by
  rw [cell?_def]
  obtain ⟨r, hr⟩ := Option.isSome_iff_exists.mp (lookupBy_isSome (Nat.le_of_eq hw.1.symm) ho)
  rw [hr, Option.bind_some]
  exact lookupBy_isSome (Nat.le_of_eq (hw.2.1 r (lookupBy_mem hr)).symm) hs

/-- `r` is rectangular and carries, for each of its ID pairs and each of its IDs, what `t` carries -/
structure Kept (t r : Table α) : Prop where
  wf : r.WF
  cells : ∀ o ∈ r.obs, ∀ s ∈ r.samp, (r.cell? o s).isSome = true ∧ r.cell? o s = t.cell? o s
  md : ∀ ax, ∀ id ∈ r.ids ax, mdE r ax id = mdE t ax id

theorem keptById_iff [DecidableEq α] (t r : Table α) : keptById t r = true ↔ Kept t r := by
  unfold keptById cellsById mdById
  simp only [Bool.and_eq_true, List.all_eq_true, decide_eq_true_eq, wfb_iff]
  constructor
  · rintro ⟨⟨⟨h1, h2⟩, h3⟩, h4⟩
    exact ⟨h1, h2, fun ax => by cases ax <;> assumption⟩
  · rintro ⟨h1, h2, h3⟩
    exact ⟨⟨⟨h1, h2⟩, h3 .obs⟩, h3 .samp⟩

theorem Kept.refl {t : Table α} (hw : t.WF) : Kept t t :=
  ⟨hw, fun _ ho _ hs => ⟨cell_isSome hw ho hs, rfl⟩, fun _ _ _ => rfl⟩

theorem Kept.trans {t r1 r2 : Table α} (h1 : Kept t r1) (h2 : Kept r1 r2)
    (hsub : ∀ ax, ∀ i ∈ r2.ids ax, i ∈ r1.ids ax) : Kept t r2 := by
  refine ⟨h2.wf, ?_, ?_⟩
  · intro o ho s hs
    obtain ⟨a, b⟩ := h2.cells o ho s hs
    exact ⟨a, b.trans (h1.cells o (hsub .obs o ho) s (hsub .samp s hs)).2⟩
  · intro ax id hid
    exact (h2.md ax id hid).trans (h1.md ax id (hsub ax id hid))

theorem Kept.norm {t r : Table α} (h : Kept t r) : Kept t (norm r) := by
  refine ⟨norm_WF h.wf, ?_, ?_⟩
  · intro o ho s hs; simpa using h.cells o ho s hs
  · intro ax id hid
    rw [norm_mdE]
    exact h.md ax id (by simpa using hid)

theorem reordered_kept {t : Table α} {order : List Id} {ax : Axis} (hw : t.WF)
    (h : ∀ i ∈ order, i ∈ t.ids ax) : Kept t (reordered t order ax) := by
  refine ⟨reordered_WF hw h, ?_, ?_⟩
  · intro o ho s hs
    cases ax with
    | samp =>
      have hs' : s ∈ order := hs
      have ho' : o ∈ t.obs := ho
      have h' : ∀ i ∈ order, i ∈ t.samp := h
      rw [reordered_cell_samp hw h', if_pos hs']
      exact ⟨cell_isSome hw ho' (h' s hs'), rfl⟩
    | obs =>
      have ho' : o ∈ order := ho
      have hs' : s ∈ t.samp := hs
      have h' : ∀ i ∈ order, i ∈ t.obs := h
      rw [reordered_cell_obs hw h', if_pos ho']
      exact ⟨cell_isSome hw (h' o ho') hs', rfl⟩
  · intro ax' id hid
    by_cases e : ax' = ax
    · subst e
      exact reordered_mdE_self hw h (by simpa using hid)
    · have : ax' = ax.other := by cases ax <;> cases ax' <;> simp_all [Axis.other]
      subst this
      exact reordered_mdE_other t order ax id

theorem reordered_valid {t : Table α} {order : List Id} {ax : Axis} (hv : Valid t)
    (h : ∀ i ∈ order, i ∈ t.ids ax) (hn : order.Nodup) : Valid (reordered t order ax) := by
  refine ⟨reordered_WF hv.wf h, ?_, ?_⟩
  · cases ax with
    | samp => exact hv.obsNodup
    | obs => exact hn
  · cases ax with
    | samp => exact hn
    | obs => exact hv.sampNodup

/-- the complete description of a successful `sort_order` -/
theorem sortOrder_ok {t : Table α} {order : List Id} {ax : Axis} (hv : Valid t)
    (h : ∀ i ∈ order, i ∈ t.ids ax) (hn : order.Nodup) :
    sortOrder t order ax = .ok (norm (reordered t order ax)) := by
  rw [sortOrder_known h]
  have hv' := reordered_valid hv h hn
  exact ctor_of_ok (errcheck_ok_of_nodup hv'.obsNodup hv'.sampNodup)

/-! ### transposing a rectangular grid -/

theorem getElem?_filterMap_of_isSome {f : β → Option γ} {l : List β}
    (h : ∀ x ∈ l, (f x).isSome = true) (i : Nat) : (l.filterMap f)[i]? = l[i]?.bind f := by
  induction l generalizing i with
  | nil => rfl
  | cons a as ih =>
    obtain ⟨y, hy⟩ := Option.isSome_iff_exists.mp (h a List.mem_cons_self)
    have has : ∀ x ∈ as, (f x).isSome = true := fun x hx => h x (List.mem_cons_of_mem _ hx)
    rw [List.filterMap_cons, hy]
    cases i with
    | zero => simp [hy]
    | succ k => simpa using ih has k

theorem length_filterMap_of_isSome {f : β → Option γ} {l : List β}
    (h : ∀ x ∈ l, (f x).isSome = true) : (l.filterMap f).length = l.length := by
  induction l with
  | nil => rfl
  | cons a as ih =>
    obtain ⟨y, hy⟩ := Option.isSome_iff_exists.mp (h a List.mem_cons_self)
    rw [List.filterMap_cons, hy]
    simp [ih (fun x hx => h x (List.mem_cons_of_mem _ hx))]

theorem colAt_getElem? {rows : List (List α)} {j : Nat} (h : ∀ r ∈ rows, j < r.length) (i : Nat) :
    (colAt rows j)[i]? = rows[i]?.bind (·[j]?) := by
  unfold colAt
  exact getElem?_filterMap_of_isSome (fun r hr => by simp [h r hr]) i

theorem colAt_length {rows : List (List α)} {j : Nat} (h : ∀ r ∈ rows, j < r.length) :
    (colAt rows j).length = rows.length := by
  unfold colAt
  exact length_filterMap_of_isSome (fun r hr => by simp [h r hr])

theorem transposeGrid_getElem? (m : Nat) (rows : List (List α)) (j : Nat) :
    (transposeGrid m rows)[j]? = if j < m then some (colAt rows j) else none := by
  unfold transposeGrid
  rw [List.getElem?_map]
  by_cases h : j < m
  · rw [List.getElem?_range h, if_pos h]; rfl
  · rw [List.getElem?_eq_none (by simpa using Nat.le_of_not_lt h), if_neg h]; rfl

theorem filterMap_range_getElem? (r : List β) : (List.range r.length).filterMap (r[·]?) = r := by
  apply List.ext_getElem?
  intro k
  rw [getElem?_filterMap_of_isSome (fun x hx => by simp [List.mem_range.mp hx])]
  by_cases h : k < r.length
  · rw [List.getElem?_range h]; rfl
  · rw [List.getElem?_eq_none (by simpa using Nat.le_of_not_lt h),
      List.getElem?_eq_none (Nat.le_of_not_lt h)]; rfl

/-- transposing twice gives the grid back -/
theorem transposeGrid_transposeGrid {rows : List (List α)} {n m : Nat} (hn : rows.length = n)
    (hm : ∀ r ∈ rows, r.length = m) : transposeGrid n (transposeGrid m rows) = rows := by
  apply List.ext_getElem?
  intro i
  rw [transposeGrid_getElem?]
  by_cases hi : i < n
  · rw [if_pos hi]
    have hi' : i < rows.length := hn ▸ hi
    rw [List.getElem?_eq_getElem hi']
    congr 1
    unfold colAt transposeGrid
    rw [List.filterMap_map]
    have hrow : (rows[i]).length = m := hm _ (List.getElem_mem hi')
    have : (List.range m).filterMap ((fun x => x[i]?) ∘ colAt rows) =
        (List.range m).filterMap ((rows[i])[·]?) := by
      apply filterMap_congr'
      intro j hj
      have hj' : j < m := List.mem_range.mp hj
      simp only [Function.comp]
      rw [colAt_getElem? (fun r hr => by rw [hm r hr]; exact hj'), List.getElem?_eq_getElem hi']
      rfl
    rw [this, ← hrow]
    exact filterMap_range_getElem? _
  · rw [if_neg hi, List.getElem?_eq_none (by omega)]

/-- the table `transpose` hands to the constructor -/
def transposed (t : Table α) : Table α :=
  { obs := t.samp, samp := t.obs, rows := transposeGrid t.samp.length t.rows,
    omd := t.smd, smd := t.omd, ttype := none }

theorem transposed_WF {t : Table α} (hw : t.WF) : (transposed t).WF := by
  obtain ⟨h1, h2, h3, h4⟩ := hw
  refine ⟨by simp [transposed, transposeGrid], ?_, h4, h3⟩
  intro c hc
  simp only [transposed, transposeGrid, List.mem_map, List.mem_range] at hc
  obtain ⟨j, hj, rfl⟩ := hc
  rw [colAt_length (fun r hr => by rw [h2 r hr]; exact hj)]
  exact h1

/-- `cell tᵀ s o = cell t o s`, for every pair of IDs (absent ones included) -/
theorem transposed_cell {t : Table α} (hw : t.WF) (o s : Id) :
    (transposed t).cell? s o = t.cell? o s := by
  simp only [cell?_def, transposed]
  by_cases hs : s ∈ t.samp
  · by_cases ho : o ∈ t.obs
    · have hj : t.samp.idxOf s < t.samp.length := List.idxOf_lt_length_iff.mpr hs
      simp only [lookupBy_eq_getElem?, indexOf?_of_mem hs, indexOf?_of_mem ho, Option.bind_some,
        transposeGrid_getElem?, if_pos hj]
      rw [colAt_getElem? (fun r hr => by rw [hw.2.1 r hr]; exact hj)]
    · rw [lookupBy_of_not_mem _ ho, Option.bind_none]
      cases lookupBy t.samp (transposeGrid t.samp.length t.rows) s with
      | none => rfl
      | some c => exact lookupBy_of_not_mem _ ho
  · rw [lookupBy_of_not_mem _ hs, Option.bind_none]
    cases lookupBy t.obs t.rows o with
    | none => rfl
    | some r => exact (lookupBy_of_not_mem _ hs).symm

theorem transposed_mdE (t : Table α) (ax : Axis) (id : Id) :
    mdE (transposed t) ax.other id = mdE t ax id := by cases ax <;> rfl

theorem transposeT_ok {t : Table α} (hv : Valid t) : transposeT t = .ok (norm (transposed t)) :=
  ctor_of_ok (errcheck_ok_of_nodup hv.sampNodup hv.obsNodup)

theorem transposed_valid {t : Table α} (hv : Valid t) : Valid (transposed t) :=
  ⟨transposed_WF hv.wf, hv.sampNodup, hv.obsNodup⟩

theorem transposed_norm_transposed {t : Table α} (hw : t.WF) :
    norm (transposed (norm (transposed t))) = { norm t with ttype := none } := by
  have hg : transposeGrid t.obs.length (transposeGrid t.samp.length t.rows) = t.rows :=
    transposeGrid_transposeGrid hw.1 hw.2.1
  simp only [norm, transposed, normMd_idem, hg]

/-! ### update_ids: width of the new ID array, relabelling -/

theorem foldl_max_ge (l : List Id) (init : Nat) :
    init ≤ l.foldl (fun m x => max m x.length) init ∧
    ∀ s ∈ l, s.length ≤ l.foldl (fun m x => max m x.length) init := by
  induction l generalizing init with
  | nil => exact ⟨Nat.le_refl _, fun _ h => by cases h⟩
  | cons a as ih =>
    obtain ⟨h1, h2⟩ := ih (max init a.length)
    refine ⟨Nat.le_trans (Nat.le_max_left _ _) h1, ?_⟩
    intro s hs
    rcases List.mem_cons.mp hs with e | e
    · subst e; exact Nat.le_trans (Nat.le_max_right _ _) h1
    · exact h2 s e

theorem maxLen_ok (l : List Id) : ∀ s ∈ l, s.length ≤ maxLen l := (foldl_max_ge l 0).2

/-- the allocated width fits every new ID, and every old one when old IDs may be retained -/
theorem idWidth_ok (m : List (Id × Id)) (ids : List Id) (strict : Bool) :
    (∀ kv ∈ m, kv.2.length ≤ idWidth m ids strict) ∧
    (strict = false → ∀ i ∈ ids, i.length ≤ idWidth m ids strict) := by
  unfold idWidth
  have h1 := maxLen_ok (m.map (·.2))
  have h2 := maxLen_ok ids
  cases strict with
  | true =>
    refine ⟨fun kv hkv => ?_, fun hc => by cases hc⟩
    exact Nat.le_trans (h1 kv.2 (List.mem_map_of_mem hkv)) (Nat.le_max_left _ _)
  | false =>
    refine ⟨fun kv hkv => ?_, fun _ i hi' => ?_⟩
    · exact Nat.le_trans (h1 kv.2 (List.mem_map_of_mem hkv))
        (Nat.le_trans (Nat.le_max_left _ _) (Nat.le_max_left _ _))
    · exact Nat.le_trans (h2 i hi') (Nat.le_trans (Nat.le_max_right _ _) (Nat.le_max_left _ _))

theorem fit_of_le {w : Nat} {s : Id} (h : s.length ≤ w) : fit w s = s := by
  unfold fit; rw [if_pos h]

theorem mem_of_lookup {m : List (Id × Id)} {k v : Id} (h : m.lookup k = some v) : (k, v) ∈ m := by
  induction m with
  | nil => simp at h
  | cons a as ih =>
    obtain ⟨a1, a2⟩ := a
    rw [List.lookup_cons] at h
    by_cases e : k = a1
    · subst e
      simp at h
      subst h
      exact List.mem_cons_self
    · have : (k == a1) = false := by simpa using e
      rw [this] at h
      exact List.mem_cons_of_mem _ (ih h)

/-- no truncation happens: with the allocated width, the loop produces exactly `id_map.get(old, old)` -/
theorem relabel_ok {m : List (Id × Id)} {strict : Bool} {w : Nat} {ids : List Id}
    (hv : ∀ kv ∈ m, kv.2.length ≤ w) (hi : strict = false → ∀ i ∈ ids, i.length ≤ w)
    (hk : strict = true → ∀ i ∈ ids, (m.lookup i).isSome = true) :
    relabel m strict w ids = .ok (target m ids) := by
  induction ids with
  | nil => rfl
  | cons a as ih =>
    have ih' := ih (fun h i hi' => hi h i (List.mem_cons_of_mem _ hi'))
      (fun h i hi' => hk h i (List.mem_cons_of_mem _ hi'))
    unfold relabel
    cases hl : m.lookup a with
    | none =>
      cases strict with
      | true =>
        have := hk rfl a List.mem_cons_self
        simp [hl] at this
      | false =>
        simp only [Bool.false_eq_true, if_false, ih']
        rw [fit_of_le (hi rfl a List.mem_cons_self)]
        simp [target, hl]
    | some v =>
      simp only [ih']
      rw [fit_of_le (hv (a, v) (mem_of_lookup hl))]
      simp [target, hl]

theorem relabel_missing {m : List (Id × Id)} {w : Nat} {ids : List Id}
    (h : ∃ i ∈ ids, m.lookup i = none) : relabel m true w ids = .error .tableException := by
  induction ids with
  | nil => obtain ⟨i, hi, _⟩ := h; cases hi
  | cons a as ih =>
    unfold relabel
    cases hl : m.lookup a with
    | none => simp
    | some v =>
      have : ∃ i ∈ as, m.lookup i = none := by
        obtain ⟨i, hi, hn⟩ := h
        rcases List.mem_cons.mp hi with e | e
        · subst e; rw [hl] at hn; cases hn
        · exact ⟨i, e, hn⟩
      simp [ih this]

@[simp] theorem target_length (m : List (Id × Id)) (ids : List Id) : (target m ids).length = ids.length := by
  simp [target]

/-- relabelling two duplicate-free ID lists position by position keeps what each ID finds -/
theorem lookupBy_zip {ids ids' : List Id} {xs : List β} (hl : ids.length = ids'.length)
    (hn : ids.Nodup) (hn' : ids'.Nodup) {old new : Id} (hp : (old, new) ∈ ids.zip ids') :
    lookupBy ids' xs new = lookupBy ids xs old := by
  induction ids generalizing ids' xs with
  | nil => simp at hp
  | cons i is ih =>
    cases ids' with
    | nil => simp at hl
    | cons j js =>
      cases xs with
      | nil => rw [lookupBy_nil_right, lookupBy_nil_right]
      | cons x xs =>
        rw [List.zip_cons_cons] at hp
        rw [lookupBy_cons, lookupBy_cons]
        rcases List.mem_cons.mp hp with e | e
        · cases e; simp
        · have ho : old ∈ is := (List.of_mem_zip e).1
          have hnw : new ∈ js := (List.of_mem_zip e).2
          have h1 : i ≠ old := fun c => (List.nodup_cons.mp hn).1 (c ▸ ho)
          have h2 : j ≠ new := fun c => (List.nodup_cons.mp hn').1 (c ▸ hnw)
          rw [if_neg h1, if_neg h2]
          exact ih (by simpa using hl) (List.nodup_cons.mp hn).2 (List.nodup_cons.mp hn').2 e

theorem setIds_norm (t : Table α) (ax : Axis) (ids : List Id) :
    setIds (norm t) ax ids = norm (setIds t ax ids) := by cases ax <;> rfl

@[simp] theorem setIds_ids_self (t : Table α) (ax : Axis) (ids : List Id) : (setIds t ax ids).ids ax = ids := by
  cases ax <;> rfl

@[simp] theorem setIds_ids_other (t : Table α) (ax : Axis) (ids : List Id) :
    (setIds t ax ids).ids ax.other = t.ids ax.other := by cases ax <;> rfl

theorem setIds_WF {t : Table α} {ax : Axis} {ids : List Id} (hw : t.WF) (hl : ids.length = (t.ids ax).length) :
    (setIds t ax ids).WF := by
  obtain ⟨h1, h2, h3, h4⟩ := hw
  cases ax with
  | obs =>
    have hl' : ids.length = t.obs.length := hl
    exact ⟨by simp only [setIds]; omega, h2, fun m hm => by simp only [setIds] at *; rw [h3 m hm]; omega, h4⟩
  | samp =>
    have hl' : ids.length = t.samp.length := hl
    exact ⟨h1, fun r hr => by simp only [setIds] at *; rw [h2 r hr]; omega, h3,
      fun m hm => by simp only [setIds] at *; rw [h4 m hm]; omega⟩

theorem setIds_cell_obs {t : Table α} {ids' : List Id} (hl : t.obs.length = ids'.length)
    (hn : t.obs.Nodup) (hn' : ids'.Nodup) {old new : Id} (hp : (old, new) ∈ t.obs.zip ids') (s : Id) :
    (setIds t .obs ids').cell? new s = t.cell? old s := by
  simp only [cell?_def, setIds]
  rw [lookupBy_zip hl hn hn' hp]

theorem setIds_cell_samp {t : Table α} {ids' : List Id} (hl : t.samp.length = ids'.length)
    (hn : t.samp.Nodup) (hn' : ids'.Nodup) {old new : Id} (hp : (old, new) ∈ t.samp.zip ids') (o : Id) :
    (setIds t .samp ids').cell? o new = t.cell? o old := by
  simp only [cell?_def, setIds]
  cases lookupBy t.obs t.rows o with
  | none => rfl
  | some r => exact lookupBy_zip hl hn hn' hp

theorem setIds_mdE_self {t : Table α} {ax : Axis} {ids' : List Id} (hl : (t.ids ax).length = ids'.length)
    (hn : (t.ids ax).Nodup) (hn' : ids'.Nodup) {old new : Id} (hp : (old, new) ∈ (t.ids ax).zip ids') :
    mdE (setIds t ax ids') ax new = mdE t ax old := by
  cases ax with
  | obs =>
    simp only [mdE_def, setIds, Table.md, Table.ids]
    cases t.omd with
    | none => rfl
    | some m => simp only [Option.bind_some]; rw [lookupBy_zip hl hn hn' hp]; rfl
  | samp =>
    simp only [mdE_def, setIds, Table.md, Table.ids]
    cases t.smd with
    | none => rfl
    | some m => simp only [Option.bind_some]; rw [lookupBy_zip hl hn hn' hp]; rfl

theorem setIds_mdE_other (t : Table α) (ax : Axis) (ids' : List Id) (id : Id) :
    mdE (setIds t ax ids') ax.other id = mdE t ax.other id := by cases ax <;> rfl

end Biom.C06
