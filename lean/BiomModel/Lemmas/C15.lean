/-
  C15 — helper lemmas: inversion of each check of the JSON validator model.
-/
import BiomModel.C15

namespace Biom.C15

theorem beq_J (a b : J) : (a == b) = true ↔ a = b := by
  constructor
  · intro h; exact eq_of_beq h
  · intro h; subst h; exact beq_self_eq_true a

/-! ### verdicts -/

theorem verdictOf_valid (cs : List (Option Bool)) :
    verdictOf cs = .valid ↔ ∀ c ∈ cs, c = some true := by
  unfold verdictOf
  by_cases h1 : cs.any (fun c => c.isNone) = true
  · simp only [h1, if_true]
    constructor
    · intro h; cases h
    · intro h
      rw [List.any_eq_true] at h1
      obtain ⟨c, hc, hn⟩ := h1
      rw [h c hc] at hn
      cases hn
  · simp only [h1]
    by_cases h2 : cs.all (fun c => c == some true) = true
    · simp only [h2, if_true]
      constructor
      · intro _ c hc
        rw [List.all_eq_true] at h2
        exact eq_of_beq (h2 c hc)
      · intro _; trivial
    · simp only [h2]
      constructor
      · intro h; cases h
      · intro h
        exfalso; apply h2
        rw [List.all_eq_true]
        intro c hc
        rw [h c hc]; rfl

theorem validateJson_valid {d : String → Bool} {j : J} (h : validateJson d j = .valid) :
    ∃ kvs, j = .obj kvs ∧ ∀ c ∈ checksOf d kvs, c = some true := by
  cases j with
  | obj kvs => exact ⟨kvs, rfl, (verdictOf_valid _).1 h⟩
  | null => simp [validateJson] at h; split at h <;> cases h
  | bool b => simp [validateJson] at h; split at h <;> cases h
  | int i => simp [validateJson] at h; split at h <;> cases h
  | flt r => simp [validateJson] at h; split at h <;> cases h
  | str s => simp [validateJson] at h; split at h <;> cases h
  | arr l => simp [validateJson] at h; split at h <;> cases h

theorem runKey_true {kvs : KVs} {k : String} {f : J → Option Bool} (h : runKey kvs k f = some true) :
    ∃ v, kvs.lookup k = some v ∧ f v = some true := by
  unfold runKey at h
  cases hv : kvs.lookup k with
  | none => rw [hv] at h; cases h
  | some v => rw [hv] at h; exact ⟨v, rfl, h⟩

/-! ### iteration of strings and dicts only yields strings -/

theorem pyIter_int_mem {v : J} {l : List J} (h : pyIter v = some l) {x : J} (hx : x ∈ l) (hi : x.isInt = true) :
    v = .arr l := by
  cases v with
  | arr l' => simp [pyIter] at h; rw [h]
  | str s =>
    simp [pyIter] at h; subst h
    simp only [List.mem_map] at hx
    obtain ⟨c, _, rfl⟩ := hx
    simp [strOfChar, J.isInt] at hi
  | obj kvs =>
    simp [pyIter] at h; subst h
    simp only [List.mem_map] at hx
    obtain ⟨c, _, rfl⟩ := hx
    simp [J.isInt] at hi
  | null => simp [pyIter] at h
  | bool b => simp [pyIter] at h
  | int i => simp [pyIter] at h
  | flt r => simp [pyIter] at h

theorem isInt_eq {x : J} (h : x.isInt = true) : ∃ i, x = .int i := by
  cases x <;> simp [J.isInt] at h
  exact ⟨_, rfl⟩

theorem validShape_true {v : J} (h : validShape v = some true) : ∃ r c, v = .arr [.int r, .int c] := by
  unfold validShape at h
  cases hu : unpack2 v with
  | none => rw [hu] at h; cases h
  | some ab =>
    obtain ⟨a, b⟩ := ab
    rw [hu] at h
    simp only [Option.some.injEq, Bool.and_eq_true] at h
    unfold unpack2 at hu
    cases hp : pyIter v with
    | none => rw [hp] at hu; cases hu
    | some l =>
      rw [hp] at hu
      match l, hu with
      | [a', b'], hu =>
        simp only [Option.some.injEq, Prod.mk.injEq] at hu
        obtain ⟨rfl, rfl⟩ := hu
        have hv := pyIter_int_mem hp (x := a') (by simp) h.1
        obtain ⟨r, rfl⟩ := isInt_eq h.1
        obtain ⟨c, rfl⟩ := isInt_eq h.2
        exact ⟨r, c, hv⟩

/-! ### records -/

theorem checkField_true {r : J} {k : String} {ok : J → Bool} (h : checkField r k ok = some true) :
    ∃ kv v, r = .obj kv ∧ kv.lookup k = some v ∧ ok v = true := by
  unfold checkField at h
  cases hp : pyIn k r with
  | none => rw [hp] at h; cases h
  | some b =>
    rw [hp] at h
    cases b with
    | false => cases h
    | true =>
      simp only at h
      cases hg : getItem r k with
      | none => rw [hg] at h; cases h
      | some v =>
        rw [hg] at h
        simp only [Option.some.injEq] at h
        cases r with
        | obj kv => exact ⟨kv, v, rfl, by simpa [getItem] using hg, h⟩
        | null => simp [getItem] at hg
        | bool b => simp [getItem] at hg
        | int i => simp [getItem] at hg
        | flt r => simp [getItem] at hg
        | str s => simp [getItem] at hg
        | arr l => simp [getItem] at hg

theorem getItem_obj (kv : KVs) (k : String) : getItem (.obj kv) k = kv.lookup k := rfl

theorem nodupB_cons (x : J) (xs : List J) : nodupB (x :: xs) = (!xs.contains x && nodupB xs) := rfl

/-- what a passing run of the record loop establishes -/
theorem checkRecords_true : ∀ (l seen : List J), checkRecords l seen = some true →
    l.all recordHasFields = true ∧ l.all idNonEmpty = true ∧ l.all mdObjOrNull = true ∧
    nodupB (l.filterMap (fun r => getItem r "id")) = true ∧
    (∀ x ∈ l.filterMap (fun r => getItem r "id"), x ∉ seen)
  | [], _, _ => by simp [nodupB]
  | r :: rs, seen, h => by
    unfold checkRecords at h
    cases h1 : checkField r "id" J.truthy with
    | none => rw [h1] at h; cases h
    | some b1 =>
      rw [h1] at h
      cases b1 with
      | false => cases h
      | true =>
        simp only at h
        cases h2 : checkField r "metadata" mdOk with
        | none => rw [h2] at h; cases h
        | some b2 =>
          rw [h2] at h
          cases b2 with
          | false => cases h
          | true =>
            simp only at h
            obtain ⟨kv, idv, rfl, hid, htr⟩ := checkField_true h1
            obtain ⟨kv', md, hkv, hmd, hmdok⟩ := checkField_true h2
            cases hkv
            simp only [getItem_obj, hid] at h
            by_cases hs : seen.contains idv = true
            · simp only [hs, if_true] at h; cases h
            · simp only [hs] at h
              have ih := checkRecords_true rs (idv :: seen) h
              obtain ⟨i1, i2, i3, i4, i5⟩ := ih
              have hnotin : ∀ x ∈ rs.filterMap (fun r => getItem r "id"), x ≠ idv := by
                intro x hx e
                exact i5 x hx (by rw [e]; simp)
              refine ⟨?_, ?_, ?_, ?_, ?_⟩
              · simp [List.all_cons, recordHasFields, hid, hmd, i1]
              · simp [List.all_cons, idNonEmpty, getItem_obj, hid, htr, i2]
              · simp [List.all_cons, mdObjOrNull, getItem_obj, hmd, hmdok, i3]
              · simp only [List.filterMap_cons, getItem_obj, hid, nodupB_cons, i4, Bool.and_true]
                cases hc : (rs.filterMap (fun r => getItem r "id")).contains idv with
                | false => rfl
                | true =>
                  rw [List.contains_iff_mem] at hc
                  exact absurd rfl (hnotin idv hc)
              · intro x hx
                simp only [List.filterMap_cons, getItem_obj, hid, List.mem_cons] at hx
                rcases hx with rfl | hx
                · intro hm; apply hs; rw [List.contains_iff_mem]; exact hm
                · intro hm; exact i5 x hx (List.mem_cons_of_mem _ hm)

theorem validAxis_true {kvs : KVs} {v : J} (h : validAxis kvs v = some true) :
    ∃ l, pyIter v = some l ∧ checkRecords l [] = some true := by
  unfold validAxis at h
  split at h
  · cases hp : pyIter v with
    | none => rw [hp] at h; cases h
    | some l => rw [hp] at h; exact ⟨l, rfl, h⟩
  · cases h

/-! ### matrix type / element type -/

theorem validMatrixType_true {v : J} (h : validMatrixType v = some true) :
    v = .str "sparse" ∨ v = .str "dense" := by
  unfold validMatrixType at h
  split at h
  · simp only [Option.some.injEq, Bool.or_eq_true, beq_J] at h; exact h
  · cases h

theorem validElemType_true {v : J} (h : validElemType v = some true) :
    ∃ dt, dtypeOf v = some dt := by
  unfold validElemType at h
  split at h
  · simp only [Option.some.injEq, elementTypes, List.any_cons, List.any_nil, Bool.or_false,
      Bool.or_eq_true, beq_J] at h
    rcases h with rfl | rfl | rfl | rfl
    · exact ⟨.int, by decide⟩
    · exact ⟨.str, by decide⟩
    · exact ⟨.float, by decide⟩
    · exact ⟨.str, by decide⟩
  · cases h

/-! ### sparse entries -/

theorem ltInt_int (a x : Int) : Num.ltInt (.int a) x = decide (a < x) := rfl

theorem coordOk_true {dt : DType} {r c : Int} {e : J}
    (h : coordOk dt (.int (r - 1)) (.int (c - 1)) e = true) :
    ∃ x y v, e = .arr [.int x, .int y, v] ∧ isInst dt v = true ∧ 0 ≤ x ∧ x < r ∧ 0 ≤ y ∧ y < c := by
  unfold coordOk at h
  cases hp : pyIter e with
  | none => rw [hp] at h; cases h
  | some l =>
    rw [hp] at h
    match l, hp, h with
    | [x, y, v], hp, h =>
      cases x with
      | int xi =>
        cases y with
        | int yi =>
          simp only [ltInt_int, Bool.and_eq_true, Bool.not_eq_true', Bool.or_eq_false_iff,
            decide_eq_false_iff_not, Int.not_lt] at h
          have he := pyIter_int_mem hp (x := .int xi) (by simp) rfl
          exact ⟨xi, yi, v, he, h.1.1, h.1.2.1, by omega, h.2.1, by omega⟩
        | null => simp at h
        | bool b => simp at h
        | flt q => simp at h
        | str s => simp at h
        | arr a => simp at h
        | obj o => simp at h
      | null => simp at h
      | bool b => simp at h
      | flt q => simp at h
      | str s => simp at h
      | arr a => simp at h
      | obj o => simp at h

theorem pyEqNat_int {n : Nat} {r : Int} (h : pyEqNat n (.int r) = true) : (n : Int) = r := by
  simp only [pyEqNat, beq_iff_eq] at h; exact h.symm

theorem unpack2_pair (a b : J) : unpack2 (.arr [a, b]) = some (a, b) := rfl

theorem validSparse_true {kvs : KVs} {d ev : J} {dt : DType} {r c : Int}
    (hev : kvs.lookup "matrix_element_type" = some ev) (hdt : dtypeOf ev = some dt)
    (hsh : kvs.lookup "shape" = some (.arr [.int r, .int c]))
    (h : validSparse kvs d = some true) :
    ∃ l, pyIter d = some l ∧ l.all (coordOk dt (.int (r - 1)) (.int (c - 1))) = true := by
  unfold validSparse at h
  simp only [hev, Option.bind_some, hdt, hsh, unpack2_pair, sub1] at h
  cases hp : pyIter d with
  | none => rw [hp] at h; cases h
  | some l =>
    rw [hp] at h
    simp only [Option.some.injEq] at h
    exact ⟨l, rfl, h⟩

theorem denseRows_true {dt : DType} {c : Int} : ∀ (l : List J), denseRows dt (.int c) l = some true →
    ∀ row ∈ l, ∃ els, pyIter row = some els ∧ (els.length : Int) = c ∧ els.all (isInst dt) = true ∧ els ≠ []
  | [], _ => by simp
  | x :: xs, h => by
    unfold denseRows at h
    cases hr : denseRowOk dt (.int c) x with
    | none => rw [hr] at h; cases h
    | some b =>
      rw [hr] at h
      cases b with
      | false => cases h
      | true =>
        simp only at h
        have ih := denseRows_true xs h
        intro row hrow
        rcases List.mem_cons.1 hrow with rfl | hm
        · unfold denseRowOk at hr
          cases hp : pyIter row with
          | none => rw [hp] at hr; cases hr
          | some els =>
            rw [hp] at hr
            simp only at hr
            split at hr
            · rename_i hlen
              split at hr
              · cases hr
              · rename_i hne
                simp only [Option.some.injEq] at hr
                exact ⟨els, rfl, pyEqNat_int hlen, hr, by intro e; apply hne; simp [e]⟩
            · cases hr
        · exact ih row hm

theorem validDense_true {kvs : KVs} {d ev : J} {dt : DType} {r c : Int}
    (hev : kvs.lookup "matrix_element_type" = some ev) (hdt : dtypeOf ev = some dt)
    (hsh : kvs.lookup "shape" = some (.arr [.int r, .int c]))
    (h : validDense kvs d = some true) :
    ∃ l, pyIter d = some l ∧ denseRows dt (.int c) l = some true ∧ (l.length : Int) = r := by
  unfold validDense at h
  simp only [hev, Option.bind_some, hdt, hsh, unpack2_pair] at h
  cases hp : pyIter d with
  | none => rw [hp] at h; cases h
  | some l =>
    rw [hp] at h
    simp only at h
    cases hd : denseRows dt (.int c) l with
    | none => rw [hd] at h; cases h
    | some b =>
      rw [hd] at h
      cases b with
      | false => cases h
      | true =>
        simp only [Option.some.injEq] at h
        exact ⟨l, rfl, hd, pyEqNat_int h⟩

theorem validData_sparse {kvs : KVs} {d : J} (hm : kvs.lookup "matrix_type" = some (.str "sparse"))
    (h : validData kvs d = some true) : validSparse kvs d = some true := by
  unfold validData at h
  rw [hm] at h
  have : lowerIs "sparse" "sparse" = true := by decide
  simpa [this] using h

theorem validData_dense {kvs : KVs} {d : J} (hm : kvs.lookup "matrix_type" = some (.str "dense"))
    (h : validData kvs d = some true) : validDense kvs d = some true := by
  unfold validData at h
  rw [hm] at h
  have h1 : lowerIs "dense" "sparse" = false := by decide
  have h2 : lowerIs "dense" "dense" = true := by decide
  simpa [h1, h2] using h

theorem crossCheck_true {kvs : KVs} {k : String} {pos : Nat} {sh ax : J}
    (hs : kvs.lookup "shape" = some sh) (ha : kvs.lookup k = some ax)
    (h : crossCheck kvs k pos = some true) :
    ∃ n d, pyLen ax = some n ∧ pyIndex sh pos = some d ∧ pyEqNat n d = true := by
  unfold crossCheck at h
  rw [hs] at h
  simp only [ha] at h
  cases hl : pyLen ax with
  | none => rw [hl] at h; cases h
  | some n =>
    rw [hl] at h
    simp only at h
    cases hi : pyIndex sh pos with
    | none => rw [hi] at h; cases h
    | some d =>
      rw [hi] at h
      simp only [Option.some.injEq] at h
      exact ⟨n, d, rfl, rfl, h⟩

/-! ### the writer's document -/

theorem strNodupB_cons (x : String) (xs : List String) :
    strNodupB (x :: xs) = (!xs.contains x && strNodupB xs) := rfl

theorem checkField_recOf_id (id : String) (md : J) (hne : (id.toList != []) = true) :
    checkField (recOf id md) "id" J.truthy = some true := by
  have : pyIn "id" (recOf id md) = some true := by simp [recOf, pyIn]
  have hl : getItem (recOf id md) "id" = some (.str id) := by
    simp [recOf, getItem, List.lookup]
  simp [checkField, this, hl, J.truthy, hne]

theorem checkField_recOf_md (id : String) (md : J) (hmd : mdOk md = true) :
    checkField (recOf id md) "metadata" mdOk = some true := by
  have : pyIn "metadata" (recOf id md) = some true := by simp [recOf, pyIn]
  have hl : getItem (recOf id md) "metadata" = some md := by
    simp [recOf, getItem, List.lookup]
  simp [checkField, this, hl, hmd]

theorem getItem_recOf_id (id : String) (md : J) : getItem (recOf id md) "id" = some (.str id) := by
  simp [recOf, getItem, List.lookup]

/-- records written for distinct non-empty IDs pass the record loop -/
theorem checkRecords_written : ∀ (ids : List String) (mds seen : List J),
    ids.all (fun s => s.toList != []) = true → mds.all mdOk = true → strNodupB ids = true →
    (∀ s ∈ ids, J.str s ∉ seen) → checkRecords (List.zipWith recOf ids mds) seen = some true
  | [], _, _, _, _, _, _ => by simp [checkRecords]
  | _ :: _, [], _, _, _, _, _ => by simp [checkRecords]
  | id :: ids, md :: mds, seen, h1, h2, h3, h4 => by
    simp only [List.all_cons, Bool.and_eq_true] at h1 h2
    rw [strNodupB_cons] at h3
    simp only [Bool.and_eq_true, Bool.not_eq_true'] at h3
    simp only [List.zipWith_cons_cons]
    unfold checkRecords
    rw [checkField_recOf_id id md h1.1, checkField_recOf_md id md h2.1, getItem_recOf_id]
    have hns : seen.contains (J.str id) = false := by
      cases hc : seen.contains (J.str id) with
      | false => rfl
      | true => rw [List.contains_iff_mem] at hc; exact absurd hc (h4 id (by simp))
    simp only [hns]
    apply checkRecords_written ids mds _ h1.2 h2.2 h3.2
    intro s hs hm
    rcases List.mem_cons.1 hm with e | hm
    · cases e
      have : ids.contains id = true := by rw [List.contains_iff_mem]; exact hs
      rw [this] at h3; cases h3.1
    · exact h4 s (List.mem_cons_of_mem _ hs) hm

theorem rowCoords_mem (i : Nat) : ∀ (j0 : Nat) (vs : List Rat) (e : J), e ∈ rowCoords i j0 vs →
    ∃ (j : Nat) (v : Rat), e = .arr [.int i, .int j, .flt v] ∧ j0 ≤ j ∧ j < j0 + vs.length
  | _, [], e, h => by simp [rowCoords] at h
  | j0, v :: vs, e, h => by
    simp only [rowCoords, List.mem_append] at h
    rcases h with h | h
    · split at h
      · simp at h
      · simp only [List.mem_singleton] at h
        exact ⟨j0, v, h, Nat.le_refl _, by simp⟩
    · obtain ⟨j, v', he, h1, h2⟩ := rowCoords_mem i (j0 + 1) vs e h
      exact ⟨j, v', he, by omega, by simp only [List.length_cons]; omega⟩

theorem gridCoords_mem (m : Nat) : ∀ (i0 : Nat) (g : List (List Rat)) (e : J),
    (∀ r ∈ g, r.length = m) → e ∈ gridCoords i0 g →
    ∃ (i j : Nat) (v : Rat), e = .arr [.int i, .int j, .flt v] ∧ i0 ≤ i ∧ i < i0 + g.length ∧ j < m
  | _, [], e, _, h => by simp [gridCoords] at h
  | i0, r :: rs, e, hm, h => by
    simp only [gridCoords, List.mem_append] at h
    rcases h with h | h
    · obtain ⟨j, v, he, _, h2⟩ := rowCoords_mem i0 0 r e h
      have := hm r (by simp)
      exact ⟨i0, j, v, he, Nat.le_refl _, by simp, by omega⟩
    · obtain ⟨i, j, v, he, h1, h2, h3⟩ :=
        gridCoords_mem m (i0 + 1) rs e (fun r hr => hm r (List.mem_cons_of_mem _ hr)) h
      exact ⟨i, j, v, he, by omega, by simp only [List.length_cons]; omega, h3⟩

theorem coordOk_written {n m i j : Nat} {v : Rat} (hi : i < n) (hj : j < m) :
    coordOk .float (.int ((n : Int) - 1)) (.int ((m : Int) - 1)) (.arr [.int i, .int j, .flt v]) = true := by
  have h1 : ¬ ((i : Int) < 0) := by omega
  have h2 : ¬ ((n : Int) - 1 < (i : Int)) := by omega
  have h3 : ¬ ((j : Int) < 0) := by omega
  have h4 : ¬ ((m : Int) - 1 < (j : Int)) := by omega
  simp [coordOk, pyIter, isInst, Num.ltInt, h1, h2, h3, h4]

/-! ### the loader -/

theorem mapOpt_filterMap {α β : Type} (f : α → Option β) : ∀ (l : List α),
    (∀ x ∈ l, (f x).isSome = true) → mapOpt f l = some (l.filterMap f) ∧ (l.filterMap f).length = l.length
  | [], _ => by simp [mapOpt]
  | x :: xs, h => by
    have hx := h x (by simp)
    obtain ⟨ih, il⟩ := mapOpt_filterMap f xs (fun y hy => h y (List.mem_cons_of_mem _ hy))
    cases hf : f x with
    | none => rw [hf] at hx; cases hx
    | some y => simp [mapOpt, hf, ih, List.filterMap_cons, il]

theorem mapOpt_all {α β : Type} (f : α → Option β) (P : β → Prop) : ∀ (l : List α),
    (∀ x ∈ l, ∃ y, f x = some y ∧ P y) →
    ∃ ys, mapOpt f l = some ys ∧ ys.length = l.length ∧ ∀ y ∈ ys, P y
  | [], _ => ⟨[], by simp [mapOpt]⟩
  | x :: xs, h => by
    obtain ⟨y, hy, hp⟩ := h x (by simp)
    obtain ⟨ys, hys, hl, hall⟩ := mapOpt_all f P xs (fun z hz => h z (List.mem_cons_of_mem _ hz))
    refine ⟨y :: ys, by simp [mapOpt, hy, hys], by simp [hl], ?_⟩
    intro z hz
    rcases List.mem_cons.1 hz with rfl | hz
    · exact hp
    · exact hall z hz

theorem isInst_numeric {dt : DType} {v : J} (hd : dt = .int ∨ dt = .float) (h : isInst dt v = true) :
    ∃ q, numVal v = some q ∧ isStr v = false := by
  rcases hd with rfl | rfl <;> cases v <;> simp [isInst] at h <;> simp [numVal, isStr]

theorem pyIter_nonstr_mem {v : J} {l : List J} (h : pyIter v = some l) {x : J} (hx : x ∈ l)
    (hi : isStr x = false) : v = .arr l := by
  cases v with
  | arr l' => simp [pyIter] at h; rw [h]
  | str s =>
    simp [pyIter] at h; subst h
    simp only [List.mem_map] at hx
    obtain ⟨c, _, rfl⟩ := hx
    simp [strOfChar, isStr] at hi
  | obj kvs =>
    simp [pyIter] at h; subst h
    simp only [List.mem_map] at hx
    obtain ⟨c, _, rfl⟩ := hx
    simp [isStr] at hi
  | null => simp [pyIter] at h
  | bool b => simp [pyIter] at h
  | int i => simp [pyIter] at h
  | flt r => simp [pyIter] at h

theorem recordHasFields_some {r : J} (h : recordHasFields r = true) :
    (getItem r "id").isSome = true ∧ (getItem r "metadata").isSome = true := by
  cases r <;> simp [recordHasFields] at h
  simpa [getItem] using h

theorem length_gridOfEntries (n m : Nat) (es : List (Int × Int × Rat)) :
    (gridOfEntries n m es).length = n ∧ ∀ r ∈ gridOfEntries n m es, r.length = m := by
  constructor
  · simp [gridOfEntries]
  · intro r hr
    simp only [gridOfEntries, List.mem_map, List.mem_range] at hr
    obtain ⟨i, _, rfl⟩ := hr
    simp

end Biom.C15
