/-
  C13 — helper lemmas: list surgery for the in-place slice assignment, the loop invariant of the
  kernel, the row-pointer arithmetic of `eliminate_zeros`, and the dense view of an entry list.
-/
import BiomModel.C13
namespace Biom.C13
variable {α β γ : Type}

/-! ### list surgery: writing a block into the middle of a list -/

def splice (xs : List β) (s : Nat) (w : List β) : List β := xs.take s ++ w ++ xs.drop (s + w.length)

theorem splice_length (xs : List β) (s : Nat) (w : List β) (h : s + w.length ≤ xs.length) :
    (splice xs s w).length = xs.length := by
  simp only [splice, List.length_append, List.length_take, List.length_drop]; omega

theorem splice_block (xs : List β) (s : Nat) (w : List β) (h : s + w.length ≤ xs.length) :
    ((splice xs s w).drop s).take w.length = w := by
  have hs : (xs.take s).length = s := by simp only [List.length_take]; omega
  simp only [splice, List.append_assoc]
  rw [List.drop_append, hs, Nat.sub_self, List.drop_zero]
  rw [List.drop_eq_nil_of_le (by omega), List.nil_append, List.take_append, Nat.sub_self, List.take_zero,
    List.append_nil, List.take_length]

theorem splice_before (xs : List β) (s : Nat) (w : List β) (a b : Nat) (hab : a ≤ b) (hb : b ≤ s)
    (h : s + w.length ≤ xs.length) :
    ((splice xs s w).drop a).take (b - a) = (xs.drop a).take (b - a) := by
  apply List.ext_getElem?
  intro k
  simp only [splice, List.getElem?_take, List.getElem?_drop, List.getElem?_append, List.length_take, List.append_assoc]
  by_cases hk : k < b - a
  · have h1 : a + k < min s xs.length := by omega
    simp [hk, h1]
    omega
  · simp [hk]

theorem splice_after (xs : List β) (s : Nat) (w : List β) (a : Nat) (ha : s + w.length ≤ a)
    (h : s + w.length ≤ xs.length) :
    (splice xs s w).drop a = xs.drop a := by
  apply List.ext_getElem?
  intro k
  simp only [splice, List.getElem?_drop, List.getElem?_append, List.length_take, List.length_append]
  have h1 : ¬ (a + k < min s xs.length + w.length) := by omega
  simp [h1]
  have : s + w.length + (a + k - (min s xs.length + w.length)) = a + k := by omega
  rw [this]
structure PtrOK (P : List Nat) (n L : Nat) : Prop where
  len : P.length = n + 1
  mono : ∀ i, i < n → P.getD i 0 ≤ P.getD (i + 1) 0
  last : P.getD n 0 = L

theorem PtrOK.mono_le {P : List Nat} {n L : Nat} (h : PtrOK P n L) :
    ∀ j i, i ≤ j → j ≤ n → P.getD i 0 ≤ P.getD j 0 := by
  intro j
  induction j with
  | zero => intro i hi _; have : i = 0 := by omega
            subst this; exact Nat.le_refl _
  | succ j ih =>
    intro i hi hj
    by_cases hij : i = j + 1
    · subst hij; exact Nat.le_refl _
    · exact Nat.le_trans (ih i (by omega) (by omega)) (h.mono j (by omega))

theorem PtrOK.le_last {P : List Nat} {n L : Nat} (h : PtrOK P n L) (i : Nat) (hi : i ≤ n) :
    P.getD i 0 ≤ L := by
  have := h.mono_le n i hi (Nat.le_refl _)
  rw [h.last] at this; exact this

theorem getE_getD (a : List Nat) (i : Nat) (h : i < a.length) : getE a i = .ok (a.getD i 0) := by
  simp [getE, List.getD, List.getElem?_eq_getElem h]

theorem getE_ids (a : List Id) (i : Nat) (h : i < a.length) : getE a i = .ok (a.getD i "") := by
  simp [getE, List.getD, List.getElem?_eq_getElem h]

def mdIdx (mds : Option (List Md)) (i : Nat) : Option Md := mds.bind (·[i]?)

theorem mdAt_ok (mds : Option (List Md)) (i : Nat) (h : ∀ m, mds = some m → i < m.length) :
    mdAt mds i = .ok (mdIdx mds i) := by
  cases mds with
  | none => rfl
  | some m =>
    have := h m rfl
    simp [mdAt, mdIdx, List.getElem?_eq_getElem this]

theorem assign_length {seg r w : List α} (h : assign seg r = .ok w) : w.length = seg.length := by
  unfold assign at h
  split at h
  · cases h; assumption
  · split at h
    · cases h; simp
    · cases h

theorem assign_same_length {seg r : List α} (h : r.length = seg.length) : assign seg r = .ok r := by
  simp [assign, h]

theorem segOf_length (P : List Nat) (n L : Nat) (h : PtrOK P n L) (xs : List β) (hx : xs.length = L)
    (i : Nat) (hi : i < n) : (segOf P xs i).length = P.getD (i + 1) 0 - P.getD i 0 := by
  have := h.le_last (i + 1) (by omega)
  have := h.mono i hi
  simp only [segOf, List.length_take, List.length_drop]; omega

def callAt (f : VFun α) (P : List Nat) (ids : List Id) (mds : Option (List Md)) (data : List α) (j : Nat) : Call α :=
  ⟨ids.getD j "", mdIdx mds j, segOf P data j, f (segOf P data j) (ids.getD j "") (mdIdx mds j)⟩

theorem kLoop_spec (f : VFun α) (P : List Nat) (ids : List Id) (mds : Option (List Md)) (n L : Nat)
    (hP : PtrOK P n L) (hids : n ≤ ids.length) (hmd : ∀ m, mds = some m → n ≤ m.length) :
    ∀ k i data d l, i + k = n → data.length = L → kLoop f P ids mds k i data = .ok (d, l) →
      d.length = L ∧ (∀ j, j < i → segOf P d j = segOf P data j) ∧
      l = (List.range' i k).map (callAt f P ids mds data) ∧
      (∀ j, i ≤ j → j < n → assign (segOf P data j) (callAt f P ids mds data j).ret = .ok (segOf P d j)) := by
  intro k
  induction k with
  | zero =>
    intro i data d l hik hL h
    simp only [kLoop] at h
    cases h
    refine ⟨hL, fun _ _ => rfl, rfl, ?_⟩
    intro j h1 h2; omega
  | succ k ih =>
    intro i data d l hik hL h
    have hi : i < n := by omega
    rw [kLoop, getE_getD P i (by rw [hP.len]; omega), getE_getD P (i + 1) (by rw [hP.len]; omega),
      getE_ids ids i (by omega), mdAt_ok mds i (fun m hm => by have := hmd m hm; omega)] at h
    simp only [bind, Except.bind, pure, Except.pure] at h
    split at h
    · cases h
    · rename_i w hw
      split at h
      · cases h
      · rename_i res hres
        obtain ⟨d', l'⟩ := res
        simp only at h
        cases h
        have hseg : (List.take (P.getD (i + 1) 0 - P.getD i 0) (List.drop (P.getD i 0) data)) = segOf P data i := rfl
        rw [hseg] at hw hres
        have hwl := assign_length hw
        have hsl := segOf_length P n L hP data hL i hi
        have hle := hP.le_last (i + 1) (by omega)
        have hmono := hP.mono i hi
        rw [← hwl] at hres
        have hfit : P.getD i 0 + w.length ≤ data.length := by omega
        have hres' : kLoop f P ids mds k (i + 1) (splice data (P.getD i 0) w) = .ok (d, l') := hres
        have hlen' := splice_length data (P.getD i 0) w hfit
        have := ih (i + 1) (splice data (P.getD i 0) w) d l' (by omega) (by omega) hres'
        obtain ⟨h1, h2, h3, h4⟩ := this
        -- segments of the spliced array
        have hsame_before : ∀ j, j < i → segOf P (splice data (P.getD i 0) w) j = segOf P data j := by
          intro j hj
          have hb := hP.mono_le i (j + 1) (by omega) (by omega)
          have ha := hP.mono j (by omega)
          exact splice_before data (P.getD i 0) w _ _ ha hb hfit
        have hsame_after : ∀ j, i < j → j < n → segOf P (splice data (P.getD i 0) w) j = segOf P data j := by
          intro j hj hjn
          have ha := hP.mono_le j (i + 1) (by omega) (by omega)
          simp only [segOf]
          rw [splice_after data (P.getD i 0) w _ (by omega) hfit]
        have hblock : segOf P (splice data (P.getD i 0) w) i = w := by
          have := splice_block data (P.getD i 0) w hfit
          simp only [segOf]
          rw [show P.getD (i + 1) 0 - P.getD i 0 = w.length by omega]
          exact this
        refine ⟨h1, ?_, ?_, ?_⟩
        · intro j hj
          rw [h2 j (by omega), hsame_before j hj]
        · rw [List.range'_succ, List.map_cons, h3]
          congr 1
          apply List.map_congr_left
          intro j hj
          have := List.mem_range'_1.mp hj
          simp only [callAt]
          rw [hsame_after j (by omega) (by omega)]
        · intro j hij hjn
          by_cases hji : j = i
          · subst hji
            rw [h2 j (by omega), hblock]
            exact hw
          · have := h4 j (by omega) hjn
            simp only [callAt] at this ⊢
            rw [hsame_after j (by omega) hjn] at this
            exact this

theorem kLoop_ok (f : VFun α) (P : List Nat) (ids : List Id) (mds : Option (List Md)) (n L : Nat)
    (hP : PtrOK P n L) (hids : n ≤ ids.length) (hmd : ∀ m, mds = some m → n ≤ m.length) :
    ∀ k i data, i + k = n → data.length = L →
      (∀ j, i ≤ j → j < n → ∃ w, assign (segOf P data j) (callAt f P ids mds data j).ret = .ok w) →
      ∃ d l, kLoop f P ids mds k i data = .ok (d, l) := by
  intro k
  induction k with
  | zero => intro i data _ _ _; exact ⟨data, [], rfl⟩
  | succ k ih =>
    intro i data hik hL hok
    have hi : i < n := by omega
    obtain ⟨w, hw⟩ := hok i (Nat.le_refl _) hi
    have hwl := assign_length hw
    have hsl := segOf_length P n L hP data hL i hi
    have hle := hP.le_last (i + 1) (by omega)
    have hmono := hP.mono i hi
    have hfit : P.getD i 0 + w.length ≤ data.length := by omega
    have hlen' := splice_length data (P.getD i 0) w hfit
    have hsame_after : ∀ j, i < j → j < n → segOf P (splice data (P.getD i 0) w) j = segOf P data j := by
      intro j hj hjn
      have ha := hP.mono_le j (i + 1) (by omega) (by omega)
      simp only [segOf]
      rw [splice_after data (P.getD i 0) w _ (by omega) hfit]
    have hnext : ∃ d l, kLoop f P ids mds k (i + 1) (splice data (P.getD i 0) w) = .ok (d, l) := by
      apply ih (i + 1) _ (by omega) (by omega)
      intro j hij hjn
      obtain ⟨w', hw'⟩ := hok j (by omega) hjn
      refine ⟨w', ?_⟩
      simp only [callAt] at hw' ⊢
      rw [hsame_after j (by omega) hjn]
      exact hw'
    obtain ⟨d, l, hdl⟩ := hnext
    refine ⟨d, callAt f P ids mds data i :: l, ?_⟩
    rw [kLoop, getE_getD P i (by rw [hP.len]; omega), getE_getD P (i + 1) (by rw [hP.len]; omega),
      getE_ids ids i (by omega), mdAt_ok mds i (fun m hm => by have := hmd m hm; omega)]
    simp only [bind, Except.bind, pure, Except.pure]
    have hseg : (List.take (P.getD (i + 1) 0 - P.getD i 0) (List.drop (P.getD i 0) data)) = segOf P data i := rfl
    rw [hseg]
    simp only [callAt] at hw
    rw [hw]
    simp only
    rw [← hwl]
    have : (List.take (P.getD i 0) data ++ w ++ List.drop (P.getD i 0 + w.length) data) = splice data (P.getD i 0) w := rfl
    rw [this, hdl]
    rfl

/-! ### ptrFrom / ofEntries -/

theorem ptrFrom_head (a : Nat) (ls : List Nat) : (ptrFrom a ls).getD 0 0 = a := by
  cases ls <;> simp [ptrFrom]

theorem segOf_cons (a : Nat) (P : List Nat) (xs : List β) (i : Nat) :
    segOf (a :: P) xs (i + 1) = segOf P xs i := by
  simp [segOf]

theorem segOf_ptrFrom : ∀ (L : List (List β)) (a : Nat) (pre : List β) (i : Nat), pre.length = a → i < L.length →
    segOf (ptrFrom a (L.map List.length)) (pre ++ L.flatten) i = L.getD i [] := by
  intro L
  induction L with
  | nil => intro a pre i _ hi; simp at hi
  | cons l ls ih =>
    intro a pre i hpre hi
    cases i with
    | zero =>
      simp only [List.map_cons, ptrFrom, segOf, List.getD_cons_zero, List.flatten_cons]
      have : (ptrFrom (a + l.length) (ls.map List.length)).getD 0 0 = a + l.length := ptrFrom_head _ _
      simp only [List.getD_cons_succ, this]
      rw [List.drop_append, List.drop_eq_nil_of_le (by omega), hpre, Nat.sub_self, List.drop_zero, List.nil_append]
      rw [show a + l.length - a = l.length by omega, List.take_append, Nat.sub_self, List.take_zero, List.append_nil,
        List.take_length]
    | succ i =>
      simp only [List.map_cons, ptrFrom, List.flatten_cons, List.getD_cons_succ]
      rw [segOf_cons, ← List.append_assoc]
      exact ih (a + l.length) (pre ++ l) i (by simp [hpre]) (by simpa using hi)

theorem zip_map_fst_snd (l : List (β × γ)) : (l.map (·.1)).zip (l.map (·.2)) = l := by
  induction l with
  | nil => rfl
  | cons x xs ih => simp [ih]

theorem slice_eq (cs : CS α) (i : Nat) :
    cs.slice i = (segOf cs.indptr cs.indices i).zip (segOf cs.indptr cs.data i) := rfl

theorem slice_ofEntries (nM nm : Nat) (ents : List (List (Nat × α))) (i : Nat) (hi : i < ents.length) :
    (ofEntries nM nm ents).slice i = ents.getD i [] := by
  rw [slice_eq]
  simp only [ofEntries]
  have h1 := segOf_ptrFrom (ents.map (·.map (·.1))) 0 [] i rfl (by simpa using hi)
  have h2 := segOf_ptrFrom (ents.map (·.map (·.2))) 0 [] i rfl (by simpa using hi)
  simp only [List.map_map, List.nil_append] at h1 h2
  have e1 : (List.length ∘ fun (x : List (Nat × α)) => x.map (·.1)) = List.length := by funext x; simp
  have e2 : (List.length ∘ fun (x : List (Nat × α)) => x.map (·.2)) = List.length := by funext x; simp
  rw [e1] at h1
  rw [e2] at h2
  rw [h1, h2]
  simp only [List.getD_eq_getElem?_getD, List.getElem?_map]
  rw [List.getElem?_eq_getElem hi]
  simp [zip_map_fst_snd]

/-! ### dense view of an entry list -/

/-- value at minor position `j` with an explicit default (`CS.entryAt` is `lookD 0`) -/
def lookD (d : γ) (ents : List (Nat × γ)) (j : Nat) : γ :=
  match ents.find? (fun e => e.1 == j) with
  | some e => e.2
  | none => d

theorem entryAt_eq_lookD [Zero α] (ents : List (Nat × α)) (j : Nat) : CS.entryAt ents j = lookD 0 ents j := rfl

theorem lookD_nil (d : γ) (j : Nat) : lookD d [] j = d := rfl

theorem lookD_cons_eq (d : γ) (e : Nat × γ) (es : List (Nat × γ)) : lookD d (e :: es) e.1 = e.2 := by
  simp [lookD, List.find?]

theorem lookD_cons_ne (d : γ) (e : Nat × γ) (es : List (Nat × γ)) (j : Nat) (h : e.1 ≠ j) :
    lookD d (e :: es) j = lookD d es j := by
  have : (e.1 == j) = false := by simpa using h
  simp [lookD, List.find?, this]

theorem lookD_not_mem (d : γ) (ents : List (Nat × γ)) (j : Nat) (h : j ∉ ents.map (·.1)) : lookD d ents j = d := by
  induction ents with
  | nil => rfl
  | cons e es ih =>
    simp only [List.map_cons, List.mem_cons, not_or] at h
    rw [lookD_cons_ne d e es j (fun h' => h.1 h'.symm)]
    exact ih h.2

theorem lookD_mem (d : γ) (ents : List (Nat × γ)) (j : Nat) (h : lookD d ents j ≠ d) : j ∈ ents.map (·.1) :=
  Classical.byContradiction (fun hn => h (lookD_not_mem d ents j hn))

/-- the entry found is a stored entry -/
theorem lookD_of_mem (d : γ) (ents : List (Nat × γ)) (hn : (ents.map (·.1)).Nodup) (e : Nat × γ) (he : e ∈ ents) :
    lookD d ents e.1 = e.2 := by
  induction ents with
  | nil => cases he
  | cons x xs ih =>
    simp only [List.map_cons, List.nodup_cons] at hn
    rcases List.mem_cons.mp he with h | h
    · subst h; exact lookD_cons_eq d e xs
    · have : x.1 ≠ e.1 := by
        intro hx
        exact hn.1 (hx ▸ List.mem_map_of_mem (f := (·.1)) h)
      rw [lookD_cons_ne d x xs e.1 this]
      exact ih hn.2 h

theorem lookD_filter [Zero α] [DecidableEq α] (ents : List (Nat × α)) (hn : (ents.map (·.1)).Nodup) (j : Nat) :
    lookD 0 (ents.filter (fun e => decide (e.2 ≠ 0))) j = lookD 0 ents j := by
  induction ents with
  | nil => rfl
  | cons e es ih =>
    simp only [List.map_cons, List.nodup_cons] at hn
    by_cases hj : e.1 = j
    · subst hj
      rw [lookD_cons_eq]
      by_cases hz : e.2 = 0
      · have : decide (e.2 ≠ 0) = false := by simp [hz]
        rw [List.filter_cons_of_neg (by simp [hz]), ih hn.2, lookD_not_mem 0 es e.1 hn.1, hz]
      · rw [List.filter_cons_of_pos (by simp [hz]), lookD_cons_eq]
    · rw [lookD_cons_ne 0 e es j hj]
      by_cases hz : e.2 = 0
      · rw [List.filter_cons_of_neg (by simp [hz]), ih hn.2]
      · rw [List.filter_cons_of_pos (by simp [hz]), lookD_cons_ne 0 e _ j hj, ih hn.2]

theorem denseVec_filter [Zero α] [DecidableEq α] (n : Nat) (ents : List (Nat × α)) (hn : (ents.map (·.1)).Nodup) :
    CS.denseVec n (ents.filter (fun e => decide (e.2 ≠ 0))) = CS.denseVec n ents := by
  simp only [CS.denseVec]
  apply List.map_congr_left
  intro j _
  rw [entryAt_eq_lookD, entryAt_eq_lookD, lookD_filter ents hn j]

theorem map_fst_zip (a : List Nat) (b : List γ) (h : a.length = b.length) : (a.zip b).map (·.1) = a := by
  induction a generalizing b with
  | nil => simp
  | cons x xs ih =>
    cases b with
    | nil => simp at h
    | cons y ys => simp [ih ys (by simpa using h)]

theorem map_snd_zip (a : List Nat) (b : List γ) (h : a.length = b.length) : (a.zip b).map (·.2) = b := by
  induction a generalizing b with
  | nil => cases b <;> simp at h ⊢
  | cons x xs ih =>
    cases b with
    | nil => simp at h
    | cons y ys => simp [ih ys (by simpa using h)]

/-- The stored values are, as a multiset, the dense values that satisfy `P`, when `P` fails on the
default and holds on every stored value. -/
theorem perm_filter_lookD (P : γ → Bool) (d : γ) (hd : P d = false) :
    ∀ (ents : List (Nat × γ)) (js : List Nat), (ents.map (·.1)).Nodup → js.Nodup →
      (∀ e ∈ ents, e.1 ∈ js) → (∀ e ∈ ents, P e.2 = true) →
      ((js.map (lookD d ents)).filter P).Perm (ents.map (·.2)) := by
  intro ents
  induction ents with
  | nil =>
    intro js _ _ _ _
    have : (js.map (lookD d ([] : List (Nat × γ)))).filter P = [] := by
      rw [List.filter_eq_nil_iff]
      intro x hx
      obtain ⟨j, _, rfl⟩ := List.mem_map.mp hx
      simp [lookD_nil, hd]
    rw [this]; exact List.Perm.refl _
  | cons e es ih =>
    intro js hn hjs hmem hP
    simp only [List.map_cons, List.nodup_cons] at hn
    have hej : e.1 ∈ js := hmem e (List.mem_cons_self)
    have hperm : js.Perm (e.1 :: js.erase e.1) := List.perm_cons_erase hej
    have h1 : ((js.map (lookD d (e :: es))).filter P).Perm
        (((e.1 :: js.erase e.1).map (lookD d (e :: es))).filter P) := (hperm.map _).filter _
    refine h1.trans ?_
    rw [List.map_cons, lookD_cons_eq, List.filter_cons_of_pos (hP e List.mem_cons_self), List.map_cons]
    apply List.Perm.cons
    have hcongr : (js.erase e.1).map (lookD d (e :: es)) = (js.erase e.1).map (lookD d es) := by
      apply List.map_congr_left
      intro j hj
      have : j ≠ e.1 := ((List.Nodup.mem_erase_iff hjs).mp hj).1
      exact lookD_cons_ne d e es j (fun h => this h.symm)
    rw [hcongr]
    apply ih (js.erase e.1) hn.2 (hjs.erase _)
    · intro e' he'
      rw [List.Nodup.mem_erase_iff hjs]
      refine ⟨?_, hmem e' (List.mem_cons_of_mem _ he')⟩
      intro h
      exact hn.1 (h ▸ List.mem_map_of_mem (f := (·.1)) he')
    · intro e' he'
      exact hP e' (List.mem_cons_of_mem _ he')

theorem lookD_zip_pair (d1 d2 : γ) (j : Nat) : ∀ (idx : List Nat) (a b : List γ), a.length = idx.length →
    b.length = idx.length →
    lookD (d1, d2) (idx.zip (a.zip b)) j = (lookD d1 (idx.zip a) j, lookD d2 (idx.zip b) j) := by
  intro idx
  induction idx with
  | nil => intro a b _ _; simp [lookD]
  | cons i is ih =>
    intro a b ha hb
    cases a with
    | nil => simp at ha
    | cons x xs =>
      cases b with
      | nil => simp at hb
      | cons y ys =>
        simp only [List.zip_cons_cons]
        by_cases hij : i = j
        · subst hij
          rw [lookD_cons_eq (d1, d2) (i, (x, y)), lookD_cons_eq d1 (i, x), lookD_cons_eq d2 (i, y)]
        · rw [lookD_cons_ne (d1, d2) (i, (x, y)) _ j hij, lookD_cons_ne d1 (i, x) _ j hij,
            lookD_cons_ne d2 (i, y) _ j hij]
          exact ih xs ys (by simpa using ha) (by simpa using hb)

/-- what an element-wise function makes of a cell: zero stays zero -/
def zmap [Zero α] [DecidableEq α] (g : α → α) (x : α) : α := if x = 0 then 0 else g x

/-- element-wise image: a stored cell holds `g` of its stored value, an unstored one the default -/
theorem lookD_zip_map [Zero α] [DecidableEq α] (g : α → α) (j : Nat) : ∀ (idx : List Nat) (a : List α),
    (∀ x ∈ a, x ≠ 0) →
    lookD 0 (idx.zip (a.map g)) j = zmap g (lookD 0 (idx.zip a) j) := by
  intro idx
  induction idx with
  | nil => intro a _; simp [lookD, zmap]
  | cons i is ih =>
    intro a hnz
    cases a with
    | nil => simp [lookD, zmap]
    | cons x xs =>
      rw [List.map_cons, List.zip_cons_cons, List.zip_cons_cons]
      by_cases hij : i = j
      · subst hij
        rw [lookD_cons_eq 0 (i, g x), lookD_cons_eq 0 (i, x)]
        simp [zmap, hnz x List.mem_cons_self]
      · rw [lookD_cons_ne 0 (i, g x) _ j hij, lookD_cons_ne 0 (i, x) _ j hij]
        exact ih xs (fun y hy => hnz y (List.mem_cons_of_mem _ hy))

theorem nz_cons_zero [Zero α] [DecidableEq α] (x : α) (xs : List α) (h : x = 0) : nz (x :: xs) = nz xs := by
  unfold nz; rw [List.filter_cons_of_neg (by simp [h])]

theorem nz_cons_ne [Zero α] [DecidableEq α] (x : α) (xs : List α) (h : x ≠ 0) : nz (x :: xs) = x :: nz xs := by
  unfold nz; rw [List.filter_cons_of_pos (by simp [h])]

theorem nz_length_le [Zero α] [DecidableEq α] : ∀ (v w : List α), v.length = w.length →
    (∀ p ∈ v.zip w, p.1 = 0 → p.2 = 0) → (nz w).length ≤ (nz v).length := by
  intro v
  induction v with
  | nil => intro w h _; cases w <;> simp_all [nz]
  | cons x xs ih =>
    intro w h hz
    cases w with
    | nil => simp at h
    | cons y ys =>
      have ih' := ih ys (by simpa using h) (fun p hp => hz p (by simp [hp]))
      have hxy := hz (x, y) (by simp)
      by_cases hx : x = 0
      · rw [nz_cons_zero x xs hx, nz_cons_zero y ys (hxy hx)]; exact ih'
      · rw [nz_cons_ne x xs hx]
        by_cases hy : y = 0
        · rw [nz_cons_zero y ys hy, List.length_cons]; omega
        · rw [nz_cons_ne y ys hy, List.length_cons, List.length_cons]; omega
/-! ### one vector: minor indices `idx`, stored values `seg` before and `w` after -/

def dv [Zero α] (m : Nat) (idx : List Nat) (xs : List α) : List α := CS.denseVec m (idx.zip xs)

theorem dv_eq_map [Zero α] (m : Nat) (idx : List Nat) (xs : List α) :
    dv m idx xs = (List.range m).map (lookD 0 (idx.zip xs)) := rfl

theorem dv_length [Zero α] (m : Nat) (idx : List Nat) (xs : List α) : (dv m idx xs).length = m := by
  simp [dv, CS.denseVec]

theorem zip_map_range (m : Nat) (f g : Nat → γ) :
    ((List.range m).map f).zip ((List.range m).map g) = (List.range m).map (fun k => (f k, g k)) := by
  rw [List.zip_map']

theorem lookD_zip_mem (d : γ) (idx : List Nat) (xs : List γ) (hn : idx.Nodup) (hl : xs.length = idx.length)
    (k : Nat) (hk : k ∈ idx) : lookD d (idx.zip xs) k ∈ xs := by
  have hmf : (idx.zip xs).map (·.1) = idx := map_fst_zip idx xs hl.symm
  have : k ∈ (idx.zip xs).map (·.1) := by rw [hmf]; exact hk
  obtain ⟨e, he, rfl⟩ := List.mem_map.mp this
  rw [lookD_of_mem d (idx.zip xs) (by rw [hmf]; exact hn) e he]
  exact (List.of_mem_zip he).2

/-- zero cells stay zero (no stored zeros before the call) -/
theorem vec_zeros [Zero α] [DecidableEq α] (m : Nat) (idx : List Nat) (seg w : List α) (hn : idx.Nodup)
    (hs : seg.length = idx.length) (hw : w.length = idx.length) (hnz : ∀ x ∈ seg, x ≠ 0) :
    ∀ p ∈ (dv m idx seg).zip (dv m idx w), p.1 = 0 → p.2 = 0 := by
  intro p hp h0
  rw [dv_eq_map, dv_eq_map, zip_map_range] at hp
  obtain ⟨k, _, rfl⟩ := List.mem_map.mp hp
  simp only at h0 ⊢
  have hk : k ∉ idx := by
    intro hk
    exact hnz _ (lookD_zip_mem 0 idx seg hn hs k hk) h0
  apply lookD_not_mem
  rw [map_fst_zip idx w hw.symm]; exact hk

/-- a cell without a stored entry is zero after the call, whatever the function does -/
theorem vec_unstored [Zero α] (idx : List Nat) (w : List α) (hw : w.length = idx.length) (k : Nat)
    (hk : k ∉ idx) : lookD 0 (idx.zip w) k = 0 := by
  apply lookD_not_mem
  rw [map_fst_zip idx w hw.symm]; exact hk

/-- the stored values are exactly (as a multiset) the non-zero values of the vector -/
theorem vec_args [Zero α] [DecidableEq α] (m : Nat) (idx : List Nat) (seg : List α) (hn : idx.Nodup)
    (hr : ∀ j ∈ idx, j < m) (hs : seg.length = idx.length) (hnz : ∀ x ∈ seg, x ≠ 0) :
    seg.Perm (nz (dv m idx seg)) := by
  have hmf : (idx.zip seg).map (·.1) = idx := map_fst_zip idx seg hs.symm
  have hms : (idx.zip seg).map (·.2) = seg := map_snd_zip idx seg hs.symm
  have := perm_filter_lookD (fun x : α => decide (x ≠ 0)) 0 (by simp) (idx.zip seg) (List.range m)
    (by rw [hmf]; exact hn) List.nodup_range
    (fun e he => by
      have : e.1 ∈ idx := (List.of_mem_zip he).1
      exact List.mem_range.mpr (hr _ this))
    (fun e he => by
      have : e.2 ∈ seg := (List.of_mem_zip he).2
      simpa using hnz _ this)
  rw [hms] at this
  exact this.symm

/-- (argument, value written) pairs = (old, new) pairs of the non-zero cells -/
theorem vec_pairs [Zero α] [DecidableEq α] (m : Nat) (idx : List Nat) (seg w : List α) (hn : idx.Nodup)
    (hr : ∀ j ∈ idx, j < m) (hs : seg.length = idx.length) (hw : w.length = idx.length)
    (hnz : ∀ x ∈ seg, x ≠ 0) :
    (seg.zip w).Perm (nzPairs (dv m idx seg) (dv m idx w)) := by
  have hzl : idx.length = (seg.zip w).length := by simp [hs, hw]
  have hmf : (idx.zip (seg.zip w)).map (·.1) = idx := map_fst_zip idx _ hzl
  have hms : (idx.zip (seg.zip w)).map (·.2) = seg.zip w := map_snd_zip idx _ hzl
  have := perm_filter_lookD (fun p : α × α => decide (p.1 ≠ 0)) (0, 0) (by simp) (idx.zip (seg.zip w))
    (List.range m) (by rw [hmf]; exact hn) List.nodup_range
    (fun e he => by
      have : e.1 ∈ idx := (List.of_mem_zip he).1
      exact List.mem_range.mpr (hr _ this))
    (fun e he => by
      have : e.2 ∈ seg.zip w := (List.of_mem_zip he).2
      have : e.2.1 ∈ seg := (List.of_mem_zip this).1
      simpa using hnz _ this)
  rw [hms] at this
  have hfun : (List.range m).map (lookD ((0 : α), (0 : α)) (idx.zip (seg.zip w))) =
      (dv m idx seg).zip (dv m idx w) := by
    rw [dv_eq_map, dv_eq_map, zip_map_range]
    apply List.map_congr_left
    intro k _
    exact lookD_zip_pair 0 0 k idx seg w hs hw
  rw [hfun] at this
  exact this.symm

/-- an element-wise function acts cell by cell, zero cells excepted -/
theorem vec_elem [Zero α] [DecidableEq α] (g : α → α) (m : Nat) (idx : List Nat) (seg : List α)
    (hnz : ∀ x ∈ seg, x ≠ 0) :
    dv m idx (seg.map g) = (dv m idx seg).map (zmap g) := by
  rw [dv_eq_map, dv_eq_map, List.map_map]
  apply List.map_congr_left
  intro k _
  exact lookD_zip_map g k idx seg hnz

/-! ### the whole matrix -/

theorem ptrOK_of_wf (cs : CS α) (h : cs.WF) : PtrOK cs.indptr cs.nMajor cs.data.length :=
  ⟨h.ptrLen, h.ptrMono, h.ptrLast⟩

theorem ptrOK_indices (cs : CS α) (h : cs.WF) : PtrOK cs.indptr cs.nMajor cs.indices.length := by
  rw [h.sameLen]; exact ptrOK_of_wf cs h

def idxSeg (cs : CS α) (j : Nat) : List Nat := segOf cs.indptr cs.indices j
def valSeg (cs : CS α) (j : Nat) : List α := segOf cs.indptr cs.data j

theorem idxSeg_length (cs : CS α) (h : cs.WF) (j : Nat) (hj : j < cs.nMajor) :
    (valSeg cs j).length = (idxSeg cs j).length := by
  rw [valSeg, idxSeg, segOf_length _ _ _ (ptrOK_of_wf cs h) _ rfl j hj,
    segOf_length _ _ _ (ptrOK_indices cs h) _ rfl j hj]

theorem idxSeg_nodup (cs : CS α) (h : cs.WF) (j : Nat) (hj : j < cs.nMajor) : (idxSeg cs j).Nodup := by
  have := h.distinct j hj
  rw [slice_eq] at this
  have e : (segOf cs.indptr cs.indices j).zip (segOf cs.indptr cs.data j) = (idxSeg cs j).zip (valSeg cs j) := rfl
  rw [e, map_fst_zip _ _ (idxSeg_length cs h j hj).symm] at this
  exact this

theorem idxSeg_inRange (cs : CS α) (h : cs.WF) (j : Nat) : ∀ k ∈ idxSeg cs j, k < cs.nMinor := by
  intro k hk
  exact h.inRange k (List.mem_of_mem_drop (List.mem_of_mem_take hk))

theorem valSeg_mem (cs : CS α) (j : Nat) : ∀ x ∈ valSeg cs j, x ∈ cs.data := by
  intro x hx
  exact List.mem_of_mem_drop (List.mem_of_mem_take hx)

theorem toDense_eq [Zero α] (cs : CS α) :
    cs.toDense = (List.range cs.nMajor).map (fun j => dv cs.nMinor (idxSeg cs j) (valSeg cs j)) := rfl

/-- `eliminate_zeros` does not change the dense content -/
theorem eliminateZeros_toDense [Zero α] [DecidableEq α] (cs : CS α)
    (hd : ∀ j, j < cs.nMajor → ((cs.slice j).map (·.1)).Nodup) :
    (eliminateZeros cs).toDense = cs.toDense := by
  simp only [CS.toDense, eliminateZeros]
  show (List.range cs.nMajor).map _ = _
  apply List.map_congr_left
  intro j hj
  have hj' : j < cs.nMajor := List.mem_range.mp hj
  rw [slice_ofEntries _ _ _ j (by simpa using hj')]
  simp only [List.getD_eq_getElem?_getD, List.getElem?_map, List.getElem?_range hj', Option.map_some,
    Option.getD_some]
  exact denseVec_filter _ _ (hd j hj')

/-- …and leaves no stored zero -/
theorem eliminateZeros_noStoredZeros [Zero α] [DecidableEq α] (cs : CS α) :
    ∀ v ∈ (eliminateZeros cs).data, v ≠ 0 := by
  intro v hv
  simp only [eliminateZeros, ofEntries, List.mem_flatten, List.mem_map] at hv
  obtain ⟨l, ⟨ents, ⟨j, _, rfl⟩, rfl⟩, hvl⟩ := hv
  obtain ⟨e, he, rfl⟩ := List.mem_map.mp hvl
  have := (List.mem_filter.mp he).2
  simpa using this

theorem storedZeros_eliminateZeros [Zero α] [DecidableEq α] (cs : CS α) : storedZeros (eliminateZeros cs) = 0 := by
  unfold storedZeros
  rw [List.length_eq_zero_iff, List.filter_eq_nil_iff]
  intro x hx
  simpa using eliminateZeros_noStoredZeros cs x hx

/-- What the kernel does, for every user function. -/
theorem transformKernel_spec (f : VFun α) (ids : List Id) (mds : Option (List Md)) (cs cs' : CS α)
    (log : List (Call α)) (hwf : cs.WF) (hids : cs.nMajor ≤ ids.length)
    (hmd : ∀ m, mds = some m → cs.nMajor ≤ m.length)
    (h : transformKernel f ids mds cs = .ok (cs', log)) :
    cs' = { cs with data := cs'.data } ∧ cs'.data.length = cs.data.length ∧
    log = (List.range cs.nMajor).map (callAt f cs.indptr ids mds cs.data) ∧
    (∀ j, j < cs.nMajor →
      assign (valSeg cs j) (f (valSeg cs j) (ids.getD j "") (mdIdx mds j)) = .ok (valSeg cs' j)) := by
  unfold transformKernel at h
  simp only [bind, Except.bind, pure, Except.pure] at h
  split at h
  · cases h
  · rename_i res hres
    obtain ⟨d, l⟩ := res
    simp only at h
    cases h
    have := kLoop_spec f cs.indptr ids mds cs.nMajor cs.data.length (ptrOK_of_wf cs hwf) hids hmd
      cs.nMajor 0 cs.data d log (by omega) rfl hres
    obtain ⟨h1, _, h3, h4⟩ := this
    refine ⟨rfl, h1, ?_, ?_⟩
    · rw [h3, List.range_eq_range']
    · intro j hj
      exact h4 j (Nat.zero_le _) hj

theorem transformKernel_total (f : VFun α) (ids : List Id) (mds : Option (List Md)) (cs : CS α)
    (hwf : cs.WF) (hids : cs.nMajor ≤ ids.length) (hmd : ∀ m, mds = some m → cs.nMajor ≤ m.length)
    (hf : ∀ j, j < cs.nMajor → ∃ w, assign (valSeg cs j) (f (valSeg cs j) (ids.getD j "") (mdIdx mds j)) = .ok w) :
    ∃ cs' log, transformKernel f ids mds cs = .ok (cs', log) := by
  obtain ⟨d, l, hdl⟩ := kLoop_ok f cs.indptr ids mds cs.nMajor cs.data.length (ptrOK_of_wf cs hwf) hids hmd
    cs.nMajor 0 cs.data (by omega) rfl (fun j _ hj => hf j hj)
  refine ⟨{ cs with data := d }, l, ?_⟩
  unfold transformKernel
  rw [hdl]; rfl

/-! ### lookups by ID and transposition -/

theorem lookupBy_getD (ids : List Id) (xs : List β) (hn : ids.Nodup) (i : Nat) (hi : i < ids.length) :
    lookupBy ids xs (ids.getD i "") = xs[i]? := by
  induction ids generalizing xs i with
  | nil => simp at hi
  | cons a as ih =>
    simp only [List.nodup_cons] at hn
    cases xs with
    | nil => simp [lookupBy]
    | cons x xs =>
      cases i with
      | zero => simp [lookupBy]
      | succ i =>
        have hi' : i < as.length := by simpa using hi
        have hne : a ≠ as.getD i "" := by
          intro h
          apply hn.1
          rw [h, List.getD_eq_getElem?_getD, List.getElem?_eq_getElem hi']
          simp
        simp only [lookupBy, List.getD_cons_succ, hne, if_false, List.getElem?_cons_succ]
        exact ih xs hn.2 i hi'

theorem indexOf?_getD (ids : List Id) (hn : ids.Nodup) (i : Nat) (hi : i < ids.length) :
    indexOf? ids (ids.getD i "") = some i := by
  have : ids.idxOf (ids.getD i "") = i := by
    rw [List.getD_eq_getElem?_getD, List.getElem?_eq_getElem hi]
    simp only [Option.getD_some]
    exact List.Nodup.idxOf_getElem hn i hi
  unfold indexOf?
  simp only [this, hi, if_true]

theorem map_getD_range (xs : List β) (d : β) : (List.range xs.length).map (fun i => xs.getD i d) = xs := by
  apply List.ext_getElem?
  intro k
  by_cases hk : k < xs.length
  · simp [hk]
  · simp [hk]

theorem mem_getD (xs : List β) (d : β) (x : β) (h : x ∈ xs) : ∃ i, i < xs.length ∧ x = xs.getD i d := by
  obtain ⟨i, hi, rfl⟩ := List.getElem_of_mem h
  exact ⟨i, hi, by simp [hi]⟩

theorem filterMap_congr' (l : List β) (f g : β → Option γ) (h : ∀ x ∈ l, f x = g x) :
    l.filterMap f = l.filterMap g := by
  induction l with
  | nil => rfl
  | cons x xs ih =>
    rw [List.filterMap_cons, List.filterMap_cons, h x List.mem_cons_self,
      ih (fun y hy => h y (List.mem_cons_of_mem _ hy))]

theorem colAt_getElem? (g : List (List β)) (k : Nat) (hk : ∀ r ∈ g, k < r.length) (i : Nat) :
    (colAt g k)[i]? = g[i]?.bind (·[k]?) := by
  induction g generalizing i with
  | nil => simp [colAt]
  | cons r rs ih =>
    have hr : k < r.length := hk r List.mem_cons_self
    have ih' := ih (fun r' hr' => hk r' (List.mem_cons_of_mem _ hr'))
    simp only [colAt] at ih' ⊢
    rw [List.filterMap_cons, List.getElem?_eq_getElem hr]
    cases i with
    | zero => simp [List.getElem?_eq_getElem hr]
    | succ i => simpa using ih' i

theorem colAt_length (g : List (List β)) (k : Nat) (hk : ∀ r ∈ g, k < r.length) : (colAt g k).length = g.length := by
  induction g with
  | nil => rfl
  | cons r rs ih =>
    have hr : k < r.length := hk r List.mem_cons_self
    have ih' := ih (fun r' hr' => hk r' (List.mem_cons_of_mem _ hr'))
    simp only [colAt] at ih' ⊢
    rw [List.filterMap_cons, List.getElem?_eq_getElem hr]
    simp [ih']

theorem filterMap_range_getElem? (r : List β) : (List.range r.length).filterMap (fun k => r[k]?) = r := by
  induction r with
  | nil => rfl
  | cons x xs ih =>
    rw [List.length_cons, List.range_succ_eq_map, List.filterMap_cons]
    simp only [List.getElem?_cons_zero, List.filterMap_map]
    congr 1

/-- row `i` of a grid comes back as column `i` of its transpose -/
theorem colAt_transposeGrid (n : Nat) (g : List (List β)) (hrect : ∀ r ∈ g, r.length = n) (i : Nat)
    (hi : i < g.length) : colAt (transposeGrid n g) i = g.getD i [] := by
  have h1 : colAt (transposeGrid n g) i = (List.range n).filterMap (fun k => (colAt g k)[i]?) := by
    simp [colAt, transposeGrid, List.filterMap_map, Function.comp_def]
  rw [h1]
  have h2 : (List.range n).filterMap (fun k => (colAt g k)[i]?) =
      (List.range n).filterMap (fun k => (g[i])[k]?) := by
    apply filterMap_congr'
    intro k hk
    have hk' : k < n := List.mem_range.mp hk
    rw [colAt_getElem? g k (fun r hr => by rw [hrect r hr]; exact hk') i, List.getElem?_eq_getElem hi]
    rfl
  rw [h2]
  have hl : (g[i]).length = n := hrect _ (List.getElem_mem hi)
  rw [← hl, filterMap_range_getElem?]
  simp [hi]

theorem transposeGrid_involutive (n m : Nat) (rows : List (List β)) (hl : rows.length = n)
    (hrect : ∀ r ∈ rows, r.length = m) : transposeGrid n (transposeGrid m rows) = rows := by
  have : transposeGrid n (transposeGrid m rows) = (List.range n).map (fun i => rows.getD i []) := by
    simp only [transposeGrid]
    apply List.map_congr_left
    intro i hi
    have := colAt_transposeGrid m rows hrect i (by rw [hl]; exact List.mem_range.mp hi)
    simpa [transposeGrid] using this
  rw [this, ← hl, map_getD_range]

theorem colAt_map (h : β → γ) (g : List (List β)) (k : Nat) : colAt (g.map (·.map h)) k = (colAt g k).map h := by
  simp only [colAt, List.filterMap_map, List.map_filterMap]
  apply filterMap_congr'
  intro r _
  simp

theorem transposeGrid_map (h : β → γ) (n : Nat) (g : List (List β)) :
    transposeGrid n (g.map (·.map h)) = (transposeGrid n g).map (·.map h) := by
  simp only [transposeGrid, List.map_map]
  apply List.map_congr_left
  intro k _
  exact colAt_map h g k
/-! ### from the flat matrix to vectors looked up by ID -/

theorem wfb_facts (t : Table α) (h : t.wfb = true) :
    t.rows.length = t.obs.length ∧ (∀ r ∈ t.rows, r.length = t.samp.length) ∧
    (∀ m, t.omd = some m → m.length = t.obs.length) ∧ (∀ m, t.smd = some m → m.length = t.samp.length) := by
  unfold Table.wfb at h
  simp only [Bool.and_eq_true, beq_iff_eq, List.all_eq_true] at h
  obtain ⟨⟨⟨h1, h2⟩, h3⟩, h4⟩ := h
  refine ⟨h1, h2, ?_, ?_⟩
  · intro m hm; rw [hm] at h3; simpa using h3
  · intro m hm; rw [hm] at h4; simpa using h4

theorem md_length (t : Table α) (h : t.wfb = true) (ax : Axis) : ∀ m, t.md ax = some m → m.length = (t.ids ax).length := by
  obtain ⟨_, _, h3, h4⟩ := wfb_facts t h
  cases ax
  · exact h3
  · exact h4

theorem vec?_major (t : Table α) (ax : Axis) (hn : (t.ids ax).Nodup) (j : Nat)
    (hj : j < (t.ids ax).length) : t.vec? ax ((t.ids ax).getD j "") = (majorGrid t ax)[j]? := by
  cases ax with
  | obs => exact lookupBy_getD t.obs t.rows hn j hj
  | samp =>
    have hj' : j < t.samp.length := hj
    simp only [Table.vec?, Table.col?, Table.ids, majorGrid, transposeGrid]
    rw [indexOf?_getD t.samp hn j hj']
    simp [hj']

theorem vec?_setMajor (t : Table α) (ax : Axis) (hn : (t.ids ax).Nodup) (g : List (List α))
    (hg : g.length = (t.ids ax).length) (hrect : ∀ r ∈ g, r.length = (t.ids ax.other).length) (j : Nat)
    (hj : j < (t.ids ax).length) : (setMajorGrid t ax g).vec? ax ((t.ids ax).getD j "") = g[j]? := by
  cases ax with
  | obs => exact lookupBy_getD t.obs g hn j hj
  | samp =>
    have hj' : j < t.samp.length := hj
    simp only [Table.vec?, Table.col?, setMajorGrid, Table.ids]
    rw [indexOf?_getD t.samp hn j hj']
    simp only [Option.map_some]
    rw [colAt_transposeGrid t.obs.length g hrect j (by rw [hg]; exact hj)]
    have : j < g.length := by rw [hg]; exact hj
    simp [this]

theorem mdOf?_getD (t : Table α) (ax : Axis) (hn : (t.ids ax).Nodup) (j : Nat)
    (hj : j < (t.ids ax).length) : t.mdOf? ax ((t.ids ax).getD j "") = mdIdx (t.md ax) j := by
  unfold Table.mdOf? mdIdx
  cases hm : t.md ax with
  | none => rfl
  | some m => simp only [Option.bind_some]; exact lookupBy_getD (t.ids ax) m hn j hj

theorem setMajorGrid_frame (t : Table α) (ax : Axis) (g : List (List α)) :
    (setMajorGrid t ax g).obs = t.obs ∧ (setMajorGrid t ax g).samp = t.samp ∧ (setMajorGrid t ax g).omd = t.omd ∧
    (setMajorGrid t ax g).smd = t.smd ∧ (setMajorGrid t ax g).ttype = t.ttype := by
  cases ax <;> simp [setMajorGrid]

theorem setMajorGrid_wfb (t : Table α) (h : t.wfb = true) (ax : Axis) (g : List (List α))
    (hg : g.length = (t.ids ax).length) (hrect : ∀ r ∈ g, r.length = (t.ids ax.other).length) :
    (setMajorGrid t ax g).wfb = true := by
  obtain ⟨h1, h2, h3, h4⟩ := wfb_facts t h
  have hmd : (match t.omd with | some m => m.length == t.obs.length | none => true) = true := by
    cases hm : t.omd with
    | none => rfl
    | some m => simpa using h3 m hm
  have hmd' : (match t.smd with | some m => m.length == t.samp.length | none => true) = true := by
    cases hm : t.smd with
    | none => rfl
    | some m => simpa using h4 m hm
  cases ax with
  | obs =>
    simp only [Table.wfb, setMajorGrid, Bool.and_eq_true, beq_iff_eq, List.all_eq_true]
    exact ⟨⟨⟨hg, hrect⟩, hmd⟩, hmd'⟩
  | samp =>
    simp only [Table.wfb, setMajorGrid, Bool.and_eq_true, beq_iff_eq, List.all_eq_true]
    refine ⟨⟨⟨by simp [transposeGrid], ?_⟩, hmd⟩, hmd'⟩
    intro r hr
    simp only [transposeGrid, List.mem_map, List.mem_range] at hr
    obtain ⟨k, hk, rfl⟩ := hr
    rw [colAt_length g k (fun r hr => by rw [hrect r hr]; exact hk)]
    exact hg

/-! ### one run of `Table.transform` -/

/-- the contract between a table and the matrix `_get_sparse_data(axis)` hands to the kernel -/
structure Pre [Zero α] [DecidableEq α] (t : Table α) (ax : Axis) (cs : CS α) : Prop where
  twf : t.wfb = true
  nodup : (t.ids ax).Nodup
  cswf : cs.WF
  nMajor : cs.nMajor = (t.ids ax).length
  nMinor : cs.nMinor = (t.ids ax.other).length
  dense : cs.toDense = majorGrid t ax
  noZeros : cs.NoStoredZeros

/-- the user function returns as many values as it was given -/
def LenPres (f : VFun α) : Prop := ∀ v id md, (f v id md).length = v.length

/-- what the function returns for vector `j` -/
def retOf (f : VFun α) (t : Table α) (ax : Axis) (cs : CS α) (j : Nat) : List α :=
  f (valSeg cs j) ((t.ids ax).getD j "") (mdIdx (t.md ax) j)

def newGrid [Zero α] (f : VFun α) (t : Table α) (ax : Axis) (cs : CS α) : List (List α) :=
  (List.range cs.nMajor).map (fun j => dv cs.nMinor (idxSeg cs j) (retOf f t ax cs j))

theorem transform_run [Zero α] [DecidableEq α] (f : VFun α) (ax : Axis) (inplace : Bool) (t : Table α) (cs : CS α)
    (hp : Pre t ax cs) (hf : LenPres f) :
    ∃ o, transform f ax inplace t cs = .ok o ∧
      o.log = (List.range cs.nMajor).map (callAt f cs.indptr (t.ids ax) (t.md ax) cs.data) ∧
      o.result = setMajorGrid t ax (newGrid f t ax cs) ∧
      o.selfAfter = (if inplace then o.result else t) ∧ o.sameObj = inplace ∧ o.storedZeros = 0 := by
  have hids : cs.nMajor ≤ (t.ids ax).length := by rw [hp.nMajor]; exact Nat.le_refl _
  have hmd : ∀ m, t.md ax = some m → cs.nMajor ≤ m.length := by
    intro m hm; rw [md_length t hp.twf ax m hm, hp.nMajor]; exact Nat.le_refl _
  obtain ⟨cs', log, hk⟩ := transformKernel_total f (t.ids ax) (t.md ax) cs hp.cswf hids hmd
    (fun j _ => ⟨_, assign_same_length (hf _ _ _)⟩)
  obtain ⟨hcs, hlen, hlog, hw⟩ := transformKernel_spec f (t.ids ax) (t.md ax) cs cs' log hp.cswf hids hmd hk
  have hptr : cs'.indptr = cs.indptr := by rw [hcs]
  have hind : cs'.indices = cs.indices := by rw [hcs]
  have hnM : cs'.nMajor = cs.nMajor := by rw [hcs]
  have hnm : cs'.nMinor = cs.nMinor := by rw [hcs]
  have hval : ∀ j, j < cs.nMajor → valSeg cs' j = retOf f t ax cs j := by
    intro j hj
    have := hw j hj
    rw [assign_same_length (hf _ _ _)] at this
    exact (Except.ok.inj this).symm
  have hidx : ∀ j, idxSeg cs' j = idxSeg cs j := by intro j; simp only [idxSeg, hptr, hind]
  have hdist : ∀ j, j < cs'.nMajor → ((cs'.slice j).map (·.1)).Nodup := by
    intro j hj
    rw [hnM] at hj
    rw [slice_eq]
    have e : (segOf cs'.indptr cs'.indices j).zip (segOf cs'.indptr cs'.data j) = (idxSeg cs' j).zip (valSeg cs' j) := rfl
    rw [e, hidx j, hval j hj, map_fst_zip]
    · exact idxSeg_nodup cs hp.cswf j hj
    · rw [retOf, hf, idxSeg_length cs hp.cswf j hj]
  have hdense : (eliminateZeros cs').toDense = newGrid f t ax cs := by
    rw [eliminateZeros_toDense cs' hdist, toDense_eq, hnM, hnm]
    apply List.map_congr_left
    intro j hj
    rw [hidx j, hval j (List.mem_range.mp hj)]
  refine ⟨{ log := log, result := setMajorGrid t ax (eliminateZeros cs').toDense,
             selfAfter := if inplace then setMajorGrid t ax (eliminateZeros cs').toDense else t,
             sameObj := inplace, storedZeros := storedZeros (eliminateZeros cs') }, ?_, ?_⟩
  · unfold transform
    rw [hk]
    rfl
  · simp only [hdense, storedZeros_eliminateZeros]
    exact ⟨hlog, trivial, trivial, trivial, trivial⟩

section run
variable [Zero α] [DecidableEq α] {t : Table α} {ax : Axis} {cs : CS α}

theorem vec_old (hp : Pre t ax cs) (j : Nat) (hj : j < cs.nMajor) :
    t.vec? ax ((t.ids ax).getD j "") = some (dv cs.nMinor (idxSeg cs j) (valSeg cs j)) := by
  rw [vec?_major t ax hp.nodup j (by rw [← hp.nMajor]; exact hj), ← hp.dense, toDense_eq]
  simp [hj]

omit [DecidableEq α] in
theorem newGrid_length (f : VFun α) : (newGrid f t ax cs).length = cs.nMajor := by simp [newGrid]

theorem vec_new (hp : Pre t ax cs) (f : VFun α) (j : Nat) (hj : j < cs.nMajor) :
    (setMajorGrid t ax (newGrid f t ax cs)).vec? ax ((t.ids ax).getD j "") =
      some (dv cs.nMinor (idxSeg cs j) (retOf f t ax cs j)) := by
  rw [vec?_setMajor t ax hp.nodup (newGrid f t ax cs) (by rw [newGrid_length, hp.nMajor]) ?_ j
    (by rw [← hp.nMajor]; exact hj)]
  · simp [newGrid, hj]
  · intro r hr
    simp only [newGrid, List.mem_map] at hr
    obtain ⟨k, _, rfl⟩ := hr
    rw [dv_length, hp.nMinor]

theorem seg_nonzero (hp : Pre t ax cs) (j : Nat) : ∀ x ∈ valSeg cs j, x ≠ 0 :=
  fun x hx => hp.noZeros x (valSeg_mem cs j x hx)

theorem mem_ids (hp : Pre t ax cs) (id : Id) (h : id ∈ t.ids ax) :
    ∃ j, j < cs.nMajor ∧ id = (t.ids ax).getD j "" := by
  obtain ⟨j, hj, e⟩ := mem_getD (t.ids ax) "" id h
  exact ⟨j, by rw [hp.nMajor]; exact hj, e⟩

end run
/-! ### `eliminate_zeros` keeps the matrix well-formed -/

theorem ptrFrom_length (a : Nat) (ls : List Nat) : (ptrFrom a ls).length = ls.length + 1 := by
  induction ls generalizing a with
  | nil => rfl
  | cons l ls ih => simp [ptrFrom, ih]

theorem ptrFrom_getD (ls : List Nat) : ∀ (a i : Nat), i ≤ ls.length → (ptrFrom a ls).getD i 0 = a + (ls.take i).sum := by
  induction ls with
  | nil => intro a i hi; have : i = 0 := by simpa using hi
           subst this; simp [ptrFrom]
  | cons l ls ih =>
    intro a i hi
    cases i with
    | zero => simp [ptrFrom]
    | succ i =>
      simp only [ptrFrom, List.getD_cons_succ, List.take_succ_cons, List.sum_cons]
      rw [ih (a + l) i (by simpa using hi)]
      omega

theorem take_succ_sum (ls : List Nat) (i : Nat) (hi : i < ls.length) : (ls.take (i + 1)).sum = (ls.take i).sum + ls[i] := by
  induction ls generalizing i with
  | nil => simp at hi
  | cons l ls ih =>
    cases i with
    | zero => simp
    | succ i =>
      simp only [List.take_succ_cons, List.sum_cons, List.getElem_cons_succ]
      rw [ih i (by simpa using hi)]
      omega

theorem wfb_of_wf (cs : CS α) (h : cs.WF) : cs.wfb = true := by
  unfold CS.wfb
  simp only [Bool.and_eq_true, beq_iff_eq, List.all_eq_true, decide_eq_true_eq, List.mem_range]
  exact ⟨⟨⟨⟨⟨⟨h.ptrLen, h.ptrZero⟩, h.ptrMono⟩, h.ptrLast⟩, h.sameLen⟩, h.inRange⟩, h.distinct⟩

theorem ofEntries_wf (n m : Nat) (ents : List (List (Nat × α))) (hlen : ents.length = n)
    (hr : ∀ l ∈ ents, ∀ e ∈ l, e.1 < m) (hd : ∀ l ∈ ents, (l.map (·.1)).Nodup) : (ofEntries n m ents).WF := by
  have hdata : (ofEntries n m ents).data.length = (ents.map List.length).sum := by
    simp [ofEntries, List.length_flatten, List.map_map, Function.comp_def]
  have hidx : (ofEntries n m ents).indices.length = (ents.map List.length).sum := by
    simp [ofEntries, List.length_flatten, List.map_map, Function.comp_def]
  refine ⟨?_, ?_, ?_, ?_, ?_, ?_, ?_⟩
  · simp [ofEntries, ptrFrom_length, hlen]
  · show (ptrFrom 0 (ents.map List.length))[0]? = some 0
    cases ents <;> simp [ptrFrom]
  · intro i hi
    show (ptrFrom 0 (ents.map List.length)).getD i 0 ≤ (ptrFrom 0 (ents.map List.length)).getD (i + 1) 0
    have hi0 : i < n := hi
    have hi' : i < (ents.map List.length).length := by rw [List.length_map, hlen]; exact hi0
    rw [ptrFrom_getD _ 0 i (by omega), ptrFrom_getD _ 0 (i + 1) (by omega), take_succ_sum _ i hi']
    omega
  · show (ptrFrom 0 (ents.map List.length)).getD n 0 = _
    rw [hdata, ptrFrom_getD _ 0 n (by simp [hlen])]
    have : (ents.map List.length).take n = ents.map List.length := by
      apply List.take_of_length_le; simp [hlen]
    rw [this]; omega
  · rw [hdata, hidx]
  · intro j hj
    simp only [ofEntries, List.mem_flatten, List.mem_map] at hj
    obtain ⟨l', ⟨l, hl, rfl⟩, hj⟩ := hj
    obtain ⟨e, he, rfl⟩ := List.mem_map.mp hj
    exact hr l hl e he
  · intro i hi
    show (((ofEntries n m ents).slice i).map (·.1)).Nodup
    have hi' : i < ents.length := by rw [hlen]; exact hi
    rw [slice_ofEntries n m ents i hi']
    have : ents.getD i [] ∈ ents := by
      rw [List.getD_eq_getElem?_getD, List.getElem?_eq_getElem hi']
      exact List.getElem_mem hi'
    exact hd _ this

theorem eliminateZeros_wf [Zero α] [DecidableEq α] (cs : CS α) (h : cs.WF) : (eliminateZeros cs).WF := by
  unfold eliminateZeros
  apply ofEntries_wf
  · simp
  · intro l hl e he
    obtain ⟨i, _, rfl⟩ := List.mem_map.mp hl
    have he' : e ∈ cs.slice i := (List.mem_filter.mp he).1
    rw [slice_eq] at he'
    exact idxSeg_inRange cs h i e.1 (List.of_mem_zip he').1
  · intro l hl
    obtain ⟨i, hi, rfl⟩ := List.mem_map.mp hl
    exact (h.distinct i (List.mem_range.mp hi)).sublist (List.filter_sublist.map _)
end Biom.C13
