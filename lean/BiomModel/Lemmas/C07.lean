/-
  C07 — helper lemmas: the separation invariant and its preservation, what a step can write,
  frame, and the content-level effect of in-place steps.
-/
import BiomModel.C07
namespace Biom.C07
set_option linter.unusedSectionVars false
set_option linter.unusedSimpArgs false
variable {γ : Type} [Inhabited γ]

structure SepS (nm ni nd : Nat) (objs : List Obj) : Prop where
  matB : ∀ (t : Nat) (o : Obj), objs[t]? = some o → (o.mat : Nat) < nm
  idsB : ∀ (t : Nat) (o : Obj), objs[t]? = some o → ∀ ax, (o.idsLoc ax : Nat) < ni
  dictB : ∀ (t : Nat) (o : Obj), objs[t]? = some o → ∀ l ∈ o.dlocs, (l : Nat) < nd
  matD : ∀ (t u : Nat) (o p : Obj), objs[t]? = some o → objs[u]? = some p → (o.mat : Nat) = p.mat → t = u
  dictD : ∀ (t u : Nat) (o p : Obj) (l : Nat), objs[t]? = some o → objs[u]? = some p → l ∈ o.dlocs → l ∈ p.dlocs → t = u
  dictN : ∀ (t : Nat) (o : Obj), objs[t]? = some o → o.dlocs.Nodup

def Sep (h : Heap γ) : Prop := SepS h.mats.length h.ids.length h.dicts.length h.objs

theorem SepS.mono {nm ni nd nm' ni' nd' : Nat} {objs : List Obj} (s : SepS nm ni nd objs)
    (h1 : nm ≤ nm') (h2 : ni ≤ ni') (h3 : nd ≤ nd') : SepS nm' ni' nd' objs where
  matB t o h := Nat.lt_of_lt_of_le (s.matB t o h) h1
  idsB t o h ax := Nat.lt_of_lt_of_le (s.idsB t o h ax) h2
  dictB t o h l hl := Nat.lt_of_lt_of_le (s.dictB t o h l hl) h3
  matD := s.matD
  dictD := s.dictD
  dictN := s.dictN

theorem SepS.set {nm ni nd nm' ni' nd' : Nat} {objs : List Obj} (s : SepS nm ni nd objs)
    (h1 : nm ≤ nm') (h2 : ni ≤ ni') (h3 : nd ≤ nd') (t : Nat) (o o' : Obj) (ho : objs[t]? = some o)
    (hm : (o'.mat : Nat) < nm' ∧ ((o'.mat : Nat) = o.mat ∨ nm ≤ (o'.mat : Nat)))
    (hi : ∀ ax, (o'.idsLoc ax : Nat) < ni')
    (hd : ∀ l ∈ o'.dlocs, (l : Nat) < nd' ∧ (l ∈ o.dlocs ∨ nd ≤ (l : Nat)))
    (hn : o'.dlocs.Nodup) : SepS nm' ni' nd' (objs.set t o') := by
  have ht : t < objs.length := by
    rcases Nat.lt_or_ge t objs.length with h | h
    · exact h
    · rw [List.getElem?_eq_none h] at ho; cases ho
  have key : ∀ u p, (objs.set t o')[u]? = some p → (u = t ∧ p = o') ∨ (u ≠ t ∧ objs[u]? = some p) := by
    intro u p hp
    rw [List.getElem?_set] at hp
    by_cases hut : t = u
    · subst hut; simp [ht] at hp; exact Or.inl ⟨rfl, hp.symm⟩
    · simp [hut] at hp; exact Or.inr ⟨fun e => hut e.symm, hp⟩
  constructor
  · intro u p hp
    rcases key u p hp with ⟨_, rfl⟩ | ⟨_, h⟩
    · exact hm.1
    · exact Nat.lt_of_lt_of_le (s.matB u p h) h1
  · intro u p hp ax
    rcases key u p hp with ⟨_, rfl⟩ | ⟨_, h⟩
    · exact hi ax
    · exact Nat.lt_of_lt_of_le (s.idsB u p h ax) h2
  · intro u p hp l hl
    rcases key u p hp with ⟨_, rfl⟩ | ⟨_, h⟩
    · exact (hd l hl).1
    · exact Nat.lt_of_lt_of_le (s.dictB u p h l hl) h3
  · intro u v p q hp hq e
    rcases key u p hp with ⟨rfl, rfl⟩ | ⟨hu, hp'⟩ <;> rcases key v q hq with ⟨rfl, rfl⟩ | ⟨hv, hq'⟩
    · rfl
    · rcases hm.2 with h | h
      · exact s.matD _ _ _ _ ho hq' (h.symm.trans e)
      · have := s.matB v q hq'; omega
    · rcases hm.2 with h | h
      · exact s.matD _ _ _ _ hp' ho (e.trans h)
      · have := s.matB u p hp'; omega
    · exact s.matD _ _ _ _ hp' hq' e
  · intro u v p q l hp hq hlp hlq
    rcases key u p hp with ⟨rfl, rfl⟩ | ⟨hu, hp'⟩ <;> rcases key v q hq with ⟨rfl, rfl⟩ | ⟨hv, hq'⟩
    · rfl
    · rcases (hd l hlp).2 with h | h
      · exact s.dictD _ _ _ _ l ho hq' h hlq
      · have := s.dictB v q hq' l hlq; omega
    · rcases (hd l hlq).2 with h | h
      · exact s.dictD _ _ _ _ l hp' ho hlp h
      · have := s.dictB u p hp' l hlp; omega
    · exact s.dictD _ _ _ _ l hp' hq' hlp hlq
  · intro u p hp
    rcases key u p hp with ⟨_, rfl⟩ | ⟨_, h⟩
    · exact hn
    · exact s.dictN u p h

theorem SepS.push {nm ni nd nm' ni' nd' : Nat} {objs : List Obj} (s : SepS nm ni nd objs)
    (h1 : nm ≤ nm') (h2 : ni ≤ ni') (h3 : nd ≤ nd') (o' : Obj)
    (hm : (o'.mat : Nat) < nm' ∧ nm ≤ (o'.mat : Nat))
    (hi : ∀ ax, (o'.idsLoc ax : Nat) < ni')
    (hd : ∀ l ∈ o'.dlocs, (l : Nat) < nd' ∧ nd ≤ (l : Nat))
    (hn : o'.dlocs.Nodup) : SepS nm' ni' nd' (objs ++ [o']) := by
  have key : ∀ u p, (objs ++ [o'])[u]? = some p → (u = objs.length ∧ p = o') ∨ (u < objs.length ∧ objs[u]? = some p) := by
    intro u p hp
    rcases Nat.lt_or_ge u objs.length with h | h
    · rw [List.getElem?_append_left h] at hp; exact Or.inr ⟨h, hp⟩
    · rw [List.getElem?_append_right h] at hp
      rcases Nat.eq_or_lt_of_le h with e | e
      · subst e; simp at hp; exact Or.inl ⟨rfl, hp.symm⟩
      · have : u - objs.length ≠ 0 := by omega
        rw [List.getElem?_eq_none (by simp; omega)] at hp; cases hp
  constructor
  · intro u p hp
    rcases key u p hp with ⟨_, rfl⟩ | ⟨_, h⟩
    · exact hm.1
    · exact Nat.lt_of_lt_of_le (s.matB u p h) h1
  · intro u p hp ax
    rcases key u p hp with ⟨_, rfl⟩ | ⟨_, h⟩
    · exact hi ax
    · exact Nat.lt_of_lt_of_le (s.idsB u p h ax) h2
  · intro u p hp l hl
    rcases key u p hp with ⟨_, rfl⟩ | ⟨_, h⟩
    · exact (hd l hl).1
    · exact Nat.lt_of_lt_of_le (s.dictB u p h l hl) h3
  · intro u v p q hp hq e
    rcases key u p hp with ⟨rfl, rfl⟩ | ⟨hu, hp'⟩ <;> rcases key v q hq with ⟨rfl, rfl⟩ | ⟨hv, hq'⟩
    · rfl
    · have := s.matB v q hq'; omega
    · have := s.matB u p hp'; omega
    · exact s.matD _ _ _ _ hp' hq' e
  · intro u v p q l hp hq hlp hlq
    rcases key u p hp with ⟨rfl, rfl⟩ | ⟨hu, hp'⟩ <;> rcases key v q hq with ⟨rfl, rfl⟩ | ⟨hv, hq'⟩
    · rfl
    · have := s.dictB v q hq' l hlq; have := (hd l hlp).2; omega
    · have := s.dictB u p hp' l hlp; have := (hd l hlq).2; omega
    · exact s.dictD _ _ _ _ l hp' hq' hlp hlq
  · intro u p hp
    rcases key u p hp with ⟨_, rfl⟩ | ⟨_, h⟩
    · exact hn
    · exact s.dictN u p h


/-! ### shape facts -/

theorem getElem?_some_lt {α : Type} {l : List α} {t : Nat} {o : α} (h : l[t]? = some o) : t < l.length := by
  rcases Nat.lt_or_ge t l.length with h' | h'
  · exact h'
  · rw [List.getElem?_eq_none h'] at h; cases h

@[simp] theorem writeDicts_mats (h : Heap γ) (ws) : (h.writeDicts ws).mats = h.mats := by
  induction ws generalizing h with
  | nil => rfl
  | cons w r ih => rcases w with ⟨l, _ | u⟩ <;> simp [Heap.writeDicts, ih]
@[simp] theorem writeDicts_ids (h : Heap γ) (ws) : (h.writeDicts ws).ids = h.ids := by
  induction ws generalizing h with
  | nil => rfl
  | cons w r ih => rcases w with ⟨l, _ | u⟩ <;> simp [Heap.writeDicts, ih]
@[simp] theorem writeDicts_objs (h : Heap γ) (ws) : (h.writeDicts ws).objs = h.objs := by
  induction ws generalizing h with
  | nil => rfl
  | cons w r ih => rcases w with ⟨l, _ | u⟩ <;> simp [Heap.writeDicts, ih]
@[simp] theorem writeDicts_len (h : Heap γ) (ws) : (h.writeDicts ws).dicts.length = h.dicts.length := by
  induction ws generalizing h with
  | nil => rfl
  | cons w r ih => rcases w with ⟨l, _ | u⟩ <;> simp [Heap.writeDicts, ih]

theorem sep_writeDicts {h : Heap γ} (s : Sep h) (ws) : Sep (h.writeDicts ws) := by
  unfold Sep at *
  simpa using s

theorem mem_dlocs {o : Obj} {l : Nat} : l ∈ o.dlocs ↔ l ∈ o.omd.getD [] ∨ l ∈ o.smd.getD [] := by
  simp [Obj.dlocs]

theorem md_sub_dlocs (o : Obj) (ax : Axis) (ls : List Nat) (h : o.md ax = some ls) : ∀ l ∈ ls, l ∈ o.dlocs := by
  intro l hl
  cases ax <;> simp [Obj.md] at h <;> simp [Obj.dlocs, h, hl]


/-! ### every micro-step keeps the separation invariant -/

theorem sep_allocIds {h : Heap γ} (s : Sep h) (l : List Id) : Sep (step h (.allocIds l)) := by
  unfold Sep at *
  simp only [step, List.length_append, List.length_singleton]
  exact s.mono (Nat.le_refl _) (Nat.le_succ _) (Nat.le_refl _)

theorem sep_matKernel {h : Heap γ} (s : Sep h) (t ax) (g : γ → γ) : Sep (h.matKernel t ax g) := by
  unfold Heap.matKernel
  split
  · exact s
  · rename_i o ho
    split
    · unfold Sep at *; simpa using s
    · unfold Sep at *
      simp only [List.length_append, List.length_singleton]
      refine s.set (Nat.le_succ _) (Nat.le_refl _) (Nat.le_refl _) t o _ ho ⟨by simp, Or.inr (by simp)⟩ ?_ ?_ ?_
      · intro ax'; exact s.idsB t o ho ax'
      · intro l hl
        have hl' : l ∈ o.dlocs := by simpa [Obj.dlocs] using hl
        exact ⟨s.dictB t o ho l hl', Or.inl hl'⟩
      · simpa [Obj.dlocs] using s.dictN t o ho

theorem sep_relayout {h : Heap γ} (s : Sep h) (t ax) : Sep (h.relayout t ax) := by
  unfold Heap.relayout
  split
  · exact s
  · rename_i o ho
    split
    · exact s
    · unfold Sep at *
      simp only [List.length_append, List.length_singleton]
      refine s.set (Nat.le_succ _) (Nat.le_refl _) (Nat.le_refl _) t o _ ho ⟨by simp, Or.inr (by simp)⟩ ?_ ?_ ?_
      · intro ax'; exact s.idsB t o ho ax'
      · intro l hl
        have hl' : l ∈ o.dlocs := by simpa [Obj.dlocs] using hl
        exact ⟨s.dictB t o ho l hl', Or.inl hl'⟩
      · simpa [Obj.dlocs] using s.dictN t o ho

theorem sep_setIds {h : Heap γ} (s : Sep h) (t ax) (l : List Id) : Sep (h.setIds t ax l) := by
  unfold Heap.setIds
  split
  · exact s
  · rename_i o ho
    unfold Sep at *
    simp only [List.length_append, List.length_singleton]
    refine s.set (Nat.le_refl _) (Nat.le_succ _) (Nat.le_refl _) t o _ ho ⟨?_, Or.inl ?_⟩ ?_ ?_ ?_
    · cases ax <;> simpa [Obj.setIdsLoc] using s.matB t o ho
    · cases ax <;> simp [Obj.setIdsLoc]
    · intro ax'
      have h1 := s.idsB t o ho .obs
      have h2 := s.idsB t o ho .samp
      cases ax <;> cases ax' <;> simp [Obj.setIdsLoc, Obj.idsLoc] at * <;> omega
    · intro l' hl
      have hl' : l' ∈ o.dlocs := by cases ax <;> simpa [Obj.dlocs, Obj.setIdsLoc] using hl
      exact ⟨s.dictB t o ho l' hl', Or.inl hl'⟩
    · have := s.dictN t o ho
      cases ax <;> simpa [Obj.dlocs, Obj.setIdsLoc] using this


theorem filterMask_sublist {α : Type} : ∀ (l : List α) (m : List Bool), (filterMask l m).Sublist l
  | [], _ => by simp [filterMask]
  | _ :: _, [] => by simp [filterMask]
  | a :: as, b :: bs => by
    unfold filterMask
    cases b
    · simpa using (filterMask_sublist as bs).cons a
    · simpa using (filterMask_sublist as bs).cons_cons a

/-- installing `none` on an axis -/
theorem dlocs_setNone_sublist (o : Obj) (ax : Axis) : (o.setMd ax none).dlocs.Sublist o.dlocs := by
  cases ax <;> simp [Obj.setMd, Obj.dlocs]

theorem dlocs_setMd_sublist (o : Obj) (ax : Axis) (m' : Option (List Nat))
    (hm : ∀ l', m' = some l' → ∃ l, o.md ax = some l ∧ l'.Sublist l) : (o.setMd ax m').dlocs.Sublist o.dlocs := by
  cases m' with
  | none => exact dlocs_setNone_sublist o ax
  | some l' =>
    obtain ⟨l, hl, hs⟩ := hm l' rfl
    cases ax
    · simp only [Obj.md] at hl
      simp only [Obj.setMd, Obj.dlocs, hl, Option.getD_some]
      exact hs.append (List.Sublist.refl _)
    · simp only [Obj.md] at hl
      simp only [Obj.setMd, Obj.dlocs, hl, Option.getD_some]
      exact (List.Sublist.refl _).append hs

theorem sep_setMd_sub {nm ni nd : Nat} {objs : List Obj} (s : SepS nm ni nd objs) (t : Nat) (o : Obj)
    (ho : objs[t]? = some o) (ax : Axis) (m' : Option (List Nat))
    (sub : (o.setMd ax m').dlocs.Sublist o.dlocs) : SepS nm ni nd (objs.set t (o.setMd ax m')) := by
  refine s.set (Nat.le_refl _) (Nat.le_refl _) (Nat.le_refl _) t o _ ho ⟨?_, Or.inl ?_⟩ ?_ ?_ ?_
  · cases ax <;> simpa [Obj.setMd] using s.matB t o ho
  · cases ax <;> simp [Obj.setMd]
  · intro ax'
    have := s.idsB t o ho ax'
    cases ax <;> cases ax' <;> simpa [Obj.setMd, Obj.idsLoc] using this
  · intro l hl
    exact ⟨s.dictB t o ho l (sub.subset hl), Or.inl (sub.subset hl)⟩
  · exact (s.dictN t o ho).sublist sub

theorem sep_setMdNone {nm ni nd : Nat} {objs : List Obj} (s : SepS nm ni nd objs) (t : Nat) (o : Obj)
    (ho : objs[t]? = some o) (ax : Axis) : SepS nm ni nd (objs.set t (o.setMd ax none)) :=
  sep_setMd_sub s t o ho ax none (dlocs_setNone_sublist o ax)

theorem sep_keepMd {h : Heap γ} (s : Sep h) (t ax) (mask : List Bool) : Sep (h.keepMd t ax mask) := by
  unfold Heap.keepMd
  split
  · exact s
  · rename_i o ho
    unfold Sep at *
    apply sep_setMd_sub s t o ho ax
    apply dlocs_setMd_sublist
    intro l' hl'
    cases hm : o.md ax with
    | none => simp [hm] at hl'
    | some ls =>
      simp only [hm] at hl'
      split at hl'
      · cases hl'
      · cases hl'; exact ⟨ls, rfl, filterMask_sublist ls mask⟩

theorem sep_delMd {h : Heap γ} (s : Sep h) (t ax) (d : Option (Md → Md)) : Sep (h.delMd t ax d) := by
  unfold Heap.delMd
  split
  · exact s
  · rename_i o ho
    split
    · unfold Sep at *; exact sep_setMdNone s t o ho ax
    · rename_i f
      split
      · exact s
      · rename_i locs hl
        have s1 := sep_writeDicts s (locs.map (fun l => (l, some f)))
        simp only []
        split
        · unfold Sep at *
          simp only [writeDicts_mats, writeDicts_ids, writeDicts_len, writeDicts_objs] at *
          exact sep_setMdNone s t o ho ax
        · exact s1


theorem fresh_getD {α : Type} (m : Option (List α)) (d : Nat) :
    (m.map (fun l => List.range' d l.length)).getD [] = List.range' d (m.getD []).length := by
  cases m <;> simp

theorem range_two (d a b : Nat) : List.range' d a ++ List.range' (d + a) b = List.range' d (a + b) := by
  simp

/-- the dict references of an object whose two metadata tuples were just wrapped in fresh dicts -/
theorem dlocs_fresh {α β : Type} (o : Obj) (m1 : Option (List α)) (m2 : Option (List β)) (d : Nat)
    (h1 : o.omd = m1.map (fun l => List.range' d l.length))
    (h2 : o.smd = m2.map (fun l => List.range' (d + (m1.getD []).length) l.length)) :
    o.dlocs = List.range' d ((m1.getD []).length + (m2.getD []).length) := by
  unfold Obj.dlocs
  rw [h1, h2, fresh_getD, fresh_getD, range_two]

theorem sep_recast {h : Heap γ} (s : Sep h) (t : Nat) : Sep (h.recast t) := by
  unfold Heap.recast
  split
  · exact s
  · rename_i o ho
    unfold Sep at *
    simp only [List.length_append]
    have hd := dlocs_fresh
      { o with omd := (normMd (h.readMd o.omd)).map (fun l => List.range' h.dicts.length l.length),
               smd := (normMd (h.readMd o.smd)).map
                 (fun l => List.range' (h.dicts.length + ((normMd (h.readMd o.omd)).getD []).length) l.length) }
      (normMd (h.readMd o.omd)) (normMd (h.readMd o.smd)) h.dicts.length rfl rfl
    refine s.set (Nat.le_refl _) (Nat.le_refl _) (by omega) t o _ ho ⟨s.matB t o ho, Or.inl rfl⟩ ?_ ?_ ?_
    · intro ax'; exact s.idsB t o ho ax'
    · intro l hl
      rw [hd, List.mem_range'_1] at hl
      exact ⟨by omega, Or.inr hl.1⟩
    · rw [hd]; exact List.nodup_range'

theorem newEntries_length (ups : List (Option (Md → Md))) : (newEntries ups).length = ups.length := by
  simp [newEntries]

theorem sep_installFresh {h : Heap γ} (s : Sep h) (t : Nat) (o : Obj) (ho : h.objs[t]? = some o) (ax : Axis)
    (hnone : o.md ax = none) (cs : List Md) (n : Nat) (hn : n = cs.length) :
    Sep ({ h with dicts := h.dicts ++ cs,
                  objs := h.objs.set t (o.setMd ax (some (List.range' h.dicts.length n))) } : Heap γ) := by
  unfold Sep at *
  simp only [List.length_append]
  have hB := s.dictB t o ho
  have hN := s.dictN t o ho
  refine s.set (Nat.le_refl _) (Nat.le_refl _) (by omega) t o _ ho ⟨?_, Or.inl ?_⟩ ?_ ?_ ?_
  · cases ax <;> simpa [Obj.setMd] using s.matB t o ho
  · cases ax <;> simp [Obj.setMd]
  · intro ax'
    have := s.idsB t o ho ax'
    cases ax <;> cases ax' <;> simpa [Obj.setMd, Obj.idsLoc] using this
  · intro l hl
    cases ax
    · simp only [Obj.md] at hnone
      simp only [Obj.setMd, Obj.dlocs, Option.getD_some, List.mem_append, List.mem_range'_1] at hl
      rcases hl with hl | hl
      · exact ⟨by omega, Or.inr hl.1⟩
      · have : l ∈ o.dlocs := by simp [Obj.dlocs, hl]
        exact ⟨by have := hB l this; omega, Or.inl this⟩
    · simp only [Obj.md] at hnone
      simp only [Obj.setMd, Obj.dlocs, Option.getD_some, List.mem_append, List.mem_range'_1] at hl
      rcases hl with hl | hl
      · have : l ∈ o.dlocs := by simp [Obj.dlocs, hl]
        exact ⟨by have := hB l this; omega, Or.inl this⟩
      · exact ⟨by omega, Or.inr hl.1⟩
  · cases ax
    · simp only [Obj.md] at hnone
      simp only [Obj.dlocs, hnone, Option.getD_none, List.nil_append] at hN hB
      simp only [Obj.setMd, Obj.dlocs, Option.getD_some]
      rw [List.nodup_append]
      refine ⟨List.nodup_range', hN, ?_⟩
      intro a ha b hb
      rw [List.mem_range'_1] at ha
      have := hB b hb
      omega
    · simp only [Obj.md] at hnone
      simp only [Obj.dlocs, hnone, Option.getD_none, List.append_nil] at hN hB
      simp only [Obj.setMd, Obj.dlocs, Option.getD_some]
      rw [List.nodup_append]
      refine ⟨hN, List.nodup_range', ?_⟩
      intro a ha b hb
      rw [List.mem_range'_1] at hb
      have := hB a ha
      omega

theorem sep_addMd {h : Heap γ} (s : Sep h) (t ax) (ups : List (Option (Md → Md))) : Sep (h.addMd t ax ups) := by
  unfold Heap.addMd
  split
  · exact s
  · rename_i o ho
    split
    · exact sep_recast (sep_writeDicts s _) t
    · rename_i hnone
      split
      · exact sep_recast s t
      · exact sep_recast (sep_installFresh s t o ho ax hnone (newEntries ups) ups.length (newEntries_length ups).symm) t


theorem aliasLoc_lt {h : Heap γ} {src : IdSrc} {l : Nat} (e : h.aliasLoc src = some l) : l < h.ids.length := by
  unfold Heap.aliasLoc at e
  split at e
  · cases e
  · split at e
    · cases e; assumption
    · cases e
  · split at e
    · split at e
      · cases e; assumption
      · cases e
    · cases e

theorem sep_construct {h : Heap γ} (s : Sep h) (srcs F os ss) : Sep (h.construct srcs F os ss) := by
  unfold Heap.construct
  unfold Sep at *
  simp only []
  generalize F (srcs.filterMap h.abs) = c
  refine s.push (nm' := (h.mats ++ [c.mat]).length) (by simp) ?_ ?_ _ ⟨by simp, by simp⟩ ?_ ?_ ?_
  · cases h.aliasLoc os <;> cases h.aliasLoc ss <;> simp <;> omega
  · simp only [List.length_append]; omega
  · intro ax
    cases ax
    · simp only [Obj.idsLoc]
      cases e1 : h.aliasLoc os <;> cases e2 : h.aliasLoc ss <;> simp
      · have := aliasLoc_lt e1; omega
      · have := aliasLoc_lt e1; omega
    · simp only [Obj.idsLoc]
      cases e1 : h.aliasLoc os <;> cases e2 : h.aliasLoc ss <;> simp
      · have := aliasLoc_lt e2; omega
      · have := aliasLoc_lt e2; omega
  · intro l hl
    rw [dlocs_fresh _ (normMd c.omd) (normMd c.smd) h.dicts.length rfl rfl, List.mem_range'_1] at hl
    simp only [List.length_append]
    omega
  · rw [dlocs_fresh _ (normMd c.omd) (normMd c.smd) h.dicts.length rfl rfl]
    exact List.nodup_range'

theorem step_sep {h : Heap γ} (s : Sep h) (m : Micro γ) : Sep (step h m) := by
  cases m with
  | allocIds l => exact sep_allocIds s l
  | construct srcs F os ss => exact sep_construct s srcs F os ss
  | matKernel t ax g => exact sep_matKernel s t ax g
  | setIds t ax l => exact sep_setIds s t ax l
  | keepMd t ax mask => exact sep_keepMd s t ax mask
  | addMd t ax ups => exact sep_addMd s t ax ups
  | delMd t ax d => exact sep_delMd s t ax d
  | relayout t ax => exact sep_relayout s t ax

theorem run_sep {h : Heap γ} (s : Sep h) (ms : List (Micro γ)) : Sep (run h ms) := by
  induction ms generalizing h with
  | nil => exact s
  | cons m r ih => exact ih (step_sep s m)

theorem stepOp_sep {h : Heap γ} (s : Sep h) (op : Op γ) : Sep (stepOp h op) := run_sep s _

theorem runOps_sep {h : Heap γ} (s : Sep h) (ops : List (Op γ)) : Sep (runOps h ops) := by
  induction ops generalizing h with
  | nil => exact s
  | cons m r ih => exact ih (stepOp_sep s m)

theorem sep_empty : Sep (Heap.empty : Heap γ) := by
  unfold Sep Heap.empty
  constructor <;> simp


/-! ### what a step can change -/

theorem writeDicts_get_of_not_mem (h : Heap γ) (ws : List (Nat × Option (Md → Md))) (l : Nat)
    (hl : l ∉ ws.map (·.1)) : (h.writeDicts ws).dicts[l]? = h.dicts[l]? := by
  induction ws generalizing h with
  | nil => rfl
  | cons w r ih =>
    rcases w with ⟨l', _ | u⟩
    · simp only [Heap.writeDicts]
      exact ih h (fun hm => hl (by simp [hm]))
    · simp only [Heap.writeDicts]
      rw [ih _ (fun hm => hl (by simp [hm]))]
      have : l' ≠ l := fun e => hl (by simp [e])
      simp [this]

theorem recast_dicts_prefix (h : Heap γ) (t : Nat) : ∃ e, (h.recast t).dicts = h.dicts ++ e := by
  unfold Heap.recast
  split
  · exact ⟨[], by simp⟩
  · exact ⟨_, by simp only [List.append_assoc]; rfl⟩

theorem recast_mats (h : Heap γ) (t : Nat) : (h.recast t).mats = h.mats := by
  unfold Heap.recast; split <;> rfl
theorem recast_ids (h : Heap γ) (t : Nat) : (h.recast t).ids = h.ids := by
  unfold Heap.recast; split <;> rfl

/-- **ID arrays are never written**: every step only appends to the store of ID arrays. -/
theorem ids_prefix (h : Heap γ) (m : Micro γ) : ∃ e, (step h m).ids = h.ids ++ e := by
  cases m with
  | allocIds l => exact ⟨[l], rfl⟩
  | construct srcs F os ss =>
    simp only [step, Heap.construct]
    cases h.aliasLoc os <;> cases h.aliasLoc ss
    · exact ⟨_, List.append_assoc _ _ _⟩
    · exact ⟨_, rfl⟩
    · exact ⟨_, rfl⟩
    · exact ⟨[], by simp⟩
  | matKernel t ax g =>
    simp only [step, Heap.matKernel]
    split
    · exact ⟨[], by simp⟩
    · split <;> exact ⟨[], by simp⟩
  | setIds t ax l =>
    simp only [step, Heap.setIds]
    split
    · exact ⟨[], by simp⟩
    · exact ⟨[l], rfl⟩
  | keepMd t ax mask =>
    simp only [step, Heap.keepMd]
    split <;> exact ⟨[], by simp⟩
  | addMd t ax ups =>
    simp only [step, Heap.addMd]
    split
    · exact ⟨[], by simp⟩
    · split
      · exact ⟨[], by simp [recast_ids]⟩
      · split
        · exact ⟨[], by simp [recast_ids]⟩
        · exact ⟨[], by simp [recast_ids]⟩
  | delMd t ax d =>
    simp only [step, Heap.delMd]
    split
    · exact ⟨[], by simp⟩
    · split
      · exact ⟨[], by simp⟩
      · split
        · exact ⟨[], by simp⟩
        · split <;> exact ⟨[], by simp⟩
  | relayout t ax =>
    simp only [step, Heap.relayout]
    split
    · exact ⟨[], by simp⟩
    · split <;> exact ⟨[], by simp⟩

theorem ids_never_written (h : Heap γ) (m : Micro γ) (l : Nat) (hl : l < h.ids.length) :
    (step h m).ids[l]? = h.ids[l]? := by
  obtain ⟨e, he⟩ := ids_prefix h m
  rw [he, List.getElem?_append_left hl]

theorem run_ids_prefix (h : Heap γ) (ms : List (Micro γ)) : ∃ e, (run h ms).ids = h.ids ++ e := by
  induction ms generalizing h with
  | nil => exact ⟨[], by simp [run]⟩
  | cons m r ih =>
    obtain ⟨e1, h1⟩ := ids_prefix h m
    obtain ⟨e2, h2⟩ := ih (step h m)
    exact ⟨e1 ++ e2, by simp only [run, List.foldl_cons] at *; rw [h2, h1, List.append_assoc]⟩


theorem recast_dicts_get (h : Heap γ) (t l : Nat) (hl : l < h.dicts.length) :
    (h.recast t).dicts[l]? = h.dicts[l]? := by
  obtain ⟨e, he⟩ := recast_dicts_prefix h t
  rw [he, List.getElem?_append_left hl]

/-- a matrix buffer that is not in the write set of a step keeps its content -/
theorem mats_unwritten (h : Heap γ) (m : Micro γ) (l : Nat) (hl : l < h.mats.length)
    (hn : l ∉ (writes h m).1) : (step h m).mats[l]? = h.mats[l]? := by
  cases m with
  | allocIds _ => rfl
  | construct srcs F os ss => simp only [step, Heap.construct]; rw [List.getElem?_append_left hl]
  | matKernel t ax g =>
    simp only [step, Heap.matKernel, writes] at *
    split
    · rfl
    · rename_i o ho
      simp only [ho] at hn
      split
      · rename_i hf
        simp only [hf, if_true, List.mem_singleton] at hn
        have : o.mat ≠ l := fun e => hn e.symm
        simp [this]
      · simp only []; rw [List.getElem?_append_left hl]
  | setIds t ax l' => simp only [step, Heap.setIds]; split <;> rfl
  | keepMd t ax mask => simp only [step, Heap.keepMd]; split <;> rfl
  | addMd t ax ups =>
    simp only [step, Heap.addMd]
    split
    · rfl
    · split
      · simp [recast_mats]
      · split <;> simp [recast_mats]
  | delMd t ax d =>
    simp only [step, Heap.delMd]
    split
    · rfl
    · split
      · rfl
      · split
        · rfl
        · split <;> simp
  | relayout t ax =>
    simp only [step, Heap.relayout]
    split
    · rfl
    · split
      · rfl
      · simp only []; rw [List.getElem?_append_left hl]

/-- a dict that is not in the write set of a step keeps its content -/
theorem dicts_unwritten (h : Heap γ) (m : Micro γ) (l : Nat) (hl : l < h.dicts.length)
    (hn : l ∉ (writes h m).2) : (step h m).dicts[l]? = h.dicts[l]? := by
  cases m with
  | allocIds _ => rfl
  | construct srcs F os ss =>
    simp only [step, Heap.construct]
    rw [List.append_assoc, List.getElem?_append_left hl]
  | matKernel t ax g =>
    simp only [step, Heap.matKernel]
    split
    · rfl
    · split <;> rfl
  | setIds t ax l' => simp only [step, Heap.setIds]; split <;> rfl
  | keepMd t ax mask => simp only [step, Heap.keepMd]; split <;> rfl
  | addMd t ax ups =>
    simp only [step, Heap.addMd, writes] at *
    split
    · rfl
    · rename_i o ho
      simp only [ho] at hn
      split
      · rename_i locs hlocs
        simp only [hlocs, Option.getD_some] at hn
        rw [recast_dicts_get _ _ _ (by simpa using hl)]
        apply writeDicts_get_of_not_mem
        intro hm
        apply hn
        rw [List.mem_map] at hm
        obtain ⟨⟨a, b⟩, hab, rfl⟩ := hm
        exact (List.of_mem_zip hab).1
      · split
        · exact recast_dicts_get _ _ _ hl
        · rw [recast_dicts_get _ _ _ (by simp; omega)]
          simp only []
          rw [List.getElem?_append_left hl]
  | delMd t ax d =>
    simp only [step, Heap.delMd, writes] at *
    split
    · rfl
    · rename_i o ho
      simp only [ho] at hn
      split
      · rfl
      · rename_i f
        split
        · rfl
        · rename_i locs hlocs
          simp only [hlocs, Option.getD_some] at hn
          have : (h.writeDicts (locs.map (fun l => (l, some f)))).dicts[l]? = h.dicts[l]? := by
            apply writeDicts_get_of_not_mem
            simpa [List.map_map] using hn
          split <;> exact this
  | relayout t ax =>
    simp only [step, Heap.relayout]
    split
    · rfl
    · split <;> rfl

/-- **writes stay within the receiver**: whatever existing location a step writes belongs to the
table the step targets; a step without target (a constructor call) writes no existing location. -/
theorem writes_within_receiver (h : Heap γ) (m : Micro γ) :
    (∀ l ∈ (writes h m).1, ∃ t o, m.target = some t ∧ h.objs[t]? = some o ∧ o.mat = l) ∧
    (∀ l ∈ (writes h m).2, ∃ t o, m.target = some t ∧ h.objs[t]? = some o ∧ l ∈ o.dlocs) := by
  cases m with
  | allocIds _ => simp [writes]
  | construct srcs F os ss => simp [writes]
  | matKernel t ax g =>
    simp only [writes, Micro.target]
    cases ho : h.objs[t]? with
    | none => simp
    | some o =>
      by_cases hf : o.fmt = Fmt.ofAxis ax
      · simp [hf, ho]
      · simp [hf]
  | setIds t ax l' => simp [writes]
  | keepMd t ax mask => simp [writes]
  | addMd t ax ups =>
    simp only [writes, Micro.target]
    cases ho : h.objs[t]? with
    | none => simp
    | some o =>
      refine ⟨by simp, fun l hl => ⟨t, o, rfl, ho, ?_⟩⟩
      cases hm : o.md ax with
      | none => simp [hm] at hl
      | some ls => exact md_sub_dlocs o ax ls hm l (by simpa [hm] using hl)
  | delMd t ax d =>
    simp only [writes, Micro.target]
    cases ho : h.objs[t]? with
    | none => simp
    | some o =>
      cases d with
      | none => simp
      | some f =>
        refine ⟨by simp, fun l hl => ⟨t, o, rfl, ho, ?_⟩⟩
        cases hm : o.md ax with
        | none => simp [hm] at hl
        | some ls => exact md_sub_dlocs o ax ls hm l (by simpa [hm] using hl)
  | relayout t ax => simp [writes]

theorem writes_of_no_target (h : Heap γ) (m : Micro γ) (hm : m.target = none) : writes h m = ([], []) := by
  cases m <;> simp [Micro.target] at hm <;> rfl


theorem recast_objs_other (h : Heap γ) (t u : Nat) (hne : t ≠ u) : (h.recast t).objs[u]? = h.objs[u]? := by
  unfold Heap.recast
  split
  · rfl
  · simp [hne]

/-- a step leaves every table object other than its target as it is (the record of references) -/
theorem objs_frame (h : Heap γ) (m : Micro γ) (t : Nat) (o : Obj) (hne : m.target ≠ some t)
    (ho : h.objs[t]? = some o) : (step h m).objs[t]? = some o := by
  have hlt := getElem?_some_lt ho
  cases m with
  | allocIds _ => exact ho
  | construct srcs F os ss =>
    simp only [step, Heap.construct]; rw [List.getElem?_append_left hlt]; exact ho
  | matKernel t' ax g =>
    have hne' : t' ≠ t := fun e => hne (by simp [Micro.target, e])
    simp only [step, Heap.matKernel]
    split
    · exact ho
    · split
      · exact ho
      · simp [hne', ho]
  | setIds t' ax l' =>
    have hne' : t' ≠ t := fun e => hne (by simp [Micro.target, e])
    simp only [step, Heap.setIds]
    split
    · exact ho
    · simp [hne', ho]
  | keepMd t' ax mask =>
    have hne' : t' ≠ t := fun e => hne (by simp [Micro.target, e])
    simp only [step, Heap.keepMd]
    split
    · exact ho
    · simp [hne', ho]
  | addMd t' ax ups =>
    have hne' : t' ≠ t := fun e => hne (by simp [Micro.target, e])
    simp only [step, Heap.addMd]
    split
    · exact ho
    · split
      · rw [recast_objs_other _ _ _ hne']; simpa using ho
      · split
        · rw [recast_objs_other _ _ _ hne']; exact ho
        · rw [recast_objs_other _ _ _ hne']; simp [hne', ho]
  | delMd t' ax d =>
    have hne' : t' ≠ t := fun e => hne (by simp [Micro.target, e])
    simp only [step, Heap.delMd]
    split
    · exact ho
    · split
      · simp [hne', ho]
      · split
        · exact ho
        · split
          · simp [hne', ho]
          · simpa using ho
  | relayout t' ax =>
    have hne' : t' ≠ t := fun e => hne (by simp [Micro.target, e])
    simp only [step, Heap.relayout]
    split
    · exact ho
    · split
      · exact ho
      · simp [hne', ho]

theorem absObj_congr (h h' : Heap γ) (o : Obj)
    (hm : h'.mats[o.mat]? = h.mats[o.mat]?)
    (hi : ∀ ax, h'.ids[o.idsLoc ax]? = h.ids[o.idsLoc ax]?)
    (hd : ∀ l ∈ o.dlocs, h'.dicts[l]? = h.dicts[l]?) : h'.absObj o = h.absObj o := by
  have h1 := hi .obs
  have h2 := hi .samp
  simp only [Obj.idsLoc] at h1 h2
  have hd' : ∀ l ∈ o.dlocs, h'.dict l = h.dict l := fun l hl => by simp [Heap.dict, hd l hl]
  have e1 : h'.readMd o.omd = h.readMd o.omd := by
    cases hmd : o.omd with
    | none => rfl
    | some ls =>
      simp only [Heap.readMd, Option.map_some, Option.some.injEq]
      apply List.map_congr_left
      intro l hl
      exact hd' l (by simp [Obj.dlocs, hmd, hl])
  have e2 : h'.readMd o.smd = h.readMd o.smd := by
    cases hmd : o.smd with
    | none => rfl
    | some ls =>
      simp only [Heap.readMd, Option.map_some, Option.some.injEq]
      apply List.map_congr_left
      intro l hl
      exact hd' l (by simp [Obj.dlocs, hmd, hl])
  simp only [Heap.absObj, Heap.mat, Heap.idArr, hm, h1, h2, e1, e2]

/-- **frame**: a step does not change the abstract content (IDs, values, metadata, type) of any
live table other than the one it targets. -/
theorem frame {h : Heap γ} (s : Sep h) (m : Micro γ) (t : Nat) (hlt : t < h.objs.length)
    (hne : m.target ≠ some t) : (step h m).abs t = h.abs t := by
  obtain ⟨o, ho⟩ : ∃ o, h.objs[t]? = some o := ⟨h.objs[t], by simp [hlt]⟩
  have ho' := objs_frame h m t o hne ho
  simp only [Heap.abs, ho, ho', Option.map_some, Option.some.injEq]
  obtain ⟨wm, wd⟩ := writes_within_receiver h m
  apply absObj_congr
  · apply mats_unwritten _ _ _ (s.matB t o ho)
    intro hw
    obtain ⟨t', o', ht', ho'', e⟩ := wm _ hw
    have := s.matD t' t o' o ho'' ho e
    exact hne (this ▸ ht')
  · intro ax
    exact ids_never_written h m _ (s.idsB t o ho ax)
  · intro l hl
    apply dicts_unwritten _ _ _ (s.dictB t o ho l hl)
    intro hw
    obtain ⟨t', o', ht', ho'', e⟩ := wd _ hw
    have := s.dictD t' t o' o l ho'' ho e hl
    exact hne (this ▸ ht')

theorem step_objs_length_le (h : Heap γ) (m : Micro γ) : h.objs.length ≤ (step h m).objs.length := by
  cases m with
  | allocIds _ => exact Nat.le_refl _
  | construct srcs F os ss => simp [step, Heap.construct]
  | matKernel t ax g =>
    simp only [step, Heap.matKernel]
    split
    · exact Nat.le_refl _
    · split <;> simp
  | setIds t ax l' => simp only [step, Heap.setIds]; split <;> simp
  | keepMd t ax mask => simp only [step, Heap.keepMd]; split <;> simp
  | addMd t ax ups =>
    have hr : ∀ (h : Heap γ) t, (h.recast t).objs.length = h.objs.length := by
      intro h t; unfold Heap.recast; split <;> simp
    simp only [step, Heap.addMd]
    split
    · exact Nat.le_refl _
    · split
      · simp [hr]
      · split <;> simp [hr]
  | delMd t ax d =>
    simp only [step, Heap.delMd]
    split
    · exact Nat.le_refl _
    · split
      · simp
      · split
        · exact Nat.le_refl _
        · split <;> simp
  | relayout t ax =>
    simp only [step, Heap.relayout]
    split
    · exact Nat.le_refl _
    · split <;> simp

/-- **frame over operation sequences**: any run of steps none of which targets `t` leaves `t`
observably unchanged. -/
theorem run_frame {h : Heap γ} (s : Sep h) (ms : List (Micro γ)) (t : Nat) (hlt : t < h.objs.length)
    (hne : ∀ m ∈ ms, m.target ≠ some t) : (run h ms).abs t = h.abs t := by
  induction ms generalizing h with
  | nil => rfl
  | cons m r ih =>
    simp only [run, List.foldl_cons]
    have h1 := frame s m t hlt (hne m (by simp))
    have := ih (step_sep s m) (Nat.lt_of_lt_of_le hlt (step_objs_length_le h m)) (fun m' hm' => hne m' (by simp [hm']))
    simp only [run] at this
    rw [this, h1]


/-! ### what an in-place step does to the content of its target -/

theorem map_range_read {α : Type} (dflt : α) (ys : List α) : ∀ (pre post : List α),
    (List.range' pre.length ys.length).map (fun l => (pre ++ ys ++ post)[l]?.getD dflt) = ys := by
  induction ys with
  | nil => intro pre post; simp
  | cons y r ih =>
    intro pre post
    simp only [List.length_cons, List.range'_succ, List.map_cons]
    congr 1
    · simp
    · have := ih (pre ++ [y]) post
      simp only [List.length_append, List.length_singleton, List.append_assoc, List.singleton_append] at this
      simpa using this

theorem filterMask_map {α β : Type} (f : α → β) : ∀ (l : List α) (m : List Bool),
    (filterMask l m).map f = filterMask (l.map f) m
  | [], _ => by simp [filterMask]
  | _ :: _, [] => by simp [filterMask]
  | a :: as, b :: bs => by
    cases b <;> simp [filterMask, filterMask_map f as bs]

theorem dict_def (h : Heap γ) : h.dict = fun l => h.dicts[l]?.getD [] := rfl

theorem abs_matKernel {h : Heap γ} (s : Sep h) (t : Nat) (ax : Axis) (g : γ → γ) (o : Obj)
    (ho : h.objs[t]? = some o) :
    (h.matKernel t ax g).abs t = some { h.absObj o with mat := g (h.absObj o).mat } := by
  have hlt := getElem?_some_lt ho
  have hb := s.matB t o ho
  unfold Heap.matKernel
  simp only [ho]
  split
  · simp only [Heap.abs, ho, Option.map_some, Heap.absObj, Heap.mat, Heap.idArr, Heap.readMd, dict_def]
    simp [hb]
  · simp only [Heap.abs, Heap.absObj, Heap.mat, Heap.idArr, Heap.readMd, dict_def]
    simp [hlt, Heap.absObj, Heap.mat, Heap.idArr, Heap.readMd, dict_def]

theorem abs_relayout {h : Heap γ} (s : Sep h) (t : Nat) (ax : Axis) (o : Obj)
    (ho : h.objs[t]? = some o) : (h.relayout t ax).abs t = some (h.absObj o) := by
  have hlt := getElem?_some_lt ho
  have hb := s.matB t o ho
  unfold Heap.relayout
  simp only [ho]
  split
  · simp [Heap.abs, ho]
  · simp only [Heap.abs, Heap.absObj, Heap.mat, Heap.idArr, Heap.readMd, dict_def]
    simp [hlt, Heap.absObj, Heap.mat, Heap.idArr, Heap.readMd, dict_def]

theorem abs_setIds {h : Heap γ} (s : Sep h) (t : Nat) (ax : Axis) (l : List Id) (o : Obj)
    (ho : h.objs[t]? = some o) :
    (h.setIds t ax l).abs t = some ((h.absObj o).setIds ax l) := by
  have hlt := getElem?_some_lt ho
  have h1 := s.idsB t o ho .obs
  have h2 := s.idsB t o ho .samp
  simp only [Obj.idsLoc] at h1 h2
  unfold Heap.setIds
  simp only [ho]
  cases ax
  · simp only [Heap.abs, Heap.absObj, Heap.mat, Heap.idArr, Heap.readMd, dict_def, Obj.setIdsLoc, Content.setIds]
    simp [hlt, List.getElem?_append_left h2, Heap.absObj, Heap.mat, Heap.idArr, Heap.readMd, dict_def]
  · simp only [Heap.abs, Heap.absObj, Heap.mat, Heap.idArr, Heap.readMd, dict_def, Obj.setIdsLoc, Content.setIds]
    simp [hlt, List.getElem?_append_left h1, Heap.absObj, Heap.mat, Heap.idArr, Heap.readMd, dict_def]

theorem absObj_md (h : Heap γ) (o : Obj) (ax : Axis) : (h.absObj o).md ax = h.readMd (o.md ax) := by
  cases ax <;> rfl

theorem normMd_some_map (f : Nat → Md) (ls : List Nat) :
    normMd (some (ls.map f)) = if ls.all (fun l => (f l).isEmpty) then none else some (ls.map f) := by
  simp [normMd, List.all_map, Function.comp_def]

theorem abs_keepMd {h : Heap γ} (t : Nat) (ax : Axis) (mask : List Bool) (o : Obj)
    (ho : h.objs[t]? = some o) :
    (h.keepMd t ax mask).abs t =
      some ((h.absObj o).setMd ax (normMd (((h.absObj o).md ax).map (fun ms => filterMask ms mask)))) := by
  have hlt := getElem?_some_lt ho
  unfold Heap.keepMd
  simp only [ho, absObj_md]
  simp only [Heap.abs, List.getElem?_set, hlt, if_true, Option.map_some, Option.some.injEq]
  cases hm : o.md ax with
  | none =>
    simp only [Heap.readMd, Option.map_none, normMd]
    cases ax <;> simp only [Obj.md] at hm <;>
      simp [Obj.setMd, Content.setMd, Heap.absObj, Heap.readMd, Heap.mat, Heap.idArr, dict_def, hm]
  | some ls =>
    simp only [Heap.readMd, Option.map_some, ← filterMask_map, normMd_some_map]
    split
    · cases ax <;> simp only [Obj.md] at hm <;>
        simp [Obj.setMd, Content.setMd, Heap.absObj, Heap.readMd, Heap.mat, Heap.idArr, dict_def, hm]
    · cases ax <;> simp only [Obj.md] at hm <;>
        simp [Obj.setMd, Content.setMd, Heap.absObj, Heap.readMd, Heap.mat, Heap.idArr, dict_def, hm]

theorem writeDicts_dict_of_not_mem (h : Heap γ) (ws : List (Nat × Option (Md → Md))) (l : Nat)
    (hl : l ∉ ws.map (·.1)) : (h.writeDicts ws).dict l = h.dict l := by
  simp [Heap.dict, writeDicts_get_of_not_mem h ws l hl]

theorem not_mem_zip_fst {α β : Type} (l : α) (ls : List α) (us : List β) (h : l ∉ ls) :
    l ∉ (ls.zip us).map (·.1) := by
  intro hm
  rw [List.mem_map] at hm
  obtain ⟨⟨a, b⟩, hab, rfl⟩ := hm
  exact h (List.of_mem_zip hab).1

/-- a run of `dict.update`s over pairwise distinct dicts acts entry by entry -/
theorem writeDicts_zip (locs : List Nat) : ∀ (ups : List (Option (Md → Md))) (h : Heap γ), locs.Nodup →
    (∀ l ∈ locs, l < h.dicts.length) →
    locs.map (h.writeDicts (locs.zip ups)).dict = zipUpd (locs.map h.dict) ups := by
  induction locs with
  | nil => intro ups h _ _; cases ups <;> simp [zipUpd]
  | cons l ls ih =>
    intro ups h hn hb
    have hl : l ∉ ls := (List.nodup_cons.mp hn).1
    have hn' : ls.Nodup := (List.nodup_cons.mp hn).2
    cases ups with
    | nil => simp [zipUpd, Heap.writeDicts]
    | cons u us =>
      cases u with
      | none =>
        simp only [List.zip_cons_cons, Heap.writeDicts, List.map_cons, zipUpd]
        rw [writeDicts_dict_of_not_mem _ _ _ (not_mem_zip_fst l ls us hl)]
        rw [ih us h hn' (fun x hx => hb x (by simp [hx]))]
      | some f =>
        simp only [List.zip_cons_cons, Heap.writeDicts, List.map_cons, zipUpd]
        rw [writeDicts_dict_of_not_mem _ _ _ (not_mem_zip_fst l ls us hl)]
        have hlb : l < h.dicts.length := hb l (by simp)
        rw [ih us _ hn' (fun x hx => by simpa using hb x (by simp [hx]))]
        congr 1
        · simp [Heap.dict, hlb]
        · congr 1
          apply List.map_congr_left
          intro x hx
          have : l ≠ x := fun e => hl (e ▸ hx)
          simp [Heap.dict, this]

theorem fresh_read (pre ys post : List Md) (m : Option (List Md)) (hm : m.getD [] = ys) :
    (m.map (fun l => List.range' pre.length l.length)).map
      (fun x => x.map (fun l => (pre ++ ys ++ post)[l]?.getD [])) = m := by
  cases m with
  | none => rfl
  | some l =>
    simp only [Option.getD_some] at hm
    subst hm
    simp only [Option.map_some, Option.some.injEq]
    exact map_range_read [] l pre post

/-- `_cast_metadata` changes nothing but the normalisation of information-free tuples -/
theorem recast_abs {h : Heap γ} (t : Nat) : (h.recast t).abs t = (h.abs t).map Content.norm := by
  unfold Heap.recast
  cases ho : h.objs[t]? with
  | none => simp [Heap.abs, ho]
  | some o =>
    have hlt := getElem?_some_lt ho
    simp only [Heap.abs, ho, Option.map_some]
    simp only [List.getElem?_set, hlt, if_true, Option.map_some, Option.some.injEq]
    have e1 := fresh_read h.dicts ((normMd (h.readMd o.omd)).getD []) ((normMd (h.readMd o.smd)).getD [])
      (normMd (h.readMd o.omd)) rfl
    have e2 := fresh_read (h.dicts ++ (normMd (h.readMd o.omd)).getD []) ((normMd (h.readMd o.smd)).getD []) []
      (normMd (h.readMd o.smd)) rfl
    simp only [List.append_nil, List.length_append] at e2
    simp only [Heap.absObj, Content.norm, Heap.mat, Heap.idArr]
    congr 1

theorem absObj_writeDicts_axis {h : Heap γ} (s : Sep h) (t : Nat) (o : Obj) (ho : h.objs[t]? = some o)
    (ax : Axis) (locs : List Nat) (hm : o.md ax = some locs) (ups : List (Option (Md → Md))) :
    (h.writeDicts (locs.zip ups)).absObj o = (h.absObj o).setMd ax (some (zipUpd (locs.map h.dict) ups)) := by
  have hN := s.dictN t o ho
  have hB := s.dictB t o ho
  cases ax
  · simp only [Obj.md] at hm
    simp only [Obj.dlocs, hm, Option.getD_some, List.nodup_append] at hN
    have hB' : ∀ l ∈ locs, l < h.dicts.length := fun l hl => hB l (by simp [Obj.dlocs, hm, hl])
    have hz := writeDicts_zip locs ups h hN.1 hB'
    simp only [Heap.absObj, Heap.mat, Heap.idArr, writeDicts_mats, writeDicts_ids, Content.setMd, hm,
      Heap.readMd, Option.map_some, hz]
    congr 1
    cases hs : o.smd with
    | none => rfl
    | some ls =>
      simp only [Option.map_some, Option.some.injEq]
      apply List.map_congr_left
      intro x hx
      apply writeDicts_dict_of_not_mem
      apply not_mem_zip_fst
      intro hx'
      exact hN.2.2 x hx' x (by simp [hs, hx]) rfl
  · simp only [Obj.md] at hm
    simp only [Obj.dlocs, hm, Option.getD_some, List.nodup_append] at hN
    have hB' : ∀ l ∈ locs, l < h.dicts.length := fun l hl => hB l (by simp [Obj.dlocs, hm, hl])
    have hz := writeDicts_zip locs ups h hN.2.1 hB'
    simp only [Heap.absObj, Heap.mat, Heap.idArr, writeDicts_mats, writeDicts_ids, Content.setMd, hm,
      Heap.readMd, Option.map_some, hz]
    congr 1
    cases hs : o.omd with
    | none => rfl
    | some ls =>
      simp only [Option.map_some, Option.some.injEq]
      apply List.map_congr_left
      intro x hx
      apply writeDicts_dict_of_not_mem
      apply not_mem_zip_fst
      intro hx'
      exact hN.2.2 x (by simp [hs, hx]) x hx' rfl

theorem abs_of_objs_eq (h h' : Heap γ) (t : Nat) (o : Obj) (e : h'.objs = h.objs) (ho : h.objs[t]? = some o) :
    h'.abs t = some (h'.absObj o) := by
  simp [Heap.abs, e, ho]

theorem abs_installFresh {h : Heap γ} (s : Sep h) (t : Nat) (o : Obj) (ho : h.objs[t]? = some o) (ax : Axis)
    (hm : o.md ax = none) (cs : List Md) (n : Nat) (hn : n = cs.length) :
    ({ h with dicts := h.dicts ++ cs,
              objs := h.objs.set t (o.setMd ax (some (List.range' h.dicts.length n))) } : Heap γ).abs t =
      some ((h.absObj o).setMd ax (some cs)) := by
  have hlt := getElem?_some_lt ho
  subst hn
  simp only [Heap.abs, List.getElem?_set, hlt, if_true, Option.map_some, Option.some.injEq]
  have e : (List.range' h.dicts.length cs.length).map (fun l => (h.dicts ++ cs)[l]?.getD []) = cs := by
    have := map_range_read ([] : Md) cs h.dicts []
    simpa using this
  have hB := s.dictB t o ho
  cases ax
  · simp only [Obj.md] at hm
    simp only [Heap.absObj, Heap.mat, Heap.idArr, Heap.readMd, dict_def, Obj.setMd, Content.setMd,
      Option.map_some, e]
    congr 1
    cases hs : o.smd with
    | none => rfl
    | some ls =>
      simp only [Option.map_some, Option.some.injEq]
      apply List.map_congr_left
      intro x hx
      rw [List.getElem?_append_left (hB x (by simp [Obj.dlocs, hs, hx]))]
  · simp only [Obj.md] at hm
    simp only [Heap.absObj, Heap.mat, Heap.idArr, Heap.readMd, dict_def, Obj.setMd, Content.setMd,
      Option.map_some, e]
    congr 1
    cases hs : o.omd with
    | none => rfl
    | some ls =>
      simp only [Option.map_some, Option.some.injEq]
      apply List.map_congr_left
      intro x hx
      rw [List.getElem?_append_left (hB x (by simp [Obj.dlocs, hs, hx]))]

theorem abs_addMd {h : Heap γ} (s : Sep h) (t : Nat) (ax : Axis) (ups : List (Option (Md → Md))) (o : Obj)
    (ho : h.objs[t]? = some o) :
    (h.addMd t ax ups).abs t = some ((Micro.addMd t ax ups : Micro γ).absStep (h.absObj o)) := by
  unfold Heap.addMd
  simp only [ho, Micro.absStep, absObj_md]
  cases hm : o.md ax with
  | some locs =>
    simp only [Heap.readMd, Option.map_some]
    rw [recast_abs, abs_of_objs_eq h _ t o (writeDicts_objs _ _) ho, absObj_writeDicts_axis s t o ho ax locs hm]
    rfl
  | none =>
    simp only [Heap.readMd, Option.map_none]
    split
    · rw [recast_abs]; simp [Heap.abs, ho]
    · rw [recast_abs, abs_installFresh s t o ho ax hm (newEntries ups) ups.length (newEntries_length ups).symm]
      rfl

theorem map_pair_eq_zip (f : Md → Md) : ∀ locs : List Nat,
    locs.map (fun l => (l, some f)) = locs.zip (List.replicate locs.length (some f))
  | [] => rfl
  | l :: ls => by simp [List.replicate_succ, map_pair_eq_zip f ls]

theorem zipUpd_replicate (f : Md → Md) : ∀ ms : List Md, zipUpd ms (List.replicate ms.length (some f)) = ms.map f
  | [] => by simp [zipUpd]
  | m :: ms => by simp [List.replicate_succ, zipUpd, zipUpd_replicate f ms]

theorem setMd_setMd (c : Content γ) (ax : Axis) (a b : Option (List Md)) : (c.setMd ax a).setMd ax b = c.setMd ax b := by
  cases ax <;> rfl

theorem absObj_setMd_none (h : Heap γ) (o : Obj) (ax : Axis) : h.absObj (o.setMd ax none) = (h.absObj o).setMd ax none := by
  cases ax <;> rfl

theorem abs_delMd {h : Heap γ} (s : Sep h) (t : Nat) (ax : Axis) (d : Option (Md → Md)) (o : Obj)
    (ho : h.objs[t]? = some o) :
    (h.delMd t ax d).abs t = some ((Micro.delMd t ax d : Micro γ).absStep (h.absObj o)) := by
  have hlt := getElem?_some_lt ho
  unfold Heap.delMd
  simp only [ho, Micro.absStep, absObj_md]
  cases d with
  | none =>
    simp only [Heap.abs, List.getElem?_set, hlt, if_true, Option.map_some, Option.some.injEq]
    cases ax <;> rfl
  | some f =>
    simp only []
    cases hm : o.md ax with
    | none => simp [Heap.abs, ho, Heap.readMd]
    | some locs =>
      simp only [Heap.readMd, Option.map_some]
      have hz := absObj_writeDicts_axis s t o ho ax locs hm (List.replicate locs.length (some f))
      rw [← map_pair_eq_zip] at hz
      have hlen : locs.length = (locs.map h.dict).length := by simp
      rw [hlen, zipUpd_replicate] at hz
      have hcond : (locs.all fun l => ((h.writeDicts (locs.map fun l => (l, some f))).dict l).isEmpty) =
          ((locs.map h.dict).map f).all (·.isEmpty) := by
        have : locs.map (h.writeDicts (locs.map fun l => (l, some f))).dict = (locs.map h.dict).map f := by
          have h1 := congrArg (fun c => c.md ax) hz
          simp only [absObj_md, hm, Heap.readMd, Option.map_some] at h1
          cases ax <;> simpa [Content.setMd, Content.md] using h1
        rw [← this, List.all_map]
        rfl
      rw [hcond]
      split
      · simp only [Heap.abs, writeDicts_objs, List.getElem?_set, hlt, if_true, Option.map_some, Option.some.injEq]
        have : ({ mats := (h.writeDicts (locs.map fun l => (l, some f))).mats,
                  ids := (h.writeDicts (locs.map fun l => (l, some f))).ids,
                  dicts := (h.writeDicts (locs.map fun l => (l, some f))).dicts,
                  objs := h.objs.set t (o.setMd ax none) } : Heap γ).absObj (o.setMd ax none)
              = (h.writeDicts (locs.map fun l => (l, some f))).absObj (o.setMd ax none) := rfl
        rw [this, absObj_setMd_none, hz, setMd_setMd]
      · rw [abs_of_objs_eq h _ t o (writeDicts_objs _ _) ho, hz]

/-- **the effect of an in-place step on its target is a function of the target's content alone**
(whatever the layout, whatever the history, whoever else shares its ID arrays). -/
theorem inplace_abs {h : Heap γ} (s : Sep h) (m : Micro γ) (t : Nat) (o : Obj)
    (hm : m.target = some t) (ho : h.objs[t]? = some o) :
    (step h m).abs t = some (m.absStep (h.absObj o)) := by
  cases m with
  | allocIds _ => simp [Micro.target] at hm
  | construct srcs F os ss => simp [Micro.target] at hm
  | matKernel t' ax g =>
    simp only [Micro.target, Option.some.injEq] at hm; subst hm
    exact abs_matKernel s _ ax g o ho
  | setIds t' ax l =>
    simp only [Micro.target, Option.some.injEq] at hm; subst hm
    exact abs_setIds s _ ax l o ho
  | keepMd t' ax mask =>
    simp only [Micro.target, Option.some.injEq] at hm; subst hm
    exact abs_keepMd _ ax mask o ho
  | addMd t' ax ups =>
    simp only [Micro.target, Option.some.injEq] at hm; subst hm
    exact abs_addMd s _ ax ups o ho
  | delMd t' ax d =>
    simp only [Micro.target, Option.some.injEq] at hm; subst hm
    exact abs_delMd s _ ax d o ho
  | relayout t' ax =>
    simp only [Micro.target, Option.some.injEq] at hm; subst hm
    exact abs_relayout s _ ax o ho

/-- **frame, including the read accessors that cache a layout conversion**: a step changes the
content of no table other than its target, and a quiet step (re-layout) of none at all. -/
theorem frame_quiet {h : Heap γ} (s : Sep h) (m : Micro γ) (t : Nat) (hlt : t < h.objs.length)
    (hq : m.target ≠ some t ∨ m.quiet = true) : (step h m).abs t = h.abs t := by
  by_cases hne : m.target = some t
  · rcases hq with hq | hq
    · exact absurd hne hq
    · obtain ⟨o, ho⟩ : ∃ o, h.objs[t]? = some o := ⟨h.objs[t], by simp [hlt]⟩
      rw [inplace_abs s m t o hne ho]
      cases m <;> simp [Micro.quiet] at hq
      simp [Micro.absStep, Heap.abs, ho]
  · exact frame s m t hlt hne

theorem run_frame_quiet {h : Heap γ} (s : Sep h) (ms : List (Micro γ)) (t : Nat) (hlt : t < h.objs.length)
    (hq : ∀ m ∈ ms, m.target ≠ some t ∨ m.quiet = true) : (run h ms).abs t = h.abs t := by
  induction ms generalizing h with
  | nil => rfl
  | cons m r ih =>
    simp only [run, List.foldl_cons]
    have h1 := frame_quiet s m t hlt (hq m (by simp))
    have := ih (step_sep s m) (Nat.lt_of_lt_of_le hlt (step_objs_length_le h m)) (fun m' hm' => hq m' (by simp [hm']))
    simp only [run] at this
    rw [this, h1]


/-! ### runs of in-place steps on one target -/

theorem abs_some_obj {h : Heap γ} {t : Nat} {c : Content γ} (e : h.abs t = some c) :
    ∃ o, h.objs[t]? = some o ∧ h.absObj o = c := by
  unfold Heap.abs at e
  cases ho : h.objs[t]? with
  | none => simp [ho] at e
  | some o => exact ⟨o, rfl, by simpa [ho] using e⟩

theorem run_inplace_abs {h : Heap γ} (s : Sep h) (ms : List (Micro γ)) (t : Nat) (o : Obj)
    (hm : ∀ m ∈ ms, m.target = some t) (ho : h.objs[t]? = some o) :
    (run h ms).abs t = some (absRun ms (h.absObj o)) := by
  induction ms generalizing h o with
  | nil => simp [run, absRun, Heap.abs, ho]
  | cons m r ih =>
    have h1 := inplace_abs s m t o (hm m (by simp)) ho
    obtain ⟨o', ho', e⟩ := abs_some_obj h1
    have := ih (step_sep s m) o' (fun m' hm' => hm m' (by simp [hm'])) ho'
    simp only [run, absRun, List.foldl_cons] at this ⊢
    rw [this, e]

theorem bodiesMicro_target (t : Nat) (bs : List (Body γ)) : ∀ m ∈ bodiesMicro t bs, m.target = some t := by
  intro m hm
  simp only [bodiesMicro, List.mem_flatMap] at hm
  obtain ⟨b, _, hb⟩ := hm
  cases b <;> simp [Body.micro] at hb <;> (try rcases hb with rfl | rfl | rfl) <;> (try subst hb) <;> rfl

theorem absRun_target_irrel (t t' : Nat) (bs : List (Body γ)) (c : Content γ) :
    absRun (bodiesMicro t bs) c = absRun (bodiesMicro t' bs) c := by
  induction bs generalizing c with
  | nil => rfl
  | cons b r ih =>
    simp only [bodiesMicro, List.flatMap_cons, absRun, List.foldl_append] at ih ⊢
    have : (Body.micro t b).foldl (fun c m => m.absStep c) c = (Body.micro t' b).foldl (fun c m => m.absStep c) c := by
      cases b <;> simp [Body.micro, Micro.absStep]
    rw [this]
    exact ih _

/-! ### the constructor -/

/-- content of the table a constructor call builds -/
def builtContent (h : Heap γ) (c : Content γ) (os ss : IdSrc) : Content γ :=
  { obs := match h.aliasLoc os with | some l => h.idArr l | none => c.obs,
    samp := match h.aliasLoc ss with | some l => h.idArr l | none => c.samp,
    mat := c.mat, omd := normMd c.omd, smd := normMd c.smd, ttype := c.ttype }

theorem abs_construct (h : Heap γ) (srcs : List Nat) (F : List (Content γ) → Content γ) (os ss : IdSrc) :
    (h.construct srcs F os ss).abs h.objs.length =
      some (builtContent h (F (srcs.filterMap h.abs)) os ss) := by
  unfold Heap.construct
  simp only []
  generalize F (srcs.filterMap h.abs) = c
  simp only [Heap.abs, List.getElem?_append_right (Nat.le_refl _), Nat.sub_self, List.getElem?_cons_zero,
    Option.map_some, Option.some.injEq]
  have e1 := fresh_read h.dicts ((normMd c.omd).getD []) ((normMd c.smd).getD []) (normMd c.omd) rfl
  have e2 := fresh_read (h.dicts ++ (normMd c.omd).getD []) ((normMd c.smd).getD []) [] (normMd c.smd) rfl
  simp only [List.append_nil, List.length_append] at e2
  simp only [Heap.absObj, builtContent, Heap.mat, Heap.idArr, Heap.readMd, dict_def, e1, e2]
  congr 1
  · cases a1 : h.aliasLoc os <;> cases a2 : h.aliasLoc ss <;> simp
    · have := aliasLoc_lt a1
      simp [List.getElem?_append_left this]
  · cases a1 : h.aliasLoc os <;> cases a2 : h.aliasLoc ss <;> simp
    · have := aliasLoc_lt a2
      simp [List.getElem?_append_left this]
  · simp

/-! ### no table ever holds an information-free metadata tuple -/

theorem normMd_idem (m : Option (List Md)) : normMd (normMd m) = normMd m := by
  cases m with
  | none => rfl
  | some l =>
    by_cases h : l.all (·.isEmpty) = true
    · simp [normMd, h]
    · simp [normMd, h]

theorem mdNormal_iff (c : Content γ) : c.mdNormal = true ↔ normMd c.omd = c.omd ∧ normMd c.smd = c.smd := by
  simp [Content.mdNormal]

theorem norm_mdNormal (c : Content γ) : c.norm.mdNormal = true := by
  rw [mdNormal_iff]; exact ⟨normMd_idem _, normMd_idem _⟩

theorem setMd_normal (c : Content γ) (ax : Axis) (m : Option (List Md)) (hc : c.mdNormal = true)
    (hm : normMd m = m) : (c.setMd ax m).mdNormal = true := by
  rw [mdNormal_iff] at *
  cases ax
  · exact ⟨hm, hc.2⟩
  · exact ⟨hc.1, hm⟩

/-- every in-place step keeps the content free of information-free metadata tuples -/
theorem absStep_normal (m : Micro γ) (c : Content γ) (hc : c.mdNormal = true) : (m.absStep c).mdNormal = true := by
  cases m with
  | allocIds _ => exact hc
  | construct _ _ _ _ => exact hc
  | relayout _ _ => exact hc
  | matKernel t ax g => rw [mdNormal_iff] at *; exact hc
  | setIds t ax l => rw [mdNormal_iff] at *; cases ax <;> exact hc
  | keepMd t ax mask => exact setMd_normal c ax _ hc (normMd_idem _)
  | addMd t ax ups => exact norm_mdNormal _
  | delMd t ax d =>
    simp only [Micro.absStep]
    cases d with
    | none => exact setMd_normal c ax none hc rfl
    | some f =>
      simp only []
      cases hm : c.md ax with
      | none => exact hc
      | some ms =>
        simp only []
        split
        · exact setMd_normal c ax none hc rfl
        · rename_i hne
          exact setMd_normal c ax _ hc (by simp [normMd, hne])

/-- the invariant: every live table's content is free of information-free metadata tuples -/
def Normal (h : Heap γ) : Prop := ∀ (t : Nat) (o : Obj), h.objs[t]? = some o → (h.absObj o).mdNormal = true

theorem step_objs_bound (h : Heap γ) (m : Micro γ) (u : Nat) (hu : u < (step h m).objs.length) :
    u < h.objs.length ∨ (u = h.objs.length ∧ ∃ srcs F os ss, m = .construct srcs F os ss) := by
  cases m with
  | construct srcs F os ss =>
    simp only [step, Heap.construct, List.length_append, List.length_singleton] at hu
    rcases Nat.lt_or_ge u h.objs.length with h1 | h1
    · exact Or.inl h1
    · exact Or.inr ⟨by omega, _, _, _, _, rfl⟩
  | allocIds _ => exact Or.inl hu
  | matKernel t ax g =>
    left
    simp only [step, Heap.matKernel] at hu
    split at hu
    · exact hu
    · split at hu <;> simpa using hu
  | relayout t ax =>
    left
    simp only [step, Heap.relayout] at hu
    split at hu
    · exact hu
    · split at hu <;> simpa using hu
  | setIds t ax l' => left; simp only [step, Heap.setIds] at hu; split at hu <;> simpa using hu
  | keepMd t ax mask => left; simp only [step, Heap.keepMd] at hu; split at hu <;> simpa using hu
  | addMd t ax ups =>
    left
    have hr : ∀ (h : Heap γ) t, (h.recast t).objs.length = h.objs.length := by
      intro h t; unfold Heap.recast; split <;> simp
    simp only [step, Heap.addMd] at hu
    split at hu
    · exact hu
    · split at hu
      · simpa [hr] using hu
      · split at hu <;> simpa [hr] using hu
  | delMd t ax d =>
    left
    simp only [step, Heap.delMd] at hu
    split at hu
    · exact hu
    · split at hu
      · simpa using hu
      · split at hu
        · exact hu
        · split at hu <;> simpa using hu

theorem builtContent_normal (h : Heap γ) (c : Content γ) (os ss : IdSrc) : (builtContent h c os ss).mdNormal = true := by
  rw [mdNormal_iff]; exact ⟨normMd_idem _, normMd_idem _⟩

theorem step_normal {h : Heap γ} (s : Sep h) (hn : Normal h) (m : Micro γ) : Normal (step h m) := by
  intro u o' ho'
  have hu := getElem?_some_lt ho'
  have habs : (step h m).abs u = some ((step h m).absObj o') := by simp [Heap.abs, ho']
  rcases step_objs_bound h m u hu with hlt | ⟨rfl, srcs, F, os, ss, rfl⟩
  · obtain ⟨o, ho⟩ : ∃ o, h.objs[u]? = some o := ⟨h.objs[u], by simp [hlt]⟩
    by_cases ht : m.target = some u
    · rw [inplace_abs s m u o ht ho] at habs
      rw [← Option.some.inj habs]
      exact absStep_normal m _ (hn u o ho)
    · rw [frame s m u hlt ht] at habs
      simp only [Heap.abs, ho, Option.map_some, Option.some.injEq] at habs
      rw [← habs]; exact hn u o ho
  · simp only [step] at habs ⊢
    rw [abs_construct] at habs
    rw [← Option.some.inj habs]
    exact builtContent_normal _ _ _ _

theorem run_normal {h : Heap γ} (s : Sep h) (hn : Normal h) (ms : List (Micro γ)) : Normal (run h ms) := by
  induction ms generalizing h with
  | nil => exact hn
  | cons m r ih => exact ih (step_sep s m) (step_normal s hn m)

theorem normal_empty : Normal (Heap.empty : Heap γ) := by
  intro t o ho; simp [Heap.empty] at ho

end Biom.C07
