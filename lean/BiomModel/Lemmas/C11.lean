/-
  C11 — helper lemmas: positional operations (`filterMask`, parallel lists) versus lookups by ID.
-/
import BiomModel.C11

namespace Biom.C11

variable {α β γ δ : Type}

/-! ### `filterMask` and `lookupBy` -/

theorem filterMask_nil_left (m : List Bool) : filterMask ([] : List β) m = [] := by
  cases m <;> rfl

theorem filterMask_nil_right (xs : List β) : filterMask xs [] = [] := by
  cases xs <;> rfl

theorem filterMask_cons (x : β) (xs : List β) (b : Bool) (bs : List Bool) :
    filterMask (x :: xs) (b :: bs) = if b then x :: filterMask xs bs else filterMask xs bs := rfl

theorem filterMask_map (f : β → γ) (xs : List β) (m : List Bool) :
    (filterMask xs m).map f = filterMask (xs.map f) m := by
  induction xs generalizing m with
  | nil => simp [filterMask_nil_left]
  | cons x xs ih =>
    cases m with
    | nil => simp [filterMask_nil_right]
    | cons b bs =>
      simp only [List.map_cons, filterMask_cons]
      split <;> simp [ih]

theorem mem_of_mem_filterMask {x : β} {xs : List β} {m : List Bool} (h : x ∈ filterMask xs m) : x ∈ xs := by
  induction xs generalizing m with
  | nil => simp [filterMask_nil_left] at h
  | cons y ys ih =>
    cases m with
    | nil => simp [filterMask_nil_right] at h
    | cons b bs =>
      rw [filterMask_cons] at h
      split at h
      · rcases List.mem_cons.mp h with h | h
        · exact h ▸ List.mem_cons_self
        · exact List.mem_cons_of_mem _ (ih h)
      · exact List.mem_cons_of_mem _ (ih h)

theorem filterMask_sublist (xs : List β) (m : List Bool) : (filterMask xs m).Sublist xs := by
  induction xs generalizing m with
  | nil => simp [filterMask_nil_left]
  | cons y ys ih =>
    cases m with
    | nil => simp [filterMask_nil_right]
    | cons b bs =>
      rw [filterMask_cons]
      split
      · exact (ih bs).cons_cons y
      · exact (ih bs).cons y

theorem nodup_filterMask {xs : List β} (h : xs.Nodup) (m : List Bool) : (filterMask xs m).Nodup :=
  List.Pairwise.sublist (filterMask_sublist xs m) h

theorem filterMask_length_eq (xs : List β) (ys : List γ) (m : List Bool) (h : xs.length = ys.length) :
    (filterMask xs m).length = (filterMask ys m).length := by
  induction xs generalizing ys m with
  | nil =>
    cases ys with
    | nil => simp [filterMask_nil_left]
    | cons y ys => simp at h
  | cons x xs ih =>
    cases ys with
    | nil => simp at h
    | cons y ys =>
      cases m with
      | nil => simp [filterMask_nil_right]
      | cons b bs =>
        simp only [filterMask_cons]
        have := ih ys bs (by simpa using h)
        split <;> simp [this]

theorem lookupBy_nil_left (xs : List β) (id : Id) : lookupBy [] xs id = none := by
  cases xs <;> rfl

theorem lookupBy_nil_right (ids : List Id) (id : Id) : lookupBy ids ([] : List β) id = none := by
  cases ids <;> rfl

theorem lookupBy_cons (i : Id) (is : List Id) (x : β) (xs : List β) (id : Id) :
    lookupBy (i :: is) (x :: xs) id = if i = id then some x else lookupBy is xs id := rfl

theorem lookupBy_cons_ne {i : Id} {is : List Id} {x : β} {xs : List β} {id : Id} (h : i ≠ id) :
    lookupBy (i :: is) (x :: xs) id = lookupBy is xs id := by
  rw [lookupBy_cons, if_neg h]

theorem lookupBy_map (f : β → γ) (ids : List Id) (xs : List β) (id : Id) :
    lookupBy ids (xs.map f) id = (lookupBy ids xs id).map f := by
  induction ids generalizing xs with
  | nil => simp [lookupBy_nil_left]
  | cons i is ih =>
    cases xs with
    | nil => simp [lookupBy_nil_right]
    | cons x xs =>
      simp only [List.map_cons, lookupBy_cons]
      split
      · rfl
      · exact ih xs

theorem lookupBy_mem {ids : List Id} {xs : List β} {id : Id} {x : β} (h : lookupBy ids xs id = some x) :
    id ∈ ids ∧ x ∈ xs := by
  induction ids generalizing xs with
  | nil => simp [lookupBy_nil_left] at h
  | cons i is ih =>
    cases xs with
    | nil => simp [lookupBy_nil_right] at h
    | cons y ys =>
      rw [lookupBy_cons] at h
      split at h
      · rename_i he
        cases h
        exact ⟨he ▸ List.mem_cons_self, List.mem_cons_self⟩
      · have := ih h
        exact ⟨List.mem_cons_of_mem _ this.1, List.mem_cons_of_mem _ this.2⟩

theorem lookupBy_isSome {ids : List Id} {xs : List β} {id : Id} (hm : id ∈ ids) (hl : ids.length ≤ xs.length) :
    ∃ x, lookupBy ids xs id = some x := by
  induction ids generalizing xs with
  | nil => cases hm
  | cons i is ih =>
    cases xs with
    | nil => simp at hl
    | cons y ys =>
      rw [lookupBy_cons]
      by_cases he : i = id
      · exact ⟨y, by simp [he]⟩
      · rw [if_neg he]
        rcases List.mem_cons.mp hm with h | h
        · exact absurd h.symm he
        · exact ih h (by simpa using hl)

/-- looking an ID up in the kept part gives what it gave in the whole (IDs distinct) -/
theorem lookupBy_filterMask {ids : List Id} (hn : ids.Nodup) (xs : List β) (m : List Bool) {id : Id}
    (hm : id ∈ filterMask ids m) :
    lookupBy (filterMask ids m) (filterMask xs m) id = lookupBy ids xs id := by
  induction ids generalizing xs m with
  | nil => simp [filterMask_nil_left] at hm
  | cons i is ih =>
    have hn' := List.nodup_cons.mp hn
    cases m with
    | nil => simp [filterMask_nil_right] at hm
    | cons b bs =>
      cases xs with
      | nil =>
        simp [filterMask_nil_left, lookupBy_nil_right]
      | cons x xs =>
        rw [filterMask_cons] at hm
        simp only [filterMask_cons]
        cases b with
        | true =>
          simp only [if_true] at hm ⊢
          rw [lookupBy_cons, lookupBy_cons]
          by_cases he : i = id
          · simp [he]
          · rw [if_neg he, if_neg he]
            rcases List.mem_cons.mp hm with h | h
            · exact absurd h.symm he
            · exact ih hn'.2 xs bs h
        | false =>
          simp only [Bool.false_eq_true, if_false] at hm ⊢
          have hne : i ≠ id := fun e => hn'.1 (e ▸ mem_of_mem_filterMask hm)
          rw [lookupBy_cons_ne hne]
          exact ih hn'.2 xs bs hm

/-- a positional mask is the same as a filter by a looked-up bit (IDs distinct) -/
theorem filterMask_eq_filter {ids : List Id} (hn : ids.Nodup) (m : List Bool) :
    filterMask ids m = ids.filter (fun id => lookupBy ids m id == some true) := by
  induction ids generalizing m with
  | nil => simp [filterMask_nil_left]
  | cons i is ih =>
    have hn' := List.nodup_cons.mp hn
    cases m with
    | nil => simp [filterMask_nil_right, lookupBy_nil_right]
    | cons b bs =>
      rw [filterMask_cons, List.filter_cons]
      have htail : is.filter (fun id => lookupBy (i :: is) (b :: bs) id == some true) =
          is.filter (fun id => lookupBy is bs id == some true) := by
        apply List.filter_congr
        intro id hid
        have hne : i ≠ id := fun e => hn'.1 (e ▸ hid)
        rw [lookupBy_cons_ne hne]
      rw [htail, ← ih hn'.2 bs]
      cases b <;> simp [lookupBy_cons]

theorem mem_filterMask_iff {ids : List Id} (hn : ids.Nodup) (m : List Bool) (id : Id) :
    id ∈ filterMask ids m ↔ (id ∈ ids ∧ lookupBy ids m id = some true) := by
  rw [filterMask_eq_filter hn, List.mem_filter]
  simp

/-- parallel lists read position by position = read by ID (IDs distinct) -/
theorem zip_map_eq_ids_map {ids : List Id} (hn : ids.Nodup) (xs : List β) (ys : List γ) {δ : Type}
    (G : Option β → Option γ → δ) (hx : xs.length = ids.length) (hy : ys.length = ids.length) :
    (xs.zip ys).map (fun p => G (some p.1) (some p.2)) =
      ids.map (fun id => G (lookupBy ids xs id) (lookupBy ids ys id)) := by
  induction ids generalizing xs ys with
  | nil =>
    cases xs with
    | nil => simp
    | cons x xs => simp at hx
  | cons i is ih =>
    have hn' := List.nodup_cons.mp hn
    cases xs with
    | nil => simp at hx
    | cons x xs =>
      cases ys with
      | nil => simp at hy
      | cons y ys =>
        simp only [List.zip_cons_cons, List.map_cons, lookupBy_cons, if_true]
        congr 1
        rw [ih hn'.2 xs ys (by simpa using hx) (by simpa using hy)]
        apply List.map_congr_left
        intro id hid
        have hne : i ≠ id := fun e => hn'.1 (e ▸ hid)
        simp [hne]

theorem zip_self_map (f : β → γ) (xs : List β) : (xs.zip xs).map (fun p => f p.1) = xs.map f := by
  induction xs with
  | nil => rfl
  | cons x xs ih => simp [List.zip_cons_cons, ih]

theorem map_lookupBy_self {ids : List Id} (hn : ids.Nodup) (xs : List β) (hx : xs.length = ids.length) :
    ids.map (lookupBy ids xs) = xs.map some := by
  have := zip_map_eq_ids_map hn xs xs (fun a _ => a) hx hx
  rw [← this]
  exact zip_self_map some xs

theorem lookupBy_zipWith (f : β → γ → δ) (ids : List Id) (a : List β) (b : List γ) (id : Id) :
    lookupBy ids (List.zipWith f a b) id =
      (lookupBy ids a id).bind (fun x => (lookupBy ids b id).map (f x)) := by
  induction ids generalizing a b with
  | nil => simp [lookupBy_nil_left]
  | cons i is ih =>
    cases a with
    | nil => simp [lookupBy_nil_right]
    | cons x xs =>
      cases b with
      | nil => simp [lookupBy_nil_right]
      | cons y ys =>
        simp only [List.zipWith_cons_cons, lookupBy_cons]
        split
        · rfl
        · exact ih xs ys

theorem lookupBy_replicate {ids : List Id} {id : Id} (hm : id ∈ ids) (n : Nat) (hl : ids.length ≤ n) (v : β) :
    lookupBy ids (List.replicate n v) id = some v := by
  induction ids generalizing n with
  | nil => cases hm
  | cons i is ih =>
    cases n with
    | zero => simp at hl
    | succ n =>
      rw [List.replicate_succ, lookupBy_cons]
      by_cases he : i = id
      · simp [he]
      · rw [if_neg he]
        rcases List.mem_cons.mp hm with h | h
        · exact absurd h.symm he
        · exact ih h n (by simpa using hl)

/-- in a list of distinct keys, the entry computed for a key is found under that key -/
theorem lookupBy_map_map {κ : Type} (f : κ → Id) (g : κ → β) (l : List κ) (hn : (l.map f).Nodup) {k : κ}
    (hk : k ∈ l) : lookupBy (l.map f) (l.map g) (f k) = some (g k) := by
  induction l with
  | nil => cases hk
  | cons a as ih =>
    simp only [List.map_cons] at hn ⊢
    have hn' := List.nodup_cons.mp hn
    rw [lookupBy_cons]
    rcases List.mem_cons.mp hk with h | h
    · simp [h]
    · have hne : f a ≠ f k := fun e => hn'.1 (e ▸ List.mem_map_of_mem h)
      rw [if_neg hne]
      exact ih hn'.2 h

/-! ### first occurrences -/

theorem mem_firsts {κ : Type} [DecidableEq κ] (l : List κ) (x : κ) : x ∈ firsts l ↔ x ∈ l := by
  induction l with
  | nil => simp [firsts]
  | cons a as ih =>
    simp only [firsts, List.mem_cons, List.mem_filter, ih, decide_eq_true_eq]
    constructor
    · rintro (h | ⟨h, _⟩)
      · exact Or.inl h
      · exact Or.inr h
    · rintro (h | h)
      · exact Or.inl h
      · by_cases he : x = a
        · exact Or.inl he
        · exact Or.inr ⟨h, he⟩

theorem nodup_firsts {κ : Type} [DecidableEq κ] (l : List κ) : (firsts l).Nodup := by
  induction l with
  | nil => simp [firsts]
  | cons a as ih =>
    simp only [firsts, List.nodup_cons, List.mem_filter, decide_eq_true_eq]
    refine ⟨fun h => h.2 rfl, ?_⟩
    exact List.Pairwise.sublist List.filter_sublist ih

theorem filterMap_id_map_some (l : List β) : (l.map some).filterMap id = l := by
  induction l with
  | nil => rfl
  | cons a as ih => simp [ih]

/-! ### tables -/

theorem wfb_iff (t : Table α) : t.wfb = true ↔ t.WF := by
  unfold Table.wfb Table.WF
  cases ho : t.omd <;> cases hs : t.smd <;>
    simp [Bool.and_eq_true, List.all_eq_true, and_assoc]

/-- the domain of the theorems: well-formed shape and distinct IDs on both axes -/
structure TableOk (t : Table α) : Prop where
  wf : t.WF
  obsNodup : t.obs.Nodup
  sampNodup : t.samp.Nodup

theorem Clauses.ok_append (a b : Clauses) : Clauses.ok (a ++ b) = (a.ok && b.ok) := by
  simp [Clauses.ok, List.all_append]

theorem Clauses.ok_iff (c : Clauses) : c.ok = true ↔ ∀ p ∈ c, p.2 = true := by
  simp [Clauses.ok, List.all_eq_true]

/-! ### partition -/

theorem sel_obs_eq_members {κ : Type} [DecidableEq κ] (t : Table α) (hn : t.obs.Nodup) (ks : List (Option κ)) (k : κ) :
    (sel t (maskOf ks k)).obs = members t.obs ks k := by
  show filterMask t.obs (maskOf ks k) = _
  rw [filterMask_eq_filter hn, members]
  apply List.filter_congr
  intro id _
  rw [maskOf, lookupBy_map]
  cases lookupBy t.obs ks id <;> simp

theorem sel_wf (t : Table α) (h : t.WF) (m : List Bool) : (sel t m).WF := by
  obtain ⟨h1, h2, h3, h4⟩ := h
  refine ⟨?_, ?_, ?_, ?_⟩
  · exact filterMask_length_eq _ _ _ h1
  · intro r hr
    exact h2 r (mem_of_mem_filterMask hr)
  · intro md hmd
    simp only [sel] at hmd
    cases ho : t.omd with
    | none => simp [ho] at hmd
    | some md0 =>
      simp only [ho, Option.map_some, Option.some.injEq] at hmd
      subst hmd
      exact filterMask_length_eq _ _ _ (h3 md0 ho)
  · exact h4

theorem sel_row (t : Table α) (hn : t.obs.Nodup) (m : List Bool) {id : Id} (hm : id ∈ (sel t m).obs) :
    (sel t m).row? id = t.row? id :=
  lookupBy_filterMask hn t.rows m hm

theorem sel_cell (t : Table α) (hn : t.obs.Nodup) (m : List Bool) {id : Id} (hm : id ∈ (sel t m).obs) (s : Id) :
    (sel t m).cell? id s = t.cell? id s := by
  unfold Table.cell?
  rw [sel_row t hn m hm]
  rfl

theorem sel_mdOf_obs (t : Table α) (hn : t.obs.Nodup) (m : List Bool) {id : Id} (hm : id ∈ (sel t m).obs) :
    (sel t m).mdOf? .obs id = t.mdOf? .obs id := by
  unfold Table.mdOf?
  simp only [Table.md, Table.ids, sel]
  cases t.omd with
  | none => rfl
  | some md => exact lookupBy_filterMask hn md m hm

theorem sel_mdOf_samp (t : Table α) (m : List Bool) (s : Id) :
    (sel t m).mdOf? .samp s = t.mdOf? .samp s := rfl

/-! ### `_cast_metadata`: all-empty metadata is no metadata -/

theorem normMd_some {m : Option (List Md)} {md : List Md} (h : normMd m = some md) : m = some md := by
  cases m with
  | none => simp [normMd] at h
  | some m0 =>
    simp only [normMd] at h
    split at h
    · cases h
    · exact h

theorem castMd_obs (t : Table α) : (castMd t).obs = t.obs := rfl

theorem castMd_wf (t : Table α) (h : t.WF) : (castMd t).WF := by
  obtain ⟨h1, h2, h3, h4⟩ := h
  exact ⟨h1, h2, fun md hmd => h3 md (normMd_some hmd), fun md hmd => h4 md (normMd_some hmd)⟩

theorem getD_normMd (ids : List Id) (m : Option (List Md)) (id : Id) :
    ((normMd m).bind (fun l => lookupBy ids l id)).getD [] = (m.bind (fun l => lookupBy ids l id)).getD [] := by
  cases m with
  | none => rfl
  | some m0 =>
    simp only [normMd]
    split
    · rename_i hall
      simp only [Option.bind_none, Option.getD_none, Option.bind_some]
      cases hl : lookupBy ids m0 id with
      | none => rfl
      | some e =>
        have := (List.all_eq_true.mp hall) e (lookupBy_mem hl).2
        simp only [Option.getD_some]
        exact (List.isEmpty_iff.mp this).symm
    · rfl

theorem mdD_castMd (t : Table α) (ax : Axis) (id : Id) : mdD (castMd t) ax id = mdD t ax id := by
  cases ax
  · exact getD_normMd t.obs t.omd id
  · exact getD_normMd t.samp t.smd id

theorem mdD_normMd_samp (t : Table α) (r : Table α) (hs : r.samp = t.samp) (hm : r.smd = normMd t.smd) (s : Id) :
    mdD r .samp s = mdD t .samp s := by
  unfold mdD Table.mdOf?
  simp only [Table.md, Table.ids, hs, hm]
  exact getD_normMd t.samp t.smd s

theorem mdD_of_mdOf {p t : Table α} {ax : Axis} {id : Id} (h : p.mdOf? ax id = t.mdOf? ax id) :
    mdD p ax id = mdD t ax id := by
  unfold mdD; rw [h]

/-- a part that satisfies the clauses still does after passing through the constructor -/
theorem partClauses_castMd [Zero α] [DecidableEq α] (t : Table α) (ks : List (Option Label)) (re : Bool)
    (k : Label) (p : Table α) (h : (partClauses t ks re k p).ok = true) :
    (partClauses t ks re k (castMd p)).ok = true := by
  simp only [partClauses, Clauses.ok, List.all_cons, List.all_nil, Bool.and_true, Bool.and_eq_true,
    mdD_castMd] at h ⊢
  obtain ⟨hwf, hrest⟩ := h
  exact ⟨(wfb_iff _).mpr (castMd_wf p ((wfb_iff _).mp hwf)), hrest⟩

theorem partClauses_plain [Zero α] [DecidableEq α] (t : Table α) (ht : TableOk t) (ks : List (Option Label))
    (k : Label) : (partClauses t ks false k (sel t (maskOf ks k))).ok = true := by
  have hobs := sel_obs_eq_members t ht.obsNodup ks k
  simp only [partClauses, Clauses.ok, List.all_cons, List.all_nil, Bool.and_true, Bool.and_eq_true,
    Bool.false_eq_true, if_false, decide_eq_true_eq, List.all_eq_true]
  refine ⟨(wfb_iff _).mpr (sel_wf t ht.wf _), hobs, rfl, ?_, ⟨?_, ?_⟩, rfl⟩
  · intro id hid s _
    exact sel_cell t ht.obsNodup _ hid s
  · intro id hid
    exact mdD_of_mdOf (sel_mdOf_obs t ht.obsNodup _ hid)
  · intro s _
    rfl

/-! ### remove_empty -/

section RemoveEmpty
variable [Zero α] [DecidableEq α]

theorem subl_filterMask (xs : List Id) (m : List Bool) : subl (filterMask xs m) xs = true := by
  induction xs generalizing m with
  | nil => simp [filterMask_nil_left, subl]
  | cons x xs ih =>
    cases m with
    | nil => simp [filterMask_nil_right, subl]
    | cons b bs =>
      rw [filterMask_cons]
      cases b with
      | true => simp [subl, ih]
      | false =>
        simp only [Bool.false_eq_true, if_false]
        cases hf : filterMask xs bs with
        | nil => simp [subl]
        | cons a as =>
          have hne : a ≠ x → subl (a :: as) (x :: xs) = subl (a :: as) xs := by
            intro h; simp [subl, h]
          by_cases hax : a = x
          · -- the head of the kept part equals the dropped element: still a sub-list of the tail
            have := ih bs
            rw [hf] at this
            simp only [subl, hax, if_true]
            subst hax
            -- subl (a :: as) xs → subl as xs
            have drop : ∀ (l : List Id) (a : Id) (as : List Id), subl (a :: as) l = true → subl as l = true := by
              intro l
              induction l with
              | nil => intro a as h; simp [subl] at h
              | cons y ys ihl =>
                intro a as h
                cases as with
                | nil => simp [subl]
                | cons c cs =>
                  simp only [subl] at h ⊢
                  by_cases hay : a = y
                  · simp only [hay, if_true] at h
                    by_cases hcy : c = y
                    · simp only [hcy, if_true]
                      exact ihl c cs (hcy ▸ h)
                    · simp only [hcy, if_false]; exact h
                  · simp only [hay, if_false] at h
                    have h2 := ihl a (c :: cs) h
                    by_cases hcy : c = y
                    · simp only [hcy, if_true]
                      exact ihl c cs (hcy ▸ h2)
                    · simp only [hcy, if_false]; exact h2
            exact drop xs a as this
          · rw [hne hax, ← hf]; exact ih bs

theorem removeEmpty_obs (p : Table α) (hn : p.obs.Nodup) :
    (removeEmpty p).obs = p.obs.filter (rowNZ p) := by
  show filterMask p.obs (p.rows.map nzRow) = _
  rw [filterMask_eq_filter hn]
  apply List.filter_congr
  intro id _
  rw [lookupBy_map, rowNZ, Table.row?]
  cases lookupBy p.obs p.rows id <;> simp

theorem colNZ_length (n : Nat) (rows : List (List α)) (h : ∀ r ∈ rows, r.length = n) :
    (colNZ n rows).length = n := by
  induction rows with
  | nil => simp [colNZ]
  | cons r rs ih =>
    simp only [colNZ, List.length_zipWith, List.length_map]
    rw [ih (fun r' hr' => h r' (List.mem_cons_of_mem _ hr')), h r List.mem_cons_self]
    exact Nat.min_self n

def nzAt (samp : List Id) (s : Id) (r : List α) : Bool :=
  match lookupBy samp r s with
  | some v => decide (v ≠ 0)
  | none => false

theorem lookupBy_colNZ (samp : List Id) {s : Id} (hs : s ∈ samp) (rows : List (List α))
    (h : ∀ r ∈ rows, r.length = samp.length) :
    lookupBy samp (colNZ samp.length rows) s = some (rows.any (nzAt samp s)) := by
  induction rows with
  | nil => simp [colNZ, lookupBy_replicate hs samp.length (Nat.le_refl _)]
  | cons r rs ih =>
    rw [colNZ, lookupBy_zipWith, ih (fun r' hr' => h r' (List.mem_cons_of_mem _ hr')), lookupBy_map]
    obtain ⟨v, hv⟩ := lookupBy_isSome (xs := r) hs (by rw [h r List.mem_cons_self]; exact Nat.le_refl _)
    simp [hv, nzAt]

theorem any_rows_eq_any_ids (p : Table α) (hn : p.obs.Nodup) (hl : p.rows.length = p.obs.length) (s : Id) :
    p.rows.any (nzAt p.samp s) = p.obs.any (fun id => cellNZ p id s) := by
  have h1 : p.rows.any (nzAt p.samp s) =
      (p.rows.map some).any (fun o => match o.bind (fun r => lookupBy p.samp r s) with
        | some v => decide (v ≠ 0) | none => false) := by
    rw [List.any_map]; rfl
  rw [h1, ← map_lookupBy_self hn p.rows hl, List.any_map]
  rfl

theorem removeEmpty_samp_mem (p : Table α) (ht : TableOk p) {s : Id} (hs : s ∈ p.samp) :
    (removeEmpty p).samp.contains s = p.obs.any (fun id => cellNZ p id s) := by
  show (filterMask p.samp (colNZ p.samp.length p.rows)).contains s = _
  have hl := lookupBy_colNZ p.samp hs p.rows ht.wf.2.1
  rw [any_rows_eq_any_ids p ht.obsNodup ht.wf.1 s] at hl
  rw [Bool.eq_iff_iff, List.contains_iff_mem, mem_filterMask_iff ht.sampNodup, hl]
  simp [hs]

theorem removeEmpty_wf (p : Table α) (h : p.WF) : (removeEmpty p).WF := by
  obtain ⟨h1, h2, h3, h4⟩ := h
  have hc := colNZ_length p.samp.length p.rows h2
  refine ⟨?_, ?_, ?_, ?_⟩
  · show ((filterMask p.rows _).map _).length = (filterMask p.obs _).length
    rw [List.length_map]
    exact filterMask_length_eq _ _ _ h1
  · intro r hr
    simp only [removeEmpty, List.mem_map] at hr
    obtain ⟨r0, hr0, rfl⟩ := hr
    exact filterMask_length_eq _ _ _ (h2 r0 (mem_of_mem_filterMask hr0))
  · intro md hmd
    simp only [removeEmpty] at hmd
    cases ho : p.omd with
    | none => simp [ho] at hmd
    | some md0 =>
      simp only [ho, Option.map_some, Option.some.injEq] at hmd
      subst hmd
      exact filterMask_length_eq _ _ _ (h3 md0 ho)
  · intro md hmd
    simp only [removeEmpty] at hmd
    cases hs : p.smd with
    | none => simp [hs] at hmd
    | some md0 =>
      simp only [hs, Option.map_some, Option.some.injEq] at hmd
      subst hmd
      exact filterMask_length_eq _ _ _ (h4 md0 hs)

theorem removeEmpty_cell (p : Table α) (ht : TableOk p) {id s : Id} (hid : id ∈ (removeEmpty p).obs)
    (hs : s ∈ (removeEmpty p).samp) : (removeEmpty p).cell? id s = p.cell? id s := by
  have hrow : (removeEmpty p).row? id =
      (p.row? id).map (fun r => filterMask r (colNZ p.samp.length p.rows)) := by
    show lookupBy (filterMask p.obs _) ((filterMask p.rows _).map _) id = _
    rw [filterMask_map, lookupBy_filterMask ht.obsNodup _ _ hid, lookupBy_map]
    rfl
  unfold Table.cell?
  rw [hrow]
  cases hr : p.row? id with
  | none => rfl
  | some r =>
    simp only [Option.map_some, Option.bind_some]
    exact lookupBy_filterMask ht.sampNodup r _ hs

theorem removeEmpty_mdOf_obs (p : Table α) (ht : TableOk p) {id : Id} (hid : id ∈ (removeEmpty p).obs) :
    (removeEmpty p).mdOf? .obs id = p.mdOf? .obs id := by
  unfold Table.mdOf?
  simp only [Table.md, Table.ids, removeEmpty]
  cases p.omd with
  | none => rfl
  | some md => exact lookupBy_filterMask ht.obsNodup md _ hid

theorem removeEmpty_mdOf_samp (p : Table α) (ht : TableOk p) {s : Id} (hs : s ∈ (removeEmpty p).samp) :
    (removeEmpty p).mdOf? .samp s = p.mdOf? .samp s := by
  unfold Table.mdOf?
  simp only [Table.md, Table.ids, removeEmpty]
  cases p.smd with
  | none => rfl
  | some md => exact lookupBy_filterMask ht.sampNodup md _ hs

end RemoveEmpty

theorem sel_ok (t : Table α) (ht : TableOk t) (m : List Bool) : TableOk (sel t m) :=
  ⟨sel_wf t ht.wf m, nodup_filterMask ht.obsNodup m, ht.sampNodup⟩

theorem removeEmpty_obs_sub [Zero α] [DecidableEq α] (p : Table α) {id : Id} (h : id ∈ (removeEmpty p).obs) :
    id ∈ p.obs := mem_of_mem_filterMask h

theorem removeEmpty_samp_sub [Zero α] [DecidableEq α] (p : Table α) {s : Id} (h : s ∈ (removeEmpty p).samp) :
    s ∈ p.samp := mem_of_mem_filterMask h

theorem partClauses_removeEmpty [Zero α] [DecidableEq α] (t : Table α) (ht : TableOk t)
    (ks : List (Option Label)) (k : Label) :
    (partClauses t ks true k (removeEmpty (sel t (maskOf ks k)))).ok = true := by
  have hobs := sel_obs_eq_members t ht.obsNodup ks k
  have hp := sel_ok t ht (maskOf ks k)
  generalize hpdef : sel t (maskOf ks k) = p at hobs hp
  have hsamp : p.samp = t.samp := by rw [← hpdef]; rfl
  have hty : p.ttype = t.ttype := by rw [← hpdef]; rfl
  have hcell : ∀ id ∈ p.obs, ∀ s, p.cell? id s = t.cell? id s := by
    intro id hid s; subst hpdef; exact sel_cell t ht.obsNodup _ hid s
  have hrow : ∀ id ∈ p.obs, p.row? id = t.row? id := by
    intro id hid; subst hpdef; exact sel_row t ht.obsNodup _ hid
  have hmdo : ∀ id ∈ p.obs, p.mdOf? .obs id = t.mdOf? .obs id := by
    intro id hid; subst hpdef; exact sel_mdOf_obs t ht.obsNodup _ hid
  have hmds : ∀ s, p.mdOf? .samp s = t.mdOf? .samp s := by
    intro s; subst hpdef; rfl
  simp only [partClauses, Clauses.ok, List.all_cons, List.all_nil, Bool.and_true, Bool.and_eq_true,
    if_true, decide_eq_true_eq, List.all_eq_true, beq_iff_eq]
  refine ⟨(wfb_iff _).mpr (removeEmpty_wf p hp.wf), ?_, ⟨?_, ?_⟩, ?_, ⟨?_, ?_⟩, ?_⟩
  · rw [removeEmpty_obs p hp.obsNodup, hobs]
    apply List.filter_congr
    intro id hid
    unfold rowNZ
    rw [hrow id (hobs ▸ hid)]
  · rw [← hsamp]; exact subl_filterMask _ _
  · intro s hs
    rw [removeEmpty_samp_mem p hp (hsamp ▸ hs), hobs, Bool.eq_iff_iff, List.any_eq_true, List.any_eq_true]
    constructor
    · rintro ⟨id, hid, h⟩
      refine ⟨id, hid, ?_⟩
      unfold cellNZ at h ⊢
      rwa [hcell id (hobs ▸ hid) s] at h
    · rintro ⟨id, hid, h⟩
      refine ⟨id, hid, ?_⟩
      unfold cellNZ at h ⊢
      rwa [hcell id (hobs ▸ hid) s]
  · intro id hid s hs
    rw [removeEmpty_cell p hp hid hs]
    exact hcell id (removeEmpty_obs_sub p hid) s
  · intro id hid
    apply mdD_of_mdOf
    rw [removeEmpty_mdOf_obs p hp hid]
    exact hmdo id (removeEmpty_obs_sub p hid)
  · intro s hs
    apply mdD_of_mdOf
    rw [removeEmpty_mdOf_samp p hp hs]
    exact hmds s
  · exact hty

theorem Clauses.ok_flatMap {ι : Type} (l : List ι) (f : ι → Clauses) :
    Clauses.ok (l.flatMap f) = l.all (fun x => (f x).ok) := by
  induction l with
  | nil => rfl
  | cons a as ih => rw [List.flatMap_cons, Clauses.ok_append, ih, List.all_cons]

theorem partitionO_labels [Zero α] [DecidableEq α] (t : Table α) (ls : List Label) (re ign : Bool) :
    (partitionO t ls re ign).map (·.1) = firsts ((ls.map (eff ign)).filterMap id) := by
  unfold partitionO partO
  cases re <;> simp [List.map_map, Function.comp_def]

theorem mem_partitionO [Zero α] [DecidableEq α] (t : Table α) (ls : List Label) (re ign : Bool)
    (p : Label × Table α) (hp : p ∈ partitionO t ls re ign) :
    p.2 = (if re then castMd (removeEmpty (sel t (maskOf (ls.map (eff ign)) p.1)))
           else castMd (sel t (maskOf (ls.map (eff ign)) p.1))) := by
  unfold partitionO partO at hp
  cases re with
  | false =>
    simp only [Bool.false_eq_true, if_false, List.mem_map] at hp ⊢
    obtain ⟨q, ⟨k, _, rfl⟩, rfl⟩ := hp
    rfl
  | true =>
    simp only [if_true, List.mem_map] at hp ⊢
    obtain ⟨q, ⟨k, _, rfl⟩, rfl⟩ := hp
    rfl

/-- the partition predicate holds of what the model yields (oriented level) -/
theorem holdsPartitionO_model [Zero α] [DecidableEq α] (t : Table α) (ht : TableOk t) (ls : List Label)
    (re ign : Bool) : (holdsPartitionO t ls re ign (partitionO t ls re ign)).ok = true := by
  unfold holdsPartitionO
  rw [Clauses.ok_append, Clauses.ok_flatMap, Bool.and_eq_true]
  constructor
  · simp only [Clauses.ok, List.all_cons, List.all_nil, Bool.and_true, Bool.and_eq_true, decide_eq_true_eq,
      List.all_eq_true, List.contains_iff_mem]
    rw [partitionO_labels]
    refine ⟨nodup_firsts _, ?_, ?_⟩
    · intro p hp
      have : p.1 ∈ (partitionO t ls re ign).map (·.1) := List.mem_map_of_mem hp
      rw [partitionO_labels, mem_firsts, List.mem_filterMap] at this
      obtain ⟨o, ho, he⟩ := this
      simp only [id] at he
      rw [← he]; exact ho
    · intro o ho
      cases o with
      | none => trivial
      | some k =>
        simp only
        rw [List.contains_iff_mem, mem_firsts, List.mem_filterMap]
        exact ⟨some k, ho, rfl⟩
  · rw [List.all_eq_true]
    intro p hp
    have h := mem_partitionO t ls re ign p hp
    rw [h]
    cases re with
    | false => exact partClauses_castMd _ _ _ _ _ (partClauses_plain t ht _ _)
    | true => exact partClauses_castMd _ _ _ _ _ (partClauses_removeEmpty t ht _ _)

/-! ### orientation: transposing twice gives the table back -/

theorem filterMap_eq_map_of {ι : Type} (l : List ι) (f : ι → Option β) (g : ι → β)
    (h : ∀ x ∈ l, f x = some (g x)) : l.filterMap f = l.map g := by
  induction l with
  | nil => rfl
  | cons a as ih =>
    rw [List.filterMap_cons, h a List.mem_cons_self, List.map_cons,
      ih (fun x hx => h x (List.mem_cons_of_mem _ hx))]

theorem filterMap_congr_mem {ι : Type} (l : List ι) (f g : ι → Option β) (h : ∀ x ∈ l, f x = g x) :
    l.filterMap f = l.filterMap g := by
  induction l with
  | nil => rfl
  | cons a as ih =>
    rw [List.filterMap_cons, List.filterMap_cons, h a List.mem_cons_self,
      ih (fun x hx => h x (List.mem_cons_of_mem _ hx))]

theorem filterMap_getElem?_range (r : List β) : (List.range r.length).filterMap (fun j => r[j]?) = r := by
  induction r with
  | nil => rfl
  | cons a as ih =>
    rw [List.length_cons, List.range_succ_eq_map, List.filterMap_cons]
    simp only [List.getElem?_cons_zero, List.filterMap_map]
    congr 1

theorem colAt_getElem? (rows : List (List β)) (j : Nat) (h : ∀ r ∈ rows, j < r.length) (i : Nat) :
    (colAt rows j)[i]? = rows[i]?.bind (fun r => r[j]?) := by
  induction rows generalizing i with
  | nil => simp [colAt]
  | cons r rs ih =>
    have hj : j < r.length := h r List.mem_cons_self
    have hr : r[j]? = some r[j] := List.getElem?_eq_getElem hj
    have ih' := ih (fun r' hr' => h r' (List.mem_cons_of_mem _ hr'))
    unfold colAt at ih' ⊢
    rw [List.filterMap_cons, hr]
    cases i with
    | zero => simp [hr]
    | succ i => simpa using ih' i

theorem colAt_length (rows : List (List β)) (j : Nat) (h : ∀ r ∈ rows, j < r.length) :
    (colAt rows j).length = rows.length := by
  induction rows with
  | nil => rfl
  | cons r rs ih =>
    have hj : j < r.length := h r List.mem_cons_self
    have hr : r[j]? = some r[j] := List.getElem?_eq_getElem hj
    have ih' := ih (fun r' hr' => h r' (List.mem_cons_of_mem _ hr'))
    unfold colAt at ih' ⊢
    rw [List.filterMap_cons, hr]
    simp [ih']

theorem transposeGrid_transposeGrid (n : Nat) (rows : List (List β)) (h : ∀ r ∈ rows, r.length = n) :
    transposeGrid rows.length (transposeGrid n rows) = rows := by
  unfold transposeGrid
  conv => rhs; rw [← filterMap_getElem?_range rows]
  symm
  apply filterMap_eq_map_of
  intro i hi
  have hi' : i < rows.length := List.mem_range.mp hi
  rw [List.getElem?_eq_getElem hi']
  congr 1
  unfold colAt
  rw [List.filterMap_map]
  have hrow : rows[i].length = n := h _ (List.getElem_mem hi')
  conv => lhs; rw [← filterMap_getElem?_range rows[i], hrow]
  symm
  apply filterMap_congr_mem
  intro j hj
  have hj' : j < n := List.mem_range.mp hj
  simp only [Function.comp]
  have := colAt_getElem? rows j (fun r hr => by rw [h r hr]; exact hj') i
  unfold colAt at this
  rw [this, List.getElem?_eq_getElem hi']
  rfl

theorem transpose_wf (t : Table α) (h : t.WF) : t.transpose.WF := by
  obtain ⟨h1, h2, h3, h4⟩ := h
  refine ⟨?_, ?_, h4, h3⟩
  · simp [Table.transpose, transposeGrid]
  · intro r hr
    simp only [Table.transpose, transposeGrid, List.mem_map, List.mem_range] at hr
    obtain ⟨j, hj, rfl⟩ := hr
    rw [colAt_length _ _ (fun r hr => by rw [h2 r hr]; exact hj)]
    exact h1

theorem transpose_transpose (t : Table α) (h : t.WF) : t.transpose.transpose = t := by
  obtain ⟨h1, h2, _, _⟩ := h
  cases t with
  | mk obs samp rows omd smd ttype =>
    simp only [Table.transpose, Table.mk.injEq, true_and, and_true]
    simp only at h1 h2
    rw [← h1]
    exact transposeGrid_transposeGrid samp.length rows h2

theorem transpose_ok (t : Table α) (h : TableOk t) : TableOk t.transpose :=
  ⟨transpose_wf t h.wf, h.sampNodup, h.obsNodup⟩

theorem orient_ok (ax : Axis) (t : Table α) (h : TableOk t) : TableOk (orient ax t) := by
  cases ax
  · exact h
  · exact transpose_ok t h

theorem orient_orient (ax : Axis) (t : Table α) (h : t.WF) : orient ax (orient ax t) = t := by
  cases ax
  · rfl
  · exact transpose_transpose t h

theorem orient_wf (ax : Axis) (t : Table α) (h : t.WF) : (orient ax t).WF := by
  cases ax
  · exact h
  · exact transpose_wf t h

theorem orient_obs (ax : Axis) (t : Table α) : (orient ax t).obs = t.ids ax := by
  cases ax <;> rfl

/-! ### sums -/

theorem sumL_cons (x : Rat) (xs : List Rat) : sumL (x :: xs) = x + sumL xs := rfl
theorem sumL_nil : sumL ([] : List Rat) = 0 := rfl

theorem sumL_map_zero {ι : Type} (l : List ι) : sumL (l.map (fun _ => (0 : Rat))) = 0 := by
  induction l with
  | nil => rfl
  | cons a as ih => rw [List.map_cons, sumL_cons, ih, Rat.add_zero]

theorem sumL_map_add {ι : Type} (l : List ι) (g h : ι → Rat) :
    sumL (l.map (fun x => g x + h x)) = sumL (l.map g) + sumL (l.map h) := by
  induction l with
  | nil => simp [sumL_nil, Rat.add_zero]
  | cons a as ih =>
    simp only [List.map_cons, sumL_cons, ih]
    grind

theorem sumL_map_mul_right {ι : Type} (l : List ι) (g : ι → Rat) (c : Rat) :
    sumL (l.map (fun x => g x * c)) = sumL (l.map g) * c := by
  induction l with
  | nil => simp [sumL_nil, Rat.zero_mul]
  | cons a as ih =>
    simp only [List.map_cons, sumL_cons, ih]
    grind

/-- Σ over distinct keys of an indicator picks exactly one term -/
theorem sumL_indicator {κ : Type} [DecidableEq κ] (keys : List κ) (hn : keys.Nodup) {k0 : κ} (hk : k0 ∈ keys)
    (v : Rat) : sumL (keys.map (fun k => if k0 = k then v else 0)) = v := by
  induction keys with
  | nil => cases hk
  | cons a as ih =>
    have hn' := List.nodup_cons.mp hn
    rw [List.map_cons, sumL_cons]
    by_cases he : k0 = a
    · have hz : as.map (fun k => if k0 = k then v else 0) = as.map (fun _ => (0 : Rat)) := by
        apply List.map_congr_left
        intro k hk'
        have : k0 ≠ k := fun e => hn'.1 (he ▸ e ▸ hk')
        simp [this]
      rw [hz, sumL_map_zero, if_pos he, Rat.add_zero]
    · rw [if_neg he, Rat.zero_add]
      rcases List.mem_cons.mp hk with h | h
      · exact absurd h he
      · exact ih hn'.2 h

/-- every ID falls in exactly one group ⇒ summing group by group is summing everything -/
theorem sum_groups {κ : Type} [DecidableEq κ] (keys : List κ) (hn : keys.Nodup) (P : κ → Id → Bool)
    (l : List Id) (hl : ∀ id ∈ l, ∃ k0 ∈ keys, ∀ k, P k id = decide (k0 = k)) (f : Id → Rat) :
    sumL (keys.map (fun k => sumL ((l.filter (P k)).map f))) = sumL (l.map f) := by
  induction l with
  | nil => simp [sumL_nil, sumL_map_zero]
  | cons a as ih =>
    obtain ⟨k0, hk0, hP⟩ := hl a List.mem_cons_self
    have hterm : ∀ k, sumL (((a :: as).filter (P k)).map f) =
        (if k0 = k then f a else 0) + sumL ((as.filter (P k)).map f) := by
      intro k
      rw [List.filter_cons, hP k]
      by_cases he : k0 = k
      · simp [he, sumL_cons]
      · simp [he, Rat.zero_add]
    rw [List.map_congr_left (fun k _ => hterm k), sumL_map_add, sumL_indicator keys hn hk0,
      ih (fun id hid => hl id (List.mem_cons_of_mem _ hid)), List.map_cons, sumL_cons]

theorem sumL_filter_zero {ι : Type} (l : List ι) (P : ι → Bool) (g : ι → Rat)
    (h : ∀ x ∈ l, P x = false → g x = 0) : sumL ((l.filter P).map g) = sumL (l.map g) := by
  induction l with
  | nil => rfl
  | cons a as ih =>
    have ih' := ih (fun x hx => h x (List.mem_cons_of_mem _ hx))
    rw [List.filter_cons]
    cases hp : P a with
    | true => simp only [if_true, List.map_cons, sumL_cons, ih']
    | false =>
      simp only [Bool.false_eq_true, if_false, List.map_cons, sumL_cons, ih', h a List.mem_cons_self hp, Rat.zero_add]

theorem sumL_comm {ι κ : Type} (as : List ι) (bs : List κ) (f : ι → κ → Rat) :
    sumL (as.map (fun a => sumL (bs.map (fun b => f a b)))) =
      sumL (bs.map (fun b => sumL (as.map (fun a => f a b)))) := by
  induction as with
  | nil => simp [sumL_nil, sumL_map_zero]
  | cons a as ih =>
    simp only [List.map_cons, sumL_cons]
    rw [ih, sumL_map_add]

/-! ### one-to-one collapse -/

theorem sumRows_length (n : Nat) (rs : List (List Rat)) (h : ∀ r ∈ rs, r.length = n) :
    (sumRows n rs).length = n := by
  induction rs with
  | nil => simp [sumRows]
  | cons r rs ih =>
    have ih' := ih (fun r' hr' => h r' (List.mem_cons_of_mem _ hr'))
    unfold sumRows at ih' ⊢
    rw [List.foldr_cons, addV, List.length_zipWith, ih', h r List.mem_cons_self]
    exact Nat.min_self n

theorem lookupBy_sumRows (samp : List Id) {s : Id} (hs : s ∈ samp) (rs : List (List Rat))
    (h : ∀ r ∈ rs, r.length = samp.length) :
    lookupBy samp (sumRows samp.length rs) s = some (sumL (rs.map (fun r => (lookupBy samp r s).getD 0))) := by
  induction rs with
  | nil => simp [sumRows, sumL_nil, lookupBy_replicate hs samp.length (Nat.le_refl _)]
  | cons r rs ih =>
    have ih' := ih (fun r' hr' => h r' (List.mem_cons_of_mem _ hr'))
    obtain ⟨v, hv⟩ := lookupBy_isSome (xs := r) hs (by rw [h r List.mem_cons_self]; exact Nat.le_refl _)
    unfold sumRows at ih' ⊢
    rw [List.foldr_cons, addV, lookupBy_zipWith, ih', hv]
    simp [sumL_cons, hv]

theorem filterMask_map_lookup {ids : List Id} (hn : ids.Nodup) (xs : List β) (hx : xs.length = ids.length)
    (m : List Bool) : (filterMask ids m).map (lookupBy ids xs) = (filterMask xs m).map some := by
  rw [filterMask_map, map_lookupBy_self hn xs hx, ← filterMask_map]

/-- Σ over the kept rows (positional) = Σ over the kept IDs of the cell looked up by ID -/
theorem sum_sel_rows (t : Table Rat) (ht : TableOk t) (m : List Bool) (s : Id) :
    sumL ((filterMask t.rows m).map (fun r => (lookupBy t.samp r s).getD 0)) =
      sumOver (filterMask t.obs m) (fun id => cellD t id s) := by
  have h := filterMask_map_lookup ht.obsNodup t.rows ht.wf.1 m
  have h2 : (filterMask t.rows m).map (fun r => (lookupBy t.samp r s).getD 0) =
      ((filterMask t.rows m).map some).map (fun o => (o.bind (fun r => lookupBy t.samp r s)).getD 0) := by
    rw [List.map_map]; rfl
  rw [h2, ← h, List.map_map]
  rfl

def ksOf (ls : List Label) : List (Option Label) := ls.map (fun l => some l.key)

theorem ksOf_filterMap (ls : List Label) : (ksOf ls).filterMap id = ls.map Label.key := by
  unfold ksOf
  rw [← filterMap_id_map_some (ls.map Label.key), List.map_map]
  rfl

/-- the labels that survive `min_group_size` -/
def keptKeys (t : Table Rat) (ls : List Label) (minSize : Nat) : List Label :=
  (firsts (ls.map Label.key)).filter (fun k => decide (minSize ≤ (members t.obs (ksOf ls) k).length))

def groupOf (t : Table Rat) (ls : List Label) (k : Label) : Table Rat := sel t (maskOf (ksOf ls) k)

theorem collapseO_eq (t : Table Rat) (hn : t.obs.Nodup) (ls : List Label) (norm : Bool) (minSize : Nat)
    (icm : Bool) :
    collapseO t ls norm minSize icm =
      { obs := (keptKeys t ls minSize).map Label.toId,
        rows := (keptKeys t ls minSize).map (fun k => reduceRow norm t.samp.length (groupOf t ls k)),
        omd := if icm && !(keptKeys t ls minSize).isEmpty then
                 some ((keptKeys t ls minSize).map (fun k => cidsMd (members t.obs (ksOf ls) k))) else none,
        samp := t.samp, smd := normMd t.smd, ttype := t.ttype } := by
  have hkept : (partO t (ksOf ls)).filter (fun p => decide (minSize ≤ p.2.obs.length)) =
      (keptKeys t ls minSize).map (fun k => (k, groupOf t ls k)) := by
    unfold partO keptKeys
    rw [ksOf_filterMap, List.filter_map]
    congr 1
    apply List.filter_congr
    intro k _
    simp only [Function.comp]
    rw [sel_obs_eq_members t hn]
  unfold collapseO
  show _ = _
  have : (ls.map (fun l => some l.key)) = ksOf ls := rfl
  simp only [this, hkept, List.map_map, Function.comp_def, List.isEmpty_map]
  congr 3
  apply List.map_congr_left
  intro k _
  simp only [groupOf]
  rw [sel_obs_eq_members t hn]

/-- distinct labels become distinct IDs (true when all labels are strings) -/
def InjLabels (ls : List Label) : Prop :=
  ∀ a ∈ ls, ∀ b ∈ ls, a.key.toId = b.key.toId → a.key = b.key

theorem nodup_map_of_injOn {κ : Type} (f : κ → β) (l : List κ) (hn : l.Nodup)
    (hinj : ∀ a ∈ l, ∀ b ∈ l, f a = f b → a = b) : (l.map f).Nodup := by
  induction l with
  | nil => simp
  | cons a as ih =>
    have hn' := List.nodup_cons.mp hn
    rw [List.map_cons, List.nodup_cons]
    constructor
    · intro hm
      obtain ⟨b, hb, he⟩ := List.mem_map.mp hm
      have := hinj a List.mem_cons_self b (List.mem_cons_of_mem _ hb) he.symm
      exact hn'.1 (this ▸ hb)
    · exact ih hn'.2 (fun x hx y hy => hinj x (List.mem_cons_of_mem _ hx) y (List.mem_cons_of_mem _ hy))

theorem keptKeys_sub (t : Table Rat) (ls : List Label) (m : Nat) {k : Label} (h : k ∈ keptKeys t ls m) :
    k ∈ ls.map Label.key := by
  unfold keptKeys at h
  exact (mem_firsts _ _).mp (List.mem_filter.mp h).1

theorem keptKeys_nodup (t : Table Rat) (ls : List Label) (m : Nat) : (keptKeys t ls m).Nodup :=
  List.Pairwise.sublist List.filter_sublist (nodup_firsts _)

theorem keptKeys_ids_nodup (t : Table Rat) (ls : List Label) (m : Nat) (hinj : InjLabels ls) :
    ((keptKeys t ls m).map Label.toId).Nodup := by
  apply nodup_map_of_injOn _ _ (keptKeys_nodup t ls m)
  intro a ha b hb he
  obtain ⟨a0, ha0, rfl⟩ := List.mem_map.mp (keptKeys_sub t ls m ha)
  obtain ⟨b0, hb0, rfl⟩ := List.mem_map.mp (keptKeys_sub t ls m hb)
  exact hinj a0 ha0 b0 hb0 he

theorem groupOf_rows_len (t : Table Rat) (ht : TableOk t) (ls : List Label) (k : Label) :
    ∀ r ∈ (groupOf t ls k).rows, r.length = t.samp.length :=
  fun r hr => ht.wf.2.1 r (mem_of_mem_filterMask hr)

theorem groupOf_sum (t : Table Rat) (ht : TableOk t) (ls : List Label) (k : Label) {s : Id} (hs : s ∈ t.samp) :
    lookupBy t.samp (sumRows t.samp.length (groupOf t ls k).rows) s =
      some (sumOver (members t.obs (ksOf ls) k) (fun id => cellD t id s)) := by
  rw [lookupBy_sumRows t.samp hs _ (groupOf_rows_len t ht ls k)]
  show some (sumL ((filterMask t.rows _).map _)) = _
  rw [sum_sel_rows t ht, ← sel_obs_eq_members t ht.obsNodup]
  rfl

/-- `collapse_vector` at the oriented level: the cell of a kept label is the sum over its members
(divided by their number when normalising) -/
theorem collapseO_cell (t : Table Rat) (ht : TableOk t) (ls : List Label) (hinj : InjLabels ls)
    (norm : Bool) (minSize : Nat) (icm : Bool) {k : Label} (hk : k ∈ keptKeys t ls minSize) {s : Id}
    (hs : s ∈ t.samp) :
    (collapseO t ls norm minSize icm).cell? k.toId s =
      some (if norm then sumOver (members t.obs (ksOf ls) k) (fun id => cellD t id s) /
                ((members t.obs (ksOf ls) k).length : Rat)
            else sumOver (members t.obs (ksOf ls) k) (fun id => cellD t id s)) := by
  rw [collapseO_eq t ht.obsNodup]
  unfold Table.cell? Table.row?
  simp only
  rw [lookupBy_map_map Label.toId _ _ (keptKeys_ids_nodup t ls minSize hinj) hk, Option.bind_some]
  unfold reduceRow
  have hlen : (groupOf t ls k).obs.length = (members t.obs (ksOf ls) k).length := by
    rw [groupOf, sel_obs_eq_members t ht.obsNodup]
  cases norm with
  | false => simp only [Bool.false_eq_true, if_false]; exact groupOf_sum t ht ls k hs
  | true =>
    simp only [if_true]
    rw [lookupBy_map, groupOf_sum t ht ls k hs, hlen]
    rfl

theorem collapseO_obs (t : Table Rat) (hn : t.obs.Nodup) (ls : List Label) (norm : Bool) (minSize : Nat)
    (icm : Bool) : (collapseO t ls norm minSize icm).obs = (keptKeys t ls minSize).map Label.toId := by
  rw [collapseO_eq t hn]

/-- every ID of the axis carries one of the first-occurrence labels -/
theorem label_of_id (t : Table Rat) (ls : List Label) (hl : t.obs.length ≤ ls.length) {id : Id} (hid : id ∈ t.obs) :
    ∃ k0 ∈ firsts (ls.map Label.key), ∀ k, decide (lookupBy t.obs (ksOf ls) id = some (some k)) = decide (k0 = k) := by
  obtain ⟨o, ho⟩ := lookupBy_isSome (xs := ksOf ls) hid (by unfold ksOf; rw [List.length_map]; exact hl)
  have hmem := (lookupBy_mem ho).2
  unfold ksOf at hmem
  obtain ⟨l, hl', rfl⟩ := List.mem_map.mp hmem
  refine ⟨l.key, (mem_firsts _ _).mpr (List.mem_map_of_mem hl'), ?_⟩
  intro k
  rw [ho]
  simp

/-- `collapse_conserves` at the oriented level -/
theorem collapseO_conserve (t : Table Rat) (ht : TableOk t) (ls : List Label) (hinj : InjLabels ls)
    (hl : t.obs.length ≤ ls.length) (minSize : Nat) (hmin : minSize ≤ 1) (icm : Bool) {s : Id} (hs : s ∈ t.samp) :
    sumOver (collapseO t ls false minSize icm).obs (fun id => cellD (collapseO t ls false minSize icm) id s) =
      sumOver t.obs (fun id => cellD t id s) := by
  rw [collapseO_obs t ht.obsNodup]
  unfold sumOver
  rw [List.map_map]
  have hcell : ∀ k ∈ keptKeys t ls minSize,
      (fun id => cellD (collapseO t ls false minSize icm) id s) (Label.toId k) =
        sumL ((t.obs.filter (fun id => decide (lookupBy t.obs (ksOf ls) id = some (some k)))).map
          (fun id => cellD t id s)) := by
    intro k hk
    simp only [cellD]
    rw [collapseO_cell t ht ls hinj false minSize icm hk hs]
    rfl
  rw [List.map_congr_left (fun k hk => by simp only [Function.comp]; exact hcell k hk)]
  unfold keptKeys
  rw [sumL_filter_zero]
  · exact sum_groups _ (nodup_firsts _) (fun k id => decide (lookupBy t.obs (ksOf ls) id = some (some k)))
      t.obs (fun id hid => label_of_id t ls hl hid) _
  · intro k _ hP
    have hlt : (members t.obs (ksOf ls) k).length = 0 := by
      have : ¬ minSize ≤ (members t.obs (ksOf ls) k).length := by simpa using hP
      omega
    have : members t.obs (ksOf ls) k = [] := List.length_eq_zero_iff.mp hlt
    unfold members at this
    rw [this]
    rfl

theorem reduceRow_length (t : Table Rat) (ht : TableOk t) (ls : List Label) (norm : Bool) (k : Label) :
    (reduceRow norm t.samp.length (groupOf t ls k)).length = t.samp.length := by
  unfold reduceRow
  have := sumRows_length t.samp.length _ (groupOf_rows_len t ht ls k)
  cases norm <;> simp [this]

theorem collapseO_wf (t : Table Rat) (ht : TableOk t) (ls : List Label) (norm : Bool) (minSize : Nat)
    (icm : Bool) : (collapseO t ls norm minSize icm).WF := by
  rw [collapseO_eq t ht.obsNodup]
  refine ⟨by simp, ?_, ?_, fun md hmd => ht.wf.2.2.2 md (normMd_some hmd)⟩
  · intro r hr
    simp only [List.mem_map] at hr
    obtain ⟨k, _, rfl⟩ := hr
    exact reduceRow_length t ht ls norm k
  · intro md hmd
    simp only at hmd
    split at hmd
    · cases hmd; simp
    · cases hmd

theorem collapseO_mdOf (t : Table Rat) (ht : TableOk t) (ls : List Label) (hinj : InjLabels ls)
    (norm : Bool) (minSize : Nat) {k : Label} (hk : k ∈ keptKeys t ls minSize) :
    (collapseO t ls norm minSize true).mdOf? .obs k.toId = some (cidsMd (members t.obs (ksOf ls) k)) := by
  rw [collapseO_eq t ht.obsNodup]
  unfold Table.mdOf?
  have hne : (keptKeys t ls minSize).isEmpty = false := by
    cases hK : keptKeys t ls minSize with
    | nil => rw [hK] at hk; cases hk
    | cons a as => rfl
  simp only [Table.md, Table.ids, hne, Bool.true_and, Bool.not_false, if_true, Option.bind_some]
  exact lookupBy_map_map Label.toId _ _ (keptKeys_ids_nodup t ls minSize hinj) hk

/-- the collapse predicate holds of what the model computes (oriented level) -/
theorem holdsCollapseO_model (t : Table Rat) (ht : TableOk t) (ls : List Label) (hinj : InjLabels ls)
    (hl : t.obs.length ≤ ls.length) (norm : Bool) (minSize : Nat) (icm : Bool) :
    (holdsCollapseO t ls norm minSize icm (collapseO t ls norm minSize icm)).ok = true := by
  have hobs := collapseO_obs t ht.obsNodup ls norm minSize icm
  have hks : (ls.map (fun l => some l.key)) = ksOf ls := rfl
  have hkeys : ((firsts (ls.map Label.key)).filter
      (fun k => decide (minSize ≤ (members t.obs (ksOf ls) k).length))) = keptKeys t ls minSize := rfl
  simp only [holdsCollapseO, hks, hkeys, Clauses.ok, List.all_cons, List.all_nil, Bool.and_true, Bool.and_eq_true,
    decide_eq_true_eq, List.all_eq_true, List.contains_iff_mem]
  refine ⟨(wfb_iff _).mpr (collapseO_wf t ht ls norm minSize icm), ?_, ⟨?_, ?_⟩, ?_, ?_, ?_, ?_⟩
  · rw [hobs]; exact keptKeys_ids_nodup t ls minSize hinj
  · intro k hk; rw [hobs]; exact List.mem_map_of_mem hk
  · intro id hid; rw [hobs] at hid; exact hid
  · intro k hk s hs
    exact collapseO_cell t ht ls hinj norm minSize icm hk hs
  · cases icm with
    | true =>
      simp only [if_true, List.all_eq_true, decide_eq_true_eq]
      intro k hk
      exact collapseO_mdOf t ht ls hinj norm minSize hk
    | false =>
      simp only [Bool.false_eq_true, if_false, decide_eq_true_eq]
      rw [collapseO_eq t ht.obsNodup]
      rfl
  · rw [collapseO_eq t ht.obsNodup]
    exact ⟨⟨rfl, fun s _ => by apply mdD_normMd_samp <;> rfl⟩, rfl⟩
  · cases norm with
    | true => simp
    | false =>
      by_cases hmin : minSize ≤ 1
      · rw [if_pos (by simp [hmin]), List.all_eq_true]
        intro s hs
        rw [decide_eq_true_eq]
        exact collapseO_conserve t ht ls hinj hl minSize hmin icm hs
      · simp [hmin]

/-! ### one-to-many collapse -/

theorem mem_insertS (x : String) (l : List String) (y : String) : y ∈ insertS x l ↔ y = x ∨ y ∈ l := by
  induction l with
  | nil => simp [insertS]
  | cons a as ih =>
    unfold insertS
    split
    · simp only [List.mem_cons, ih]
      constructor
      · rintro (h | h | h)
        · exact Or.inr (Or.inl h)
        · exact Or.inl h
        · exact Or.inr (Or.inr h)
      · rintro (h | h | h)
        · exact Or.inr (Or.inl h)
        · exact Or.inl h
        · exact Or.inr (Or.inr h)
    · simp

theorem nodup_insertS (x : String) (l : List String) (hn : l.Nodup) (hx : x ∉ l) : (insertS x l).Nodup := by
  induction l with
  | nil => simp [insertS]
  | cons a as ih =>
    have hn' := List.nodup_cons.mp hn
    have hxa : x ≠ a := fun e => hx (e ▸ List.mem_cons_self)
    have hxas : x ∉ as := fun h => hx (List.mem_cons_of_mem _ h)
    unfold insertS
    split
    · rw [List.nodup_cons]
      refine ⟨?_, ih hn'.2 hxas⟩
      rw [mem_insertS]
      rintro (h | h)
      · exact hxa h.symm
      · exact hn'.1 h
    · rw [List.nodup_cons]
      exact ⟨hx, hn⟩

theorem mem_sortS (l : List String) (y : String) : y ∈ sortS l ↔ y ∈ l := by
  induction l with
  | nil => simp [sortS]
  | cons a as ih =>
    unfold sortS at ih ⊢
    rw [List.foldr_cons, mem_insertS, ih, List.mem_cons]

theorem nodup_sortS (l : List String) (hn : l.Nodup) : (sortS l).Nodup := by
  induction l with
  | nil => simp [sortS]
  | cons a as ih =>
    have hn' := List.nodup_cons.mp hn
    have ih' := ih hn'.2
    unfold sortS at ih' ⊢
    rw [List.foldr_cons]
    apply nodup_insertS _ _ ih'
    intro h
    have := (mem_sortS as a).mp h
    exact hn'.1 this

theorem lookupBy_self_map (l : List Id) (g : Id → β) (hn : l.Nodup) {k : Id} (hk : k ∈ l) :
    lookupBy l (l.map g) k = some (g k) := by
  have := lookupBy_map_map (fun x : Id => x) g l (by simpa using hn) hk
  simpa using this

theorem natCast_ne_zero {n : Nat} (h : n ≠ 0) : (n : Rat) ≠ 0 := by
  intro h0
  have : (n : Rat) = ((0 : Nat) : Rat) := by simpa using h0
  exact h (Rat.natCast_inj.mp this)

theorem mult_cons (b : String) (p : String × String) (it : List (String × String)) :
    mult b (p :: it) = (if p.2 = b then 1 else 0) + mult b it := by
  unfold mult
  rw [List.filter_cons]
  by_cases h : p.2 = b
  · simp [h]; omega
  · simp [h]

/-- a vector is listed, over all bins, exactly as many times as it lists groups -/
theorem mult_sum (bins : List String) (hn : bins.Nodup) (it : List (String × String))
    (h : ∀ p ∈ it, p.2 ∈ bins) : sumL (bins.map (fun b => (mult b it : Rat))) = (it.length : Rat) := by
  induction it with
  | nil =>
    have : (fun b => ((mult b ([] : List (String × String)) : Nat) : Rat)) = fun _ => (0 : Rat) := by
      funext b; simp [mult]
    rw [this, sumL_map_zero]; simp
  | cons p it ih =>
    have hterm : ∀ b, ((mult b (p :: it) : Nat) : Rat) = (if p.2 = b then (1 : Rat) else 0) + (mult b it : Rat) := by
      intro b
      rw [mult_cons, Rat.natCast_add]
      by_cases hb : p.2 = b <;> simp [hb]
    rw [List.map_congr_left (fun b _ => hterm b), sumL_map_add, sumL_indicator bins hn (h p List.mem_cons_self),
      ih (fun q hq => h q (List.mem_cons_of_mem _ hq)), List.length_cons, Rat.natCast_add]
    grind

theorem weight_sum (bins : List String) (hn : bins.Nodup) (it : List (String × String))
    (h : ∀ p ∈ it, p.2 ∈ bins) :
    sumL (bins.map (fun b => weight true b it)) = if it.isEmpty then 0 else 1 := by
  have hw : ∀ b, weight true b it = (mult b it : Rat) * ((it.length : Rat))⁻¹ := by
    intro b; simp [weight, Rat.div_def]
  rw [List.map_congr_left (fun b _ => hw b), sumL_map_mul_right, mult_sum bins hn it h]
  cases it with
  | nil => simp
  | cons p it =>
    have : ((List.length (p :: it) : Nat) : Rat) ≠ 0 := natCast_ne_zero (by simp)
    simp only [List.isEmpty_cons, Bool.false_eq_true, if_false]
    grind

theorem sumL_indicator_mul {ι : Type} (l : List ι) (P : ι → Bool) (c : ι → Rat) :
    sumL (l.map (fun x => (if P x then (0 : Rat) else 1) * c x)) = sumL ((l.filter (fun x => !P x)).map c) := by
  induction l with
  | nil => rfl
  | cons a as ih =>
    rw [List.map_cons, sumL_cons, ih, List.filter_cons]
    cases P a with
    | true => simp [Rat.zero_mul, Rat.zero_add]
    | false => simp [Rat.one_mul, sumL_cons]

def allItems (t : Table Rat) (evss : List Events) : List (String × String) :=
  (t.obs.map (itemsOf t evss)).flatten

def otmBins (t : Table Rat) (evss : List Events) : List String :=
  sortS (firsts ((allItems t evss).map (·.2)))

def otmRow (t : Table Rat) (evss : List Events) (divide : Bool) (b : String) : List Rat :=
  sumRows t.samp.length
    ((t.rows.zip (evss.map items)).map (fun ri => ri.1.map (fun v => weight divide b ri.2 * v)))

theorem items_by_id (t : Table Rat) (hn : t.obs.Nodup) (evss : List Events) (hl : evss.length = t.obs.length) :
    t.obs.map (itemsOf t evss) = evss.map items := by
  have h := map_lookupBy_self hn evss hl
  have : t.obs.map (itemsOf t evss) = (t.obs.map (lookupBy t.obs evss)).map (fun o => items (o.getD [])) := by
    rw [List.map_map]; rfl
  rw [this, h, List.map_map]
  rfl

theorem otmBins_nodup (t : Table Rat) (evss : List Events) : (otmBins t evss).Nodup :=
  nodup_sortS _ (nodup_firsts _)

theorem mem_otmBins (t : Table Rat) (evss : List Events) (b : String) :
    b ∈ otmBins t evss ↔ b ∈ (allItems t evss).map (·.2) := by
  unfold otmBins
  rw [mem_sortS, mem_firsts]

theorem otmO_eq (t : Table Rat) (hn : t.obs.Nodup) (evss : List Events) (hl : evss.length = t.obs.length)
    (divide strict icm : Bool) (key : String) (hmd : t.omd.isNone = false)
    (hstrict : (strict && evss.any (fun evs => evs.any Option.isNone)) = false) :
    otmO t evss divide strict icm key =
      .ok { obs := otmBins t evss,
            rows := (otmBins t evss).map (otmRow t evss divide),
            omd := if icm && !(otmBins t evss).isEmpty then
                     some ((otmBins t evss).map (fun b => [(key, lastPath (allItems t evss) b)])) else none,
            samp := t.samp, smd := normMd t.smd, ttype := t.ttype } := by
  unfold otmO
  rw [hmd, hstrict]
  simp only [Bool.false_eq_true, if_false]
  unfold otmBins allItems otmRow
  rw [items_by_id t hn evss hl]

theorem otmRow_length (t : Table Rat) (ht : TableOk t) (evss : List Events) (divide : Bool) (b : String) :
    (otmRow t evss divide b).length = t.samp.length := by
  unfold otmRow
  apply sumRows_length
  intro r hr
  obtain ⟨ri, hri, rfl⟩ := List.mem_map.mp hr
  rw [List.length_map]
  exact ht.wf.2.1 _ (List.of_mem_zip hri).1

def otmG (samp : List Id) (s : Id) (w : List (String × String) → Rat) (o1 : Option (List Rat))
    (o2 : Option (List (String × String))) : Rat :=
  w (o2.getD []) * ((o1.bind (fun r => lookupBy samp r s)).getD 0)

theorem getD_map_mul (o : Option Rat) (w : Rat) : (o.map (fun v => w * v)).getD 0 = w * o.getD 0 := by
  cases o <;> simp [Rat.mul_zero]

/-- `otm_add_cell` / divide cell at the oriented level: a bin's cell is Σ over vectors of
(listings of the bin, divided by the vector's number of groups in `divide` mode) × its count -/
theorem otmRow_cell (t : Table Rat) (ht : TableOk t) (evss : List Events) (hl : evss.length = t.obs.length)
    (divide : Bool) (b : String) {s : Id} (hs : s ∈ t.samp) :
    lookupBy t.samp (otmRow t evss divide b) s =
      some (sumOver t.obs (fun id => weight divide b (itemsOf t evss id) * cellD t id s)) := by
  unfold otmRow
  rw [lookupBy_sumRows t.samp hs]
  · congr 1
    rw [List.map_map]
    have h1 : ((fun r => (lookupBy t.samp r s).getD 0) ∘
        fun (ri : List Rat × List (String × String)) => ri.1.map (fun v => weight divide b ri.2 * v)) =
        fun ri => otmG t.samp s (weight divide b) (some ri.1) (some ri.2) := by
      funext ri
      simp only [otmG, Function.comp, lookupBy_map, getD_map_mul, Option.getD_some, Option.bind_some]
    rw [h1, zip_map_eq_ids_map ht.obsNodup t.rows (evss.map items) (otmG t.samp s (weight divide b)) ht.wf.1
      (by rw [List.length_map]; exact hl)]
    unfold sumOver
    congr 1
    apply List.map_congr_left
    intro id _
    simp only [otmG, lookupBy_map, cellD, Table.cell?, Table.row?, itemsOf]
    cases lookupBy t.obs evss id <;> rfl
  · intro r hr
    obtain ⟨ri, hri, rfl⟩ := List.mem_map.mp hr
    rw [List.length_map]
    exact ht.wf.2.1 _ (List.of_mem_zip hri).1

/-- the table the model returns in the non-error case -/
def otmTable (t : Table Rat) (evss : List Events) (divide icm : Bool) (key : String) : Table Rat :=
  { obs := otmBins t evss,
    rows := (otmBins t evss).map (otmRow t evss divide),
    omd := if icm && !(otmBins t evss).isEmpty then
             some ((otmBins t evss).map (fun b => [(key, lastPath (allItems t evss) b)])) else none,
    samp := t.samp, smd := normMd t.smd, ttype := t.ttype }

theorem otmTable_cell (t : Table Rat) (ht : TableOk t) (evss : List Events) (hl : evss.length = t.obs.length)
    (divide icm : Bool) (key : String) {b : String} (hb : b ∈ otmBins t evss) {s : Id} (hs : s ∈ t.samp) :
    (otmTable t evss divide icm key).cell? b s =
      some (sumOver t.obs (fun id => weight divide b (itemsOf t evss id) * cellD t id s)) := by
  unfold Table.cell? Table.row? otmTable
  simp only
  rw [lookupBy_self_map _ _ (otmBins_nodup t evss) hb, Option.bind_some]
  exact otmRow_cell t ht evss hl divide b hs

theorem otmTable_wf (t : Table Rat) (ht : TableOk t) (evss : List Events) (divide icm : Bool) (key : String) :
    (otmTable t evss divide icm key).WF := by
  refine ⟨by simp [otmTable], ?_, ?_, fun md hmd => ht.wf.2.2.2 md (normMd_some hmd)⟩
  · intro r hr
    simp only [otmTable, List.mem_map] at hr
    obtain ⟨b, _, rfl⟩ := hr
    exact otmRow_length t ht evss divide b
  · intro md hmd
    simp only [otmTable] at hmd
    split at hmd
    · cases hmd; simp [otmTable]
    · cases hmd

theorem items_sub_bins (t : Table Rat) (evss : List Events) {id : Id} (hid : id ∈ t.obs) :
    ∀ p ∈ itemsOf t evss id, p.2 ∈ otmBins t evss := by
  intro p hp
  rw [mem_otmBins]
  apply List.mem_map_of_mem
  unfold allItems
  rw [List.mem_flatten]
  exact ⟨_, List.mem_map_of_mem hid, hp⟩

/-- `otm_divide_conserves` at the oriented level -/
theorem otmTable_divide_conserve (t : Table Rat) (ht : TableOk t) (evss : List Events)
    (hl : evss.length = t.obs.length) (icm : Bool) (key : String) {s : Id} (hs : s ∈ t.samp) :
    sumOver (otmTable t evss true icm key).obs (fun b => cellD (otmTable t evss true icm key) b s) =
      sumOver (t.obs.filter (fun id => !(itemsOf t evss id).isEmpty)) (fun id => cellD t id s) := by
  show sumOver (otmBins t evss) _ = _
  unfold sumOver
  have hcell : ∀ b ∈ otmBins t evss, cellD (otmTable t evss true icm key) b s =
      sumL (t.obs.map (fun id => weight true b (itemsOf t evss id) * cellD t id s)) := by
    intro b hb
    unfold cellD
    rw [otmTable_cell t ht evss hl true icm key hb hs]
    rfl
  rw [List.map_congr_left hcell,
    sumL_comm (otmBins t evss) t.obs (fun b id => weight true b (itemsOf t evss id) * cellD t id s)]
  have hinner : ∀ id ∈ t.obs,
      sumL ((otmBins t evss).map (fun b => weight true b (itemsOf t evss id) * cellD t id s)) =
        (if (itemsOf t evss id).isEmpty then (0 : Rat) else 1) * cellD t id s := by
    intro id hid
    rw [sumL_map_mul_right, weight_sum _ (otmBins_nodup t evss) _ (items_sub_bins t evss hid)]
  rw [List.map_congr_left hinner]
  exact sumL_indicator_mul t.obs (fun id => (itemsOf t evss id).isEmpty) (fun id => cellD t id s)

/-- the one-to-many predicate holds of what the model computes (oriented level) -/
theorem holdsOtmO_model (t : Table Rat) (ht : TableOk t) (evss : List Events) (hl : evss.length = t.obs.length)
    (divide strict icm : Bool) (key : String) :
    (holdsOtmO t evss divide strict icm key (otmO t evss divide strict icm key)).ok = true := by
  cases hmd : t.omd.isNone with
  | true => simp [holdsOtmO, otmO, hmd, Clauses.ok, isErr]
  | false =>
    cases hst : (strict && evss.any (fun evs => evs.any Option.isNone)) with
    | true => simp [holdsOtmO, otmO, hmd, hst, Clauses.ok, isErr]
    | false =>
      rw [otmO_eq t ht.obsNodup evss hl divide strict icm key hmd hst]
      show (holdsOtmO t evss divide strict icm key (.ok (otmTable t evss divide icm key))).ok = true
      unfold holdsOtmO
      rw [hmd, hst]
      have hall : (t.obs.map (itemsOf t evss)).flatten = allItems t evss := rfl
      simp only [Bool.false_eq_true, if_false, hall, Clauses.ok, List.all_cons, List.all_nil, Bool.and_true,
        Bool.and_eq_true, decide_eq_true_eq, List.all_eq_true, List.contains_iff_mem]
      refine ⟨(wfb_iff _).mpr (otmTable_wf t ht evss divide icm key), otmBins_nodup t evss, ⟨?_, ?_⟩, ?_, ?_,
        ⟨⟨rfl, fun s _ => by apply mdD_normMd_samp <;> rfl⟩, rfl⟩, ?_⟩
      · intro b hb; exact (mem_otmBins t evss b).mpr hb
      · intro b hb; exact (mem_otmBins t evss b).mp hb
      · intro b hb s hs
        exact otmTable_cell t ht evss hl divide icm key hb hs
      · cases icm with
        | true =>
          simp only [if_true, List.all_eq_true, decide_eq_true_eq]
          intro b hb
          have hb' : b ∈ otmBins t evss := hb
          have hne : (otmBins t evss).isEmpty = false := by
            cases hK : otmBins t evss with
            | nil => rw [hK] at hb'; cases hb'
            | cons a as => rfl
          unfold Table.mdOf? otmTable
          simp only [Table.md, Table.ids, hne, Bool.true_and, Bool.not_false, if_true, Option.bind_some]
          exact lookupBy_self_map _ _ (otmBins_nodup t evss) hb'
        | false => simp [otmTable]
      · cases divide with
        | false => simp
        | true =>
          simp only [if_true, List.all_eq_true, decide_eq_true_eq]
          intro s hs
          exact otmTable_divide_conserve t ht evss hl icm key hs

/-! ### cells of a transposed table, by ID -/

theorem lookupBy_eq_getElem? (ids : List Id) (xs : List β) {id : Id} (hm : id ∈ ids) :
    lookupBy ids xs id = xs[ids.idxOf id]? := by
  induction ids generalizing xs with
  | nil => cases hm
  | cons i is ih =>
    cases xs with
    | nil => simp [lookupBy_nil_right]
    | cons x xs =>
      rw [lookupBy_cons, List.idxOf_cons]
      by_cases he : i = id
      · simp [he]
      · have : (i == id) = false := by simpa using he
        rw [if_neg he, this]
        simp only [cond_false, List.getElem?_cons_succ]
        rcases List.mem_cons.mp hm with h | h
        · exact absurd h.symm he
        · exact ih xs h

theorem lookupBy_colAt (ids : List Id) (rows : List (List β)) (j : Nat) (h : ∀ r ∈ rows, j < r.length) (id : Id) :
    lookupBy ids (colAt rows j) id = (lookupBy ids rows id).bind (fun r => r[j]?) := by
  induction ids generalizing rows with
  | nil => simp [lookupBy_nil_left]
  | cons i is ih =>
    cases rows with
    | nil => simp [colAt, lookupBy_nil_right]
    | cons r rs =>
      have hj : j < r.length := h r List.mem_cons_self
      have hr : r[j]? = some r[j] := List.getElem?_eq_getElem hj
      have ih' := ih rs (fun r' hr' => h r' (List.mem_cons_of_mem _ hr'))
      unfold colAt at ih' ⊢
      rw [List.filterMap_cons, hr, lookupBy_cons, lookupBy_cons]
      split
      · simp [hr]
      · exact ih'

/-- the (s, o) cell of the transposed table is the (o, s) cell of the table -/
theorem transpose_cell (q : Table α) (hq : q.WF) {o s : Id} (hs : s ∈ q.samp) :
    q.transpose.cell? s o = q.cell? o s := by
  obtain ⟨h1, h2, _, _⟩ := hq
  unfold Table.cell? Table.row?
  show (lookupBy q.samp (transposeGrid q.samp.length q.rows) s).bind (fun r => lookupBy q.obs r o) =
    (lookupBy q.obs q.rows o).bind (fun r => lookupBy q.samp r s)
  have hidx : q.samp.idxOf s < q.samp.length := List.idxOf_lt_length_of_mem hs
  rw [lookupBy_eq_getElem? q.samp _ hs]
  unfold transposeGrid
  rw [List.getElem?_map, List.getElem?_range hidx]
  simp only [Option.map_some, Option.bind_some]
  rw [lookupBy_colAt q.obs q.rows _ (fun r hr => by rw [h2 r hr]; exact hidx)]
  cases hrow : lookupBy q.obs q.rows o with
  | none => rfl
  | some r =>
    simp only [Option.bind_some]
    rw [lookupBy_eq_getElem? q.samp r hs]

/-- the cell of (axis ID, other-axis ID), whichever axis is meant -/
def cellAx (ax : Axis) (t : Table α) (id oid : Id) : Option α :=
  match ax with
  | .obs => t.cell? id oid
  | .samp => t.cell? oid id

theorem cellAx_orient (ax : Axis) (q : Table α) (hq : q.WF) {id oid : Id} (hid : id ∈ q.obs) :
    cellAx ax (orient ax q) id oid = q.cell? id oid := by
  cases ax with
  | obs => rfl
  | samp =>
    show q.transpose.cell? oid id = q.cell? id oid
    have hq' := transpose_wf q hq
    have := transpose_cell q.transpose hq' (o := oid) (s := id) hid
    rw [transpose_transpose q hq] at this
    exact this.symm

theorem cellAx_of_orient (ax : Axis) (t : Table α) (ht : t.WF) {id oid : Id} (hid : id ∈ t.ids ax) :
    cellAx ax t id oid = (orient ax t).cell? id oid := by
  have h := cellAx_orient ax (orient ax t) (orient_wf ax t ht) (id := id) (oid := oid)
    (by rw [orient_obs]; exact hid)
  rw [orient_orient ax t ht] at h
  exact h

theorem orient_ids (ax : Axis) (q : Table α) : (orient ax q).ids ax = q.obs := by
  cases ax <;> rfl

theorem orient_ids_other (ax : Axis) (q : Table α) : (orient ax q).ids ax.other = q.samp := by
  cases ax <;> rfl

theorem orient_samp (ax : Axis) (t : Table α) : (orient ax t).samp = t.ids ax.other := by
  cases ax <;> rfl

theorem orient_md_other (ax : Axis) (q : Table α) : (orient ax q).md ax.other = q.smd := by
  cases ax <;> rfl

theorem orient_smd (ax : Axis) (t : Table α) : (orient ax t).smd = t.md ax.other := by
  cases ax <;> rfl

theorem orient_mdOf (ax : Axis) (q : Table α) (id : Id) : (orient ax q).mdOf? ax id = q.mdOf? .obs id := by
  cases ax <;> rfl

theorem mdOf_orient (ax : Axis) (t : Table α) (id : Id) : (orient ax t).mdOf? .obs id = t.mdOf? ax id := by
  cases ax <;> rfl

end Biom.C11
