/-
  BiomModel.Basic — the abstract specification layer of a BIOM table.

  A table is: ordered observation IDs, ordered sample IDs, a dense grid of values
  (one row per observation), optional per-ID metadata on each axis, and a type.
  Everything here is core Lean only (no Mathlib) so that the drivers link.
-/
namespace Biom

abbrev Id := String
/-- One metadata entry: key ↦ canonical JSON text of the value (opaque token). -/
abbrev Md := List (String × String)

inductive Axis where
  | obs | samp
  deriving Repr, DecidableEq, BEq, Inhabited

def Axis.other : Axis → Axis
  | .obs => .samp
  | .samp => .obs

/-- Error classes of the library, as a small enum (messages are never compared). -/
inductive Err where
  | tableException | unknownId | unknownAxis | disjointId | value | index | key | type | other
  deriving Repr, DecidableEq, BEq, Inhabited

def Err.name : Err → String
  | .tableException => "TableException" | .unknownId => "UnknownID" | .unknownAxis => "UnknownAxis"
  | .disjointId => "DisjointID" | .value => "Value" | .index => "Index" | .key => "Key"
  | .type => "Type" | .other => "Other"

structure Table (α : Type) where
  obs  : List Id
  samp : List Id
  rows : List (List α)
  omd  : Option (List Md) := none
  smd  : Option (List Md) := none
  ttype : Option String := none
  deriving Repr, DecidableEq, BEq

variable {α β : Type}

/-- Positional association: the element of `xs` that stands where `id` first stands in `ids`. -/
def lookupBy : List Id → List β → Id → Option β
  | i :: is, x :: xs, id => if i = id then some x else lookupBy is xs id
  | _, _, _ => none

/-- `id → position` as the library's `index_list` dict (later key wins is irrelevant when IDs are distinct). -/
def indexOf? (ids : List Id) (id : Id) : Option Nat :=
  let i := ids.idxOf id
  if i < ids.length then some i else none

/-- numpy `compress`: keep the elements whose mask bit is set. -/
def filterMask : List β → List Bool → List β
  | a :: as, b :: bs => if b then a :: filterMask as bs else filterMask as bs
  | _, _ => []

/-- Column `j` of a grid (entries missing from a ragged row are skipped; none are under `WF`). -/
def colAt (rows : List (List α)) (j : Nat) : List α := rows.filterMap (·[j]?)

def transposeGrid (nCols : Nat) (rows : List (List α)) : List (List α) :=
  (List.range nCols).map (colAt rows)

namespace Table

def ids (t : Table α) : Axis → List Id
  | .obs => t.obs
  | .samp => t.samp

def md (t : Table α) : Axis → Option (List Md)
  | .obs => t.omd
  | .samp => t.smd

/-- Shape well-formedness: one row per observation, one value per sample, metadata one entry per ID. -/
def WF (t : Table α) : Prop :=
  t.rows.length = t.obs.length ∧ (∀ r ∈ t.rows, r.length = t.samp.length) ∧
  (∀ m, t.omd = some m → m.length = t.obs.length) ∧ (∀ m, t.smd = some m → m.length = t.samp.length)

def wfb (t : Table α) : Bool :=
  t.rows.length == t.obs.length && t.rows.all (·.length == t.samp.length) &&
  (match t.omd with | some m => m.length == t.obs.length | none => true) &&
  (match t.smd with | some m => m.length == t.samp.length | none => true)

/-- Row of an observation, by ID. -/
def row? (t : Table α) (o : Id) : Option (List α) := lookupBy t.obs t.rows o

/-- Value of an (observation ID, sample ID) pair; `none` when either ID is absent. -/
def cell? (t : Table α) (o s : Id) : Option α := (t.row? o).bind (fun r => lookupBy t.samp r s)

/-- Column of a sample, by ID. -/
def col? (t : Table α) (s : Id) : Option (List α) :=
  (indexOf? t.samp s).map (colAt t.rows)

/-- The vector of an ID on an axis. -/
def vec? (t : Table α) : Axis → Id → Option (List α)
  | .obs, id => t.row? id
  | .samp, id => t.col? id

/-- Metadata entry of an ID on an axis (`none` when the axis has no metadata or the ID is absent). -/
def mdOf? (t : Table α) (ax : Axis) (id : Id) : Option Md :=
  (t.md ax).bind (fun m => lookupBy (t.ids ax) m id)

def transpose (t : Table α) : Table α :=
  { obs := t.samp, samp := t.obs, rows := transposeGrid t.samp.length t.rows,
    omd := t.smd, smd := t.omd, ttype := t.ttype }

end Table

/-- Sum of a list with an explicit zero (so that models stay Mathlib-free). -/
def sumL [Add α] [Zero α] (xs : List α) : α := xs.foldr (· + ·) 0

end Biom
