/-
  C17 — all accepted construction inputs agree; malformed input is always rejected.

  Model of: the converters at the end of `biom/table.py` (`coo_arrays_to_sparse`,
  `list_list_to_sparse`, `nparray_to_sparse`, `list_nparray_to_sparse`, `list_sparse_to_sparse`,
  `list_dict_to_sparse` with its row/column orientation guess, `dict_to_sparse`), the dispatch of
  `Table._to_sparse`, the constructor (metadata normalisation, `errcheck` under an error profile —
  kinds visited in sorted order, the first triggering kind decides —, `_cast_metadata`),
  `Table.from_adjacency`, `parse_uc` and the fasta renaming of `biom from-uc`.

  scipy is a parameter with a recorded contract:
    * `coo_matrix((vals,(rows,cols)), shape=(n,m)).tocsr()` = `cooDense n m` (an index outside the
      shape is a ValueError, duplicate coordinates are summed, stored zeros are not content);
    * `coo_matrix(dense)` keeps the dense content and lists the non-zero entries in row-major order;
    * `tocsr()`, `astype(float)`, `eliminate_zeros()`, `vstack` keep the dense content.
-/
import BiomModel.Codec
open Lean

namespace Biom.C17

abbrev Grid := List (List Rat)
abbrev Coord := Nat × Nat
abbrev Triple := Nat × Nat × Rat
abbrev Dict := List (Coord × Rat)

/-- a matrix with its shape (a 0×m matrix has no rows but m columns) -/
structure Mat where
  nR : Nat
  nC : Nat
  rows : Grid
  deriving Repr, DecidableEq, BEq

/-! ### scipy contract -/

/-- the values stored for cell (i,j), in storage order -/
def cellVals (ts : List Triple) (i j : Nat) : List Rat :=
  (ts.filter (fun t => t.1 == i && t.2.1 == j)).map (·.2.2)

def cellSum (ts : List Triple) (i j : Nat) : Rat := sumL (cellVals ts i j)

def inRange (n m : Nat) (ts : List Triple) : Bool := ts.all (fun t => decide (t.1 < n) && decide (t.2.1 < m))

def tabulate (n m : Nat) (f : Nat → Nat → Rat) : Grid :=
  (List.range n).map (fun i => (List.range m).map (f i))

/-- `coo_matrix((vals,(rows,cols)), shape=(n,m)).tocsr()` seen densely -/
def cooDense (n m : Nat) (ts : List Triple) : Except Err Mat :=
  if inRange n m ts then .ok ⟨n, m, tabulate n m (cellSum ts)⟩ else .error .value

def maxL (xs : List Nat) : Nat := xs.foldr max 0

/-- non-zero entries of one dense row, left to right -/
def rowTriples (i : Nat) : Nat → List Rat → List Triple
  | _, [] => []
  | j, v :: vs => if v = 0 then rowTriples i (j + 1) vs else (i, j, v) :: rowTriples i (j + 1) vs

/-- `coo_matrix(dense)`: the non-zero entries in row-major order -/
def gridTriples : Nat → Grid → List Triple
  | _, [] => []
  | i, r :: rs => rowTriples i 0 r ++ gridTriples (i + 1) rs

/-- `coo_matrix(nested lists)`: shape and entries; ragged lists are a ValueError of numpy -/
def cooOfLists (ls : Grid) : Except Err (Nat × Nat × List Triple) :=
  let m := (ls.headD []).length
  if ls.all (fun r => r.length == m) then .ok (ls.length, m, gridTriples 0 ls) else .error .value

/-! ### the converters -/

/-- `coo_arrays_to_sparse((values,(rows,cols)), shape=…)` -/
def cooArraysToSparse (ts : List Triple) (shape : Option (Nat × Nat)) : Except Err Mat :=
  match shape with
  | some (n, m) => cooDense n m ts
  | none =>
    if ts.isEmpty then .error .value   -- max() of an empty sequence
    else cooDense (maxL (ts.map (·.1)) + 1) (maxL (ts.map (·.2.1)) + 1) ts

def natOfRat? (q : Rat) : Option Nat :=
  if q.den = 1 then (if 0 ≤ q.num then some q.num.toNat else none) else none

/-- one `[row, col, value]` list -/
def tripleOfRow? : List Rat → Option Triple
  | [r, c, v] => do pure ((← natOfRat? r), (← natOfRat? c), v)
  | _ => none

def triplesOf? (ls : Grid) : Option (List Triple) := ls.mapM tripleOfRow?

/-- `list_list_to_sparse(data, shape=…)`: `rows, cols, values = zip(*data)` -/
def listListToSparse (ls : Grid) (shape : Option (Nat × Nat)) : Except Err Mat :=
  match triplesOf? ls with
  | none => .error .value
  | some ts => cooArraysToSparse ts shape

/-- `nparray_to_sparse` on a 1-D array -/
def vecToSparse (v : List Rat) : Mat :=
  if v.length = 0 then ⟨0, 0, []⟩ else ⟨1, v.length, [v]⟩

/-- `nparray_to_sparse` on a 2-D array of shape (nR, nC) -/
def arrToSparse (nR nC : Nat) (rows : Grid) : Mat :=
  if (nR = 1 ∧ nC = 0) ∨ (nR = 0 ∧ nC = 1) then ⟨0, 0, []⟩ else ⟨nR, nC, rows⟩

/-- `list_nparray_to_sparse`: shape (len(data), len(data[0])) -/
def listNparrayToSparse (rows : Grid) : Except Err Mat :=
  let m := (rows.headD []).length
  if rows.all (fun r => r.length == m) then .ok ⟨rows.length, m, rows⟩ else .error .value

/-- `list_sparse_to_sparse`: `vstack(data)`; the `shape=` it computes is ignored by scipy when the
argument already is a sparse matrix -/
def listSparseToSparse (ms : List Mat) : Except Err Mat :=
  match ms with
  | [] => .error .index
  | m0 :: _ =>
    if ms.all (fun m => m.nC == m0.nC) then
      .ok ⟨sumL (ms.map (·.nR)), m0.nC, ms.flatMap (·.rows)⟩
    else .error .value

/-- the coordinate triples `list_dict_to_sparse` emits: entry `((row_val, col_idx), val)` of the
dict at list position `idx` goes to `(row_val, idx)` when the list is taken as columns and to
`(idx, col_idx)` otherwise -/
def enumTriples (isCol : Bool) : Nat → List Dict → List Triple
  | _, [] => []
  | idx, d :: rest =>
    d.map (fun e => if isCol then (e.1.1, idx, e.2) else (idx, e.1.2, e.2)) ++ enumTriples isCol (idx + 1) rest

def allKeys (ds : List Dict) : List Coord := ds.flatMap (fun d => d.map (·.1))

/-- the orientation guess: more rows than columns among the keys ⇒ the dicts are columns -/
def guessIsCol (ds : List Dict) : Bool :=
  maxL ((allKeys ds).map (·.1)) + 1 > maxL ((allKeys ds).map (·.2)) + 1

def listDictToSparse (ds : List Dict) : Except Err Mat :=
  if (allKeys ds).isEmpty then .error .value   -- max() of an empty sequence
  else
    let nR0 := maxL ((allKeys ds).map (·.1)) + 1
    let nC0 := maxL ((allKeys ds).map (·.2)) + 1
    let isCol := guessIsCol ds
    let nR := if isCol then nR0 else ds.length
    let nC := if isCol then ds.length else nC0
    cooDense nR nC (enumTriples isCol 0 ds)

def dictTriples (d : Dict) : List Triple := d.map (fun e => (e.1.1, e.1.2, e.2))

/-- `dict_to_sparse(data, shape=…)` -/
def dictToSparse (d : Dict) (shape : Option (Nat × Nat)) : Except Err Mat :=
  match shape with
  | some s => cooArraysToSparse (dictTriples d) (some s)
  | none =>
    if d.isEmpty then .error .value
    else cooArraysToSparse (dictTriples d)
      (some (maxL (d.map (·.1.1)) + 1, maxL (d.map (·.1.2)) + 1))

/-! ### `_to_sparse`: dispatch on the run-time type of the value / of its first element -/

inductive Data where
  | vec (v : List Rat)                       -- 1-D ndarray
  | arr (nR nC : Nat) (rows : Grid)          -- 2-D ndarray of shape (nR, nC)
  | emptyList                                -- []
  | listArr (rows : Grid)                    -- non-empty list whose first element is a 1-D ndarray
  | listDict (ds : List Dict)                -- … a dict {(r,c): v}
  | listSparse (ms : List Mat)               -- … a scipy sparse matrix
  | dict (d : Dict)                          -- dict {(r,c): v}
  | listList (ls : Grid)                     -- … a list: `[r,c,v]` triples, or dense rows with `input_is_dense`
  | sparse (m : Mat)                         -- scipy sparse matrix of any layout, seen densely
  | unknown                                  -- anything else
  deriving Repr, DecidableEq

def toSparse (d : Data) (inputIsDense : Bool) (shape : Nat × Nat) : Except Err Mat :=
  match d with
  | .vec v => .ok (vecToSparse v)
  | .arr nR nC rows => .ok (arrToSparse nR nC rows)
  | .emptyList => .ok ⟨0, 0, []⟩
  | .listArr rows => listNparrayToSparse rows
  | .listDict ds => listDictToSparse ds
  | .listSparse ms => listSparseToSparse ms
  | .dict d => dictToSparse d (some shape)
  | .listList ls =>
    if inputIsDense then do
      let (n, m, ts) ← cooOfLists ls
      if (n, m) ≠ shape then .error .tableException
      else cooArraysToSparse ts (some shape)
    else listListToSparse ls (some shape)
  | .sparse m => .ok m
  | .unknown => .error .tableException

/-! ### the constructor -/

/-- one entry of a metadata sequence as the constructor sees it -/
inductive MdEntry where
  | map (m : Md)     -- a dict
  | null             -- None
  | other            -- anything else (a string, a list, a number …)
  deriving Repr, DecidableEq

def MdEntry.blank : MdEntry → Bool
  | .map m => m.isEmpty
  | .null => true
  | .other => false

def MdEntry.isOther : MdEntry → Bool
  | .other => true
  | _ => false

def MdEntry.toMd : MdEntry → Md
  | .map m => m
  | _ => []

structure Input where
  data : Data
  obs : List Id
  samp : List Id
  omd : Option (List MdEntry) := none
  smd : Option (List MdEntry) := none
  inputIsDense : Bool := false
  deriving Repr

/-- `no_metadata(md, ids)`: exactly one None/empty mapping per ID ⇒ the axis has no metadata -/
def normMd (md : Option (List MdEntry)) (ids : List Id) : Option (List MdEntry) :=
  match md with
  | none => none
  | some l => if l.length == ids.length && l.all MdEntry.blank then none else some l

/-- `len(set(ids))` -/
def dedup : List Id → List Id
  | [] => []
  | x :: xs => if x ∈ xs then dedup xs else x :: dedup xs

/-- the registered error kinds in the order `ErrorProfile.test` visits them (`sorted(names)`) -/
def kindsSorted : List String :=
  ["empty", "obsdup", "obsmdsize", "obssize", "sampdup", "sampmdsize", "sampsize"]

/-- the reaction configured by default -/
def defaultProfile (k : String) : String := if k = "empty" then "ignore" else "raise"

/-- the test function of each kind, on the half-built table -/
def fires (M : Mat) (obs samp : List Id) (omd smd : Option (List MdEntry)) (k : String) : Bool :=
  if k = "empty" then obs.isEmpty || samp.isEmpty
  else if k = "obsdup" then M.nR != (dedup obs).length
  else if k = "obsmdsize" then (match omd with | some l => M.nR != l.length | none => false)
  else if k = "obssize" then M.nR != obs.length
  else if k = "sampdup" then M.nC != (dedup samp).length
  else if k = "sampmdsize" then (match smd with | some l => M.nC != l.length | none => false)
  else if k = "sampsize" then M.nC != samp.length
  else false

/-- `errcheck(self)`: the first kind whose test fires decides; only `raise` stops the constructor -/
def errcheck (prof : String → String) (M : Mat) (obs samp : List Id)
    (omd smd : Option (List MdEntry)) : Except Err Unit :=
  match kindsSorted.find? (fires M obs samp omd smd) with
  | none => .ok ()
  | some k => if prof k = "raise" then .error .tableException else .ok ()

/-- `cast_metadata(md)` -/
def castMd (md : Option (List MdEntry)) : Except Err (Option (List Md)) :=
  match md with
  | none => .ok none
  | some l =>
    if l.all (fun e => e == .null) then .ok none
    else if l.any MdEntry.isOther then .error .tableException
    else .ok (some (l.map MdEntry.toMd))

/-- everything after `_to_sparse` -/
def finish (prof : String → String) (M : Mat) (obs samp : List Id)
    (omd smd : Option (List MdEntry)) : Except Err (Table Rat) := do
  let smd' := normMd smd samp
  let omd' := normMd omd obs
  errcheck prof M obs samp omd' smd'
  let s ← castMd smd'
  let o ← castMd omd'
  pure { obs := obs, samp := samp, rows := M.rows, omd := o, smd := s }

def constructWith (prof : String → String) (inp : Input) : Except Err (Table Rat) := do
  let M ← toSparse inp.data inp.inputIsDense (inp.obs.length, inp.samp.length)
  finish prof M inp.obs inp.samp inp.omd inp.smd

/-- `Table(data, observation_ids, sample_ids, observation_metadata, sample_metadata,
input_is_dense=…)` under the default error profile -/
def construct (inp : Input) : Except Err (Table Rat) := constructWith defaultProfile inp

/-! ### `Table.from_adjacency` -/

/-- one line: its tab-separated fields and what `float()` makes of the third one (none: not numeric) -/
structure AdjLine where
  fields : List String
  num : Option Rat
  deriving Repr, DecidableEq

def adjHeader : List String := ["#OTU ID", "SampleID", "value"]

/-- insertion into a strictly increasing list (`sorted(set(...))`) -/
def insertS (x : String) : List String → List String
  | [] => [x]
  | y :: ys => if x < y then x :: y :: ys else if x = y then y :: ys else y :: insertS x ys

def sortDedup (xs : List String) : List String := xs.foldr insertS []

/-- (observation, sample, value) of a record line; a line without three fields trips the `assert`,
a non-numeric value is float()'s ValueError -/
def adjRecord (l : AdjLine) : Except Err (String × String × Rat) :=
  match l.fields with
  | [o, s, _] => match l.num with
    | some v => .ok (o, s, v)
    | none => .error .value
  | _ => .error .other

/-- which lines are records: the first line is skipped when it is the header, kept when its third
field is numeric, and anything else is refused -/
def adjBody (lines : List AdjLine) : Except Err (List AdjLine) :=
  match lines with
  | [] => .error .index
  | l0 :: rest =>
    if l0.fields.length ≠ 3 then .error .value
    else if l0.fields = adjHeader then .ok rest
    else if l0.num.isSome then .ok (l0 :: rest)
    else .error .value

def adjTriples (oo so : List String) (recs : List (String × String × Rat)) : List Triple :=
  recs.map (fun r => (oo.idxOf r.1, so.idxOf r.2.1, r.2.2))

def fromAdjacency (lines : List AdjLine) : Except Err (Table Rat) := do
  let body ← adjBody lines
  let recs ← body.mapM adjRecord
  let oo := sortDedup (recs.map (·.1))
  let so := sortDedup (recs.map (·.2.1))
  let ts := adjTriples oo so recs
  -- coo_matrix((data,(row,col))) without a shape: inferred from the largest index
  let M ← cooArraysToSparse ts none
  construct { data := .sparse M, obs := oo, samp := so }

/-! ### `parse_uc` and `from-uc` -/

def isWs (c : Char) : Bool := c == ' ' || c == '\t' || c == '\n' || c == '\r' || c == '\x0b' || c == '\x0c'

/-- `s.split()[0]` on characters -/
def firstTokenL (cs : List Char) : Option (List Char) :=
  match (cs.dropWhile isWs).takeWhile (fun c => !isWs c) with
  | [] => none
  | t => some t

def firstToken (s : String) : Option String := (firstTokenL s.toList).map String.ofList

/-- `q[:q.rindex('_')]` on characters: the text before the last underscore -/
def beforeLastUnderscore : List Char → Option (List Char)
  | [] => none
  | c :: cs =>
    match beforeLastUnderscore cs with
    | some p => some (c :: p)
    | none => if c = '_' then some [] else none

def sampleOf (q : String) : Option String := (beforeLastUnderscore q.toList).map String.ofList

/-- a record of interest: type letter, seed (observation) label, query label -/
structure UcRec where
  ty : String
  seed : String
  query : String
  deriving Repr, DecidableEq

/-- one line (already `strip()`ped and split on tabs): `none` = skipped -/
def ucRecord (fields : List String) : Except Err (Option UcRec) :=
  match fields with
  | [] => .ok none
  | ty :: _ =>
    if ty = "H" || ty = "S" || ty = "L" then
      match fields[9]?, fields[8]? with
      | some f9, some f8 =>
        match firstToken f9, firstToken f8 with
        | some o, some q => .ok (some ⟨ty, if o = "*" then q else o, q⟩)
        | _, _ => .error .index
      | _, _ => .error .index
    else .ok none

structure UcState where
  obsIds : List String := []
  sampIds : List String := []
  data : Dict := []
  deriving Repr

/-- `data[(i, j)] += 1` on a defaultdict(int) kept as an association list -/
def bump (d : Dict) (k : Coord) : Dict :=
  match d with
  | [] => [(k, 1)]
  | e :: rest => if e.1 = k then (e.1, e.2 + 1) :: rest else e :: bump rest k

/-- index of an identifier, appended when it is new -/
def intern (ids : List String) (x : String) : Nat × List String :=
  if x ∈ ids then (ids.idxOf x, ids) else (ids.length, ids ++ [x])

def ucStep (st : UcState) (r : UcRec) : Except Err UcState :=
  let (oi, obsIds) := intern st.obsIds r.seed
  if r.ty = "H" || r.ty = "S" then
    match sampleOf r.query with
    | none => .error .value
    | some s =>
      let (si, sampIds) := intern st.sampIds s
      .ok { obsIds := obsIds, sampIds := sampIds, data := bump st.data (oi, si) }
  else .ok { st with obsIds := obsIds }

def ucFold (st : UcState) : List UcRec → Except Err UcState
  | [] => .ok st
  | r :: rs => do let st' ← ucStep st r; ucFold st' rs

def ucRecords (lines : List (List String)) : Except Err (List UcRec) := do
  let rs ← lines.mapM ucRecord
  pure (rs.filterMap id)

def parseUc (lines : List (List String)) : Except Err (Table Rat) := do
  let recs ← ucRecords lines
  let st ← ucFold {} recs
  construct { data := .dict st.data, obs := st.obsIds, samp := st.sampIds }

/-- `line.split()` on characters -/
def tokensAux : List Char → List Char → List (List Char)
  | cur, [] => if cur.isEmpty then [] else [cur.reverse]
  | cur, c :: cs =>
    if isWs c then (if cur.isEmpty then tokensAux [] cs else cur.reverse :: tokensAux [] cs)
    else tokensAux (c :: cur) cs

def tokens (s : String) : List String := (tokensAux [] s.toList).map String.ofList

/-- `_id_map_from_fasta`: `>obs_id seq_id …` lines give `seq_id ↦ obs_id`, in file order -/
def fastaMap : List String → Except Err (List (String × String))
  | [] => .ok []
  | l :: rest =>
    match l.toList with
    | '>' :: _ =>
      match tokens l with
      | a :: b :: _ => do
        let m ← fastaMap rest
        pure ((b, String.ofList (a.toList.drop 1)) :: m)
      | _ => .error .value
    | _ => fastaMap rest

/-- later entries win: look the key up from the back -/
def mapGet (m : List (String × String)) (k : String) : Option String := m.reverse.lookup k

/-- `update_ids(id_map, axis='observation', strict=True, inplace=True)` wrapped by `_from_uc`:
every refusal becomes a ValueError -/
def renameObs (t : Table Rat) (m : List (String × String)) : Except Err (Table Rat) :=
  if m.isEmpty then .error .value   -- max() of an empty sequence
  else match t.obs.mapM (mapGet m) with
    | none => .error .value
    | some ids =>
      if (dedup ids).length ≠ ids.length then .error .value
      else .ok { t with obs := ids }

def fromUc (lines : List (List String)) (fasta : Option (List String)) : Except Err (Table Rat) := do
  let t ← parseUc lines
  match fasta with
  | none => pure t
  | some fl => do
    let m ← fastaMap fl
    renameObs t m

end Biom.C17
