import BiomModel.Codec
open Lean
namespace Biom.C17
/-- stub: not built yet -/
def handle (_req : Json) : Codec.R Json := .error "C17: model not built yet"
end Biom.C17
