/-
  C17 — all accepted construction inputs agree; malformed input is always rejected.

  Model of: the converters at the end of `biom/table.py` (`coo_arrays_to_sparse`,
  `list_list_to_sparse`, `nparray_to_sparse`, `list_nparray_to_sparse`, `list_sparse_to_sparse`,
  `list_dict_to_sparse` with its row/column orientation guess, `dict_to_sparse`), the dispatch of
  `Table._to_sparse`, the constructor (metadata normalisation, `errcheck` under an error profile —
  kinds visited in sorted order, the first triggering kind decides —, `_cast_metadata`),
  `Table.from_adjacency`, `parse_uc` and the fasta renaming of `biom from-uc`.

  scipy is a parameter with a recorded contract:
    * `coo_matrix((vals,(rows,cols)), shape=(n,m)).tocsr()` = `cooDense n m` (an index outside the
      shape is a ValueError, duplicate coordinates are summed, stored zeros are not content);
    * `coo_matrix(dense)` keeps the dense content and lists the non-zero entries in row-major order;
    * `tocsr()`, `astype(float)`, `eliminate_zeros()`, `vstack` keep the dense content.
-/
import BiomModel.Codec
open Lean

namespace Biom.C17

abbrev Grid := List (List Rat)
abbrev Coord := Nat × Nat
abbrev Triple := Nat × Nat × Rat
abbrev Dict := List (Coord × Rat)

/-- a matrix with its shape (a 0×m matrix has no rows but m columns) -/
structure Mat where
  nR : Nat
  nC : Nat
  rows : Grid
  deriving Repr, DecidableEq, BEq

/-! ### scipy contract -/

/-- the values stored for cell (i,j), in storage order -/
def cellVals (ts : List Triple) (i j : Nat) : List Rat :=
  (ts.filter (fun t => t.1 == i && t.2.1 == j)).map (·.2.2)

def cellSum (ts : List Triple) (i j : Nat) : Rat := sumL (cellVals ts i j)

def inRange (n m : Nat) (ts : List Triple) : Bool := ts.all (fun t => decide (t.1 < n) && decide (t.2.1 < m))

def tabulate (n m : Nat) (f : Nat → Nat → Rat) : Grid :=
  (List.range n).map (fun i => (List.range m).map (f i))

/-- `coo_matrix((vals,(rows,cols)), shape=(n,m)).tocsr()` seen densely -/
def cooDense (n m : Nat) (ts : List Triple) : Except Err Mat :=
  if inRange n m ts then .ok ⟨n, m, tabulate n m (cellSum ts)⟩ else .error .value

def maxL (xs : List Nat) : Nat := xs.foldr max 0

/-- non-zero entries of one dense row, left to right -/
def rowTriples (i : Nat) : Nat → List Rat → List Triple
  | _, [] => []
  | j, v :: vs => if v = 0 then rowTriples i (j + 1) vs else (i, j, v) :: rowTriples i (j + 1) vs

/-- `coo_matrix(dense)`: the non-zero entries in row-major order -/
def gridTriples : Nat → Grid → List Triple
  | _, [] => []
  | i, r :: rs => rowTriples i 0 r ++ gridTriples (i + 1) rs

/-- `coo_matrix(nested lists)`: shape and entries; ragged lists are a ValueError of numpy -/
def cooOfLists (ls : Grid) : Except Err (Nat × Nat × List Triple) :=
  let m := (ls.headD []).length
  if ls.all (fun r => r.length == m) then .ok (ls.length, m, gridTriples 0 ls) else .error .value

/-! ### the converters -/

/-- `coo_arrays_to_sparse((values,(rows,cols)), shape=…)` -/
def cooArraysToSparse (ts : List Triple) (shape : Option (Nat × Nat)) : Except Err Mat :=
  match shape with
  | some (n, m) => cooDense n m ts
  | none =>
    if ts.isEmpty then .error .value   -- max() of an empty sequence
    else cooDense (maxL (ts.map (·.1)) + 1) (maxL (ts.map (·.2.1)) + 1) ts

def natOfRat? (q : Rat) : Option Nat :=
  if q.den = 1 then (if 0 ≤ q.num then some q.num.toNat else none) else none

/-- one `[row, col, value]` list -/
def tripleOfRow? : List Rat → Option Triple
  | [r, c, v] => do pure ((← natOfRat? r), (← natOfRat? c), v)
  | _ => none

def triplesOf? (ls : Grid) : Option (List Triple) := ls.mapM tripleOfRow?

/-- `list_list_to_sparse(data, shape=…)`: `rows, cols, values = zip(*data)` -/
def listListToSparse (ls : Grid) (shape : Option (Nat × Nat)) : Except Err Mat :=
  match triplesOf? ls with
  | none => .error .value
  | some ts => cooArraysToSparse ts shape

/-- `nparray_to_sparse` on a 1-D array -/
def vecToSparse (v : List Rat) : Mat :=
  if v.length = 0 then ⟨0, 0, []⟩ else ⟨1, v.length, [v]⟩

/-- `nparray_to_sparse` on a 2-D array of shape (nR, nC) -/
def arrToSparse (nR nC : Nat) (rows : Grid) : Mat :=
  if (nR = 1 ∧ nC = 0) ∨ (nR = 0 ∧ nC = 1) then ⟨0, 0, []⟩ else ⟨nR, nC, rows⟩

/-- `list_nparray_to_sparse`: shape (len(data), len(data[0])) -/
def listNparrayToSparse (rows : Grid) : Except Err Mat :=
  let m := (rows.headD []).length
  if rows.all (fun r => r.length == m) then .ok ⟨rows.length, m, rows⟩ else .error .value

/-- `list_sparse_to_sparse`: `vstack(data)`; the `shape=` it computes is ignored by scipy when the
argument already is a sparse matrix -/
def listSparseToSparse (ms : List Mat) : Except Err Mat :=
  match ms with
  | [] => .error .index
  | m0 :: _ =>
    if ms.all (fun m => m.nC == m0.nC) then
      .ok ⟨sumL (ms.map (·.nR)), m0.nC, ms.flatMap (·.rows)⟩
    else .error .value

/-- the coordinate triples `list_dict_to_sparse` emits: entry `((row_val, col_idx), val)` of the
dict at list position `idx` goes to `(row_val, idx)` when the list is taken as columns and to
`(idx, col_idx)` otherwise -/
def enumTriples (isCol : Bool) : Nat → List Dict → List Triple
  | _, [] => []
  | idx, d :: rest =>
    d.map (fun e => if isCol then (e.1.1, idx, e.2) else (idx, e.1.2, e.2)) ++ enumTriples isCol (idx + 1) rest

def allKeys (ds : List Dict) : List Coord := ds.flatMap (fun d => d.map (·.1))

/-- the orientation guess: more rows than columns among the keys ⇒ the dicts are columns -/
def guessIsCol (ds : List Dict) : Bool :=
  maxL ((allKeys ds).map (·.1)) + 1 > maxL ((allKeys ds).map (·.2)) + 1

def listDictToSparse (ds : List Dict) : Except Err Mat :=
  if (allKeys ds).isEmpty then .error .value   -- max() of an empty sequence
  else
    let nR0 := maxL ((allKeys ds).map (·.1)) + 1
    let nC0 := maxL ((allKeys ds).map (·.2)) + 1
    let isCol := guessIsCol ds
    let nR := if isCol then nR0 else ds.length
    let nC := if isCol then ds.length else nC0
    cooDense nR nC (enumTriples isCol 0 ds)

def dictTriples (d : Dict) : List Triple := d.map (fun e => (e.1.1, e.1.2, e.2))

/-- `dict_to_sparse(data, shape=…)` -/
def dictToSparse (d : Dict) (shape : Option (Nat × Nat)) : Except Err Mat :=
  match shape with
  | some s => cooArraysToSparse (dictTriples d) (some s)
  | none =>
    if d.isEmpty then .error .value
    else cooArraysToSparse (dictTriples d)
      (some (maxL (d.map (·.1.1)) + 1, maxL (d.map (·.1.2)) + 1))

/-! ### `_to_sparse`: dispatch on the run-time type of the value / of its first element -/

inductive Data where
  | vec (v : List Rat)                       -- 1-D ndarray
  | arr (nR nC : Nat) (rows : Grid)          -- 2-D ndarray of shape (nR, nC)
  | emptyList                                -- []
  | listArr (rows : Grid)                    -- non-empty list whose first element is a 1-D ndarray
  | listDict (ds : List Dict)                -- … a dict {(r,c): v}
  | listSparse (ms : List Mat)               -- … a scipy sparse matrix
  | dict (d : Dict)                          -- dict {(r,c): v}
  | listList (ls : Grid)                     -- … a list: `[r,c,v]` triples, or dense rows with `input_is_dense`
  | sparse (m : Mat)                         -- scipy sparse matrix of any layout, seen densely
  | unknown                                  -- anything else
  deriving Repr, DecidableEq

def toSparse (d : Data) (inputIsDense : Bool) (shape : Nat × Nat) : Except Err Mat :=
  match d with
  | .vec v => .ok (vecToSparse v)
  | .arr nR nC rows => .ok (arrToSparse nR nC rows)
  | .emptyList => .ok ⟨shape.1, shape.2, tabulate shape.1 shape.2 (fun _ _ => 0)⟩   -- coo_matrix(shape)
  | .listArr rows => listNparrayToSparse rows
  | .listDict ds => listDictToSparse ds
  | .listSparse ms => listSparseToSparse ms
  | .dict d => dictToSparse d (some shape)
  | .listList ls =>
    if inputIsDense then do
      let (n, m, ts) ← cooOfLists ls
      if (n, m) ≠ shape then .error .tableException
      else cooArraysToSparse ts (some shape)
    else listListToSparse ls (some shape)
  | .sparse m => .ok m
  | .unknown => .error .tableException

/-! ### the constructor -/

/-- one entry of a metadata sequence as the constructor sees it -/
inductive MdEntry where
  | map (m : Md)     -- a dict
  | null             -- None
  | other            -- anything else (a string, a list, a number …)
  deriving Repr, DecidableEq

def MdEntry.blank : MdEntry → Bool
  | .map m => m.isEmpty
  | .null => true
  | .other => false

def MdEntry.isOther : MdEntry → Bool
  | .other => true
  | _ => false

def MdEntry.toMd : MdEntry → Md
  | .map m => m
  | _ => []

structure Input where
  data : Data
  obs : List Id
  samp : List Id
  omd : Option (List MdEntry) := none
  smd : Option (List MdEntry) := none
  inputIsDense : Bool := false
  deriving Repr

/-- `no_metadata(md, ids)`: exactly one None/empty mapping per ID ⇒ the axis has no metadata -/
def normMd (md : Option (List MdEntry)) (ids : List Id) : Option (List MdEntry) :=
  match md with
  | none => none
  | some l => if l.length == ids.length && l.all MdEntry.blank then none else some l

/-- `len(set(ids))` -/
def dedup : List Id → List Id
  | [] => []
  | x :: xs => if x ∈ xs then dedup xs else x :: dedup xs

/-- the registered error kinds in the order `ErrorProfile.test` visits them (`sorted(names)`) -/
def kindsSorted : List String :=
  ["empty", "obsdup", "obsmdsize", "obssize", "sampdup", "sampmdsize", "sampsize"]

/-- the reaction configured by default -/
def defaultProfile (k : String) : String := if k = "empty" then "ignore" else "raise"

/-- a profile given as overrides of the default one (`seterr` / `errstate` keywords) -/
def profOf (overrides : List (String × String)) (k : String) : String :=
  (overrides.lookup k).getD (defaultProfile k)

/-- the test function of each kind, on the half-built table -/
def fires (M : Mat) (obs samp : List Id) (omd smd : Option (List MdEntry)) (k : String) : Bool :=
  if k = "empty" then obs.isEmpty || samp.isEmpty
  else if k = "obsdup" then M.nR != (dedup obs).length
  else if k = "obsmdsize" then (match omd with | some l => M.nR != l.length | none => false)
  else if k = "obssize" then M.nR != obs.length
  else if k = "sampdup" then M.nC != (dedup samp).length
  else if k = "sampmdsize" then (match smd with | some l => M.nC != l.length | none => false)
  else if k = "sampsize" then M.nC != samp.length
  else false

/-- `errcheck(self)`: the first kind whose test fires decides; only `raise` stops the constructor -/
def errcheck (prof : String → String) (M : Mat) (obs samp : List Id)
    (omd smd : Option (List MdEntry)) : Except Err Unit :=
  match kindsSorted.find? (fires M obs samp omd smd) with
  | none => .ok ()
  | some k => if prof k = "raise" then .error .tableException else .ok ()

/-- `cast_metadata(md)` -/
def castMd (md : Option (List MdEntry)) : Except Err (Option (List Md)) :=
  match md with
  | none => .ok none
  | some l =>
    if l.all MdEntry.blank then .ok none   -- entries that are all None or empty mappings: no metadata
    else if l.any MdEntry.isOther then .error .tableException
    else .ok (some (l.map MdEntry.toMd))

/-- everything after `_to_sparse` -/
def finish (prof : String → String) (M : Mat) (obs samp : List Id)
    (omd smd : Option (List MdEntry)) : Except Err (Table Rat) := do
  let smd' := normMd smd samp
  let omd' := normMd omd obs
  errcheck prof M obs samp omd' smd'
  let s ← castMd smd'
  let o ← castMd omd'
  pure { obs := obs, samp := samp, rows := M.rows, omd := o, smd := s }

def constructWith (prof : String → String) (inp : Input) : Except Err (Table Rat) := do
  let M ← toSparse inp.data inp.inputIsDense (inp.obs.length, inp.samp.length)
  finish prof M inp.obs inp.samp inp.omd inp.smd

/-- `Table(data, observation_ids, sample_ids, observation_metadata, sample_metadata,
input_is_dense=…)` under the default error profile -/
def construct (inp : Input) : Except Err (Table Rat) := constructWith defaultProfile inp

/-! ### `Table.from_adjacency` -/

/-- one line: its tab-separated fields and what `float()` makes of the third one (none: not numeric) -/
structure AdjLine where
  fields : List String
  num : Option Rat
  deriving Repr, DecidableEq

def adjHeader : List String := ["#OTU ID", "SampleID", "value"]

/-- insertion into a strictly increasing list (`sorted(set(...))`) -/
def insertS (x : String) : List String → List String
  | [] => [x]
  | y :: ys => if x < y then x :: y :: ys else if x = y then y :: ys else y :: insertS x ys

def sortDedup (xs : List String) : List String := xs.foldr insertS []

/-- (observation, sample, value) of a record line; a line without three fields trips the `assert`,
a non-numeric value is float()'s ValueError -/
def adjRecord (l : AdjLine) : Except Err (String × String × Rat) :=
  match l.fields with
  | [o, s, _] => match l.num with
    | some v => .ok (o, s, v)
    | none => .error .value
  | _ => .error .other

/-- which lines are records: the first line is skipped when it is the header, kept when its third
field is numeric, and anything else is refused -/
def adjBody (lines : List AdjLine) : Except Err (List AdjLine) :=
  match lines with
  | [] => .error .index
  | l0 :: rest =>
    if l0.fields.length ≠ 3 then .error .value
    else if l0.fields = adjHeader then .ok rest
    else if l0.num.isSome then .ok (l0 :: rest)
    else .error .value

def adjTriples (oo so : List String) (recs : List (String × String × Rat)) : List Triple :=
  recs.map (fun r => (oo.idxOf r.1, so.idxOf r.2.1, r.2.2))

def fromAdjacency (lines : List AdjLine) : Except Err (Table Rat) := do
  let body ← adjBody lines
  let recs ← body.mapM adjRecord
  let oo := sortDedup (recs.map (·.1))
  let so := sortDedup (recs.map (·.2.1))
  let ts := adjTriples oo so recs
  -- coo_matrix((data,(row,col))) without a shape: inferred from the largest index
  let M ← cooArraysToSparse ts none
  construct { data := .sparse M, obs := oo, samp := so }

/-! ### `parse_uc` and `from-uc` -/

def isWs (c : Char) : Bool := c == ' ' || c == '\t' || c == '\n' || c == '\r' || c == '\x0b' || c == '\x0c'

/-- `s.split()[0]` on characters -/
def firstTokenL (cs : List Char) : Option (List Char) :=
  match (cs.dropWhile isWs).takeWhile (fun c => !isWs c) with
  | [] => none
  | t => some t

def firstToken (s : String) : Option String := (firstTokenL s.toList).map String.ofList

/-- `q[:q.rindex('_')]` on characters: the text before the last underscore -/
def beforeLastUnderscore : List Char → Option (List Char)
  | [] => none
  | c :: cs =>
    match beforeLastUnderscore cs with
    | some p => some (c :: p)
    | none => if c = '_' then some [] else none

def sampleOf (q : String) : Option String := (beforeLastUnderscore q.toList).map String.ofList

/-- a record of interest: type letter, seed (observation) label, query label -/
structure UcRec where
  ty : String
  seed : String
  query : String
  deriving Repr, DecidableEq

/-- one line (already `strip()`ped and split on tabs): `none` = skipped -/
def ucRecord (fields : List String) : Except Err (Option UcRec) :=
  match fields with
  | [] => .ok none
  | ty :: _ =>
    if ty = "H" || ty = "S" || ty = "L" then
      match fields[9]?, fields[8]? with
      | some f9, some f8 =>
        match firstToken f9, firstToken f8 with
        | some o, some q => .ok (some ⟨ty, if o = "*" then q else o, q⟩)
        | _, _ => .error .index
      | _, _ => .error .index
    else .ok none

structure UcState where
  obsIds : List String := []
  sampIds : List String := []
  data : Dict := []
  deriving Repr

/-- `data[(i, j)] += 1` on a defaultdict(int) kept as an association list -/
def bump (d : Dict) (k : Coord) : Dict :=
  match d with
  | [] => [(k, 1)]
  | e :: rest => if e.1 = k then (e.1, e.2 + 1) :: rest else e :: bump rest k

/-- index of an identifier, appended when it is new -/
def intern (ids : List String) (x : String) : Nat × List String :=
  if x ∈ ids then (ids.idxOf x, ids) else (ids.length, ids ++ [x])

def isHS (r : UcRec) : Bool := r.ty == "H" || r.ty == "S"

def ucStep (st : UcState) (r : UcRec) : Except Err UcState :=
  let (oi, obsIds) := intern st.obsIds r.seed
  if isHS r then
    match sampleOf r.query with
    | none => .error .value
    | some s =>
      let (si, sampIds) := intern st.sampIds s
      .ok { obsIds := obsIds, sampIds := sampIds, data := bump st.data (oi, si) }
  else .ok { st with obsIds := obsIds }

def ucFold (st : UcState) : List UcRec → Except Err UcState
  | [] => .ok st
  | r :: rs => do let st' ← ucStep st r; ucFold st' rs

def ucRecords (lines : List (List String)) : Except Err (List UcRec) := do
  let rs ← lines.mapM ucRecord
  pure (rs.filterMap id)

def parseUc (lines : List (List String)) : Except Err (Table Rat) := do
  let recs ← ucRecords lines
  let st ← ucFold {} recs
  construct { data := .dict st.data, obs := st.obsIds, samp := st.sampIds }

/-- `line.split()` on characters -/
def tokensAux : List Char → List Char → List (List Char)
  | cur, [] => if cur.isEmpty then [] else [cur.reverse]
  | cur, c :: cs =>
    if isWs c then (if cur.isEmpty then tokensAux [] cs else cur.reverse :: tokensAux [] cs)
    else tokensAux (c :: cur) cs

def tokens (s : String) : List String := (tokensAux [] s.toList).map String.ofList

/-- `_id_map_from_fasta`: `>obs_id seq_id …` lines give `seq_id ↦ obs_id`, in file order -/
def fastaMap : List String → Except Err (List (String × String))
  | [] => .ok []
  | l :: rest =>
    match l.toList with
    | '>' :: _ =>
      match tokens l with
      | a :: b :: _ => do
        let m ← fastaMap rest
        pure ((b, String.ofList (a.toList.drop 1)) :: m)
      | _ => .error .value
    | _ => fastaMap rest

/-- later entries win: look the key up from the back -/
def mapGet (m : List (String × String)) (k : String) : Option String := m.reverse.lookup k

/-- `update_ids(id_map, axis='observation', strict=True, inplace=True)` wrapped by `_from_uc`:
every refusal becomes a ValueError -/
def renameObs (t : Table Rat) (m : List (String × String)) : Except Err (Table Rat) :=
  match t.obs.mapM (mapGet m) with
  | none => .error .value
  | some ids =>
    if (dedup ids).length ≠ ids.length then .error .value
    else .ok { t with obs := ids }

def fromUc (lines : List (List String)) (fasta : Option (List String)) : Except Err (Table Rat) := do
  let t ← parseUc lines
  match fasta with
  | none => pure t
  | some fl => do
    let m ← fastaMap fl
    renameObs t m

/-! ### The property, stated on inputs and observations only -/
open Codec

def gridIs (D : Grid) (n m : Nat) : Bool := D.length == n && D.all (fun r => r.length == m)

def cellD (D : Grid) (i j : Nat) : Rat := (D.getD i []).getD j 0

def allCells (n m : Nat) (p : Nat → Nat → Bool) : Bool :=
  (List.range n).all fun i => (List.range m).all fun j => p i j

def nodupKeys (d : Dict) : Bool := decide ((d.map (·.1)).Nodup)

def matIs (M : Mat) : Bool := gridIs M.rows M.nR M.nC

/-- a list of row dictionaries `{(0, j): v}`; some dictionary names the last column -/
def rowDicts (ds : List Dict) (D : Grid) (n m : Nat) : Bool :=
  ds.length == n &&
  ds.all (fun d => nodupKeys d && d.all (fun e => e.1.1 == 0 && decide (e.1.2 < m))) &&
  (allKeys ds).any (fun k => k.2 + 1 == m) &&
  allCells n m (fun i j => ((ds.getD i []).lookup (0, j)).getD 0 == cellD D i j)

/-- a list of column dictionaries `{(i, 0): v}` of a grid with at least two rows; some dictionary
names the last row -/
def colDicts (ds : List Dict) (D : Grid) (n m : Nat) : Bool :=
  decide (2 ≤ n) && ds.length == m &&
  ds.all (fun d => nodupKeys d && d.all (fun e => e.1.2 == 0 && decide (e.1.1 < n))) &&
  (allKeys ds).any (fun k => k.1 + 1 == n) &&
  allCells n m (fun i j => ((ds.getD j []).lookup (i, 0)).getD 0 == cellD D i j)

/-- does the value (with the `input_is_dense` flag) describe the n×m grid `D` in one of the accepted
forms?  Coordinate forms may repeat a coordinate (the values add up) and may name zeros. -/
def encodes (d : Data) (isDense : Bool) (D : Grid) (n m : Nat) : Bool :=
  gridIs D n m && decide (1 ≤ n) && decide (1 ≤ m) &&
  match d with
  | .vec v => n == 1 && D == [v]
  | .arr nR nC rows => nR == n && nC == m && rows == D
  | .listArr rows => rows == D
  | .listSparse ms => ms.all (fun M => M.nC == m && matIs M) && ms.flatMap (·.rows) == D
  | .sparse M => M.nR == n && M.nC == m && M.rows == D
  | .dict kv =>
    nodupKeys kv && inRange n m (dictTriples kv) &&
    allCells n m (fun i j => (kv.lookup (i, j)).getD 0 == cellD D i j)
  | .listList ls =>
    if isDense then ls == D
    else match triplesOf? ls with
      | none => false
      | some ts => inRange n m ts && allCells n m (fun i j => cellSum ts i j == cellD D i j)
  | .listDict ds => rowDicts ds D n m || colDicts ds D n m
  | .emptyList => allCells n m (fun i j => cellD D i j == 0)
  | .unknown => false

/-- forms that bring a shape of their own (the others take the one the ID counts announce) -/
def carriesShape (d : Data) (isDense : Bool) : Bool :=
  match d with
  | .dict _ => false
  | .emptyList => false
  | .listList _ => isDense
  | _ => true

/-- metadata that is not one mapping-or-null per ID -/
def mdBad (md : Option (List MdEntry)) (ids : List Id) : Bool :=
  match md with
  | none => false
  | some l => l.length != ids.length || l.any MdEntry.isOther

/-- what the table must answer for the i-th ID of an axis given well-formed metadata -/
def mdWant (md : Option (List MdEntry)) (i : Nat) : Option Md :=
  match md with
  | none => none
  | some l => if l.all MdEntry.blank then none else (l[i]?).map MdEntry.toMd

def distinct (ids : List Id) : Bool := decide ids.Nodup

structure Case where
  inp : Input
  grid : Grid
  n : Nat
  m : Nat

def isErr (res : Except Err (Table Rat)) (e : Err) : Bool :=
  match res with
  | .error e' => e' == e
  | .ok _ => false

def noTable (res : Except Err (Table Rat)) : Bool :=
  match res with
  | .error _ => true
  | .ok _ => false

/-- the grid and the IDs of a produced table, cell by cell through the IDs -/
def tableIs (t : Table Rat) (obs samp : List Id) (D : Grid) : Bool :=
  t.obs == obs && t.samp == samp && t.wfb &&
  allCells obs.length samp.length (fun i j => t.cell? (obs.getD i "") (samp.getD j "") == some (cellD D i j))

def mdIs (t : Table Rat) (inp : Input) : Bool :=
  (List.range inp.obs.length).all (fun i => t.mdOf? .obs (inp.obs.getD i "") == mdWant inp.omd i) &&
  (List.range inp.samp.length).all (fun j => t.mdOf? .samp (inp.samp.getD j "") == mdWant inp.smd j)

/-- the constructor part of the property on one observation of the real constructor -/
def holdsConstruct (c : Case) (res : Except Err (Table Rat)) : Verdict :=
  let inp := c.inp
  let own := carriesShape inp.data inp.inputIsDense
  if !(encodes inp.data inp.inputIsDense c.grid c.n c.m &&
       (own || (c.n == inp.obs.length && c.m == inp.samp.length))) then some "not-an-encoding"
  else if inp.obs.isEmpty || inp.samp.isEmpty then none
  else if !(distinct inp.obs && distinct inp.samp) then chk "reject_dup" (isErr res .tableException)
  else if inp.obs.length != c.n || inp.samp.length != c.m then chk "reject_size" (isErr res .tableException)
  else if mdBad inp.omd inp.obs || mdBad inp.smd inp.samp then chk "reject_md" (isErr res .tableException)
  else match res with
    | .error _ => some "forms_accept"
    | .ok t => allV [chk "forms_grid" (tableIs t inp.obs inp.samp c.grid), chk "forms_md" (mdIs t inp)]

/-- tables built from encodings of the same grid: all equal (`==` true for every pair) -/
def holdsGroup (eqs : List Bool) : Verdict := chk "forms_equal" (eqs.all id)

/-- one later look at a table built from an accepted encoding: after what event, what the table
shows (IDs, grid by position), and what it answers cell by cell through its own ID lookups
(`none`: a lookup raised) -/
structure Stage where
  what : String
  table : Table Rat
  byId : Option Grid

/-- the table still holds exactly the described values and IDs, and answers by ID accordingly -/
def stageOk (inp : Input) (D : Grid) (st : Stage) : Bool :=
  tableIs st.table inp.obs inp.samp D && mdIs st.table inp &&
  match st.byId with
  | none => false
  | some g => gridIs g inp.obs.length inp.samp.length &&
      allCells inp.obs.length inp.samp.length (fun i j => cellD g i j == cellD D i j)

/-- tables built from ONE input object each hold exactly the described values and keep holding them
after in-place operations on the OTHER table; and the constructor leaves the caller's values as
they were (`inputKept`), also when it refuses.  (What the caller does to its own objects after
handing them over is not part of the property.) -/
def holdsIndependent (inp : Input) (D : Grid) (stages : List Stage) (inputKept : List Bool) : Verdict :=
  match stages.find? (fun st => !stageOk inp D st) with
  | some _ => some "independent_table"
  | none => chk "independent_input" (inputKept.all id)

/-! #### adjacency -/

def sortedB : List String → Bool
  | a :: b :: r => decide (a < b) && sortedB (b :: r)
  | _ => true

def sameMembers (a b : List String) : Bool := a.all (b.contains ·) && b.all (a.contains ·)

def adjValid (l : AdjLine) : Bool := l.fields.length == 3 && l.num.isSome

def adjRecOf (l : AdjLine) : String × String × Rat :=
  (l.fields.getD 0 "", l.fields.getD 1 "", l.num.getD 0)

/-- the sum of the values of the records naming (o, s) -/
def adjSum (recs : List (String × String × Rat)) (o s : String) : Rat :=
  sumL ((recs.filter (fun r => r.1 == o && r.2.1 == s)).map (·.2.2))

def holdsAdj (lines : List AdjLine) (res : Except Err (Table Rat)) : Verdict :=
  let body := match lines with
    | [] => []
    | l0 :: rest => if l0.fields == adjHeader then rest else lines
  if body.isEmpty || !body.all adjValid then chk "adjacency_reject" (noTable res)
  else
    let recs := body.map adjRecOf
    match res with
    | .error _ => some "adjacency_accept"
    | .ok t => allV [
        chk "adjacency_ids" (sortedB t.obs && sortedB t.samp && sameMembers t.obs (recs.map (·.1)) &&
          sameMembers t.samp (recs.map (·.2.1)) && t.wfb),
        chk "adjacency_cell" (t.obs.all fun o => t.samp.all fun s => t.cell? o s == some (adjSum recs o s))]

/-! #### uc -/

/-- `q = s ++ "_" ++ rest` with no underscore in `rest` -/
def isSampleOf (q s : String) : Bool :=
  let ql := q.toList
  let sl := s.toList
  sl.isPrefixOf ql &&
  match ql.drop sl.length with
  | '_' :: rest => !rest.contains '_'
  | _ => false

/-- number of H/S records whose (renamed) seed is `o` and whose query belongs to sample `s` -/
def ucCount (label : String → Option String) (recs : List UcRec) (o s : String) : Rat :=
  ((recs.filter (fun r => isHS r && label r.seed == some o && isSampleOf r.query s)).length : Nat)

/-- every seed has a label, and different seeds have different labels -/
def labelsOk (label : String → Option String) (recs : List UcRec) : Bool :=
  recs.all (fun r => (label r.seed).isSome) &&
  recs.all (fun r1 => recs.all (fun r2 => label r1.seed != label r2.seed || r1.seed == r2.seed))

def holdsUc (lines : List (List String)) (fasta : Option (List String))
    (res : Except Err (Table Rat)) : Verdict :=
  match ucRecords lines with
  | .error _ => chk "uc_reject" (noTable res)
  | .ok recs =>
    if recs.any (fun r => isHS r && !r.query.toList.contains '_') then chk "uc_reject" (noTable res)
    else
      match fasta.map fastaMap with
      | some (.error _) => chk "uc_reject" (noTable res)
      | pairs =>
        -- the label of a seed: itself, or what the fasta map says (a later line wins)
        let label : String → Option String := match pairs with
          | some (.ok ps) => mapGet ps
          | _ => fun x => some x
        if !labelsOk label recs then chk "uc_reject" (noTable res)
        else match res with
          | .error _ => some "uc_accept"
          | .ok t => allV [
              chk "uc_ids" (distinct t.obs && distinct t.samp &&
                t.obs.all (fun o => recs.any (fun r => label r.seed == some o)) &&
                recs.all (fun r => t.obs.any (fun o => label r.seed == some o)) &&
                (recs.filter isHS).all (fun r => t.samp.any (isSampleOf r.query)) &&
                t.samp.all (fun s => (recs.filter isHS).any (fun r => isSampleOf r.query s)) && t.wfb),
              chk "uc_cell" (t.obs.all fun o => t.samp.all fun s => t.cell? o s == some (ucCount label recs o s))]

/-! ### JSON glue -/

def asGrid (j : Json) : R Grid := asList (asList asRat) j

def asMat (j : Json) : R Mat := do
  pure ⟨(← natF j "nR"), (← natF j "nC"), (← asGrid (← fld j "rows"))⟩

def asEntry (j : Json) : R (Coord × Rat) := do
  match (← asArr j) with
  | [r, c, v] => pure (((← asNat r), (← asNat c)), (← asRat v))
  | _ => .error "dict entry"

def asData (j : Json) : R Data := do
  match (← strF j "form") with
  | "vec" => pure (.vec (← listF asRat j "v"))
  | "arr" => pure (.arr (← natF j "nR") (← natF j "nC") (← asGrid (← fld j "rows")))
  | "emptyList" => pure .emptyList
  | "listArr" => pure (.listArr (← asGrid (← fld j "rows")))
  | "listDict" => pure (.listDict (← listF (asList asEntry) j "ds"))
  | "listSparse" => pure (.listSparse (← listF asMat j "ms"))
  | "dict" => pure (.dict (← listF asEntry j "d"))
  | "listList" => pure (.listList (← asGrid (← fld j "ls")))
  | "sparse" => pure (.sparse (← asMat j))
  | "unknown" => pure .unknown
  | s => .error s!"bad form {s}"

def asMdEntry (j : Json) : R MdEntry :=
  match j with
  | .null => pure .null
  | .obj _ => do pure (.map (← asMd j))
  | _ => pure .other

def asInput (j : Json) : R Input := do
  pure { data := (← asData (← fld j "data")), obs := (← listF asStr j "obs"), samp := (← listF asStr j "samp"),
         omd := (← optF (asList asMdEntry) j "omd"), smd := (← optF (asList asMdEntry) j "smd"),
         inputIsDense := (← boolFD j "dense" false) }

def asResult (j : Json) : R (Except Err (Table Rat)) :=
  match optFld j "ok" with
  | some t => do pure (.ok (← asTable t))
  | none => do pure (.error (asErr (← strF j "error")))

def normTable (t : Table Rat) : Table Rat := { t with ttype := none }

def resultToJson (r : Except Err (Table Rat)) : Json := exceptToJson tableToJson r

def sameResult (a b : Except Err (Table Rat)) : Bool :=
  match a, b with
  | .ok x, .ok y => normTable x == normTable y
  | .error e, .error f => e == f
  | _, _ => false

def asProfile (req : Json) : R (List (String × String)) :=
  match optFld req "profile" with
  | none => pure []
  | some p => asList (fun e => do
      match (← asArr e) with
      | [k, r] => pure ((← asStr k), (← asStr r))
      | _ => .error "profile entry") p

def asAdjLine (j : Json) : R AdjLine := do
  pure ⟨(← listF asStr j "f"), (← optF asRat j "num")⟩

def answer (v : Verdict) (model real : Except Err (Table Rat)) (mv : Verdict) : Json :=
  Json.mkObj (verdictToJson v ++ [("agree", .bool (sameResult model real)), ("model", resultToJson model),
    ("model_holds", .bool mv.isNone)])

/-- requests:
  {"op":"construct","input":{data,obs,samp,omd,smd,dense},"grid":[[…]],"n":…,"m":…,"result":{ok|error}}
  {"op":"group","eqs":[bool…]}
  {"op":"adjacency","lines":[{"f":[…],"num":rat|null}…],"result":…}
  {"op":"uc","lines":[[fields…]…],"fasta":[lines…]|null,"result":…} -/
def handle (req : Json) : R Json := do
  match (← strF req "op") with
  | "construct" =>
    let inp ← asInput (← fld req "input")
    let c : Case := ⟨inp, (← asGrid (← fld req "grid")), (← natF req "n"), (← natF req "m")⟩
    let res ← asResult (← fld req "result")
    let prof ← asProfile req
    let model := constructWith (profOf prof) inp
    let v := holdsConstruct c res
    -- the caller's values are as they were after the call, accepted or refused
    let kept ← boolFD req "input_kept" true
    let v := match v with | none => chk "input_untouched" kept | some c => some c
    pure (answer v model res (holdsConstruct c model))
  | "decode" =>
    let inp ← asInput (← fld req "input")
    let res ← asResult (← fld req "result")
    let prof ← asProfile req
    let model := constructWith (profOf prof) inp
    pure (answer none model res none)
  | "independent" =>
    let inp ← asInput (← fld req "input")
    let D ← asGrid (← fld req "grid")
    let stages ← listF (fun j => do
      pure (⟨(← strF j "what"), (← asTable (← fld j "table")), (← optF asGrid j "byid")⟩ : Stage)) req "stages"
    let kept ← listF asBool req "input_kept"
    let model := construct inp
    let agree := stages.all (fun st => sameResult model (.ok st.table))
    let mstages := match model with
      | .ok t => stages.map (fun st => (⟨st.what, t, some t.rows⟩ : Stage))
      | .error _ => []
    pure (Json.mkObj (verdictToJson (holdsIndependent inp D stages kept) ++
      [("agree", .bool agree), ("model", resultToJson model),
       ("model_holds", .bool ((holdsIndependent inp D mstages (kept.map (fun _ => true))).isNone &&
          mstages.length == stages.length))]))
  | "group" =>
    let eqs ← listF asBool req "eqs"
    pure (Json.mkObj (verdictToJson (holdsGroup eqs) ++ [("agree", .bool true), ("model", .null),
      ("model_holds", .bool true)]))
  | "adjacency" =>
    let lines ← listF asAdjLine req "lines"
    let res ← asResult (← fld req "result")
    let model := fromAdjacency lines
    pure (answer (holdsAdj lines res) model res (holdsAdj lines model))
  | "uc" =>
    let lines ← listF (asList asStr) req "lines"
    let fasta ← optF (asList asStr) req "fasta"
    let res ← asResult (← fld req "result")
    let model := fromUc lines fasta
    pure (answer (holdsUc lines fasta res) model res (holdsUc lines fasta model))
  | s => .error s!"bad op {s}"

end Biom.C17
