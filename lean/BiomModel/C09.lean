import BiomModel.Codec
open Lean
namespace Biom.C09
/-- stub: not built yet -/
def handle (_req : Json) : Codec.R Json := .error "C09: model not built yet"
end Biom.C09
