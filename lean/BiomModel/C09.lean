/-
  C09 — merge is the pointwise sum over the union / intersection of IDs.

  Model of `Table.merge` (biom/table.py) as the code is now:
  * path selection: the fast path is taken iff (no operand carries metadata on either axis, or both
    metadata functions are `None`) and both axes are `union`; a list/tuple of operands that cannot
    take the fast path is folded pairwise through `merge` itself (so every step selects its path again);
  * `generalMerge`: `_union_id_order` / `_intersect_id_order`, `TableException` when an axis comes
    out empty, a `None` metadata function replaced by "returns None", per-ID metadata
    `f(self_md or None, other_md or None)`, per-observation vector assembly with its three branches,
    the constructor's metadata normalisation (`castMd`);
  * `fastMerge ts`: global *sorted* ID spaces, per-operand re-indexing of the stored (non-zero)
    entries into COO triples, duplicates summed on conversion; the result has no metadata.

  `holds` is the declarative predicate, stated by ID on the observed outcome only.
-/
import BiomModel.Codec
open Lean

namespace Biom.C09

inductive Mode where
  | union | inter
  deriving Repr, DecidableEq, Inhabited

/-- a metadata-merge function on canonical entries (`none` = Python `None`) -/
abbrev MdFun := Option Md → Option Md → Option Md
/-- the argument as passed: `none` = `None` was passed instead of a function -/
abbrev MdF := Option MdFun

/-- `None` as a metadata function means "do not carry metadata" -/
def applyF : MdF → MdFun
  | some g => g
  | none => fun _ _ => none

/-- `biom.util.prefer_self` -/
def preferSelf : MdFun := fun x y => match x with | some m => some m | none => y

/-- the canonical view of one metadata entry: `None` and the empty mapping are the same thing -/
def canon (m : Option Md) : Md := m.getD []

variable {α : Type}

/-! ### ID orders -/

/-- the loop of `_union_id_order`: an ID gets the next index the first time it is seen -/
def unionAux (seen : List Id) : List Id → List Id
  | [] => []
  | x :: xs => if x ∈ seen then unionAux seen xs else x :: unionAux (x :: seen) xs

/-- `_union_id_order(a, b)`, as the list of IDs in index order -/
def unionOrder (a b : List Id) : List Id := unionAux [] (a ++ b)

/-- `_intersect_id_order(a, b)`: the receiver's order restricted to the IDs of `b` -/
def interOrder (a b : List Id) : List Id := a.filter (fun x => decide (x ∈ b))

def newOrder : Mode → List Id → List Id → List Id
  | .union => unionOrder
  | .inter => interOrder

/-! ### general path -/

/-- what the constructor makes of a per-ID metadata list: one `None`/empty mapping per ID is
"no metadata"; otherwise every `None` becomes an empty mapping -/
def castMd (l : List (Option Md)) : Option (List Md) :=
  if l.all (fun m => (canon m).isEmpty) then none else some (l.map canon)

/-- `vec[idx[s]]` if `s` is an ID of the operand, else 0 -/
def valOr0 [Zero α] (ids : List Id) (vec : List α) (s : Id) : α := (lookupBy ids vec s).getD 0

/-- the new vector of observation `o` over the new sample order (three branches of the code) -/
def mergeRow [Add α] [Zero α] (a b : Table α) (ns : List Id) (o : Id) : List α :=
  match a.row? o, b.row? o with
  | some sv, none => ns.map (fun s => valOr0 a.samp sv s)
  | none, some ov => ns.map (fun s => valOr0 b.samp ov s)
  | some sv, some ov => ns.map (fun s => valOr0 a.samp sv s + valOr0 b.samp ov s)
  | none, none => ns.map (fun _ => 0)

/-- per-ID merged metadata, before the constructor sees it -/
def mdList (f : MdFun) (a b : Table α) (ax : Axis) (ids : List Id) : List (Option Md) :=
  ids.map (fun id => f (a.mdOf? ax id) (b.mdOf? ax id))

def generalMerge [Add α] [Zero α] (fs fo : MdF) (ms mo : Mode) (a b : Table α) : Except Err (Table α) :=
  let ns := newOrder ms a.samp b.samp
  let no := newOrder mo a.obs b.obs
  if ns.isEmpty then .error .tableException
  else if no.isEmpty then .error .tableException
  else .ok { obs := no, samp := ns, rows := no.map (mergeRow a b ns),
             omd := castMd (mdList (applyF fo) a b .obs no),
             smd := castMd (mdList (applyF fs) a b .samp ns), ttype := none }

/-! ### fast path -/

def insertId (x : Id) : List Id → List Id
  | [] => [x]
  | y :: ys => if x ≤ y then x :: y :: ys else y :: insertId x ys

/-- `sorted(...)`: ascending by code points (insertion sort; only "a sorted permutation" matters) -/
def sortIds : List Id → List Id
  | [] => []
  | x :: xs => insertId x (sortIds xs)

/-- the global ID space of an axis: every ID of every operand once, sorted -/
def globalIds (ts : List (Table α)) (ax : Axis) : List Id :=
  sortIds (unionAux [] (ts.flatMap (fun t => t.ids ax)))

/-- stored entries of one row, re-indexed: (global row, global column, value) -/
def rowTriples [Zero α] [DecidableEq α] (gs : List Id) (i : Nat) : List Id → List α → List (Nat × Nat × α)
  | s :: ss, v :: vs =>
    if v = 0 then rowTriples gs i ss vs else (i, gs.idxOf s, v) :: rowTriples gs i ss vs
  | _, _ => []

def gridTriples [Zero α] [DecidableEq α] (go gs : List Id) (samp : List Id) :
    List Id → List (List α) → List (Nat × Nat × α)
  | o :: os, r :: rs => rowTriples gs (go.idxOf o) samp r ++ gridTriples go gs samp os rs
  | _, _ => []

def triples [Zero α] [DecidableEq α] (go gs : List Id) (t : Table α) : List (Nat × Nat × α) :=
  gridTriples go gs t.samp t.obs t.rows

/-- COO → CSR: the value at (i, j) is the sum of all triples that name (i, j) -/
def cellSum [Add α] [Zero α] (trs : List (Nat × Nat × α)) (i j : Nat) : α :=
  sumL (trs.filterMap (fun t => if t.1 = i ∧ t.2.1 = j then some t.2.2 else none))

def fastMerge [Add α] [Zero α] [DecidableEq α] (ts : List (Table α)) : Table α :=
  let go := globalIds ts .obs
  let gs := globalIds ts .samp
  let trs := ts.flatMap (triples go gs)
  { obs := go, samp := gs,
    rows := (List.range go.length).map (fun i => (List.range gs.length).map (fun j => cellSum trs i j)),
    omd := none, smd := none, ttype := none }

/-! ### path selection -/

inductive Others (α : Type) where
  | single (b : Table α)
  | many (ts : List (Table α))

def Others.toList : Others α → List (Table α)
  | .single b => [b]
  | .many ts => ts

def hasNoMd (t : Table α) : Bool := t.smd.isNone && t.omd.isNone

def fastOk (fs fo : MdF) (ms mo : Mode) (ts : List (Table α)) : Bool :=
  (ts.all hasNoMd || (fs.isNone && fo.isNone)) && (ms == .union && mo == .union)

/-- `a.merge(b)` for a single table `b` -/
def merge2 [Add α] [Zero α] [DecidableEq α] (fs fo : MdF) (ms mo : Mode) (a b : Table α) :
    Except Err (Table α) :=
  if fastOk fs fo ms mo [a, b] then .ok (fastMerge [a, b]) else generalMerge fs fo ms mo a b

/-- the pairwise fold of the list form -/
def foldMerge [Add α] [Zero α] [DecidableEq α] (fs fo : MdF) (ms mo : Mode) :
    Table α → List (Table α) → Except Err (Table α)
  | acc, [] => .ok acc
  | acc, t :: ts =>
    match merge2 fs fo ms mo acc t with
    | .ok r => foldMerge fs fo ms mo r ts
    | .error e => .error e

structure Input (α : Type) where
  a : Table α
  others : Others α
  ms : Mode
  mo : Mode
  fs : MdF
  fo : MdF

def Input.operands (inp : Input α) : List (Table α) := inp.a :: inp.others.toList

def merge [Add α] [Zero α] [DecidableEq α] (inp : Input α) : Except Err (Table α) :=
  match inp.others with
  | .single b => merge2 inp.fs inp.fo inp.ms inp.mo inp.a b
  | .many ts =>
    if fastOk inp.fs inp.fo inp.ms inp.mo (inp.a :: ts) then .ok (fastMerge (inp.a :: ts))
    else foldMerge inp.fs inp.fo inp.ms inp.mo inp.a ts

/-- which implementation ran at each step (observed in the real code by wrapping `_fast_merge`) -/
def foldTrace [Add α] [Zero α] [DecidableEq α] (fs fo : MdF) (ms mo : Mode) :
    Table α → List (Table α) → List String
  | _, [] => []
  | acc, t :: ts =>
    (if fastOk fs fo ms mo [acc, t] then "fast" else "general") ::
      (match merge2 fs fo ms mo acc t with
       | .ok r => foldTrace fs fo ms mo r ts
       | .error _ => [])

def trace [Add α] [Zero α] [DecidableEq α] (inp : Input α) : List String :=
  match inp.others with
  | .single b => [if fastOk inp.fs inp.fo inp.ms inp.mo [inp.a, b] then "fast" else "general"]
  | .many ts =>
    if fastOk inp.fs inp.fo inp.ms inp.mo (inp.a :: ts) then ["fast"]
    else foldTrace inp.fs inp.fo inp.ms inp.mo inp.a ts

/-! ### The property, stated on observations only (by ID) -/

def hasId (t : Table α) (ax : Axis) (id : Id) : Bool := decide (id ∈ t.ids ax)

/-- is `id` in the union / intersection of the operands' IDs on the axis -/
def expMem (m : Mode) (ax : Axis) (ts : List (Table α)) (id : Id) : Bool :=
  match m with
  | .union => ts.any (fun t => hasId t ax id)
  | .inter => ts.all (fun t => hasId t ax id)

/-- the expected ID set is empty (every expected ID is an ID of some operand) -/
def expEmpty (m : Mode) (ax : Axis) (ts : List (Table α)) : Bool :=
  (ts.flatMap (fun t => t.ids ax)).all (fun id => !(expMem m ax ts id))

/-- the result's IDs on an axis are exactly the union / intersection, each once -/
def idsOk (m : Mode) (ax : Axis) (ts : List (Table α)) (r : List Id) : Bool :=
  decide r.Nodup && r.all (expMem m ax ts) &&
  (ts.flatMap (fun t => t.ids ax)).all (fun id => !(expMem m ax ts id) || decide (id ∈ r))

def cellOr0 [Zero α] (t : Table α) (o s : Id) : α := (t.cell? o s).getD 0

/-- every cell of the result is the sum of the operands' values for that pair (absent = 0) -/
def cellsOk [Add α] [Zero α] [DecidableEq α] (ts : List (Table α)) (r : Table α) : Bool :=
  r.obs.all (fun o => r.samp.all (fun s =>
    decide (r.cell? o s = some (sumL (ts.map (fun t => cellOr0 t o s))))))

def total [Add α] [Zero α] (t : Table α) : α := sumL (t.rows.map sumL)

/-- per-axis view used to say what the metadata of a k-tuple merge must be: the pairwise rule
iterated left to right, each intermediate table being built by the constructor -/
structure AxV where
  ids : List Id
  md : Id → Option Md

def AxV.ofTable (t : Table α) (ax : Axis) : AxV := { ids := t.ids ax, md := t.mdOf? ax }

def AxV.step (f : MdFun) (m : Mode) (ax : Axis) (v : AxV) (t : Table α) : AxV :=
  let ids := newOrder m v.ids (t.ids ax)
  -- the merged entries are computed once per step (the list form may fold dozens of tables)
  let gs := ids.map (fun id => f (v.md id) (t.mdOf? ax id))
  let allEmpty := gs.all (fun e => (canon e).isEmpty)
  { ids := ids,
    md := fun id =>
      if allEmpty then none
      else (lookupBy ids gs id).map canon }

def specMd (f : MdF) (m : Mode) (ax : Axis) (a : Table α) (others : List (Table α)) : AxV :=
  others.foldl (AxV.step (applyF f) m ax) (AxV.ofTable a ax)

/-- metadata of each result ID = canon (f (self entry) (other entry)); for a single other table
`specMd` is exactly that (theorem `specMd_pair`) -/
def mdOk (f : MdF) (m : Mode) (ax : Axis) (a : Table α) (others : List (Table α)) (r : Table α) : Bool :=
  (r.ids ax).all (fun id => canon (r.mdOf? ax id) == canon ((specMd f m ax a others).md id))

/-- a union axis on which the receiver and the first other operand both have no IDs: the first
pairwise step has nothing to build on that axis (degenerate operands; either outcome is accepted) -/
def emptyUnionStart (m : Mode) (ax : Axis) (ts : List (Table α)) : Bool :=
  m == .union && (ts.take 2).all (fun t => (t.ids ax).isEmpty)

open Codec in
def verdict [Add α] [Zero α] [DecidableEq α] (inp : Input α) (out : Except Err (Table α)) : Verdict :=
  let ts := inp.operands
  let emptyInter := (inp.ms == .inter && expEmpty .inter .samp ts) || (inp.mo == .inter && expEmpty .inter .obs ts)
  let emptyUnion := emptyUnionStart inp.ms .samp ts || emptyUnionStart inp.mo .obs ts
  match out with
  | .error e =>
    -- an empty intersection must raise TableException; nothing else may raise
    chk "outcome:unexpected-error" (e == .tableException && (emptyInter || emptyUnion))
  | .ok r =>
    allV [
      chk "outcome:empty-intersection-not-refused" (!emptyInter),
      chk "shape" r.wfb,
      chk "ids:sample" (idsOk inp.ms .samp ts r.samp),
      chk "ids:observation" (idsOk inp.mo .obs ts r.obs),
      chk "cell" (cellsOk ts r),
      chk "total" (!(inp.ms == .union && inp.mo == .union) || decide (total r = sumL (ts.map total))),
      chk "md:sample" (mdOk inp.fs inp.ms .samp inp.a inp.others.toList r),
      chk "md:observation" (mdOk inp.fo inp.mo .obs inp.a inp.others.toList r)]

def holds [Add α] [Zero α] [DecidableEq α] (inp : Input α) (out : Except Err (Table α)) : Bool :=
  (verdict inp out).isNone

/-! ### named family of metadata functions (Lean twins of the harness lambdas) -/

def mdKeys (m : Md) : List String := m.map (·.1)

/-- `{**y, **x}` on canonical entries, kept sorted by key -/
def mdUnion (x y : Md) : Md :=
  (x ++ y.filter (fun kv => !(mdKeys x).contains kv.1)).mergeSort (fun p q => decide (p.1 ≤ q.1))

def tagOf (x y : Option Md) : String :=
  match x, y with
  | some _, some _ => "\"both\""
  | some _, none => "\"self\""
  | none, some _ => "\"other\""
  | none, none => "\"neither\""

def namedF (name : String) : Codec.R MdFun :=
  match name with
  | "prefer_self" => pure preferSelf
  | "prefer_other" => pure (fun x y => match y with | some m => some m | none => x)
  | "union_self" => pure (fun x y => match x, y with
      | none, none => none
      | _, _ => some (mdUnion (canon x) (canon y)))
  | "union_always" => pure (fun x y => some (mdUnion (canon x) (canon y)))
  | "both_only" => pure (fun x y => match x, y with | some m, some _ => some m | _, _ => none)
  | "drop" => pure (fun _ _ => none)
  | "tag" => pure (fun x y => match x, y with
      | none, none => none
      | _, _ => some [("src", tagOf x y)])
  -- two members that do NOT map (None, None) to "no metadata": fed to the real code only where the
  -- model takes the general path at every step (theorem `merge_md` has no hypothesis on f there)
  | "tag_always" => pure (fun x y => some [("src", tagOf x y)])
  | "count_described" => pure (fun x y =>
      some [("described_by", toString ((if x.isSome then 1 else 0) + (if y.isSome then 1 else 0) : Nat))])
  -- reads fields by subscription (a field the entry lacks reads as None): adds up `depth`, keeps the first `grp`
  | "sum_depth" => pure (fun x y => match x, y with
      | none, none => none
      | _, _ =>
        let depthOf : Md → Int := fun m => ((m.lookup "depth").bind String.toInt?).getD 0
        let grpOf : Md → Option String := fun m =>
          match m.lookup "grp" with
          | some "null" => none
          | r => r
        let d := (x.map depthOf).getD 0 + (y.map depthOf).getD 0
        let g := (match x.bind grpOf with | some g => some g | none => y.bind grpOf).getD "null"
        some [("depth", toString d), ("grp", g)])
  | s => .error s!"unknown metadata function {s}"

/-! ### JSON glue -/
open Codec

def asMode (j : Json) : R Mode := do
  match (← asStr j) with
  | "union" => pure .union
  | "intersection" => pure .inter
  | s => .error s!"bad mode {s}"

def asMdF (j : Json) (k : String) : R MdF :=
  match optFld j k with
  | none => pure none
  | some v => do pure (some (← namedF (← asStr v)))

def asOutcome (j : Json) : R (Except Err (Table Rat)) :=
  match optFld j "ok" with
  | some t => do pure (.ok (← asTable t))
  | none => do pure (.error (asErr (← strF j "error")))

/-- by-ID comparison of two tables (order of IDs is not part of the property) -/
def sameById (x y : Table Rat) : Bool :=
  x.obs.length == y.obs.length && x.samp.length == y.samp.length &&
  x.obs.all (fun o => y.obs.contains o) && x.samp.all (fun s => y.samp.contains s) &&
  x.obs.all (fun o => x.samp.all (fun s => x.cell? o s == y.cell? o s)) &&
  x.omd.isNone == y.omd.isNone && x.smd.isNone == y.smd.isNone &&
  x.obs.all (fun o => x.mdOf? .obs o == y.mdOf? .obs o) &&
  x.samp.all (fun s => x.mdOf? .samp s == y.mdOf? .samp s) &&
  x.ttype == y.ttype

def sameOutcome (x y : Except Err (Table Rat)) : Bool :=
  match x, y with
  | .ok a, .ok b => sameById a b
  | .error e, .error f => e == f
  | _, _ => false

def sameOrder (x y : Except Err (Table Rat)) : Bool :=
  match x, y with
  | .ok a, .ok b => a.obs == b.obs && a.samp == b.samp
  | _, _ => true

/-- request: {"a": table, "others": [table…], "list": bool, "ms": …, "mo": …, "fs": name|null,
    "fo": name|null, "outcome": {"ok": table} | {"error": name}, "trace": ["fast"|"general"…]} -/
def handle (req : Json) : R Json := do
  let a ← asTable (← fld req "a")
  let others ← listF asTable req "others"
  let isList ← boolF req "list"
  let oth : Others Rat ←
    if isList then pure (.many others)
    else match others with
      | [b] => pure (.single b)
      | _ => .error "single form needs exactly one other table"
  let inp : Input Rat := { a := a, others := oth, ms := (← asMode (← fld req "ms")),
                           mo := (← asMode (← fld req "mo")), fs := (← asMdF req "fs"), fo := (← asMdF req "fo") }
  let out ← asOutcome (← fld req "outcome")
  let tr ← listF asStr req "trace"
  let m := merge inp
  let mtr := trace inp
  let v := verdict inp out
  pure (Json.mkObj (verdictToJson v ++ [
    ("model_holds", .bool (holds inp m)),
    ("agree", .bool (sameOutcome m out && mtr == tr)),
    ("same_order", .bool (sameOrder m out)),
    ("model", exceptToJson tableToJson m),
    ("model_trace", strsToJson mtr)]))

end Biom.C09
