/-
  C16 — equality and serialisation depend only on content, never on representation.

  Model of `biom/table.py`:
    * `_data_equality`   → `dataEq`   (shape, stored-entry count, element-wise difference count)
    * `eliminate_zeros`  → `eliminateZeros` (as the constructor and the `nnz` property apply it)
    * constructor        → `construct` (metadata normalisation + `eliminateZeros`)
    * `__eq__`           → `tableEq`, `descriptive_equality` → `describe` (two separate chains)
    * read accessors     → `Acc.apply` (they re-lay `_data`: `nnz` eliminates zeros, `data`/`iter`
                           convert between CSR and CSC, `==` converts the receiver to CSR)

  A represented table `Rep` carries the flat layout; `Rep.content` is the abstract `Biom.Table`.
  Layout conversions done by scipy (`tocsr`, `tocsc`) are a parameter `conv` with a recorded
  contract (`LayoutConv` in Lemmas/C16.lean); the driver instantiates it with the identity.

  `holdsPair` / `holdsFamily` / `holdsKernel` are the declarative predicates, stated on what the
  harness observed on the real code (contents read back, results of `==`, `!=`,
  `descriptive_equality`, parsed exports, query answers).
-/
import BiomModel.Codec
open Lean

namespace Biom.C16

variable {α : Type}

/-! ## kernel level: `_data_equality` on two compressed layouts of the same orientation -/

/-- scipy `nnz` of a compressed matrix (`indptr[-1]`): the number of *stored* entries -/
def storedCount (c : CS α) : Nat := c.indptr.getD c.nMajor 0

/-- the minor indices stored in either vector: what `csr_binop_csr` walks -/
def unionIdx (e₁ e₂ : List (Nat × α)) : List Nat :=
  e₁.map (·.1) ++ (e₂.map (·.1)).filter (fun j => !(e₁.map (·.1)).contains j)

/-- number of positions of one major vector kept by `A != B` (the operands differ there) -/
def neRow [Zero α] [DecidableEq α] (e₁ e₂ : List (Nat × α)) : Nat :=
  (unionIdx e₁ e₂).countP (fun j => decide (CS.entryAt e₁ j ≠ CS.entryAt e₂ j))

/-- `(A != B).nnz` -/
def neCount [Zero α] [DecidableEq α] (c₁ c₂ : CS α) : Nat :=
  ((List.range c₁.nMajor).map (fun i => neRow (c₁.slice i) (c₂.slice i))).sum

/-- `_data_equality` (the dtype test is constant: the constructor casts every matrix to float) -/
def dataEq [Zero α] [DecidableEq α] (c₁ c₂ : CS α) : Bool :=
  if c₁.nMajor ≠ c₂.nMajor ∨ c₁.nMinor ≠ c₂.nMinor then false
  else if storedCount c₁ ≠ storedCount c₂ then false
  else if neCount c₁ c₂ > 0 then false
  else true

/-! ## `eliminate_zeros` -/

/-- running totals `[0, l₀, l₀+l₁, …]` -/
def prefixSums (ls : List Nat) : List Nat :=
  (List.range (ls.length + 1)).map (fun i => (ls.take i).sum)

/-- the compressed layout holding exactly the given entries, vector by vector, in the given order -/
def ofEntries (nMinor : Nat) (ents : List (List (Nat × α))) : CS α :=
  { nMajor := ents.length, nMinor := nMinor,
    indptr := prefixSums (ents.map List.length),
    indices := ents.flatten.map (·.1),
    data := ents.flatten.map (·.2) }

/-- per major vector, the stored entries whose value is not zero, order kept -/
def keptEntries [Zero α] [DecidableEq α] (c : CS α) : List (List (Nat × α)) :=
  (List.range c.nMajor).map (fun i => (c.slice i).filter (fun e => decide (e.2 ≠ 0)))

/-- `csr_eliminate_zeros`: compact every vector, rewrite `indptr` -/
def eliminateZeros [Zero α] [DecidableEq α] (c : CS α) : CS α :=
  ofEntries c.nMinor (keptEntries c)

def noStoredZerosB [Zero α] [DecidableEq α] (c : CS α) : Bool := c.data.all (fun v => decide (v ≠ 0))

/-! ## table level -/

inductive Fmt where
  | csr | csc | coo
  deriving Repr, DecidableEq, BEq

/-- a table as the implementation holds it: identity fields plus one concrete layout of the matrix
(kept row-major here; `fmt` records which scipy format `_data` currently has) -/
structure Rep (α : Type) where
  ttype : Option String
  obs : List Id
  samp : List Id
  omd : Option (List Md)
  smd : Option (List Md)
  data : CS α
  fmt : Fmt := .csr

/-- abstract content of a represented table -/
def Rep.content [Zero α] (r : Rep α) : Table α :=
  { obs := r.obs, samp := r.samp, rows := r.data.toDense, omd := r.omd, smd := r.smd, ttype := r.ttype }

/-- constructor's metadata normalisation: all entries falsy (`None` or `{}`) → no metadata;
otherwise `None` entries become empty entries (`_cast_metadata`) -/
def normMd : Option (List (Option Md)) → Option (List Md)
  | none => none
  | some l => if l.all (fun m => match m with | none => true | some e => e.isEmpty) then none
              else some (l.map (fun m => m.getD []))

/-- `Table.__init__` on the matrix that `tocsr` (sparse input: `fmt = csr`) or `_to_sparse` (any other
input form; scipy decides the format) handed back, seen row-major -/
def construct [Zero α] [DecidableEq α] (ttype : Option String) (obs samp : List Id)
    (omd smd : Option (List (Option Md))) (input : CS α) (fmt : Fmt := .csr) : Rep α :=
  { ttype := ttype, obs := obs, samp := samp, omd := normMd omd, smd := normMd smd,
    data := eliminateZeros input, fmt := fmt }

/-- `__eq__` (both operands are tables) -/
def tableEq [Zero α] [DecidableEq α] (r₁ r₂ : Rep α) : Bool :=
  if r₁.ttype ≠ r₂.ttype then false
  else if r₁.obs ≠ r₂.obs then false
  else if r₁.samp ≠ r₂.samp then false
  else if r₁.omd ≠ r₂.omd then false
  else if r₁.smd ≠ r₂.smd then false
  else if !dataEq r₁.data r₂.data then false
  else true

inductive Desc where
  | equal | type | obsIds | sampIds | obsMd | sampMd | data
  deriving Repr, DecidableEq, BEq

def Desc.name : Desc → String
  | .equal => "equal" | .type => "type" | .obsIds => "obs_ids" | .sampIds => "samp_ids"
  | .obsMd => "obs_md" | .sampMd => "samp_md" | .data => "data"

/-- `descriptive_equality` -/
def describe [Zero α] [DecidableEq α] (r₁ r₂ : Rep α) : Desc :=
  if ¬ (r₁.ttype = r₂.ttype) then .type
  else if ¬ (r₁.obs = r₂.obs) then .obsIds
  else if ¬ (r₁.samp = r₂.samp) then .sampIds
  else if ¬ (r₁.omd = r₂.omd) then .obsMd
  else if ¬ (r₁.smd = r₂.smd) then .sampMd
  else if !dataEq r₁.data r₂.data then .data
  else .equal

/-- `copy()` deep-copies every field, layout included -/
def Rep.copy (r : Rep α) : Rep α := { r with }

/-! ## read accessors and what they do to the stored layout -/

inductive Acc where
  | nnz          -- `t.nnz`: eliminate_zeros in place
  | vecObs       -- `data(id, 'observation')`, `iter(axis='observation')`: `_get_row` → tocsr
  | vecSamp      -- `data(id, 'sample')`, `iter()`: `_get_col` → tocsc
  | getValue     -- `get_value_by_ids`: `__getitem__` converts a COO matrix to CSR, nothing else
  | plain        -- `matrix_data`, `sum`, `metadata`: nothing is re-laid
  deriving Repr, DecidableEq, BEq

def Acc.apply [Zero α] [DecidableEq α] (conv : CS α → CS α) : Acc → Rep α → Rep α
  | .nnz, r => { r with data := eliminateZeros r.data }
  | .vecObs, r => if r.fmt = .csr then r else { r with data := conv r.data, fmt := .csr }
  | .vecSamp, r => if r.fmt = .csc then r else { r with data := conv r.data, fmt := .csc }
  | .getValue, r => if r.fmt = .coo then { r with data := conv r.data, fmt := .csr } else r
  | .plain, r => r

/-- does `_data_equality` get as far as `self._data = self._data.tocsr()`? -/
def reachesConversion [Zero α] [DecidableEq α] (r₁ r₂ : Rep α) : Bool :=
  decide (r₁.ttype = r₂.ttype ∧ r₁.obs = r₂.obs ∧ r₁.samp = r₂.samp ∧ r₁.omd = r₂.omd ∧ r₁.smd = r₂.smd) &&
  decide (r₁.data.nMajor = r₂.data.nMajor ∧ r₁.data.nMinor = r₂.data.nMinor) &&
  decide (storedCount r₁.data = storedCount r₂.data)

/-- side effect of evaluating `r₁ == r₂` on the receiver `r₁` -/
def eqEffect [Zero α] [DecidableEq α] (conv : CS α → CS α) (r₁ r₂ : Rep α) : Rep α :=
  if reachesConversion r₁ r₂ then Acc.apply conv .vecObs r₁ else r₁

/-- one checkpoint: what the six comparisons return -/
structure Check where
  eqAB : Bool
  eqBA : Bool
  neAB : Bool
  neBA : Bool
  descAB : String
  descBA : String
  deriving Repr, DecidableEq, BEq

/-- the harness evaluates, in this order, `a==b`, `b==a`, `a!=b`, `b!=a`, `a.descriptive_equality(b)`,
`b.descriptive_equality(a)`; each evaluation may re-lay its receiver -/
def checkpoint [Zero α] [DecidableEq α] (conv : CS α → CS α) (a b : Rep α) : Check × Rep α × Rep α :=
  let e1 := tableEq a b
  let a1 := eqEffect conv a b
  let e2 := tableEq b a1
  let b1 := eqEffect conv b a1
  let n1 := !(tableEq a1 b1)
  let a2 := eqEffect conv a1 b1
  let n2 := !(tableEq b1 a2)
  let b2 := eqEffect conv b1 a2
  let d1 := (describe a2 b2).name
  let a3 := eqEffect conv a2 b2
  let d2 := (describe b2 a3).name
  let b3 := eqEffect conv b2 a3
  ({ eqAB := e1, eqBA := e2, neAB := n1, neBA := n2, descAB := d1, descBA := d2 }, a3, b3)

/-- a step of a history: an accessor on the first (`false`) or second (`true`) operand -/
abbrev Step := Bool × Acc

def applyStep [Zero α] [DecidableEq α] (conv : CS α → CS α) (s : Step) (a b : Rep α) : Rep α × Rep α :=
  if s.1 then (a, s.2.apply conv b) else (s.2.apply conv a, b)

/-- checkpoint, then for every step: the step followed by a checkpoint -/
def runChecks [Zero α] [DecidableEq α] (conv : CS α → CS α) : List Step → Rep α → Rep α → List Check × Rep α × Rep α
  | [], a, b =>
    let (c, a', b') := checkpoint conv a b
    ([c], a', b')
  | s :: ss, a, b =>
    let (c, a', b') := checkpoint conv a b
    let (a'', b'') := applyStep conv s a' b'
    let (cs, af, bf) := runChecks conv ss a'' b''
    (c :: cs, af, bf)

/-! ## the property, on observations only -/

/-- what was observed of one pair of tables -/
structure PairObs (α : Type) where
  a : Table α                -- content of the first operand read back before anything else
  b : Table α
  a' : Table α               -- content read back after the whole history
  b' : Table α
  checks : List Check        -- one per checkpoint
  exports : List (String × Table α × Table α)   -- format, parsed export of a, of b
  queries : List (String × String × String)     -- query, answer of a, answer of b
  /-- `get_value_by_ids(o, s)` answers: of a freshly built twin in its as-built layout (asked before
  anything else), and of the operand itself wherever the history asks -/
  cellsA : List (Id × Id × α) := []
  cellsB : List (Id × Id × α) := []
  /-- `data(id, axis)` answers of the freshly built twins -/
  vecsA : List (Axis × Id × List α) := []
  vecsB : List (Axis × Id × List α) := []

/-- `descriptive_equality` must say "equal" exactly for equal content, and otherwise name a
component that really differs -/
def descOk [DecidableEq α] (a b : Table α) (d : String) : Bool :=
  if d = "equal" then decide (a = b)
  else if d = "type" then decide (a.ttype ≠ b.ttype)
  else if d = "obs_ids" then decide (a.obs ≠ b.obs)
  else if d = "samp_ids" then decide (a.samp ≠ b.samp)
  else if d = "obs_md" then decide (a.omd ≠ b.omd)
  else if d = "samp_md" then decide (a.smd ≠ b.smd)
  else if d = "data" then decide (a.rows ≠ b.rows)
  else false

def checkOk [DecidableEq α] (a b : Table α) (c : Check) : Bool :=
  c.eqAB == decide (a = b) && c.eqBA == decide (a = b) &&
  c.neAB == !decide (a = b) && c.neBA == !decide (a = b) &&
  descOk a b c.descAB && descOk b a c.descBA

/-- every per-cell and per-ID answer is the content's value for those IDs -/
def cellsOk [DecidableEq α] (t : Table α) (cells : List (Id × Id × α)) : Bool :=
  cells.all (fun c => decide (t.cell? c.1 c.2.1 = some c.2.2))

def vecsOk [DecidableEq α] (t : Table α) (vecs : List (Axis × Id × List α)) : Bool :=
  vecs.all (fun v => decide (t.vec? v.1 v.2.1 = some v.2.2))

open Codec in
def holdsPair [DecidableEq α] (o : PairObs α) : Verdict :=
  allV [
    chk "cell-query-differs-from-content" (cellsOk o.a o.cellsA && cellsOk o.b o.cellsB),
    chk "vector-query-differs-from-content" (vecsOk o.a o.vecsA && vecsOk o.b o.vecsB),
    chk "accessors-changed-content" (decide (o.a' = o.a) && decide (o.b' = o.b)),
    chk "eq-iff-content" (o.checks.all (checkOk o.a o.b)),
    chk "no-checkpoint" (!o.checks.isEmpty),
    chk "exports-of-equal-tables-differ"
      (!decide (o.a = o.b) || o.exports.all (fun e => decide (e.2.1 = e.2.2))),
    chk "queries-of-equal-tables-differ"
      (!decide (o.a = o.b) || o.queries.all (fun q => decide (q.2.1 = q.2.2)))]

/-- a family of tables with the full matrix of observed `==` results -/
structure FamilyObs (α : Type) where
  ts : List (Table α)
  eqs : List (List Bool)     -- eqs[i][j] = observed `ts[i] == ts[j]`

def FamilyObs.eq (o : FamilyObs α) (i j : Nat) : Bool := (o.eqs.getD i []).getD j false

open Codec in
def holdsFamily [DecidableEq α] (o : FamilyObs α) : Verdict :=
  let n := o.ts.length
  let idx := List.range n
  allV [
    chk "matrix-shape" (o.eqs.length == n && o.eqs.all (·.length == n)),
    chk "reflexive" (idx.all (fun i => o.eq i i)),
    chk "symmetric" (idx.all (fun i => idx.all (fun j => o.eq i j == o.eq j i))),
    chk "transitive" (idx.all (fun i => idx.all (fun j => idx.all (fun k =>
      !(o.eq i j && o.eq j k) || o.eq i k)))),
    chk "eq-iff-content" (idx.all (fun i => idx.all (fun j =>
      o.eq i j == decide (o.ts[i]? = o.ts[j]?))))]

/-- kernel level: what `_data_equality` returned on two scipy matrices and their dense views -/
structure KernelObs (α : Type) where
  shape₁ : Nat × Nat
  shape₂ : Nat × Nat
  dense₁ : List (List α)
  dense₂ : List (List α)
  storedZeros : Bool          -- some operand holds an explicitly stored zero
  result : Bool

open Codec in
/-- for matrices without stored zeros (all that a table can hold) the answer is content equality -/
def holdsKernel [DecidableEq α] (o : KernelObs α) : Verdict :=
  chk "data-eq-iff-dense" (o.storedZeros ||
    o.result == decide (o.shape₁ = o.shape₂ ∧ o.dense₁ = o.dense₂))

/-! ## model observations -/

/-- the model of `get_value_by_ids` / `data` is the lookup by IDs in the content -/
def modelCells (t : Table α) : List (Id × Id × α) :=
  t.obs.flatMap (fun o => t.samp.filterMap (fun s => (t.cell? o s).map (fun v => (o, s, v))))

def modelVecs (t : Table α) : List (Axis × Id × List α) :=
  t.obs.filterMap (fun o => (t.vec? .obs o).map (fun v => (Axis.obs, o, v))) ++
  t.samp.filterMap (fun s => (t.vec? .samp s).map (fun v => (Axis.samp, s, v)))

def modelPair [Zero α] [DecidableEq α] (conv : CS α → CS α)
    (exps : List (String × (Table α → Table α))) (qs : List (String × (Table α → String)))
    (steps : List Step) (a b : Rep α) : PairObs α :=
  let (cs, af, bf) := runChecks conv steps a b
  { a := a.content, b := b.content, a' := af.content, b' := bf.content, checks := cs,
    exports := exps.map (fun e => (e.1, e.2 a.content, e.2 b.content)),
    queries := qs.map (fun q => (q.1, q.2 a.content, q.2 b.content)),
    cellsA := modelCells a.content, cellsB := modelCells b.content,
    vecsA := modelVecs a.content, vecsB := modelVecs b.content }

def modelFamily [Zero α] [DecidableEq α] (rs : List (Rep α)) : FamilyObs α :=
  { ts := rs.map Rep.content, eqs := rs.map (fun r => rs.map (fun s => tableEq r s)) }

def modelKernel [Zero α] [DecidableEq α] (c₁ c₂ : CS α) : KernelObs α :=
  { shape₁ := (c₁.nMajor, c₁.nMinor), shape₂ := (c₂.nMajor, c₂.nMinor),
    dense₁ := c₁.toDense, dense₂ := c₂.toDense,
    storedZeros := !(noStoredZerosB c₁ && noStoredZerosB c₂),
    result := dataEq c₁ c₂ }

/-! ## JSON glue -/
open Codec

def asMdIn (j : Json) : R (Option Md) :=
  match j with
  | .null => pure none
  | v => do pure (some (← asMd v))

def asAcc (s : String) : R Acc :=
  match s with
  | "nnz" => pure .nnz
  | "data_obs" | "iter_obs" | "to_tsv" | "to_tsv_key" | "str" | "to_hdf5_raised" => pure .vecObs
  | "data_samp" | "iter_samp" | "to_json" | "to_hdf5" | "to_hdf5_raised_samp" => pure .vecSamp
  | "get_value" => pure .getValue
  | "matrix_data" | "sum" | "metadata" | "to_dataframe" | "md_df_obs" | "md_df_samp" | "repr"
  | "to_dataframe_raised" | "md_df_obs_raised" | "md_df_samp_raised" => pure .plain
  | s => .error s!"bad accessor {s}"

def asFmt (s : String) : R Fmt :=
  match s with
  | "csr" => pure .csr
  | "csc" => pure .csc
  | "coo" => pure .coo
  | s => .error s!"bad format {s}"

def fmtName : Fmt → String
  | .csr => "csr" | .csc => "csc" | .coo => "coo"

/-- operand: {"ttype","obs","samp","omd_in","smd_in","layout":CS,"ctor":bool} -/
def asRep (j : Json) : R (Rep Rat) := do
  let ttype ← optF asStr j "type"
  let obs ← listF asStr j "obs"
  let samp ← listF asStr j "samp"
  let omd ← optF (asList asMdIn) j "omd_in"
  let smd ← optF (asList asMdIn) j "smd_in"
  let layout ← asCS (← fld j "layout")
  let fmt ← asFmt (← strFD j "fmt" "csr")
  if (← boolF j "ctor") then
    pure (construct ttype obs samp omd smd layout fmt)
  else
    pure { ttype, obs, samp, omd := normMd omd, smd := normMd smd, data := layout, fmt := fmt }

def asCheck (j : Json) : R Check := do
  pure { eqAB := (← boolF j "eq_ab"), eqBA := (← boolF j "eq_ba"), neAB := (← boolF j "ne_ab"),
         neBA := (← boolF j "ne_ba"), descAB := (← strF j "desc_ab"), descBA := (← strF j "desc_ba") }

def checkToJson (c : Check) : Json :=
  Json.mkObj [("eq_ab", .bool c.eqAB), ("eq_ba", .bool c.eqBA), ("ne_ab", .bool c.neAB),
    ("ne_ba", .bool c.neBA), ("desc_ab", .str c.descAB), ("desc_ba", .str c.descBA)]

def asStep (j : Json) : R Step := do
  match (← asArr j) with
  | [s, a] => pure ((← asNat s) == 1, (← asAcc (← asStr a)))
  | _ => .error "step must be [side, accessor]"

def asTriple (f : Json → R β) (j : Json) : R (String × β × β) := do
  match (← asArr j) with
  | [n, x, y] => pure ((← asStr n), (← f x), (← f y))
  | _ => .error "triple must be [name, a, b]"

/-- scipy contract monitor: the layout a real table holds at the end is well-formed, carries no
stored zero, and denotes the content read back through the public API -/
def layoutOk (content : Table Rat) (fmt : String) (c : CS Rat) : Bool :=
  c.wfb && noStoredZerosB c &&
  (if fmt == "csc" then c.toDense == transposeGrid content.samp.length content.rows
   else c.toDense == content.rows)

def asCell (j : Json) : R (Id × Id × Rat) := do
  match (← asArr j) with
  | [o, s, v] => pure ((← asStr o), (← asStr s), (← asRat v))
  | _ => .error "cell must be [obs, samp, value]"

def asVec (j : Json) : R (Axis × Id × List Rat) := do
  match (← asArr j) with
  | [a, i, v] => pure ((← asAxis a), (← asStr i), (← asList asRat v))
  | _ => .error "vector must be [axis, id, values]"

def handlePair (req : Json) : R Json := do
  let ja ← fld req "a"
  let jb ← fld req "b"
  let steps ← listF asStep req "steps"
  let obs : PairObs Rat := {
    a := (← asTable (← fld ja "content")), b := (← asTable (← fld jb "content")),
    a' := (← asTable (← fld ja "content_after")), b' := (← asTable (← fld jb "content_after")),
    checks := (← listF asCheck req "checks"),
    exports := (← listF (asTriple asTable) req "exports"),
    queries := (← listF (asTriple asStr) req "queries"),
    cellsA := (← listF asCell ja "cells"), cellsB := (← listF asCell jb "cells"),
    vecsA := (← listF asVec ja "vecs"), vecsB := (← listF asVec jb "vecs") }
  let ra ← asRep (← fld ja "model_in")
  let rb ← asRep (← fld jb "model_in")
  let (mchecks, af, bf) := runChecks id steps ra rb
  let v := holdsPair obs
  let fmtA ← strF ja "fmt_after"
  let fmtB ← strF jb "fmt_after"
  let contract :=
    layoutOk obs.a' (← strF ja "fmt_final") (← asCS (← fld ja "layout_after")) &&
    layoutOk obs.b' (← strF jb "fmt_final") (← asCS (← fld jb "layout_after"))
  let agreeChecks := decide (mchecks = obs.checks)
  let agreeContent := decide (ra.content = obs.a) && decide (rb.content = obs.b)
  let agreeFmt := fmtName af.fmt == fmtA && fmtName bf.fmt == fmtB
  let what : List String :=
    (if agreeChecks then [] else ["checks"]) ++ (if agreeContent then [] else ["content"]) ++
    (if agreeFmt then [] else ["format"]) ++ (if contract then [] else ["scipy-contract"])
  pure (Json.mkObj (verdictToJson v ++ [
    ("agree", .bool what.isEmpty), ("differs", strsToJson what),
    ("model", Json.mkObj [("checks", .arr (mchecks.map checkToJson).toArray),
      ("fmt_a", .str (fmtName af.fmt)), ("fmt_b", .str (fmtName bf.fmt)),
      ("same_content", .bool (decide (ra.content = rb.content)))])]))

def handleFamily (req : Json) : R Json := do
  let items ← listF pure req "items"
  let ts ← items.mapM (fun j => do asTable (← fld j "content"))
  let rs ← items.mapM (fun j => do asRep (← fld j "model_in"))
  let eqs ← listF (asList asBool) req "eqs"
  let obs : FamilyObs Rat := { ts, eqs }
  let m := modelFamily rs
  let v := holdsFamily obs
  let agree := decide (m.eqs = obs.eqs) && decide (m.ts = obs.ts)
  pure (Json.mkObj (verdictToJson v ++ [("agree", .bool agree),
    ("model", Json.mkObj [("eqs", .arr (m.eqs.map boolsToJson).toArray)])]))

def handleKernel (req : Json) : R Json := do
  let c₁ ← asCS (← fld req "a")
  let c₂ ← asCS (← fld req "b")
  let m := modelKernel c₁ c₂
  let asShape (j : Json) : R (Nat × Nat) := do
    match (← asArr j) with
    | [x, y] => pure ((← asNat x), (← asNat y))
    | _ => .error "shape"
  let obs : KernelObs Rat := {
    shape₁ := (← asShape (← fld req "shape_a")), shape₂ := (← asShape (← fld req "shape_b")),
    dense₁ := (← listF (asList asRat) req "dense_a"), dense₂ := (← listF (asList asRat) req "dense_b"),
    storedZeros := (← boolF req "stored_zeros"), result := (← boolF req "result") }
  let v := holdsKernel obs
  let agree := m.result == obs.result && m.storedZeros == obs.storedZeros &&
    decide (m.dense₁ = obs.dense₁) && decide (m.dense₂ = obs.dense₂) &&
    decide (m.shape₁ = obs.shape₁) && decide (m.shape₂ = obs.shape₂)
  -- `eliminate_zeros` twin: layout after the real in-place call, if supplied
  let elimAgree ← match optFld req "elim_a" with
    | none => pure true
    | some j => do pure (decide (eliminateZeros c₁ = (← asCS j)))
  pure (Json.mkObj (verdictToJson v ++ [("agree", .bool (agree && elimAgree)),
    ("wf", .bool (c₁.wfb && c₂.wfb)),
    ("model", Json.mkObj [("result", .bool m.result), ("stored_zeros", .bool m.storedZeros),
      ("stored", natsToJson [storedCount c₁, storedCount c₂]), ("ne_count", toJson (neCount c₁ c₂)),
      ("elim_a", csToJson (eliminateZeros c₁))])]))

def handle (req : Json) : R Json := do
  match (← strF req "op") with
  | "pair" => handlePair req
  | "family" => handleFamily req
  | "kernel" => handleKernel req
  | s => .error s!"C16: unknown op {s}"

end Biom.C16
