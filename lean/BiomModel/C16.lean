import BiomModel.Codec
open Lean
namespace Biom.C16
/-- stub: not built yet -/
def handle (_req : Json) : Codec.R Json := .error "C16: model not built yet"
end Biom.C16
