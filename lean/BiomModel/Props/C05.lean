/-
  C05 — property theorems: coherence is established by every validated non-empty constructor call,
  preserved by every in-place operation, hence holds after every history; and on a coherent state
  the accessors answer from one and the same matrix.
-/
import BiomModel.Lemmas.C05

namespace Biom.C05

/-! ### the constructor -/

theorem axisCoherent_indexList (ids : List Id) (md : Option (List Md)) (n : Nat)
    (hl : ids.length = n) (hnd : ids.Nodup) (hmd : ∀ m, md = some m → m.length = n) :
    AxisCoherent { ids, index := indexList ids, md } n :=
  ⟨hl, hnd, fun id => indexList_spec ids hnd id, hmd⟩

theorem normMd_length (md : Option (List Md)) (n k : Nat)
    (h : ∀ m, md = some m → m.length = k) : ∀ m, normMd md n = some m → m.length = k := by
  intro m hm
  unfold normMd at hm
  cases md with
  | none => simp at hm
  | some m0 =>
    simp only at hm
    split at hm
    · cases hm
    · cases hm; exact h _ rfl

theorem castMd_some (md : Option (List Md)) (m : List Md) (h : castMd md = some m) : md = some m := by
  unfold castMd at h
  cases md with
  | none => simp at h
  | some m0 =>
    simp only at h
    split at h
    · cases h
    · exact h

/-- A validated constructor call that describes a non-empty table and is accepted under the default
error profile yields a coherent table — this is the last step of `sort_order`, `transpose`, `copy`,
`collapse`, `merge`, `concat`, `head`, `subsample`, `align_to`, … whatever their arguments were. -/
theorem construct_coherent (a : CtorArgs) (s : TState) (hne : Op.NonEmptyCtor (.construct a))
    (h : construct a = .ok s) : Coherent s := by
  obtain ⟨ho, hs, hv, hoi, hsi, hrl, hrc⟩ := hne
  unfold construct at h
  simp only [hv, Bool.true_and] at h
  split at h
  · cases h
  · rename_i hchk
    cases h
    have hchk' : errcheckDefault a.nrows a.ncols a.obsIds a.sampIds
        (normMd a.omd a.obsIds.length) (normMd a.smd a.sampIds.length) = true := by simpa using hchk
    unfold errcheckDefault at hchk'
    have hoe : a.obsIds.isEmpty = false := by simpa using ho
    have hse : a.sampIds.isEmpty = false := by simpa using hs
    simp only [hoe, hse, Bool.or_self, Bool.false_eq_true, if_false, Bool.and_eq_true,
      Bool.not_eq_true', bne_eq_false_iff_eq, beq_iff_eq] at hchk'
    obtain ⟨⟨⟨⟨⟨h1, h2⟩, h3⟩, h4⟩, h5⟩, h6⟩ := hchk'
    have hond : a.obsIds.Nodup := nodup_of_dedup_length _ (by omega)
    have hsnd : a.sampIds.Nodup := nodup_of_dedup_length _ (by omega)
    refine ⟨hrl, hrc, ?_, ?_⟩
    · simp only [hoi, Option.getD_none]
      refine axisCoherent_indexList _ _ _ h3.symm hond ?_
      intro m hm
      rw [castMd_some _ _ hm] at h2
      exact (by simpa using h2 : a.nrows = m.length).symm
    · simp only [hsi, Option.getD_none]
      refine axisCoherent_indexList _ _ _ h6.symm hsnd ?_
      intro m hm
      rw [castMd_some _ _ hm] at h5
      exact (by simpa using h5 : a.ncols = m.length).symm

/-! ### in-place operations -/

theorem filterInplace_coherent (s s' : TState) (ax : Axis) (mask : List Bool) (hc : Coherent s)
    (h : filterInplace s ax mask = .ok s') : Coherent s' := by
  unfold filterInplace at h
  cases ax with
  | obs =>
    simp only at h
    split at h
    · cases h
    · cases h
      have hlen : s.rows.length = s.obs.ids.length := hc.nrows.trans hc.obs.1.symm
      refine ⟨rfl, ?_, ?_, hc.samp⟩
      · intro r hr; exact hc.ncols r (mem_filterMask _ _ _ hr)
      · refine axisCoherent_indexList _ _ _ (filterMask_length_eq _ _ _ hlen.symm)
          (filterMask_nodup _ _ hc.obs.2.1) ?_
        intro m hm
        have hm := castMd_some _ _ hm
        cases hmd : s.obs.md with
        | none => simp [hmd] at hm
        | some m0 =>
          simp only [hmd, Option.map_some, Option.some.injEq] at hm
          subst hm
          exact filterMask_length_eq _ _ _ ((hc.obs.2.2.2 m0 hmd).trans hc.nrows.symm)
  | samp =>
    simp only at h
    split at h
    · cases h
    · cases h
      refine ⟨by simp [filterCols, hc.nrows], ?_, hc.obs, ?_⟩
      · intro r hr
        simp only [filterCols, List.mem_map] at hr
        obtain ⟨r0, hr0, rfl⟩ := hr
        exact filterMask_length_eq _ _ _ (by simp [hc.ncols r0 hr0])
      · refine axisCoherent_indexList _ _ _ (filterMask_length_eq _ _ _ (by simp [hc.samp.1]))
          (filterMask_nodup _ _ hc.samp.2.1) ?_
        intro m hm
        have hm := castMd_some _ _ hm
        cases hmd : s.samp.md with
        | none => simp [hmd] at hm
        | some m0 =>
          simp only [hmd, Option.map_some, Option.some.injEq] at hm
          subst hm
          exact filterMask_length_eq _ _ _ (by simp [hc.samp.2.2.2 m0 hmd])

theorem updateIdsInplace_coherent (s s' : TState) (ax : Axis) (idMap : List (Id × Id)) (strict : Bool)
    (hc : Coherent s) (h : updateIdsInplace s ax idMap strict = .ok s') : Coherent s' := by
  unfold updateIdsInplace at h
  simp only at h
  split at h
  · cases h
  · split at h
    · cases h
    · rename_i hdup
      have hnd := nodup_of_not_hasDup _ (by simpa using hdup)
      cases ax with
      | obs =>
        cases h
        refine ⟨hc.nrows, hc.ncols, ?_, ?_⟩
        · exact axisCoherent_indexList _ _ _ (by simp [TState.axis, hc.obs.1]) hnd hc.obs.2.2.2
        · exact axisCoherent_indexList _ _ _ hc.samp.1 hc.samp.2.1 hc.samp.2.2.2
      | samp =>
        cases h
        refine ⟨hc.nrows, hc.ncols, ?_, ?_⟩
        · exact axisCoherent_indexList _ _ _ hc.obs.1 hc.obs.2.1 hc.obs.2.2.2
        · exact axisCoherent_indexList _ _ _ (by simp [TState.axis, hc.samp.1]) hnd hc.samp.2.2.2

theorem addMd_fold_length (index : Dict) (mapping : List (Id × Md)) (m : List Md) :
    (mapping.foldl (fun m (idv : Id × Md) =>
        match dictGet index idv.1 with
        | some i => (match m[i]? with | some e => m.set i (mdUpdate e idv.2) | none => m)
        | none => m) m).length = m.length := by
  induction mapping generalizing m with
  | nil => rfl
  | cons x xs ih =>
    rw [List.foldl_cons, ih]
    split
    · split <;> simp
    · rfl

theorem addMetadata_coherent (s : TState) (ax : Axis) (mapping : List (Id × Md)) (hc : Coherent s) :
    Coherent (addMetadata s ax mapping) := by
  have key : ∀ (a : AxisSt) (n : Nat), AxisCoherent a n →
      AxisCoherent { a with md := castMd <|
        match a.md with
        | some m => some (mapping.foldl (fun m (idv : Id × Md) =>
            match dictGet a.index idv.1 with
            | some i => (match m[i]? with | some e => m.set i (mdUpdate e idv.2) | none => m)
            | none => m) m)
        | none => if a.ids.all (fun i => (mapping.lookup i).isNone) then none
                  else some (a.ids.map (fun i => (mapping.lookup i).getD [])) } n := by
    intro a n ha
    refine ⟨ha.1, ha.2.1, ha.2.2.1, ?_⟩
    intro m hm
    have hm := castMd_some _ _ hm
    cases hmd : a.md with
    | some m0 =>
      simp only [hmd, Option.some.injEq] at hm
      subst hm
      rw [addMd_fold_length]; exact ha.2.2.2 m0 hmd
    | none =>
      simp only [hmd] at hm
      split at hm
      · cases hm
      · cases hm; simp [ha.1]
  unfold addMetadata
  cases ax with
  | obs => exact ⟨hc.nrows, hc.ncols, key s.obs s.nrows hc.obs, hc.samp⟩
  | samp => exact ⟨hc.nrows, hc.ncols, hc.obs, key s.samp s.ncols hc.samp⟩

theorem delKeys_coherent (keys : Option (List String)) (a : AxisSt) (n : Nat) (ha : AxisCoherent a n) :
    AxisCoherent (delKeys keys a) n := by
  unfold delKeys
  cases keys with
  | none => exact ⟨ha.1, ha.2.1, ha.2.2.1, by intro m hm; cases hm⟩
  | some ks =>
    cases hmd : a.md with
    | none => simpa [hmd] using ha
    | some m0 =>
      simp only
      split
      · exact ⟨ha.1, ha.2.1, ha.2.2.1, by intro m hm; cases hm⟩
      · refine ⟨ha.1, ha.2.1, ha.2.2.1, ?_⟩
        intro m hm
        cases hm
        simp [ha.2.2.2 m0 hmd]

theorem delMetadata_coherent (s : TState) (axes : List Axis) (keys : Option (List String)) (hc : Coherent s) :
    Coherent (delMetadata s axes keys) := by
  unfold delMetadata
  refine ⟨hc.nrows, hc.ncols, ?_, ?_⟩
  · simp only; split
    · exact delKeys_coherent keys s.obs s.nrows hc.obs
    · exact hc.obs
  · simp only; split
    · exact delKeys_coherent keys s.samp s.ncols hc.samp
    · exact hc.samp

theorem setContent_coherent (s s' : TState) (rows : List (List Rat)) (hc : Coherent s)
    (h : setContent s rows = .ok s') : Coherent s' := by
  unfold setContent at h
  split at h
  · rename_i hshape
    cases h
    simp only [Bool.and_eq_true, beq_iff_eq, List.all_eq_true] at hshape
    exact ⟨hshape.1, hshape.2, hc.obs, hc.samp⟩
  · cases h

/-! ### every history -/

theorem step_coherent (s : TState) (op : Op) (hc : Coherent s) (hop : op.NonEmptyCtor) :
    Coherent (step s op) := by
  cases op with
  | construct a =>
    simp only [step]
    cases h : construct a with
    | ok s' => exact construct_coherent a s' hop h
    | error e => exact hc
  | filter ax mask =>
    simp only [step]
    cases h : filterInplace s ax mask with
    | ok s' => exact filterInplace_coherent s s' ax mask hc h
    | error e => exact hc
  | updateIds ax m strict =>
    simp only [step]
    cases h : updateIdsInplace s ax m strict with
    | ok s' => exact updateIdsInplace_coherent s s' ax m strict hc h
    | error e => exact hc
  | addMd ax m => exact addMetadata_coherent s ax m hc
  | delMd axes ks => exact delMetadata_coherent s axes ks hc
  | setContent rows =>
    simp only [step]
    cases h : setContent s rows with
    | ok s' => exact setContent_coherent s s' rows hc h
    | error e => exact hc

/-- After ANY sequence of operations (of any length) a coherent table is coherent:
constructor-ending operations with arbitrary arguments, in-place filters with arbitrary masks,
ID updates with arbitrary maps, metadata additions/deletions, content changes; refused
operations leave the table as it was. -/
theorem run_coherent (s : TState) (ops : List Op) (hc : Coherent s) (hops : ∀ op ∈ ops, op.NonEmptyCtor) :
    Coherent (run s ops) := by
  induction ops generalizing s with
  | nil => exact hc
  | cons op rest ih =>
    simp only [run, List.foldl_cons]
    exact ih (step s op) (step_coherent s op hc (hops op (List.mem_cons_self ..)))
      (fun o ho => hops o (List.mem_cons_of_mem _ ho))

/-! ### lookups on a coherent table -/

/-- "looking up any ID returns its current position" -/
theorem index_spec (s : TState) (ax : Axis) (hc : Coherent s) (i : Nat) (id : Id)
    (h : (s.axis ax).ids[i]? = some id) : indexAcc s ax id = .ok i := by
  have hax : AxisCoherent (s.axis ax) (match ax with | .obs => s.nrows | .samp => s.ncols) := by
    cases ax <;> simp [TState.axis, hc.obs, hc.samp]
  unfold indexAcc
  rw [hax.2.2.1 id]
  have hlt : i < (s.axis ax).ids.length := by
    rcases List.getElem?_eq_some_iff.mp h with ⟨hi, _⟩; exact hi
  have hget : (s.axis ax).ids[i] = id := by
    rcases List.getElem?_eq_some_iff.mp h with ⟨_, he⟩; exact he
  have : (s.axis ax).ids.idxOf id = i := by
    rw [← hget]; exact List.Nodup.idxOf_getElem hax.2.1 i hlt
  simp [indexOf?, this, hlt]

/-- "unknown IDs are reported as unknown" -/
theorem unknown_spec (s : TState) (ax : Axis) (hc : Coherent s) (id : Id) (h : id ∉ (s.axis ax).ids) :
    indexAcc s ax id = .error .unknownId ∧ existsAcc s ax id = false := by
  have hax : ∀ x, dictGet (s.axis ax).index x = indexOf? (s.axis ax).ids x := by
    cases ax
    · exact hc.obs.2.2.1
    · exact hc.samp.2.2.1
  unfold indexAcc existsAcc
  rw [hax id, indexOf?_none_of_not_mem _ _ h]
  simp

theorem exists_spec (s : TState) (ax : Axis) (hc : Coherent s) (id : Id) :
    existsAcc s ax id = true ↔ id ∈ (s.axis ax).ids := by
  have hax : ∀ x, dictGet (s.axis ax).index x = indexOf? (s.axis ax).ids x := by
    cases ax
    · exact hc.obs.2.2.1
    · exact hc.samp.2.2.1
  unfold existsAcc
  rw [hax id]
  constructor
  · intro h
    by_cases hn : id ∈ (s.axis ax).ids
    · exact hn
    · rw [indexOf?_none_of_not_mem _ _ hn] at h
      simp at h
  · intro h
    have : (s.axis ax).ids.idxOf id < (s.axis ax).ids.length := List.idxOf_lt_length_iff.mpr h
    simp [indexOf?, this]

/-- `data(id, 'observation')` is the row standing at the id's position -/
theorem data_obs_spec (s : TState) (hc : Coherent s) (i : Nat) (id : Id) (r : List Rat)
    (hid : s.obs.ids[i]? = some id) (hr : s.rows[i]? = some r) : dataAcc s .obs id = .ok r := by
  have := index_spec s .obs hc i id hid
  simp [dataAcc, this, hr, bind, Except.bind, pure, Except.pure]

/-- `get_value_by_ids(o, s)` is the cell at the two positions -/
theorem value_spec (s : TState) (hc : Coherent s) (i j : Nat) (o sa : Id) (r : List Rat) (v : Rat)
    (ho : s.obs.ids[i]? = some o) (hs : s.samp.ids[j]? = some sa) (hr : s.rows[i]? = some r)
    (hv : r[j]? = some v) : valueAcc s o sa = .ok v := by
  have h1 := index_spec s .obs hc i o ho
  have h2 := index_spec s .samp hc j sa hs
  simp [valueAcc, h1, h2, hr, hv, bind, Except.bind, pure, Except.pure]

/-- `data(id, 'sample')` is the column standing at the id's position -/
theorem data_samp_spec (s : TState) (hc : Coherent s) (j : Nat) (id : Id)
    (hid : s.samp.ids[j]? = some id) : dataAcc s .samp id = .ok (colAt s.rows j) := by
  have := index_spec s .samp hc j id hid
  have hlt : j < s.ncols := by
    rcases List.getElem?_eq_some_iff.mp hid with ⟨hj, _⟩
    rw [← hc.samp.1]; exact hj
  simp [dataAcc, this, hlt, bind, Except.bind, pure, Except.pure]

/-! ### the summaries read the same matrix -/

/-- `sum('whole')` is the total of the per-observation sums … -/
theorem sum_whole_eq_obs (s : TState) : sumWhole s = sumRow (sumObs s) := rfl

/-- … and of the per-sample sums (exchange of summation on the rectangular grid). -/
theorem sum_whole_eq_samp (s : TState) (hc : Coherent s) : sumRow (sumSamp s) = sumWhole s := by
  unfold sumSamp sumWhole
  exact sum_cols_eq_sum_rows s.rows s.ncols hc.ncols

theorem foldl_add_nat (l : List Nat) (a : Nat) : l.foldl (· + ·) a = a + l.foldl (· + ·) 0 := by
  induction l generalizing a with
  | nil => simp
  | cons x xs ih => simp only [List.foldl_cons]; rw [ih (a + x), ih (0 + x)]; omega

theorem nonzero_row_length (o : Id) (ids : List Id) (r : List Rat) (h : r.length = ids.length) :
    ((ids.zip r).filterMap (fun (p : Id × Rat) => if p.2 != 0 then some (o, p.1) else none)).length =
      (r.filter (· != 0)).length := by
  induction ids generalizing r with
  | nil => cases r <;> simp_all
  | cons i is ih =>
    cases r with
    | nil => simp at h
    | cons v vs =>
      simp only [List.zip_cons_cons, List.filterMap_cons, List.filter_cons]
      have := ih vs (by simpa using h)
      by_cases hv : (v != 0) = true
      · simp [hv]; simpa using this
      · simp [hv]; simpa using this

/-- `nnz` counts exactly the cells `nonzero()` lists. -/
theorem nnz_eq_nonzero_length (s : TState) (hc : Coherent s) : nnzAcc s = (nonzeroAcc s).length := by
  unfold nnzAcc nonzeroAcc
  have hlen : s.rows.length = s.obs.ids.length := hc.nrows.trans hc.obs.1.symm
  have hcols : ∀ r ∈ s.rows, r.length = s.samp.ids.length := fun r hr => (hc.ncols r hr).trans hc.samp.1.symm
  generalize s.obs.ids = oids at hlen
  generalize s.rows = rows at hlen hcols
  induction rows generalizing oids with
  | nil => cases oids <;> simp_all
  | cons r rest ih =>
    cases oids with
    | nil => simp at hlen
    | cons o os =>
      simp only [List.map_cons, List.foldl_cons, List.zip_cons_cons, List.flatMap_cons, List.length_append]
      rw [foldl_add_nat, Nat.zero_add]
      rw [ih os (by simpa using hlen) (fun r' hr' => hcols r' (List.mem_cons_of_mem _ hr'))]
      rw [nonzero_row_length o s.samp.ids r (hcols r (List.mem_cons_self ..))]

/-! ### `nonzero()` at the level of the CSR arrays it walks -/

/-- positions `(row, column)` of the stored entries, in storage order -/
def storedPositions (cs : CS Rat) : List (Nat × Nat) :=
  (List.range cs.nMajor).flatMap (fun i => (cs.slice i).map (fun e => (i, e.1)))

/-- The walk of `nonzero()` never reads out of range on a well-formed matrix with one ID per row and
column, and yields exactly the ID pairs of the stored positions, in storage order. -/
theorem nonzeroKernel_ok (cs : CS Rat) (obsIds sampIds : List Id) (hwf : cs.WF)
    (ho : obsIds.length = cs.nMajor) (hs : sampIds.length = cs.nMinor) :
    nonzeroKernel cs obsIds sampIds =
      .ok ((storedPositions cs).map (fun p => (obsIds.getD p.1 "", sampIds.getD p.2 ""))) := by
  unfold nonzeroKernel
  have hinner : ∀ i ∈ List.range cs.nMajor,
      nzRow cs obsIds sampIds i =
        .ok ((cs.slice i).map (fun e => (obsIds.getD i "", sampIds.getD e.1 ""))) := by
    intro i hi
    have hi' : i < obsIds.length := by rw [ho]; exact List.mem_range.mp hi
    unfold nzRow
    rw [getE_ok obsIds i hi']
    simp only
    apply mapE_ok
    intro e he
    have hlt : e.1 < sampIds.length := by
      rw [hs]; exact hwf.inRange e.1 (slice_idx_in_indices cs i e he)
    unfold nzLabel
    rw [getE_ok sampIds e.1 hlt]
    simp [List.getD_eq_getElem?_getD, List.getElem?_eq_getElem hlt, List.getElem?_eq_getElem hi']
  rw [mapE_ok _ (fun i => (cs.slice i).map (fun e => (obsIds.getD i "", sampIds.getD e.1 ""))) _ hinner]
  simp [storedPositions, List.map_flatMap, List.flatMap_def, Function.comp_def]

/-- Without stored zeros the stored positions are exactly the non-zero cells of the dense matrix:
`nonzero()` lists the non-zero cells, all of them and nothing else. -/
theorem storedPositions_iff_nonzero (cs : CS Rat) (hwf : cs.WF) (hnz : cs.NoStoredZeros) (i j : Nat) :
    (i, j) ∈ storedPositions cs ↔ i < cs.nMajor ∧ CS.entryAt (cs.slice i) j ≠ 0 := by
  unfold storedPositions
  simp only [List.mem_flatMap, List.mem_range, List.mem_map, Prod.mk.injEq]
  constructor
  · rintro ⟨i', hi', e, he, rfl, rfl⟩
    refine ⟨hi', ?_⟩
    have hnd := hwf.distinct i' hi'
    rw [entryAt_of_mem' (cs.slice i') e.1 e.2 hnd he]
    exact hnz e.2 (slice_val_in_data cs i' e he)
  · rintro ⟨hi, hne⟩
    have hmem : j ∈ (cs.slice i).map (·.1) := by
      by_cases hm : j ∈ (cs.slice i).map (·.1)
      · exact hm
      · exact absurd (entryAt_not_mem' _ j hm) hne
    obtain ⟨e, he, hej⟩ := List.mem_map.mp hmem
    exact ⟨i, hi, e, he, rfl, hej⟩

/-! ### `holds` is true of the model's own observation of every coherent state -/

section ModelHolds
variable (s : TState) (probes : List (Axis × Id)) (hc : Coherent s)
include hc

private theorem nO_eq : Cl.nO (observe s probes) = s.nrows := by simp [Cl.nO, observe, hc.obs.1]
private theorem nS_eq : Cl.nS (observe s probes) = s.ncols := by simp [Cl.nS, observe, hc.samp.1]
private theorem dense_eq : (observe s probes).dense = s.rows := rfl

private theorem idx_eq (ax : Axis) (id : Id) :
    (match indexAcc s ax id with | .ok i => some i | .error _ => none) = indexOf? (s.axis ax).ids id := by
  have hax : ∀ x, dictGet (s.axis ax).index x = indexOf? (s.axis ax).ids x := by
    cases ax
    · exact hc.obs.2.2.1
    · exact hc.samp.2.2.1
  unfold indexAcc
  rw [hax id]
  cases indexOf? (s.axis ax).ids id <;> rfl

theorem cl_answers : Cl.answers (observe s probes) = true := by simp [Cl.answers, observe]

theorem cl_shape : Cl.shape (observe s probes) = true := by
  simp [Cl.shape, Cl.nO, Cl.nS, observe, hc.obs.1, hc.samp.1]

theorem cl_denseShape : Cl.denseShape (observe s probes) = true := by
  simp only [Cl.denseShape, nO_eq s probes hc, nS_eq s probes hc, dense_eq s probes hc, Bool.and_eq_true, beq_iff_eq,
    List.all_eq_true]
  exact ⟨hc.nrows, hc.ncols⟩

theorem cl_uniqObs : Cl.uniqObs (observe s probes) = true := by
  simp [Cl.uniqObs, observe, hasDup_false_of_nodup _ hc.obs.2.1]

theorem cl_uniqSamp : Cl.uniqSamp (observe s probes) = true := by
  simp [Cl.uniqSamp, observe, hasDup_false_of_nodup _ hc.samp.2.1]

theorem cl_idxObs : Cl.idxObs (observe s probes) = true := by
  have h : (observe s probes).indexObs = s.obs.ids.map (indexOf? s.obs.ids) := by
    simp only [observe]
    apply List.map_congr_left
    intro id _
    exact idx_eq s hc .obs id
  unfold Cl.idxObs
  rw [h, map_indexOf?_self _ hc.obs.2.1]
  simp [Cl.nO, observe]

theorem cl_idxSamp : Cl.idxSamp (observe s probes) = true := by
  have h : (observe s probes).indexSamp = s.samp.ids.map (indexOf? s.samp.ids) := by
    simp only [observe]
    apply List.map_congr_left
    intro id _
    exact idx_eq s hc .samp id
  unfold Cl.idxSamp
  rw [h, map_indexOf?_self _ hc.samp.2.1]
  simp [Cl.nS, observe]

theorem cl_existsAll : Cl.existsAll (observe s probes) = true := by
  simp only [Cl.existsAll, Cl.nO, Cl.nS, observe, List.length_map, beq_self_eq_true, Bool.and_true, Bool.and_eq_true,
    List.all_eq_true, List.mem_map, id]
  constructor
  · rintro b ⟨i, hi, rfl⟩; exact (exists_spec s .obs hc i).mpr hi
  · rintro b ⟨i, hi, rfl⟩; exact (exists_spec s .samp hc i).mpr hi

theorem cl_probes : Cl.probes (observe s probes) = true := by
  simp only [Cl.probes, observe, List.all_eq_true, List.mem_map, id]
  rintro b ⟨⟨ax, i⟩, _, rfl⟩
  by_cases hm : i ∈ (s.axis ax).ids
  · simp [hm]
  · have hu := unknown_spec s ax hc i hm
    simp [hu.1, hu.2]

theorem cl_omd : Cl.omd (observe s probes) = true := by
  simp only [Cl.omd, Cl.nO, observe]
  cases hmd : s.obs.md with
  | none => rfl
  | some m => simp [hc.obs.2.2.2 m hmd, hc.obs.1]

theorem cl_smd : Cl.smd (observe s probes) = true := by
  simp only [Cl.smd, Cl.nS, observe]
  cases hmd : s.samp.md with
  | none => rfl
  | some m => simp [hc.samp.2.2.2 m hmd, hc.samp.1]

/-- when both axes are non-empty the per-ID accessor fields of the observation are the full lists -/
private theorem ne_id {γ : Type} (hne : Cl.nonEmpty (observe s probes) = true) (l : List γ) :
    (if s.obs.ids.isEmpty || s.samp.ids.isEmpty then [] else l) = l := by
  simp only [Cl.nonEmpty, Cl.nO, Cl.nS, observe, Bool.and_eq_true, decide_eq_true_eq] at hne
  have h1 : s.obs.ids.isEmpty = false := by
    cases h : s.obs.ids with
    | nil => simp [h] at hne
    | cons _ _ => rfl
  have h2 : s.samp.ids.isEmpty = false := by
    cases h : s.samp.ids with
    | nil => simp [h] at hne
    | cons _ _ => rfl
  simp [h1, h2]

theorem cl_dataObs : Cl.dataObs (observe s probes) = true := by
  unfold Cl.dataObs
  cases hne : Cl.nonEmpty (observe s probes) with
  | false => rfl
  | true =>
    simp only [Bool.not_true, Bool.false_or, beq_iff_eq]
    show (observe s probes).dataObs = s.rows
    simp only [observe]
    rw [ne_id s probes hc hne]
    apply map_eq_of_getElem _ _ _ (hc.obs.1.trans hc.nrows.symm)
    intro k hk
    have hk' : k < s.rows.length := by rw [hc.nrows, ← hc.obs.1]; exact hk
    rw [data_obs_spec s hc k _ s.rows[k] (List.getElem?_eq_getElem hk) (List.getElem?_eq_getElem hk')]

theorem cl_dataSamp : Cl.dataSamp (observe s probes) = true := by
  unfold Cl.dataSamp
  cases hne : Cl.nonEmpty (observe s probes) with
  | false => rfl
  | true =>
    simp only [Bool.not_true, Bool.false_or, beq_iff_eq, nS_eq s probes hc]
    show (observe s probes).dataSamp = (List.range s.ncols).map (colAt s.rows)
    simp only [observe]
    rw [ne_id s probes hc hne]
    apply map_eq_of_getElem _ _ _ (by simp [hc.samp.1])
    intro k hk
    rw [data_samp_spec s hc k _ (List.getElem?_eq_getElem hk)]
    simp

theorem cl_cells : Cl.cells (observe s probes) = true := by
  unfold Cl.cells
  cases hne : Cl.nonEmpty (observe s probes) with
  | false => rfl
  | true =>
    simp only [Bool.not_true, Bool.false_or, beq_iff_eq]
    show (observe s probes).cells = s.rows
    simp only [observe]
    rw [ne_id s probes hc hne]
    apply map_eq_of_getElem _ _ _ (hc.obs.1.trans hc.nrows.symm)
    intro i hi
    have hi' : i < s.rows.length := by rw [hc.nrows, ← hc.obs.1]; exact hi
    have hrl : (s.rows[i]).length = s.samp.ids.length := (hc.ncols _ (List.getElem_mem hi')).trans hc.samp.1.symm
    apply map_eq_of_getElem _ _ _ hrl.symm
    intro j hj
    have hj' : j < (s.rows[i]).length := by rw [hrl]; exact hj
    rw [value_spec s hc i j _ _ s.rows[i] (s.rows[i])[j] (List.getElem?_eq_getElem hi) (List.getElem?_eq_getElem hj)
      (List.getElem?_eq_getElem hi') (List.getElem?_eq_getElem hj')]

theorem cl_iterObs : Cl.iterObs (observe s probes) = true := by
  unfold Cl.iterObs
  cases hne : Cl.nonEmpty (observe s probes) with
  | false => rfl
  | true =>
    simp only [Bool.not_true, Bool.false_or, beq_iff_eq]
    simp only [observe]
    rw [ne_id s probes hc hne]

theorem cl_iterSamp : Cl.iterSamp (observe s probes) = true := by
  unfold Cl.iterSamp
  cases hne : Cl.nonEmpty (observe s probes) with
  | false => rfl
  | true =>
    simp only [Bool.not_true, Bool.false_or, beq_iff_eq, nS_eq s probes hc]
    simp only [observe, Cl.col]
    rw [ne_id s probes hc hne]
    rfl

theorem cl_nonzero : Cl.nonzero (observe s probes) = true := by
  unfold Cl.nonzero
  cases hne : Cl.nonEmpty (observe s probes) with
  | false => rfl
  | true =>
    have h : (observe s probes).nonzero = Cl.expNonzero (observe s probes) := by
      simp only [observe, Cl.expNonzero]
      rw [ne_id s probes hc hne]
      rfl
    simp only [Bool.not_true, Bool.false_or, h, all_contains_self, beq_self_eq_true, Bool.and_self]

theorem cl_sumWhole : Cl.sumWhole (observe s probes) = true := by
  simp only [Cl.sumWhole, observe]
  exact approxEq_self _ _

theorem cl_sumObs : Cl.sumObs (observe s probes) = true := by
  simp only [Cl.sumObs, nO_eq s probes hc, Bool.and_eq_true, beq_iff_eq]
  refine ⟨by simp [observe, C05.sumObs, hc.nrows], ?_⟩
  simp only [observe, C05.sumObs, List.all_eq_true]
  intro xr hxr
  obtain ⟨x, r⟩ := xr
  have := List.of_mem_zip hxr
  have hx : x = sumRow r := by
    have hz : (x, r) ∈ (s.rows.map sumRow).zip s.rows := hxr
    rw [List.zip_map_left] at hz
    simp only [List.mem_map] at hz
    obtain ⟨⟨a, b⟩, hab, he⟩ := hz
    have hab' := List.mem_iff_getElem.mp hab
    obtain ⟨k, hk, hkk⟩ := hab'
    simp only [List.getElem_zip] at hkk
    simp only [Prod.map, Prod.mk.injEq] at he
    have : a = b := by
      have := congrArg Prod.fst hkk; have h2 := congrArg Prod.snd hkk; simp at this h2; rw [← this, ← h2]
    rw [← he.1, ← he.2, this]; rfl
  rw [hx]; exact approxEq_self _ _

theorem cl_nnz : Cl.nnz (observe s probes) = true := by
  simp only [Cl.nnz, beq_iff_eq]
  show nnzAcc s = (Cl.expNonzero (observe s probes)).length
  rw [nnz_eq_nonzero_length s hc]; rfl

theorem cl_nzcObs : Cl.nzcObs (observe s probes) = true := by simp [Cl.nzcObs, observe]

theorem cl_nzcSamp : Cl.nzcSamp (observe s probes) = true := by
  simp [Cl.nzcSamp, Cl.col, Cl.nS, observe, hc.samp.1]

theorem cl_sumSamp : Cl.sumSamp (observe s probes) = true := by
  simp only [Cl.sumSamp, nS_eq s probes hc, Bool.and_eq_true, beq_iff_eq]
  refine ⟨by simp [observe, C05.sumSamp], ?_⟩
  have h : (observe s probes).sumSamp = (List.range s.ncols).map (fun j => sumRow (colAt s.rows j)) := rfl
  have h2 : (fun j => Cl.col (observe s probes) j) = (fun j => colAt s.rows j) := rfl
  rw [h]
  exact all_zip_map_map (List.range s.ncols) (fun j => sumRow (colAt s.rows j)) (Cl.col (observe s probes))
    (fun x c => approxEq x (sumRow c) (sumAbs c)) (fun k _ => approxEq_self _ _)

private theorem obs_row_of_mem (a : Id) (ha : a ∈ s.obs.ids) :
    lookupBy s.obs.ids s.rows a =
      some (match dataAcc s .obs a with | .ok v => v | .error _ => []) := by
  obtain ⟨k, hk, rfl⟩ := List.mem_iff_getElem.mp ha
  have hk' : k < s.rows.length := by rw [hc.nrows, ← hc.obs.1]; exact hk
  rw [lookupBy_getElem s.obs.ids s.rows hc.obs.2.1 (hc.obs.1.trans hc.nrows.symm) k hk hk',
    data_obs_spec s hc k _ s.rows[k] (List.getElem?_eq_getElem hk) (List.getElem?_eq_getElem hk')]

theorem cl_pairRows : Cl.pairRows (observe s probes) = true := by
  unfold Cl.pairRows
  cases hne : Cl.nonEmpty (observe s probes) with
  | false => rfl
  | true =>
    simp only [Bool.not_true, Bool.false_or, List.all_eq_true]
    intro p hp
    have hp' : p ∈ (List.range s.obs.ids.length).flatMap (fun i => ((List.range s.obs.ids.length).filter (· > i)).filterMap (fun j =>
        match s.obs.ids[i]?, s.obs.ids[j]? with
        | some a, some b => some ((a, match dataAcc s .obs a with | .ok v => v | .error _ => []),
                                  (b, match dataAcc s .obs b with | .ok v => v | .error _ => []))
        | _, _ => none)) := by
      have := hp
      simp only [observe] at this
      rw [ne_id s probes hc hne] at this
      exact this
    simp only [List.mem_flatMap, List.mem_filterMap] at hp'
    obtain ⟨i, _, j, _, hij⟩ := hp'
    cases hi : s.obs.ids[i]? with
    | none => simp [hi] at hij
    | some a =>
      cases hj : s.obs.ids[j]? with
      | none => simp [hi, hj] at hij
      | some b =>
        simp only [hi, hj, Option.some.injEq] at hij
        subst hij
        have ha : a ∈ s.obs.ids := List.mem_of_getElem? hi
        have hb : b ∈ s.obs.ids := List.mem_of_getElem? hj
        show (lookupBy s.obs.ids s.rows a == some _ && lookupBy s.obs.ids s.rows b == some _) = true
        rw [obs_row_of_mem s hc a ha, obs_row_of_mem s hc b hb]
        simp

theorem cl_pairList : Cl.pairList (observe s probes) = true := by
  unfold Cl.pairList
  cases hne : Cl.nonEmpty (observe s probes) with
  | false => rfl
  | true =>
    simp only [Bool.not_true, Bool.false_or, beq_iff_eq]
    show (observe s probes).pairwiseObs.map (fun p => (p.1.1, p.2.1)) = Cl.expPairs s.obs.ids
    simp only [observe]
    rw [ne_id s probes hc hne]
    simp only [Cl.expPairs, List.map_flatMap, List.map_filterMap]
    apply flatMap_congr'
    intro i _
    apply filterMap_congr'
    intro j _
    cases s.obs.ids[i]? <;> cases s.obs.ids[j]? <;> rfl

theorem cl_density : Cl.density (observe s probes) = true := by
  unfold Cl.density
  cases hne : Cl.nonEmpty (observe s probes) with
  | false =>
    simp only [Bool.false_eq_true, if_false, beq_iff_eq]
    simp only [Cl.nonEmpty, Cl.nO, Cl.nS, observe, Bool.and_eq_false_iff, decide_eq_false_iff_not, Nat.not_lt,
      Nat.le_zero] at hne
    have : (s.obs.ids.isEmpty || s.samp.ids.isEmpty) = true := by
      rcases hne with h | h
      · simp [List.length_eq_zero_iff.mp h]
      · simp [List.length_eq_zero_iff.mp h]
    simp [observe, this]
  | true =>
    simp only [if_true]
    have hnn : (Cl.expNonzero (observe s probes)).length = nnzAcc s := by
      rw [nnz_eq_nonzero_length s hc]; rfl
    have hd : (observe s probes).density = (nnzAcc s : Rat) / ((s.obs.ids.length * s.samp.ids.length : Nat) : Rat) := by
      have := ne_id s probes hc hne ([] : List Nat)
      simp only [observe]
      have hemp : (s.obs.ids.isEmpty || s.samp.ids.isEmpty) = false := by
        simp only [Cl.nonEmpty, Cl.nO, Cl.nS, observe, Bool.and_eq_true, decide_eq_true_eq] at hne
        cases h1 : s.obs.ids with
        | nil => simp [h1] at hne
        | cons _ _ =>
          cases h2 : s.samp.ids with
          | nil => simp [h2] at hne
          | cons _ _ => rfl
      simp [hemp]
    have hpos : ((s.obs.ids.length * s.samp.ids.length : Nat) : Rat) ≠ 0 := by
      apply natCast_ne_zero
      simp only [Cl.nonEmpty, Cl.nO, Cl.nS, observe, Bool.and_eq_true, decide_eq_true_eq] at hne
      exact Nat.ne_of_gt (Nat.mul_pos hne.1 hne.2)
    have hno : Cl.nO (observe s probes) = s.obs.ids.length := rfl
    have hns : Cl.nS (observe s probes) = s.samp.ids.length := rfl
    rw [hd, hno, hns, hnn, Rat.div_mul_cancel hpos]
    exact approxEq_self _ _

/-- **Every accessor reports the same underlying matrix**: on every coherent state — hence, by
`run_coherent`, after every history — each clause of `holds` is true of what the model's accessors
(index, exists, data, get_value_by_ids, iter, iter_pairwise, nonzero, sums, nnz, nonzero_counts,
density) report, for any list of probe IDs. -/
theorem model_clauses : ∀ cb ∈ clauses (observe s probes), cb.2 = true := by
  intro cb hcb
  simp only [clauses, List.mem_cons, List.mem_nil_iff, or_false] at hcb
  rcases hcb with rfl | rfl | rfl | rfl | rfl | rfl | rfl | rfl | rfl | rfl | rfl | rfl | rfl | rfl | rfl | rfl | rfl | rfl |
    rfl | rfl | rfl | rfl | rfl | rfl | rfl | rfl
  · exact cl_answers s probes hc
  · exact cl_shape s probes hc
  · exact cl_denseShape s probes hc
  · exact cl_uniqObs s probes hc
  · exact cl_uniqSamp s probes hc
  · exact cl_idxObs s probes hc
  · exact cl_idxSamp s probes hc
  · exact cl_existsAll s probes hc
  · exact cl_probes s probes hc
  · exact cl_omd s probes hc
  · exact cl_smd s probes hc
  · exact cl_dataObs s probes hc
  · exact cl_dataSamp s probes hc
  · exact cl_cells s probes hc
  · exact cl_iterObs s probes hc
  · exact cl_iterSamp s probes hc
  · exact cl_pairRows s probes hc
  · exact cl_pairList s probes hc
  · exact cl_nonzero s probes hc
  · exact cl_sumWhole s probes hc
  · exact cl_sumObs s probes hc
  · exact cl_sumSamp s probes hc
  · exact cl_nnz s probes hc
  · exact cl_nzcObs s probes hc
  · exact cl_nzcSamp s probes hc
  · exact cl_density s probes hc

theorem model_holds : holds (observe s probes) = none := by
  unfold holds Codec.allV
  have h := model_clauses s probes hc
  generalize clauses (observe s probes) = l at h
  suffices ∀ acc, acc = none → List.foldl Codec.Verdict.and acc (l.map (fun cb => Codec.chk cb.1 cb.2)) = none from this none rfl
  induction l with
  | nil => intro acc ha; simpa using ha
  | cons x xs ih =>
    intro acc ha
    simp only [List.map_cons, List.foldl_cons]
    apply ih (fun cb hcb => h cb (List.mem_cons_of_mem _ hcb))
    subst ha
    simp [Codec.Verdict.and, Codec.chk, h x (List.mem_cons_self ..)]

/-- the property for every history: start from any coherent table, apply any operations, observe. -/
theorem history_holds (ops : List Op) (hops : ∀ op ∈ ops, op.NonEmptyCtor) :
    holds (observe (run s ops) probes) = none :=
  model_holds (run s ops) probes (run_coherent s ops hc hops)

end ModelHolds

/-! Non-vacuity: the hypotheses are met by a concrete table and history, and the history really
changes IDs, lookups and metadata. -/
def demoArgs : CtorArgs :=
  { nrows := 2, ncols := 3, rows := [[1, 0, 2], [0, 3, 0]], obsIds := ["o1", "o2"], sampIds := ["a", "b", "c"],
    omd := none, smd := some [[("k", "1")], [("k", "2")], [("k", "3")]] }
def demoOps : List Op :=
  [.filter .samp [true, false, true], .updateIds .obs [("o1", "first")] false, .addMd .obs [("o2", [("x", "y")])],
   .delMd [.samp] (some ["k"])]

example : Op.NonEmptyCtor (.construct demoArgs) := by
  refine ⟨by decide, by decide, rfl, rfl, rfl, rfl, ?_⟩
  intro r hr
  simp [demoArgs] at hr
  rcases hr with rfl | rfl <;> rfl
example : ∃ s, construct demoArgs = .ok s ∧ (run s demoOps).samp.ids = ["a", "c"] ∧
    (run s demoOps).obs.ids = ["first", "o2"] ∧ (run s demoOps).samp.md = none ∧
    (indexAcc (run s demoOps) .samp "c").toOption = some 1 := by
  refine ⟨_, rfl, ?_, ?_, ?_, ?_⟩ <;> decide

end Biom.C05
