/-
  C06 — property theorems.  Every statement is for EVERY table (any shape, any values of any type
  `α`, any metadata), every requested order / renaming / other table; the only hypotheses are the
  decidable domain conditions (`valid`: rectangular, one metadata entry per ID, distinct IDs).
-/
import BiomModel.Lemmas.C06

namespace Biom.C06

variable {α : Type}

/-! ### sort_order / sort -/

theorem sortOrder_ok_inv {t r : Table α} {order : List Id} {ax : Axis}
    (h : sortOrder t order ax = .ok r) :
    (∀ i ∈ order, i ∈ t.ids ax) ∧ r = norm (reordered t order ax) := by
  by_cases hk : ∀ i ∈ order, i ∈ t.ids ax
  · refine ⟨hk, ?_⟩
    rw [sortOrder_known hk] at h
    exact ctor_ok_eq h
  · have : ∃ i ∈ order, i ∉ t.ids ax := by
      apply Classical.byContradiction
      intro hc
      apply hk
      intro i hi
      apply Classical.byContradiction
      intro hn
      exact hc ⟨i, hi, hn⟩
    rw [sortOrder_unknown this] at h
    cases h

/-- "the resulting order is exactly the requested one", and the other axis is untouched -/
theorem sortOrder_ids {t r : Table α} {order : List Id} {ax : Axis} (h : sortOrder t order ax = .ok r) :
    r.ids ax = order ∧ r.ids ax.other = t.ids ax.other := by
  obtain ⟨_, rfl⟩ := sortOrder_ok_inv h
  simp

/-- everything `sort_order` returns is kept by ID: values of all ID pairs, metadata of all IDs -/
theorem sortOrder_kept {t r : Table α} {order : List Id} {ax : Axis} (hw : t.WF)
    (h : sortOrder t order ax = .ok r) : Kept t r := by
  obtain ⟨hk, rfl⟩ := sortOrder_ok_inv h
  exact (reordered_kept hw hk).norm

/-- "the value stored for every (observation ID, sample ID) pair is unchanged" -/
theorem sortOrder_cell {t r : Table α} {order : List Id} {ax : Axis} (hw : t.WF)
    (h : sortOrder t order ax = .ok r) {o s : Id} (ho : o ∈ r.obs) (hs : s ∈ r.samp) :
    r.cell? o s = t.cell? o s ∧ (r.cell? o s).isSome = true :=
  ⟨((sortOrder_kept hw h).cells o ho s hs).2, ((sortOrder_kept hw h).cells o ho s hs).1⟩

/-- the same, in the words of reordering samples: every observation × every ID of `order` -/
theorem sortOrder_cell_samples {t r : Table α} {order : List Id} (hw : t.WF)
    (h : sortOrder t order .samp = .ok r) {o s : Id} (ho : o ∈ t.obs) (hs : s ∈ order) :
    r.cell? o s = t.cell? o s := by
  have hi := sortOrder_ids h
  exact (sortOrder_cell hw h (by rw [show r.obs = t.obs from hi.2]; exact ho)
    (by rw [show r.samp = order from hi.1]; exact hs)).1

theorem sortOrder_cell_observations {t r : Table α} {order : List Id} (hw : t.WF)
    (h : sortOrder t order .obs = .ok r) {o s : Id} (ho : o ∈ order) (hs : s ∈ t.samp) :
    r.cell? o s = t.cell? o s := by
  have hi := sortOrder_ids h
  exact (sortOrder_cell hw h (by rw [show r.obs = order from hi.1]; exact ho)
    (by rw [show r.samp = t.samp from hi.2]; exact hs)).1

/-- "each ID keeps its own metadata" (on the reordered axis and on the other one) -/
theorem sortOrder_md {t r : Table α} {order : List Id} {ax : Axis} (hw : t.WF)
    (h : sortOrder t order ax = .ok r) (ax' : Axis) {id : Id} (hid : id ∈ r.ids ax') :
    mdE r ax' id = mdE t ax' id :=
  (sortOrder_kept hw h).md ax' id hid

/-- "no ID is gained, lost or duplicated": a permutation of the axis is always accepted, and the
result's IDs are that permutation -/
theorem sortOrder_perm {t : Table α} {order : List Id} {ax : Axis} (hv : Valid t)
    (hp : order.Perm (t.ids ax)) :
    ∃ r, sortOrder t order ax = .ok r ∧ r.ids ax = order ∧ (r.ids ax).Nodup ∧ (r.ids ax).Perm (t.ids ax) ∧
      r.ids ax.other = t.ids ax.other := by
  have hn : (t.ids ax).Nodup := by cases ax; exact hv.obsNodup; exact hv.sampNodup
  have hno : order.Nodup := hp.nodup_iff.mpr hn
  have hk : ∀ i ∈ order, i ∈ t.ids ax := fun i hi => hp.mem_iff.mp hi
  refine ⟨_, sortOrder_ok hv hk hno, ?_⟩
  simp [hno, hp]

theorem sortOrder_refuses_unknown {t : Table α} {order : List Id} {ax : Axis}
    (h : ∃ i ∈ order, i ∉ t.ids ax) : sortOrder t order ax = .error .unknownId :=
  sortOrder_unknown h

/-- a requested order that names an ID twice is refused (on a non-empty table) -/
theorem sortOrder_refuses_duplicate {t : Table α} {order : List Id} {ax : Axis}
    (hk : ∀ i ∈ order, i ∈ t.ids ax) (hd : ¬ order.Nodup) (hne : t.ids ax.other ≠ []) :
    sortOrder t order ax = .error .tableException := by
  rw [sortOrder_known hk]
  apply ctor_of_err
  have hone : order ≠ [] := fun e => hd (e ▸ List.nodup_nil)
  cases ax with
  | obs => exact errcheck_dup hone hne (fun h => hd h.1)
  | samp => exact errcheck_dup hne hone (fun h => hd h.2)

/-- `sort` is `sort_order` by whatever the user function returned, for every user function -/
theorem sort_is_sortF (t : Table α) (f : List Id → List Id) (ax : Axis) :
    sort t (f (t.ids ax)) ax = sortOrder t (f (t.ids ax)) ax := rfl

theorem md_roundtrip {ids order : List Id} {md : Option (List Md)}
    (hl : ∀ m, md = some m → ids.length = m.length) (hn : ids.Nodup)
    (h1 : ∀ i ∈ order, i ∈ ids) (h2 : ∀ i ∈ ids, i ∈ order) :
    normMd ((normMd (md.map (fun m => order.filterMap (lookupBy ids m)))).map
      (fun m => ids.filterMap (lookupBy order m))) = normMd md := by
  cases md with
  | none => rfl
  | some m =>
    have hF := reorder_inverse (hl m rfl) hn h1 h2
    simp only [Option.map_some]
    by_cases hall : (order.filterMap (lookupBy ids m)).all (·.isEmpty) = true
    · have hm : m.all (·.isEmpty) = true := by
        rw [List.all_eq_true]
        intro x hx
        rw [← hF] at hx
        obtain ⟨i, _, hi⟩ := List.mem_filterMap.mp hx
        exact List.all_eq_true.mp hall x (lookupBy_mem hi)
      simp [normMd, hall, hm]
    · simp only [normMd, hall, Bool.false_eq_true, if_false, Option.map_some, hF]

/-- "applying a permutation and then its inverse restores the original IDs, order, values and
metadata": reordering by a permutation and then by the original order gives the table back -/
theorem sortOrder_inverse {t r : Table α} {order : List Id} {ax : Axis} (hv : Valid t)
    (hp : order.Perm (t.ids ax)) (h : sortOrder t order ax = .ok r) :
    sortOrder r (t.ids ax) ax = .ok (norm t) := by
  obtain ⟨hk, rfl⟩ := sortOrder_ok_inv h
  have hn : (t.ids ax).Nodup := by cases ax; exact hv.obsNodup; exact hv.sampNodup
  have hno : order.Nodup := hp.nodup_iff.mpr hn
  have hk2 : ∀ i ∈ t.ids ax, i ∈ order := fun i hi => hp.mem_iff.mpr hi
  have hv1 : Valid (norm (reordered t order ax)) := norm_valid (reordered_valid hv hk hno)
  rw [sortOrder_ok hv1 (by simpa using hk2) hn]
  congr 1
  obtain ⟨w1, w2, w3, w4⟩ := hv.wf
  cases ax with
  | samp =>
    have hrows : (t.rows.map (fun r => order.filterMap (lookupBy t.samp r))).map
        (fun r => t.samp.filterMap (lookupBy order r)) = t.rows := by
      rw [List.map_map]
      conv => rhs; rw [← List.map_id t.rows]
      apply List.map_congr_left
      intro r hr
      exact reorder_inverse (w2 r hr).symm hv.sampNodup hk hk2
    have hmd := md_roundtrip (md := t.smd) (fun m hm => (w4 m hm).symm) hv.sampNodup hk hk2
    simp only [norm, reordered, Table.ids, hrows, hmd, normMd_idem]
  | obs =>
    have hrows : t.obs.filterMap (lookupBy order (order.filterMap (lookupBy t.obs t.rows))) = t.rows :=
      reorder_inverse w1.symm hv.obsNodup hk hk2
    have hmd := md_roundtrip (md := t.omd) (fun m hm => (w3 m hm).symm) hv.obsNodup hk hk2
    simp only [norm, reordered, Table.ids, hrows, hmd, normMd_idem]

/-- for a table as the constructor leaves it (metadata not all-empty) the round trip is the identity -/
theorem sortOrder_inverse_self {t r : Table α} {order : List Id} {ax : Axis} (hv : Valid t)
    (hnorm : norm t = t) (hp : order.Perm (t.ids ax)) (h : sortOrder t order ax = .ok r) :
    sortOrder r (t.ids ax) ax = .ok t := by
  rw [sortOrder_inverse hv hp h, hnorm]

/-! ### transpose, copy -/

theorem transposeT_ok_inv {t r : Table α} (h : transposeT t = .ok r) : r = norm (transposed t) :=
  ctor_ok_eq h

/-- `cell tᵀ s o = cell t o s` for every pair of IDs -/
theorem transpose_cell {t r : Table α} (hw : t.WF) (h : transposeT t = .ok r) (o s : Id) :
    r.cell? s o = t.cell? o s := by
  rw [transposeT_ok_inv h, norm_cell?, transposed_cell hw]

/-- the two ID lists change places, in order -/
theorem transpose_ids {t r : Table α} (h : transposeT t = .ok r) : r.obs = t.samp ∧ r.samp = t.obs := by
  rw [transposeT_ok_inv h]; exact ⟨rfl, rfl⟩

/-- the metadata change places with the IDs: each ID keeps its entry -/
theorem transpose_md {t r : Table α} (h : transposeT t = .ok r) (ax : Axis) (id : Id) :
    mdE r ax.other id = mdE t ax id := by
  rw [transposeT_ok_inv h, norm_mdE, transposed_mdE]

theorem transpose_accepts {t : Table α} (hv : Valid t) : ∃ r, transposeT t = .ok r ∧ Valid r :=
  ⟨_, transposeT_ok hv, norm_valid (transposed_valid hv)⟩

/-- "transposing twice restores the original IDs, order, values and metadata" (the table type is
not carried by `transpose`) -/
theorem transpose_transpose {t r : Table α} (hv : Valid t) (h : transposeT t = .ok r) :
    transposeT r = .ok { norm t with ttype := none } := by
  rw [transposeT_ok_inv h, transposeT_ok (norm_valid (transposed_valid hv)),
    transposed_norm_transposed hv.wf]

/-- `copy` returns the same content -/
theorem copy_eq {t : Table α} (hv : Valid t) : copy t = .ok (norm t) :=
  ctor_of_ok (errcheck_ok_of_nodup hv.obsNodup hv.sampNodup)

theorem copy_eq_self {t : Table α} (hv : Valid t) (hnorm : norm t = t) : copy t = .ok t := by
  rw [copy_eq hv, hnorm]

theorem copy_kept {t : Table α} (hv : Valid t) : Kept t (norm t) := (Kept.refl hv.wf).norm

/-! ### update_ids -/

/-- the renaming function of a call: `id_map.get(old, old)` -/
def rho (m : List (Id × Id)) (i : Id) : Id := (m.lookup i).getD i

theorem target_eq_map (m : List (Id × Id)) (ids : List Id) : target m ids = ids.map (rho m) := rfl

theorem mem_zip_map {β γ : Type} (f : β → γ) {l : List β} {a : β} (h : a ∈ l) : (a, f a) ∈ l.zip (l.map f) := by
  induction l with
  | nil => cases h
  | cons x xs ih =>
    rw [List.map_cons, List.zip_cons_cons]
    rcases List.mem_cons.mp h with e | e
    · subst e; exact List.mem_cons_self
    · exact List.mem_cons_of_mem _ (ih e)

theorem ids_nodup {t : Table α} (hv : Valid t) (ax : Axis) : (t.ids ax).Nodup := by
  cases ax; exact hv.obsNodup; exact hv.sampNodup

theorem errcheck_setIds {t : Table α} (hv : Valid t) {ax : Axis} {ids' : List Id} (hn : ids'.Nodup) :
    errcheck (setIds t ax ids') = .ok () := by
  cases ax with
  | obs => exact errcheck_ok_of_nodup hn hv.sampNodup
  | samp => exact errcheck_ok_of_nodup hv.obsNodup hn

/-- the allocated width never truncates: for every id_map (the empty one included) the loop yields
exactly `id_map.get(old, old)` for every ID, or the strict-mode refusal -/
theorem updateIds_width_fits (m : List (Id × Id)) (ids : List Id) (strict : Bool)
    (hk : strict = true → ∀ i ∈ ids, (m.lookup i).isSome = true) :
    relabel m strict (idWidth m ids strict) ids = .ok (target m ids) :=
  relabel_ok (idWidth_ok m ids strict).1 (idWidth_ok m ids strict).2 hk

/-- complete description of an accepted call: for an id_map that (when strict) covers the axis and
whose result has no duplicate, the receiver (or its copy) gets the relabelled IDs and nothing else changes -/
theorem updateIds_ok {t : Table α} (hv : Valid t) {m : List (Id × Id)} {ax : Axis} {strict inplace : Bool}
    (hk : strict = true → ∀ i ∈ t.ids ax, (m.lookup i).isSome = true)
    (hinj : (target m (t.ids ax)).Nodup) :
    updateIds t m ax strict inplace =
      (if inplace then
        { result := .ok (setIds t ax (target m (t.ids ax))), after := setIds t ax (target m (t.ids ax)), same := true }
       else { result := .ok (setIds (norm t) ax (target m (t.ids ax))), after := t }) := by
  unfold updateIds
  simp only [updateIds_width_fits m (t.ids ax) strict hk]
  cases inplace with
  | true =>
    simp only [if_true, (distinct_iff _).mpr hinj, Bool.not_true, Bool.false_eq_true, if_false,
      errcheck_setIds hv hinj]
  | false =>
    simp only [Bool.false_eq_true, if_false, copy_eq hv, errcheck_setIds (norm_valid hv) hinj]

/-- "the value stored for every (observation ID, sample ID) pair is unchanged modulo the renaming":
renaming observations by an injective `ρ` (total, or partial with `strict=False`; IDs may get longer
or shorter) gives `cell t' (ρ o) s = cell t o s` -/
theorem updateIds_cell_obs {t : Table α} (hv : Valid t) {m : List (Id × Id)} {strict inplace : Bool}
    (hk : strict = true → ∀ i ∈ t.obs, (m.lookup i).isSome = true)
    (hinj : (t.obs.map (rho m)).Nodup) :
    ∃ r, (updateIds t m .obs strict inplace).result = .ok r ∧ r.obs = t.obs.map (rho m) ∧ r.samp = t.samp ∧
      (∀ o ∈ t.obs, ∀ s, r.cell? (rho m o) s = t.cell? o s) ∧
      (∀ o ∈ t.obs, mdE r .obs (rho m o) = mdE t .obs o) ∧ (∀ s, mdE r .samp s = mdE t .samp s) := by
  have h := updateIds_ok hv (ax := .obs) (inplace := inplace) hk hinj
  have hl : t.obs.length = (t.obs.map (rho m)).length := by simp
  cases inplace with
  | true =>
    rw [h]
    refine ⟨_, rfl, rfl, rfl, ?_, ?_, fun s => rfl⟩
    · intro o ho s
      exact setIds_cell_obs hl hv.obsNodup hinj (mem_zip_map _ ho) s
    · intro o ho
      exact setIds_mdE_self (ax := .obs) hl hv.obsNodup hinj (mem_zip_map _ ho)
  | false =>
    rw [h]
    refine ⟨_, rfl, rfl, rfl, ?_, ?_, ?_⟩
    · intro o ho s
      exact setIds_cell_obs (t := norm t) hl hv.obsNodup hinj (mem_zip_map _ ho) s
    · intro o ho
      exact (setIds_mdE_self (t := norm t) (ax := .obs) hl hv.obsNodup hinj (mem_zip_map _ ho)).trans
        (norm_mdE t .obs o)
    · intro s
      exact (setIds_mdE_other (norm t) .obs _ s).trans (norm_mdE t .samp s)

/-- the same for renaming samples: `cell t' o (ρ s) = cell t o s` -/
theorem updateIds_cell_samp {t : Table α} (hv : Valid t) {m : List (Id × Id)} {strict inplace : Bool}
    (hk : strict = true → ∀ i ∈ t.samp, (m.lookup i).isSome = true)
    (hinj : (t.samp.map (rho m)).Nodup) :
    ∃ r, (updateIds t m .samp strict inplace).result = .ok r ∧ r.samp = t.samp.map (rho m) ∧ r.obs = t.obs ∧
      (∀ s ∈ t.samp, ∀ o, r.cell? o (rho m s) = t.cell? o s) ∧
      (∀ s ∈ t.samp, mdE r .samp (rho m s) = mdE t .samp s) ∧ (∀ o, mdE r .obs o = mdE t .obs o) := by
  have h := updateIds_ok hv (ax := .samp) (inplace := inplace) hk hinj
  have hl : t.samp.length = (t.samp.map (rho m)).length := by simp
  cases inplace with
  | true =>
    rw [h]
    refine ⟨_, rfl, rfl, rfl, ?_, ?_, fun s => rfl⟩
    · intro s hs o
      exact setIds_cell_samp hl hv.sampNodup hinj (mem_zip_map _ hs) o
    · intro s hs
      exact setIds_mdE_self (ax := .samp) hl hv.sampNodup hinj (mem_zip_map _ hs)
  | false =>
    rw [h]
    refine ⟨_, rfl, rfl, rfl, ?_, ?_, ?_⟩
    · intro s hs o
      exact setIds_cell_samp (t := norm t) hl hv.sampNodup hinj (mem_zip_map _ hs) o
    · intro s hs
      exact (setIds_mdE_self (t := norm t) (ax := .samp) hl hv.sampNodup hinj (mem_zip_map _ hs)).trans
        (norm_mdE t .samp s)
    · intro o
      exact (setIds_mdE_other (norm t) .samp _ o).trans (norm_mdE t .obs o)

/-- with `strict=True` an ID of the axis that is not a key of `id_map` is refused and the receiver
is left as it was -/
theorem updateIds_refuses_missing_strict {t : Table α} {m : List (Id × Id)} {ax : Axis} {inplace : Bool}
    (h : ∃ i ∈ t.ids ax, m.lookup i = none) :
    (updateIds t m ax true inplace).result = .error .tableException ∧
    (updateIds t m ax true inplace).after = t := by
  unfold updateIds
  simp only [relabel_missing h]
  constructor <;> first | rfl | trivial

/-- a renaming whose result would carry an ID twice is refused and the receiver is left as it was
(`inplace`, or any non-empty table) -/
theorem updateIds_refuses_noninjective {t : Table α} (hv : Valid t) {m : List (Id × Id)} {ax : Axis}
    {strict inplace : Bool}
    (hk : strict = true → ∀ i ∈ t.ids ax, (m.lookup i).isSome = true)
    (hdup : ¬ (target m (t.ids ax)).Nodup) (hne : inplace = true ∨ t.ids ax.other ≠ []) :
    (updateIds t m ax strict inplace).result = .error .tableException ∧
    (updateIds t m ax strict inplace).after = t := by
  have hd : distinct (target m (t.ids ax)) = false := by
    rw [Bool.eq_false_iff]; intro h; exact hdup ((distinct_iff _).mp h)
  unfold updateIds
  simp only [updateIds_width_fits m (t.ids ax) strict hk]
  cases inplace with
  | true => simp only [if_true, hd, Bool.not_false]; constructor <;> first | rfl | trivial
  | false =>
    have hne' : t.ids ax.other ≠ [] := by
      rcases hne with h | h
      · cases h
      · exact h
    have htne : target m (t.ids ax) ≠ [] := fun e => hdup (e ▸ List.nodup_nil)
    have herr : errcheck (setIds (norm t) ax (target m (t.ids ax))) = .error .tableException := by
      cases ax with
      | obs => exact errcheck_dup htne hne' (fun h => hdup h.1)
      | samp => exact errcheck_dup hne' htne (fun h => hdup h.2)
    simp only [Bool.false_eq_true, if_false, copy_eq hv, herr]
    constructor <;> first | rfl | trivial

/-- whatever the reason of a refusal, the receiver is unchanged -/
theorem updateIds_refusal_leaves_receiver {t : Table α} (hv : Valid t) (m : List (Id × Id)) (ax : Axis)
    (strict inplace : Bool) (e : Err) (h : (updateIds t m ax strict inplace).result = .error e) :
    (updateIds t m ax strict inplace).after = t := by
  unfold updateIds at h ⊢
  cases hr : relabel m strict (idWidth m (t.ids ax) strict) (t.ids ax) with
  | error e' => rfl
  | ok ids' =>
    simp only [hr] at h ⊢
    cases inplace with
    | false =>
      simp only [Bool.false_eq_true, if_false] at h ⊢
      cases copy t with
      | error e' => rfl
      | ok c =>
        simp only
        cases errcheck (setIds c ax ids') <;> rfl
    | true =>
      simp only [if_true] at h ⊢
      by_cases hd : distinct ids' = true
      · simp only [hd, Bool.not_true, Bool.false_eq_true, if_false,
          errcheck_setIds hv ((distinct_iff _).mp hd)] at h
        cases h
      · simp only [hd, Bool.not_false, if_true]

/-- an empty `id_map` with `strict=False` renames nothing: the receiver comes back as it is -/
theorem updateIds_emptyMap_keeps {t : Table α} (hv : Valid t) (ax : Axis) :
    (updateIds t [] ax false true).result = .ok t ∧ (updateIds t [] ax false true).after = t ∧
    (updateIds t [] ax false false).result = .ok (norm t) ∧ (updateIds t [] ax false false).after = t := by
  have ht : target [] (t.ids ax) = t.ids ax := by simp [target]
  have hinj : (target [] (t.ids ax)).Nodup := by rw [ht]; exact ids_nodup hv ax
  have hk : false = true → ∀ i ∈ t.ids ax, (([] : List (Id × Id)).lookup i).isSome = true := fun h => by cases h
  rw [updateIds_ok hv (inplace := true) hk hinj, updateIds_ok hv (inplace := false) hk hinj, ht]
  cases ax <;> exact ⟨rfl, rfl, rfl, rfl⟩

/-! ### align_to -/

theorem sameSet_iff (a b : List Id) : sameSet a b = true ↔ (∀ i ∈ a, i ∈ b) ∧ (∀ i ∈ b, i ∈ a) := by
  simp [sameSet, List.all_eq_true]

theorem otherIds_nodup {oObs oSamp : List Id} (ho : oObs.Nodup) (hs : oSamp.Nodup) (a : Axis) :
    (otherIds oObs oSamp a).Nodup := by cases a; exact ho; exact hs

theorem axis_ne_other {a b : Axis} (h : b ≠ a) : b = a.other := by
  cases a <;> cases b <;> simp_all [Axis.other]

/-- sorting a list of distinct alignable axes one after the other: each of them ends in the other
table's order, the remaining axis is untouched, and everything is kept by ID -/
theorem sortAll_spec {oObs oSamp : List Id} (ho : oObs.Nodup) (hs : oSamp.Nodup) (axes : List Axis)
    (hax : axes.Nodup) {t : Table α} (hv : Valid t)
    (hal : ∀ a ∈ axes, sameSet (t.ids a) (otherIds oObs oSamp a) = true) :
    ∃ r, sortAll oObs oSamp axes t = .ok r ∧ Kept t r ∧ Valid r ∧
      ∀ a, r.ids a = if a ∈ axes then otherIds oObs oSamp a else t.ids a := by
  induction axes generalizing t with
  | nil => exact ⟨t, rfl, Kept.refl hv.wf, hv, fun a => by simp⟩
  | cons a rest ih =>
    have hsame := (sameSet_iff _ _).mp (hal a List.mem_cons_self)
    have hk : ∀ i ∈ otherIds oObs oSamp a, i ∈ t.ids a := hsame.2
    have hn := otherIds_nodup ho hs a
    have h1 := sortOrder_ok hv hk hn
    have hv1 : Valid (norm (reordered t (otherIds oObs oSamp a) a)) := norm_valid (reordered_valid hv hk hn)
    have hk1 : Kept t (norm (reordered t (otherIds oObs oSamp a) a)) := (reordered_kept hv.wf hk).norm
    have hids1 : ∀ b, (norm (reordered t (otherIds oObs oSamp a) a)).ids b =
        if b = a then otherIds oObs oSamp a else t.ids b := by
      intro b
      by_cases e : b = a
      · subst e; simp
      · rw [if_neg e, axis_ne_other e]; simp
    have hal1 : ∀ b ∈ rest, sameSet ((norm (reordered t (otherIds oObs oSamp a) a)).ids b)
        (otherIds oObs oSamp b) = true := by
      intro b hb
      have e : b ≠ a := fun e => (List.nodup_cons.mp hax).1 (e ▸ hb)
      rw [hids1 b, if_neg e]
      exact hal b (List.mem_cons_of_mem _ hb)
    obtain ⟨r, hr, hkept, hvr, hids⟩ := ih (List.nodup_cons.mp hax).2 hv1 hal1
    refine ⟨r, ?_, ?_, hvr, ?_⟩
    · simp only [sortAll, h1, hr]
    · apply Kept.trans hk1 hkept
      intro b i hi
      rw [hids b] at hi
      by_cases hb : b ∈ rest
      · rw [if_pos hb] at hi
        exact ((sameSet_iff _ _).mp (hal1 b hb)).2 i hi
      · rw [if_neg hb] at hi; exact hi
    · intro b
      rw [hids b]
      by_cases hb : b ∈ rest
      · simp [hb]
      · rw [if_neg hb, hids1 b]
        by_cases e : b = a
        · subst e; simp
        · have : b ∉ a :: rest := by
            intro hc; rcases List.mem_cons.mp hc with e' | e'
            · exact e e'
            · exact hb e'
          rw [if_neg e, if_neg this]

/-- the axes `align_to` sorts are exactly the axes the property expects to be aligned, and it
refuses with `DisjointIDError` / `UnknownAxisError` exactly when there is none -/
theorem alignAxes_spec (t : Table α) (oObs oSamp : List Id) (ax : AAxis) :
    match alignedAxes t oObs oSamp ax with
    | some want => ∃ axes, alignAxes t oObs oSamp ax = .ok axes ∧ axes.Nodup ∧ (∀ a, a ∈ axes ↔ a ∈ want) ∧
        ∀ a ∈ axes, sameSet (t.ids a) (otherIds oObs oSamp a) = true
    | none => alignAxes t oObs oSamp ax = .error (if ax = .unknown then .unknownAxis else .disjointId) := by
  unfold alignedAxes alignAxes
  cases ax <;> simp only
  · -- sample
    by_cases hS : sameSet t.samp oSamp = true
    · simp only [hS, if_true]
      exact ⟨[.samp], rfl, by simp, fun a => Iff.rfl, fun a ha => by simp at ha; subst ha; exact hS⟩
    · simp [hS]
  · -- observation
    by_cases hO : sameSet t.obs oObs = true
    · simp only [hO, if_true]
      exact ⟨[.obs], rfl, by simp, fun a => Iff.rfl, fun a ha => by simp at ha; subst ha; exact hO⟩
    · simp [hO]
  · -- both
    by_cases hO : sameSet t.obs oObs = true <;> by_cases hS : sameSet t.samp oSamp = true
    · simp only [hO, hS, Bool.and_self, if_true]
      refine ⟨[.obs, .samp], rfl, by simp, fun a => Iff.rfl, fun a ha => ?_⟩
      cases a
      · exact hO
      · exact hS
    · simp [hO, hS]
    · simp [hO, hS]
    · simp [hO, hS]
  · -- detect
    by_cases hO : sameSet t.obs oObs = true <;> by_cases hS : sameSet t.samp oSamp = true
    · simp only [hO, hS, Bool.or_self, if_true]
      refine ⟨[.samp, .obs], rfl, by simp, fun a => by cases a <;> simp, fun a ha => ?_⟩
      cases a
      · exact hO
      · exact hS
    · simp only [hO, hS, Bool.or_false, if_true]
      exact ⟨[.obs], by simp, by simp, fun a => by simp, fun a ha => by simp at ha; subst ha; exact hO⟩
    · simp only [hO, hS, Bool.or_true, if_true]
      exact ⟨[.samp], by simp, by simp, fun a => by simp, fun a ha => by simp at ha; subst ha; exact hS⟩
    · simp [hO, hS]
  · rfl

/-- "the resulting order is exactly the requested one" for `align_to`: every aligned axis ends in
the other table's order, the other axis keeps its own, values and metadata are kept by ID -/
theorem alignTo_order {t : Table α} (hv : Valid t) {oObs oSamp : List Id} (ho : oObs.Nodup)
    (hs : oSamp.Nodup) {ax : AAxis} {want : List Axis} (hw : alignedAxes t oObs oSamp ax = some want) :
    ∃ r, alignTo t oObs oSamp ax = .ok r ∧ Kept t r ∧ Valid r ∧
      ∀ a, r.ids a = if a ∈ want then otherIds oObs oSamp a else t.ids a := by
  have h := alignAxes_spec t oObs oSamp ax
  rw [hw] at h
  obtain ⟨axes, h1, h2, h3, h4⟩ := h
  obtain ⟨r, hr, hk, hvr, hids⟩ := sortAll_spec ho hs axes h2 hv h4
  refine ⟨r, ?_, hk, hvr, ?_⟩
  · simp only [alignTo, h1, hr]
  · intro a
    rw [hids a]
    by_cases ha : a ∈ axes
    · rw [if_pos ha, if_pos ((h3 a).mp ha)]
    · rw [if_neg ha, if_neg (fun hc => ha ((h3 a).mpr hc))]

/-- the `DisjointIDError` cases: the requested axis (both axes for `both`, every axis for `detect`)
does not carry the same ID set in the two tables -/
theorem alignTo_refuses_disjoint {t : Table α} {oObs oSamp : List Id} {ax : AAxis}
    (hw : alignedAxes t oObs oSamp ax = none) (hax : ax ≠ .unknown) :
    alignTo t oObs oSamp ax = .error .disjointId := by
  have h := alignAxes_spec t oObs oSamp ax
  rw [hw] at h
  simp only [alignTo, h, if_neg hax]

theorem alignTo_refuses_unknown_axis (t : Table α) (oObs oSamp : List Id) :
    alignTo t oObs oSamp .unknown = .error .unknownAxis := rfl

/-! ### the declarative predicate holds of the model -/

section ModelHolds
variable [DecidableEq α]

theorem unknown_false {ids order : List Id} (hk : ∀ i ∈ order, i ∈ ids) :
    order.any (fun i => !ids.contains i) = false := by
  rw [List.any_eq_false]
  intro i hi
  simp [hk i hi]

theorem unknown_true {ids order : List Id} (h : ∃ i ∈ order, i ∉ ids) :
    order.any (fun i => !ids.contains i) = true := by
  obtain ⟨i, hi, hn⟩ := h
  rw [List.any_eq_true]
  exact ⟨i, hi, by simp [hn]⟩

theorem not_forall_mem {ids order : List Id} (hk : ¬ ∀ i ∈ order, i ∈ ids) : ∃ i ∈ order, i ∉ ids := by
  apply Classical.byContradiction
  intro hc
  apply hk
  intro i hi
  apply Classical.byContradiction
  intro hn
  exact hc ⟨i, hi, hn⟩

theorem distinct_false {l : List Id} (h : ¬ l.Nodup) : distinct l = false := by
  rw [Bool.eq_false_iff]; intro hd; exact h ((distinct_iff _).mp hd)

theorem isEmpty_false {l : List Id} (h : l ≠ []) : l.isEmpty = false := by simpa using h

theorem sortOrderClauses_hold {t : Table α} (hv : Valid t) (order : List Id) (ax : Axis)
    (sa : Option (List Id)) :
    (sortOrderClauses t order ax { result := sortOrder t order ax, after := t, sortArg := sa }).all (·.2) = true := by
  have hvalid : valid t = true := (valid_iff t).mpr hv
  by_cases hk : ∀ i ∈ order, i ∈ t.ids ax
  · have hunk := unknown_false hk
    by_cases hn : order.Nodup
    · have hres := sortOrder_ok hv hk hn
      have hdis := (distinct_iff _).mpr hn
      have hkept : keptById t (norm (reordered t order ax)) = true :=
        (keptById_iff _ _).mpr (reordered_kept hv.wf hk).norm
      have hperm : (!(order.isPerm (t.ids ax)) || (order.isPerm (t.ids ax) && true)) = true := by
        cases order.isPerm (t.ids ax) <;> rfl
      simp [sortOrderClauses, hvalid, hres, hdis, hkept, isErr, isOk, onOk]
      exact hk
    · have hdis := distinct_false hn
      by_cases he : t.ids ax.other = []
      · simp [sortOrderClauses, hvalid, hdis, he]
        exact Or.inl hk
      · have hres := sortOrder_refuses_duplicate hk hn he
        simp [sortOrderClauses, hvalid, hdis, hres, isErr, isOk, onOk]
        exact hk
  · have hex := not_forall_mem hk
    have hunk := unknown_true hex
    have hres := sortOrder_unknown (t := t) hex
    simp [sortOrderClauses, hvalid, hres, isErr, isOk, onOk, hex]

theorem sortOrder_holds {t : Table α} (hv : Valid t) (order : List Id) (ax : Axis) :
    holds t (.sortOrder order ax) (run t (.sortOrder order ax)) = true :=
  sortOrderClauses_hold hv order ax none

theorem sort_holds {t : Table α} (hv : Valid t) (sorted : List Id) (ax : Axis) :
    holds t (.sort sorted ax) (run t (.sort sorted ax)) = true := by
  have := sortOrderClauses_hold hv sorted ax (some (t.ids ax))
  simp only [holds, clauses, run, sort, List.all_cons, this, Bool.and_true, decide_eq_true_eq]

theorem transpose_holds {t : Table α} (hv : Valid t) :
    holds t .transpose (run t .transpose) = true := by
  have hvalid : valid t = true := (valid_iff t).mpr hv
  have hres := transposeT_ok hv
  have hwf : (norm (transposed t)).wfb = true := (wfb_iff _).mpr (norm_WF (transposed_WF hv.wf))
  have hcells : (t.obs.all fun ob => t.samp.all fun s =>
      ((norm (transposed t)).cell? s ob).isSome && decide ((norm (transposed t)).cell? s ob = t.cell? ob s)) = true := by
    simp only [List.all_eq_true, Bool.and_eq_true, decide_eq_true_eq]
    intro o ho s hs
    rw [norm_cell?, transposed_cell hv.wf]
    exact ⟨cell_isSome hv.wf ho hs, rfl⟩
  have hmd : ((t.obs.all fun id => decide (mdE (norm (transposed t)) .samp id = mdE t .obs id)) &&
      (t.samp.all fun id => decide (mdE (norm (transposed t)) .obs id = mdE t .samp id))) = true := by
    simp only [List.all_eq_true, Bool.and_eq_true, decide_eq_true_eq]
    exact ⟨fun id _ => (norm_mdE _ _ _).trans (transposed_mdE t .obs id),
           fun id _ => (norm_mdE _ _ _).trans (transposed_mdE t .samp id)⟩
  simp only [holds, clauses, run, transposeClauses, hres, hvalid, isOk, onOk, hwf, hcells, hmd,
    List.all_cons, List.all_nil, Bool.and_true, decide_true, Bool.not_false]
  simp [transposed]

theorem copy_holds {t : Table α} (hv : Valid t) : holds t .copy (run t .copy) = true := by
  have hvalid : valid t = true := (valid_iff t).mpr hv
  have hres := copy_eq hv
  have hkept : keptById t (norm t) = true := (keptById_iff _ _).mpr (copy_kept hv)
  simp [holds, clauses, run, copyClauses, hres, hvalid, isOk, onOk, hkept]

omit [DecidableEq α] in
theorem alignedAxes_unknown (t : Table α) (oObs oSamp : List Id) : alignedAxes t oObs oSamp .unknown = none := rfl

theorem alignTo_holds {t : Table α} (hv : Valid t) {oObs oSamp : List Id} (ho : oObs.Nodup) (hs : oSamp.Nodup)
    (ax : AAxis) : holds t (.alignTo oObs oSamp ax) (run t (.alignTo oObs oSamp ax)) = true := by
  have hvalid : valid t = true := (valid_iff t).mpr hv
  have hdo := (distinct_iff _).mpr ho
  have hds := (distinct_iff _).mpr hs
  cases hw : alignedAxes t oObs oSamp ax with
  | none =>
    by_cases hax : ax = .unknown
    · subst hax
      simp [holds, clauses, run, alignToClauses, hvalid, hdo, hds, hw, alignTo_refuses_unknown_axis, isErr, isOk, onOk]
    · have hres := alignTo_refuses_disjoint hw hax
      simp [holds, clauses, run, alignToClauses, hvalid, hdo, hds, hw, hres, isErr, isOk, onOk, hax]
  | some want =>
    have hax : ax ≠ .unknown := by
      intro e; subst e; rw [alignedAxes_unknown] at hw; cases hw
    obtain ⟨r, hres, hk, _, hids⟩ := alignTo_order hv ho hs hw
    have hkept : keptById t r = true := (keptById_iff _ _).mpr hk
    have h1 : r.obs = if Axis.obs ∈ want then oObs else t.obs := hids .obs
    have h2 : r.samp = if Axis.samp ∈ want then oSamp else t.samp := hids .samp
    simp [holds, clauses, run, alignToClauses, hvalid, hdo, hds, hw, hres, isErr, isOk, onOk, hax, hkept,
      h1, h2, otherIds, Table.ids]

theorem relabelled_setIds {t : Table α} (hv : Valid t) {ax : Axis} {ids' : List Id}
    (hl : (t.ids ax).length = ids'.length) (hn' : ids'.Nodup) :
    relabelled t (setIds t ax ids') ax ((t.ids ax).zip ids') = true := by
  unfold relabelled
  rw [Bool.and_eq_true]
  constructor
  · rw [List.all_eq_true]
    rintro ⟨old, new⟩ hp
    simp only [decide_eq_true_eq]
    exact setIds_mdE_self hl (ids_nodup hv ax) hn' hp
  · cases ax with
    | obs =>
      simp only [List.all_eq_true, Bool.and_eq_true, decide_eq_true_eq]
      rintro ⟨old, new⟩ hp s hs
      have hc := setIds_cell_obs (t := t) hl hv.obsNodup hn' hp s
      simp only
      rw [hc]
      exact ⟨cell_isSome hv.wf (List.of_mem_zip hp).1 hs, rfl⟩
    | samp =>
      simp only [List.all_eq_true, Bool.and_eq_true, decide_eq_true_eq]
      rintro ⟨old, new⟩ hp o ho
      have hc := setIds_cell_samp (t := t) hl hv.sampNodup hn' hp o
      simp only
      rw [hc]
      exact ⟨cell_isSome hv.wf ho (List.of_mem_zip hp).1, rfl⟩

theorem relabelled_norm (t r : Table α) (ax : Axis) (ps : List (Id × Id)) :
    relabelled t (norm r) ax ps = relabelled t r ax ps := by
  unfold relabelled
  cases ax <;> simp only [norm_mdE, norm_cell?] <;> rfl

omit [DecidableEq α] in
theorem mdById_setIds_other (t : Table α) (ax : Axis) (ids' : List Id) :
    mdById t (setIds t ax ids') ax.other = true := by
  unfold mdById
  simp only [List.all_eq_true, decide_eq_true_eq]
  intro id _
  exact setIds_mdE_other t ax ids' id

omit [DecidableEq α] in
theorem mdById_norm (t r : Table α) (ax : Axis) : mdById t (norm r) ax = mdById t r ax := by
  unfold mdById
  simp only [norm_mdE, norm_ids]

omit [DecidableEq α] in
theorem missing_iff (m : List (Id × Id)) (ids : List Id) (strict : Bool) :
    (strict && ids.any fun i => (m.lookup i).isNone) = true ↔
      strict = true ∧ ∃ i ∈ ids, m.lookup i = none := by
  simp [List.any_eq_true]

omit [DecidableEq α] in
theorem updateIds_not_inplace (t : Table α) (m : List (Id × Id)) (ax : Axis) (strict : Bool) :
    (updateIds t m ax strict false).after = t ∧ (updateIds t m ax strict false).same = false := by
  unfold updateIds
  cases relabel m strict (idWidth m (t.ids ax) strict) (t.ids ax) with
  | error e => exact ⟨rfl, rfl⟩
  | ok ids' =>
    simp only [Bool.false_eq_true, if_false]
    cases copy t with
    | error e => exact ⟨rfl, rfl⟩
    | ok c =>
      simp only
      cases errcheck (setIds c ax ids') <;> exact ⟨rfl, rfl⟩

theorem updateIds_holds {t : Table α} (hv : Valid t) (m : List (Id × Id)) (ax : Axis)
    (strict inplace : Bool) :
    holds t (.updateIds m ax strict inplace) (run t (.updateIds m ax strict inplace)) = true := by
  have hvalid : valid t = true := (valid_iff t).mpr hv
  by_cases hmiss : strict = true ∧ ∃ i ∈ t.ids ax, m.lookup i = none
  · obtain ⟨hs, hex⟩ := hmiss
    subst hs
    obtain ⟨h1, h2⟩ := updateIds_refuses_missing_strict (t := t) (ax := ax) (inplace := inplace) hex
    have hmb := (missing_iff m (t.ids ax) true).mpr ⟨rfl, hex⟩
    simp only [holds, clauses, run, updateIdsClauses, List.all_cons, List.all_nil, h1, h2, hvalid, hmb,
      isErr, isOk, onOk]
    simp
  · have hmb : (strict && (t.ids ax).any fun i => (m.lookup i).isNone) = false := by
      rw [Bool.eq_false_iff]; intro h; exact hmiss ((missing_iff _ _ _).mp h)
    have hk : strict = true → ∀ i ∈ t.ids ax, (m.lookup i).isSome = true := by
      intro hs i hi'
      cases hl : m.lookup i with
      | some v => rfl
      | none => exact absurd ⟨hs, i, hi', hl⟩ hmiss
    by_cases hinj : (target m (t.ids ax)).Nodup
    · have hd := (distinct_iff _).mpr hinj
      have hres := updateIds_ok hv (inplace := inplace) hk hinj
      have hl : (t.ids ax).length = (target m (t.ids ax)).length := by simp
      have hwf1 : (setIds t ax (target m (t.ids ax))).wfb = true :=
        (wfb_iff _).mpr (setIds_WF hv.wf hl.symm)
      have hrel := relabelled_setIds hv hl hinj
      have hmdo := mdById_setIds_other t ax (target m (t.ids ax))
      cases inplace with
      | true =>
        simp only [holds, clauses, run, updateIdsClauses, List.all_cons, List.all_nil, hres, hvalid, hmb, hd,
          isErr, isOk, onOk]
        simp [hwf1, hrel, hmdo]
      | false =>
        have hwf2 : (setIds (norm t) ax (target m (t.ids ax))).wfb = true := by
          rw [setIds_norm]; exact (wfb_iff _).mpr (norm_WF (setIds_WF hv.wf hl.symm))
        have hrel2 : relabelled t (setIds (norm t) ax (target m (t.ids ax))) ax
            ((t.ids ax).zip (target m (t.ids ax))) = true := by
          rw [setIds_norm, relabelled_norm]; exact hrel
        have hmdo2 : mdById t (setIds (norm t) ax (target m (t.ids ax))) ax.other = true := by
          rw [setIds_norm, mdById_norm]; exact hmdo
        simp only [holds, clauses, run, updateIdsClauses, List.all_cons, List.all_nil, hres, hvalid, hmb, hd,
          isErr, isOk, onOk]
        simp [hwf2, hrel2, hmdo2]
    · have hd := distinct_false hinj
      by_cases hne : inplace = true ∨ t.ids ax.other ≠ []
      · obtain ⟨h1, h2⟩ := updateIds_refuses_noninjective hv (strict := strict) hk hinj hne
        simp only [holds, clauses, run, updateIdsClauses, List.all_cons, List.all_nil, h1, h2, hvalid, hmb, hd,
          isErr, isOk, onOk]
        simp
      · have hip : inplace = false := by
          cases inplace with
          | true => exact absurd (Or.inl rfl) hne
          | false => rfl
        have he : t.ids ax.other = [] := by
          apply Classical.byContradiction; intro h; exact hne (Or.inr h)
        subst hip
        obtain ⟨h1, h2⟩ := updateIds_not_inplace t m ax strict
        simp only [holds, clauses, run, updateIdsClauses, List.all_cons, List.all_nil, h1, h2, hvalid, hmb, hd, he]
        simp

/-- domain condition of a call: the other table of `align_to` is a table, so its IDs are distinct -/
def otherValid : Op → Bool
  | .alignTo oObs oSamp _ => distinct oObs && distinct oSamp
  | _ => true

/-- The property predicate is true of what the model computes — for every valid table of every
size, every requested order (permutation or not), every list a sort function may return, every
other table and axis argument, every id_map (empty, total, partial, colliding, longer, shorter),
strict or not, in place or not. -/
theorem model_holds {t : Table α} (hv : valid t = true) (op : Op) (hop : otherValid op = true) :
    holds t op (run t op) = true := by
  have hv' := (valid_iff t).mp hv
  cases op with
  | sortOrder order ax => exact sortOrder_holds hv' order ax
  | sort sorted ax => exact sort_holds hv' sorted ax
  | alignTo oo os ax =>
    simp only [otherValid, Bool.and_eq_true, distinct_iff] at hop
    exact alignTo_holds hv' hop.1 hop.2 ax
  | transpose => exact transpose_holds hv'
  | copy => exact copy_holds hv'
  | updateIds m ax strict inplace => exact updateIds_holds hv' m ax strict inplace

/-- reordering by a permutation and back, observed by content: IDs, order, cells and metadata by ID -/
theorem sortOrder_inverse_restored {t r r2 : Table α} {order : List Id} {ax : Axis} (hv : Valid t)
    (hp : order.Perm (t.ids ax)) (h : sortOrder t order ax = .ok r) (h2 : sortOrder r (t.ids ax) ax = .ok r2) :
    restored t r2 = true := by
  rw [sortOrder_inverse hv hp h] at h2
  cases h2
  simp [restored, (keptById_iff _ _).mpr (copy_kept hv)]

theorem transpose_transpose_restored {t r r2 : Table α} (hv : Valid t) (h : transposeT t = .ok r)
    (h2 : transposeT r = .ok r2) : restored t r2 = true := by
  rw [transpose_transpose hv h] at h2
  cases h2
  have hk : Kept t { norm t with ttype := none } := by
    have := copy_kept hv
    exact ⟨this.wf, this.cells, this.md⟩
  unfold restored
  rw [Bool.and_eq_true, Bool.and_eq_true]
  exact ⟨⟨decide_eq_true rfl, decide_eq_true rfl⟩, (keptById_iff _ _).mpr hk⟩

end ModelHolds

/-! ### non-vacuity: the hypotheses are met by concrete, asymmetric inputs; the witness -/

def demo : Table Nat :=
  { obs := ["o1", "o2"], samp := ["s1", "s2", "s3"], rows := [[1, 2, 3], [4, 0, 6]],
    omd := some [[("taxonomy", "[\"k__A\"]")], [("taxonomy", "[\"k__B\"]")]],
    smd := some [[("grp", "\"a\"")], [], [("grp", "\"c\"")]], ttype := some "OTU table" }

theorem demo_valid : Valid demo := (valid_iff demo).mp (by decide)

-- the input that used to crash (`update_ids({}, …)` raised ValueError from `max([])` before the repair):
-- strict=False keeps every ID, strict=True refuses the first unmapped ID, and the predicate holds
example : (updateIds demo [] .samp false true).result = .ok demo ∧
    isErr (updateIds demo [] .samp true false).result .tableException = true ∧
    holds demo (.updateIds [] .samp false true) (run demo (.updateIds [] .samp false true)) = true ∧
    holds demo (.updateIds [] .samp true false) (run demo (.updateIds [] .samp true false)) = true := by
  decide

example : ["s3", "s1", "s2"].Perm (demo.ids .samp) := List.isPerm_iff.mp (by decide)

-- sortOrder_perm / sortOrder_cell / sortOrder_md / sortOrder_inverse: a 3-cycle of the samples
example : ∃ r, sortOrder demo ["s3", "s1", "s2"] .samp = .ok r ∧ r.samp = ["s3", "s1", "s2"] ∧
    r.cell? "o2" "s3" = some 6 ∧ r.rows = [[3, 1, 2], [6, 4, 0]] ∧ mdE r .samp "s2" = [] ∧
    mdE r .samp "s3" = [("grp", "\"c\"")] ∧ sortOrder r demo.samp .samp = .ok demo := by
  refine ⟨_, sortOrder_ok demo_valid (by decide) (by decide), ?_⟩
  decide

example : norm demo = demo := by decide

example : sortOrder demo ["s3", "s1", "s1"] .samp = .error .tableException :=
  sortOrder_refuses_duplicate (by decide) (by decide) (by decide)

example : sortOrder demo ["s3", "zz"] .samp = .error .unknownId :=
  sortOrder_refuses_unknown ⟨"zz", by decide, by decide⟩

-- transpose_cell / transpose_transpose
example : ∃ r, transposeT demo = .ok r ∧ r.cell? "s3" "o2" = demo.cell? "o2" "s3" ∧ r.obs = demo.samp ∧
    mdE r .obs "s1" = mdE demo .samp "s1" ∧ transposeT r = .ok { demo with ttype := none } := by
  refine ⟨_, transposeT_ok demo_valid, ?_⟩
  decide

-- updateIds_cell_obs: a partial, lengthening renaming with strict=False, not in place
example : ∃ r, (updateIds demo [("o1", "o1_much_longer_id")] .obs false false).result = .ok r ∧
    r.obs = ["o1_much_longer_id", "o2"] ∧ r.cell? "o1_much_longer_id" "s3" = some 3 ∧
    mdE r .obs "o1_much_longer_id" = mdE demo .obs "o1" := by
  obtain ⟨r, h1, h2, _, h4, h5, _⟩ := updateIds_cell_obs (m := [("o1", "o1_much_longer_id")]) (strict := false)
    (inplace := false) demo_valid (by decide) (by decide)
  exact ⟨r, h1, h2, h4 "o1" (by decide) "s3", h5 "o1" (by decide)⟩

-- a shortening, total renaming with strict=True, in place
example : ∃ r, (updateIds demo [("s1", "a"), ("s2", "b"), ("s3", "c")] .samp true true).result = .ok r ∧
    r.samp = ["a", "b", "c"] ∧ ∀ o, r.cell? o "c" = demo.cell? o "s3" := by
  obtain ⟨r, h1, h2, _, h4, _, _⟩ := updateIds_cell_samp (m := [("s1", "a"), ("s2", "b"), ("s3", "c")])
    (strict := true) (inplace := true) demo_valid (by decide) (by decide)
  exact ⟨r, h1, h2, fun o => h4 "s3" (by decide) o⟩

-- updateIds_refuses_noninjective / updateIds_refuses_missing_strict
example : (updateIds demo [("o1", "o2")] .obs false true).result = .error .tableException ∧
    (updateIds demo [("o1", "o2")] .obs false true).after = demo :=
  updateIds_refuses_noninjective demo_valid (by decide) (by decide) (by decide)

example : (updateIds demo [("s1", "x")] .samp true false).result = .error .tableException ∧
    (updateIds demo [("s1", "x")] .samp true false).after = demo :=
  updateIds_refuses_missing_strict ⟨"s2", by decide, by decide⟩

-- alignTo_order: both axes permuted in the other table; alignTo_refuses_disjoint
example : ∃ r, alignTo demo ["o2", "o1"] ["s2", "s3", "s1"] .both = .ok r ∧ r.obs = ["o2", "o1"] ∧
    r.samp = ["s2", "s3", "s1"] ∧ r.rows = [[0, 6, 4], [2, 3, 1]] := by
  obtain ⟨r, h, _, _, hids⟩ := alignTo_order demo_valid (oObs := ["o2", "o1"]) (oSamp := ["s2", "s3", "s1"])
    (by decide) (by decide) (ax := .both) (want := [.obs, .samp]) (by decide)
  refine ⟨r, h, hids .obs, hids .samp, ?_⟩
  have : alignTo demo ["o2", "o1"] ["s2", "s3", "s1"] .both = .ok
      { demo with obs := ["o2", "o1"], samp := ["s2", "s3", "s1"], rows := [[0, 6, 4], [2, 3, 1]],
                  omd := some [[("taxonomy", "[\"k__B\"]")], [("taxonomy", "[\"k__A\"]")]],
                  smd := some [[], [("grp", "\"c\"")], [("grp", "\"a\"")]] } := by decide
  rw [this] at h
  cases h
  rfl

example : alignTo demo ["o2", "o1"] ["s2", "s3"] .sample = .error .disjointId :=
  alignTo_refuses_disjoint (by decide) (by decide)

example : otherValid (.alignTo ["o2", "o1"] ["s2", "s3", "s1"] .both) = true := by decide

end Biom.C06

