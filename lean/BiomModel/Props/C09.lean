/-
  C09 — property theorems.  Values live in an arbitrary commutative additive monoid (`Int`, `Rat`, …);
  tables have any number of IDs in any order, any overlap between the operands, any metadata, any
  metadata-merge functions, any number of operands in the list form — no bound anywhere.
-/
import BiomModel.Lemmas.C09

set_option linter.unusedSectionVars false

namespace Biom.C09

variable {α : Type} [AddCommMonoid α] [DecidableEq α]

/-! ### the general path (two operands, all four mode pairs) -/

theorem generalMerge_ok {fs fo : MdF} {ms mo : Mode} {a b r : Table α}
    (h : generalMerge fs fo ms mo a b = .ok r) :
    newOrder ms a.samp b.samp ≠ [] ∧ newOrder mo a.obs b.obs ≠ [] ∧ r = generalTable fs fo ms mo a b := by
  rw [generalMerge_eq] at h
  by_cases h1 : (newOrder ms a.samp b.samp).isEmpty = true
  · rw [if_pos h1] at h; cases h
  · rw [if_neg h1] at h
    by_cases h2 : (newOrder mo a.obs b.obs).isEmpty = true
    · rw [if_pos h2] at h; cases h
    · rw [if_neg h2] at h
      exact ⟨by simpa using h1, by simpa using h2, (Except.ok.inj h).symm⟩

/-- "Merging tables yields, per axis, the union or the intersection of the operands' IDs as
requested" — as sets, each ID once, for each of the four mode pairs. -/
theorem merge_ids (fs fo : MdF) (ms mo : Mode) (a b r : Table α) (ha : OpWF a)
    (h : generalMerge fs fo ms mo a b = .ok r) :
    r.obs.Nodup ∧ r.samp.Nodup ∧
    (mo = .union → ∀ id, id ∈ r.obs ↔ id ∈ a.obs ∨ id ∈ b.obs) ∧
    (mo = .inter → ∀ id, id ∈ r.obs ↔ id ∈ a.obs ∧ id ∈ b.obs) ∧
    (ms = .union → ∀ id, id ∈ r.samp ↔ id ∈ a.samp ∨ id ∈ b.samp) ∧
    (ms = .inter → ∀ id, id ∈ r.samp ↔ id ∈ a.samp ∧ id ∈ b.samp) := by
  obtain ⟨_, _, rfl⟩ := generalMerge_ok h
  refine ⟨nodup_newOrder mo _ _ ha.2.1, nodup_newOrder ms _ _ ha.2.2, ?_, ?_, ?_, ?_⟩
  · rintro rfl id; exact mem_unionOrder a.obs b.obs id
  · rintro rfl id; exact mem_interOrder a.obs b.obs id
  · rintro rfl id; exact mem_unionOrder a.samp b.samp id
  · rintro rfl id; exact mem_interOrder a.samp b.samp id

/-- union order = the receiver's IDs, then the other's new ones; intersection = the receiver's
order restricted to the common IDs (not part of the property; recorded for the model) -/
theorem merge_order (fs fo : MdF) (ms mo : Mode) (a b r : Table α) (ha : OpWF a) (hb : OpWF b)
    (h : generalMerge fs fo ms mo a b = .ok r) :
    r.obs = (match mo with
      | .union => a.obs ++ b.obs.filter (fun x => decide (x ∉ a.obs))
      | .inter => a.obs.filter (fun x => decide (x ∈ b.obs))) := by
  obtain ⟨_, _, rfl⟩ := generalMerge_ok h
  cases mo
  · exact unionOrder_eq a.obs b.obs ha.2.1 hb.2.1
  · rfl

/-- "the value for every (observation, sample) pair in the result is the sum of the operands'
values for that pair (absent counts as zero)" -/
theorem merge_cell (fs fo : MdF) (ms mo : Mode) (a b r : Table α)
    (h : generalMerge fs fo ms mo a b = .ok r) (o s : Id) (ho : o ∈ r.obs) (hs : s ∈ r.samp) :
    r.cell? o s = some (cellOr0 a o s + cellOr0 b o s) := by
  obtain ⟨_, _, rfl⟩ := generalMerge_ok h
  exact general_cell fs fo ms mo a b o s ho hs

/-- "under union/union the grand total is the sum of the operands' totals" -/
theorem merge_total_union (fs fo : MdF) (a b r : Table α) (ha : OpWF a) (hb : OpWF b)
    (h : generalMerge fs fo .union .union a b = .ok r) : total r = total a + total b := by
  obtain ⟨_, _, rfl⟩ := generalMerge_ok h
  have hg := good_general fs fo .union .union a b ha
  have := total_of_good hg (by
    intro t ht
    simp only [List.mem_cons, List.not_mem_nil, or_false] at ht
    rcases ht with rfl | rfl <;> assumption)
  rw [this, sumL_eq_sum]
  simp

/-- "Each ID's metadata in the result is the metadata-merge function applied to the operands'
metadata for that ID" (an absent entry is `None`; `None` and the empty mapping are identified) -/
theorem merge_md (fs fo : MdF) (ms mo : Mode) (a b r : Table α)
    (h : generalMerge fs fo ms mo a b = .ok r) (ax : Axis) (id : Id) (hid : id ∈ r.ids ax) :
    canon (r.mdOf? ax id) = canon (applyF (fOf fs fo ax) (a.mdOf? ax id) (b.mdOf? ax id)) := by
  obtain ⟨_, _, rfl⟩ := generalMerge_ok h
  rw [general_md]
  simp only
  by_cases hall : ((generalTable fs fo ms mo a b).ids ax).all
      (fun i => (canon (applyF (fOf fs fo ax) (a.mdOf? ax i) (b.mdOf? ax i))).isEmpty) = true
  · rw [if_pos hall]
    rw [List.all_eq_true] at hall
    have := hall id hid
    simp only [List.isEmpty_iff] at this
    rw [this]; rfl
  · rw [if_neg hall, if_pos hid]; rfl

/-- "by default the receiver's if it has any, otherwise the other's" -/
theorem merge_md_prefer_self (ms mo : Mode) (a b r : Table α)
    (h : generalMerge (some preferSelf) (some preferSelf) ms mo a b = .ok r) (ax : Axis) (id : Id)
    (hid : id ∈ r.ids ax) :
    canon (r.mdOf? ax id) = match a.mdOf? ax id with
      | some m => m
      | none => canon (b.mdOf? ax id) := by
  rw [merge_md _ _ ms mo a b r h ax id hid]
  cases ax <;> simp only [fOf, applyF, preferSelf] <;> cases a.mdOf? _ id <;> rfl

/-- a `None` metadata function carries no metadata to that axis -/
theorem merge_md_none (fs fo : MdF) (ms mo : Mode) (a b r : Table α)
    (h : generalMerge fs fo ms mo a b = .ok r) (ax : Axis) (hf : fOf fs fo ax = none) :
    r.md ax = none := by
  obtain ⟨_, _, rfl⟩ := generalMerge_ok h
  cases ax <;> simp only [fOf] at hf <;> subst hf <;>
    simp [generalTable, Table.md, castMd, mdList, applyF, canon]

/-- the general path refuses exactly when an axis comes out empty (e.g. an empty intersection),
and then with `TableException` -/
theorem merge_refuses_iff (fs fo : MdF) (ms mo : Mode) (a b : Table α) :
    (∃ e, generalMerge fs fo ms mo a b = .error e) ↔
      (newOrder ms a.samp b.samp = [] ∨ newOrder mo a.obs b.obs = []) := by
  rw [generalMerge_eq]
  by_cases h1 : (newOrder ms a.samp b.samp).isEmpty = true
  · rw [if_pos h1]
    exact ⟨fun _ => Or.inl (by simpa using h1), fun _ => ⟨_, rfl⟩⟩
  · rw [if_neg h1]
    by_cases h2 : (newOrder mo a.obs b.obs).isEmpty = true
    · rw [if_pos h2]
      exact ⟨fun _ => Or.inr (by simpa using h2), fun _ => ⟨_, rfl⟩⟩
    · rw [if_neg h2]
      constructor
      · rintro ⟨e, he⟩; cases he
      · rintro (h | h)
        · exact absurd (by simp [h]) h1
        · exact absurd (by simp [h]) h2

theorem merge_refusal_is_tableException (fs fo : MdF) (ms mo : Mode) (a b : Table α) (e : Err)
    (h : generalMerge fs fo ms mo a b = .error e) : e = .tableException := by
  rw [generalMerge_eq] at h
  split at h
  · exact (Except.error.inj h).symm
  · split at h
    · exact (Except.error.inj h).symm
    · cases h

/-- an empty intersection is refused -/
theorem merge_empty_intersection_refused (fs fo : MdF) (mo : Mode) (a b : Table α)
    (h : ∀ id, ¬ (id ∈ a.samp ∧ id ∈ b.samp)) :
    generalMerge fs fo .inter mo a b = .error .tableException := by
  have : newOrder .inter a.samp b.samp = [] := by
    apply List.eq_nil_iff_forall_not_mem.mpr
    intro id hid
    exact h id ((mem_interOrder _ _ _).mp hid)
  rw [generalMerge_eq, this]
  rfl

/-! ### the fast path (k operands) -/

/-- global ID spaces: every ID of every operand, once -/
theorem fastMerge_ids (ts : List (Table α)) :
    (fastMerge ts).obs.Nodup ∧ (fastMerge ts).samp.Nodup ∧
    (∀ id, id ∈ (fastMerge ts).obs ↔ ∃ t ∈ ts, id ∈ t.obs) ∧
    (∀ id, id ∈ (fastMerge ts).samp ↔ ∃ t ∈ ts, id ∈ t.samp) :=
  ⟨nodup_globalIds ts .obs, nodup_globalIds ts .samp, fun id => mem_globalIds ts .obs id,
    fun id => mem_globalIds ts .samp id⟩

/-- k operands: every cell is the sum over the operands, absent = 0 -/
theorem fastMerge_cell (ts : List (Table α)) (h : ∀ t ∈ ts, OpWF t) (o s : Id)
    (ho : o ∈ (fastMerge ts).obs) (hs : s ∈ (fastMerge ts).samp) :
    (fastMerge ts).cell? o s = some ((ts.map (fun t => cellOr0 t o s)).sum) :=
  fast_cell ts (fun t ht => (h t ht).2) o s ho hs

theorem fastMerge_total (ts : List (Table α)) (h : ∀ t ∈ ts, OpWF t) :
    total (fastMerge ts) = (ts.map total).sum :=
  total_of_good (good_fast ts h) h

theorem fastMerge_no_metadata (ts : List (Table α)) : (fastMerge ts).omd = none ∧ (fastMerge ts).smd = none :=
  ⟨rfl, rfl⟩

/-- "the fast path taken for metadata-free unions gives the same values and ID sets as the
general path" — whenever both are applicable (two operands, union/union, general path not refusing) -/
theorem fast_eq_general (fs fo : MdF) (a b g : Table α) (ha : OpWF a) (hb : OpWF b)
    (h : generalMerge fs fo .union .union a b = .ok g) :
    (∀ id, id ∈ (fastMerge [a, b]).obs ↔ id ∈ g.obs) ∧
    (∀ id, id ∈ (fastMerge [a, b]).samp ↔ id ∈ g.samp) ∧
    (∀ o ∈ g.obs, ∀ s ∈ g.samp, (fastMerge [a, b]).cell? o s = g.cell? o s) ∧
    total (fastMerge [a, b]) = total g := by
  have hwf : ∀ t ∈ [a, b], OpWF t := by
    intro t ht
    simp only [List.mem_cons, List.not_mem_nil, or_false] at ht
    rcases ht with rfl | rfl <;> assumption
  have hids := merge_ids fs fo .union .union a b g ha h
  have ho : ∀ id, id ∈ (fastMerge [a, b]).obs ↔ id ∈ g.obs := by
    intro id
    rw [(fastMerge_ids [a, b]).2.2.1 id, hids.2.2.1 rfl id]
    simp
  have hs : ∀ id, id ∈ (fastMerge [a, b]).samp ↔ id ∈ g.samp := by
    intro id
    rw [(fastMerge_ids [a, b]).2.2.2 id, hids.2.2.2.2.1 rfl id]
    simp
  refine ⟨ho, hs, ?_, ?_⟩
  · intro o hog s hsg
    rw [fastMerge_cell [a, b] hwf o s ((ho o).mpr hog) ((hs s).mpr hsg),
      merge_cell fs fo .union .union a b g h o s hog hsg]
    simp
  · rw [fastMerge_total [a, b] hwf, merge_total_union fs fo a b g ha hb h]
    simp

/-! ### the whole call: path selection, pairs and k-tuples -/

theorem foldMerge_single (fs fo : MdF) (ms mo : Mode) (a b : Table α) :
    foldMerge fs fo ms mo a [b] = merge2 fs fo ms mo a b := by
  simp only [foldMerge]
  cases merge2 fs fo ms mo a b <;> rfl

theorem merge_cases (inp : Input α) :
    (∃ ts, inp.others = .many ts ∧ fastOk inp.fs inp.fo inp.ms inp.mo (inp.a :: ts) = true ∧
      merge inp = .ok (fastMerge (inp.a :: ts))) ∨
    merge inp = foldMerge inp.fs inp.fo inp.ms inp.mo inp.a inp.others.toList := by
  unfold merge
  cases hoth : inp.others with
  | single b => right; simp only [Others.toList]; rw [foldMerge_single]
  | many ts =>
    simp only [Others.toList]
    by_cases hf : fastOk inp.fs inp.fo inp.ms inp.mo (inp.a :: ts) = true
    · left; exact ⟨ts, rfl, hf, by rw [if_pos hf]⟩
    · right; rw [if_neg hf]

theorem mdOk_of_eq (f : MdF) (m : Mode) (ax : Axis) (a : Table α) (others : List (Table α)) (r : Table α)
    (h : ∀ id, r.mdOf? ax id = (specMd f m ax a others).md id) : mdOk f m ax a others r = true := by
  unfold mdOk
  rw [List.all_eq_true]
  intro id _
  rw [h id]
  exact beq_self_eq_true _

theorem verdict_ok (inp : Input α) (r : Table α) (hts : ∀ t ∈ inp.operands, OpWF t)
    (hg : Good inp.ms inp.mo inp.operands r)
    (hneS : inp.ms = .inter → r.samp ≠ []) (hneO : inp.mo = .inter → r.obs ≠ [])
    (hmdS : mdOk inp.fs inp.ms .samp inp.a inp.others.toList r = true)
    (hmdO : mdOk inp.fo inp.mo .obs inp.a inp.others.toList r = true) :
    verdict inp (.ok r) = none := by
  simp only [verdict]
  apply allV_none8
  · have h1 := emptyInter_false inp.ms .samp inp.a inp.others.toList r.samp hg.memS hneS
    have h2 := emptyInter_false inp.mo .obs inp.a inp.others.toList r.obs hg.memO hneO
    simp only [Input.operands] at h1 h2 ⊢
    rw [h1, h2]; rfl
  · exact (wf_iff_wfb r).mp hg.wf.1
  · exact idsOk_of_mem _ _ _ _ hg.wf.2.2 hg.memS
  · exact idsOk_of_mem _ _ _ _ hg.wf.2.1 hg.memO
  · exact cellsOk_of_good hg
  · cases hms : inp.ms <;> cases hmo : inp.mo <;> try rfl
    rw [hms, hmo] at hg
    simp [total_of_good hg hts]
  · exact hmdS
  · exact hmdO

/-- specification view of a fast whole-list merge: no ID has metadata -/
theorem specMd_none_of_fast (inp : Input α) (ts : List (Table α)) (hne : ts ≠ [])
    (hf : fastOk inp.fs inp.fo .union .union (inp.a :: ts) = true) (ax : Axis)
    (hn : Neutral (fOf inp.fs inp.fo ax)) (m : Mode) (id : Id) :
    (specMd (fOf inp.fs inp.fo ax) m ax inp.a ts).md id = none := by
  unfold specMd
  cases ts with
  | nil => exact absurd rfl hne
  | cons t rest =>
    rw [List.foldl_cons]
    have hentry : ∀ (t' : Table α), t' ∈ inp.a :: t :: rest → ∀ (x : Option Md) (i : Id),
        ((inp.a :: t :: rest).all hasNoMd = true → x = none) →
        canon (applyF (fOf inp.fs inp.fo ax) x (t'.mdOf? ax i)) = [] := by
      intro t' ht' x i hx
      apply fast_entries_empty inp.fs inp.fo (inp.a :: t :: rest) hf ax hn x _ hx
      intro hall
      rw [List.all_eq_true] at hall
      exact mdOf_of_noMd t' (hall t' ht') ax i
    apply specFold_none
    · intro i
      simp only [AxV.step_md]
      rw [if_pos]
      rw [List.all_eq_true]
      intro j _
      rw [hentry t (by simp) _ j]
      · rfl
      · intro hall
        rw [List.all_eq_true] at hall
        exact mdOf_of_noMd inp.a (hall inp.a (by simp)) ax j
    · intro t' ht' i
      exact hentry t' (by simp [ht']) none i (fun _ => rfl)

/-- **Main theorem.** For every receiver and every other table or list of tables with distinct
IDs (any sizes, orders, overlaps, metadata, prior history), every pair of modes and every pair of
metadata functions that map "no metadata, no metadata" to no metadata (or are `None`), the outcome
computed by the model of `Table.merge` satisfies the declarative predicate `holds`: ID sets per
axis, every cell the sum over the operands, union/union grand total, metadata per ID, refusal only
as `TableException` and only for an axis that comes out empty. -/
theorem model_holds (inp : Input α) (hwf : ∀ t ∈ inp.operands, opWFb t = true)
    (hne : inp.others.toList ≠ []) (hfs : Neutral inp.fs) (hfo : Neutral inp.fo) :
    holds inp (merge inp) = true := by
  have hts : ∀ t ∈ inp.operands, OpWF t := fun t ht => opWF_of_b t (hwf t ht)
  have ha : OpWF inp.a := hts inp.a (by simp [Input.operands])
  have hothers : ∀ t ∈ inp.others.toList, OpWF t := fun t ht => hts t (by simp [Input.operands, ht])
  have hneut : ∀ ax, Neutral (fOf inp.fs inp.fo ax) := by intro ax; cases ax <;> assumption
  unfold holds
  rw [Option.isNone_iff_eq_none]
  rcases merge_cases inp with ⟨ts, hoth, hf, hm⟩ | hm
  · -- the whole list takes the fast path
    rw [hm]
    obtain ⟨hms, hmo⟩ := fastOk_modes hf
    have hlist : inp.others.toList = ts := by rw [hoth]; rfl
    have hops : inp.operands = inp.a :: ts := by simp [Input.operands, hlist]
    rw [hms, hmo] at hf
    apply verdict_ok inp _ hts
    · rw [hms, hmo, hops]; exact good_fast _ (by rw [← hops]; exact hts)
    · intro e; rw [hms] at e; cases e
    · intro e; rw [hmo] at e; cases e
    · rw [hlist]
      apply mdOk_of_eq
      intro id
      rw [fastMerge_mdOf]
      exact (specMd_none_of_fast inp ts (by rw [← hlist]; exact hne) hf .samp (hneut .samp) inp.ms id).symm
    · rw [hlist]
      apply mdOk_of_eq
      intro id
      rw [fastMerge_mdOf]
      exact (specMd_none_of_fast inp ts (by rw [← hlist]; exact hne) hf .obs (hneut .obs) inp.mo id).symm
  · -- a single other table, or the pairwise fold of the list form
    rw [hm]
    cases hfold : foldMerge inp.fs inp.fo inp.ms inp.mo inp.a inp.others.toList with
    | ok r =>
      obtain ⟨hg, hnonempty⟩ := fold_good inp.fs inp.fo inp.ms inp.mo inp.others.toList [inp.a] inp.a r
        (good_single _ _ _ ha) hothers hfold
      have hS := fold_md inp.fs inp.fo inp.ms inp.mo .samp (hneut .samp) inp.others.toList inp.a r _
        (mdRel_ofTable .samp inp.a) hfold
      have hO := fold_md inp.fs inp.fo inp.ms inp.mo .obs (hneut .obs) inp.others.toList inp.a r _
        (mdRel_ofTable .obs inp.a) hfold
      exact verdict_ok inp r hts hg (hnonempty hne).1 (hnonempty hne).2
        (mdOk_of_eq _ _ _ _ _ _ hS.2) (mdOk_of_eq _ _ _ _ _ _ hO.2)
    | error e =>
      obtain ⟨he, pre, t, post, acc, hrest, hg, hemp⟩ :=
        fold_error inp.fs inp.fo inp.ms inp.mo inp.others.toList [inp.a] inp.a e
          (good_single _ _ _ ha) hothers hfold
      subst he
      have hb : (Err.tableException == Err.tableException) = true := by decide
      simp only [verdict, Input.operands, hrest]
      rcases hemp with hemp | hemp
      · have := axis_empty inp.ms .samp inp.a pre post t acc hg.memS hemp
        simp only [Bool.or_eq_true, Bool.and_eq_true] at this
        rcases this with h | h
        · simp [Codec.chk, hb, h.1, h.2]
        · simp [Codec.chk, hb, h]
      · have := axis_empty inp.mo .obs inp.a pre post t acc hg.memO hemp
        simp only [Bool.or_eq_true, Bool.and_eq_true] at this
        rcases this with h | h
        · simp [Codec.chk, hb, h.1, h.2]
        · simp [Codec.chk, hb, h]

/-! ### corollaries of the main theorem in the property's own words -/

/-- for a single other table the metadata specification is exactly
`canon (f (receiver's entry) (other's entry))` on every result ID -/
theorem specMd_pair (f : MdF) (m : Mode) (ax : Axis) (a b : Table α) (id : Id)
    (hid : id ∈ newOrder m (a.ids ax) (b.ids ax)) :
    canon ((specMd f m ax a [b]).md id) = canon (applyF f (a.mdOf? ax id) (b.mdOf? ax id)) := by
  simp only [specMd, List.foldl_cons, List.foldl_nil, AxV.step_md, AxV.ofTable]
  by_cases hall : (newOrder m (a.ids ax) (b.ids ax)).all
      (fun i => (canon (applyF f (a.mdOf? ax i) (b.mdOf? ax i))).isEmpty) = true
  · rw [if_pos hall]
    rw [List.all_eq_true] at hall
    have := hall id hid
    simp only [List.isEmpty_iff] at this
    rw [this]; rfl
  · rw [if_neg hall, if_pos hid]; rfl

/-- every successful merge — pair or list form, whichever path each step took — is a correct
merge of all its operands -/
theorem merge_good (inp : Input α) (hts : ∀ t ∈ inp.operands, OpWF t) (r : Table α)
    (h : merge inp = .ok r) : Good inp.ms inp.mo inp.operands r := by
  have ha : OpWF inp.a := hts inp.a (by simp [Input.operands])
  rcases merge_cases inp with ⟨ts, hoth, hf, hm⟩ | hm
  · rw [hm] at h
    cases h
    obtain ⟨hms, hmo⟩ := fastOk_modes hf
    have hops : inp.operands = inp.a :: ts := by simp [Input.operands, hoth, Others.toList]
    rw [hms, hmo, hops]
    exact good_fast _ (by rw [← hops]; exact hts)
  · rw [hm] at h
    exact (fold_good inp.fs inp.fo inp.ms inp.mo inp.others.toList [inp.a] inp.a r
      (good_single _ _ _ ha) (fun t ht => hts t (by simp [Input.operands, ht])) h).1

/-- k-tuples: per axis the union / the intersection of all operands' IDs, each once -/
theorem merge_list_ids (inp : Input α) (hts : ∀ t ∈ inp.operands, OpWF t) (r : Table α)
    (h : merge inp = .ok r) :
    r.obs.Nodup ∧ r.samp.Nodup ∧
    (inp.mo = .union → ∀ id, id ∈ r.obs ↔ ∃ t ∈ inp.operands, id ∈ t.obs) ∧
    (inp.mo = .inter → ∀ id, id ∈ r.obs ↔ ∀ t ∈ inp.operands, id ∈ t.obs) ∧
    (inp.ms = .union → ∀ id, id ∈ r.samp ↔ ∃ t ∈ inp.operands, id ∈ t.samp) ∧
    (inp.ms = .inter → ∀ id, id ∈ r.samp ↔ ∀ t ∈ inp.operands, id ∈ t.samp) := by
  have hg := merge_good inp hts r h
  refine ⟨hg.wf.2.1, hg.wf.2.2, ?_, ?_, ?_, ?_⟩
  · intro e id; rw [hg.memO id, e]; exact expMem_union_iff _ _ _
  · intro e id; rw [hg.memO id, e]; exact expMem_inter_iff _ _ _
  · intro e id; rw [hg.memS id, e]; exact expMem_union_iff _ _ _
  · intro e id; rw [hg.memS id, e]; exact expMem_inter_iff _ _ _

/-- k-tuples: every result cell is the sum over all operands (absent = 0) -/
theorem merge_list_cell (inp : Input α) (hts : ∀ t ∈ inp.operands, OpWF t) (r : Table α)
    (h : merge inp = .ok r) (o s : Id) (ho : o ∈ r.obs) (hs : s ∈ r.samp) :
    r.cell? o s = some ((inp.operands.map (fun t => cellOr0 t o s)).sum) :=
  (merge_good inp hts r h).cell o ho s hs

/-- k-tuples, union/union: grand total = sum of the operands' totals -/
theorem merge_list_total_union (inp : Input α) (hts : ∀ t ∈ inp.operands, OpWF t) (r : Table α)
    (h : merge inp = .ok r) (hms : inp.ms = .union) (hmo : inp.mo = .union) :
    total r = (inp.operands.map total).sum := by
  have hg := merge_good inp hts r h
  rw [hms, hmo] at hg
  exact total_of_good hg hts

/-- the whole call on a pair, whichever path is selected: metadata of each result ID is the
function applied to the operands' entries — under the domain hypothesis that the function maps
"no metadata, no metadata" to no metadata (the fast path builds a table without metadata) -/
theorem merge_pair_md (inp : Input α) (b r : Table α) (hb : inp.others = .single b)
    (hfs : Neutral inp.fs) (hfo : Neutral inp.fo) (h : merge inp = .ok r) (ax : Axis) (id : Id)
    (hid : id ∈ r.ids ax) :
    canon (r.mdOf? ax id) =
      canon (applyF (fOf inp.fs inp.fo ax) (inp.a.mdOf? ax id) (b.mdOf? ax id)) := by
  have hneut : Neutral (fOf inp.fs inp.fo ax) := by cases ax <;> assumption
  have hm : merge inp = foldMerge inp.fs inp.fo inp.ms inp.mo inp.a [b] := by
    unfold merge; rw [hb, foldMerge_single]
  rw [hm] at h
  have hrel := fold_md inp.fs inp.fo inp.ms inp.mo ax hneut [b] inp.a r _ (mdRel_ofTable ax inp.a) h
  rw [hrel.2 id]
  have hid' := (hrel.1 id).mp hid
  exact specMd_pair (fOf inp.fs inp.fo ax) (mOf inp.ms inp.mo ax) ax inp.a b id hid'

/-- path selection, as the code does it: fast iff (no operand carries metadata, or both functions
are `None`) and both axes are `union`; otherwise a single table goes through the general path and
a list is folded pairwise -/
theorem merge_path (inp : Input α) :
    merge inp =
      if fastOk inp.fs inp.fo inp.ms inp.mo inp.operands then .ok (fastMerge inp.operands)
      else match inp.others with
        | .single b => generalMerge inp.fs inp.fo inp.ms inp.mo inp.a b
        | .many ts => foldMerge inp.fs inp.fo inp.ms inp.mo inp.a ts := by
  unfold merge Input.operands
  cases inp.others <;> rfl

/-! ### non-vacuity: the hypotheses are met by concrete, non-trivial inputs -/

def exA : Table Int :=
  { obs := ["o1", "o2"], samp := ["s1", "s2"], rows := [[1, 2], [3, 4]] }
def exB : Table Int :=
  { obs := ["o2", "o3"], samp := ["s2", "s3"], rows := [[1, 2], [3, 4]],
    omd := some [[("k", "x")], [("k", "y")]], smd := some [[("m", "1")], [("m", "2")]] }
def exC : Table Int :=
  { obs := ["o3", "o2"], samp := ["s3", "s2"], rows := [[10, 20], [30, 40]] }
def exZ : Table Int :=
  { obs := ["o2", "o9"], samp := ["s9"], rows := [[7], [8]] }

/-- the repaired defect: receiver without metadata, other with metadata, union/union -/
def exPair : Input Int :=
  { a := exA, others := .single exB, ms := .union, mo := .union,
    fs := some preferSelf, fo := some preferSelf }
def exList : Input Int :=
  { a := exA, others := .many [exC, exC], ms := .union, mo := .union,
    fs := some preferSelf, fo := some preferSelf }
def exFold : Input Int :=
  { a := exA, others := .many [exC, exB], ms := .inter, mo := .union,
    fs := some preferSelf, fo := none }
def exEmpty : Input Int :=
  { a := exA, others := .single exZ, ms := .inter, mo := .union,
    fs := some preferSelf, fo := some preferSelf }

example : (merge exPair).toOption = some
    { obs := ["o1", "o2", "o3"], samp := ["s1", "s2", "s3"],
      rows := [[1, 2, 0], [3, 5, 2], [0, 3, 4]],
      omd := some [[], [("k", "x")], [("k", "y")]],
      smd := some [[], [("m", "1")], [("m", "2")]] } := by decide
example : trace exPair = ["general"] := by decide
example : (merge exList).toOption = some
    { obs := ["o1", "o2", "o3"], samp := ["s1", "s2", "s3"],
      rows := [[1, 2, 0], [3, 84, 60], [0, 40, 20]] } := by decide +kernel
example : trace exList = ["fast"] := by decide
example : (merge exFold).toOption = some
    { obs := ["o1", "o2", "o3"], samp := ["s2"], rows := [[2], [45], [23]],
      smd := some [[("m", "1")]] } := by decide
example : trace exFold = ["general", "general"] := by decide
example : merge exEmpty = .error .tableException := by decide
example : holds exPair (merge exPair) = true :=
  model_holds exPair (by decide) (by decide) neutral_preferSelf neutral_preferSelf
example : holds exList (merge exList) = true :=
  model_holds exList (by decide) (by decide) neutral_preferSelf neutral_preferSelf
example : holds exFold (merge exFold) = true :=
  model_holds exFold (by decide) (by decide) neutral_preferSelf neutral_none
example : holds exEmpty (merge exEmpty) = true :=
  model_holds exEmpty (by decide) (by decide) neutral_preferSelf neutral_preferSelf
/-- `holds` is not trivially true: the pre-repair outcome (metadata lost) is rejected … -/
def exLostMd : Table Int :=
  { obs := ["o1", "o2", "o3"], samp := ["s1", "s2", "s3"], rows := [[1, 2, 0], [3, 5, 2], [0, 3, 4]] }
example : holds exPair (.ok exLostMd) = false := by decide
/-- … and so are a wrong cell, a missing ID and an unrefused empty intersection -/
def exWrongCell : Table Int :=
  { obs := ["o1", "o2", "o3"], samp := ["s1", "s2", "s3"], rows := [[1, 2, 0], [3, 3, 2], [0, 3, 4]],
    omd := some [[], [("k", "x")], [("k", "y")]], smd := some [[], [("m", "1")], [("m", "2")]] }
example : holds exPair (.ok exWrongCell) = false := by decide
def exMissingId : Table Int :=
  { obs := ["o1", "o2"], samp := ["s1", "s2", "s3"], rows := [[1, 2, 0], [3, 5, 2]],
    omd := some [[], [("k", "x")]], smd := some [[], [("m", "1")], [("m", "2")]] }
example : holds exPair (.ok exMissingId) = false := by decide
def exUnrefused : Table Int :=
  { obs := ["o1", "o2", "o9"], samp := [], rows := [[], [], []] }
example : holds exEmpty (.ok exUnrefused) = false := by decide

end Biom.C09
