/-
  C08 — property theorems.  Everything is for EVERY table (any size, any values, any distinct IDs,
  with or without metadata), EVERY well-formed layout of its matrix (any index order inside the
  vectors, stored zeros allowed), EVERY mask / ID collection / user predicate.
-/
import BiomModel.Lemmas.C08

namespace Biom.C08

variable {α : Type}

/-! ## Kernel level -/

/-- On strictly increasing minor indices the scratch-buffer loop rebuilds the TRUE dense vector,
whatever the previous vector left in the buffer. -/
theorem mergeRow_sorted [Zero α] (prev : List α) (ents : List (Nat × α)) (n : Nat) (hn : prev.length = n)
    (h : (ents.map (·.1)).Pairwise (· < ·)) :
    mergeRow prev ents 0 = CS.denseVec n ents :=
  mergeRow_dense prev ents n hn h

/-- …and on unsorted indices it does not: entry `(0, 7)` is lost and the stale buffer would survive in
position 0 were it not overwritten by the `j < c` branch — why `Table.filter` must call `sort_indices()`. -/
theorem mergeRow_unsorted_witness :
    mergeRow [9, 9, 9] [(2, (5 : Int)), (0, 7)] 0 = [0, 0, 5] ∧
    CS.denseVec 3 [(2, (5 : Int)), (0, 7)] = [7, 0, 5] ∧
    mergeRow [9, 9, 9] [(1, (5 : Int)), (0, 7)] 0 = [0, 5, 9] := by decide

/-- `_remove_rows_csr`, for EVERY well-formed layout (any index order, stored zeros allowed) and every
mask of the right length: it succeeds (no bounds error although it compacts in place), its output is
well-formed and its dense content is the input's content restricted to the masked vectors. -/
theorem removeRows_ok [Zero α] (cs : CS α) (h : cs.WF) (mask : List Bool) (hm : mask.length = cs.nMajor) :
    ∃ cs', removeRows cs mask = .ok cs' ∧ cs'.WF ∧ cs'.toDense = filterMask cs.toDense mask ∧
      cs'.nMinor = cs.nMinor ∧ cs'.nMajor = mask.count true := by
  refine ⟨keptSlices cs mask, removeRows_eq_kept cs h mask hm, keptSlices_wf cs h mask,
    keptSlices_toDense cs mask, rfl, ?_⟩
  show (filterMask (slices cs) mask).length = mask.count true
  exact length_filterMask _ _ (by rw [slices_length]; omega)

/-- the in-place loop and its functional twin (append the kept slices, prefix sums as `indptr`) agree -/
theorem removeRows_simulation (cs : CS α) (h : cs.WF) (mask : List Bool) (hm : mask.length = cs.nMajor) :
    removeRows cs mask = .ok (keptSlices cs mask) :=
  removeRows_eq_kept cs h mask hm

/-- scipy's `sort_indices` as modelled: same matrix, well-formed, indices sorted inside every vector -/
theorem sortIndices_contract [Zero α] (cs : CS α) (h : cs.WF) :
    (sortIndices cs).WF ∧ (sortIndices cs).SortedIndices ∧ (sortIndices cs).toDense = cs.toDense ∧
    (sortIndices cs).nMajor = cs.nMajor ∧ (sortIndices cs).nMinor = cs.nMinor :=
  ⟨sortIndices_wf cs h, sortIndices_sorted cs h, sortIndices_toDense cs h, sortIndices_nMajor cs, rfl⟩

/-- the boolean array built from an ID collection: `KeyError` iff some ID is unknown, else position
`i` is kept iff `ids[i]` was named, XOR invert -/
theorem idMask_ok (ids keep : List Id) (invert : Bool) (hn : ids.Nodup) :
    idMask ids keep invert =
      if keep.all (fun k => ids.contains k) then .ok (ids.map (fun id => keep.contains id ^^ invert))
      else .error .key :=
  idMask_spec ids keep invert hn

/-! ## `Table.filter` -/

/-- the verdict a predicate gives on an ID, all three arguments looked up BY ID in the table -/
def predVerdict (t : Table α) (ax : Axis) (p : Pred α) (invert : Bool) (id : Id) : Bool :=
  verdictOf p invert (callById t ax id)

theorem maskOf_pred_byId [Zero α] (t : Table α) (hwf : t.WF) (ax : Axis) (hn : (t.ids ax).Nodup)
    (layout : CS α) (hl : LayoutOf t ax layout) (p : Pred α) (invert : Bool) :
    maskOf t ax (.pred p) invert = (t.ids ax).map (predVerdict t ax p invert) := by
  simp only [maskOf, callsSpec_byId t hwf ax hn layout hl, List.map_map]
  rfl

/-- ID-collection path: an unknown ID is a `KeyError` raised before anything is assigned; otherwise
the result is the specification `filterAxis` with the mask "named XOR invert". -/
theorem filter_ids_path [Zero α] (t : Table α) (hwf : t.WF) (ax : Axis) (hn : (t.ids ax).Nodup)
    (layout : CS α) (hl : LayoutOf t ax layout) (l : List Id) (invert : Bool) :
    tableFilter t layout ax (.ids l) invert =
      if l.all (fun k => (t.ids ax).contains k) then
        .ok (filterAxis t ((t.ids ax).map (fun id => l.contains id ^^ invert)) ax, [])
      else .error .key := by
  by_cases hall : l.all (fun k => (t.ids ax).contains k) = true
  · rw [if_pos hall]
    apply tableFilter_of_mask t hwf ax layout hl
    · simp
    · rw [computeMask_ids _ _ _ _ _ hn, if_pos hall]
  · rw [if_neg hall]
    unfold tableFilter filterKernel
    rw [computeMask_ids _ _ _ _ _ hn, if_neg hall]

/-- predicate path: the predicate is called once per ID, in order, with `(dense vector, id, md)`;
the mask is its verdict XOR invert; the result is `filterAxis` with that mask. -/
theorem filter_pred_path [Zero α] (t : Table α) (hwf : t.WF) (ax : Axis) (hn : (t.ids ax).Nodup)
    (layout : CS α) (hl : LayoutOf t ax layout) (p : Pred α) (invert : Bool) :
    tableFilter t layout ax (.pred p) invert =
      .ok (filterAxis t ((t.ids ax).map (predVerdict t ax p invert)) ax, (t.ids ax).map (callById t ax)) := by
  rw [← maskOf_pred_byId t hwf ax hn layout hl, ← callsSpec_byId t hwf ax hn layout hl]
  apply tableFilter_of_mask t hwf ax layout hl
  · exact maskOf_length t hwf ax layout hl _ _ (fun _ h => by cases h)
  · exact computeMask_pred t hwf ax layout hl p invert

theorem filter_other_path [Zero α] (t : Table α) (layout : CS α) (ax : Axis) (invert : Bool) :
    tableFilter t layout ax .other invert = .error .type := rfl

/-- what a filtered table must satisfy, in the property's own words -/
structure FilterSpec (t r : Table α) (ax : Axis) (keepId : Id → Bool) : Prop where
  /-- exactly the selected IDs, in their original relative order -/
  ids : r.ids ax = (t.ids ax).filter keepId
  /-- each with its original vector -/
  vec : ∀ id ∈ r.ids ax, r.vec? ax id = t.vec? ax id
  /-- and its original metadata -/
  md : ∀ id ∈ r.ids ax, r.mdOf? ax id = t.mdOf? ax id
  mdPresent : (r.md ax).isSome = (t.md ax).isSome
  /-- the other axis is untouched -/
  otherIds : r.ids ax.other = t.ids ax.other
  otherMd : r.md ax.other = t.md ax.other
  ttype : r.ttype = t.ttype
  wf : r.WF

theorem filterAxis_meets_spec (t : Table α) (hwf : t.WF) (ax : Axis) (hn : (t.ids ax).Nodup) (f : Id → Bool) :
    FilterSpec t (filterAxis t ((t.ids ax).map f) ax) ax f where
  ids := by rw [filterAxis_ids, filterMask_map_self]
  vec := by
    intro id hid
    rw [filterAxis_ids] at hid
    exact filterAxis_vec? t _ ax hn id hid
  md := by
    intro id hid
    rw [filterAxis_ids] at hid
    exact filterAxis_mdOf? t _ ax hn id hid
  mdPresent := by rw [filterAxis_md]; cases t.md ax <;> rfl
  otherIds := filterAxis_other_ids t _ ax
  otherMd := filterAxis_other_md t _ ax
  ttype := filterAxis_ttype t _ ax
  wf := filterAxis_wf t hwf _ ax (by simp)

/-- **filter_spec**, for ALL predicates `p`: the kept IDs are `[id | p(vec id, id, md id) xor invert]` in
original order, vectors and metadata of the kept IDs are unchanged by ID, the other axis is untouched,
and the predicate's call log lists every ID once, in order, with that ID's true vector and metadata. -/
theorem filter_spec [Zero α] (t : Table α) (hwf : t.WF) (ax : Axis) (hn : (t.ids ax).Nodup)
    (layout : CS α) (hl : LayoutOf t ax layout) (p : Pred α) (invert : Bool) :
    ∃ r calls, tableFilter t layout ax (.pred p) invert = .ok (r, calls) ∧
      FilterSpec t r ax (predVerdict t ax p invert) ∧
      calls.map (·.id) = t.ids ax ∧
      (∀ c ∈ calls, t.vec? ax c.id = some c.vec ∧ t.mdOf? ax c.id = c.md) := by
  refine ⟨_, _, filter_pred_path t hwf ax hn layout hl p invert, filterAxis_meets_spec t hwf ax hn _, ?_, ?_⟩
  · simp [List.map_map, Function.comp_def, callById]
  · intro c hc
    obtain ⟨id, hid, rfl⟩ := List.mem_map.mp hc
    obtain ⟨i, hi, rfl⟩ := List.getElem_of_mem hid
    have hv := vec?_getElem t hwf ax hn i hi (by rw [vecs_length t ax layout hl]; exact hi)
    simp [callById, hv]

/-- the same for ID collections (list, set, tuple, array — only membership matters) -/
theorem filter_ids_spec [Zero α] (t : Table α) (hwf : t.WF) (ax : Axis) (hn : (t.ids ax).Nodup)
    (layout : CS α) (hl : LayoutOf t ax layout) (l : List Id) (invert : Bool)
    (hall : ∀ id ∈ l, id ∈ t.ids ax) :
    ∃ r, tableFilter t layout ax (.ids l) invert = .ok (r, []) ∧
      FilterSpec t r ax (fun id => l.contains id ^^ invert) := by
  have h : l.all (fun k => (t.ids ax).contains k) = true := by
    simpa [List.all_eq_true] using hall
  refine ⟨_, ?_, filterAxis_meets_spec t hwf ax hn _⟩
  rw [filter_ids_path t hwf ax hn layout hl, if_pos h]

/-- **unknown_id_unchanged**: naming an ID that is not on the axis is an error, nothing is returned and
the receiver is what it was — in place or not. -/
theorem unknown_id_unchanged [Zero α] (t : Table α) (hwf : t.WF) (ax : Axis) (hn : (t.ids ax).Nodup)
    (layout : CS α) (hl : LayoutOf t ax layout) (l : List Id) (invert inplace : Bool)
    (bad : Id) (hb : bad ∈ l) (hnot : bad ∉ t.ids ax) :
    (filterCall t layout ax (.ids l) invert inplace).result = .error .key ∧
    (filterCall t layout ax (.ids l) invert inplace).after = t := by
  have h : ¬ (l.all (fun k => (t.ids ax).contains k) = true) := by
    intro hall
    have := List.all_eq_true.mp hall bad hb
    exact hnot (by simpa using this)
  simp only [filterCall, filter_ids_path t hwf ax hn layout hl, if_neg h]
  exact ⟨trivial, trivial⟩

/-- the IDs a predicate accepts, as `holds`/the harness compute them -/
theorem acceptedIds_eq [Zero α] (t : Table α) (hwf : t.WF) (ax : Axis) (hn : (t.ids ax).Nodup)
    (layout : CS α) (hl : LayoutOf t ax layout) (p : Pred α) :
    acceptedIds t ax p = (t.ids ax).filter (predVerdict t ax p false) := by
  unfold acceptedIds
  apply List.filter_congr
  intro id hid
  obtain ⟨i, hi, rfl⟩ := List.getElem_of_mem hid
  have hv := vec?_getElem t hwf ax hn i hi (by rw [vecs_length t ax layout hl]; exact hi)
  simp [hv, predVerdict, verdictOf, callById]

/-- **pred_eq_idlist**: filtering by a predicate and filtering by the list of IDs that predicate accepts
give equal tables (whatever layouts scipy holds for the two calls). -/
theorem pred_eq_idlist [Zero α] (t : Table α) (hwf : t.WF) (ax : Axis) (hn : (t.ids ax).Nodup)
    (layout layout' : CS α) (hl : LayoutOf t ax layout) (hl' : LayoutOf t ax layout') (p : Pred α) (invert : Bool) :
    (tableFilter t layout ax (.pred p) invert).map (·.1) =
    (tableFilter t layout' ax (.ids (acceptedIds t ax p)) invert).map (·.1) := by
  have hall : (acceptedIds t ax p).all (fun k => (t.ids ax).contains k) = true := by
    rw [List.all_eq_true]
    intro id hid
    rw [acceptedIds_eq t hwf ax hn layout hl] at hid
    simpa using (List.mem_filter.mp hid).1
  rw [filter_pred_path t hwf ax hn layout hl, filter_ids_path t hwf ax hn layout' hl', if_pos hall]
  simp only [Except.map]
  congr 2
  apply List.map_congr_left
  intro id hid
  rw [acceptedIds_eq t hwf ax hn layout hl]
  have : ((t.ids ax).filter (predVerdict t ax p false)).contains id = predVerdict t ax p false id := by
    rw [Bool.eq_iff_iff]
    simp [List.mem_filter, hid]
  rw [this]
  simp [predVerdict, verdictOf]

/-! ## `holds` is true of the model's observation -/

open Codec in
theorem allV_nil_of_all_none (vs : List Verdict) (h : ∀ v ∈ vs, v = none) : allV vs = none := by
  unfold allV
  suffices ∀ (acc : Verdict), acc = none → vs.foldl Verdict.and acc = none from this none rfl
  induction vs with
  | nil => intro acc ha; exact ha
  | cons v vs ih =>
    intro acc ha
    have hv := h v List.mem_cons_self
    subst ha hv
    exact ih (fun w hw => h w (List.mem_cons_of_mem _ hw)) _ rfl

open Codec in
theorem chk_true (c : String) : chk c true = none := rfl

theorem eqb_self {β : Type} [DecidableEq β] (a : β) : eqb a a = true := by simp [eqb]

theorem eqb_of_eq {β : Type} [DecidableEq β] (a b : β) (h : a = b) : eqb a b = true := by simp [eqb, h]

open Codec in
theorem resultClauses_of_spec [DecidableEq α] (t r : Table α) (ax : Axis) (f : Id → Bool)
    (h : FilterSpec t r ax f) : resultClauses t r ax ((t.ids ax).filter f) = none := by
  unfold resultClauses
  apply allV_nil_of_all_none
  intro v hv
  simp only [List.mem_cons, List.not_mem_nil, or_false] at hv
  rcases hv with rfl | rfl | rfl | rfl | rfl | rfl | rfl
  · rw [wfb_of_wf r h.wf]; rfl
  · rw [eqb_of_eq _ _ h.ids]; rfl
  · rw [eqb_of_eq _ _ h.otherIds]; rfl
  · have : ((t.ids ax).filter f).all (fun id => eqb (r.vec? ax id) (t.vec? ax id)) = true := by
      rw [List.all_eq_true]
      intro id hid
      exact eqb_of_eq _ _ (h.vec id (h.ids ▸ hid))
    rw [this]; rfl
  · have : ((t.ids ax).filter f).all (fun id => eqb (r.mdOf? ax id) (t.mdOf? ax id)) = true := by
      rw [List.all_eq_true]
      intro id hid
      exact eqb_of_eq _ _ (h.md id (h.ids ▸ hid))
    rw [this, eqb_of_eq _ _ h.mdPresent]; rfl
  · rw [eqb_of_eq _ _ h.otherMd]; rfl
  · rw [eqb_of_eq _ _ h.ttype]; rfl

theorem keptIds_pred [Zero α] [DecidableEq α] (t : Table α) (hwf : t.WF) (ax : Axis) (hn : (t.ids ax).Nodup)
    (layout : CS α) (hl : LayoutOf t ax layout) (p : Pred α) (invert : Bool) :
    keptIds t ax (.pred p) invert = (t.ids ax).filter (predVerdict t ax p invert) := by
  unfold keptIds
  apply List.filter_congr
  intro id hid
  obtain ⟨i, hi, rfl⟩ := List.getElem_of_mem hid
  have hv := vec?_getElem t hwf ax hn i hi (by rw [vecs_length t ax layout hl]; exact hi)
  simp [hv, predVerdict, verdictOf, callById]

/-- **model_holds** (filter): for every table of the C01 domain, every layout scipy may hold for it,
every ID collection, every predicate, invert and inplace, the declarative predicate `holdsFilter`
is true of what the model of `Table.filter` produces. -/
theorem model_holds [Zero α] [DecidableEq α] (t : Table α) (hwf : t.WF) (ax : Axis) (hn : (t.ids ax).Nodup)
    (layout : CS α) (hl : LayoutOf t ax layout) (keep : Keep α) (invert inplace : Bool) :
    holdsFilter t ax keep invert inplace (modelFilterObs t layout ax keep invert inplace) = true := by
  unfold holdsFilter
  rw [Option.isNone_iff_eq_none]
  cases keep with
  | other =>
    simp only [verdictFilter, modelFilterObs, filterCall, filter_other_path, errOf, Option.isSome_some, eqb_self,
      Bool.and_self]
    rfl
  | ids l =>
    simp only [verdictFilter, modelFilterObs, filterCall, filter_ids_path t hwf ax hn layout hl]
    by_cases hall : l.all (fun k => (t.ids ax).contains k) = true
    · simp only [hall, if_true]
      apply allV_nil_of_all_none
      intro v hv
      simp only [List.mem_cons, List.not_mem_nil, or_false] at hv
      rcases hv with rfl | rfl | rfl
      · exact resultClauses_of_spec t _ ax _ (filterAxis_meets_spec t hwf ax hn _)
      · rw [eqb_self]; rfl
      · rw [eqb_self]; rfl
    · simp only [hall, Bool.false_eq_true, if_false]
      apply allV_nil_of_all_none
      intro v hv
      simp only [List.mem_cons, List.not_mem_nil, or_false] at hv
      rcases hv with rfl | rfl
      · rfl
      · rw [eqb_self]; rfl
  | pred p =>
    have hall : (acceptedIds t ax p).all (fun k => (t.ids ax).contains k) = true := by
      rw [List.all_eq_true]
      intro id hid
      rw [acceptedIds_eq t hwf ax hn layout hl] at hid
      simpa using (List.mem_filter.mp hid).1
    have hvia := pred_eq_idlist t hwf ax hn layout layout hl hl p invert
    rw [filter_pred_path t hwf ax hn layout hl, filter_ids_path t hwf ax hn layout hl, if_pos hall] at hvia
    simp only [Except.map, Except.ok.injEq] at hvia
    simp only [verdictFilter, modelFilterObs, filterCall, filter_pred_path t hwf ax hn layout hl,
      filter_ids_path t hwf ax hn layout hl, hall, if_true]
    apply allV_nil_of_all_none
    intro v hv
    simp only [List.mem_cons, List.not_mem_nil, or_false] at hv
    rcases hv with rfl | rfl | rfl | rfl | rfl | rfl
    · rw [eqb_of_eq]; rfl
      simp [List.map_map, Function.comp_def, callById]
    · have : ((t.ids ax).map (callById t ax)).all (fun c => eqb (t.vec? ax c.id) (some c.vec)) = true := by
        rw [List.all_eq_true]
        intro c hc
        obtain ⟨id, hid, rfl⟩ := List.mem_map.mp hc
        obtain ⟨i, hi, rfl⟩ := List.getElem_of_mem hid
        have hv := vec?_getElem t hwf ax hn i hi (by rw [vecs_length t ax layout hl]; exact hi)
        exact eqb_of_eq _ _ (by simp [callById, hv])
      rw [this]; rfl
    · have : ((t.ids ax).map (callById t ax)).all (fun c => eqb (t.mdOf? ax c.id) c.md) = true := by
        rw [List.all_eq_true]
        intro c hc
        obtain ⟨id, _, rfl⟩ := List.mem_map.mp hc
        exact eqb_self _
      rw [this]; rfl
    · rw [keptIds_pred t hwf ax hn layout hl]
      exact resultClauses_of_spec t _ ax _ (filterAxis_meets_spec t hwf ax hn _)
    · rw [eqb_self]; rfl
    · rw [eqb_of_eq _ _ hvia.symm]; rfl

end Biom.C08
