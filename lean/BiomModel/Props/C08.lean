/-
  C08 — property theorems.  Everything is for EVERY table (any size, any values, any distinct IDs,
  with or without metadata), EVERY well-formed layout of its matrix (any index order inside the
  vectors, stored zeros allowed), EVERY mask / ID collection / user predicate.
-/
import BiomModel.Lemmas.C08

namespace Biom.C08

variable {α : Type}

/-! ## Kernel level -/

/-- On strictly increasing minor indices the scratch-buffer loop rebuilds the TRUE dense vector,
whatever the previous vector left in the buffer. -/
theorem mergeRow_sorted [Zero α] (prev : List α) (ents : List (Nat × α)) (n : Nat) (hn : prev.length = n)
    (h : (ents.map (·.1)).Pairwise (· < ·)) :
    mergeRow prev ents 0 = CS.denseVec n ents :=
  mergeRow_dense prev ents n hn h

/-- …and on unsorted indices it does not: entry `(0, 7)` is lost and the stale buffer would survive in
position 0 were it not overwritten by the `j < c` branch — why `Table.filter` must call `sort_indices()`. -/
theorem mergeRow_unsorted_witness :
    mergeRow [9, 9, 9] [(2, (5 : Int)), (0, 7)] 0 = [0, 0, 5] ∧
    CS.denseVec 3 [(2, (5 : Int)), (0, 7)] = [7, 0, 5] ∧
    mergeRow [9, 9, 9] [(1, (5 : Int)), (0, 7)] 0 = [0, 5, 9] := by decide

/-- `_remove_rows_csr`, for EVERY well-formed layout (any index order, stored zeros allowed) and every
mask of the right length: it succeeds (no bounds error although it compacts in place), its output is
well-formed and its dense content is the input's content restricted to the masked vectors. -/
theorem removeRows_ok [Zero α] (cs : CS α) (h : cs.WF) (mask : List Bool) (hm : mask.length = cs.nMajor) :
    ∃ cs', removeRows cs mask = .ok cs' ∧ cs'.WF ∧ cs'.toDense = filterMask cs.toDense mask ∧
      cs'.nMinor = cs.nMinor ∧ cs'.nMajor = mask.count true := by
  refine ⟨keptSlices cs mask, removeRows_eq_kept cs h mask hm, keptSlices_wf cs h mask,
    keptSlices_toDense cs mask, rfl, ?_⟩
  show (filterMask (slices cs) mask).length = mask.count true
  exact length_filterMask _ _ (by rw [slices_length]; omega)

/-- the in-place loop and its functional twin (append the kept slices, prefix sums as `indptr`) agree -/
theorem removeRows_simulation (cs : CS α) (h : cs.WF) (mask : List Bool) (hm : mask.length = cs.nMajor) :
    removeRows cs mask = .ok (keptSlices cs mask) :=
  removeRows_eq_kept cs h mask hm

/-- scipy's `sort_indices` as modelled: same matrix, well-formed, indices sorted inside every vector -/
theorem sortIndices_contract [Zero α] (cs : CS α) (h : cs.WF) :
    (sortIndices cs).WF ∧ (sortIndices cs).SortedIndices ∧ (sortIndices cs).toDense = cs.toDense ∧
    (sortIndices cs).nMajor = cs.nMajor ∧ (sortIndices cs).nMinor = cs.nMinor :=
  ⟨sortIndices_wf cs h, sortIndices_sorted cs h, sortIndices_toDense cs h, sortIndices_nMajor cs, rfl⟩

/-- the boolean array built from an ID collection: `KeyError` iff some ID is unknown, else position
`i` is kept iff `ids[i]` was named, XOR invert -/
theorem idMask_ok (ids keep : List Id) (invert : Bool) (hn : ids.Nodup) :
    idMask ids keep invert =
      if keep.all (fun k => ids.contains k) then .ok (ids.map (fun id => keep.contains id ^^ invert))
      else .error .key :=
  idMask_spec ids keep invert hn

/-! ## `Table.filter` -/

/-- the verdict a predicate gives on an ID, all three arguments looked up BY ID in the table -/
def predVerdict (t : Table α) (ax : Axis) (p : Pred α) (invert : Bool) (id : Id) : Bool :=
  verdictOf p invert (callById t ax id)

theorem maskOf_pred_byId [Zero α] (t : Table α) (hwf : t.WF) (ax : Axis) (hn : (t.ids ax).Nodup)
    (layout : CS α) (hl : LayoutOf t ax layout) (p : Pred α) (invert : Bool) :
    maskOf t ax (.pred p) invert = (t.ids ax).map (predVerdict t ax p invert) := by
  simp only [maskOf, callsSpec_byId t hwf ax hn layout hl, List.map_map]
  rfl

/-- ID-collection path: an unknown ID is a `KeyError` raised before anything is assigned; otherwise
the result is the specification `filterAxis` with the mask "named XOR invert". -/
theorem filter_ids_path [Zero α] (t : Table α) (hwf : t.WF) (ax : Axis) (hn : (t.ids ax).Nodup)
    (layout : CS α) (hl : LayoutOf t ax layout) (l : List Id) (invert : Bool) :
    tableFilter t layout ax (.ids l) invert =
      if l.all (fun k => (t.ids ax).contains k) then
        .ok (filterAxis t ((t.ids ax).map (fun id => l.contains id ^^ invert)) ax, [])
      else .error .key := by
  by_cases hall : l.all (fun k => (t.ids ax).contains k) = true
  · rw [if_pos hall]
    apply tableFilter_of_mask t hwf ax layout hl
    · simp
    · rw [computeMask_ids _ _ _ _ _ hn, if_pos hall]
  · rw [if_neg hall]
    unfold tableFilter filterKernel
    rw [computeMask_ids _ _ _ _ _ hn, if_neg hall]

/-- predicate path: the predicate is called once per ID, in order, with `(dense vector, id, md)`;
the mask is its verdict XOR invert; the result is `filterAxis` with that mask. -/
theorem filter_pred_path [Zero α] (t : Table α) (hwf : t.WF) (ax : Axis) (hn : (t.ids ax).Nodup)
    (layout : CS α) (hl : LayoutOf t ax layout) (p : Pred α) (invert : Bool) :
    tableFilter t layout ax (.pred p) invert =
      .ok (filterAxis t ((t.ids ax).map (predVerdict t ax p invert)) ax, (t.ids ax).map (callById t ax)) := by
  rw [← maskOf_pred_byId t hwf ax hn layout hl, ← callsSpec_byId t hwf ax hn layout hl]
  apply tableFilter_of_mask t hwf ax layout hl
  · exact maskOf_length t hwf ax layout hl _ _ (fun _ h => by cases h)
  · exact computeMask_pred t hwf ax layout hl p invert

theorem filter_other_path [Zero α] (t : Table α) (layout : CS α) (ax : Axis) (invert : Bool) :
    tableFilter t layout ax .other invert = .error .type := rfl

/-- what a filtered table must satisfy, in the property's own words -/
structure FilterSpec (t r : Table α) (ax : Axis) (keepId : Id → Bool) : Prop where
  /-- exactly the selected IDs, in their original relative order -/
  ids : r.ids ax = (t.ids ax).filter keepId
  /-- each with its original vector -/
  vec : ∀ id ∈ r.ids ax, r.vec? ax id = t.vec? ax id
  /-- and its original metadata (canonically: metadata whose kept entries are all empty is stored as none) -/
  md : ∀ id ∈ r.ids ax, mdCanon (r.mdOf? ax id) = mdCanon (t.mdOf? ax id)
  /-- the other axis is untouched -/
  otherIds : r.ids ax.other = t.ids ax.other
  otherMd : r.md ax.other = t.md ax.other
  ttype : r.ttype = t.ttype
  wf : r.WF

theorem filterAxis_meets_spec (t : Table α) (hwf : t.WF) (ax : Axis) (hn : (t.ids ax).Nodup) (f : Id → Bool) :
    FilterSpec t (filterAxis t ((t.ids ax).map f) ax) ax f where
  ids := by rw [filterAxis_ids, filterMask_map_self]
  vec := by
    intro id hid
    rw [filterAxis_ids] at hid
    exact filterAxis_vec? t _ ax hn id hid
  md := by
    intro id hid
    rw [filterAxis_ids] at hid
    exact filterAxis_mdOf? t _ ax hn id hid
  otherIds := filterAxis_other_ids t _ ax
  otherMd := filterAxis_other_md t _ ax
  ttype := filterAxis_ttype t _ ax
  wf := filterAxis_wf t hwf _ ax (by simp)

/-- **filter_spec**, for ALL predicates `p`: the kept IDs are `[id | p(vec id, id, md id) xor invert]` in
original order, vectors and metadata of the kept IDs are unchanged by ID, the other axis is untouched,
and the predicate's call log lists every ID once, in order, with that ID's true vector and metadata. -/
theorem filter_spec [Zero α] (t : Table α) (hwf : t.WF) (ax : Axis) (hn : (t.ids ax).Nodup)
    (layout : CS α) (hl : LayoutOf t ax layout) (p : Pred α) (invert : Bool) :
    ∃ r calls, tableFilter t layout ax (.pred p) invert = .ok (r, calls) ∧
      FilterSpec t r ax (predVerdict t ax p invert) ∧
      calls.map (·.id) = t.ids ax ∧
      (∀ c ∈ calls, t.vec? ax c.id = some c.vec ∧ t.mdOf? ax c.id = c.md) := by
  refine ⟨_, _, filter_pred_path t hwf ax hn layout hl p invert, filterAxis_meets_spec t hwf ax hn _, ?_, ?_⟩
  · simp [List.map_map, Function.comp_def, callById]
  · intro c hc
    obtain ⟨id, hid, rfl⟩ := List.mem_map.mp hc
    obtain ⟨i, hi, rfl⟩ := List.getElem_of_mem hid
    have hv := vec?_getElem t hwf ax hn i hi (by rw [vecs_length t ax layout hl]; exact hi)
    simp [callById, hv]

/-- the same for ID collections (list, set, tuple, array — only membership matters) -/
theorem filter_ids_spec [Zero α] (t : Table α) (hwf : t.WF) (ax : Axis) (hn : (t.ids ax).Nodup)
    (layout : CS α) (hl : LayoutOf t ax layout) (l : List Id) (invert : Bool)
    (hall : ∀ id ∈ l, id ∈ t.ids ax) :
    ∃ r, tableFilter t layout ax (.ids l) invert = .ok (r, []) ∧
      FilterSpec t r ax (fun id => l.contains id ^^ invert) := by
  have h : l.all (fun k => (t.ids ax).contains k) = true := by
    simpa [List.all_eq_true] using hall
  refine ⟨_, ?_, filterAxis_meets_spec t hwf ax hn _⟩
  rw [filter_ids_path t hwf ax hn layout hl, if_pos h]

/-- **unknown_id_unchanged**: naming an ID that is not on the axis is an error, nothing is returned and
the receiver is what it was — in place or not. -/
theorem unknown_id_unchanged [Zero α] (t : Table α) (hwf : t.WF) (ax : Axis) (hn : (t.ids ax).Nodup)
    (layout : CS α) (hl : LayoutOf t ax layout) (l : List Id) (invert inplace : Bool)
    (bad : Id) (hb : bad ∈ l) (hnot : bad ∉ t.ids ax) :
    (filterCall t layout ax (.ids l) invert inplace).result = .error .key ∧
    (filterCall t layout ax (.ids l) invert inplace).after = t := by
  have h : ¬ (l.all (fun k => (t.ids ax).contains k) = true) := by
    intro hall
    have := List.all_eq_true.mp hall bad hb
    exact hnot (by simpa using this)
  simp only [filterCall, filter_ids_path t hwf ax hn layout hl, if_neg h]
  exact ⟨trivial, trivial⟩

/-- the IDs a predicate accepts, as `holds`/the harness compute them -/
theorem acceptedIds_eq [Zero α] (t : Table α) (hwf : t.WF) (ax : Axis) (hn : (t.ids ax).Nodup)
    (layout : CS α) (hl : LayoutOf t ax layout) (p : Pred α) :
    acceptedIds t ax p = (t.ids ax).filter (predVerdict t ax p false) := by
  unfold acceptedIds
  apply List.filter_congr
  intro id hid
  obtain ⟨i, hi, rfl⟩ := List.getElem_of_mem hid
  have hv := vec?_getElem t hwf ax hn i hi (by rw [vecs_length t ax layout hl]; exact hi)
  simp [hv, predVerdict, verdictOf, callById]

/-- **pred_eq_idlist**: filtering by a predicate and filtering by the list of IDs that predicate accepts
give equal tables (whatever layouts scipy holds for the two calls). -/
theorem pred_eq_idlist [Zero α] (t : Table α) (hwf : t.WF) (ax : Axis) (hn : (t.ids ax).Nodup)
    (layout layout' : CS α) (hl : LayoutOf t ax layout) (hl' : LayoutOf t ax layout') (p : Pred α) (invert : Bool) :
    (tableFilter t layout ax (.pred p) invert).map (·.1) =
    (tableFilter t layout' ax (.ids (acceptedIds t ax p)) invert).map (·.1) := by
  have hall : (acceptedIds t ax p).all (fun k => (t.ids ax).contains k) = true := by
    rw [List.all_eq_true]
    intro id hid
    rw [acceptedIds_eq t hwf ax hn layout hl] at hid
    simpa using (List.mem_filter.mp hid).1
  rw [filter_pred_path t hwf ax hn layout hl, filter_ids_path t hwf ax hn layout' hl', if_pos hall]
  simp only [Except.map]
  congr 2
  apply List.map_congr_left
  intro id hid
  rw [acceptedIds_eq t hwf ax hn layout hl]
  have : ((t.ids ax).filter (predVerdict t ax p false)).contains id = predVerdict t ax p false id := by
    rw [Bool.eq_iff_iff]
    simp [List.mem_filter, hid]
  rw [this]
  simp [predVerdict, verdictOf]

/-! ## `holds` is true of the model's observation -/

open Codec in
theorem allV_nil_of_all_none (vs : List Verdict) (h : ∀ v ∈ vs, v = none) : allV vs = none := by
  unfold allV
  suffices ∀ (acc : Verdict), acc = none → vs.foldl Verdict.and acc = none from this none rfl
  induction vs with
  | nil => intro acc ha; exact ha
  | cons v vs ih =>
    intro acc ha
    have hv := h v List.mem_cons_self
    subst ha hv
    exact ih (fun w hw => h w (List.mem_cons_of_mem _ hw)) _ rfl

open Codec in
theorem chk_true (c : String) : chk c true = none := rfl

theorem eqb_self {β : Type} [DecidableEq β] (a : β) : eqb a a = true := by simp [eqb]

theorem eqb_of_eq {β : Type} [DecidableEq β] (a b : β) (h : a = b) : eqb a b = true := by simp [eqb, h]

open Codec in
theorem resultClauses_of_spec [DecidableEq α] (t r : Table α) (ax : Axis) (f : Id → Bool)
    (h : FilterSpec t r ax f) : resultClauses t r ax ((t.ids ax).filter f) = none := by
  unfold resultClauses
  apply allV_nil_of_all_none
  intro v hv
  simp only [List.mem_cons, List.not_mem_nil, or_false] at hv
  rcases hv with rfl | rfl | rfl | rfl | rfl | rfl | rfl
  · rw [wfb_of_wf r h.wf]; rfl
  · rw [eqb_of_eq _ _ h.ids]; rfl
  · rw [eqb_of_eq _ _ h.otherIds]; rfl
  · have : ((t.ids ax).filter f).all (fun id => eqb (r.vec? ax id) (t.vec? ax id)) = true := by
      rw [List.all_eq_true]
      intro id hid
      exact eqb_of_eq _ _ (h.vec id (h.ids ▸ hid))
    rw [this]; rfl
  · have : ((t.ids ax).filter f).all (fun id => eqb (mdCanon (r.mdOf? ax id)) (mdCanon (t.mdOf? ax id))) = true := by
      rw [List.all_eq_true]
      intro id hid
      exact eqb_of_eq _ _ (h.md id (h.ids ▸ hid))
    rw [this]; rfl
  · rw [eqb_of_eq _ _ h.otherMd]; rfl
  · rw [eqb_of_eq _ _ h.ttype]; rfl

theorem keptIds_pred [Zero α] [DecidableEq α] (t : Table α) (hwf : t.WF) (ax : Axis) (hn : (t.ids ax).Nodup)
    (layout : CS α) (hl : LayoutOf t ax layout) (p : Pred α) (invert : Bool) :
    keptIds t ax (.pred p) invert = (t.ids ax).filter (predVerdict t ax p invert) := by
  unfold keptIds
  apply List.filter_congr
  intro id hid
  obtain ⟨i, hi, rfl⟩ := List.getElem_of_mem hid
  have hv := vec?_getElem t hwf ax hn i hi (by rw [vecs_length t ax layout hl]; exact hi)
  simp [hv, predVerdict, verdictOf, callById]

/-- **model_holds** (filter): for every table of the C01 domain, every layout scipy may hold for it,
every ID collection, every predicate, invert and inplace, the declarative predicate `holdsFilter`
is true of what the model of `Table.filter` produces. -/
theorem model_holds [Zero α] [DecidableEq α] (t : Table α) (hwf : t.WF) (ax : Axis) (hn : (t.ids ax).Nodup)
    (layout : CS α) (hl : LayoutOf t ax layout) (keep : Keep α) (invert inplace : Bool) :
    holdsFilter t ax keep invert inplace (modelFilterObs t layout ax keep invert inplace) = true := by
  unfold holdsFilter
  rw [Option.isNone_iff_eq_none]
  cases keep with
  | other =>
    simp only [verdictFilter, modelFilterObs, filterCall, filter_other_path, errOf, Option.isSome_some, eqb_self,
      Bool.and_self]
    rfl
  | ids l =>
    simp only [verdictFilter, modelFilterObs, filterCall, filter_ids_path t hwf ax hn layout hl]
    by_cases hall : l.all (fun k => (t.ids ax).contains k) = true
    · simp only [hall, if_true]
      apply allV_nil_of_all_none
      intro v hv
      simp only [List.mem_cons, List.not_mem_nil, or_false] at hv
      rcases hv with rfl | rfl | rfl
      · exact resultClauses_of_spec t _ ax _ (filterAxis_meets_spec t hwf ax hn _)
      · rw [eqb_self]; rfl
      · rw [eqb_self]; rfl
    · simp only [hall, Bool.false_eq_true, if_false]
      apply allV_nil_of_all_none
      intro v hv
      simp only [List.mem_cons, List.not_mem_nil, or_false] at hv
      rcases hv with rfl | rfl
      · rfl
      · rw [eqb_self]; rfl
  | pred p =>
    have hall : (acceptedIds t ax p).all (fun k => (t.ids ax).contains k) = true := by
      rw [List.all_eq_true]
      intro id hid
      rw [acceptedIds_eq t hwf ax hn layout hl] at hid
      simpa using (List.mem_filter.mp hid).1
    have hvia := pred_eq_idlist t hwf ax hn layout layout hl hl p invert
    rw [filter_pred_path t hwf ax hn layout hl, filter_ids_path t hwf ax hn layout hl, if_pos hall] at hvia
    simp only [Except.map, Except.ok.injEq] at hvia
    simp only [verdictFilter, modelFilterObs, filterCall, filter_pred_path t hwf ax hn layout hl,
      filter_ids_path t hwf ax hn layout hl, hall, if_true]
    apply allV_nil_of_all_none
    intro v hv
    simp only [List.mem_cons, List.not_mem_nil, or_false] at hv
    rcases hv with rfl | rfl | rfl | rfl | rfl | rfl
    · rw [eqb_of_eq]; rfl
      simp [List.map_map, Function.comp_def, callById]
    · have : ((t.ids ax).map (callById t ax)).all (fun c => eqb (t.vec? ax c.id) (some c.vec)) = true := by
        rw [List.all_eq_true]
        intro c hc
        obtain ⟨id, hid, rfl⟩ := List.mem_map.mp hc
        obtain ⟨i, hi, rfl⟩ := List.getElem_of_mem hid
        have hv := vec?_getElem t hwf ax hn i hi (by rw [vecs_length t ax layout hl]; exact hi)
        exact eqb_of_eq _ _ (by simp [callById, hv])
      rw [this]; rfl
    · have : ((t.ids ax).map (callById t ax)).all (fun c => eqb (t.mdOf? ax c.id) c.md) = true := by
        rw [List.all_eq_true]
        intro c hc
        obtain ⟨id, _, rfl⟩ := List.mem_map.mp hc
        exact eqb_self _
      rw [this]; rfl
    · rw [keptIds_pred t hwf ax hn layout hl]
      exact resultClauses_of_spec t _ ax _ (filterAxis_meets_spec t hwf ax hn _)
    · rw [eqb_self]; rfl
    · rw [eqb_of_eq _ _ hvia.symm]; rfl

/-! ## `remove_empty` and `head` -/

theorem lookupBy_map {β γ : Type} (ids : List Id) (xs : List β) (f : β → γ) (id : Id) :
    lookupBy ids (xs.map f) id = (lookupBy ids xs id).map f := by
  induction ids generalizing xs with
  | nil => cases xs <;> rfl
  | cons a as ih =>
    cases xs with
    | nil => rfl
    | cons x xs =>
      by_cases he : a = id
      · simp [lookupBy, he]
      · simp only [List.map_cons, lookupBy, he, if_false]
        exact ih xs

/-- filtering an axis leaves every cell of a kept ID what it was -/
theorem filterAxis_cell? (t : Table α) (mask : List Bool) (ax : Axis) (hn : (t.ids ax).Nodup) (o s : Id)
    (hk : (match ax with | .obs => o | .samp => s) ∈ filterMask (t.ids ax) mask) :
    (filterAxis t mask ax).cell? o s = t.cell? o s := by
  cases ax with
  | obs =>
    have := filterAxis_vec? t mask .obs hn o hk
    simp only [Table.vec?] at this
    simp only [Table.cell?, this]
    rfl
  | samp =>
    simp only [Table.cell?, Table.row?, filterAxis, lookupBy_map]
    cases lookupBy t.obs t.rows o with
    | none => rfl
    | some r => exact lookupBy_filterMask t.samp r mask s hn hk

theorem filterAxis_mdOf?_other (t : Table α) (mask : List Bool) (ax : Axis) (id : Id) :
    (filterAxis t mask ax).mdOf? ax.other id = t.mdOf? ax.other id := by cases ax <;> rfl

/-- `r` is `t` restricted to the observations `eo` and the samples `es` (cells and metadata by ID) -/
structure BlockSpec (t r : Table α) (eo es : List Id) : Prop where
  wf : r.WF
  obs : r.obs = eo
  samp : r.samp = es
  cells : ∀ o ∈ eo, ∀ s ∈ es, r.cell? o s = t.cell? o s
  omd : ∀ o ∈ eo, mdCanon (r.mdOf? .obs o) = mdCanon (t.mdOf? .obs o)
  smd : ∀ s ∈ es, mdCanon (r.mdOf? .samp s) = mdCanon (t.mdOf? .samp s)
  ttype : r.ttype = t.ttype

theorem blockSpec_filterAxis (t : Table α) (hwf : t.WF) (ax : Axis) (hn : (t.ids ax).Nodup) (f : Id → Bool) :
    BlockSpec t (filterAxis t ((t.ids ax).map f) ax)
      (match ax with | .obs => t.obs.filter f | .samp => t.obs)
      (match ax with | .obs => t.samp | .samp => t.samp.filter f) := by
  have hs := filterAxis_meets_spec t hwf ax hn f
  cases ax with
  | obs =>
    exact {
      wf := hs.wf, obs := hs.ids, samp := rfl
      cells := fun o ho s _ => filterAxis_cell? t _ .obs hn o s (by
        show o ∈ filterMask t.obs (t.obs.map f); rw [filterMask_map_self]; exact ho)
      omd := fun o ho => hs.md o (by rw [hs.ids]; exact ho)
      smd := fun _ _ => rfl
      ttype := hs.ttype }
  | samp =>
    exact {
      wf := hs.wf, obs := rfl, samp := hs.ids
      cells := fun o _ s hs' => filterAxis_cell? t _ .samp hn o s (by
        show s ∈ filterMask t.samp (t.samp.map f); rw [filterMask_map_self]; exact hs')
      omd := fun _ _ => rfl
      smd := fun s hs' => hs.md s (by rw [hs.ids]; exact hs')
      ttype := hs.ttype }

theorem blockSpec_trans (t t1 r : Table α) (eo es es' : List Id) (h1 : BlockSpec t t1 eo es)
    (h2 : BlockSpec t1 r eo es') (hsub : ∀ s ∈ es', s ∈ es) : BlockSpec t r eo es' where
  wf := h2.wf
  obs := h2.obs
  samp := h2.samp
  cells := fun o ho s hs => (h2.cells o ho s hs).trans (h1.cells o ho s (hsub s hs))
  omd := fun o ho => (h2.omd o ho).trans (h1.omd o ho)
  smd := fun s hs => (h2.smd s hs).trans (h1.smd s (hsub s hs))
  ttype := h2.ttype.trans h1.ttype

/-- the vectors of an axis, mapped positionally, are the IDs mapped through the by-ID lookup -/
theorem vecs_map_byId [Zero α] {γ : Type} (t : Table α) (hwf : t.WF) (ax : Axis) (hn : (t.ids ax).Nodup)
    (layout : CS α) (hl : LayoutOf t ax layout) (g : List α → γ) :
    (vecs t ax).map g = (t.ids ax).map (fun id => g ((t.vec? ax id).getD [])) := by
  have hvl := vecs_length t ax layout hl
  apply List.ext_getElem
  · simp [hvl]
  · intro i h1 h2
    have hi : i < (t.ids ax).length := by simpa using h2
    simp only [List.getElem_map, vec?_getElem t hwf ax hn i hi (by omega), Option.getD_some]

/-- does the vector of this ID hold a non-zero cell? (by-ID) -/
def nonEmptyId [Zero α] [DecidableEq α] (t : Table α) (ax : Axis) (id : Id) : Bool :=
  nonEmptyVec ((t.vec? ax id).getD [])

/-- **removeEmpty_exact**: along one axis `remove_empty` is the specification `filterAxis` with the mask
"this vector holds a non-zero value" — negative values and zero-sum vectors included. -/
theorem removeEmpty_exact [Zero α] [DecidableEq α] (t : Table α) (hwf : t.WF) (ax : Axis)
    (hn : (t.ids ax).Nodup) (layout : CS α) (hl : LayoutOf t ax layout) :
    removeEmptyAxis t layout ax = .ok (filterAxis t ((t.ids ax).map (nonEmptyId t ax)) ax) := by
  have hvl := vecs_length t ax layout hl
  have hmask : (vecs t ax).map nonEmptyVec = (t.ids ax).map (nonEmptyId t ax) :=
    vecs_map_byId t hwf ax hn layout hl nonEmptyVec
  have hall : (filterMask (t.ids ax) ((vecs t ax).map nonEmptyVec)).all (fun k => (t.ids ax).contains k) = true := by
    rw [List.all_eq_true]
    intro id hid
    simpa using mem_filterMask _ _ _ hid
  have hself := contains_filterMask_self (t.ids ax) hn ((vecs t ax).map nonEmptyVec) (by simp [hvl])
  rw [hmask] at hall hself
  simp only [removeEmptyAxis, hmask, filter_ids_path t hwf ax hn layout hl, hall, if_true, Bool.xor_false, hself]

/-- …so exactly the all-zero vectors are removed, everything else is intact -/
theorem removeEmpty_removes_exactly_the_zero_vectors [Zero α] [DecidableEq α] (t : Table α) (hwf : t.WF)
    (ax : Axis) (hn : (t.ids ax).Nodup) (layout : CS α) (hl : LayoutOf t ax layout) :
    ∃ r, removeEmptyAxis t layout ax = .ok r ∧ FilterSpec t r ax (nonEmptyId t ax) ∧
      ∀ id ∈ t.ids ax, (id ∈ r.ids ax ↔ ∃ v, t.vec? ax id = some v ∧ ∃ x ∈ v, x ≠ 0) := by
  refine ⟨_, removeEmpty_exact t hwf ax hn layout hl, filterAxis_meets_spec t hwf ax hn _, ?_⟩
  intro id hid
  rw [(filterAxis_meets_spec t hwf ax hn (nonEmptyId t ax)).ids, List.mem_filter]
  obtain ⟨i, hi, rfl⟩ := List.getElem_of_mem hid
  have hv := vec?_getElem t hwf ax hn i hi (by rw [vecs_length t ax layout hl]; exact hi)
  simp [nonEmptyId, nonEmptyVec, hv, List.getElem_mem]

theorem nonEmptyIds_eq [Zero α] [DecidableEq α] (t : Table α) (hwf : t.WF) (ax : Axis) (hn : (t.ids ax).Nodup)
    (layout : CS α) (hl : LayoutOf t ax layout) :
    nonEmptyIds t ax = (t.ids ax).filter (nonEmptyId t ax) := by
  unfold nonEmptyIds
  apply List.filter_congr
  intro id hid
  obtain ⟨i, hi, rfl⟩ := List.getElem_of_mem hid
  have hv := vec?_getElem t hwf ax hn i hi (by rw [vecs_length t ax layout hl]; exact hi)
  simp [hv, nonEmptyId]

open Codec in
theorem blockVerdict_none [DecidableEq α] (t r : Table α) (eo es : List Id) (h : BlockSpec t r eo es)
    (c1 c2 c3 c4 c5 c6 c7 : String) (b7 : Bool) (h7 : b7 = true) :
    allV [
      chk c1 r.wfb,
      chk c2 (eqb r.obs eo),
      chk c3 (eqb r.samp es),
      chk c4 (eo.all (fun o => es.all (fun s => eqb (r.cell? o s) (t.cell? o s)))),
      chk c5 (eo.all (fun o => eqb (mdCanon (r.mdOf? .obs o)) (mdCanon (t.mdOf? .obs o))) &&
              es.all (fun s => eqb (mdCanon (r.mdOf? .samp s)) (mdCanon (t.mdOf? .samp s)))),
      chk c6 (eqb r.ttype t.ttype),
      chk c7 b7] = none := by
  apply allV_nil_of_all_none
  intro v hv
  simp only [List.mem_cons, List.not_mem_nil, or_false] at hv
  rcases hv with rfl | rfl | rfl | rfl | rfl | rfl | rfl
  rotate_left 6
  · rw [h7]; rfl
  · rw [wfb_of_wf r h.wf]; rfl
  · rw [eqb_of_eq _ _ h.obs]; rfl
  · rw [eqb_of_eq _ _ h.samp]; rfl
  · have : eo.all (fun o => es.all (fun s => eqb (r.cell? o s) (t.cell? o s))) = true := by
      rw [List.all_eq_true]; intro o ho
      rw [List.all_eq_true]; intro s hs
      exact eqb_of_eq _ _ (h.cells o ho s hs)
    rw [this]; rfl
  · have h1 : eo.all (fun o => eqb (mdCanon (r.mdOf? .obs o)) (mdCanon (t.mdOf? .obs o))) = true := by
      rw [List.all_eq_true]; intro o ho; exact eqb_of_eq _ _ (h.omd o ho)
    have h2 : es.all (fun s => eqb (mdCanon (r.mdOf? .samp s)) (mdCanon (t.mdOf? .samp s))) = true := by
      rw [List.all_eq_true]; intro s hs; exact eqb_of_eq _ _ (h.smd s hs)
    rw [h1, h2]; rfl
  · rw [eqb_of_eq _ _ h.ttype]; rfl

/-- **model_holds** (`remove_empty` along one axis) -/
theorem model_holds_removeEmpty [Zero α] [DecidableEq α] (t : Table α) (hwf : t.WF) (ax : Axis)
    (hn : (t.ids ax).Nodup) (layoutOf : Table α → Axis → CS α) (hl : LayoutOf t ax (layoutOf t ax))
    (inplace : Bool) :
    holdsRemoveEmpty t (.one ax) inplace (modelCallObs t (removeEmpty t layoutOf (.one ax)) inplace) = true := by
  unfold holdsRemoveEmpty
  rw [Option.isNone_iff_eq_none]
  simp only [removeEmpty, removeEmpty_exact t hwf ax hn (layoutOf t ax) hl, modelCallObs, verdictRemoveEmpty]
  have hb := blockSpec_filterAxis t hwf ax hn (nonEmptyId t ax)
  cases ax with
  | obs =>
    simp only [REAxis.touches, if_true, Bool.false_eq_true, if_false, nonEmptyIds_eq t hwf .obs hn _ hl]
    exact blockVerdict_none t _ _ _ hb _ _ _ _ _ _ _ _ (eqb_self _)
  | samp =>
    simp only [REAxis.touches, if_true, Bool.false_eq_true, if_false, nonEmptyIds_eq t hwf .samp hn _ hl]
    exact blockVerdict_none t _ _ _ hb _ _ _ _ _ _ _ _ (eqb_self _)

/-! ### `remove_empty(axis='whole')`: samples first, then observations of the intermediate table -/

theorem blockSpec_trans' (t t1 r : Table α) (eo es eo' es' : List Id) (h1 : BlockSpec t t1 eo es)
    (h2 : BlockSpec t1 r eo' es') (hso : ∀ o ∈ eo', o ∈ eo) (hss : ∀ s ∈ es', s ∈ es) : BlockSpec t r eo' es' where
  wf := h2.wf
  obs := h2.obs
  samp := h2.samp
  cells := fun o ho s hs => (h2.cells o ho s hs).trans (h1.cells o (hso o ho) s (hss s hs))
  omd := fun o ho => (h2.omd o ho).trans (h1.omd o (hso o ho))
  smd := fun s hs => (h2.smd s hs).trans (h1.smd s (hss s hs))
  ttype := h2.ttype.trans h1.ttype

/-- removing positions whose mask bit is clear does not change `any p` when every element that
satisfies `p` stands at a kept position -/
theorem any_filterMask {β : Type} (p : β → Bool) (xs : List β) (mask : List Bool)
    (h : ∀ j (hj : j < xs.length), p xs[j] = true → mask[j]? = some true) :
    (filterMask xs mask).any p = xs.any p := by
  induction xs generalizing mask with
  | nil => cases mask <;> rfl
  | cons x xs ih =>
    cases mask with
    | nil =>
      have hx : p x = false := by
        cases hp : p x with
        | false => rfl
        | true => have := h 0 (by simp) hp; simp at this
      have hxs : xs.any p = false := by
        rw [List.any_eq_false]
        intro y hy
        obtain ⟨i, hi, rfl⟩ := List.getElem_of_mem hy
        intro hp
        have := h (i + 1) (by simpa using hi) (by simpa using hp)
        simp at this
      simp [filterMask, hx, hxs]
    | cons b bs =>
      have ih' := ih bs (fun j hj hp => by
        have := h (j + 1) (by simpa using hj) (by simpa using hp)
        simpa using this)
      cases b
      · have hx : p x = false := by
          cases hp : p x with
          | false => rfl
          | true => have := h 0 (by simp) hp; simp at this
        simp [filterMask, ih', hx]
      · simp [filterMask, ih']

/-- a row keeps its "holds a non-zero value" verdict when the all-zero columns are removed -/
theorem nonEmptyVec_filter_cols [Zero α] [DecidableEq α] (rows : List (List α)) (m : Nat)
    (hrect : ∀ r ∈ rows, r.length = m) (row : List α) (hrow : row ∈ rows) :
    nonEmptyVec (filterMask row ((transposeGrid m rows).map nonEmptyVec)) = nonEmptyVec row := by
  unfold nonEmptyVec
  apply any_filterMask
  intro j hj hp
  have hjm : j < m := by rw [← hrect row hrow]; exact hj
  simp only [transposeGrid, List.map_map, List.getElem?_map, List.getElem?_range hjm, Option.map_some,
    Function.comp, Option.some.injEq]
  rw [colAt_eq_map rows j (fun r hr => by rw [hrect r hr]; exact hjm)]
  simp only [List.any_map, List.any_eq_true]
  refine ⟨row, hrow, ?_⟩
  simpa [List.getD, List.getElem?_eq_getElem hj] using hp

/-- **removeEmpty_whole**: `remove_empty()` on both axes leaves exactly the observations and the samples
that hold a non-zero value in the ORIGINAL table, cells and metadata by ID unchanged -/
theorem removeEmpty_whole [Zero α] [DecidableEq α] (t : Table α) (hwf : t.WF) (hno : t.obs.Nodup)
    (hns : t.samp.Nodup) (layoutOf : Table α → Axis → CS α)
    (hls : LayoutOf t .samp (layoutOf t .samp))
    (hlo : ∀ t1 : Table α, t1 = filterAxis t (t.samp.map (nonEmptyId t .samp)) .samp →
      LayoutOf t1 .obs (layoutOf t1 .obs)) :
    ∃ r, removeEmpty t layoutOf .whole = .ok r ∧
      BlockSpec t r (t.obs.filter (nonEmptyId t .obs)) (t.samp.filter (nonEmptyId t .samp)) := by
  have hmaskS : (vecs t .samp).map nonEmptyVec = t.samp.map (nonEmptyId t .samp) :=
    vecs_map_byId t hwf .samp hns _ hls nonEmptyVec
  let t1 := filterAxis t (t.samp.map (nonEmptyId t .samp)) .samp
  have hwf1 : t1.WF := filterAxis_wf t hwf _ .samp (by simp [Table.ids])
  have hl1 := hlo t1 rfl
  have b1 := blockSpec_filterAxis t hwf .samp hns (nonEmptyId t .samp)
  have b2 := blockSpec_filterAxis t1 hwf1 .obs hno (nonEmptyId t1 .obs)
  -- emptiness of an observation is the same in the intermediate table
  have hsame : ∀ o ∈ t.obs, nonEmptyId t1 .obs o = nonEmptyId t .obs o := by
    intro o _
    simp only [nonEmptyId, Table.vec?, Table.row?]
    show nonEmptyVec ((lookupBy t.obs (t.rows.map (filterMask · (t.samp.map (nonEmptyId t .samp)))) o).getD []) = _
    rw [lookupBy_map]
    cases hlk : lookupBy t.obs t.rows o with
    | none => rfl
    | some row =>
      simp only [Option.map_some, Option.getD_some]
      rw [← hmaskS]
      exact nonEmptyVec_filter_cols t.rows t.samp.length hwf.2.1 row (lookupBy_mem _ _ _ _ hlk)
  have hfilter : t.obs.filter (nonEmptyId t1 .obs) = t.obs.filter (nonEmptyId t .obs) :=
    List.filter_congr (fun o ho => hsame o ho)
  refine ⟨filterAxis t1 (t1.obs.map (nonEmptyId t1 .obs)) .obs, ?_, ?_⟩
  · simp only [removeEmpty, removeEmpty_exact t hwf .samp hns _ hls]
    exact removeEmpty_exact t1 hwf1 .obs hno _ hl1
  · have b2' : BlockSpec t1 (filterAxis t1 (t1.obs.map (nonEmptyId t1 .obs)) .obs)
        (t.obs.filter (nonEmptyId t .obs)) (t.samp.filter (nonEmptyId t .samp)) := by
      have := b2
      simp only at this
      rw [show t1.obs = t.obs from rfl, hfilter] at this
      rw [show t1.samp = t.samp.filter (nonEmptyId t .samp) from b1.samp] at this
      exact this
    exact blockSpec_trans' t t1 _ _ _ _ _ b1 b2' (fun o ho => (List.mem_filter.mp ho).1) (fun s hs => hs)

/-- **model_holds** (`remove_empty(axis='whole')`) -/
theorem model_holds_removeEmpty_whole [Zero α] [DecidableEq α] (t : Table α) (hwf : t.WF) (hno : t.obs.Nodup)
    (hns : t.samp.Nodup) (layoutOf : Table α → Axis → CS α)
    (hls : LayoutOf t .samp (layoutOf t .samp))
    (hlo : ∀ t1 : Table α, t1 = filterAxis t (t.samp.map (nonEmptyId t .samp)) .samp →
      LayoutOf t1 .obs (layoutOf t1 .obs))
    (hlo0 : LayoutOf t .obs (layoutOf t .obs)) (inplace : Bool) :
    holdsRemoveEmpty t .whole inplace (modelCallObs t (removeEmpty t layoutOf .whole) inplace) = true := by
  obtain ⟨r, hr, hb⟩ := removeEmpty_whole t hwf hno hns layoutOf hls hlo
  unfold holdsRemoveEmpty
  rw [Option.isNone_iff_eq_none]
  simp only [hr, modelCallObs, verdictRemoveEmpty, REAxis.touches, if_true,
    nonEmptyIds_eq t hwf .obs hno _ hlo0, nonEmptyIds_eq t hwf .samp hns _ hls]
  exact blockVerdict_none t _ _ _ hb _ _ _ _ _ _ _ _ (eqb_self _)

/-- `t` restricted to its leading `k` observations -/
def obsBlock (t : Table α) (k : Nat) : Table α :=
  { t with obs := t.obs.take k, rows := t.rows.take k, omd := normMd (t.omd.map (·.take k)) }

theorem takeMask_of_ids (ids : List Id) (hn : ids.Nodup) (k : Nat) :
    ids.map (fun id => (ids.take k).contains id ^^ false) = takeMask k ids.length := by
  have := contains_filterMask_self ids hn (takeMask k ids.length) (takeMask_length _ _)
  rw [filterMask_takeMask] at this
  simpa using this

theorem filterAxis_takeMask_obs (t : Table α) (hwf : t.WF) (k : Nat) :
    filterAxis t (takeMask k t.obs.length) .obs = obsBlock t k := by
  obtain ⟨h1, _, h3, _⟩ := hwf
  simp only [filterAxis, obsBlock, filterMask_takeMask]
  congr 1
  · rw [← h1, filterMask_takeMask]
  · cases hm : t.omd with
    | none => rfl
    | some m => simp only [Option.map_some]; rw [← h3 m hm, filterMask_takeMask]

theorem filterAxis_takeMask_samp (t : Table α) (hwf : t.WF) (k : Nat) :
    filterAxis t (takeMask k t.samp.length) .samp =
      { t with samp := t.samp.take k, rows := t.rows.map (·.take k), smd := normMd (t.smd.map (·.take k)) } := by
  obtain ⟨_, h2, _, h4⟩ := hwf
  simp only [filterAxis, filterMask_takeMask]
  congr 1
  · apply List.map_congr_left
    intro r hr
    rw [← h2 r hr, filterMask_takeMask]
  · cases hm : t.smd with
    | none => rfl
    | some m => simp only [Option.map_some]; rw [← h4 m hm, filterMask_takeMask]

theorem obsBlock_wf (t : Table α) (hwf : t.WF) (k : Nat) : (obsBlock t k).WF := by
  rw [← filterAxis_takeMask_obs t hwf k]
  exact filterAxis_wf t hwf _ .obs (takeMask_length _ _)

/-- the two filter calls of `head`, for positive sizes -/
theorem head_eq [Zero α] (t : Table α) (hwf : t.WF) (hno : t.obs.Nodup) (hns : t.samp.Nodup)
    (lo : CS α) (ls : Table α → CS α) (n m : Int) (hn : 0 < n) (hm : 0 < m)
    (hlo : LayoutOf t .obs lo) (hls : LayoutOf (obsBlock t n.toNat) .samp (ls (obsBlock t n.toNat))) :
    head t lo ls n m = .ok (filterAxis (obsBlock t n.toNat) (takeMask m.toNat t.samp.length) .samp) := by
  have hall1 : (t.obs.take n.toNat).all (fun k => (t.ids .obs).contains k) = true := by
    rw [List.all_eq_true]; intro id hid; simpa [Table.ids] using List.mem_of_mem_take hid
  have hall2 : (t.samp.take m.toNat).all (fun k => ((obsBlock t n.toNat).ids .samp).contains k) = true := by
    rw [List.all_eq_true]; intro id hid; simpa [obsBlock, Table.ids] using List.mem_of_mem_take hid
  have hwf1 := obsBlock_wf t hwf n.toNat
  unfold head
  rw [if_neg (by omega), filter_ids_path t hwf .obs hno lo hlo, if_pos hall1]
  simp only [Table.ids]
  rw [takeMask_of_ids t.obs hno, filterAxis_takeMask_obs t hwf]
  rw [filter_ids_path (obsBlock t n.toNat) hwf1 .samp hns _ hls, if_pos hall2]
  simp only [Table.ids]
  rw [show (obsBlock t n.toNat).samp = t.samp from rfl, takeMask_of_ids t.samp hns]

/-- **head_block**: `head(n, m)` returns exactly the leading `n × m` block — IDs, cells, metadata, type -/
theorem head_block [Zero α] (t : Table α) (hwf : t.WF) (hno : t.obs.Nodup) (hns : t.samp.Nodup)
    (lo : CS α) (ls : Table α → CS α) (n m : Int) (hn : 0 < n) (hm : 0 < m)
    (hlo : LayoutOf t .obs lo) (hls : LayoutOf (obsBlock t n.toNat) .samp (ls (obsBlock t n.toNat))) :
    head t lo ls n m = .ok
      { obs := t.obs.take n.toNat, samp := t.samp.take m.toNat,
        rows := (t.rows.take n.toNat).map (·.take m.toNat),
        omd := normMd (t.omd.map (·.take n.toNat)), smd := normMd (t.smd.map (·.take m.toNat)),
        ttype := t.ttype } := by
  rw [head_eq t hwf hno hns lo ls n m hn hm hlo hls]
  have := filterAxis_takeMask_samp (obsBlock t n.toNat) (obsBlock_wf t hwf n.toNat) m.toNat
  rw [show (obsBlock t n.toNat).samp = t.samp from rfl] at this
  rw [this]
  rfl

/-- non-positive sizes are refused before anything is looked at -/
theorem head_refuses [Zero α] (t : Table α) (lo : CS α) (ls : Table α → CS α) (n m : Int) (h : n ≤ 0 ∨ m ≤ 0) :
    head t lo ls n m = .error .index := by
  unfold head; rw [if_pos h]

/-- **model_holds** (`head`) -/
theorem model_holds_head [Zero α] [DecidableEq α] (t : Table α) (hwf : t.WF) (hno : t.obs.Nodup)
    (hns : t.samp.Nodup) (lo : CS α) (ls : Table α → CS α) (n m : Int)
    (hlo : LayoutOf t .obs lo) (hls : LayoutOf (obsBlock t n.toNat) .samp (ls (obsBlock t n.toNat))) :
    holdsHead t n m (modelCallObs t (head t lo ls n m) false) = true := by
  unfold holdsHead
  rw [Option.isNone_iff_eq_none]
  by_cases h : n ≤ 0 ∨ m ≤ 0
  · simp only [verdictHead, h, if_true, head_refuses t lo ls n m h, modelCallObs, errOf, Option.isSome_some,
      eqb_self]
    rfl
  · have hn : 0 < n := by omega
    have hm : 0 < m := by omega
    simp only [verdictHead, h, if_false, head_eq t hwf hno hns lo ls n m hn hm hlo hls, modelCallObs]
    have hwf1 := obsBlock_wf t hwf n.toNat
    have b1 := blockSpec_filterAxis t hwf .obs hno (fun id => (t.obs.take n.toNat).contains id ^^ false)
    have b2 := blockSpec_filterAxis (obsBlock t n.toNat) hwf1 .samp hns
      (fun id => (t.samp.take m.toNat).contains id ^^ false)
    simp only [Table.ids] at b1 b2
    rw [takeMask_of_ids t.obs hno, filterAxis_takeMask_obs t hwf] at b1
    rw [show (obsBlock t n.toNat).samp = t.samp from rfl, takeMask_of_ids t.samp hns] at b2
    have e1 : t.obs.filter (fun id => (t.obs.take n.toNat).contains id ^^ false) = t.obs.take n.toNat := by
      rw [← filterMask_map_self, takeMask_of_ids t.obs hno, filterMask_takeMask]
    have e2 : t.samp.filter (fun id => (t.samp.take m.toNat).contains id ^^ false) = t.samp.take m.toNat := by
      rw [← filterMask_map_self, takeMask_of_ids t.samp hns, filterMask_takeMask]
    rw [e1] at b1
    rw [e2, show (obsBlock t n.toNat).obs = t.obs.take n.toNat from rfl] at b2
    have b := blockSpec_trans t _ _ _ _ _ b1 b2 (fun s hs => List.mem_of_mem_take hs)
    exact blockVerdict_none t _ _ _ b _ _ _ _ _ _ _ _ (eqb_self _)

/-! ## Error profile `empty='raise'` -/

theorem tableFilter_valid [Zero α] [DecidableEq α] (t : Table α) (hwf : t.WF) (ax : Axis) (hn : (t.ids ax).Nodup)
    (layout : CS α) (hl : LayoutOf t ax layout) (keep : Keep α) (invert : Bool) (hv : validKeep t ax keep = true) :
    ∃ r calls, tableFilter t layout ax keep invert = .ok (r, calls) ∧
      r.ids ax = keptIds t ax keep invert ∧ r.ids ax.other = t.ids ax.other := by
  cases keep with
  | ids l =>
    simp only [validKeep] at hv
    refine ⟨_, _, by rw [filter_ids_path t hwf ax hn layout hl, if_pos hv], ?_, filterAxis_other_ids t _ ax⟩
    rw [filterAxis_ids, filterMask_map_self]; rfl
  | pred p =>
    refine ⟨_, _, filter_pred_path t hwf ax hn layout hl p invert, ?_, filterAxis_other_ids t _ ax⟩
    rw [filterAxis_ids, filterMask_map_self, keptIds_pred t hwf ax hn layout hl]
  | other => simp [validKeep] at hv

theorem tableFilter_invalid [Zero α] (t : Table α) (hwf : t.WF) (ax : Axis) (hn : (t.ids ax).Nodup)
    (layout : CS α) (hl : LayoutOf t ax layout) (keep : Keep α) (invert : Bool) (hv : validKeep t ax keep = false) :
    ∃ e, tableFilter t layout ax keep invert = .error e := by
  cases keep with
  | ids l =>
    simp only [validKeep] at hv
    exact ⟨.key, by rw [filter_ids_path t hwf ax hn layout hl, if_neg (by rw [hv]; exact Bool.false_ne_true)]⟩
  | pred p => simp [validKeep] at hv
  | other => exact ⟨.type, rfl⟩

theorem isEmptyTable_axis (r : Table α) (ax : Axis) :
    isEmptyTable r = ((r.ids ax).isEmpty || (r.ids ax.other).isEmpty) := by
  cases ax <;> simp [isEmptyTable, Table.ids, Axis.other, Bool.or_comm]

/-- the profile only decides whether the call raises: the receiver ends up the same, and without the
profile `filterCallP` is `filterCall` -/
theorem filterCallP_after [Zero α] (emptyRaise : Bool) (t : Table α) (layout : CS α) (ax : Axis) (keep : Keep α)
    (invert inplace : Bool) :
    (filterCallP emptyRaise t layout ax keep invert inplace).after = (filterCall t layout ax keep invert inplace).after ∧
    filterCallP false t layout ax keep invert inplace = filterCall t layout ax keep invert inplace := by
  unfold filterCallP
  generalize filterCall t layout ax keep invert inplace = o
  obtain ⟨res, aft, cl⟩ := o
  constructor
  · cases res with
    | error e => rfl
    | ok r => simp only; split <;> rfl
  · cases res <;> simp

/-- **model_holds_under_profile**: with or without `empty='raise'` in force, the declarative predicate is
true of the model's observation — an emptying request raises `TableException`, a copying call leaves the
receiver alone, an in-place call leaves the (empty) specified result behind -/
theorem model_holds_under_profile [Zero α] [DecidableEq α] (emptyRaise : Bool) (t : Table α) (hwf : t.WF)
    (ax : Axis) (hn : (t.ids ax).Nodup) (layout : CS α) (hl : LayoutOf t ax layout) (keep : Keep α)
    (invert inplace : Bool) :
    verdictFilterP emptyRaise t ax keep invert inplace
      { modelFilterObs t layout ax keep invert inplace with
        result := (filterCallP emptyRaise t layout ax keep invert inplace).result } = none := by
  have hbase : ∀ ip, verdictFilter t ax keep invert ip (modelFilterObs t layout ax keep invert ip) = none := by
    intro ip
    have := model_holds t hwf ax hn layout hl keep invert ip
    unfold holdsFilter at this
    exact Option.isNone_iff_eq_none.mp this
  cases hv : validKeep t ax keep with
  | false =>
    obtain ⟨e, he⟩ := tableFilter_invalid t hwf ax hn layout hl keep invert hv
    have hP : (filterCallP emptyRaise t layout ax keep invert inplace).result =
        (modelFilterObs t layout ax keep invert inplace).result := by
      simp [filterCallP, modelFilterObs, filterCall, he]
    rw [hP]
    simp only [verdictFilterP, hv, Bool.and_false, Bool.false_and, Bool.false_eq_true, if_false]
    exact hbase inplace
  | true =>
    obtain ⟨r, calls, hr, hids, hother⟩ := tableFilter_valid t hwf ax hn layout hl keep invert hv
    have hempty : isEmptyTable r = ((keptIds t ax keep invert).isEmpty || (t.ids ax.other).isEmpty) := by
      rw [isEmptyTable_axis r ax, hids, hother]
    cases hc : emptyRaise && ((keptIds t ax keep invert).isEmpty || (t.ids ax.other).isEmpty) with
    | false =>
      have hP : (filterCallP emptyRaise t layout ax keep invert inplace).result =
          (modelFilterObs t layout ax keep invert inplace).result := by
        simp only [filterCallP, modelFilterObs, filterCall, hr]
        rw [hempty, hc]; rfl
      rw [hP]
      have hcond : (emptyRaise && validKeep t ax keep &&
          ((keptIds t ax keep invert).isEmpty || (t.ids ax.other).isEmpty)) = false := by
        rw [hv, Bool.and_true]; exact hc
      simp only [verdictFilterP, hcond, Bool.false_eq_true, if_false]
      exact hbase inplace
    | true =>
      have hP : (filterCallP emptyRaise t layout ax keep invert inplace).result = .error .tableException := by
        simp only [filterCallP, filterCall, hr]
        rw [hempty, hc]; rfl
      have hcond : (emptyRaise && validKeep t ax keep &&
          ((keptIds t ax keep invert).isEmpty || (t.ids ax.other).isEmpty)) = true := by
        rw [hv, Bool.and_true]; exact hc
      rw [hP]
      simp only [verdictFilterP, hcond, if_true]
      apply allV_nil_of_all_none
      intro v hvm
      simp only [List.mem_cons, List.not_mem_nil, or_false] at hvm
      rcases hvm with rfl | rfl
      · simp only [errOf, eqb_self]; rfl
      · cases inplace with
        | false =>
          simp only [Bool.false_eq_true, if_false, modelFilterObs, filterCall, hr, eqb_self]; rfl
        | true =>
          have := hbase true
          simp only [modelFilterObs, filterCall, hr, if_true] at this ⊢
          exact this

/-! ## The table's own by-ID lookups -/

theorem map_indexOf?_self (ids : List Id) (hn : ids.Nodup) :
    ids.map (indexOf? ids) = (List.range ids.length).map some := by
  apply List.ext_getElem
  · simp
  · intro i h1 h2
    have hi : i < ids.length := by simpa using h1
    simp only [List.getElem_map, List.getElem_range, indexOf?_getElem ids hn i hi]

theorem map_vec?_self (t : Table α) (hwf : t.WF) (ax : Axis) (hn : (t.ids ax).Nodup)
    (hl : (vecs t ax).length = (t.ids ax).length) :
    (t.ids ax).map (t.vec? ax) = (vecs t ax).map some := by
  apply List.ext_getElem
  · simp [hl]
  · intro i h1 h2
    have hi : i < (t.ids ax).length := by simpa using h1
    simp only [List.getElem_map, vec?_getElem t hwf ax hn i hi (by omega)]

/-- **model_lookups_hold**: in the model a coherent table with distinct IDs answers `index(id)` with the
ID's position, `data(id)` with the vector at that position, and knows none of the removed IDs -/
theorem model_lookups_hold [DecidableEq α] (r : Table α) (hwf : r.WF) (hno : r.obs.Nodup) (hns : r.samp.Nodup)
    (removedObs removedSamp : List Id) (h1 : ∀ id ∈ removedObs, id ∉ r.obs) (h2 : ∀ id ∈ removedSamp, id ∉ r.samp) :
    holdsLookups r (lookupsOf r removedObs removedSamp) = true := by
  have e1 := map_indexOf?_self r.obs hno
  have e2 := map_indexOf?_self r.samp hns
  have e3 := map_vec?_self r hwf .obs hno hwf.1
  have e4 := map_vec?_self r hwf .samp hns (by simp [vecs, transposeGrid, Table.ids])
  have e5 : removedObs.filter (fun id => r.obs.contains id) = [] := by
    rw [List.filter_eq_nil_iff]; intro id hid; simpa using h1 id hid
  have e6 : removedSamp.filter (fun id => r.samp.contains id) = [] := by
    rw [List.filter_eq_nil_iff]; intro id hid; simpa using h2 id hid
  simp only [Table.ids, vecs] at e3 e4
  simp only [holdsLookups, lookupsOf, e1, e2, e3, e4, e5, e6, eqb_self, vecs, List.append_nil, Bool.and_self]

/-- the result of a filter has distinct IDs and none of the IDs it dropped, so `model_lookups_hold` applies
to it with `removed` = the dropped IDs -/
theorem filter_result_lookups [DecidableEq α] (t : Table α) (hwf : t.WF) (hno : t.obs.Nodup) (hns : t.samp.Nodup)
    (ax : Axis) (f : Id → Bool) :
    let r := filterAxis t ((t.ids ax).map f) ax
    let dropped := (t.ids ax).filter (fun id => !f id)
    holdsLookups r (match ax with
      | .obs => lookupsOf r dropped []
      | .samp => lookupsOf r [] dropped) = true := by
  intro r dropped
  have hs : FilterSpec t r ax f := filterAxis_meets_spec t hwf ax (by cases ax <;> assumption) f
  have hdrop : ∀ id ∈ dropped, id ∉ r.ids ax := by
    intro id hid hmem
    rw [hs.ids] at hmem
    have h1 := (List.mem_filter.mp hid).2
    have h2 := (List.mem_filter.mp hmem).2
    simp [h2] at h1
  cases ax with
  | obs =>
    have hro : r.obs.Nodup := by
      have := hs.ids; simp only [Table.ids] at this; rw [this]; exact hno.filter _
    exact model_lookups_hold r hs.wf hro hns dropped [] hdrop (fun _ h => by cases h)
  | samp =>
    have hrs : r.samp.Nodup := by
      have := hs.ids; simp only [Table.ids] at this; rw [this]; exact hns.filter _
    exact model_lookups_hold r hs.wf hno hrs [] dropped (fun _ h => by cases h) hdrop

/-! ## Non-vacuity: a concrete receiver whose layout is UNSORTED and holds a stored zero -/

namespace Example

deriving instance DecidableEq for Except

def t0 : Table Int :=
  { obs := ["o1", "o2", "o3"], samp := ["s1", "s2", "s3"], rows := [[1, 2, 3], [0, 1, 0], [4, 0, 5]],
    omd := some [[("grp", "a")], [("grp", "b")], [("grp", "a")]], smd := none, ttype := some "OTU table" }

/-- CSR after `sort_order(['s3','s1','s2'])`-like history: indices out of order, `(o2,s1)` stored as 0 -/
def rowLayout : CS Int := ofSlices 3 [[(2, 3), (0, 1), (1, 2)], [(1, 1), (0, 0)], [(2, 5), (0, 4)]]
/-- CSC of the same content, also out of order -/
def colLayout : CS Int := ofSlices 3 [[(2, 4), (0, 1)], [(1, 1), (0, 2)], [(2, 5), (0, 3)]]

theorem t0_wf : t0.WF :=
  ⟨rfl, by decide, fun m h => by cases h; rfl, fun m h => by cases h⟩

theorem rowLayout_of : LayoutOf t0 .obs rowLayout where
  wf := wf_ofSlices _ _ (by decide) (by decide)
  nMajor := rfl
  nMinor := rfl
  dense := by decide

theorem colLayout_of : LayoutOf t0 .samp colLayout where
  wf := wf_ofSlices _ _ (by decide) (by decide)
  nMajor := rfl
  nMinor := rfl
  dense := by decide

/-- the layout really is unsorted, so the kernel alone would hand out wrong vectors… -/
example : ¬ rowLayout.SortedIndices := by
  intro h
  have := h 0 (by decide)
  revert this
  decide

example : (genMask (fun v _ _ => v.head? == some 1) false rowLayout 0 t0.obs [none, none, none] [0, 0, 0]).map (·.2.map (·.vec)) =
    .ok [[0, 0, 3], [0, 1, 3], [0, 0, 5]] := by decide   -- the 3 in the second vector is the stale buffer

/-- …and `Table.filter` (sort, then kernel) hands out the true ones and keeps exactly `o1` -/
example : (tableFilter t0 rowLayout .obs (.pred (fun v _ _ => v.head? == some 1)) false) =
    .ok ({ t0 with obs := ["o1"], rows := [[1, 2, 3]], omd := some [[("grp", "a")]] },
         [⟨[1, 2, 3], "o1", some [("grp", "a")]⟩, ⟨[0, 1, 0], "o2", some [("grp", "b")]⟩,
          ⟨[4, 0, 5], "o3", some [("grp", "a")]⟩]) := by rfl

example : (tableFilter t0 colLayout .samp (.ids ["s3", "s1"]) true).map (·.1) =
    .ok { t0 with samp := ["s2"], rows := [[2], [1], [0]] } := by rfl

/-- the general theorems apply to it -/
example (p : Pred Int) (invert inplace : Bool) :
    holdsFilter t0 .obs (.pred p) invert inplace (modelFilterObs t0 rowLayout .obs (.pred p) invert inplace) = true :=
  model_holds t0 t0_wf .obs (by decide) rowLayout rowLayout_of _ _ _

example : (filterCall t0 colLayout .samp (.ids ["s1", "zz"]) false true).result = .error .key ∧
    (filterCall t0 colLayout .samp (.ids ["s1", "zz"]) false true).after = t0 :=
  unknown_id_unchanged t0 t0_wf .samp (by decide) colLayout colLayout_of _ _ _ "zz" (by decide) (by decide)

/-- `remove_empty` keeps a zero-sum vector and a negative one, drops only the all-zero one -/
def t1 : Table Int :=
  { obs := ["a", "b", "c"], samp := ["x", "y", "z"], rows := [[-1, 0, 1], [0, 0, 0], [-3, 0, 0]] }

def t1Layout : CS Int := ofSlices 3 [[(2, 1), (0, -1)], [(1, 0)], [(0, -3)]]

theorem t1_layout_of : LayoutOf t1 .obs t1Layout where
  wf := wf_ofSlices _ _ (by decide) (by decide)
  nMajor := rfl
  nMinor := rfl
  dense := by decide

theorem t1_wf : t1.WF := by
  refine ⟨rfl, by decide, ?_, ?_⟩ <;> intro m h <;> cases h

example : removeEmptyAxis t1 t1Layout .obs = .ok { t1 with obs := ["a", "c"], rows := [[-1, 0, 1], [-3, 0, 0]] } := by
  rw [removeEmpty_exact t1 t1_wf .obs (by decide) t1Layout t1_layout_of]
  rfl

/-- `axis='whole'`: column `y` and row `b` go, the zero-sum row `a` and the negative row `c` stay -/
def t1ColLayout : CS Int := ofSlices 3 [[(2, -3), (0, -1)], [], [(0, 1)]]
def t1MidLayout : CS Int := ofSlices 2 [[(1, 1), (0, -1)], [], [(0, -3)]]

example : ∃ r, removeEmpty t1 (fun _ ax => match ax with | .samp => t1ColLayout | .obs => t1MidLayout) .whole = .ok r ∧
    BlockSpec t1 r ["a", "c"] ["x", "z"] := by
  have h := removeEmpty_whole t1 t1_wf (by decide) (by decide)
    (fun _ ax => match ax with | .samp => t1ColLayout | .obs => t1MidLayout)
    { wf := wf_ofSlices _ _ (by decide) (by decide), nMajor := rfl, nMinor := rfl, dense := by decide }
    (fun t1' ht => by
      subst ht
      exact { wf := wf_ofSlices _ _ (by decide) (by decide), nMajor := by decide, nMinor := by decide,
              dense := by decide })
  have e1 : t1.obs.filter (nonEmptyId t1 .obs) = ["a", "c"] := by decide
  have e2 : t1.samp.filter (nonEmptyId t1 .samp) = ["x", "z"] := by decide
  rw [e1, e2] at h
  exact h

example : removeRows rowLayout [true, false, true] =
    .ok { nMajor := 2, nMinor := 3, indptr := [0, 3, 5], indices := [2, 0, 1, 2, 0], data := [3, 1, 2, 5, 4] } := by
  rfl

end Example

end Biom.C08
