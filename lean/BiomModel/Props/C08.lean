import BiomModel.C08
namespace Biom.C08
theorem mergeRow_unsorted_witness : mergeRow [9, 9, 9] [(2, (5 : Int)), (0, 7)] 0 = [0, 0, 5] := by decide
end Biom.C08
