/-
  C14 — property theorems.
-/
import BiomModel.Lemmas.C14

namespace Biom.C14

variable {α : Type}

/-- what the theorems assume of the file (established for written files by C04):
`shape` = the ID counts, the `ax` matrix group is a well-formed compressed matrix of that shape,
IDs of the subset axis are distinct, one metadata entry per ID -/
structure H5.WF (f : H5 α) (ax : Axis) : Prop where
  shapeObs : f.shape.1 = f.obs.ids.length
  shapeSamp : f.shape.2 = f.samp.ids.length
  cs : (csOf f ax).WF
  nodup : (f.grp ax).ids.Nodup
  omdLen : ∀ m, f.obs.md = some m → m.length = f.obs.ids.length
  smdLen : ∀ m, f.samp.md = some m → m.length = f.samp.ids.length

theorem getIds_some_ok (src req : List Id) (hs : src.Nodup) (hr : req.Nodup)
    (hsub : ∀ x ∈ req, x ∈ src) :
    getIds src (some req) = .ok (src.filter (fun i => req.contains i), idMask src req) := by
  have h := kept_length src req hs hr hsub
  simp only [getIds, idMask, filterMask_map_pred, h, bne_self_eq_false, Bool.false_eq_true, ↓reduceIte]

theorem getIds_none (src : List Id) : getIds src none = .ok (src, src.map (fun _ => true)) := rfl

theorem extract_ok (g : AxisGrp α) (cs : CS α) (hcs : cs.WF) (hi : cs.indptr = g.indptr)
    (mask : List Bool) (hm : mask.length = cs.nMajor) :
    mapE (readRange g.indptr) (posFrom 0 mask) = .ok (rangesOf g.indptr (posFrom 0 mask)) ∧
    sortRanges (rangesOf g.indptr (posFrom 0 mask)) = rangesOf g.indptr (posFrom 0 mask) := by
  have hkeep : ∀ i ∈ posFrom 0 mask, i < cs.nMajor := by
    intro i hi'; have := mem_posFrom hi'; omega
  constructor
  · apply mapE_ok
    intro i hi'
    apply readRange_ok
    have := hcs.ptrLen; rw [hi] at this
    have := hkeep i hi'; omega
  · have := sortRanges_id cs hcs (posFrom 0 mask) (posFrom_pairwise 0 mask) hkeep
    rw [hi] at this
    exact this


theorem subsetMd_all (md : Option (List Md)) (ids : List Id)
    (h : ∀ m, md = some m → m.length = ids.length) :
    orNone (subsetMd md (ids.map (fun _ => true))) = orNone md := by
  cases md with
  | none => rfl
  | some m =>
    cases m with
    | nil => rfl
    | cons e es =>
      simp only [subsetMd]
      rw [filterMask_all_true (e :: es) ids (h _ rfl).symm]

theorem subsetMd_mask (md : Option (List Md)) (ids : List Id) (mask : List Bool)
    (h : ∀ m, md = some m → m.length = ids.length) (hne : filterMask ids mask ≠ []) :
    orNone (subsetMd md mask) = (orNone md).map (fun m => filterMask m mask) := by
  cases md with
  | none => rfl
  | some m =>
    cases m with
    | nil => rfl
    | cons e es =>
      simp only [subsetMd, orNone, Option.map_some]
      have hl := filterMask_length_eq mask (h _ rfl)
      cases hf : filterMask (e :: es) mask with
      | nil => rw [hf] at hl
               exact absurd (List.length_eq_zero_iff.mp hl.symm) hne
      | cons _ _ => rfl

/-- **Subset read = read everything, filter, drop emptied other-axis vectors** (default HDF5 path):
for a well-formed file and requested IDs that are all present and distinct, the table returned
by `from_hdf5(ids=…, axis=…)` is — IDs in file order, cells, metadata — the full table filtered to
the request and then freed of the other-axis vectors that became all-zero. -/
theorem h5subset_eq [Zero α] [DecidableEq α] (f : H5 α) (req : List Id) (ax : Axis)
    (hwf : H5.WF f ax) (hne : req ≠ []) (hnd : req.Nodup) (hsub : ∀ x ∈ req, x ∈ (f.grp ax).ids) :
    h5Subset f req ax = .ok (dropEmptyOther (filterAxis (fromFile f ax) req ax) ax) := by
  have hkl := kept_length (f.grp ax).ids req hwf.nodup hnd hsub
  have hkne : filterMask (f.grp ax).ids (idMask (f.grp ax).ids req) ≠ [] := by
    intro h
    have : (filterMask (f.grp ax).ids (idMask (f.grp ax).ids req)).length = req.length := by
      rw [idMask, filterMask_map_pred]; exact hkl
    rw [h] at this
    exact hne (List.length_eq_zero_iff.mp this.symm)
  cases ax with
  | obs =>
    have hm : (idMask f.obs.ids req).length = (csOf f .obs).nMajor := by
      simp [idMask, csOf, dimOf, hwf.shapeObs]
    obtain ⟨he1, he2⟩ := extract_ok f.obs (csOf f .obs) hwf.cs rfl _ hm
    have hdense := subCS_toDense f.obs (csOf f .obs) hwf.cs rfl rfl rfl _ hm
    have hpl := posFrom_length 0 f.obs.ids (idMask f.obs.ids req) (by simp [idMask])
    have hnotempty : (rangesOf f.obs.indptr (posFrom 0 (idMask f.obs.ids req))).isEmpty = false := by
      cases hr : rangesOf f.obs.indptr (posFrom 0 (idMask f.obs.ids req)) with
      | nil =>
        have : (posFrom 0 (idMask f.obs.ids req)).length = 0 := by
          have := congrArg List.length hr; simpa [rangesOf] using this
        rw [hpl] at this
        exact absurd (List.length_eq_zero_iff.mp this) hkne
      | cons _ _ => rfl
    simp only [h5Subset, H5.grp, ↓reduceIte, reduceCtorEq,
      getIds_some_ok f.obs.ids req hwf.nodup hnd hsub, getIds_none, he1, he2, hnotempty,
      Bool.false_eq_true]
    congr 1
    unfold dropEmptyOther
    congr 1
    have hn1 : (List.filter (fun i => req.contains i) f.obs.ids).length =
        (posFrom 0 (idMask f.obs.ids req)).length := by
      rw [hpl, idMask, filterMask_map_pred]
    have hn2 : f.samp.ids.length = (csOf f .obs).nMinor := by
      simp [csOf, dimOf, Axis.other, hwf.shapeSamp]
    simp only [mkTable, filterAxis, maskTable, fromFile, Table.ids, hn1, hn2, hdense]
    have e1 := subsetMd_mask f.obs.md f.obs.ids (idMask f.obs.ids req) hwf.omdLen hkne
    have e2 := subsetMd_all f.samp.md f.samp.ids hwf.smdLen
    rw [e1, e2]
    simp only [idMask, filterMask_map_pred]
  | samp =>
    have hm : (idMask f.samp.ids req).length = (csOf f .samp).nMajor := by
      simp [idMask, csOf, dimOf, hwf.shapeSamp]
    obtain ⟨he1, he2⟩ := extract_ok f.samp (csOf f .samp) hwf.cs rfl _ hm
    have hdense := subCS_toDense f.samp (csOf f .samp) hwf.cs rfl rfl rfl _ hm
    have hpl := posFrom_length 0 f.samp.ids (idMask f.samp.ids req) (by simp [idMask])
    have hnotempty : (rangesOf f.samp.indptr (posFrom 0 (idMask f.samp.ids req))).isEmpty = false := by
      cases hr : rangesOf f.samp.indptr (posFrom 0 (idMask f.samp.ids req)) with
      | nil =>
        have : (posFrom 0 (idMask f.samp.ids req)).length = 0 := by
          have := congrArg List.length hr; simpa [rangesOf] using this
        rw [hpl] at this
        exact absurd (List.length_eq_zero_iff.mp this) hkne
      | cons _ _ => rfl
    simp only [h5Subset, H5.grp, ↓reduceIte, reduceCtorEq,
      getIds_some_ok f.samp.ids req hwf.nodup hnd hsub, getIds_none, he1, he2, hnotempty,
      Bool.false_eq_true]
    congr 1
    unfold dropEmptyOther
    congr 1
    have hn1 : (List.filter (fun i => req.contains i) f.samp.ids).length =
        (posFrom 0 (idMask f.samp.ids req)).length := by
      rw [hpl, idMask, filterMask_map_pred]
    have hn2 : f.obs.ids.length = (csOf f .samp).nMinor := by
      simp [csOf, dimOf, Axis.other, hwf.shapeObs]
    simp only [mkTable, filterAxis, maskTable, fromFile, Table.ids, hn1, hn2, hdense]
    have e1 := subsetMd_mask f.samp.md f.samp.ids (idMask f.samp.ids req) hwf.smdLen hkne
    have e2 := subsetMd_all f.obs.md f.obs.ids hwf.omdLen
    rw [e1, e2]
    rw [show (subCS f.samp (rangesOf f.samp.indptr (posFrom 0 (idMask f.samp.ids req)))
              (posFrom 0 (idMask f.samp.ids req)).length (csOf f Axis.samp).nMinor).nMinor =
            (csOf f Axis.samp).nMinor from rfl]
    rw [transposeGrid_filterMask _ _ _ (toDense_row_length (csOf f .samp))]
    simp only [idMask, filterMask_map_pred]


theorem getIds_refuses (src req : List Id)
    (h : (src.filter (fun i => req.contains i)).length < req.length) :
    getIds src (some req) = .error .value := by
  have hne : ((src.filter (fun i => req.contains i)).length != req.length) = true := by
    simp only [bne_iff_ne, ne_eq]; omega
  simp only [getIds, idMask, filterMask_map_pred, hne, ↓reduceIte]

theorem h5Subset_of_getIds_error [Zero α] [DecidableEq α] (f : H5 α) (req : List Id) (ax : Axis)
    (h : getIds (f.grp ax).ids (some req) = .error .value) : h5Subset f req ax = .error .value := by
  cases ax with
  | obs => simp only [H5.grp] at h; simp only [h5Subset, ↓reduceIte, h]
  | samp => simp only [H5.grp] at h; simp only [h5Subset, ↓reduceIte, reduceCtorEq, getIds_none, h]

/-- **An unknown ID is refused** (default HDF5 path): whatever else is requested, if one requested
ID is not among the file's (distinct) IDs of that axis, the reader raises `ValueError`. -/
theorem h5subset_unknown_refused [Zero α] [DecidableEq α] (f : H5 α) (req : List Id) (ax : Axis)
    (hnd : (f.grp ax).ids.Nodup) (x : Id) (hx : x ∈ req) (hxs : x ∉ (f.grp ax).ids) :
    h5Subset f req ax = .error .value :=
  h5Subset_of_getIds_error f req ax
    (getIds_refuses _ _ (kept_length_lt_of_unknown _ req hnd x hx hxs))

/-- the shape comparison also refuses a request that repeats an ID -/
theorem h5subset_repeated_refused [Zero α] [DecidableEq α] (f : H5 α) (req : List Id) (ax : Axis)
    (hnd : (f.grp ax).ids.Nodup) (hrep : ¬ req.Nodup) : h5Subset f req ax = .error .value :=
  h5Subset_of_getIds_error f req ax (getIds_refuses _ _ (kept_length_lt_of_repeated _ req hnd hrep))

/-- `parse_biom_table(handle, ids=…)` on HDF5: same table; a refusal surfaces as `TypeError` -/
theorem parseH5_eq [Zero α] [DecidableEq α] (f : H5 α) (req : List Id) (ax : Axis)
    (hwf : H5.WF f ax) (hne : req ≠ []) (hnd : req.Nodup) (hsub : ∀ x ∈ req, x ∈ (f.grp ax).ids) :
    parseH5 f req ax = .ok (dropEmptyOther (filterAxis (fromFile f ax) req ax) ax) := by
  simp only [parseH5, h5subset_eq f req ax hwf hne hnd hsub]

theorem parseH5_unknown_refused [Zero α] [DecidableEq α] (f : H5 α) (req : List Id) (ax : Axis)
    (hnd : (f.grp ax).ids.Nodup) (x : Id) (hx : x ∈ req) (hxs : x ∉ (f.grp ax).ids) :
    parseH5 f req ax = .error .type := by
  simp only [parseH5, h5subset_unknown_refused f req ax hnd x hx hxs]

/-- a table without metadata and type, as the metadata-free variant constructs it -/
def stripMd (t : Table α) : Table α := { t with omd := none, smd := none, ttype := none }

/-- **Metadata-free variant**: same IDs (file order) and cells as load-all-then-filter, no metadata,
and NO emptiness filter on the other axis.  The request is a set here: repeats are harmless. -/
theorem h5nomd_eq [Zero α] (f : H5 α) (req : List Id) (ax : Axis)
    (hwf : H5.WF f ax) (hne : req ≠ []) (hsub : ∀ x ∈ req, x ∈ (f.grp ax).ids) :
    h5SubsetNoMd f req ax = .ok (stripMd (filterAxis (fromFile f ax) req ax)) := by
  have hks := kept_length_set (f.grp ax).ids req hwf.nodup hsub
  have hpl := posFrom_length 0 (f.grp ax).ids (idMask (f.grp ax).ids req) (by simp [idMask])
  have hkl : (posFrom 0 (idMask (f.grp ax).ids req)).length = req.eraseDups.length := by
    rw [hpl, idMask, filterMask_map_pred]; exact hks
  have hpos : 0 < req.eraseDups.length := by
    cases req with
    | nil => exact absurd rfl hne
    | cons a as => rw [List.eraseDups_cons]; simp
  have hm : (idMask (f.grp ax).ids req).length = (csOf f ax).nMajor := by
    cases ax <;> simp [idMask, csOf, dimOf, H5.grp, hwf.shapeObs, hwf.shapeSamp]
  obtain ⟨he1, _⟩ := extract_ok (f.grp ax) (csOf f ax) hwf.cs rfl _ hm
  have hdense := subCS_toDense (f.grp ax) (csOf f ax) hwf.cs rfl rfl rfl _ hm
  have hnotempty : (rangesOf (f.grp ax).indptr (posFrom 0 (idMask (f.grp ax).ids req))).isEmpty = false := by
    cases hr : rangesOf (f.grp ax).indptr (posFrom 0 (idMask (f.grp ax).ids req)) with
    | nil =>
      have : (posFrom 0 (idMask (f.grp ax).ids req)).length = 0 := by
        have := congrArg List.length hr; simpa [rangesOf] using this
      omega
    | cons _ _ => rfl
  have hbne : ((posFrom 0 (idMask (f.grp ax).ids req)).length != req.eraseDups.length) = false := by
    rw [hkl]; simp
  simp only [h5SubsetNoMd, hbne, he1, hnotempty, Bool.false_eq_true, ↓reduceIte]
  cases ax with
  | obs =>
    have hn2 : f.samp.ids.length = (csOf f .obs).nMinor := by
      simp [csOf, dimOf, Axis.other, hwf.shapeSamp]
    simp only [H5.grp] at hdense ⊢
    simp only [mkTable, hn2, hdense, stripMd, filterAxis, maskTable, fromFile, Table.ids, orNone]
  | samp =>
    have hn2 : f.obs.ids.length = (csOf f .samp).nMinor := by
      simp [csOf, dimOf, Axis.other, hwf.shapeObs]
    simp only [H5.grp] at hdense ⊢
    simp only [mkTable, hn2, hdense, stripMd, filterAxis, maskTable, fromFile, Table.ids, orNone]
    rw [show (subCS f.samp (rangesOf f.samp.indptr (posFrom 0 (idMask f.samp.ids req)))
              (posFrom 0 (idMask f.samp.ids req)).length (csOf f Axis.samp).nMinor).nMinor =
            (csOf f Axis.samp).nMinor from rfl]
    rw [transposeGrid_filterMask _ _ _ (toDense_row_length (csOf f .samp))]

/-- the metadata-free variant refuses an unknown ID too (repair 7b0a08ea) -/
theorem h5nomd_unknown_refused [Zero α] (f : H5 α) (req : List Id) (ax : Axis)
    (hnd : (f.grp ax).ids.Nodup) (x : Id) (hx : x ∈ req) (hxs : x ∉ (f.grp ax).ids) :
    h5SubsetNoMd f req ax = .error .value := by
  have hpl := posFrom_length 0 (f.grp ax).ids (idMask (f.grp ax).ids req) (by simp [idMask])
  have hlt := kept_length_lt_of_unknown (f.grp ax).ids req.eraseDups hnd x
    (List.mem_eraseDups.mpr hx) hxs
  have hcongr : (f.grp ax).ids.filter (fun i => req.eraseDups.contains i) =
      (f.grp ax).ids.filter (fun i => req.contains i) := by
    apply List.filter_congr
    intro y _
    by_cases hy : y ∈ req
    · rw [List.contains_iff_mem.mpr hy, List.contains_iff_mem.mpr (List.mem_eraseDups.mpr hy)]
    · have h1 : req.contains y = false := by
        rw [Bool.eq_false_iff]; exact fun h => hy (List.contains_iff_mem.mp h)
      have h2 : req.eraseDups.contains y = false := by
        rw [Bool.eq_false_iff]; exact fun h => hy (List.mem_eraseDups.mp (List.contains_iff_mem.mp h))
      rw [h1, h2]
  rw [hcongr] at hlt
  have hbne : ((posFrom 0 (idMask (f.grp ax).ids req)).length != req.eraseDups.length) = true := by
    rw [hpl, idMask, filterMask_map_pred]
    simp only [bne_iff_ne, ne_eq]; omega
  simp only [h5SubsetNoMd, hbne, ↓reduceIte]


/-! ## JSON -/

/-- a document as the library writes it: `shape` = the record counts, every triple inside the shape -/
structure Doc.WF (d : Doc α) : Prop where
  shapeRows : d.shape.1 = d.rows.length
  shapeCols : d.shape.2 = d.cols.length
  inRange : ∀ t ∈ d.data, t.r < d.shape.1 ∧ t.c < d.shape.2

/-- `"metadata"` is `null` on every record of the axis, or an object on every record (what
`to_json` writes) -/
def MdUniform (recs : List Rec) : Prop := (∀ r ∈ recs, r.md = none) ∨ (∀ r ∈ recs, r.md ≠ none)

/-- the table `Table.from_json` builds from a well-formed document -/
def docTable [Zero α] [Add α] (d : Doc α) : Table α :=
  { obs := d.rows.map (·.id), samp := d.cols.map (·.id),
    rows := (List.range d.shape.1).map (fun i => (List.range d.shape.2).map (cellOf d.data i)),
    omd := castMd d.rows, smd := castMd d.cols, ttype := d.ttype }

theorem docToTable_ok [Zero α] [Add α] (d : Doc α) (h : Doc.WF d) : docToTable d = .ok (docTable d) := by
  have h1 : d.data.any (fun t => decide (d.shape.1 ≤ t.r) || decide (d.shape.2 ≤ t.c)) = false := by
    rw [List.any_eq_false]
    intro t ht
    have := h.inRange t ht
    simp only [Bool.or_eq_true, decide_eq_true_eq, not_or, Nat.not_le]
    exact this
  have h2 : (d.shape.1 != d.rows.length || d.shape.2 != d.cols.length) = false := by
    simp [h.shapeRows, h.shapeCols]
  simp only [docToTable, h1, h2, Bool.false_eq_true, ↓reduceIte, docTable]

/-- **`parse_table(ids=…)` on JSON = load everything, filter, drop emptied other-axis vectors.** -/
theorem json_subset_eq [Zero α] [Add α] [DecidableEq α] (d : Doc α) (req : List Id) (ax : Axis)
    (h : Doc.WF d) :
    jsonSubset d req ax = .ok (dropEmptyOther (filterAxis (docTable d) req ax) ax) := by
  simp only [jsonSubset, docToTable_ok d h, dropEmptyOther]

theorem castMd_filterMask (recs : List Rec) (mask : List Bool) (hu : MdUniform recs)
    (hne : filterMask recs mask ≠ []) :
    castMd (filterMask recs mask) = (castMd recs).map (fun m => filterMask m mask) := by
  rcases hu with hn | hs
  · have h1 : recs.all (fun r => r.md.isNone) = true := by
      rw [List.all_eq_true]; intro r hr; simp [hn r hr]
    have h2 : (filterMask recs mask).all (fun r => r.md.isNone) = true := by
      rw [List.all_eq_true]; intro r hr; simp [hn r (mem_filterMask hr)]
    simp only [castMd, h1, h2, ↓reduceIte, Option.map_none]
  · obtain ⟨r0, hr0⟩ := List.exists_mem_of_ne_nil _ hne
    have h2 : (filterMask recs mask).all (fun r => r.md.isNone) = false := by
      rw [List.all_eq_false]
      refine ⟨r0, hr0, ?_⟩
      have := hs r0 (mem_filterMask hr0)
      cases hmd : r0.md with
      | none => exact absurd hmd this
      | some _ => simp
    have h1 : recs.all (fun r => r.md.isNone) = false := by
      rw [List.all_eq_false]
      refine ⟨r0, mem_filterMask hr0, ?_⟩
      have := hs r0 (mem_filterMask hr0)
      cases hmd : r0.md with
      | none => exact absurd hmd this
      | some _ => simp
    simp only [castMd, h1, h2, Bool.false_eq_true, ↓reduceIte, Option.map_some, filterMask_map]

theorem filterMask_range' (k : Nat) (m : List Bool) :
    filterMask (List.range' k m.length) m = posFrom k m := by
  have := posFrom_map (fun i => i) k m
  simpa using this.symm

/-- the document the slicer describes, for the kept positions given as a mask -/
def sliceDoc (d : Doc α) (mask : List Bool) (ax : Axis) : Doc α :=
  match ax with
  | .obs => { d with rows := filterMask d.rows mask, data := sliceTriples d.data (posFrom 0 mask) .obs,
                     shape := ((posFrom 0 mask).length, d.shape.2) }
  | .samp => { d with cols := filterMask d.cols mask, data := sliceTriples d.data (posFrom 0 mask) .samp,
                      shape := (d.shape.1, (posFrom 0 mask).length) }

theorem sliceDoc_wf (d : Doc α) (mask : List Bool) (ax : Axis) (hwf : Doc.WF d)
    (hm : mask.length = (d.recs ax).length) : Doc.WF (sliceDoc d mask ax) := by
  cases ax with
  | obs =>
    refine ⟨posFrom_length 0 d.rows mask hm.symm, hwf.shapeCols, ?_⟩
    intro t ht
    simp only [sliceDoc, sliceTriples, sortedSet_posFrom, List.mem_map, List.mem_filter] at ht
    obtain ⟨t0, ⟨ht0, hc⟩, rfl⟩ := ht
    exact ⟨List.idxOf_lt_length_iff.mpr (List.contains_iff_mem.mp hc), (hwf.inRange t0 ht0).2⟩
  | samp =>
    refine ⟨hwf.shapeRows, posFrom_length 0 d.cols mask hm.symm, ?_⟩
    intro t ht
    simp only [sliceDoc, sliceTriples, sortedSet_posFrom, List.mem_map, List.mem_filter] at ht
    obtain ⟨t0, ⟨ht0, hc⟩, rfl⟩ := ht
    exact ⟨(hwf.inRange t0 ht0).1, List.idxOf_lt_length_iff.mpr (List.contains_iff_mem.mp hc)⟩

/-- **Slicing the triples = masking the loaded table** (triple level): keep the triples whose
row/column index is kept, rename the index to its rank, adjust the shape, keep the records at the
kept positions — the document so obtained loads to the full table restricted to those positions. -/
theorem slice_eq [Zero α] [Add α] (d : Doc α) (mask : List Bool) (ax : Axis) (hwf : Doc.WF d)
    (hu : MdUniform (d.recs ax)) (hm : mask.length = (d.recs ax).length)
    (hne : filterMask (d.recs ax) mask ≠ []) :
    docToTable (sliceDoc d mask ax) = .ok (maskTable (docTable d) ax mask) := by
  rw [docToTable_ok _ (sliceDoc_wf d mask ax hwf hm)]
  congr 1
  cases ax with
  | obs =>
    have hm' : mask.length = d.shape.1 := by rw [hwf.shapeRows]; exact hm
    simp only [docTable, sliceDoc, maskTable, sliceTriples, sortedSet_posFrom, filterMask_map,
      castMd_filterMask d.rows mask hu hne]
    congr 1
    rw [show List.range d.shape.1 = List.range' 0 mask.length by rw [hm', List.range_eq_range']]
    rw [filterMask_range']
    apply range_map_getElem
    intro k hk
    apply List.map_congr_left
    intro j _
    unfold cellOf
    rw [slice_obs_values d.data (posFrom 0 mask) (posFrom_nodup 0 mask) k j hk]
  | samp =>
    have hm' : mask.length = d.shape.2 := by rw [hwf.shapeCols]; exact hm
    simp only [docTable, sliceDoc, maskTable, sliceTriples, sortedSet_posFrom, filterMask_map,
      castMd_filterMask d.cols mask hu hne]
    congr 1
    rw [List.map_map]
    apply List.map_congr_left
    intro i _
    simp only [Function.comp]
    rw [show List.range d.shape.2 = List.range' 0 mask.length by rw [hm', List.range_eq_range']]
    rw [← posFrom_map]
    apply range_map_getElem
    intro k hk
    unfold cellOf
    rw [slice_samp_values d.data (posFrom 0 mask) (posFrom_nodup 0 mask) i k hk]


theorem getAxisIndices_ok (d : Doc α) (req : List Id) (ax : Axis)
    (hsub : ∀ x ∈ req, x ∈ (d.recs ax).map (·.id)) :
    getAxisIndices d req ax =
      .ok (posFrom 0 (idMask ((d.recs ax).map (·.id)) req),
           filterMask (d.recs ax) (idMask ((d.recs ax).map (·.id)) req)) := by
  have h1 : req.all (fun i => ((d.recs ax).map (·.id)).contains i) = true := by
    rw [List.all_eq_true]; intro x hx; exact List.contains_iff_mem.mpr (hsub x hx)
  simp only [getAxisIndices, h1, Bool.not_true, Bool.false_eq_true, ↓reduceIte]
  rw [recs_at_positions (d.recs ax) _ (by simp [idMask])]

theorem getAxisIndices_refuses (d : Doc α) (req : List Id) (ax : Axis) (x : Id) (hx : x ∈ req)
    (hxs : x ∉ (d.recs ax).map (·.id)) : getAxisIndices d req ax = .error .key := by
  have h1 : req.all (fun i => ((d.recs ax).map (·.id)).contains i) = false := by
    rw [List.all_eq_false]
    exact ⟨x, hx, fun h => hxs (List.contains_iff_mem.mp h)⟩
  simp only [getAxisIndices, h1, Bool.not_false, ↓reduceIte]

/-- **`subset-table` on JSON = load everything and filter** (record/triple level): for a
well-formed document whose metadata is uniformly null or uniformly an object on the subset axis,
and requested IDs all present, the stitched document loads to the full table filtered to the
request (no emptiness filter — the command documents that fully zeroed vectors may remain). -/
theorem cmd_json_eq [Zero α] [Add α] (d : Doc α) (req : List Id) (ax : Axis) (hwf : Doc.WF d)
    (hu : MdUniform (d.recs ax)) (hne : req ≠ []) (hsub : ∀ x ∈ req, x ∈ (d.recs ax).map (·.id)) :
    cmdJson d req ax = .ok (filterAxis (docTable d) req ax) := by
  obtain ⟨mask, hmask⟩ : ∃ m, m = idMask ((d.recs ax).map (·.id)) req := ⟨_, rfl⟩
  have hm : mask.length = (d.recs ax).length := by simp [hmask, idMask]
  -- something is kept
  have hkne : filterMask (d.recs ax) mask ≠ [] := by
    obtain ⟨x, hx⟩ := List.exists_mem_of_ne_nil _ hne
    have hxin := hsub x hx
    intro h
    have h2 : filterMask ((d.recs ax).map (·.id)) mask = [] := by rw [filterMask_map, h]; rfl
    rw [hmask, idMask, filterMask_map_pred] at h2
    have : x ∈ ((d.recs ax).map (·.id)).filter (fun i => req.contains i) :=
      List.mem_filter.mpr ⟨hxin, List.contains_iff_mem.mpr hx⟩
    rw [h2] at this; cases this
  have hpne : (posFrom 0 mask).isEmpty = false := by
    cases hp : posFrom 0 mask with
    | nil =>
      have := posFrom_length 0 (d.recs ax) mask hm.symm
      rw [hp] at this
      exact absurd (List.length_eq_zero_iff.mp this.symm) hkne
    | cons _ _ => rfl
  have hbound : ∀ i ∈ posFrom 0 mask, i < (d.recs ax).length := by
    intro i hi; have := mem_posFrom hi; omega
  have hpos : 0 < (d.recs ax).length := by
    cases hr : d.recs ax with
    | nil => rw [hr] at hkne; exact absurd (filterMask_nil_left _) hkne
    | cons _ _ => simp
  have hmax : listMax (posFrom 0 mask) < (d.recs ax).length := listMax_lt _ _ hpos hbound
  have hs := slice_eq d mask ax hwf hu hm hkne
  subst hmask
  cases ax with
  | obs =>
    have hmax' : ¬ (listMax (posFrom 0 (idMask ((d.recs .obs).map (·.id)) req)) ≥ d.shape.1) := by
      rw [hwf.shapeRows]; simp only [Doc.recs] at hmax ⊢; omega
    simp only [cmdJson, cmdJsonDoc, getAxisIndices_ok d req .obs hsub, directSliceData, hpne,
      Bool.false_eq_true, ↓reduceIte, hmax']
    simp only [sliceDoc, filterAxis, docTable, Table.ids, Doc.recs] at hs ⊢
    exact hs
  | samp =>
    have hmax' : ¬ (listMax (posFrom 0 (idMask ((d.recs .samp).map (·.id)) req)) ≥ d.shape.2) := by
      rw [hwf.shapeCols]; simp only [Doc.recs] at hmax ⊢; omega
    simp only [cmdJson, cmdJsonDoc, getAxisIndices_ok d req .samp hsub, directSliceData, hpne,
      Bool.false_eq_true, ↓reduceIte, hmax']
    simp only [sliceDoc, filterAxis, docTable, Table.ids, Doc.recs] at hs ⊢
    exact hs

/-- the command refuses a request naming an ID that is not in the JSON document (`KeyError`) -/
theorem cmd_json_unknown_refused [Zero α] [Add α] (d : Doc α) (req : List Id) (ax : Axis) (x : Id)
    (hx : x ∈ req) (hxs : x ∉ (d.recs ax).map (·.id)) : cmdJson d req ax = .error .key := by
  simp only [cmdJson, cmdJsonDoc, getAxisIndices_refuses d req ax x hx hxs]


/-! ## The declarative predicate holds of load-all-then-filter, hence of every model -/

/-- the table the property expects for a variant: filter; drop emptied other-axis vectors where
documented; no metadata for the metadata-free variant -/
def subsetSpec [Zero α] [DecidableEq α] (t : Table α) (req : List Id) (ax : Axis) (v : Variant) : Table α :=
  if v.noMd then stripMd (filterAxis t req ax)
  else if v.drops then dropEmptyOther (filterAxis t req ax) ax
  else filterAxis t req ax

structure TableOK (t : Table α) : Prop where
  wf : t.WF
  obsNodup : t.obs.Nodup
  sampNodup : t.samp.Nodup

theorem TableOK.nodup {t : Table α} (h : TableOK t) (ax : Axis) : (t.ids ax).Nodup := by
  cases ax
  · exact h.obsNodup
  · exact h.sampNodup

theorem firstFailing_none (l : List (String × Bool)) (h : ∀ c ∈ l, c.2 = true) : firstFailing l = none := by
  induction l with
  | nil => rfl
  | cons c cs ih =>
    obtain ⟨n, b⟩ := c
    have hb : b = true := h (n, b) List.mem_cons_self
    subst hb
    simp only [firstFailing, ↓reduceIte]
    exact ih (fun c hc => h c (List.mem_cons_of_mem _ hc))

theorem mem_keptIds {t : Table α} {req : List Id} {ax : Axis} {k : Id}
    (h : k ∈ filterMask (t.ids ax) (idMask (t.ids ax) req)) : k ∈ t.ids ax := mem_filterMask h

/-- clauses for the plain filter (no emptiness filter) -/
theorem okClauses_filter [Zero α] [DecidableEq α] (t : Table α) (ok : TableOK t) (req : List Id)
    (ax : Axis) (v : Variant) (hd : v.drops = false) (hm : v.noMd = false) :
    ∀ c ∈ okClauses t req ax v (filterAxis t req ax), c.2 = true := by
  have hida : (filterAxis t req ax).ids ax = keptIds t req ax := by
    unfold filterAxis keptIds; rw [maskTable_ids_same, idMask, filterMask_map_pred]
  have hido : (filterAxis t req ax).ids ax.other = t.ids ax.other := maskTable_ids_other _ _ _
  intro c hc
  simp only [okClauses, hd, hm, Bool.false_eq_true, ↓reduceIte, List.mem_cons, List.not_mem_nil,
    or_false] at hc
  rcases hc with rfl | rfl | rfl | rfl | rfl | rfl | rfl
  · simp [hida]
  · simp [hido]
  · simp only [hida, hido, List.all_eq_true, Bool.and_eq_true, beq_iff_eq]
    intro k hk o ho
    have hk' : k ∈ filterMask (t.ids ax) (idMask (t.ids ax) req) := by
      rw [idMask, filterMask_map_pred]; exact hk
    have e := cellA_maskTable_same t ax (idMask (t.ids ax) req) k o (ok.nodup ax) hk'
    unfold filterAxis
    rw [e]
    exact ⟨cellA_isSome t ok.wf ax k o (mem_filterMask hk') ho, rfl⟩
  · simp only [mdClause, hida, List.all_eq_true, beq_iff_eq]
    intro k hk
    have hk' : k ∈ filterMask (t.ids ax) (idMask (t.ids ax) req) := by
      rw [idMask, filterMask_map_pred]; exact hk
    exact mdOf_maskTable_same t ax _ k (ok.nodup ax) hk'
  · simp only [mdClause, List.all_eq_true, beq_iff_eq]
    intro o _
    exact mdOf_maskTable_other t ax _ o
  · simp [filterAxis, maskTable_ttype]
  · exact wfb_of_WF _ (maskTable_WF t ax _ ok.wf)


/-- clauses for filter followed by the emptiness filter on the other axis -/
theorem okClauses_drop [Zero α] [DecidableEq α] (t : Table α) (ok : TableOK t) (req : List Id)
    (ax : Axis) (v : Variant) (hd : v.drops = true) (hm : v.noMd = false) :
    ∀ c ∈ okClauses t req ax v (dropEmptyOther (filterAxis t req ax) ax), c.2 = true := by
  have hSida : (filterAxis t req ax).ids ax = keptIds t req ax := by
    unfold filterAxis keptIds; rw [maskTable_ids_same, idMask, filterMask_map_pred]
  have hSido : (filterAxis t req ax).ids ax.other = t.ids ax.other := maskTable_ids_other _ _ _
  have hida : (dropEmptyOther (filterAxis t req ax) ax).ids ax = keptIds t req ax := by
    unfold dropEmptyOther dropEmpty
    rw [maskTable_ids_other', hSida]
  have hido := dropEmpty_ids t ok.wf ok.obsNodup ok.sampNodup req ax
  have hSnd : ((filterAxis t req ax).ids ax.other).Nodup := by rw [hSido]; exact ok.nodup ax.other
  -- membership of a surviving other-axis ID in the mask-filtered list of the filtered table
  have hmemo : ∀ o, o ∈ (dropEmptyOther (filterAxis t req ax) ax).ids ax.other →
      o ∈ filterMask ((filterAxis t req ax).ids ax.other)
        ((vecs (filterAxis t req ax) ax.other).map anyNZ) := by
    intro o ho
    unfold dropEmptyOther dropEmpty at ho
    rw [maskTable_ids_same] at ho
    exact ho
  intro c hc
  simp only [okClauses, hd, hm, Bool.false_eq_true, ↓reduceIte, List.mem_cons, List.not_mem_nil,
    or_false] at hc
  rcases hc with rfl | rfl | rfl | rfl | rfl | rfl | rfl
  · simp [hida]
  · simp only [beq_iff_eq]
    unfold dropEmptyOther
    rw [hido]; rfl
  · simp only [hida, List.all_eq_true, Bool.and_eq_true, beq_iff_eq]
    intro k hk o ho
    have hk' : k ∈ filterMask (t.ids ax) (idMask (t.ids ax) req) := by
      rw [idMask, filterMask_map_pred]; exact hk
    have ho' := hmemo o ho
    have e1 := cellA_maskTable_other (filterAxis t req ax) ax
      ((vecs (filterAxis t req ax) ax.other).map anyNZ) k o hSnd ho'
    have e2 := cellA_maskTable_same t ax (idMask (t.ids ax) req) k o (ok.nodup ax) hk'
    have e : cellA (dropEmptyOther (filterAxis t req ax) ax) ax k o = cellA t ax k o := by
      unfold dropEmptyOther dropEmpty
      rw [e1]; unfold filterAxis; exact e2
    rw [e]
    have hoin : o ∈ t.ids ax.other := by rw [← hSido]; exact mem_filterMask ho'
    exact ⟨cellA_isSome t ok.wf ax k o (mem_filterMask hk') hoin, rfl⟩
  · simp only [mdClause, hida, List.all_eq_true, beq_iff_eq]
    intro k hk
    have hk' : k ∈ filterMask (t.ids ax) (idMask (t.ids ax) req) := by
      rw [idMask, filterMask_map_pred]; exact hk
    unfold dropEmptyOther dropEmpty
    rw [mdOf_maskTable_other']
    exact mdOf_maskTable_same t ax _ k (ok.nodup ax) hk'
  · simp only [mdClause, List.all_eq_true, beq_iff_eq]
    intro o ho
    have ho' := hmemo o ho
    unfold dropEmptyOther dropEmpty
    rw [mdOf_maskTable_same (filterAxis t req ax) ax.other _ o hSnd ho']
    exact mdOf_maskTable_other t ax _ o
  · simp [dropEmptyOther, dropEmpty, filterAxis, maskTable_ttype]
  · exact wfb_of_WF _ (maskTable_WF _ _ _ (maskTable_WF t ax _ ok.wf))

/-- clauses for the metadata-free variant -/
theorem okClauses_nomd [Zero α] [DecidableEq α] (t : Table α) (ok : TableOK t) (req : List Id)
    (ax : Axis) (v : Variant) (hd : v.drops = false) (hm : v.noMd = true) :
    ∀ c ∈ okClauses t req ax v (stripMd (filterAxis t req ax)), c.2 = true := by
  have hida : (stripMd (filterAxis t req ax)).ids ax = keptIds t req ax := by
    have : (stripMd (filterAxis t req ax)).ids ax = (filterAxis t req ax).ids ax := by cases ax <;> rfl
    rw [this]; unfold filterAxis keptIds; rw [maskTable_ids_same, idMask, filterMask_map_pred]
  have hido : (stripMd (filterAxis t req ax)).ids ax.other = t.ids ax.other := by
    have : (stripMd (filterAxis t req ax)).ids ax.other = (filterAxis t req ax).ids ax.other := by
      cases ax <;> rfl
    rw [this]; exact maskTable_ids_other _ _ _
  have hcell : ∀ k o, cellA (stripMd (filterAxis t req ax)) ax k o = cellA (filterAxis t req ax) ax k o := by
    intro k o; cases ax <;> rfl
  intro c hc
  simp only [okClauses, hd, hm, Bool.false_eq_true, ↓reduceIte, List.mem_cons, List.not_mem_nil,
    or_false] at hc
  rcases hc with rfl | rfl | rfl | rfl | rfl | rfl | rfl
  · simp [hida]
  · simp [hido]
  · simp only [hida, hido, List.all_eq_true, Bool.and_eq_true, beq_iff_eq]
    intro k hk o ho
    have hk' : k ∈ filterMask (t.ids ax) (idMask (t.ids ax) req) := by
      rw [idMask, filterMask_map_pred]; exact hk
    have e := cellA_maskTable_same t ax (idMask (t.ids ax) req) k o (ok.nodup ax) hk'
    rw [hcell]
    unfold filterAxis
    rw [e]
    exact ⟨cellA_isSome t ok.wf ax k o (mem_filterMask hk') ho, rfl⟩
  · cases ax <;> rfl
  · cases ax <;> rfl
  · rfl
  · have hwf := maskTable_WF t ax (idMask (t.ids ax) req) ok.wf
    apply wfb_of_WF
    obtain ⟨h1, h2, _, _⟩ := hwf
    refine ⟨h1, h2, ?_, ?_⟩
    · intro m hm'; simp [stripMd] at hm'
    · intro m hm'; simp [stripMd] at hm'

/-- **`holds` is true of load-all-then-filter** for every well-formed table with distinct IDs,
every non-empty request of distinct present IDs, both axes, every variant. -/
theorem spec_holds [Zero α] [DecidableEq α] (t : Table α) (ok : TableOK t) (req : List Id) (ax : Axis)
    (v : Variant) (hsub : ∀ x ∈ req, x ∈ t.ids ax) :
    holds t req ax v (.ok (subsetSpec t req ax v)) = true := by
  have h0 : (!req.all fun i => (t.ids ax).contains i) = false := by
    simp only [Bool.not_eq_false', List.all_eq_true]
    intro x hx; exact List.contains_iff_mem.mpr (hsub x hx)
  unfold holds verdict
  rw [h0]
  simp only [Bool.false_eq_true, ↓reduceIte]
  · split
    · rfl
    · simp only [Option.isNone_iff_eq_none]
      apply firstFailing_none
      unfold subsetSpec
      cases hm : v.noMd
      · cases hd : v.drops
        · simp only [Bool.false_eq_true, ↓reduceIte]
          exact okClauses_filter t ok req ax v hd hm
        · simp only [Bool.false_eq_true, ↓reduceIte]
          exact okClauses_drop t ok req ax v hd hm
      · have hd : v.drops = false := by cases v <;> simp_all [Variant.noMd, Variant.drops]
        simp only [↓reduceIte]
        exact okClauses_nomd t ok req ax v hd hm


theorem holds_refused [Zero α] [DecidableEq α] (full : Table α) (req : List Id) (ax : Axis) (v : Variant)
    (e : Err) (x : Id) (hx : x ∈ req) (hxs : x ∉ full.ids ax) :
    holds full req ax v (.error e) = true := by
  have h0 : (!req.all fun i => (full.ids ax).contains i) = true := by
    simp only [Bool.not_eq_eq_eq_not, Bool.not_true, List.all_eq_false]
    exact ⟨x, hx, fun h => hxs (List.contains_iff_mem.mp h)⟩
  unfold holds verdict
  rw [h0]
  simp only [↓reduceIte]
  split <;> rfl

theorem holds_outside [Zero α] [DecidableEq α] (full : Table α) (req : List Id) (ax : Axis) (v : Variant)
    (res : Except Err (Table α)) (hsub : ∀ x ∈ req, x ∈ full.ids ax)
    (hout : req = [] ∨ ¬ req.Nodup) : holds full req ax v res = true := by
  have h0 : (!req.all fun i => (full.ids ax).contains i) = false := by
    simp only [Bool.not_eq_false', List.all_eq_true]
    intro x hx; exact List.contains_iff_mem.mpr (hsub x hx)
  have h1 : (req.isEmpty || !decide req.Nodup) = true := by
    rcases hout with rfl | h
    · rfl
    · simp [h]
  unfold holds verdict
  rw [h0, h1]
  rfl

theorem fromFile_ids [Zero α] (f : H5 α) (ax a : Axis) : (fromFile f ax).ids a = (f.grp a).ids := by
  cases a <;> rfl

theorem fromFile_WF [Zero α] (f : H5 α) (ax : Axis) (h : H5.WF f ax) : (fromFile f ax).WF := by
  have hmd : ∀ (md : Option (List Md)) (ids : List Id),
      (∀ m, md = some m → m.length = ids.length) → ∀ m, orNone md = some m → m.length = ids.length := by
    intro md ids hl m hm
    cases md with
    | none => cases hm
    | some l =>
      cases l with
      | nil => cases hm
      | cons e es => exact hl m hm
  cases ax with
  | obs =>
    refine ⟨?_, ?_, hmd f.obs.md f.obs.ids h.omdLen, hmd f.samp.md f.samp.ids h.smdLen⟩
    · simp [fromFile, mkTable, CS.toDense, csOf, dimOf, h.shapeObs]
    · intro r hr
      have := toDense_row_length (csOf f .obs) r hr
      rw [this]; simp [fromFile, mkTable, csOf, dimOf, Axis.other, h.shapeSamp]
  | samp =>
    refine ⟨?_, ?_, hmd f.obs.md f.obs.ids h.omdLen, hmd f.samp.md f.samp.ids h.smdLen⟩
    · simp [fromFile, mkTable, transposeGrid, csOf, dimOf, Axis.other, h.shapeObs]
    · intro r hr
      simp only [fromFile, mkTable, transposeGrid, List.mem_map, List.mem_range] at hr
      obtain ⟨j, hj, rfl⟩ := hr
      rw [colAt_length _ j (fun r' hr' => by rw [toDense_row_length _ r' hr']; exact hj)]
      simp [CS.toDense, csOf, dimOf, fromFile, mkTable, h.shapeSamp]

/-- the hypotheses under which the file theorems speak: well-formed, distinct IDs on both axes -/
structure H5.OK (f : H5 α) (ax : Axis) : Prop where
  wf : H5.WF f ax
  obsNodup : f.obs.ids.Nodup
  sampNodup : f.samp.ids.Nodup

theorem fromFile_OK [Zero α] (f : H5 α) (ax : Axis) (h : H5.OK f ax) : TableOK (fromFile f ax) :=
  ⟨fromFile_WF f ax h.wf, h.obsNodup, h.sampNodup⟩

/-- **model_holds (HDF5, default path; also `subset-table` on HDF5)**: for EVERY request — known or
unknown IDs, any order, repeated or not — the declarative predicate is true of what the model of
`from_hdf5(ids=…)` returns, the full table being the model's own full read of the same file. -/
theorem model_holds [Zero α] [DecidableEq α] (f : H5 α) (ax : Axis) (h : H5.OK f ax) (req : List Id)
    (v : Variant) (hv : v = .h5 ∨ v = .cmdH5) :
    holds (fromFile f ax) req ax v (h5Subset f req ax) = true := by
  by_cases hsub : ∀ x ∈ req, x ∈ (f.grp ax).ids
  · by_cases hout : req = [] ∨ ¬ req.Nodup
    · exact holds_outside _ _ _ _ _ (by rw [fromFile_ids]; exact hsub) hout
    · have hne : req ≠ [] := fun e => hout (Or.inl e)
      have hnd : req.Nodup := Classical.not_not.mp (fun e => hout (Or.inr e))
      rw [h5subset_eq f req ax h.wf hne hnd hsub]
      have := spec_holds (fromFile f ax) (fromFile_OK f ax h) req ax v (by rw [fromFile_ids]; exact hsub)
      rcases hv with rfl | rfl <;> simpa [subsetSpec, Variant.noMd, Variant.drops] using this
  · have : ∃ x, x ∈ req ∧ x ∉ (f.grp ax).ids := by
      apply Classical.byContradiction
      intro hcon
      apply hsub
      intro x hx
      apply Classical.byContradiction
      intro hxs
      exact hcon ⟨x, hx, hxs⟩
    obtain ⟨x, hx, hxs⟩ := this
    rw [h5subset_unknown_refused f req ax h.wf.nodup x hx hxs]
    exact holds_refused _ _ _ _ _ x hx (by rw [fromFile_ids]; exact hxs)

theorem model_holds_parseH5 [Zero α] [DecidableEq α] (f : H5 α) (ax : Axis) (h : H5.OK f ax)
    (req : List Id) : holds (fromFile f ax) req ax .parseH5 (parseH5 f req ax) = true := by
  by_cases hsub : ∀ x ∈ req, x ∈ (f.grp ax).ids
  · by_cases hout : req = [] ∨ ¬ req.Nodup
    · exact holds_outside _ _ _ _ _ (by rw [fromFile_ids]; exact hsub) hout
    · have hne : req ≠ [] := fun e => hout (Or.inl e)
      have hnd : req.Nodup := Classical.not_not.mp (fun e => hout (Or.inr e))
      rw [parseH5_eq f req ax h.wf hne hnd hsub]
      have := spec_holds (fromFile f ax) (fromFile_OK f ax h) req ax .parseH5
        (by rw [fromFile_ids]; exact hsub)
      simpa [subsetSpec, Variant.noMd, Variant.drops] using this
  · have : ∃ x, x ∈ req ∧ x ∉ (f.grp ax).ids := by
      apply Classical.byContradiction
      intro hcon
      apply hsub
      intro x hx
      apply Classical.byContradiction
      intro hxs
      exact hcon ⟨x, hx, hxs⟩
    obtain ⟨x, hx, hxs⟩ := this
    rw [parseH5_unknown_refused f req ax h.wf.nodup x hx hxs]
    exact holds_refused _ _ _ _ _ x hx (by rw [fromFile_ids]; exact hxs)

theorem model_holds_nomd [Zero α] [DecidableEq α] (f : H5 α) (ax : Axis) (h : H5.OK f ax)
    (req : List Id) : holds (fromFile f ax) req ax .h5nomd (h5SubsetNoMd f req ax) = true := by
  by_cases hsub : ∀ x ∈ req, x ∈ (f.grp ax).ids
  · by_cases hne : req = []
    · exact holds_outside _ _ _ _ _ (by rw [fromFile_ids]; exact hsub) (Or.inl hne)
    · rw [h5nomd_eq f req ax h.wf hne hsub]
      have := spec_holds (fromFile f ax) (fromFile_OK f ax h) req ax .h5nomd
        (by rw [fromFile_ids]; exact hsub)
      simpa [subsetSpec, Variant.noMd] using this
  · have : ∃ x, x ∈ req ∧ x ∉ (f.grp ax).ids := by
      apply Classical.byContradiction
      intro hcon
      apply hsub
      intro x hx
      apply Classical.byContradiction
      intro hxs
      exact hcon ⟨x, hx, hxs⟩
    obtain ⟨x, hx, hxs⟩ := this
    rw [h5nomd_unknown_refused f req ax h.wf.nodup x hx hxs]
    exact holds_refused _ _ _ _ _ x hx (by rw [fromFile_ids]; exact hxs)

/-- the document hypotheses: well-formed, distinct IDs on both axes -/
structure Doc.OK (d : Doc α) : Prop where
  wf : Doc.WF d
  rowsNodup : (d.rows.map (·.id)).Nodup
  colsNodup : (d.cols.map (·.id)).Nodup

theorem castMd_length (recs : List Rec) : ∀ m, castMd recs = some m → m.length = recs.length := by
  intro m hm
  unfold castMd at hm
  split at hm
  · cases hm
  · simp only [Option.some.injEq] at hm; subst hm; simp

theorem docTable_OK [Zero α] [Add α] (d : Doc α) (h : Doc.OK d) : TableOK (docTable d) := by
  refine ⟨⟨?_, ?_, ?_, ?_⟩, h.rowsNodup, h.colsNodup⟩
  · simp [docTable, h.wf.shapeRows]
  · intro r hr
    simp only [docTable, List.mem_map, List.mem_range] at hr
    obtain ⟨i, _, rfl⟩ := hr
    simp [docTable, h.wf.shapeCols]
  · intro m hm; simpa [docTable] using castMd_length d.rows m hm
  · intro m hm; simpa [docTable] using castMd_length d.cols m hm

theorem docTable_ids [Zero α] [Add α] (d : Doc α) (a : Axis) :
    (docTable d).ids a = (d.recs a).map (·.id) := by cases a <;> rfl

/-- **model_holds (`parse_table(ids=…)` on JSON)**: every request; unknown IDs are simply ignored
by this reader, which the property allows. -/
theorem model_holds_json [Zero α] [Add α] [DecidableEq α] (d : Doc α) (ax : Axis) (h : Doc.OK d)
    (req : List Id) : holds (docTable d) req ax .jsonParse (jsonSubset d req ax) = true := by
  rw [json_subset_eq d req ax h.wf]
  by_cases hsub : ∀ x ∈ req, x ∈ (docTable d).ids ax
  · have := spec_holds (docTable d) (docTable_OK d h) req ax .jsonParse hsub
    simpa [subsetSpec, Variant.noMd, Variant.drops] using this
  · have h0 : (!req.all fun i => ((docTable d).ids ax).contains i) = true := by
      simp only [Bool.not_eq_eq_eq_not, Bool.not_true, List.all_eq_false]
      apply Classical.byContradiction
      intro hcon
      apply hsub
      intro x hx
      apply Classical.byContradiction
      intro hxs
      exact hcon ⟨x, hx, fun hc => hxs (List.contains_iff_mem.mp hc)⟩
    unfold holds verdict
    rw [h0]
    rfl

/-- **model_holds (`subset-table` on JSON, record/triple level)** under the writer's metadata layout -/
theorem model_holds_cmdjson [Zero α] [Add α] [DecidableEq α] (d : Doc α) (ax : Axis) (h : Doc.OK d)
    (hu : MdUniform (d.recs ax)) (req : List Id) :
    holds (docTable d) req ax .cmdJson (cmdJson d req ax) = true := by
  by_cases hsub : ∀ x ∈ req, x ∈ (d.recs ax).map (·.id)
  · by_cases hne : req = []
    · exact holds_outside _ _ _ _ _ (by rw [docTable_ids]; exact hsub) (Or.inl hne)
    · rw [cmd_json_eq d req ax h.wf hu hne hsub]
      have := spec_holds (docTable d) (docTable_OK d h) req ax .cmdJson
        (by rw [docTable_ids]; exact hsub)
      simpa [subsetSpec, Variant.noMd, Variant.drops] using this
  · have : ∃ x, x ∈ req ∧ x ∉ (d.recs ax).map (·.id) := by
      apply Classical.byContradiction
      intro hcon
      apply hsub
      intro x hx
      apply Classical.byContradiction
      intro hxs
      exact hcon ⟨x, hx, hxs⟩
    obtain ⟨x, hx, hxs⟩ := this
    rw [cmd_json_unknown_refused d req ax x hx hxs]
    exact holds_refused _ _ _ _ _ x hx (by rw [docTable_ids]; exact hxs)


/-! ## The raw-text slicer at field level: every padding -/

/-- `field` is `core` surrounded by characters `strip_f` removes (brackets, blanks, newlines, tabs),
`core` itself neither beginning (`a`) nor ending (`z`) with such a character -/
def Padded (core field : Text) : Prop :=
  ∃ pre post a mid z rmid, field = pre ++ core ++ post ∧ (∀ c ∈ pre, stripSet.contains c = true) ∧
    (∀ c ∈ post, stripSet.contains c = true) ∧ core = a :: mid ∧ core.reverse = z :: rmid ∧
    stripSet.contains a = false ∧ stripSet.contains z = false

theorem dropWhile_pad (p : Char → Bool) (pre : Text) (a : Char) (rest : Text)
    (hpre : ∀ c ∈ pre, p c = true) (ha : p a = false) :
    (pre ++ a :: rest).dropWhile p = a :: rest := by
  induction pre with
  | nil => simp [ha]
  | cons c cs ih =>
    have hc := hpre c List.mem_cons_self
    simp only [List.cons_append, List.dropWhile_cons, hc, ↓reduceIte]
    exact ih (fun x hx => hpre x (List.mem_cons_of_mem _ hx))

theorem stripF_padded (core field : Text) (h : Padded core field) : stripF field = core := by
  obtain ⟨pre, post, a, mid, z, rmid, rfl, hpre, hpost, hcore, hrev, ha, hz⟩ := h
  unfold stripF
  have h1 : (pre ++ core ++ post).dropWhile (fun c => stripSet.contains c) = core ++ post := by
    rw [hcore, List.append_assoc, List.cons_append]
    exact dropWhile_pad _ pre a (mid ++ post) hpre ha
  rw [h1, List.reverse_append, hrev]
  rw [dropWhile_pad (fun c => stripSet.contains c) post.reverse z rmid
    (fun c hc => hpost c (List.mem_reverse.mp hc)) hz]
  rw [← hrev, List.reverse_reverse]

theorem contains_map_inj (render : Nat → Text) (hinj : ∀ a b, render a = render b → a = b)
    (sk : List Nat) (r : Nat) : (sk.map render).contains (render r) = sk.contains r := by
  induction sk with
  | nil => rfl
  | cons x xs ih =>
    have hx : (render r == render x) = (r == x) := by
      by_cases h : r = x
      · subst h; simp
      · have : ¬ render r = render x := fun e => h (hinj _ _ e)
        have h1 : (render r == render x) = false := beq_eq_false_iff_ne.mpr this
        have h2 : (r == x) = false := beq_eq_false_iff_ne.mpr h
        rw [h1, h2]
    simp only [List.map_cons, List.contains_cons, ih, hx]

theorem idxOf_map_inj (render : Nat → Text) (hinj : ∀ a b, render a = render b → a = b)
    (sk : List Nat) (r : Nat) : (sk.map render).idxOf (render r) = sk.idxOf r := by
  induction sk with
  | nil => rfl
  | cons x xs ih =>
    have hx : (render x == render r) = (x == r) := by
      by_cases h : x = r
      · subst h; simp
      · have : ¬ render x = render r := fun e => h (hinj _ _ e)
        have h1 : (render x == render r) = false := beq_eq_false_iff_ne.mpr this
        have h2 : (x == r) = false := beq_eq_false_iff_ne.mpr h
        rw [h1, h2]
    simp only [List.map_cons, List.idxOf_cons, ih, hx]

/-- a record of the text (three padded fields) stands for the triple `(r, c, value text)` -/
def RecOf (render : Nat → Text) (t : Nat × Nat × Text) (f : Text × Text × Text) : Prop :=
  Padded (render t.1) f.1 ∧ Padded (render t.2.1) f.2.1 ∧ Padded t.2.2 f.2.2

inductive RecsOf (render : Nat → Text) : List (Nat × Nat × Text) → List (Text × Text × Text) → Prop
  | nil : RecsOf render [] []
  | cons {t f ts fs} : RecOf render t f → RecsOf render ts fs → RecsOf render (t :: ts) (f :: fs)

/-- **Field-level slicer, sample axis, EVERY padding** (`_partial`: the two `split`s and
`direct_parse_key` that produce the fields from the raw text are not covered by a theorem — they
are run against the real functions character by character).  `render` is Python's `str(int)`: any
injective rendering.  Whatever brackets, blanks, newlines or tabs surround the three fields of each
record, the slicer keeps exactly the records whose column index is kept and renames that index to
its rank. -/
theorem slice_fields_samp_eq_partial (render : Nat → Text) (hinj : ∀ a b, render a = render b → a = b)
    (triples : List (Nat × Nat × Text)) (recs : List (Text × Text × Text))
    (h : RecsOf render triples recs) (sk : List Nat) :
    sliceFields render recs sk .samp =
        (triples.filter (fun t => sk.contains t.2.1)).map
          (fun t => (render t.1, render (sk.idxOf t.2.1), t.2.2)) := by
  induction h with
  | nil => rfl
  | cons hrec _ ih =>
    obtain ⟨h1, h2, h3⟩ := hrec
    have e1 := stripF_padded _ _ h1
    have e2 := stripF_padded _ _ h2
    have e3 := stripF_padded _ _ h3
    simp only [sliceFields] at ih ⊢
    simp only [List.filter_cons, e2, contains_map_inj render hinj]
    split
    · simp only [List.map_cons, e1, e2, e3, idxOf_map_inj render hinj, ih]
    · exact ih

/-- **Field-level slicer, observation axis** (`_partial`): the same, under the extra guard that no
row field carries padding AFTER the number (the path tests the left-stripped field; Python's `json`
never writes a blank before a comma). -/
theorem slice_fields_obs_eq_partial (render : Nat → Text) (hinj : ∀ a b, render a = render b → a = b)
    (triples : List (Nat × Nat × Text)) (recs : List (Text × Text × Text))
    (h : RecsOf render triples recs) (hnotrail : ∀ f ∈ recs, lstripF f.1 = stripF f.1) (sk : List Nat) :
    sliceFields render recs sk .obs =
        (triples.filter (fun t => sk.contains t.1)).map
          (fun t => (render (sk.idxOf t.1), render t.2.1, t.2.2)) := by
  induction h with
  | nil => rfl
  | cons hrec _ ih =>
    obtain ⟨h1, h2, h3⟩ := hrec
    have e1 := stripF_padded _ _ h1
    have e2 := stripF_padded _ _ h2
    have e3 := stripF_padded _ _ h3
    have e0 := hnotrail _ List.mem_cons_self
    have ih' := ih (fun f hf => hnotrail f (List.mem_cons_of_mem _ hf))
    simp only [sliceFields] at ih' ⊢
    simp only [List.filter_cons, e0, e1, contains_map_inj render hinj]
    split
    · simp only [List.map_cons, e1, e2, e3, idxOf_map_inj render hinj, ih']
    · exact ih'

/-- the guard is needed: a blank between the row number and the comma (`[0 ,1,5]`, valid JSON)
makes the observation path drop the record -/
theorem slice_fields_obs_trailing_blank_witness :
    sliceFields (fun n => (List.replicate n 'i')) [(['[', 'i', ' '], ['i'], ['5', ']'])] [1] .obs = [] ∧
    sliceFields (fun n => (List.replicate n 'i')) [(['[', 'i', ' '], ['i'], ['5', ']'])] [1] .samp =
      [(['i'], [], ['5'])] := by
  constructor <;> decide

/-! ## Witnesses: where the raw-text scanner leaves the property's domain (recorded findings) -/

def okIs (r : Except Err Text) (expected : Text) : Bool :=
  match r with
  | .ok t => t == expected
  | .error _ => false

def isIndexError (r : Except Err Text) : Bool :=
  match r with
  | .error .index => true
  | _ => false

def witBracketText : Text := ['"', 'r', 'o', 'w', 's', '"', ':', ' ', '[', '{', '"', 'i', 'd', '"', ':', ' ', '"', 'O', ']', '2', '"', '}', ']', ',', '"', 'c', 'o', 'l', 'u', 'm', 'n', 's', '"', ':', ' ', '[', '{', '"', 'i', 'd', '"', ':', ' ', '"', 'S', '1', '"', '}', ']', '}']
def witBracketWant : Text := ['"', 'r', 'o', 'w', 's', '"', ':', ' ', '[', '{', '"', 'i', 'd', '"', ':', ' ', '"', 'O', ']', '2', '"', '}', ']']
def witQuoteText : Text := ['"', 'r', 'o', 'w', 's', '"', ':', ' ', '[', '{', '"', 'i', 'd', '"', ':', ' ', '"', 'O', '\\', '"', '2', '"', '}', ']', ',', '"', 'c', 'o', 'l', 'u', 'm', 'n', 's', '"', ':', ' ', '[', '{', '"', 'i', 'd', '"', ':', ' ', '"', 'S', '1', '"', '}', ']', '}']
def witQuoteWant : Text := ['"', 'r', 'o', 'w', 's', '"', ':', ' ', '[', '{', '"', 'i', 'd', '"', ':', ' ', '"', 'O', '\\', '"', '2', '"', '}', ']']
def witHeaderText : Text := ['"', 'g', 'e', 'n', 'e', 'r', 'a', 't', 'e', 'd', '_', 'b', 'y', '"', ':', ' ', '"', 'a', ',', ' ', 'b', '"', ',', '"', 'd', 'a', 't', 'e', '"', ':', ' ', '"', 'd', '"', '}']
def witHeaderGot : Text := ['"', 'g', 'e', 'n', 'e', 'r', 'a', 't', 'e', 'd', '_', 'b', 'y', '"', ':', ' ', '"', 'a']
def witMdKeyText : Text := ['"', 'r', 'o', 'w', 's', '"', ':', ' ', '[', '{', '"', 'i', 'd', '"', ':', ' ', '"', 'O', '1', '"', ',', ' ', '"', 'm', 'e', 't', 'a', 'd', 'a', 't', 'a', '"', ':', ' ', '{', '"', 'c', 'o', 'l', 'u', 'm', 'n', 's', '"', ':', ' ', '"', 'a', '"', '}', '}', ']', ',', '"', 'c', 'o', 'l', 'u', 'm', 'n', 's', '"', ':', ' ', '[', '{', '"', 'i', 'd', '"', ':', ' ', '"', 'S', '1', '"', ',', ' ', '"', 'm', 'e', 't', 'a', 'd', 'a', 't', 'a', '"', ':', ' ', 'n', 'u', 'l', 'l', '}', ']', '}']
def witMdKeyGot : Text := ['"', 'c', 'o', 'l', 'u', 'm', 'n', 's', '"', ':', ' ', '"', 'a', '"']
def goodText : Text := ['{', '"', 'i', 'd', '"', ':', ' ', '"', 'N', 'o', 'n', 'e', '"', ',', '"', 't', 'y', 'p', 'e', '"', ':', ' ', 'n', 'u', 'l', 'l', ',', '"', 's', 'h', 'a', 'p', 'e', '"', ':', ' ', '[', '2', ',', ' ', '3', ']', ',', '"', 'd', 'a', 't', 'a', '"', ':', ' ', '[', '[', '0', ',', '0', ',', '1', '.', '0', ']', ',', '[', '0', ',', '1', ',', '2', '.', '0', ']', ',', '[', '1', ',', '1', ',', '3', '.', '0', ']', ',', '[', '1', ',', '2', ',', '4', '.', '0', ']', ']', ',', '"', 'r', 'o', 'w', 's', '"', ':', ' ', '[', '{', '"', 'i', 'd', '"', ':', ' ', '"', 'O', '1', '"', '}', ']', '}']

/-- F-C14-1: `direct_parse_key` is not string-aware — with the row ID `O]2` the bracket inside the
string closes the array early and the scan runs on past the value into `columns`;
with the row ID `O"2` the escaped quote toggles the string state. Neither returns the `rows` value. -/
theorem parse_key_bracket_in_string_witness :
    okIs (directParseKey witBracketText ['r', 'o', 'w', 's']) witBracketWant = false ∧
    okIs (directParseKey witQuoteText ['r', 'o', 'w', 's']) witQuoteWant = false := by
  constructor <;> decide

/-- F-C14-3: a header string is copied by the "number" branch (scan until `,` `{` `}`):
`"generated_by": "a, b"` is cut at the comma inside the string. -/
theorem parse_key_header_comma_witness :
    okIs (directParseKey witHeaderText ['g','e','n','e','r','a','t','e','d','_','b','y']) witHeaderGot = true := by
  decide

/-- F-C14-2: the search for `"columns":` finds an observation-metadata category of that name
inside `rows` before the top-level key. -/
theorem parse_key_mdkey_columns_witness :
    okIs (directParseKey witMdKeyText ['c','o','l','u','m','n','s']) witMdKeyGot = true := by
  decide

/-- on text without such strings the scanner returns the values (a character-level example) -/
example : okIs (directParseKey goodText ['s','h','a','p','e']) ['"', 's', 'h', 'a', 'p', 'e', '"', ':', ' ', '[', '2', ',', ' ', '3', ']'] = true := by decide
example : okIs (directParseKey goodText ['t','y','p','e']) ['"', 't', 'y', 'p', 'e', '"', ':', ' ', 'n', 'u', 'l', 'l', ',', '"', 's', 'h', 'a', 'p', 'e', '"', ':', ' ', '[', '2'] = true := by decide
example : okIs (directParseKey goodText ['a','b','s','e','n','t']) [] = true := by decide


/-! ## Non-vacuity: the hypotheses are met by concrete non-trivial inputs -/

deriving instance DecidableEq for Except

/-- a 2×3 file: O1 = [1,2,0], O2 = [0,3,4]; observation metadata; both matrix groups -/
def exF : H5 Int :=
  { obs := { ids := ["O1", "O2"], md := some [[("k", "\"a\"")], [("k", "\"b\"")]],
             indptr := [0, 2, 4], indices := [0, 1, 1, 2], data := [1, 2, 3, 4] },
    samp := { ids := ["S1", "S2", "S3"], md := none,
              indptr := [0, 1, 3, 4], indices := [0, 0, 1, 1], data := [1, 2, 3, 4] },
    shape := (2, 3), ttype := some "OTU table" }

theorem exF_ok_samp : H5.OK exF .samp :=
  ⟨⟨rfl, rfl, by constructor <;> decide, by decide,
    fun m h => by cases h; rfl, fun m h => by cases h⟩, by decide, by decide⟩

theorem exF_ok_obs : H5.OK exF .obs :=
  ⟨⟨rfl, rfl, by constructor <;> decide, by decide,
    fun m h => by cases h; rfl, fun m h => by cases h⟩, by decide, by decide⟩

/-- requested in reverse order: file order comes back; nothing becomes empty -/
example : h5Subset exF ["S3", "S1"] .samp =
    .ok { obs := ["O1", "O2"], samp := ["S1", "S3"], rows := [[1, 0], [0, 4]],
          omd := some [[("k", "\"a\"")], [("k", "\"b\"")]], smd := none, ttype := some "OTU table" } := by
  rw [h5subset_eq exF _ _ exF_ok_samp.wf (by decide) (by decide) (by decide)]; decide

/-- keeping S1 empties O2, which the default path drops and the metadata-free variant keeps -/
example : h5Subset exF ["S1"] .samp =
    .ok { obs := ["O1"], samp := ["S1"], rows := [[1]],
          omd := some [[("k", "\"a\"")]], smd := none, ttype := some "OTU table" } := by
  rw [h5subset_eq exF _ _ exF_ok_samp.wf (by decide) (by decide) (by decide)]; decide

example : h5SubsetNoMd exF ["S1"] .samp =
    .ok { obs := ["O1", "O2"], samp := ["S1"], rows := [[1], [0]], omd := none, smd := none,
          ttype := none } := by decide

example : h5Subset exF ["O2"] .obs =
    .ok { obs := ["O2"], samp := ["S2", "S3"], rows := [[3, 4]],
          omd := some [[("k", "\"b\"")]], smd := none, ttype := some "OTU table" } := by
  rw [h5subset_eq exF _ _ exF_ok_obs.wf (by decide) (by decide) (by decide)]; decide

example : h5Subset exF ["S1", "nope"] .samp = .error .value :=
  h5subset_unknown_refused exF _ .samp (by decide) "nope" (by decide) (by decide)
example : h5Subset exF ["S1", "S1"] .samp = .error .value :=
  h5subset_repeated_refused exF _ .samp (by decide) (by decide)
example : h5SubsetNoMd exF ["S1", "nope"] .samp = .error .value := by decide

/-- the two matrix groups of the example describe the same table -/
example : fromFile exF .samp = fromFile exF .obs := by decide

/-- the theorems apply to the example -/
example : holds (fromFile exF .samp) ["S3", "S1"] .samp .h5 (h5Subset exF ["S3", "S1"] .samp) = true :=
  model_holds exF .samp exF_ok_samp _ .h5 (Or.inl rfl)

/-- `holds` is not trivially true: it rejects the unfiltered table, a result in request order, and
a result whose emptied observation was not dropped -/
example : holds (fromFile exF .samp) ["S3", "S1"] .samp .h5 (.ok (fromFile exF .samp)) = false := by decide
example : holds (fromFile exF .samp) ["S3", "S1"] .samp .h5
    (.ok { obs := ["O1", "O2"], samp := ["S3", "S1"], rows := [[0, 1], [4, 0]],
           omd := some [[("k", "\"a\"")], [("k", "\"b\"")]], smd := none, ttype := some "OTU table" }) = false := by
  decide
example : holds (fromFile exF .samp) ["S1"] .samp .h5
    (.ok { obs := ["O1", "O2"], samp := ["S1"], rows := [[1], [0]],
           omd := some [[("k", "\"a\"")], [("k", "\"b\"")]], smd := none, ttype := some "OTU table" }) = false := by
  decide
example : holds (fromFile exF .samp) ["S1", "nope"] .samp .h5 (.ok (fromFile exF .samp)) = false := by decide

/-- the same table as a JSON document -/
def exD : Doc Int :=
  { rows := [⟨"O1", some [("k", "\"a\"")]⟩, ⟨"O2", some [("k", "\"b\"")]⟩],
    cols := [⟨"S1", none⟩, ⟨"S2", none⟩, ⟨"S3", none⟩], shape := (2, 3),
    data := [⟨0, 0, 1⟩, ⟨0, 1, 2⟩, ⟨1, 1, 3⟩, ⟨1, 2, 4⟩], ttype := some "OTU table" }

theorem exD_ok : Doc.OK exD := ⟨⟨rfl, rfl, by decide⟩, by decide, by decide⟩

example : MdUniform (exD.recs .samp) := Or.inl (by decide)
example : MdUniform (exD.recs .obs) := Or.inr (by decide)

example : cmdJson exD ["S3", "S1"] .samp =
    .ok { obs := ["O1", "O2"], samp := ["S1", "S3"], rows := [[1, 0], [0, 4]],
          omd := some [[("k", "\"a\"")], [("k", "\"b\"")]], smd := none, ttype := some "OTU table" } := by
  rw [cmd_json_eq exD _ .samp exD_ok.wf (Or.inl (by decide)) (by decide) (by decide)]; decide

/-- the command keeps the emptied observation (documented), `parse_table(ids=…)` drops it -/
example : cmdJson exD ["S1"] .samp =
    .ok { obs := ["O1", "O2"], samp := ["S1"], rows := [[1], [0]],
          omd := some [[("k", "\"a\"")], [("k", "\"b\"")]], smd := none, ttype := some "OTU table" } := by
  rw [cmd_json_eq exD _ .samp exD_ok.wf (Or.inl (by decide)) (by decide) (by decide)]; decide

example : jsonSubset exD ["S1"] .samp =
    .ok { obs := ["O1"], samp := ["S1"], rows := [[1]],
          omd := some [[("k", "\"a\"")]], smd := none, ttype := some "OTU table" } := by decide

example : cmdJson exD ["S1", "nope"] .samp = .error .key := by decide

end Biom.C14
