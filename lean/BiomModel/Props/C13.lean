/-
  C13 — property theorems.  Every statement is for EVERY user function `f` (all of `VFun α`), every
  table (any shape, any distinct IDs, any metadata), both axes, in place or not, and every matrix
  the kernel may be handed for it (`Pre`: any well-formed compressed layout with the table's dense
  content along the axis — any order of the entries inside a vector — that stores no zero, which is
  what every table reachable through the API has since the constructor and `subsample` eliminate
  them).  `stored_zero_witness` shows the last hypothesis cannot be dropped below the API.
-/
import BiomModel.Lemmas.C13
import Mathlib.Tactic.Ring
import Mathlib.Tactic.Linarith
import Mathlib.Algebra.Order.Field.Rat

namespace Biom.C13
variable {α : Type}

/-! ### kernel level: what the function is applied to, and where its values land -/

/-- `transform_args`: the kernel calls the function once per major vector, in order, on exactly the
stored values of that vector in storage order, with the vector's ID and metadata entry. -/
theorem transform_args (f : VFun α) (ids : List Id) (mds : Option (List Md)) (cs cs' : CS α)
    (log : List (Call α)) (hwf : cs.WF) (hids : cs.nMajor ≤ ids.length)
    (hmd : ∀ m, mds = some m → cs.nMajor ≤ m.length)
    (h : transformKernel f ids mds cs = .ok (cs', log)) :
    log = (List.range cs.nMajor).map (fun j =>
      ⟨ids.getD j "", mdIdx mds j, valSeg cs j, f (valSeg cs j) (ids.getD j "") (mdIdx mds j)⟩) :=
  (transformKernel_spec f ids mds cs cs' log hwf hids hmd h).2.2.1

section generic
variable [Zero α] [DecidableEq α]

/-- under `NoStoredZeros` the values handed over are exactly the non-zero values of the vector -/
theorem transform_args_nonzero (cs : CS α) (hwf : cs.WF) (hnz : cs.NoStoredZeros) (j : Nat) (hj : j < cs.nMajor) :
    (valSeg cs j).Perm (nz (cs.toDense.getD j [])) := by
  have : cs.toDense.getD j [] = dv cs.nMinor (idxSeg cs j) (valSeg cs j) := by
    rw [toDense_eq]; simp [hj]
  rw [this]
  exact vec_args cs.nMinor (idxSeg cs j) (valSeg cs j) (idxSeg_nodup cs hwf j hj) (idxSeg_inRange cs hwf j)
    (idxSeg_length cs hwf j hj) (fun x hx => hnz x (valSeg_mem cs j x hx))

omit [Zero α] [DecidableEq α] in
/-- `transform_writes_back`: shape, row pointer and minor indices are untouched, and the value slice
of vector `j` holds numpy's assignment of what the function returned for it — every returned
value sits at the minor index its argument came from. -/
theorem transform_writes_back (f : VFun α) (ids : List Id) (mds : Option (List Md)) (cs cs' : CS α)
    (log : List (Call α)) (hwf : cs.WF) (hids : cs.nMajor ≤ ids.length)
    (hmd : ∀ m, mds = some m → cs.nMajor ≤ m.length)
    (h : transformKernel f ids mds cs = .ok (cs', log)) :
    cs'.nMajor = cs.nMajor ∧ cs'.nMinor = cs.nMinor ∧ cs'.indptr = cs.indptr ∧ cs'.indices = cs.indices ∧
    ∀ j, j < cs.nMajor →
      (cs'.slice j).map (·.1) = (cs.slice j).map (·.1) ∧
      assign (valSeg cs j) (f (valSeg cs j) (ids.getD j "") (mdIdx mds j)) = .ok ((cs'.slice j).map (·.2)) := by
  obtain ⟨hcs, _, _, hw⟩ := transformKernel_spec f ids mds cs cs' log hwf hids hmd h
  have hptr : cs'.indptr = cs.indptr := by rw [hcs]
  have hind : cs'.indices = cs.indices := by rw [hcs]
  refine ⟨by rw [hcs], by rw [hcs], hptr, hind, ?_⟩
  intro j hj
  have hl := assign_length (hw j hj)
  have hil := idxSeg_length cs hwf j hj
  have e' : cs'.slice j = (idxSeg cs j).zip (valSeg cs' j) := by
    rw [slice_eq]; simp only [idxSeg, valSeg, hptr, hind]
  have e : cs.slice j = (idxSeg cs j).zip (valSeg cs j) := rfl
  rw [e', e, map_fst_zip _ _ (by omega), map_fst_zip _ _ (by omega), map_snd_zip _ _ (by omega)]
  exact ⟨rfl, hw j hj⟩

omit [Zero α] [DecidableEq α] in
/-- a function that returns as many values as it gets never makes the kernel fail -/
theorem transform_total (f : VFun α) (ids : List Id) (mds : Option (List Md)) (cs : CS α) (hwf : cs.WF)
    (hids : cs.nMajor ≤ ids.length) (hmd : ∀ m, mds = some m → cs.nMajor ≤ m.length) (hf : LenPres f) :
    ∃ cs' log, transformKernel f ids mds cs = .ok (cs', log) :=
  transformKernel_total f ids mds cs hwf hids hmd (fun _ _ => ⟨_, assign_same_length (hf _ _ _)⟩)

/-- cells without a stored entry are zero after kernel + `eliminate_zeros`, whatever `f` does
(no hypothesis on stored zeros) -/
theorem transform_support_unstored (f : VFun α) (ids : List Id) (mds : Option (List Md)) (cs cs' : CS α)
    (log : List (Call α)) (hwf : cs.WF) (hids : cs.nMajor ≤ ids.length)
    (hmd : ∀ m, mds = some m → cs.nMajor ≤ m.length)
    (h : transformKernel f ids mds cs = .ok (cs', log)) (j k : Nat) (hj : j < cs.nMajor)
    (hk : k ∉ (cs.slice j).map (·.1)) :
    CS.entryAt ((eliminateZeros cs').slice j) k = 0 := by
  obtain ⟨hM, _, _, _, hsl⟩ := transform_writes_back f ids mds cs cs' log hwf hids hmd h
  have hj' : j < ((List.range cs'.nMajor).map
      (fun i => (cs'.slice i).filter (fun e => decide (e.2 ≠ 0)))).length := by simp [hM, hj]
  unfold eliminateZeros
  rw [slice_ofEntries _ _ _ j hj', entryAt_eq_lookD]
  apply lookD_not_mem
  intro hmem
  apply hk
  rw [← (hsl j hj).1]
  have hget : ((List.range cs'.nMajor).map
      (fun i => (cs'.slice i).filter (fun e => decide (e.2 ≠ 0)))).getD j [] =
      (cs'.slice j).filter (fun e => decide (e.2 ≠ 0)) := by simp [hM, hj]
  rw [hget] at hmem
  obtain ⟨e, he, rfl⟩ := List.mem_map.mp hmem
  exact List.mem_map_of_mem (List.mem_filter.mp he).1

end generic

theorem map_getD_range_take (xs : List Id) (n : Nat) (h : n ≤ xs.length) :
    (List.range n).map (fun i => xs.getD i "") = xs.take n := by
  apply List.ext_getElem?
  intro k
  by_cases hk : k < n
  · have : k < xs.length := by omega
    simp [hk, this]
  · simp [hk]

/-- the kernel-level predicate holds of the model, for every function and every well-formed
matrix (stored zeros and any entry order allowed) -/
theorem kernel_holds [Zero α] [DecidableEq α] (f : VFun α) (ids : List Id) (mds : Option (List Md))
    (cs cs' : CS α) (log : List (Call α)) (hwf : cs.WF) (hids : cs.nMajor ≤ ids.length)
    (hmd : ∀ m, mds = some m → cs.nMajor ≤ m.length)
    (h : transformKernel f ids mds cs = .ok (cs', log)) :
    holdsK ids mds cs ⟨log, cs'.data, eliminateZeros cs'⟩ = true := by
  obtain ⟨hcs, hlen, hlog, hw⟩ := transformKernel_spec f ids mds cs cs' log hwf hids hmd h
  have hptr : cs'.indptr = cs.indptr := by rw [hcs]
  have hind : cs'.indices = cs.indices := by rw [hcs]
  have hnM : cs'.nMajor = cs.nMajor := by rw [hcs]
  have hwf' : cs'.WF := by
    refine ⟨by rw [hptr, hnM]; exact hwf.ptrLen, by rw [hptr]; exact hwf.ptrZero,
      by rw [hptr, hnM]; exact hwf.ptrMono, by rw [hptr, hnM, hlen]; exact hwf.ptrLast,
      by rw [hind, hlen]; exact hwf.sameLen, by rw [hind, hcs]; exact hwf.inRange, ?_⟩
    intro j hj
    rw [hnM] at hj
    have hl := assign_length (hw j hj)
    have hil := idxSeg_length cs hwf j hj
    have e' : cs'.slice j = (idxSeg cs j).zip (valSeg cs' j) := by
      rw [slice_eq]; simp only [idxSeg, valSeg, hptr, hind]
    rw [e', map_fst_zip _ _ (by omega)]
    exact idxSeg_nodup cs hwf j hj
  subst hlog
  unfold holdsK
  simp only [Bool.and_eq_true, beq_iff_eq, decide_eq_true_eq]
  refine ⟨⟨⟨⟨⟨⟨⟨⟨?_, ?_⟩, ?_⟩, ?_⟩, hlen⟩, ?_⟩, ?_⟩, storedZeros_eliminateZeros cs'⟩,
    wfb_of_wf _ (eliminateZeros_wf cs' hwf')⟩
  · rw [List.map_map]
    exact map_getD_range_take ids cs.nMajor hids
  · rw [List.map_map]; rfl
  · rw [List.map_map]; rfl
  · simp
  · rw [List.all_eq_true]
    intro ci hci
    obtain ⟨c, i⟩ := ci
    have hmem := List.mem_zipIdx hci
    simp only [Nat.zero_add, Nat.sub_zero] at hmem
    obtain ⟨_, hi, hc⟩ := hmem
    have hi' : i < cs.nMajor := by simpa using hi
    simp only [List.getElem_map, List.getElem_range] at hc
    subst hc
    have := hw i hi'
    simp only [callAt]
    rw [show segOf cs.indptr cs.data i = valSeg cs i from rfl, this]
    exact decide_eq_true (by rw [← hptr]; rfl)
  · rw [eliminateZeros_toDense cs' hwf'.distinct]
    rw [hcs]

/-- the matrix installed by `transform` is again within the contract (well-formed, no stored
zero, same shape): the theorems apply to any sequence of transforms -/
theorem transform_closure [Zero α] [DecidableEq α] (f : VFun α) (ids : List Id) (mds : Option (List Md))
    (cs cs' : CS α) (log : List (Call α)) (hwf : cs.WF) (hids : cs.nMajor ≤ ids.length)
    (hmd : ∀ m, mds = some m → cs.nMajor ≤ m.length)
    (h : transformKernel f ids mds cs = .ok (cs', log)) :
    (eliminateZeros cs').wfb = true ∧ (eliminateZeros cs').NoStoredZeros ∧
    (eliminateZeros cs').nMajor = cs.nMajor ∧ (eliminateZeros cs').nMinor = cs.nMinor := by
  have hk := kernel_holds f ids mds cs cs' log hwf hids hmd h
  unfold holdsK at hk
  simp only [Bool.and_eq_true] at hk
  obtain ⟨hcs, _, _, _⟩ := transformKernel_spec f ids mds cs cs' log hwf hids hmd h
  refine ⟨hk.2, eliminateZeros_noStoredZeros cs', ?_, ?_⟩
  · show cs'.nMajor = cs.nMajor
    rw [hcs]
  · show cs'.nMinor = cs.nMinor
    rw [hcs]

section generic
variable [Zero α] [DecidableEq α]

/-! ### table level: the predicate holds of the model, for every function -/

theorem cFrame_run (t : Table α) (ax : Axis) (cs : CS α) (hp : Pre t ax cs) (f : VFun α) :
    cFrame t (setMajorGrid t ax (newGrid f t ax cs)) = true := by
  obtain ⟨h1, h2, h3, h4, h5⟩ := setMajorGrid_frame t ax (newGrid f t ax cs)
  have hw := setMajorGrid_wfb t hp.twf ax (newGrid f t ax cs) (by rw [newGrid_length, hp.nMajor])
    (by
      intro r hr
      simp only [newGrid, List.mem_map] at hr
      obtain ⟨k, _, rfl⟩ := hr
      rw [dv_length, hp.nMinor])
  simp [cFrame, h1, h2, h3, h4, h5, hw]

theorem cLogIds_run (t : Table α) (ax : Axis) (cs : CS α) (hp : Pre t ax cs) (f : VFun α) :
    cLogIds t ax ((List.range cs.nMajor).map (callAt f cs.indptr (t.ids ax) (t.md ax) cs.data)) = true := by
  unfold cLogIds
  rw [Bool.and_eq_true]
  constructor
  · rw [decide_eq_true_eq, List.map_map, hp.nMajor]
    exact map_getD_range (t.ids ax) ""
  · rw [List.all_eq_true]
    intro c hc
    obtain ⟨j, hj, rfl⟩ := List.mem_map.mp hc
    have hj' : j < (t.ids ax).length := by rw [← hp.nMajor]; exact List.mem_range.mp hj
    simp only [callAt]
    exact decide_eq_true (mdOf?_getD t ax hp.nodup j hj').symm

theorem cLogArgs_run (t : Table α) (ax : Axis) (cs : CS α) (hp : Pre t ax cs) (f : VFun α) :
    cLogArgs t ax ((List.range cs.nMajor).map (callAt f cs.indptr (t.ids ax) (t.md ax) cs.data)) = true := by
  unfold cLogArgs
  rw [List.all_eq_true]
  intro c hc
  obtain ⟨j, hj, rfl⟩ := List.mem_map.mp hc
  have hj' := List.mem_range.mp hj
  simp only [callAt]
  rw [vec_old hp j hj']
  apply decide_eq_true
  exact vec_args cs.nMinor (idxSeg cs j) (valSeg cs j) (idxSeg_nodup cs hp.cswf j hj')
    (idxSeg_inRange cs hp.cswf j) (idxSeg_length cs hp.cswf j hj') (seg_nonzero hp j)

theorem cWriteBack_run (t : Table α) (ax : Axis) (cs : CS α) (hp : Pre t ax cs) (f : VFun α) (hf : LenPres f) :
    cWriteBack t ax ((List.range cs.nMajor).map (callAt f cs.indptr (t.ids ax) (t.md ax) cs.data))
      (setMajorGrid t ax (newGrid f t ax cs)) = true := by
  unfold cWriteBack
  rw [List.all_eq_true]
  intro c hc
  obtain ⟨j, hj, rfl⟩ := List.mem_map.mp hc
  have hj' := List.mem_range.mp hj
  simp only [callAt]
  rw [vec_old hp j hj', vec_new hp f j hj']
  simp only [Bool.and_eq_true, beq_iff_eq]
  refine ⟨⟨hf _ _ _, by rw [dv_length, dv_length]⟩, ?_⟩
  apply decide_eq_true
  exact vec_pairs cs.nMinor (idxSeg cs j) (valSeg cs j) (retOf f t ax cs j) (idxSeg_nodup cs hp.cswf j hj')
    (idxSeg_inRange cs hp.cswf j) (idxSeg_length cs hp.cswf j hj')
    (by rw [retOf, hf]; exact idxSeg_length cs hp.cswf j hj') (seg_nonzero hp j)

theorem cZeros_run (t : Table α) (ax : Axis) (cs : CS α) (hp : Pre t ax cs) (f : VFun α) (hf : LenPres f) :
    cZeros t ax (setMajorGrid t ax (newGrid f t ax cs)) = true := by
  unfold cZeros
  rw [List.all_eq_true]
  intro id hid
  obtain ⟨j, hj, rfl⟩ := mem_ids hp id hid
  rw [vec_old hp j hj, vec_new hp f j hj]
  have hz := vec_zeros cs.nMinor (idxSeg cs j) (valSeg cs j) (retOf f t ax cs j) (idxSeg_nodup cs hp.cswf j hj)
    (idxSeg_length cs hp.cswf j hj) (by rw [retOf, hf]; exact idxSeg_length cs hp.cswf j hj) (seg_nonzero hp j)
  simp only [Bool.and_eq_true, beq_iff_eq, decide_eq_true_eq, List.all_eq_true, Bool.or_eq_true]
  refine ⟨⟨by rw [dv_length, dv_length], ?_⟩, ?_⟩
  · intro p hp'
    by_cases h0 : p.1 = 0
    · exact Or.inr (hz p hp' h0)
    · exact Or.inl h0
  · exact nz_length_le _ _ (by rw [dv_length, dv_length]) hz

/-- **model_holds**: for every table, axis, in-place flag, every layout within the contract and
every length-preserving user function, the model run succeeds and the predicate `holds` is true
of what it lets an observer see. -/
theorem model_holds (f : VFun α) (ax : Axis) (inplace : Bool) (t : Table α) (cs : CS α)
    (hp : Pre t ax cs) (hf : LenPres f) :
    ∃ o, transform f ax inplace t cs = .ok o ∧ holds t ax inplace o = true := by
  obtain ⟨o, ho, hlog, hres, hself, hsame, hsz⟩ := transform_run f ax inplace t cs hp hf
  refine ⟨o, ho, ?_⟩
  unfold holds
  rw [hlog, hres, cFrame_run t ax cs hp f, cLogIds_run t ax cs hp f, cLogArgs_run t ax cs hp f,
    cWriteBack_run t ax cs hp f hf, cZeros_run t ax cs hp f hf, hsz]
  simp only [Bool.and_true, Bool.true_and, beq_self_eq_true]
  unfold cInplace
  rw [hsame, hself, hres]
  cases inplace <;> simp

/-! ### in the property's own words -/

/-- `transform_support`: zero cells stay zero, and no vector gains a non-zero cell — for every
function, every vector of the axis, looked up by ID. -/
theorem transform_support (f : VFun α) (ax : Axis) (inplace : Bool) (t : Table α) (cs : CS α)
    (hp : Pre t ax cs) (hf : LenPres f) :
    ∃ o, transform f ax inplace t cs = .ok o ∧ ∀ id ∈ t.ids ax, ∃ v w,
      t.vec? ax id = some v ∧ o.result.vec? ax id = some w ∧ v.length = w.length ∧
      (∀ p ∈ v.zip w, p.1 = 0 → p.2 = 0) ∧ (nz w).length ≤ (nz v).length := by
  obtain ⟨o, ho, _, hres, _⟩ := transform_run f ax inplace t cs hp hf
  refine ⟨o, ho, ?_⟩
  intro id hid
  obtain ⟨j, hj, rfl⟩ := mem_ids hp id hid
  have hz := vec_zeros cs.nMinor (idxSeg cs j) (valSeg cs j) (retOf f t ax cs j) (idxSeg_nodup cs hp.cswf j hj)
    (idxSeg_length cs hp.cswf j hj) (by rw [retOf, hf]; exact idxSeg_length cs hp.cswf j hj) (seg_nonzero hp j)
  refine ⟨_, _, vec_old hp j hj, by rw [hres]; exact vec_new hp f j hj, by rw [dv_length, dv_length], hz, ?_⟩
  exact nz_length_le _ _ (by rw [dv_length, dv_length]) hz

theorem sum_map_le (l : List Nat) (a b : Nat → Nat) (h : ∀ j ∈ l, a j ≤ b j) : (l.map a).sum ≤ (l.map b).sum := by
  induction l with
  | nil => simp
  | cons x xs ih =>
    have := h x List.mem_cons_self
    have := ih (fun j hj => h j (List.mem_cons_of_mem _ hj))
    simp only [List.map_cons, List.sum_cons]; omega

/-- number of non-zero cells of a grid -/
def countNz (g : List (List α)) : Nat := (g.map (fun r => (nz r).length)).sum

/-- the number of non-zero cells never increases (density never increases) -/
theorem transform_density (f : VFun α) (ax : Axis) (t : Table α) (cs : CS α) (hp : Pre t ax cs) (hf : LenPres f) :
    countNz (newGrid f t ax cs) ≤ countNz cs.toDense := by
  unfold countNz
  rw [toDense_eq, newGrid, List.map_map, List.map_map]
  apply sum_map_le
  intro j hj
  have hj' := List.mem_range.mp hj
  have hz := vec_zeros cs.nMinor (idxSeg cs j) (valSeg cs j) (retOf f t ax cs j) (idxSeg_nodup cs hp.cswf j hj')
    (idxSeg_length cs hp.cswf j hj') (by rw [retOf, hf]; exact idxSeg_length cs hp.cswf j hj') (seg_nonzero hp j)
  exact nz_length_le _ _ (by rw [dv_length, dv_length]) hz

/-! ### element-wise functions -/

theorem newGrid_elem (g : α → α) (ax : Axis) (t : Table α) (cs : CS α) (hp : Pre t ax cs) :
    newGrid (elemF g) t ax cs = (majorGrid t ax).map (·.map (zmap g)) := by
  rw [← hp.dense, toDense_eq, newGrid, List.map_map]
  apply List.map_congr_left
  intro j _
  exact vec_elem g cs.nMinor (idxSeg cs j) (valSeg cs j) (seg_nonzero hp j)

omit [Zero α] [DecidableEq α] in
theorem setMajorGrid_map (h : α → α) (ax : Axis) (t : Table α) (ht : t.wfb = true) :
    setMajorGrid t ax ((majorGrid t ax).map (·.map h)) = { t with rows := t.rows.map (·.map h) } := by
  cases ax with
  | obs => rfl
  | samp =>
    obtain ⟨h1, h2, _, _⟩ := wfb_facts t ht
    simp only [setMajorGrid, majorGrid]
    rw [← transposeGrid_map, transposeGrid_involutive t.obs.length t.samp.length _ (by simpa using h1)]
    intro r hr
    obtain ⟨r', hr', rfl⟩ := List.mem_map.mp hr
    rw [List.length_map]; exact h2 r' hr'

omit [Zero α] [DecidableEq α] in
theorem lenPres_elem (g : α → α) : LenPres (elemF g) := fun v _ _ => by simp [elemF]

/-- an element-wise function acts cell by cell on the non-zero cells, along whichever axis -/
theorem elementwise_result (g : α → α) (ax : Axis) (inplace : Bool) (t : Table α) (cs : CS α) (hp : Pre t ax cs) :
    ∃ o, transform (elemF g) ax inplace t cs = .ok o ∧
      o.result = { t with rows := t.rows.map (·.map (zmap g)) } := by
  obtain ⟨o, ho, _, hres, _⟩ := transform_run (elemF g) ax inplace t cs hp (lenPres_elem g)
  exact ⟨o, ho, by rw [hres, newGrid_elem g ax t cs hp, setMajorGrid_map (zmap g) ax t hp.twf]⟩

/-- `elementwise_axis_free`: `f v = v.map g` gives the same table along either axis, whatever the
two layouts (row-compressed for observations, column-compressed for samples) look like. -/
theorem elementwise_axis_free (g : α → α) (i₁ i₂ : Bool) (t : Table α) (csR csC : CS α)
    (hR : Pre t .obs csR) (hC : Pre t .samp csC) :
    ∃ o₁ o₂, transform (elemF g) .obs i₁ t csR = .ok o₁ ∧ transform (elemF g) .samp i₂ t csC = .ok o₂ ∧
      o₁.result = o₂.result ∧ cElem g t o₁.result = true := by
  obtain ⟨o₁, h1, r1⟩ := elementwise_result g .obs i₁ t csR hR
  obtain ⟨o₂, h2, r2⟩ := elementwise_result g .samp i₂ t csC hC
  refine ⟨o₁, o₂, h1, h2, by rw [r1, r2], ?_⟩
  rw [r1]
  exact decide_eq_true rfl

/-- `pa_spec`: presence/absence puts 1 exactly on the non-zero cells (0 elsewhere) -/
theorem pa_spec [One α] (ax : Axis) (inplace : Bool) (t : Table α) (cs : CS α) (hp : Pre t ax cs) :
    ∃ o, transform paF ax inplace t cs = .ok o ∧ cPa t o.result = true ∧
      o.result = { t with rows := t.rows.map (·.map (fun x => if x = 0 then 0 else 1)) } := by
  obtain ⟨o, ho, hr⟩ := elementwise_result (fun x : α => if x = 0 then 0 else 1) ax inplace t cs hp
  have hz : zmap (fun x : α => if x = 0 then 0 else 1) = (fun x => if x = 0 then 0 else 1) := by
    funext x; unfold zmap; by_cases h : x = 0 <;> simp [h]
  rw [hz] at hr
  refine ⟨o, ho, ?_, hr⟩
  rw [hr]
  exact decide_eq_true rfl

/-! ### ranks (the ranking function is external; its contract is a hypothesis) -/

/-- contract of `scipy.stats.rankdata(·, method)`: one rank per value, ranks are positive (non-zero),
and permuting the values permutes the (value, rank) pairs -/
structure RankOK (rank : List α → List α) : Prop where
  len : ∀ v, (rank v).length = v.length
  pos : ∀ v, ∀ x ∈ rank v, x ≠ 0
  equivariant : ∀ v w : List α, v.Perm w → (v.zip (rank v)).Perm (w.zip (rank w))

/-- `rank_support`: the (value, rank) pairs of each vector's non-zero cells are those the ranking
function gives for the vector's non-zero values, and a cell is zero afterwards exactly when it
was zero before. -/
theorem rank_support (rank : List α → List α) (hr : RankOK rank) (ax : Axis) (inplace : Bool) (t : Table α)
    (cs : CS α) (hp : Pre t ax cs) :
    ∃ o, transform (rankF rank) ax inplace t cs = .ok o ∧ cRank rank t ax o.result = true ∧
      ∀ id ∈ t.ids ax, ∃ v w, t.vec? ax id = some v ∧ o.result.vec? ax id = some w ∧
        ∀ p ∈ v.zip w, p.1 = 0 ↔ p.2 = 0 := by
  have hf : LenPres (rankF rank) := fun v _ _ => hr.len v
  obtain ⟨o, ho, _, hres, _⟩ := transform_run (rankF rank) ax inplace t cs hp hf
  have key : ∀ j, j < cs.nMajor →
      (nzPairs (dv cs.nMinor (idxSeg cs j) (valSeg cs j)) (dv cs.nMinor (idxSeg cs j) (retOf (rankF rank) t ax cs j))).Perm
        ((valSeg cs j).zip (rank (valSeg cs j))) := by
    intro j hj
    exact (vec_pairs cs.nMinor (idxSeg cs j) (valSeg cs j) (retOf (rankF rank) t ax cs j)
      (idxSeg_nodup cs hp.cswf j hj) (idxSeg_inRange cs hp.cswf j) (idxSeg_length cs hp.cswf j hj)
      (by rw [retOf, hf]; exact idxSeg_length cs hp.cswf j hj) (seg_nonzero hp j)).symm
  have hpos : ∀ j, j < cs.nMajor → ∀ p ∈ nzPairs (dv cs.nMinor (idxSeg cs j) (valSeg cs j))
      (dv cs.nMinor (idxSeg cs j) (retOf (rankF rank) t ax cs j)), p.2 ≠ 0 := by
    intro j hj p hp'
    have : p ∈ (valSeg cs j).zip (rank (valSeg cs j)) := (key j hj).mem_iff.mp hp'
    exact hr.pos _ _ (List.of_mem_zip this).2
  refine ⟨o, ho, ?_, ?_⟩
  · unfold cRank
    rw [List.all_eq_true]
    intro id hid
    obtain ⟨j, hj, rfl⟩ := mem_ids hp id hid
    rw [vec_old hp j hj, hres, vec_new hp (rankF rank) j hj]
    simp only [Bool.and_eq_true, beq_iff_eq, List.all_eq_true]
    refine ⟨⟨by rw [dv_length, dv_length], ?_⟩, ?_⟩
    · apply decide_eq_true
      have hargs := vec_args cs.nMinor (idxSeg cs j) (valSeg cs j) (idxSeg_nodup cs hp.cswf j hj)
        (idxSeg_inRange cs hp.cswf j) (idxSeg_length cs hp.cswf j hj) (seg_nonzero hp j)
      exact (key j hj).trans (hr.equivariant _ _ hargs)
    · intro p hp'
      exact decide_eq_true (hpos j hj p hp')
  · intro id hid
    obtain ⟨j, hj, rfl⟩ := mem_ids hp id hid
    refine ⟨_, _, vec_old hp j hj, by rw [hres]; exact vec_new hp (rankF rank) j hj, ?_⟩
    intro p hp'
    constructor
    · exact vec_zeros cs.nMinor (idxSeg cs j) (valSeg cs j) _ (idxSeg_nodup cs hp.cswf j hj)
        (idxSeg_length cs hp.cswf j hj) (by rw [retOf, hf]; exact idxSeg_length cs hp.cswf j hj)
        (seg_nonzero hp j) p hp'
    · intro h2
      apply Classical.byContradiction
      intro h1
      have : p ∈ nzPairs (dv cs.nMinor (idxSeg cs j) (valSeg cs j))
          (dv cs.nMinor (idxSeg cs j) (retOf (rankF rank) t ax cs j)) := by
        unfold nzPairs
        exact List.mem_filter.mpr ⟨hp', decide_eq_true h1⟩
      exact hpos j hj p this h2

end generic

/-! ### normalisation, over the rationals -/

theorem sumL_perm (v w : List Rat) (h : v.Perm w) : sumL v = sumL w := by
  induction h with
  | nil => rfl
  | cons x _ ih => simp only [sumL, List.foldr_cons] at ih ⊢; rw [ih]
  | swap x y l => simp only [sumL, List.foldr_cons]; ring
  | trans _ _ ih1 ih2 => exact ih1.trans ih2

theorem sumL_nz (v : List Rat) : sumL (nz v) = sumL v := by
  induction v with
  | nil => rfl
  | cons x xs ih =>
    by_cases hx : x = 0
    · rw [nz_cons_zero x xs hx, ih, hx]; simp [sumL]
    · rw [nz_cons_ne x xs hx]; simp only [sumL, List.foldr_cons] at ih ⊢; rw [ih]

theorem sumL_map_div (v : List Rat) (s : Rat) : sumL (v.map (· / s)) = sumL v / s := by
  induction v with
  | nil => simp [sumL]
  | cons x xs ih => simp only [sumL, List.map_cons, List.foldr_cons] at ih ⊢; rw [ih]; ring

/-- `norm_sum_one`: a vector with non-zero total sums to 1 after normalisation -/
theorem norm_sum_one (v : List Rat) (id : Id) (md : Option Md) (h : sumL v ≠ 0) : sumL (normF v id md) = 1 := by
  unfold normF
  rw [sumL_map_div, div_self h]

theorem mem_zip_map {β γ : Type} (g : β → γ) (v : List β) (p : β × γ) (h : p ∈ v.zip (v.map g)) : p.2 = g p.1 := by
  induction v with
  | nil => simp at h
  | cons x xs ih =>
    simp only [List.map_cons, List.zip_cons_cons, List.mem_cons] at h
    rcases h with h | h
    · subst h; rfl
    · exact ih h

/-- `norm_proportional`: proportions inside the vector are preserved -/
theorem norm_proportional (v : List Rat) (id : Id) (md : Option Md) :
    ∀ p ∈ v.zip (normF v id md), ∀ q ∈ v.zip (normF v id md), p.2 * q.1 = q.2 * p.1 := by
  intro p hp q hq
  unfold normF at hp hq
  rw [mem_zip_map _ v p hp, mem_zip_map _ v q hq]
  ring

theorem approx_refl (tol a : Rat) (h : 0 ≤ tol) : approx tol a a = true := by
  unfold approx
  apply decide_eq_true
  have h0 : absR (a - a) = 0 := by simp [absR]
  have h1 : 0 ≤ absR a := by unfold absR; split <;> linarith
  have h2 : 0 ≤ maxR (absR a) (absR a) := by unfold maxR; split <;> assumption
  rw [h0]
  exact mul_nonneg h h2

theorem zmap_div (s : Rat) : zmap (fun x : Rat => x / s) = (fun x => x / s) := by
  funext x
  unfold zmap
  by_cases h : x = 0 <;> simp [h]

/-- the divisor `norm` uses (sum of the stored values) is the vector's total -/
theorem stored_sum (t : Table Rat) (ax : Axis) (cs : CS Rat) (hp : Pre t ax cs) (j : Nat) (hj : j < cs.nMajor) :
    sumL (valSeg cs j) = sumL (dv cs.nMinor (idxSeg cs j) (valSeg cs j)) := by
  rw [← sumL_nz (dv cs.nMinor (idxSeg cs j) (valSeg cs j))]
  exact sumL_perm _ _ (vec_args cs.nMinor (idxSeg cs j) (valSeg cs j) (idxSeg_nodup cs hp.cswf j hj)
    (idxSeg_inRange cs hp.cswf j) (idxSeg_length cs hp.cswf j hj) (seg_nonzero hp j))

theorem lenPres_norm : LenPres (normF : VFun Rat) := fun v _ _ => by simp [normF]

/-- table level: every vector of the axis is divided by its own total -/
theorem norm_vectors (ax : Axis) (inplace : Bool) (t : Table Rat) (cs : CS Rat) (hp : Pre t ax cs) :
    ∃ o, transform normF ax inplace t cs = .ok o ∧ ∀ id ∈ t.ids ax, ∃ v,
      t.vec? ax id = some v ∧ o.result.vec? ax id = some (v.map (· / sumL v)) := by
  obtain ⟨o, ho, _, hres, _⟩ := transform_run normF ax inplace t cs hp lenPres_norm
  refine ⟨o, ho, ?_⟩
  intro id hid
  obtain ⟨j, hj, rfl⟩ := mem_ids hp id hid
  refine ⟨_, vec_old hp j hj, ?_⟩
  rw [hres, vec_new hp normF j hj]
  have : retOf normF t ax cs j = (valSeg cs j).map (fun x => x / sumL (valSeg cs j)) := rfl
  rw [this, vec_elem _ cs.nMinor (idxSeg cs j) (valSeg cs j) (seg_nonzero hp j), zmap_div,
    stored_sum t ax cs hp j hj]

/-- the normalisation clause of the predicate holds of the model, for every tolerance ≥ 0:
every vector with non-zero total sums to 1 and `R[i]·T[j] = R[j]·T[i]` -/
theorem norm_holds (tol : Rat) (htol : 0 ≤ tol) (ax : Axis) (inplace : Bool) (t : Table Rat) (cs : CS Rat)
    (hp : Pre t ax cs) :
    ∃ o, transform normF ax inplace t cs = .ok o ∧ cNorm tol t ax o.result = true := by
  obtain ⟨o, ho, hv⟩ := norm_vectors ax inplace t cs hp
  refine ⟨o, ho, ?_⟩
  unfold cNorm
  rw [List.all_eq_true]
  intro id hid
  obtain ⟨v, h1, h2⟩ := hv id hid
  rw [h1, h2]
  simp only [Bool.and_eq_true, beq_iff_eq, Bool.or_eq_true, List.all_eq_true, decide_eq_true_eq]
  refine ⟨by simp, ?_⟩
  by_cases hs : sumL v = 0
  · exact Or.inl hs
  · refine Or.inr ⟨?_, ?_⟩
    · have := norm_sum_one v "" none hs
      unfold normF at this
      rw [this]
      exact approx_refl tol 1 htol
    · intro p hp' q hq'
      have := norm_proportional v "" none p hp' q hq'
      rw [this]
      exact approx_refl tol _ htol

/-! ### a stored zero below the API: `NoStoredZeros` cannot be dropped -/

/-- 2 x 3 row-compressed matrix [[3,0,5],[0,2,0]] whose first row stores its zero explicitly -/
def wCS : CS Int := { nMajor := 2, nMinor := 3, indptr := [0, 3, 4], indices := [0, 1, 2, 1], data := [3, 0, 5, 2] }

/-- a ranking-like function: every value handed over gets the (non-zero) value 1 -/
def wF : VFun Int := fun v _ _ => v.map (fun _ => 1)

/-- `stored_zero_witness`: the matrix is well-formed, the kernel hands the stored zero to the
function (the values passed are NOT the non-zero values of the vector), and the zero cell of the
dense matrix becomes 1 — so "only non-zero values, zero cells stay zero" needs `NoStoredZeros`
at kernel level. -/
theorem stored_zero_witness :
    wCS.wfb = true ∧ wCS.toDense = [[3, 0, 5], [0, 2, 0]] ∧
    (match transformKernel wF ["a", "b"] none wCS with
     | .ok (cs', log) =>
       decide (log.map (·.args) = [[3, 0, 5], [2]]) && !decide (([3, 0, 5] : List Int).Perm (nz [3, 0, 5])) &&
       decide ((eliminateZeros cs').toDense = [[1, 1, 1], [0, 1, 0]])
     | .error _ => false) = true := by
  decide

/-- a function returning one value fewer makes the kernel fail (numpy: "could not broadcast"),
except where numpy broadcasts a single value -/
theorem length_mismatch_witness :
    (match transformKernel (fun v _ _ => v.dropLast) ["a", "b"] none wCS with
     | .ok _ => false | .error e => e == .value) = true ∧
    (match transformKernel (fun v _ _ => [v.foldr (· + ·) 0]) ["a", "b"] none wCS with
     | .ok (cs', _) => cs'.data == [8, 8, 8, 2] | .error _ => false) = true := by
  decide

/-! ### non-vacuity: the hypotheses are met by a concrete asymmetric table and unsorted layouts -/

def exT : Table Int :=
  { obs := ["o1", "o2"], samp := ["s1", "s2", "s3"], rows := [[3, 0, 5], [0, 2, 7]],
    omd := some [[("k", "1")], [("k", "2")]], smd := none, ttype := some "OTU table" }

/-- row-compressed, entries of row 0 stored out of order -/
def exR : CS Int := { nMajor := 2, nMinor := 3, indptr := [0, 2, 4], indices := [2, 0, 1, 2], data := [5, 3, 2, 7] }
/-- column-compressed, entries of column 2 stored out of order -/
def exC : CS Int := { nMajor := 3, nMinor := 2, indptr := [0, 1, 2, 4], indices := [0, 1, 1, 0], data := [3, 2, 7, 5] }

theorem exR_wf : exR.WF :=
  ⟨by decide, by decide, by decide, by decide, by decide, by decide, by decide⟩
theorem exC_wf : exC.WF :=
  ⟨by decide, by decide, by decide, by decide, by decide, by decide, by decide⟩

theorem exR_pre : Pre exT .obs exR :=
  ⟨by decide, by decide, exR_wf, by decide, by decide, by decide, by unfold CS.NoStoredZeros; decide⟩
theorem exC_pre : Pre exT .samp exC :=
  ⟨by decide, by decide, exC_wf, by decide, by decide, by decide, by unfold CS.NoStoredZeros; decide⟩

/-- a vector-wise, zeroing, length-preserving function: keep the first stored value, zero the rest -/
def exF : VFun Int := fun v _ _ => match v with | [] => [] | x :: xs => x :: xs.map (fun _ => 0)

theorem exF_lenPres : LenPres exF := by
  intro v _ _
  cases v <;> simp [exF]

example : ∃ o, transform exF .obs true exT exR = .ok o ∧ holds exT .obs true o = true :=
  model_holds exF .obs true exT exR exR_pre exF_lenPres
example : ∃ o, transform exF .samp false exT exC = .ok o ∧ holds exT .samp false o = true :=
  model_holds exF .samp false exT exC exC_pre exF_lenPres

/-- the run is not trivial: along samples the third column [5,7] is stored as (7,5), the function
keeps 7 and zeroes 5; the result has 3 non-zero cells instead of 4 and the receiver is untouched -/
example : (match transform exF .samp false exT exC with
    | .ok o => o.result.rows == [[3, 0, 0], [0, 2, 7]] && o.log.map (·.args) == [[3], [2], [7, 5]] &&
               o.log.map (·.id) == ["s1", "s2", "s3"] && decide (o.selfAfter = exT)
    | .error _ => false) = true := by decide

example : ∃ o₁ o₂, transform (elemF (· * 2)) .obs true exT exR = .ok o₁ ∧
    transform (elemF (· * 2)) .samp false exT exC = .ok o₂ ∧ o₁.result = o₂.result ∧
    cElem (· * 2) exT o₁.result = true :=
  elementwise_axis_free (· * 2) true false exT exR exC exR_pre exC_pre

/-- a ranking function meeting the contract exists (every value gets rank 1: `method='dense'` on
all-equal values); the theorem is about every such function -/
theorem constRank_ok : RankOK (fun v : List Int => v.map (fun _ => 1)) := by
  refine ⟨fun v => by simp, fun v x hx => ?_, fun v w h => ?_⟩
  · obtain ⟨_, _, rfl⟩ := List.mem_map.mp hx; decide
  · have : ∀ u : List Int, u.zip (u.map (fun _ => (1 : Int))) = u.map (fun x => (x, 1)) := by
      intro u; induction u with
      | nil => rfl
      | cons x xs ih => simp [ih]
    rw [this, this]; exact h.map _

example : ∃ o, transform (rankF (fun v : List Int => v.map (fun _ => 1))) .samp true exT exC = .ok o ∧
    cRank (fun v : List Int => v.map (fun _ => 1)) exT .samp o.result = true := by
  obtain ⟨o, h1, h2, _⟩ := rank_support _ constRank_ok .samp true exT exC exC_pre
  exact ⟨o, h1, h2⟩

def exTq : Table Rat :=
  { obs := ["o1", "o2"], samp := ["s1", "s2", "s3"], rows := [[3, 0, 5], [0, 2, 6]] }
def exCq : CS Rat := { nMajor := 3, nMinor := 2, indptr := [0, 1, 2, 4], indices := [0, 1, 1, 0], data := [3, 2, 6, 5] }
theorem exCq_wf : exCq.WF :=
  ⟨by decide, by decide, by decide, by decide, by decide, by decide, by decide⟩
theorem exCq_pre : Pre exTq .samp exCq :=
  ⟨by decide, by decide, exCq_wf, by decide, by decide, by decide, by unfold CS.NoStoredZeros; decide⟩

example : ∃ o, transform normF .samp true exTq exCq = .ok o ∧ cNorm (1 / 1099511627776) exTq .samp o.result = true :=
  norm_holds _ (by norm_num) .samp true exTq exCq exCq_pre

example : sumL ([5, 6] : List Rat) ≠ 0 := by simp only [sumL, List.foldr]; norm_num
end Biom.C13
