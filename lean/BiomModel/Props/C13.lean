/-
  C13 — property theorems.  Every statement is for EVERY user function `f` (all of `VFun α`), every
  table (any shape, any distinct IDs, any metadata), both axes, in place or not, and every matrix
  the kernel may be handed for it (`Pre`: any well-formed compressed layout with the table's dense
  content along the axis — any order of the entries inside a vector — that stores no zero, which is
  what every table reachable through the API has since the constructor and `subsample` eliminate
  them).  `stored_zero_witness` shows the last hypothesis cannot be dropped below the API.
-/
import BiomModel.Lemmas.C13

namespace Biom.C13
variable {α : Type}

/-! ### kernel level: what the function is applied to, and where its values land -/

/-- `transform_args`: the kernel calls the function once per major vector, in order, on exactly the
stored values of that vector in storage order, with the vector's ID and metadata entry. -/
theorem transform_args (f : VFun α) (ids : List Id) (mds : Option (List Md)) (cs cs' : CS α)
    (log : List (Call α)) (hwf : cs.WF) (hids : cs.nMajor ≤ ids.length)
    (hmd : ∀ m, mds = some m → cs.nMajor ≤ m.length)
    (h : transformKernel f ids mds cs = .ok (cs', log)) :
    log = (List.range cs.nMajor).map (fun j =>
      ⟨ids.getD j "", mdIdx mds j, valSeg cs j, f (valSeg cs j) (ids.getD j "") (mdIdx mds j)⟩) :=
  (transformKernel_spec f ids mds cs cs' log hwf hids hmd h).2.2.1

section generic
variable [Zero α] [DecidableEq α]

/-- under `NoStoredZeros` the values handed over are exactly the non-zero values of the vector -/
theorem transform_args_nonzero (cs : CS α) (hwf : cs.WF) (hnz : cs.NoStoredZeros) (j : Nat) (hj : j < cs.nMajor) :
    (valSeg cs j).Perm (nz (cs.toDense.getD j [])) := by
  have : cs.toDense.getD j [] = dv cs.nMinor (idxSeg cs j) (valSeg cs j) := by
    rw [toDense_eq]; simp [hj]
  rw [this]
  exact vec_args cs.nMinor (idxSeg cs j) (valSeg cs j) (idxSeg_nodup cs hwf j hj) (idxSeg_inRange cs hwf j)
    (idxSeg_length cs hwf j hj) (fun x hx => hnz x (valSeg_mem cs j x hx))

omit [Zero α] [DecidableEq α] in
/-- `transform_writes_back`: shape, row pointer and minor indices are untouched, and the value slice
of vector `j` holds numpy's assignment of what the function returned for it — every returned
value sits at the minor index its argument came from. -/
theorem transform_writes_back (f : VFun α) (ids : List Id) (mds : Option (List Md)) (cs cs' : CS α)
    (log : List (Call α)) (hwf : cs.WF) (hids : cs.nMajor ≤ ids.length)
    (hmd : ∀ m, mds = some m → cs.nMajor ≤ m.length)
    (h : transformKernel f ids mds cs = .ok (cs', log)) :
    cs'.nMajor = cs.nMajor ∧ cs'.nMinor = cs.nMinor ∧ cs'.indptr = cs.indptr ∧ cs'.indices = cs.indices ∧
    ∀ j, j < cs.nMajor →
      (cs'.slice j).map (·.1) = (cs.slice j).map (·.1) ∧
      assign (valSeg cs j) (f (valSeg cs j) (ids.getD j "") (mdIdx mds j)) = .ok ((cs'.slice j).map (·.2)) := by
  obtain ⟨hcs, _, _, hw⟩ := transformKernel_spec f ids mds cs cs' log hwf hids hmd h
  have hptr : cs'.indptr = cs.indptr := by rw [hcs]
  have hind : cs'.indices = cs.indices := by rw [hcs]
  refine ⟨by rw [hcs], by rw [hcs], hptr, hind, ?_⟩
  intro j hj
  have hl := assign_length (hw j hj)
  have hil := idxSeg_length cs hwf j hj
  have e' : cs'.slice j = (idxSeg cs j).zip (valSeg cs' j) := by
    rw [slice_eq]; simp only [idxSeg, valSeg, hptr, hind]
  have e : cs.slice j = (idxSeg cs j).zip (valSeg cs j) := rfl
  rw [e', e, map_fst_zip _ _ (by omega), map_fst_zip _ _ (by omega), map_snd_zip _ _ (by omega)]
  exact ⟨rfl, hw j hj⟩

omit [Zero α] [DecidableEq α] in
/-- a function that returns as many values as it gets never makes the kernel fail -/
theorem transform_total (f : VFun α) (ids : List Id) (mds : Option (List Md)) (cs : CS α) (hwf : cs.WF)
    (hids : cs.nMajor ≤ ids.length) (hmd : ∀ m, mds = some m → cs.nMajor ≤ m.length) (hf : LenPres f) :
    ∃ cs' log, transformKernel f ids mds cs = .ok (cs', log) :=
  transformKernel_total f ids mds cs hwf hids hmd (fun _ _ => ⟨_, assign_same_length (hf _ _ _)⟩)

/-- cells without a stored entry are zero after kernel + `eliminate_zeros`, whatever `f` does
(no hypothesis on stored zeros) -/
theorem transform_support_unstored (f : VFun α) (ids : List Id) (mds : Option (List Md)) (cs cs' : CS α)
    (log : List (Call α)) (hwf : cs.WF) (hids : cs.nMajor ≤ ids.length)
    (hmd : ∀ m, mds = some m → cs.nMajor ≤ m.length)
    (h : transformKernel f ids mds cs = .ok (cs', log)) (j k : Nat) (hj : j < cs.nMajor)
    (hk : k ∉ (cs.slice j).map (·.1)) :
    CS.entryAt ((eliminateZeros cs').slice j) k = 0 := by
  obtain ⟨hM, _, _, _, hsl⟩ := transform_writes_back f ids mds cs cs' log hwf hids hmd h
  have hj' : j < ((List.range cs'.nMajor).map
      (fun i => (cs'.slice i).filter (fun e => decide (e.2 ≠ 0)))).length := by simp [hM, hj]
  unfold eliminateZeros
  rw [slice_ofEntries _ _ _ j hj', entryAt_eq_lookD]
  apply lookD_not_mem
  intro hmem
  apply hk
  rw [← (hsl j hj).1]
  have hget : ((List.range cs'.nMajor).map
      (fun i => (cs'.slice i).filter (fun e => decide (e.2 ≠ 0)))).getD j [] =
      (cs'.slice j).filter (fun e => decide (e.2 ≠ 0)) := by simp [hM, hj]
  rw [hget] at hmem
  obtain ⟨e, he, rfl⟩ := List.mem_map.mp hmem
  exact List.mem_map_of_mem (List.mem_filter.mp he).1

/-! ### table level: the predicate holds of the model, for every function -/

theorem cFrame_run (t : Table α) (ax : Axis) (cs : CS α) (hp : Pre t ax cs) (f : VFun α) :
    cFrame t (setMajorGrid t ax (newGrid f t ax cs)) = true := by
  obtain ⟨h1, h2, h3, h4, h5⟩ := setMajorGrid_frame t ax (newGrid f t ax cs)
  have hw := setMajorGrid_wfb t hp.twf ax (newGrid f t ax cs) (by rw [newGrid_length, hp.nMajor])
    (by
      intro r hr
      simp only [newGrid, List.mem_map] at hr
      obtain ⟨k, _, rfl⟩ := hr
      rw [dv_length, hp.nMinor])
  simp [cFrame, h1, h2, h3, h4, h5, hw]

theorem cLogIds_run (t : Table α) (ax : Axis) (cs : CS α) (hp : Pre t ax cs) (f : VFun α) :
    cLogIds t ax ((List.range cs.nMajor).map (callAt f cs.indptr (t.ids ax) (t.md ax) cs.data)) = true := by
  unfold cLogIds
  rw [Bool.and_eq_true]
  constructor
  · rw [decide_eq_true_eq, List.map_map, hp.nMajor]
    exact map_getD_range (t.ids ax) ""
  · rw [List.all_eq_true]
    intro c hc
    obtain ⟨j, hj, rfl⟩ := List.mem_map.mp hc
    have hj' : j < (t.ids ax).length := by rw [← hp.nMajor]; exact List.mem_range.mp hj
    simp only [callAt]
    exact decide_eq_true (mdOf?_getD t ax hp.nodup j hj').symm

theorem cLogArgs_run (t : Table α) (ax : Axis) (cs : CS α) (hp : Pre t ax cs) (f : VFun α) :
    cLogArgs t ax ((List.range cs.nMajor).map (callAt f cs.indptr (t.ids ax) (t.md ax) cs.data)) = true := by
  unfold cLogArgs
  rw [List.all_eq_true]
  intro c hc
  obtain ⟨j, hj, rfl⟩ := List.mem_map.mp hc
  have hj' := List.mem_range.mp hj
  simp only [callAt]
  rw [vec_old hp j hj']
  apply decide_eq_true
  exact vec_args cs.nMinor (idxSeg cs j) (valSeg cs j) (idxSeg_nodup cs hp.cswf j hj')
    (idxSeg_inRange cs hp.cswf j) (idxSeg_length cs hp.cswf j hj') (seg_nonzero hp j)

theorem cWriteBack_run (t : Table α) (ax : Axis) (cs : CS α) (hp : Pre t ax cs) (f : VFun α) (hf : LenPres f) :
    cWriteBack t ax ((List.range cs.nMajor).map (callAt f cs.indptr (t.ids ax) (t.md ax) cs.data))
      (setMajorGrid t ax (newGrid f t ax cs)) = true := by
  unfold cWriteBack
  rw [List.all_eq_true]
  intro c hc
  obtain ⟨j, hj, rfl⟩ := List.mem_map.mp hc
  have hj' := List.mem_range.mp hj
  simp only [callAt]
  rw [vec_old hp j hj', vec_new hp f j hj']
  simp only [Bool.and_eq_true, beq_iff_eq]
  refine ⟨⟨hf _ _ _, by rw [dv_length, dv_length]⟩, ?_⟩
  apply decide_eq_true
  exact vec_pairs cs.nMinor (idxSeg cs j) (valSeg cs j) (retOf f t ax cs j) (idxSeg_nodup cs hp.cswf j hj')
    (idxSeg_inRange cs hp.cswf j) (idxSeg_length cs hp.cswf j hj')
    (by rw [retOf, hf]; exact idxSeg_length cs hp.cswf j hj') (seg_nonzero hp j)

theorem cZeros_run (t : Table α) (ax : Axis) (cs : CS α) (hp : Pre t ax cs) (f : VFun α) (hf : LenPres f) :
    cZeros t ax (setMajorGrid t ax (newGrid f t ax cs)) = true := by
  unfold cZeros
  rw [List.all_eq_true]
  intro id hid
  obtain ⟨j, hj, rfl⟩ := mem_ids hp id hid
  rw [vec_old hp j hj, vec_new hp f j hj]
  have hz := vec_zeros cs.nMinor (idxSeg cs j) (valSeg cs j) (retOf f t ax cs j) (idxSeg_nodup cs hp.cswf j hj)
    (idxSeg_length cs hp.cswf j hj) (by rw [retOf, hf]; exact idxSeg_length cs hp.cswf j hj) (seg_nonzero hp j)
  simp only [Bool.and_eq_true, beq_iff_eq, decide_eq_true_eq, List.all_eq_true, Bool.or_eq_true]
  refine ⟨⟨by rw [dv_length, dv_length], ?_⟩, ?_⟩
  · intro p hp'
    by_cases h0 : p.1 = 0
    · exact Or.inr (hz p hp' h0)
    · exact Or.inl h0
  · exact nz_length_le _ _ (by rw [dv_length, dv_length]) hz

/-- **model_holds**: for every table, axis, in-place flag, every layout within the contract and
every length-preserving user function, the model run succeeds and the predicate `holds` is true
of what it lets an observer see. -/
theorem model_holds (f : VFun α) (ax : Axis) (inplace : Bool) (t : Table α) (cs : CS α)
    (hp : Pre t ax cs) (hf : LenPres f) :
    ∃ o, transform f ax inplace t cs = .ok o ∧ holds t ax inplace o = true := by
  obtain ⟨o, ho, hlog, hres, hself, hsame, hsz⟩ := transform_run f ax inplace t cs hp hf
  refine ⟨o, ho, ?_⟩
  unfold holds
  rw [hlog, hres, cFrame_run t ax cs hp f, cLogIds_run t ax cs hp f, cLogArgs_run t ax cs hp f,
    cWriteBack_run t ax cs hp f hf, cZeros_run t ax cs hp f hf, hsz]
  simp only [Bool.and_true, Bool.true_and, beq_self_eq_true]
  unfold cInplace
  rw [hsame, hself, hres]
  cases inplace <;> simp

end generic
end Biom.C13
