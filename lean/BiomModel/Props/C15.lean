/-
  C15 — property theorems.
-/
import BiomModel.Lemmas.C15

namespace Biom.C15

/-- everything a `valid` verdict of the JSON validator establishes about the document -/
structure ValidFacts (kvs : KVs) where
  rv : J
  cv : J
  lr : List J
  lc : List J
  r : Int
  c : Int
  dv : J
  mv : J
  ev : J
  dt : DType
  hrows : kvs.lookup "rows" = some rv
  hcols : kvs.lookup "columns" = some cv
  hir : pyIter rv = some lr
  hic : pyIter cv = some lc
  hrr : checkRecords lr [] = some true
  hrc : checkRecords lc [] = some true
  hshape : kvs.lookup "shape" = some (.arr [.int r, .int c])
  hdata : kvs.lookup "data" = some dv
  hvd : validData kvs dv = some true
  hmt : kvs.lookup "matrix_type" = some mv
  hmv : mv = .str "sparse" ∨ mv = .str "dense"
  het : kvs.lookup "matrix_element_type" = some ev
  hdt : dtypeOf ev = some dt
  hnr : (lr.length : Int) = r
  hnc : (lc.length : Int) = c
  hkeys : ∀ k ∈ requiredKeys, (kvs.lookup k).isSome = true

theorem validFacts {d : String → Bool} {kvs : KVs}
    (hc : ∀ c ∈ checksOf d kvs, c = some true) : Nonempty (ValidFacts kvs) := by
  simp only [checksOf, List.mem_cons, List.not_mem_nil, or_false, forall_eq_or_imp, forall_eq] at hc
  obtain ⟨c1, c2, c3, c4, c5, c6, c7, c8, c9, c10, c11, c12, c13, c14⟩ := hc
  obtain ⟨v1, k1, _⟩ := runKey_true c1
  obtain ⟨v2, k2, _⟩ := runKey_true c2
  obtain ⟨v3, k3, _⟩ := runKey_true c3
  obtain ⟨rv, hrows, h4⟩ := runKey_true c4
  obtain ⟨cv, hcols, h5⟩ := runKey_true c5
  obtain ⟨sv, hshape, h6⟩ := runKey_true c6
  obtain ⟨dv, hdata, h7⟩ := runKey_true c7
  obtain ⟨mv, hmt, h8⟩ := runKey_true c8
  obtain ⟨ev, het, h9⟩ := runKey_true c9
  obtain ⟨v10, k10, _⟩ := runKey_true c10
  obtain ⟨v11, k11, _⟩ := runKey_true c11
  obtain ⟨v12, k12, _⟩ := runKey_true c12
  obtain ⟨lr, hir, hrr⟩ := validAxis_true h4
  obtain ⟨lc, hic, hrc⟩ := validAxis_true h5
  obtain ⟨r, c, rfl⟩ := validShape_true h6
  obtain ⟨dt, hdt⟩ := validElemType_true h9
  obtain ⟨n, d0, hl0, hi0, he0⟩ := crossCheck_true hshape hrows c13
  obtain ⟨m, d1, hl1, hi1, he1⟩ := crossCheck_true hshape hcols c14
  simp only [pyLen, hir, Option.map_some, Option.some.injEq] at hl0
  simp only [pyLen, hic, Option.map_some, Option.some.injEq] at hl1
  simp only [pyIndex, List.getElem?_cons_zero, Option.some.injEq] at hi0
  simp only [pyIndex, List.getElem?_cons_succ, List.getElem?_cons_zero, Option.some.injEq] at hi1
  subst hi0 hi1 hl0 hl1
  refine ⟨{ rv := rv, cv := cv, lr := lr, lc := lc, r := r, c := c, dv := dv, mv := mv, ev := ev, dt := dt,
            hrows := hrows, hcols := hcols, hir := hir, hic := hic, hrr := hrr, hrc := hrc,
            hshape := hshape, hdata := hdata, hvd := h7, hmt := hmt, hmv := validMatrixType_true h8,
            het := het, hdt := hdt, hnr := pyEqNat_int he0, hnc := pyEqNat_int he1, hkeys := ?_ }⟩
  intro k hk
  simp only [requiredKeys, List.mem_cons, List.not_mem_nil, or_false] at hk
  rcases hk with rfl | rfl | rfl | rfl | rfl | rfl | rfl | rfl | rfl | rfl | rfl | rfl <;> simp [*]

theorem records_eq {kvs : KVs} {k : String} {v : J} {l : List J}
    (h1 : kvs.lookup k = some v) (h2 : pyIter v = some l) : records (.obj kvs) k = l := by
  simp [records, topLookup, h1, h2]

theorem coordOk_inRange {dt : DType} {r c : Int} {e : J}
    (h : coordOk dt (.int (r - 1)) (.int (c - 1)) e = true) :
    coordInRange r c e = true ∧ coordValueTyped dt e = true := by
  obtain ⟨x, y, v, rfl, hi, h1, h2, h3, h4⟩ := coordOk_true h
  simp [coordInRange, coordValueTyped, pyIter, hi, h1, h2, h3, h4]

/-- **One theorem for every corruption at once.**  A document the validator reports valid has every
    required key, records with `id` and `metadata`, a declared shape equal to the ID counts, every
    sparse coordinate inside the shape (dense: the grid has the declared dimensions), every element of
    the declared type, no empty and no duplicated ID, and metadata that is an object or null. -/
theorem valid_json_structural (dateOk : String → Bool) (j : J)
    (h : validateJson dateOk j = .valid) :
    requiredKeysB j = true ∧ recordFieldsB j = true ∧ shapeB j = true ∧ coordsB j = true ∧
    typedB j = true ∧ idsNonEmptyB j = true ∧ idsDistinctB j = true ∧ mdB j = true := by
  obtain ⟨kvs, rfl, hc⟩ := validateJson_valid h
  obtain ⟨F⟩ := validFacts hc
  have hR := records_eq F.hrows F.hir
  have hC := records_eq F.hcols F.hic
  obtain ⟨r1, r2, r3, r4, _⟩ := checkRecords_true _ _ F.hrr
  obtain ⟨s1, s2, s3, s4, _⟩ := checkRecords_true _ _ F.hrc
  have hds : declShape (.obj kvs) = some (F.r, F.c) := by simp [declShape, topLookup, F.hshape]
  refine ⟨?_, ?_, ?_, ?_, ?_, ?_, ?_, ?_⟩
  · simp only [requiredKeysB, List.all_eq_true, topLookup]; exact F.hkeys
  · simp [recordFieldsB, hR, hC, r1, s1]
  · simp [shapeB, hds, topLookup, F.hrows, F.hcols, pyLen, F.hir, F.hic, F.hnr, F.hnc]
  · rcases F.hmv with hm | hm
    · have hmt := F.hmt; rw [hm] at hmt
      obtain ⟨l, hl, hall⟩ := validSparse_true F.het F.hdt F.hshape (validData_sparse hmt F.hvd)
      have : l.all (coordInRange F.r F.c) = true := by
        rw [List.all_eq_true] at hall ⊢
        intro e he; exact (coordOk_inRange (hall e he)).1
      simp [coordsB, hds, topLookup, F.hdata, matrixTypeIs, hmt, hl, this]
    · have hmt := F.hmt; rw [hm] at hmt
      obtain ⟨l, hl, hrows, hlen⟩ := validDense_true F.het F.hdt F.hshape (validData_dense hmt F.hvd)
      have hrows' := denseRows_true l hrows
      have : l.all (fun row => (pyLen row).map Int.ofNat == some F.c) = true := by
        rw [List.all_eq_true]
        intro row hrow
        obtain ⟨els, he, hlen', _⟩ := hrows' row hrow
        simp [pyLen, he, hlen']
      have hne : matrixTypeIs (.obj kvs) "sparse" = false := by
        simp [matrixTypeIs, topLookup, hmt]
      simp [coordsB, hds, topLookup, F.hdata, matrixTypeIs, hmt, hl, this, hlen]
  · rcases F.hmv with hm | hm
    · have hmt := F.hmt; rw [hm] at hmt
      obtain ⟨l, hl, hall⟩ := validSparse_true F.het F.hdt F.hshape (validData_sparse hmt F.hvd)
      have : l.all (coordValueTyped F.dt) = true := by
        rw [List.all_eq_true] at hall ⊢
        intro e he; exact (coordOk_inRange (hall e he)).2
      simp [typedB, topLookup, F.het, F.hdt, F.hdata, matrixTypeIs, hmt, hl, this]
    · have hmt := F.hmt; rw [hm] at hmt
      obtain ⟨l, hl, hrows, _⟩ := validDense_true F.het F.hdt F.hshape (validData_dense hmt F.hvd)
      have hrows' := denseRows_true l hrows
      have : l.all (fun row => ((pyIter row).getD []).all (isInst F.dt)) = true := by
        rw [List.all_eq_true]
        intro row hrow
        obtain ⟨els, he, _, hall⟩ := hrows' row hrow
        simp [he, hall]
      have hne : matrixTypeIs (.obj kvs) "sparse" = false := by
        simp [matrixTypeIs, topLookup, hmt]
      simp [typedB, topLookup, F.het, F.hdt, F.hdata, matrixTypeIs, hmt, hl, this]
  · simp [idsNonEmptyB, hR, hC, r2, s2]
  · simp [idsDistinctB, idsOf, hR, hC, r4, s4]
  · simp [mdB, hR, hC, r3, s3]

/-- a reported-valid document is not corrupt: every structural corruption — single, double or any
    other number of mutations — is refused (`invalid` or `crash`) -/
theorem corrupt_rejected (dateOk : String → Bool) (j : J) (h : corrupt j = true) :
    validateJson dateOk j ≠ .valid := by
  intro hv
  obtain ⟨h1, h2, h3, h4, h5, h6, h7, h8⟩ := valid_json_structural dateOk j hv
  simp [corrupt, structuralB, conjuncts, h1, h2, h3, h4, h5, h6, h7, h8] at h

theorem nodupB_iff : ∀ (l : List J), nodupB l = true ↔ l.Nodup
  | [] => by simp [nodupB]
  | x :: xs => by
    simp only [nodupB, Bool.and_eq_true, Bool.not_eq_true', List.nodup_cons, nodupB_iff xs]
    constructor
    · rintro ⟨h1, h2⟩
      refine ⟨?_, h2⟩
      intro hm
      have : xs.contains x = true := by rw [List.contains_iff_mem]; exact hm
      rw [this] at h1; cases h1
    · rintro ⟨h1, h2⟩
      refine ⟨?_, h2⟩
      cases hc : xs.contains x with
      | false => rfl
      | true => rw [List.contains_iff_mem] at hc; exact absurd hc h1

/-- the ID clauses in plain words: on each axis the IDs of a valid document are pairwise distinct
    and no ID is the empty text -/
theorem valid_json_ids (dateOk : String → Bool) (j : J) (h : validateJson dateOk j = .valid) :
    (idsOf j "rows").Nodup ∧ (idsOf j "columns").Nodup ∧
    (J.str "") ∉ idsOf j "rows" ∧ (J.str "") ∉ idsOf j "columns" := by
  obtain ⟨_, _, _, _, _, h6, h7, _⟩ := valid_json_structural dateOk j h
  simp only [idsDistinctB, Bool.and_eq_true, nodupB_iff] at h7
  simp only [idsNonEmptyB, Bool.and_eq_true, List.all_eq_true] at h6
  refine ⟨h7.1, h7.2, ?_, ?_⟩
  · intro hm
    simp only [idsOf, List.mem_filterMap] at hm
    obtain ⟨r, hr, hg⟩ := hm
    have := h6.1 r hr
    simp [idNonEmpty, hg, J.truthy] at this
  · intro hm
    simp only [idsOf, List.mem_filterMap] at hm
    obtain ⟨r, hr, hg⟩ := hm
    have := h6.2 r hr
    simp [idNonEmpty, hg, J.truthy] at this

/-- the instance for the mutation grammar: whatever list of mutations produced the document -/
theorem mutated_valid_structural (dateOk : String → Bool) (base : J) (ms : List Mutation)
    (h : validateJson dateOk (applyAll ms base) = .valid) : structuralB (applyAll ms base) = true := by
  cases hc : structuralB (applyAll ms base) with
  | true => rfl
  | false => exact absurd h (corrupt_rejected dateOk _ (by simp [corrupt, hc]))

/-! ### what the library writes is valid -/

theorem lookup_doc (t : WTable) :
    (docKVs t).lookup "format" = some (.str "Biological Observation Matrix 1.0.0") ∧
    (docKVs t).lookup "format_url" = some (.str formatURL) ∧
    (docKVs t).lookup "type" = some (.str t.ttype) ∧
    (docKVs t).lookup "rows" = some (.arr (List.zipWith recOf t.obs t.omd)) ∧
    (docKVs t).lookup "columns" = some (.arr (List.zipWith recOf t.samp t.smd)) ∧
    (docKVs t).lookup "shape" = some (.arr [.int t.obs.length, .int t.samp.length]) ∧
    (docKVs t).lookup "data" = some (.arr (gridCoords 0 t.grid)) ∧
    (docKVs t).lookup "matrix_type" = some (.str "sparse") ∧
    (docKVs t).lookup "matrix_element_type" = some (.str "float") ∧
    (docKVs t).lookup "generated_by" = some (.str t.generatedBy) ∧
    (docKVs t).lookup "id" = some (.str t.tableId) ∧
    (docKVs t).lookup "date" = some (.str t.date) := by
  simp [docKVs, List.lookup]

/-- **Every document the writer denotes for a table of the domain (vocabulary type, non-empty
    distinct IDs, metadata objects or null, at least one observation and one sample) is valid.** -/
theorem written_json_valid (dateOk : String → Bool) (t : WTable) (hwf : t.wfb dateOk = true) :
    validateJson dateOk (docOf t) = .valid := by
  simp only [WTable.wfb, Bool.and_eq_true, decide_eq_true_eq, beq_iff_eq] at hwf
  obtain ⟨⟨⟨⟨⟨⟨⟨⟨⟨⟨⟨⟨⟨⟨_, _⟩, hg⟩, hgr⟩, hol⟩, hsl⟩, hom⟩, hsm⟩, hon⟩, hsn⟩, hod⟩, hsd⟩, hty⟩, hgb⟩, hdate⟩ := hwf
  obtain ⟨l1, l2, l3, l4, l5, l6, l7, l8, l9, l10, l11, l12⟩ := lookup_doc t
  have hrows : checkRecords (List.zipWith recOf t.obs t.omd) [] = some true :=
    checkRecords_written _ _ _ hon hom hod (by simp)
  have hcols : checkRecords (List.zipWith recOf t.samp t.smd) [] = some true :=
    checkRecords_written _ _ _ hsn hsm hsd (by simp)
  have htl : typeLowerOk (docKVs t) = true := by simp [typeLowerOk, l3]
  have hgrid : ∀ r ∈ t.grid, r.length = t.samp.length := by
    intro r hr
    rw [List.all_eq_true] at hgr
    simpa using hgr r hr
  have hcoords : (gridCoords 0 t.grid).all
      (coordOk .float (.int ((t.obs.length : Int) - 1)) (.int ((t.samp.length : Int) - 1))) = true := by
    rw [List.all_eq_true]
    intro e he
    obtain ⟨i, j, v, rfl, _, hi, hj⟩ := gridCoords_mem t.samp.length 0 t.grid e hgrid he
    exact coordOk_written (by omega) hj
  unfold docOf validateJson
  rw [verdictOf_valid]
  intro c hc
  simp only [checksOf, List.mem_cons, List.not_mem_nil, or_false] at hc
  rcases hc with rfl | rfl | rfl | rfl | rfl | rfl | rfl | rfl | rfl | rfl | rfl | rfl | rfl | rfl
  · simp [runKey, l1, validFormat]
  · simp [runKey, l2, validUrl]
  · simp [runKey, l3, validType, hty]
  · simp [runKey, l4, validAxis, htl, pyIter, hrows]
  · simp [runKey, l5, validAxis, htl, pyIter, hcols]
  · simp [runKey, l6, validShape, unpack2, pyIter, J.isInt]
  · have hd : dtypeOf (.str "float") = some .float := by decide
    have hs : lowerIs "sparse" "sparse" = true := by decide
    simp [runKey, l7, validData, l8, hs, validSparse, l9, hd, l6, unpack2_pair, sub1, pyIter, hcoords]
  · simp [runKey, l8, validMatrixType, hashable]
  · have : elementTypes.any (fun e => J.str "float" == J.str e.1) = true := by decide
    simp [runKey, l9, validElemType, hashable, this]
  · simp [runKey, l10, validGeneratedBy, J.truthy, hgb]
  · simp [runKey, l11]
  · simp [runKey, l12, validDate, hdate]
  · simp [crossCheck, l6, l4, pyLen, pyIter, pyIndex, pyEqNat, hol]
  · simp [crossCheck, l6, l5, pyLen, pyIter, pyIndex, pyEqNat, hsl]

/-! ### a valid numeric document loads -/

theorem matrixOf_ok {kvs : KVs} (F : ValidFacts kvs) (hnd : F.dt = .int ∨ F.dt = .float)
    {l : List J} (hdv : F.dv = .arr l) :
    ∃ g, matrixOf F.lr.length F.lc.length (matrixTypeIs (.obj kvs) "dense") (.arr l) = some g ∧
      g.length = F.lr.length ∧ ∀ row ∈ g, row.length = F.lc.length := by
  cases l with
  | nil =>
    refine ⟨(List.range F.lr.length).map (fun _ => (List.range F.lc.length).map (fun _ => (0 : Rat))),
      by simp [matrixOf], by simp, ?_⟩
    intro row hrow
    simp only [List.mem_map, List.mem_range] at hrow
    obtain ⟨_, _, rfl⟩ := hrow
    simp
  | cons x xs =>
    have hnr := F.hnr
    have hnc := F.hnc
    rcases F.hmv with hm | hm
    · have hmt := F.hmt; rw [hm] at hmt
      have hnd' : matrixTypeIs (.obj kvs) "dense" = false := by simp [matrixTypeIs, topLookup, hmt]
      obtain ⟨l', hl', hall⟩ := validSparse_true F.het F.hdt F.hshape (validData_sparse hmt F.hvd)
      rw [hdv] at hl'
      simp only [pyIter, Option.some.injEq] at hl'
      subst hl'
      rw [List.all_eq_true] at hall
      obtain ⟨es, hes, _, hin⟩ := mapOpt_all entryOf
        (fun e => entryInRange F.lr.length F.lc.length e = true) (x :: xs) (by
          intro e he
          obtain ⟨a, b, v, rfl, hi, h1, h2, h3, h4⟩ := coordOk_true (hall e he)
          obtain ⟨q, hq, _⟩ := isInst_numeric hnd hi
          refine ⟨(a, b, q), by simp [entryOf, hq], ?_⟩
          simp only [entryInRange, Bool.and_eq_true, decide_eq_true_eq]
          omega)
      have hall' : es.all (entryInRange F.lr.length F.lc.length) = true := by
        rw [List.all_eq_true]; exact hin
      have hg := length_gridOfEntries F.lr.length F.lc.length es
      exact ⟨_, by simp [matrixOf, hnd', hes, hall'], hg.1, hg.2⟩
    · have hmt := F.hmt; rw [hm] at hmt
      have hd' : matrixTypeIs (.obj kvs) "dense" = true := by simp [matrixTypeIs, topLookup, hmt]
      obtain ⟨l', hl', hrows, hlen⟩ := validDense_true F.het F.hdt F.hshape (validData_dense hmt F.hvd)
      rw [hdv] at hl'
      simp only [pyIter, Option.some.injEq] at hl'
      subst hl'
      have hrows' := denseRows_true _ hrows
      obtain ⟨g, hg, hgl, hgr⟩ := mapOpt_all denseRowVals (fun vals => vals.length = F.lc.length) (x :: xs) (by
        intro row hrow
        obtain ⟨els, he, hlen', hall, hne⟩ := hrows' row hrow
        cases els with
        | nil => exact absurd rfl hne
        | cons e0 es0 =>
          have h0 : isInst F.dt e0 = true := by
            rw [List.all_eq_true] at hall; exact hall e0 (by simp)
          obtain ⟨_, _, hs0⟩ := isInst_numeric hnd h0
          have hrow' := pyIter_nonstr_mem he (x := e0) (by simp) hs0
          subst hrow'
          obtain ⟨vals, hvals, hvl, _⟩ := mapOpt_all numVal (fun _ => True) (e0 :: es0) (by
            intro z hz
            rw [List.all_eq_true] at hall
            obtain ⟨q, hq, _⟩ := isInst_numeric hnd (hall z hz)
            exact ⟨q, hq, trivial⟩)
          refine ⟨vals, by simp [denseRowVals, hvals], ?_⟩
          have : ((e0 :: es0).length : Int) = (F.lc.length : Int) := by rw [hlen', hnc]
          omega)
      have hgl' : g.length = F.lr.length := by
        have : ((x :: xs).length : Int) = (F.lr.length : Int) := by rw [hlen, hnr]
        omega
      have hall' : g.all (fun r => r.length == F.lc.length) = true := by
        rw [List.all_eq_true]; intro r hr; simp [hgr r hr]
      exact ⟨g, by simp [matrixOf, hd', hg, hgl', hall'], hgl', hgr⟩

/-- **A document with a numeric element type that the validator reports valid loads**, and the
    loaded table has the declared IDs in order, the declared shape and the declared values (sparse:
    each cell is the sum of the entries naming it; dense: the rows as written).
    `_partial`: two guards beyond the property's own (`numericElem`): the IDs are text
    (`idsAreStrings`; the validator accepts any truthy JSON value as an ID) and `data` is a JSON list
    (`dataIsList`; the validator iterates any iterable, see `valid_json_unloadable_witness`). -/
theorem valid_json_loads_partial (dateOk : String → Bool) (j : J)
    (hv : validateJson dateOk j = .valid) (hnum : numericElem j = true)
    (hids : idsAreStrings j = true) (hdl : dataIsList j = true) :
    ∃ t, loadJson j = some t ∧ t.obs = idsOf j "rows" ∧ t.samp = idsOf j "columns" ∧
      (t.obs.all isStr = true ∧ t.samp.all isStr = true) ∧
      declShape j = some ((t.obs.length : Int), (t.samp.length : Int)) ∧
      t.grid.length = t.obs.length ∧ (∀ r ∈ t.grid, r.length = t.samp.length) ∧
      declaredGrid j t.obs.length t.samp.length = some t.grid := by
  obtain ⟨kvs, rfl, hc⟩ := validateJson_valid hv
  obtain ⟨F⟩ := validFacts hc
  have hR := records_eq F.hrows F.hir
  have hC := records_eq F.hcols F.hic
  obtain ⟨r1, _, r3, r4, _⟩ := checkRecords_true _ _ F.hrr
  obtain ⟨s1, _, s3, s4, _⟩ := checkRecords_true _ _ F.hrc
  rw [List.all_eq_true] at r1 s1 r3 s3
  obtain ⟨hro, hrol⟩ := mapOpt_filterMap (fun r => getItem r "id") F.lr
    (fun x hx => (recordHasFields_some (r1 x hx)).1)
  obtain ⟨hrm, _⟩ := mapOpt_filterMap (fun r => getItem r "metadata") F.lr
    (fun x hx => (recordHasFields_some (r1 x hx)).2)
  obtain ⟨hco, hcol⟩ := mapOpt_filterMap (fun r => getItem r "id") F.lc
    (fun x hx => (recordHasFields_some (s1 x hx)).1)
  obtain ⟨hcm, _⟩ := mapOpt_filterMap (fun r => getItem r "metadata") F.lc
    (fun x hx => (recordHasFields_some (s1 x hx)).2)
  have mdAll : ∀ (l : List J), (∀ x ∈ l, mdObjOrNull x = true) →
      (l.filterMap (fun r => getItem r "metadata")).all mdOk = true := by
    intro l hl
    rw [List.all_eq_true]
    intro v hvm
    simp only [List.mem_filterMap] at hvm
    obtain ⟨x, hx, hgx⟩ := hvm
    have := hl x hx
    simpa [mdObjOrNull, hgx] using this
  have hmdR := mdAll F.lr r3
  have hmdC := mdAll F.lc s3
  -- element type
  have hnd : F.dt = .int ∨ F.dt = .float := by
    have het := F.het
    have hdt := F.hdt
    simp only [numericElem, topLookup, het, Bool.or_eq_true, beq_iff_eq, Option.some.injEq] at hnum
    rcases hnum with e | e
    · rw [e] at hdt; left
      have : dtypeOf (.str "int") = some DType.int := by decide
      rw [this] at hdt; exact (Option.some.inj hdt).symm
    · rw [e] at hdt; right
      have : dtypeOf (.str "float") = some DType.float := by decide
      rw [this] at hdt; exact (Option.some.inj hdt).symm
  have het' : ∃ et, kvs.lookup "matrix_element_type" = some (.str et) ∧ loaderDtypes.contains et = true := by
    have het := F.het
    simp only [numericElem, topLookup, het, Bool.or_eq_true, beq_iff_eq, Option.some.injEq] at hnum
    rcases hnum with e | e
    · exact ⟨"int", by rw [het, e], by decide⟩
    · exact ⟨"float", by rw [het, e], by decide⟩
  obtain ⟨et, hetl, hetc⟩ := het'
  -- data
  have hdata := F.hdata
  obtain ⟨l, hdv⟩ : ∃ l, F.dv = .arr l := by
    simp only [dataIsList, topLookup, hdata] at hdl
    cases hdv : F.dv <;> rw [hdv] at hdl <;> simp at hdl
    exact ⟨_, rfl⟩
  obtain ⟨g, hg, hgl, hgr⟩ := matrixOf_ok F hnd hdv
  have hk := F.hkeys
  obtain ⟨vt, hvt⟩ := Option.isSome_iff_exists.1 (hk "type" (by simp [requiredKeys]))
  obtain ⟨vd, hvd⟩ := Option.isSome_iff_exists.1 (hk "date" (by simp [requiredKeys]))
  obtain ⟨vg, hvg⟩ := Option.isSome_iff_exists.1 (hk "generated_by" (by simp [requiredKeys]))
  have hidsR : idsOf (.obj kvs) "rows" = F.lr.filterMap (fun r => getItem r "id") := by simp [idsOf, hR]
  have hidsC : idsOf (.obj kvs) "columns" = F.lc.filterMap (fun r => getItem r "id") := by simp [idsOf, hC]
  have hload : loadJson (.obj kvs) =
      some { obs := F.lr.filterMap (fun r => getItem r "id"),
             samp := F.lc.filterMap (fun r => getItem r "id"), grid := g } := by
    unfold loadJson
    simp only [topLookup, F.hcols, F.hrows, Option.bind_some, F.hic, F.hir, hco, hcm, hro, hrm, hetl, hvt,
      hdata, hvd, F.hshape, hvg, hetc, hmdC, hmdR, r4, s4, Bool.and_self, if_true, hrol, hcol, hdv, hg]
  refine ⟨_, hload, hidsR.symm, hidsC.symm, ?_, ?_, ?_, ?_, ?_⟩
  · simp only [idsAreStrings, hidsR, hidsC, Bool.and_eq_true] at hids
    exact hids
  · simp [declShape, topLookup, F.hshape, hrol, hcol, F.hnr, F.hnc]
  · simp [hgl, hrol]
  · intro r hr; simp [hgr r hr, hcol]
  · simp [declaredGrid, topLookup, hdata, hdv, hrol, hcol, hg]

/-- `"data": ""` — an empty string iterates like an empty list, so the validator accepts it, and
    the constructor refuses it ("Unknown input type"): the `dataIsList` guard is needed. -/
theorem valid_json_unloadable_witness :
    validateJson (fun _ => true) (apply (.setData (.str "")) (docOf
      { obs := ["o1"], samp := ["s1"], omd := [.null], smd := [.null], grid := [[0]], ttype := "OTU table",
        tableId := "None", generatedBy := "w", date := "2011-12-19" })) = .valid ∧
    loadJson (apply (.setData (.str "")) (docOf
      { obs := ["o1"], samp := ["s1"], omd := [.null], smd := [.null], grid := [[0]], ttype := "OTU table",
        tableId := "None", generatedBy := "w", date := "2011-12-19" })) = none := by decide

/-! ### HDF5: what the validator does check -/

theorem attrCheck_true {h : H5} {k : String} {f : AVal → Option Bool} (hc : attrCheck h k f = some true) :
    ∃ v, h.attr k = some v ∧ f v = some true := by
  unfold attrCheck at hc
  cases hv : h.attr k with
  | none => rw [hv] at hc; cases hc
  | some v => rw [hv] at hc; exact ⟨v, rfl, hc⟩

theorem hShape_true {v : AVal} (h : hShape v = some true) : ∃ r c, v = .ints [r, c] := by
  unfold hShape at h
  cases hu : unpackA v with
  | none => rw [hu] at h; cases h
  | some ab =>
    rw [hu] at h
    obtain ⟨a, b⟩ := ab
    simp only [Option.some.injEq, Bool.and_eq_true] at h
    cases v with
    | ints l =>
      match l, hu with
      | [r, c], _ => exact ⟨r, c, rfl⟩
    | reals l =>
      match l, hu with
      | [r, c], hu =>
        simp only [unpackA, Option.some.injEq, Prod.mk.injEq] at hu
        obtain ⟨rfl, rfl⟩ := hu
        simp [aIsInt] at h
    | str s =>
      simp only [unpackA] at hu
      split at hu
      · simp only [Option.some.injEq, Prod.mk.injEq] at hu
        obtain ⟨rfl, rfl⟩ := hu
        simp [aIsInt] at h
      · cases hu
    | int i => simp [unpackA] at hu
    | real r => simp [unpackA] at hu
    | other => simp [unpackA] at hu

theorem idsLenCheck_true {h : H5} {p : Path} {r : Int} (hc : idsLenCheck h p (.int r) = some true) :
    ∃ n, h.lenOf p = some n ∧ (n : Int) = r := by
  unfold idsLenCheck at hc
  cases hl : h.lenOf p with
  | none => rw [hl] at hc; cases hc
  | some n =>
    rw [hl] at hc
    simp only [Option.some.injEq, aEqNat, beq_iff_eq] at hc
    exact ⟨n, rfl, hc.symm⟩

/-- the metadata pass over the children of a group: what a `some true` result means -/
theorem mdLens_fold_true (h : H5) (n : Nat) : ∀ (cs : List (Path × Node)) (acc : Option Bool),
    cs.foldl (fun acc c =>
      match acc with
      | none => none
      | some false => some false
      | some true =>
        match h.lenOf c.1 with
        | none => none
        | some k => some (k == n)) acc = some true →
    acc = some true ∧ ∀ c ∈ cs, h.lenOf c.1 = some n
  | [], acc, hf => by simpa using hf
  | c :: cs, acc, hf => by
    simp only [List.foldl_cons] at hf
    obtain ⟨h1, h2⟩ := mdLens_fold_true h n cs _ hf
    cases acc with
    | none => simp at h1
    | some b =>
      cases b with
      | false => simp at h1
      | true =>
        simp only at h1
        cases hl : h.lenOf c.1 with
        | none => rw [hl] at h1; simp at h1
        | some k =>
          rw [hl] at h1
          simp only [Option.some.injEq, beq_iff_eq] at h1
          refine ⟨rfl, ?_⟩
          intro c' hc'
          rcases List.mem_cons.1 hc' with rfl | hm
          · rw [hl, h1]
          · exact h2 c' hm

theorem mdLens_fold_of_all (h : H5) (n : Nat) : ∀ (cs : List (Path × Node)),
    (∀ c ∈ cs, h.lenOf c.1 = some n) →
    cs.foldl (fun acc c =>
      match acc with
      | none => none
      | some false => some false
      | some true =>
        match h.lenOf c.1 with
        | none => none
        | some k => some (k == n)) (some true) = some true
  | [], _ => rfl
  | c :: cs, hc => by
    simp only [List.foldl_cons, hc c (by simp), beq_self_eq_true]
    exact mdLens_fold_of_all h n cs (fun c' hc' => hc c' (List.mem_cons_of_mem _ hc'))

theorem mdLens_true {h : H5} {p : Path} {n : Nat} (hm : mdLens h p n = some true) :
    h.get p = some .group ∧ ∀ c ∈ h.children p, h.lenOf c.1 = some n := by
  unfold mdLens at hm
  cases hg : h.get p with
  | none => rw [hg] at hm; cases hm
  | some nd =>
    cases nd with
    | ds l d => rw [hg] at hm; cases hm
    | group =>
      rw [hg] at hm
      exact ⟨rfl, (mdLens_fold_true h n _ _ hm).2⟩

theorem versionBlock_true {h : H5} (hv : versionBlock h = some true) (hp : (h.attr "format-version").isSome = true) :
    version21 h = true ∧ mdGroups.all h.has = true ∧
    ∃ n m, h.lenOf ["observation", "ids"] = some n ∧ h.lenOf ["sample", "ids"] = some m ∧
      mdLens h ["observation", "metadata"] n = some true ∧ mdLens h ["sample", "metadata"] m = some true := by
  unfold versionBlock at hv
  cases hf : h.attr "format-version" with
  | none => rw [hf] at hp; cases hp
  | some v =>
    rw [hf] at hv
    cases v with
    | ints l =>
      simp only at hv
      split at hv
      · rename_i hl
        have hl' : l = [2, 1] := by simpa using hl
        subst hl'
        unfold mdV210 at hv
        split at hv
        · cases hv
        · rename_i hg
          have hg' : mdGroups.all h.has = true := by simpa using hg
          cases ho : h.lenOf ["observation", "ids"] with
          | none => rw [ho] at hv; simp at hv
          | some n =>
            cases hs : h.lenOf ["sample", "ids"] with
            | none => rw [ho, hs] at hv; simp at hv
            | some m =>
              rw [ho, hs] at hv
              simp only at hv
              cases h1 : mdLens h ["observation", "metadata"] n with
              | none => rw [h1] at hv; cases hv
              | some b =>
                rw [h1] at hv
                cases b with
                | false => cases hv
                | true =>
                  exact ⟨by simp [version21, hf], hg', n, m, rfl, rfl, h1, hv⟩
      · cases hv
    | str s => cases hv
    | reals q => cases hv
    | int i => cases hv
    | real q => cases hv
    | other => cases hv

/-- what the checks shared by every requested version establish -/
theorem common_true {dateOk : String → Bool} {h : H5}
    (hv : ∀ c ∈ checksCommon dateOk h, c = some true) :
    attrsB h = true ∧ coreGroupsB h = true ∧ datasetsB h = true ∧ shapeHB h = true ∧
    (h.attr "format-version").isSome = true ∧
    ∃ n m, h.lenOf ["observation", "ids"] = some n ∧ h.lenOf ["sample", "ids"] = some m := by
  simp only [checksCommon, List.mem_append, List.mem_cons, List.not_mem_nil, or_false, List.mem_map,
    coreGroups, requiredDatasets] at hv
  have a1 := attrCheck_true (hv _ (Or.inl (Or.inl (Or.inl (Or.inl rfl)))))
  have a2 := attrCheck_true (hv _ (Or.inl (Or.inl (Or.inl (Or.inr (Or.inl rfl))))))
  have a3 := attrCheck_true (hv _ (Or.inl (Or.inl (Or.inl (Or.inr (Or.inr (Or.inl rfl)))))))
  have a4 := attrCheck_true (hv _ (Or.inl (Or.inl (Or.inl (Or.inr (Or.inr (Or.inr (Or.inl rfl))))))))
  have a5 := attrCheck_true (hv _ (Or.inl (Or.inl (Or.inl (Or.inr (Or.inr (Or.inr (Or.inr (Or.inl rfl)))))))))
  have a6 := attrCheck_true (hv _ (Or.inl (Or.inl (Or.inl (Or.inr (Or.inr (Or.inr (Or.inr (Or.inr (Or.inl rfl))))))))))
  have a7 := attrCheck_true (hv _ (Or.inl (Or.inl (Or.inl (Or.inr (Or.inr (Or.inr (Or.inr (Or.inr (Or.inr (Or.inl rfl)))))))))))
  have a8 := attrCheck_true (hv _ (Or.inl (Or.inl (Or.inl (Or.inr (Or.inr (Or.inr (Or.inr (Or.inr (Or.inr (Or.inr rfl)))))))))))
  obtain ⟨sv, hsv, hsh⟩ := a4
  obtain ⟨r, c, rfl⟩ := hShape_true hsh
  have hg : ∀ p, (p = ["observation"] ∨ p = ["sample"] ∨ p = ["observation", "matrix"] ∨
      p = ["sample", "matrix"]) → h.has p = true := by
    intro p hp
    have := hv (some (h.has p)) (Or.inl (Or.inl (Or.inr ⟨p, hp, rfl⟩)))
    simpa using this
  have hd : ∀ p, (p = ["observation", "ids"] ∨ p = ["observation", "matrix", "data"] ∨
      p = ["observation", "matrix", "indices"] ∨ p = ["observation", "matrix", "indptr"] ∨
      p = ["sample", "ids"] ∨ p = ["sample", "matrix", "data"] ∨ p = ["sample", "matrix", "indices"] ∨
      p = ["sample", "matrix", "indptr"]) → h.has p = true := by
    intro p hp
    have := hv (some (h.has p)) (Or.inl (Or.inr ⟨p, hp, rfl⟩))
    simpa using this
  have hsb : ∀ x ∈ shapeBlock h, x = some true := fun x hx => hv x (Or.inr hx)
  simp only [shapeBlock, hsv, unpackA, List.mem_cons, List.not_mem_nil, or_false, forall_eq_or_imp,
    forall_eq] at hsb
  obtain ⟨n, hn, hnr⟩ := idsLenCheck_true hsb.1
  obtain ⟨m, hm, hmc⟩ := idsLenCheck_true hsb.2
  obtain ⟨_, h2, _⟩ := a2
  refine ⟨?_, ?_, ?_, ?_, by simp [h2], n, m, hn, hm⟩
  · obtain ⟨_, h1, _⟩ := a1; obtain ⟨_, h3, _⟩ := a3
    obtain ⟨_, h5, _⟩ := a5; obtain ⟨_, h6, _⟩ := a6; obtain ⟨_, h7, _⟩ := a7; obtain ⟨_, h8, _⟩ := a8
    simp [attrsB, requiredAttrs, h1, h2, h3, hsv, h5, h6, h7, h8]
  · simp [coreGroupsB, coreGroups, hg]
  · simp [datasetsB, requiredDatasets, hd]
  · simp [shapeHB, shapeOfH, hsv, hn, hm, hnr, hmc]

/-- **HDF5, the part that is enforced** (requested version 2.1: `format_version` None, '2.1' or
    '2.1.0').  A file reported valid has the eight required attributes, the eight groups and eight
    datasets of the 2.1 specification, a `shape` attribute that is a pair of integers equal to the
    lengths of the two `ids` datasets, format version 2.1, per-ID metadata stored as groups whose every
    category has one entry per ID.
    NOT established (the full statement `validateH5 = valid → structuralHB` is false, see the
    `_witness` theorems): `indicesInRange`, `elementsTyped`, `idsNonEmpty`, `idsDistinct`. -/
theorem valid_h5_structural_partial (dateOk : String → Bool) (h : H5)
    (hv : validateH5 dateOk h = .valid) :
    attrsB h = true ∧ (coreGroupsB h = true ∧ mdGroupsB h = true) ∧ datasetsB h = true ∧
    shapeHB h = true ∧ version21 h = true ∧ mdKindB h = true ∧ mdLensB h = true := by
  unfold validateH5 at hv
  rw [verdictOf_valid] at hv
  simp only [checksH, List.mem_append, List.mem_cons, List.not_mem_nil, or_false] at hv
  obtain ⟨h1, h2, h3, h4, hfv, n, m, hn, hm⟩ := common_true (fun c hc => hv c (Or.inl hc))
  obtain ⟨h21, hmg, n', m', hn', hm', hl1, hl2⟩ := versionBlock_true (hv (versionBlock h) (Or.inr rfl)) hfv
  rw [hn] at hn'; rw [hm] at hm'
  cases hn'; cases hm'
  obtain ⟨g1, c1⟩ := mdLens_true hl1
  obtain ⟨g2, c2⟩ := mdLens_true hl2
  refine ⟨h1, ⟨h2, hmg⟩, h3, h4, h21, ?_, ?_⟩
  · simp [mdKindB, g1, g2]
  · simp only [mdLensB, hn, hm, Bool.and_eq_true, List.all_eq_true, beq_iff_eq]
    exact ⟨c1, c2⟩

/-- the same when validation against 2.0 is requested ('2.0', '2.0.0'): the metadata of a 2.0
    file is optional, so only attributes, core groups, datasets, shape and version 2.0 follow -/
theorem valid_h5_structural_v20_partial (dateOk : String → Bool) (h : H5)
    (hv : validateH5v20 dateOk h = .valid) :
    attrsB h = true ∧ coreGroupsB h = true ∧ datasetsB h = true ∧ shapeHB h = true ∧
    version20 h = true := by
  unfold validateH5v20 at hv
  rw [verdictOf_valid] at hv
  simp only [checksH20, List.mem_append, List.mem_cons, List.not_mem_nil, or_false] at hv
  obtain ⟨h1, h2, h3, h4, hfv, _⟩ := common_true (fun c hc => hv c (Or.inl hc))
  refine ⟨h1, h2, h3, h4, ?_⟩
  have hvb := hv (versionBlock20 h) (Or.inr rfl)
  unfold versionBlock20 at hvb
  cases hf : h.attr "format-version" with
  | none => rw [hf] at hfv; cases hfv
  | some v =>
    rw [hf] at hvb
    cases v with
    | ints l =>
      simp only at hvb
      split at hvb
      · rename_i hl
        have hl' : l = [2, 0] := by simpa using hl
        simp [version20, hf, hl']
      · cases hvb
    | str s => cases hvb
    | reals q => cases hvb
    | int i => cases hvb
    | real q => cases hvb
    | other => cases hvb

/-! ### HDF5: what the library writes is valid -/

theorem mdLens_of_all {h : H5} {p : Path} {n : Nat} (hg : h.get p = some .group)
    (hc : (h.children p).all (fun c => h.lenOf c.1 == some n) = true) : mdLens h p n = some true := by
  unfold mdLens
  rw [hg]
  apply mdLens_fold_of_all
  intro c hcm
  rw [List.all_eq_true] at hc
  simpa using hc c hcm

/-- **Every tree with the writer's shape invariants (`writerTreeB`; the harness checks that each file
    `to_hdf5` really wrote satisfies it) is reported valid.** -/
theorem written_h5_valid (dateOk : String → Bool) (h : H5) (hw : writerTreeB dateOk h = true) :
    validateH5 dateOk h = .valid := by
  simp only [writerTreeB, Bool.and_eq_true] at hw
  obtain ⟨⟨⟨⟨⟨⟨⟨⟨⟨⟨w1, w2⟩, w3⟩, w4⟩, w5⟩, w6⟩, w7⟩, w8⟩, w9⟩, w10⟩, w11⟩ := hw
  have hfv : h.attr "format-version" = some (.ints [2, 1]) := by simpa using w2
  cases hurl : h.attr "format-url" with
  | none => rw [hurl] at w1; cases w1
  | some vurl =>
  cases hty : h.attr "type" with
  | none => rw [hty] at w3; cases w3
  | some vty =>
  cases hnnz : h.attr "nnz" with
  | none => rw [hnnz] at w4; cases w4
  | some vnnz =>
  cases hgb : h.attr "generated-by" with
  | none => rw [hgb] at w5; cases w5
  | some vgb =>
  cases hid : h.attr "id" with
  | none => rw [hid] at w6; cases w6
  | some vid =>
  cases hcd : h.attr "creation-date" with
  | none => rw [hcd] at w7; cases w7
  | some vcd =>
  cases hsh : h.attr "shape" with
  | none => rw [hsh] at w11; cases w11
  | some vsh =>
  rw [hurl] at w1; rw [hty] at w3; rw [hnnz] at w4; rw [hgb] at w5; rw [hcd] at w7; rw [hsh] at w11
  cases vurl <;> simp only [Bool.false_eq_true] at w1
  cases vty <;> simp only [Bool.false_eq_true] at w3
  cases vnnz <;> simp only [Bool.false_eq_true] at w4
  cases vgb <;> simp only [Bool.false_eq_true] at w5
  cases vcd <;> simp only [Bool.false_eq_true] at w7
  cases hlo : h.lenOf ["observation", "ids"] with
  | none => rw [hlo] at w11; cases vsh <;> simp at w11 <;> split at w11 <;> simp at w11
  | some n =>
  cases hls : h.lenOf ["sample", "ids"] with
  | none => rw [hlo, hls] at w11; cases vsh <;> simp at w11 <;> split at w11 <;> simp at w11
  | some m =>
  rw [hlo, hls] at w11
  cases vsh with
  | ints l =>
    match l, w11 with
    | [r, c], w11 =>
      simp only [Bool.and_eq_true, beq_iff_eq] at w11
      obtain ⟨⟨⟨⟨⟨e1, e2⟩, g1⟩, g2⟩, c1⟩, c2⟩ := w11
      have hvb : versionBlock h = some true := by
        have h1 := mdLens_of_all (n := n) g1 c1
        have h2 := mdLens_of_all (n := m) g2 c2
        simp [versionBlock, hfv, mdV210, w9, hlo, hls, h1, h2]
      unfold validateH5
      rw [verdictOf_valid]
      intro x hx
      simp only [checksH, checksCommon, List.mem_append, List.mem_cons, List.not_mem_nil, or_false,
        List.mem_map] at hx
      rw [List.all_eq_true] at w8 w10
      rcases hx with (((hx | ⟨p, hp, rfl⟩) | ⟨p, hp, rfl⟩) | hx) | rfl
      · rcases hx with rfl | rfl | rfl | rfl | rfl | rfl | rfl | rfl
        · simp [attrCheck, hurl, hUrl, w1]
        · simp [attrCheck, hfv, hVersion, versionSet]
        · simp [attrCheck, hty, hType, w3]
        · simp [attrCheck, hsh, hShape, unpackA, aIsInt]
        · simp [attrCheck, hnnz, hNnz, w4]
        · simp [attrCheck, hgb, hGeneratedBy, w5]
        · simp [attrCheck, hid]
        · simp [attrCheck, hcd, hDate, w7]
      · rw [w8 p hp]
      · rw [w10 p hp]
      · simp only [shapeBlock, hsh, unpackA, List.mem_cons, List.not_mem_nil, or_false] at hx
        rcases hx with rfl | rfl
        · simp [idsLenCheck, hlo, aEqNat, e1]
        · simp [idsLenCheck, hls, aEqNat, e2]
      · exact hvb
  | str s => simp at w11
  | int i => simp at w11
  | real q => simp at w11
  | reals q => simp at w11
  | other => simp at w11

/-! ### `holds` is true of the model's own observations -/

def loadObsOf (j : J) : LoadObs :=
  match loadJson j with
  | some t => { ok := true, obs := strIds t.obs, samp := strIds t.samp, grid := t.grid }
  | none => { ok := false, obs := [], samp := [], grid := [] }

/-- what the model predicts the harness observes for a document (`tids`: the IDs of the table a
    written file came from, when the harness knows them) -/
def modelObs (dateOk : String → Bool) (j : J) (isBase : Bool)
    (tids : Option (List String × List String) := none) : JsonObs :=
  { isBase := isBase, verdict := validateJson dateOk j, load := some (loadObsOf j), tableIds := tids }

theorem ids_zipWith_recOf : ∀ (ids : List String) (mds : List J), mds.length = ids.length →
    (List.zipWith recOf ids mds).filterMap (fun r => getItem r "id") = ids.map J.str
  | [], _, _ => by simp
  | _ :: _, [], h => by simp at h
  | id :: ids, md :: mds, h => by
    simp only [List.length_cons, Nat.add_right_cancel_iff] at h
    simp [List.zipWith_cons_cons, getItem_recOf_id, ids_zipWith_recOf ids mds h]

theorem strIds_map_str : ∀ (l : List String), strIds (l.map J.str) = l
  | [] => rfl
  | x :: xs => by
    have ih := strIds_map_str xs
    simp only [strIds, List.map_cons, List.filterMap_cons] at ih ⊢
    rw [ih]

theorem strIds_length : ∀ (l : List J), l.all isStr = true → (strIds l).length = l.length
  | [], _ => rfl
  | x :: xs, h => by
    simp only [List.all_cons, Bool.and_eq_true] at h
    have ih := strIds_length xs h.2
    cases x <;> simp [isStr] at h
    simp only [strIds, List.filterMap_cons, List.length_cons] at ih ⊢
    omega

theorem chk_true (c : String) (b : Bool) (h : b = true) : Codec.chk c b = none := by
  simp [Codec.chk, h]

/-- **`holds` (JSON) on the model.**  For every document `j` — in particular every result of any
    number of mutations — and for a base flag that is only raised for a document the writer denotes
    for a table of the domain, the predicate the harness evaluates on the real code is true of the
    model's verdict and load result. -/
theorem model_holds (dateOk : String → Bool) (j : J) (isBase : Bool)
    (tids : Option (List String × List String))
    (hb : isBase = true → ∃ t : WTable, t.wfb dateOk = true ∧ j = docOf t)
    (hids : ∀ eo es, tids = some (eo, es) →
      ∃ t : WTable, t.wfb dateOk = true ∧ j = docOf t ∧ eo = t.obs ∧ es = t.samp) :
    holdsJson j (modelObs dateOk j isBase tids) = none := by
  have c1 : (!isBase || validateJson dateOk j == .valid) = true := by
    cases hi : isBase with
    | false => simp
    | true =>
      obtain ⟨t, ht, rfl⟩ := hb hi
      simp [written_json_valid dateOk t ht]
  have c2 : (!(corrupt j) || validateJson dateOk j != .valid) = true := by
    cases hc : corrupt j with
    | false => simp
    | true => simp [corrupt_rejected dateOk j hc]
  have c3 : (!(validateJson dateOk j == .valid && numericElem j && idsAreStrings j && dataIsList j) ||
      loadMatches j (loadObsOf j)) = true := by
    cases hg : (validateJson dateOk j == .valid && numericElem j && idsAreStrings j && dataIsList j) with
    | false => simp
    | true =>
      simp only [Bool.and_eq_true, beq_iff_eq] at hg
      obtain ⟨⟨⟨hv, hn⟩, hi⟩, hd⟩ := hg
      obtain ⟨t, hl, ho, hs, ⟨so, ss⟩, hds, hgl, hgr, hdg⟩ := valid_json_loads_partial dateOk j hv hn hi hd
      have lo := strIds_length _ so
      have ls := strIds_length _ ss
      have hall : t.grid.all (fun r => r.length == t.samp.length) = true := by
        rw [List.all_eq_true]; intro r hr; simp [hgr r hr]
      simp only [Bool.not_true, Bool.false_or, loadMatches, loadObsOf, hl, ← ho, ← hs, lo, ls, hds, hgl,
        hdg, hall, beq_self_eq_true, Bool.and_self]
  have c4 : tableIdsOk tids (validateJson dateOk j == .valid && numericElem j) (some (loadObsOf j)) = true := by
    cases htd : tids with
    | none => rfl
    | some p =>
      obtain ⟨eo, es⟩ := p
      obtain ⟨t, hwf, rfl, rfl, rfl⟩ := hids eo es htd
      have hv := written_json_valid dateOk t hwf
      have hwf' := hwf
      simp only [WTable.wfb, Bool.and_eq_true, decide_eq_true_eq, beq_iff_eq] at hwf'
      obtain ⟨⟨⟨⟨⟨⟨⟨⟨⟨⟨⟨⟨⟨⟨_, _⟩, _⟩, _⟩, hol⟩, hsl⟩, _⟩, _⟩, _⟩, _⟩, _⟩, _⟩, _⟩, _⟩, _⟩ := hwf'
      obtain ⟨_, _, _, l4, l5, _, l7, _, l9, _, _, _⟩ := lookup_doc t
      have hidR : idsOf (docOf t) "rows" = t.obs.map J.str := by
        simp [idsOf, records, docOf, topLookup, l4, pyIter, ids_zipWith_recOf _ _ hol]
      have hidC : idsOf (docOf t) "columns" = t.samp.map J.str := by
        simp [idsOf, records, docOf, topLookup, l5, pyIter, ids_zipWith_recOf _ _ hsl]
      have hn : numericElem (docOf t) = true := by simp [numericElem, docOf, topLookup, l9]
      have hd : dataIsList (docOf t) = true := by simp [dataIsList, docOf, topLookup, l7]
      have hi : idsAreStrings (docOf t) = true := by
        simp [idsAreStrings, hidR, hidC, isStr]
      obtain ⟨t', hl, ho, hs, _⟩ := valid_json_loads_partial dateOk _ hv hn hi hd
      simp only [tableIdsOk, hv, hn, loadObsOf, hl, ho, hs, hidR, hidC, strIds_map_str, beq_self_eq_true,
        Bool.and_self, Bool.not_true, Bool.false_or]
  simp only [holdsJson, modelObs, Codec.allV, List.foldl_cons, List.foldl_nil]
  rw [chk_true _ _ c1, chk_true _ _ c2, chk_true _ _ c3, chk_true _ _ c4]
  rfl

def modelObsH (dateOk : String → Bool) (fv : FV) (h : H5) (isBase : Bool) : H5Obs :=
  { isBase := isBase, verdict := validateH5As dateOk fv h, fv := fv }

/-- **`holds` (HDF5) on the model, `_partial`**, for every accepted spelling of the `format_version`
    argument: guard = the conjuncts the validator does not look at are true of the tree
    (`uncheckedConjunctsH`).  Without the guard the clause `corrupt_rejected` fails (the
    `h5_*_witness` theorems). -/
theorem model_holds_h5_partial (dateOk : String → Bool) (fv : FV) (h : H5) (isBase : Bool)
    (hb : isBase = true → writerTreeB dateOk h = true)
    (hu : (uncheckedConjunctsH h).all (fun p => p.2) = true) :
    holdsH5 h (modelObsH dateOk fv h isBase) = none := by
  have key : validateH5As dateOk fv h = .valid → checkedHAs fv h = true := by
    intro hv
    unfold validateH5As at hv
    unfold checkedHAs
    cases h2 : fv.two0 with
    | true =>
      simp only [h2, if_true] at hv ⊢
      obtain ⟨h1, h2, h3, h4, h5⟩ := valid_h5_structural_v20_partial dateOk h hv
      simp [checkedH20, checkedConjunctsH20, h1, h2, h3, h4, h5]
    | false =>
      simp only [h2, Bool.false_eq_true, if_false] at hv ⊢
      obtain ⟨h1, ⟨h2, h2'⟩, h3, h4, h5, h6, h7⟩ := valid_h5_structural_partial dateOk h hv
      simp [checkedH, checkedConjunctsH, h1, h2, h2', h3, h4, h5, h6, h7]
  have c1 : (!isBase || fv.two0 || validateH5As dateOk fv h == .valid) = true := by
    cases hi : isBase with
    | false => simp
    | true =>
      cases h2 : fv.two0 with
      | true => simp
      | false => simp [validateH5As, h2, written_h5_valid dateOk h (hb hi)]
  have c2 : (checkedHAs fv h || validateH5As dateOk fv h != .valid) = true := by
    cases hv : validateH5As dateOk fv h with
    | valid => simp [key hv]
    | invalid => simp
    | crash => simp
  have c3 : (!(corruptHAs fv h) || validateH5As dateOk fv h != .valid) = true := by
    cases hv : validateH5As dateOk fv h with
    | valid => simp [corruptHAs, key hv, hu]
    | invalid => simp
    | crash => simp
  simp only [holdsH5, modelObsH, Codec.allV, List.foldl_cons, List.foldl_nil]
  rw [chk_true _ _ c1, chk_true _ _ c2, chk_true _ _ c3]
  rfl

/-- a written file is valid under each spelling that requests 2.1, and refused (version mismatch)
    when validation against 2.0 is requested -/
theorem written_h5_valid_all_spellings (dateOk : String → Bool) (h : H5)
    (hw : writerTreeB dateOk h = true) :
    validateH5As dateOk .default h = .valid ∧ validateH5As dateOk .v21 h = .valid ∧
    validateH5As dateOk .v210 h = .valid := by
  have := written_h5_valid dateOk h hw
  simp [validateH5As, FV.two0, this]

/-! ### concrete tables: non-vacuity and the witnesses of the known finding -/

def okDate : String → Bool := fun _ => true

/-- a 2 x 3 table of the domain -/
def wT : WTable :=
  { obs := ["o1", "o2"], samp := ["s1", "s2", "s3"],
    omd := [.null, .obj [("taxonomy", .arr [.str "k__A"])]], smd := [.null, .null, .null],
    grid := [[1, 0, 3], [0, 2, 0]], ttype := "OTU table", tableId := "None", generatedBy := "w",
    date := "2011-12-19" }

def wH : H5 := h5Of wT ["taxonomy"] []

example : wT.wfb okDate = true := by decide
example : validateJson okDate (docOf wT) = .valid := written_json_valid okDate wT (by decide)
example : structuralB (docOf wT) = true := by decide
example : writerTreeB okDate wH = true := by decide
example : validateH5 okDate wH = .valid := written_h5_valid okDate wH (by decide)
example : structuralHB wH = true := by decide
example : validateH5As okDate .v200 wH = .invalid := by decide
example : validateH5As okDate .v20 (applyH (.deleteNode ["sample", "metadata"]) (applyH (.deleteNode ["observation", "metadata"])
    (applyH (.setAttr "format-version" (.ints [2, 0])) wH))) = .valid := by decide
example : validateH5As okDate .v210 (applyH (.deleteNode ["observation", "metadata"]) wH) = .invalid := by decide
example : holdsJson (docOf wT) (modelObs okDate (docOf wT) true (some (wT.obs, wT.samp))) = none :=
  model_holds okDate _ true _ (fun _ => ⟨wT, by decide, rfl⟩)
    (fun _ _ h => by cases h; exact ⟨wT, by decide, rfl, rfl, rfl⟩)

/-- instances of the one theorem: typical single and double mutations are corrupt, hence refused -/
example : corrupt (apply (.dupId .rows 0 1) (docOf wT)) = true := by decide
example : validateJson okDate (apply (.dupId .rows 0 1) (docOf wT)) = .invalid := by decide
example : validateJson okDate (apply (.deleteKey "matrix_type") (docOf wT)) = .crash := by decide
example : validateJson okDate (apply (.appendCoord (.arr [.int 2, .int 0, .flt 1])) (docOf wT)) = .invalid := by
  decide
example : validateJson okDate (apply (.setShape 3 3) (apply (.blankId .columns 2) (docOf wT))) = .invalid := by
  decide
example : validateJson okDate (apply (.setMetadata .rows 0 (.int 5)) (docOf wT)) = .invalid := by decide
example : corrupt (apply (.swapElemType (.str "int")) (docOf wT)) = true := by decide

/-- **Witnesses of the known finding (HDF5 validator looks at presence and lengths only).**
    Each mutated tree is reported valid although the named conjunct of the property is false. -/
theorem h5_index_out_of_range_witness :
    validateH5 okDate (applyH (.setIndex .observation 0 3) wH) = .valid ∧
    indicesB (applyH (.setIndex .observation 0 3) wH) = false := by decide

theorem h5_index_negative_witness :
    validateH5 okDate (applyH (.setIndex .sample 0 (-1)) wH) = .valid ∧
    indicesB (applyH (.setIndex .sample 0 (-1)) wH) = false := by decide

theorem h5_data_elem_type_witness :
    validateH5 okDate (applyH (.retypeData .observation) wH) = .valid ∧
    typedHB (applyH (.retypeData .observation) wH) = false := by decide

theorem h5_indices_elem_type_witness :
    validateH5 okDate (applyH (.retypeIndices .sample) wH) = .valid ∧
    typedHB (applyH (.retypeIndices .sample) wH) = false := by decide

theorem h5_blank_id_witness :
    validateH5 okDate (applyH (.blankId .observation 0) wH) = .valid ∧
    idsNonEmptyHB (applyH (.blankId .observation 0) wH) = false := by decide

theorem h5_dup_id_witness :
    validateH5 okDate (applyH (.dupId .sample 0 1) wH) = .valid ∧
    idsDistinctHB (applyH (.dupId .sample 0 1) wH) = false := by decide

/-- repaired (dd41daf0): a missing metadata group, a category of the wrong length, metadata stored
    as a dataset and a version mismatch are refused -/
example : validateH5 okDate (applyH (.deleteNode ["observation", "metadata"]) wH) = .invalid := by decide
example : validateH5 okDate (applyH (.deleteNode ["sample", "group-metadata"]) wH) = .invalid := by decide
example : validateH5 okDate (applyH (.resizeDataset ["observation", "metadata", "taxonomy"] 5) wH) = .invalid := by
  decide
example : validateH5 okDate (applyH (.groupToDataset ["sample", "metadata"]) wH) = .crash := by decide
example : validateH5 okDate (applyH (.setAttr "format-version" (.ints [2, 0])) wH) = .invalid := by decide

/-- the full HDF5 statement is false: validity does not imply the structural facts -/
theorem valid_h5_structural_witness :
    ¬ (∀ h : H5, validateH5 okDate h = .valid → structuralHB h = true) := by
  intro hall
  have := hall _ h5_index_out_of_range_witness.1
  revert this
  decide

end Biom.C15
