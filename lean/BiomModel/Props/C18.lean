/-
  C18 — property theorems.  Every statement is for EVERY table (any shape, any values, any IDs),
  EVERY mapping (any overlap with the table's IDs), every key list and every file of the row grammar.
-/
import BiomModel.Lemmas.C18

namespace Biom.C18

variable {α : Type}

/-! ## add_metadata -/

/-- decidable well-formedness of an update: one metadata entry per ID on the axis (when it has
    metadata), the mapping is a dict (distinct IDs) of dicts (distinct keys) -/
def addWF (t : Table α) (m : List (Id × Md)) (ax : Axis) : Bool :=
  mdShape t ax && decide (dkeys m).Nodup && m.all (fun ie => decide (dkeys ie.2).Nodup)

theorem dget_mem {κ β : Type} [DecidableEq κ] (m : List (κ × β)) (k : κ) (v : β) (h : dget m k = some v) :
    (k, v) ∈ m := by
  induction m with
  | nil => simp [dget] at h
  | cons kv r ih =>
    obtain ⟨k0, v0⟩ := kv
    simp only [dget] at h
    by_cases e : k0 = k
    · simp only [e, if_true, Option.some.injEq] at h
      simp [e, h]
    · simp only [e, if_false] at h
      exact List.mem_cons_of_mem _ (ih h)

theorem lookupBy_some_of_mem {β : Type} (ids : List Id) (xs : List β) (t : Id) (hl : xs.length = ids.length)
    (h : t ∈ ids) : ∃ x, lookupBy ids xs t = some x := by
  induction ids generalizing xs with
  | nil => cases h
  | cons i is ih =>
    cases xs with
    | nil => simp at hl
    | cons x xs =>
      simp only [lookupBy]
      by_cases e : i = t
      · exact ⟨x, by simp [e]⟩
      · simp only [e, if_false]
        rcases List.mem_cons.mp h with h1 | h1
        · exact absurd h1.symm e
        · exact ih xs (by simpa using hl) h1

/-- **addMd_spec** — for every ID of the axis and every key: the value after `add_metadata` is the
    mapping's value when the mapping names this ID and this key (same-named keys are overwritten),
    and the previous value otherwise (other keys kept, IDs the mapping does not name untouched;
    mapping IDs that are not in the table have no effect on any table ID). -/
theorem addMd_spec (t : Table α) (m : List (Id × Md)) (ax : Axis) (hwf : addWF t m ax = true)
    (id : Id) (hid : id ∈ t.ids ax) (k : String) :
    keyOf (addMetadata t m ax) ax id k = addExpected t m ax id k := by
  simp only [addWF, Bool.and_eq_true, decide_eq_true_eq, List.all_eq_true] at hwf
  obtain ⟨⟨hshape, hm⟩, hk⟩ := hwf
  unfold keyOf addExpected Table.mdOf?
  rw [md_addMetadata_same, ids_addMetadata]
  unfold addPre keyOf Table.mdOf?
  cases hmd : t.md ax with
  | none =>
    simp only [Option.bind_none]
    unfold castMd
    by_cases hall : ((t.ids ax).map (fun id => dget m id)).all (fun x => (x.getD []).isEmpty) = true
    · simp only [hall, if_true, Option.bind_none]
      simp only [List.all_map, List.all_eq_true, Function.comp_apply] at hall
      have := hall id hid
      cases hd : dget m id with
      | none => rfl
      | some e =>
        simp only [hd, Option.getD_some, List.isEmpty_iff] at this
        subst this
        rfl
    · simp only [hall, Bool.false_eq_true, if_false, Option.bind_some]
      rw [List.map_map, lookupBy_map_self _ _ _ hid]
      simp only [Function.comp_apply, Option.bind_some]
      cases hd : dget m id with
      | none => simp [dget]
      | some e => simp only [Option.getD_some]; cases dget e k <;> rfl
  | some mds =>
    simp only [mdShape, hmd, beq_iff_eq] at hshape
    rw [castMd_map_some, lookup_collapsed, lookupBy_fold_updStep _ _ _ _ hm]
    obtain ⟨old, hold⟩ := lookupBy_some_of_mem (t.ids ax) mds id hshape hid
    simp only [hold, Option.map_some, Option.bind_some]
    cases hd : dget m id with
    | none => rfl
    | some e =>
      have hmem := dget_mem m id e hd
      have hke : (dkeys e).Nodup := by simpa using hk (id, e) hmem
      simp only [dget_dictUpdate_nodup old e k hke]
      cases dget e k <;> rfl

/-- `_cast_metadata` leaves the other axis as it is (a real table never holds a tuple of empty entries there) -/
theorem addMd_other_axis (t : Table α) (m : List (Id × Md)) (ax : Axis) (h : mdInformative (t.md ax.other) = true) :
    (addMetadata t m ax).md ax.other = t.md ax.other := by
  rw [md_addMetadata_other]
  cases hmd : t.md ax.other with
  | none => rfl
  | some mds =>
    simp only [hmd, mdInformative, Bool.not_eq_true'] at h
    simp only [Option.map_some, castMd_map_some, h, Bool.false_eq_true, if_false]

theorem mdShape_addMetadata (t : Table α) (m : List (Id × Md)) (ax : Axis) (h : mdShape t ax = true) :
    mdShape (addMetadata t m ax) ax = true := by
  unfold mdShape
  rw [md_addMetadata_same, ids_addMetadata]
  unfold addPre
  cases hmd : t.md ax with
  | none =>
    simp only [castMd]
    by_cases hc : ((t.ids ax).map (fun id => dget m id)).all (fun x => (x.getD []).isEmpty) = true
    · simp [hc]
    · simp [hc]
  | some mds =>
    simp only [mdShape, hmd, beq_iff_eq] at h
    simp only [castMd_map_some]
    by_cases hc : (m.foldl (updStep (t.ids ax)) mds).all (·.isEmpty) = true
    · simp [hc]
    · simp [hc, fold_updStep_length, h]

/-- unknown IDs are ignored: an ID that is not on the axis has no metadata afterwards either -/
theorem addMd_unknown_ignored (t : Table α) (m : List (Id × Md)) (ax : Axis) (id : Id) (hid : id ∉ t.ids ax)
    (k : String) : keyOf (addMetadata t m ax) ax id k = none := by
  unfold keyOf Table.mdOf?
  rw [ids_addMetadata]
  cases (addMetadata t m ax).md ax with
  | none => rfl
  | some mds => simp [lookupBy_none_of_not_mem _ mds id hid]

theorem addMd_holds (t : Table α) [DecidableEq α] (m : List (Id × Md)) (ax : Axis) (hwf : addWF t m ax = true)
    (ho : mdInformative (t.md ax.other) = true) : addHolds t m ax (addMetadata t m ax) = true := by
  have hf := frame_addMetadata t m ax
  have hshape : mdShape t ax = true := by
    simp only [addWF, Bool.and_eq_true] at hwf; exact hwf.1.1
  unfold addHolds frameSame addAxisClause
  simp only [hf.1, hf.2.1, hf.2.2.1, hf.2.2.2, beq_self_eq_true, decide_true, Bool.and_self, Bool.true_and,
    mdShape_addMetadata t m ax hshape, addMd_other_axis t m ax ho, Bool.and_true]
  simp only [List.all_eq_true, beq_iff_eq]
  intro id hid k _
  exact addMd_spec t m ax hwf id hid k

/-! ## del_metadata -/

theorem keyOf_delAxis (ks : List String) (md : Option (List Md)) (ids : List Id) (id : Id) (k : String) :
    (((delAxis ks md).bind (fun m => lookupBy ids m id)).bind (fun e => dget e k)) =
      if k ∈ ks then none else ((md.bind (fun m => lookupBy ids m id)).bind (fun e => dget e k)) := by
  cases md with
  | none => simp [delAxis]
  | some mds =>
    simp only [delAxis]
    have hmap : ((lookupBy ids (mds.map (fun e => ks.foldl dictDel e)) id).bind (fun e => dget e k)) =
        if k ∈ ks then none else ((lookupBy ids mds id).bind (fun e => dget e k)) := by
      rw [lookupBy_map]
      cases lookupBy ids mds id with
      | none => simp
      | some e => simp [dget_foldl_dictDel]
    split
    · rename_i hc
      simp only [Option.bind_none, Option.bind_some]
      by_cases hk : k ∈ ks
      · simp [hk]
      · simp only [hk, if_false]
        simp only [Bool.and_eq_true, List.all_eq_true] at hc
        cases hl : lookupBy ids mds id with
        | none => rfl
        | some e =>
          have hm : (ks.foldl dictDel e) ∈ mds.map (fun e => ks.foldl dictDel e) :=
            List.mem_map_of_mem (lookupBy_mem _ _ _ _ hl)
          have hemp := hc.2 _ hm
          have hd := dget_foldl_dictDel ks e k
          rw [List.isEmpty_iff.mp hemp] at hd
          simp only [hk, if_false] at hd
          simp only [Option.bind_some]
          rw [← hd]; rfl
    · simp only [Option.bind_some]
      exact hmap

theorem keyOf_delOn (keys : Option (List String)) (md : Option (List Md)) (ids : List Id) (id : Id) (k : String) :
    (((delOn keys md).bind (fun m => lookupBy ids m id)).bind (fun e => dget e k)) =
      if (match keys with | none => true | some ks => ks.contains k) then none
      else ((md.bind (fun m => lookupBy ids m id)).bind (fun e => dget e k)) := by
  cases keys with
  | none => simp [delOn]
  | some ks => simp only [delOn, keyOf_delAxis, List.contains_iff_mem]

theorem delMetadata_ok (t : Table α) (keys : Option (List String)) (arg : AxisArg) (h : arg ≠ .bad) :
    delMetadata t keys arg = .ok { t with omd := if arg.chosen .obs then delOn keys t.omd else t.omd,
                                          smd := if arg.chosen .samp then delOn keys t.smd else t.smd } := by
  simp [delMetadata, h]

/-- **delMd_spec** — after `del_metadata(keys, axis)`: on a chosen axis the named keys (all keys when
    `keys` is None) are gone on every ID; every other (axis, ID, key) is as before. -/
theorem delMd_spec (t t' : Table α) (keys : Option (List String)) (arg : AxisArg)
    (h : delMetadata t keys arg = .ok t') (ax : Axis) (id : Id) (k : String) :
    keyOf t' ax id k = delExpected t keys arg ax id k := by
  have hb : arg ≠ .bad := by
    intro e; simp [delMetadata, e] at h
  rw [delMetadata_ok t keys arg hb] at h
  cases h
  unfold keyOf delExpected Table.mdOf?
  cases ax with
  | obs =>
    simp only [Table.md, Table.ids]
    by_cases hc : arg.chosen .obs = true
    · simp only [hc, if_true, keyOf_delOn, Bool.true_and]; rfl
    · simp only [hc, Bool.false_eq_true, if_false, Bool.false_and]; rfl
  | samp =>
    simp only [Table.md, Table.ids]
    by_cases hc : arg.chosen .samp = true
    · simp only [hc, if_true, keyOf_delOn, Bool.true_and]; rfl
    · simp only [hc, Bool.false_eq_true, if_false, Bool.false_and]; rfl

/-- an unrecognised axis is refused -/
theorem delMd_bad_axis (t : Table α) (keys : Option (List String)) :
    delMetadata t keys .bad = .error .unknownAxis := by
  simp [delMetadata]


theorem delAxis_length (ks : List String) (md mds' : Option (List Md)) (n : Nat)
    (h : ∀ mds, md = some mds → mds.length = n) (_ : mds' = delAxis ks md) :
    ∀ r, delAxis ks md = some r → r.length = n := by
  intro r hr
  cases md with
  | none => simp [delAxis] at hr
  | some mds =>
    simp only [delAxis] at hr
    split at hr
    · cases hr
    · cases hr; simp [h mds rfl]

theorem collapsed_delAxis (ks : List String) (md : Option (List Md)) : collapsed (delAxis ks md) = true := by
  cases md with
  | none => rfl
  | some mds =>
    simp only [delAxis]
    by_cases hc : (!(mds.map (fun e => ks.foldl dictDel e)).isEmpty &&
        (mds.map (fun e => ks.foldl dictDel e)).all (·.isEmpty)) = true
    · simp only [hc, if_true]; rfl
    · simp only [hc, Bool.false_eq_true, if_false, collapsed]
      generalize mds.map (fun e => ks.foldl dictDel e) = l at hc
      cases hl : l.isEmpty with
      | true => rfl
      | false =>
        simp only [hl, Bool.not_false, Bool.true_and, Bool.not_eq_true] at hc
        simp only [Bool.false_or]
        clear hl
        induction l with
        | nil => simp at hc
        | cons x xs ih =>
          simp only [List.all_cons, Bool.and_eq_false_iff] at hc
          simp only [List.any_cons, Bool.or_eq_true]
          rcases hc with h1 | h1
          · left; simp [h1]
          · right; exact ih h1

/-- what `del_metadata` leaves on one axis -/
def delResult (t : Table α) (keys : Option (List String)) (arg : AxisArg) : Table α :=
  { t with omd := if arg.chosen .obs then delOn keys t.omd else t.omd,
           smd := if arg.chosen .samp then delOn keys t.smd else t.smd }

theorem md_delResult (t : Table α) (keys : Option (List String)) (arg : AxisArg) (ax : Axis) :
    (delResult t keys arg).md ax = if arg.chosen ax then delOn keys (t.md ax) else t.md ax := by
  cases ax <;> rfl

theorem mdShape_delResult (t : Table α) (keys : Option (List String)) (arg : AxisArg) (ax : Axis)
    (h : mdShape t ax = true) : mdShape (delResult t keys arg) ax = true := by
  unfold mdShape
  rw [md_delResult]
  have hids : (delResult t keys arg).ids ax = t.ids ax := by cases ax <;> rfl
  rw [hids]
  by_cases hc : arg.chosen ax = true
  · simp only [hc, if_true]
    cases keys with
    | none => rfl
    | some ks =>
      simp only [delOn]
      cases hd : delAxis ks (t.md ax) with
      | none => rfl
      | some r =>
        have := delAxis_length ks (t.md ax) _ (t.ids ax).length (by
          intro mds hm
          simpa [mdShape, hm] using h) rfl r hd
        simp [this]
  · simp only [hc, Bool.false_eq_true, if_false]
    exact h

theorem delAxisClause_ok (t : Table α) (keys : Option (List String)) (arg : AxisArg) (hb : arg ≠ .bad)
    (ax : Axis) (h : mdShape t ax = true) : delAxisClause t keys arg ax (delResult t keys arg) = true := by
  have hok : delMetadata t keys arg = .ok (delResult t keys arg) := delMetadata_ok t keys arg hb
  unfold delAxisClause
  simp only [Bool.and_eq_true, mdShape_delResult t keys arg ax h, true_and, List.all_eq_true, beq_iff_eq]
  refine ⟨fun id _ k _ => delMd_spec t _ keys arg hok ax id k, ?_⟩
  rw [md_delResult]
  by_cases hc : arg.chosen ax = true
  · simp only [hc, if_true]
    cases keys with
    | none => rfl
    | some ks => exact collapsed_delAxis ks (t.md ax)
  · simp [hc]

theorem delMd_holds [DecidableEq α] (t : Table α) (keys : Option (List String)) (arg : AxisArg) (hb : arg ≠ .bad)
    (h : (mdShape t .obs && mdShape t .samp) = true) : delHolds t keys arg (delResult t keys arg) = true := by
  simp only [Bool.and_eq_true] at h
  unfold delHolds
  rw [delAxisClause_ok t keys arg hb .obs h.1, delAxisClause_ok t keys arg hb .samp h.2]
  simp [frameSame, delResult]

/-- **md_ops_frame** — neither operation changes the IDs, their order, any matrix value or the type -/
theorem md_ops_frame (t : Table α) (m : List (Id × Md)) (ax : Axis) (keys : Option (List String)) (arg : AxisArg) :
    ((addMetadata t m ax).obs = t.obs ∧ (addMetadata t m ax).samp = t.samp ∧
      (addMetadata t m ax).rows = t.rows ∧ (addMetadata t m ax).ttype = t.ttype) ∧
    (∀ t', delMetadata t keys arg = .ok t' →
      t'.obs = t.obs ∧ t'.samp = t.samp ∧ t'.rows = t.rows ∧ t'.ttype = t.ttype) := by
  refine ⟨frame_addMetadata t m ax, ?_⟩
  intro t' h
  by_cases hb : arg = .bad
  · simp [delMetadata, hb] at h
  · rw [delMetadata_ok t keys arg hb] at h
    cases h
    exact ⟨rfl, rfl, rfl, rfl⟩

/-- **store_others_unchanged** — in the model live tables are values in a store and an update
    replaces the receiver's slot: every other slot holds the table it held (the implementation's
    tables are objects that may share per-ID dicts; that they do not is checked on the real code by
    the `others-unchanged` clause of the correspondence, not proved). -/
theorem store_others_unchanged (f : Table α → Table α) (i j : Nat) (ts : List (Table α)) (h : j ≠ i) :
    (storeUpdate f i ts)[j]? = ts[j]? := by
  unfold storeUpdate
  induction ts generalizing i j with
  | nil => cases i <;> rfl
  | cons x xs ih =>
    cases i with
    | zero =>
      cases j with
      | zero => exact absurd rfl h
      | succ j' => rfl
    | succ i' =>
      cases j with
      | zero => rfl
      | succ j' =>
        simp only [modifyAt, List.getElem?_cons_succ]
        exact ih i' j' (fun e => h (by rw [e]))

/-- the collapse rule: with explicit keys a chosen axis ends up without metadata exactly when it had
    entries and every entry lost all its keys; with `keys=None` it always ends up without -/
theorem delMd_collapse (ks : List String) (mds : List Md) :
    delAxis ks (some mds) = none ↔ (mds ≠ [] ∧ ∀ e ∈ mds, ∀ k, dget e k ≠ none → k ∈ ks) := by
  simp only [delAxis]
  constructor
  · intro h
    split at h
    · rename_i hc
      simp only [Bool.and_eq_true, List.all_eq_true, Bool.not_eq_true', List.isEmpty_eq_false_iff,
        ne_eq, List.map_eq_nil_iff] at hc
      refine ⟨hc.1, ?_⟩
      intro e he k hk
      have hemp := hc.2 _ (List.mem_map_of_mem he)
      have hd := dget_foldl_dictDel ks e k
      rw [List.isEmpty_iff.mp hemp] at hd
      by_cases hin : k ∈ ks
      · exact hin
      · simp only [hin, if_false] at hd
        exact absurd hd.symm hk
    · cases h
  · intro ⟨hne, hall⟩
    have hc : (!(mds.map (fun e => ks.foldl dictDel e)).isEmpty &&
        (mds.map (fun e => ks.foldl dictDel e)).all (·.isEmpty)) = true := by
      simp only [Bool.and_eq_true, Bool.not_eq_true', List.isEmpty_eq_false_iff, ne_eq, List.map_eq_nil_iff,
        List.all_eq_true, List.mem_map, forall_exists_index, and_imp, forall_apply_eq_imp_iff₂]
      refine ⟨hne, ?_⟩
      intro e he
      cases hf : ks.foldl dictDel e with
      | nil => rfl
      | cons kv r =>
        exfalso
        obtain ⟨k0, v0⟩ := kv
        have hd := dget_foldl_dictDel ks e k0
        rw [hf] at hd
        simp only [dget, if_true] at hd
        by_cases hin : k0 ∈ ks
        · simp [hin] at hd
        · simp only [hin, if_false] at hd
          exact hin (hall e he k0 (by rw [← hd]; simp))
    rw [if_pos hc]


/-! ## MetadataMap.from_file -/

/-- **fromFile_relation** — for every file of the row grammar (`fileOk`: clean header names; `#`
    lines after the header are comments; blank lines; data rows of any length whose fields carry no
    tab and no quote inside, with blanks and quotes around them; non-empty ID not starting with `#`;
    last written field non-empty unless blanks are kept), under each of the four stripping modes,
    with or without a header override, and for EVERY per-column conversion: the loop over the
    rendered lines yields exactly the relation of the rows — or the refusal (no data rows,
    duplicated first column) the relation prescribes. -/
theorem fromFile_relation {β : Type} (o : Opts) (hdr0 : List Str) (conv : Str → Str → β) (f : List GLine)
    (h : fileOk o hdr0 f = true) :
    fromFileC o hdr0 conv (f.map GLine.render) = relOf o hdr0 conv f := by
  obtain ⟨hfold, hne⟩ := foldl_file o hdr0 f h
  unfold fromFileC relOf
  simp only [hfold]
  have : (fileHeader hdr0 f).isEmpty = false := by
    cases hh : fileHeader hdr0 f with
    | nil => exact absurd hh hne
    | cons _ _ => rfl
  simp only [this, Bool.false_eq_true, if_false]

/-- **fromFile_relation_wide** — the same relation for files whose rows may end in empty fields
    (`fileOkWide`: no demand on the last written field): the line-level strip removes the trailing
    tabs, the padding puts the empty texts back, and the dict is the same. -/
theorem fromFile_relation_wide {β : Type} (o : Opts) (hdr0 : List Str) (conv : Str → Str → β) (f : List GLine)
    (h : fileOkWide o hdr0 f = true) :
    fromFileC o hdr0 conv (f.map GLine.render) = relOf o hdr0 conv f := by
  obtain ⟨hfold, hne⟩ := foldl_file_wide o hdr0 f h
  obtain ⟨hok, _⟩ := fileOkWide_spec o hdr0 f h
  unfold fromFileC relOf
  simp only [hfold]
  have hHe : (fileHeader hdr0 f).isEmpty = false := by
    cases hh : fileHeader hdr0 f with
    | nil => exact absurd hh hne
    | cons _ _ => rfl
  have hpos : 0 < (fileHeader hdr0 f).length := by
    cases hh : fileHeader hdr0 f with
    | nil => exact absurd hh hne
    | cons _ _ => simp
  have hhead : ((fileRows f).map (parsedRow o (fileHeader hdr0 f).length)).map (fun r => r.headD []) =
      ((fileRows f).map (rowVals o (fileHeader hdr0 f).length)).map (fun r => r.headD []) := by
    rw [List.map_map, List.map_map]
    apply List.map_congr_left
    intro fs hfs
    exact headD_congr_take _ hpos _ _ (take_parsedRow o _ fs (mem_fileRows_ok o f hok fs hfs))
  have hent : ((fileRows f).map (parsedRow o (fileHeader hdr0 f).length)).map
        (fun v => (v.headD [], entryOf conv (fileHeader hdr0 f) v)) =
      ((fileRows f).map (rowVals o (fileHeader hdr0 f).length)).map
        (fun v => (v.headD [], entryOf conv (fileHeader hdr0 f) v)) := by
    rw [List.map_map, List.map_map]
    apply List.map_congr_left
    intro fs hfs
    have ht := take_parsedRow o (fileHeader hdr0 f).length fs (mem_fileRows_ok o f hok fs hfs)
    simp only [Function.comp_apply]
    rw [headD_congr_take _ hpos _ _ ht, entryOf_congr_take conv _ _ _ ht]
  simp only [hHe, Bool.false_eq_true, if_false, hhead, hent, List.isEmpty_map]


theorem fileOkWide_of_fileOk (o : Opts) (hdr0 : List Str) (f : List GLine) (h : fileOk o hdr0 f = true) :
    fileOkWide o hdr0 f = true := by
  simp only [fileOk, Bool.and_eq_true, List.all_eq_true] at h
  simp only [fileOkWide, Bool.and_eq_true, List.all_eq_true]
  refine ⟨?_, h.2⟩
  intro l hl
  have := h.1 l hl
  cases l with
  | row fs =>
    simp only [GLine.ok, rowOk, Bool.and_eq_true] at this
    simp only [GLine.okWide, rowOkWide, Bool.and_eq_true]
    exact this.1
  | header _ _ => exact this
  | comment _ => exact this
  | blank _ => exact this

/-- the same for a `process_fns` dict with the `except KeyError` default -/
theorem fromFile_relation_proc {β : Type} (o : Opts) (hdr0 : List Str) (proc : List (Str × (Str → β)))
    (dflt : Str → β) (f : List GLine) (h : fileOkWide o hdr0 f = true) :
    fromFile o hdr0 proc dflt (f.map GLine.render) = relOf o hdr0 (convOf proc dflt) f :=
  fromFile_relation_wide o hdr0 (convOf proc dflt) f h

/-! ## the options of the command -/

theorem dgetLast_map_const {β : Type} (ks : List Str) (f : β) (k : Str) :
    dgetLast (ks.map (fun k => (k, f))) k = if k ∈ ks then some f else none := by
  induction ks with
  | nil => rfl
  | cons k0 r ih =>
    simp only [List.map_cons, dgetLast, ih, List.mem_cons]
    by_cases h1 : k ∈ r
    · simp [h1]
    · by_cases h2 : k0 = k
      · simp [h1, h2]
      · have : ¬ k = k0 := fun e => h2 e.symm
        simp [h1, h2, this]

theorem dget_procUpdate (p : Proc) (fields : Option (List Str)) (f : Str → Val) (k : Str) :
    dget (procUpdate p fields f) k = if (fields.getD []).contains k then some f else dget p k := by
  cases fields with
  | none => simp [procUpdate]
  | some ks =>
    simp only [procUpdate, dget_dictUpdate, dgetLast_map_const, Option.getD_some, List.contains_iff_mem]
    by_cases h : k ∈ ks <;> simp [h]

/-- **procOf_priority** — the `process_fns` dict the command builds treats a column named under several
    options as: float over int over pipe-separated over semicolon-separated; any other column is kept
    as text. -/
theorem procOf_priority (c : CliOpts) (k v : Str) : convOf (procOf c) convIdent k v = convOfOpts c k v := by
  unfold convOf procOf convOfOpts
  simp only [dget_procUpdate, dget, List.contains_iff_mem]
  by_cases h1 : k ∈ c.floats.getD []
  · simp [h1]
  · by_cases h2 : k ∈ c.ints.getD []
    · simp [h1, h2]
    · by_cases h3 : k ∈ c.pipe.getD []
      · simp [h1, h2, h3]
      · by_cases h4 : k ∈ c.sc.getD []
        · simp [h1, h2, h3, h4]
        · simp [h1, h2, h3, h4]

/-! ## model_holds -/

theorem dget_self_of_nodup {κ β : Type} [DecidableEq κ] (x : List (κ × β)) (k : κ) (v : β)
    (hn : (dkeys x).Nodup) (hm : (k, v) ∈ x) : dget x k = some v := by
  induction x with
  | nil => cases hm
  | cons kv r ih =>
    obtain ⟨k0, v0⟩ := kv
    simp only [dkeys, List.map_cons, List.nodup_cons] at hn
    rcases List.mem_cons.mp hm with h | h
    · cases h; simp [dget]
    · have hk : k ∈ dkeys r := List.mem_map_of_mem (f := Prod.fst) h
      have : ¬ k0 = k := fun e => hn.1 (e ▸ hk)
      simp only [dget, this, if_false]
      exact ih hn.2 h

theorem entryMatches_self (e : List (Str × String)) : entryMatches e e = true := by
  simp [entryMatches]

theorem mappingMatches_self (x : List (Str × List (Str × String))) (hn : (dkeys x).Nodup) :
    mappingMatches x x = true := by
  simp only [mappingMatches, beq_self_eq_true, Bool.true_and, Bool.and_eq_true, List.all_eq_true]
  constructor
  · intro ie hie
    rw [dget_self_of_nodup x ie.1 ie.2 hn hie]
    exact entryMatches_self _
  · intro ie hie
    rw [dget_self_of_nodup x ie.1 ie.2 hn hie]; rfl

theorem dkeys_textMapping (m : Mapping Val) : dkeys (textMapping m) = dkeys m := by
  simp [dkeys, textMapping]

theorem relOf_ok_nodup {β : Type} (o : Opts) (hdr0 : List Str) (conv : Str → Str → β) (f : List GLine)
    (m : Mapping β) (h : relOf o hdr0 conv f = .ok m) : (dkeys m).Nodup := by
  unfold relOf at h
  simp only at h
  split at h
  · cases h
  · split at h
    · cases h
    · rename_i hnd
      cases h
      simp only [dkeys, List.map_map]
      simpa [Function.comp_def] using hnd

theorem parseHolds_relOf (o : Opts) (hdr0 : List Str) (conv : Str → Str → Val) (f : List GLine) :
    parseHolds (relOf o hdr0 conv f) ((relOf o hdr0 conv f).map textMapping) = true := by
  cases hr : relOf o hdr0 conv f with
  | error e => rfl
  | ok m =>
    simp only [parseHolds, Except.map]
    apply mappingMatches_self
    rw [dkeys_textMapping]
    exact relOf_ok_nodup o hdr0 conv f m hr

/-- **fromFile_lookup** — the relation by lookups: when a file of the grammar is accepted and its
    column names are distinct, the dict holds, for every data row and every column `c ≥ 1` of the
    header, under the row's ID and the column's name, the conversion of the row's field `c`
    (the empty text when the row is shorter). -/
theorem fromFile_lookup {β : Type} (o : Opts) (hdr0 : List Str) (conv : Str → Str → β) (f : List GLine)
    (h : fileOkWide o hdr0 f = true) (m : Mapping β) (hm : fromFileC o hdr0 conv (f.map GLine.render) = .ok m)
    (hH : (fileHeader hdr0 f).tail.Nodup) (fs : List Field) (hfs : fs ∈ fileRows f)
    (i : Nat) (hi : i < (fileHeader hdr0 f).tail.length) :
    (dget m ((fs.map (Field.expect o)).headD [])).bind (fun e => dget e (fileHeader hdr0 f).tail[i]) =
      some (conv (fileHeader hdr0 f).tail[i] (((fs.map (Field.expect o))[i + 1]?).getD [])) := by
  rw [fromFile_relation_wide o hdr0 conv f h] at hm
  have hnd := relOf_ok_nodup o hdr0 conv f m hm
  unfold relOf at hm
  simp only at hm
  split at hm
  · cases hm
  · split at hm
    · cases hm
    · cases hm
      have hmem : ((rowVals o (fileHeader hdr0 f).length fs).headD [],
          entryOf conv (fileHeader hdr0 f) (rowVals o (fileHeader hdr0 f).length fs)) ∈
          ((fileRows f).map (rowVals o (fileHeader hdr0 f).length)).map
            (fun v => (v.headD [], entryOf conv (fileHeader hdr0 f) v)) :=
        List.mem_map_of_mem (List.mem_map_of_mem hfs)
      have hid : (rowVals o (fileHeader hdr0 f).length fs).headD [] = (fs.map (Field.expect o)).headD [] :=
        headD_pad _ _
      rw [← hid, dget_self_of_nodup _ _ _ hnd hmem, Option.bind_some, dget_entryOf conv _ _ hH i hi]
      have hlen : i + 1 < (fileHeader hdr0 f).length := by
        have : (fileHeader hdr0 f).tail.length = (fileHeader hdr0 f).length - 1 := List.length_tail
        omega
      have hget : (rowVals o (fileHeader hdr0 f).length fs).tail[i]? =
          (rowVals o (fileHeader hdr0 f).length fs)[i + 1]? := by
        rw [List.getElem?_tail]
      have hsome : ∃ x, (rowVals o (fileHeader hdr0 f).length fs)[i + 1]? = some x := by
        have hl : i + 1 < (rowVals o (fileHeader hdr0 f).length fs).length := by
          unfold rowVals pad
          simp only [List.length_append, List.length_replicate, List.length_map]
          omega
        exact ⟨_, List.getElem?_eq_getElem hl⟩
      obtain ⟨x, hx⟩ := hsome
      have hpad := getD_pad (fileHeader hdr0 f).length (fs.map (Field.expect o)) (i + 1)
      rw [hget, hx, Option.map_some]
      unfold rowVals at hx
      rw [hx] at hpad
      rw [← hpad]
      rfl

/-- explicit, decidable hypotheses of `model_holds` -/
def inputWF : Input α → Bool
  | .add t m ax => addWF t m ax && mdInformative (t.md ax.other)
  | .del t _ _ => mdShape t .obs && mdShape t .samp
  | .parse o hdr0 _ f => fileOkWide o hdr0 f

/-- **model_holds** — the declarative predicate is true of what the model computes, for every update,
    every deletion and every file of the grammar. -/
theorem model_holds [DecidableEq α] (i : Input α) (h : inputWF i = true) : holds i (model i) = true := by
  cases i with
  | add t m ax =>
    simp only [inputWF, Bool.and_eq_true] at h
    exact addMd_holds t m ax h.1 h.2
  | del t keys arg =>
    simp only [inputWF] at h
    by_cases hb : arg = .bad
    · subst hb
      simp only [holds, model, delMd_bad_axis]
      rfl
    · simp only [holds, model, delMetadata_ok t keys arg hb]
      have := delMd_holds t keys arg hb h
      unfold delResult at this
      simp [this, hb]
  | parse o hdr0 proc f =>
    simp only [inputWF] at h
    simp only [holds, model, fromFile_relation_proc o hdr0 proc convIdent f h]
    exact parseHolds_relOf o hdr0 _ f

/-! ## the command -/

/-- the relation of an optional mapping file under the conversions the options select -/
def relOpt (hdr : List Str) (c : CliOpts) : Option (List GLine) → Except Err (Option (Mapping Val))
  | some f => (relOf {} hdr (convOfOpts c) f).map some
  | none => .ok none

def addOpt (t : Table α) (m : Option (Mapping Val)) (ax : Axis) : Table α :=
  match m with
  | some m => addMetadata t (toMdMapping m) ax
  | none => t

/-- what the command is to do with two optional files of the grammar -/
def cliSpec (t : Table α) (sf of' : Option (List GLine)) (c : CliOpts) : Except Err (Table α) :=
  if sf.isNone && of'.isNone then .error .value
  else (relOpt (c.sampleHeader.getD []) c sf).bind (fun sm =>
       (relOpt (c.obsHeader.getD []) c of').bind (fun om =>
       .ok (addOpt (addOpt t sm .samp) om .obs)))

/-- **cli_parses_then_adds** — `_add_metadata` on files of the grammar: refuse when no file is given
    or a file has no usable relation; otherwise hand the relation of each file (with the conversions
    the options select: `procOf_priority`) to `add_metadata`, samples first. -/
theorem cli_parses_then_adds (t : Table α) (sf of' : Option (List GLine)) (c : CliOpts)
    (hs : ∀ f, sf = some f → fileOkWide {} (c.sampleHeader.getD []) f = true)
    (ho : ∀ f, of' = some f → fileOkWide {} (c.obsHeader.getD []) f = true) :
    addMetadataCli t (sf.map (·.map GLine.render)) (of'.map (·.map GLine.render)) c = cliSpec t sf of' c := by
  have hconv : convOf (procOf c) convIdent = convOfOpts c := by
    funext k v; exact procOf_priority c k v
  unfold addMetadataCli cliSpec relOpt
  cases sf with
  | none =>
    cases of' with
    | none => rfl
    | some g =>
      simp only [Option.map_some, Option.map_none, Option.isNone_none, Option.isNone_some, Bool.and_false,
        Bool.false_eq_true, if_false]
      rw [fromFile_relation_proc _ _ _ _ g (ho g rfl), hconv]
      cases relOf {} (c.obsHeader.getD []) (convOfOpts c) g <;> rfl
  | some f =>
    cases of' with
    | none =>
      simp only [Option.map_some, Option.map_none, Option.isNone_none, Option.isNone_some, Bool.false_and,
        Bool.false_eq_true, if_false]
      rw [fromFile_relation_proc _ _ _ _ f (hs f rfl), hconv]
      cases relOf {} (c.sampleHeader.getD []) (convOfOpts c) f <;> rfl
    | some g =>
      simp only [Option.map_some, Option.isNone_some, Bool.false_and, Bool.false_eq_true, if_false]
      rw [fromFile_relation_proc _ _ _ _ f (hs f rfl), fromFile_relation_proc _ _ _ _ g (ho g rfl), hconv]
      cases relOf {} (c.sampleHeader.getD []) (convOfOpts c) f <;>
        cases relOf {} (c.obsHeader.getD []) (convOfOpts c) g <;> rfl

/-! ## non-vacuity: the hypotheses are met by concrete, non-trivial inputs -/

section Examples

def exTable : Table Nat :=
  { obs := ["O1", "O2"], samp := ["S1", "S2", "S3"], rows := [[0, 1, 2], [3, 4, 5]],
    omd := some [[("taxonomy", "[\"k__A\"]")], [("taxonomy", "[\"k__B\"]")]],
    smd := some [[("barcode", "\"AT\""), ("env", "\"A\"")], [("barcode", "\"GG\""), ("env", "\"B\"")],
                 [("barcode", "\"CC\""), ("env", "\"A\"")]] }

def exMapping : List (Id × Md) := [("S2", [("env", "\"Z\""), ("pH", "7")]), ("nope", [("env", "\"Q\"")])]

example : inputWF (.add exTable exMapping .samp) = true := by decide
-- overwritten, added, kept, untouched ID, unknown ID ignored
example : keyOf (addMetadata exTable exMapping .samp) .samp "S2" "env" = some "\"Z\"" := by decide
example : keyOf (addMetadata exTable exMapping .samp) .samp "S2" "pH" = some "7" := by decide
example : keyOf (addMetadata exTable exMapping .samp) .samp "S2" "barcode" = some "\"GG\"" := by decide
example : keyOf (addMetadata exTable exMapping .samp) .samp "S1" "env" = some "\"A\"" := by decide
example : keyOf (addMetadata exTable exMapping .samp) .samp "nope" "env" = none := by decide
example : (addMetadata exTable exMapping .samp).samp = ["S1", "S2", "S3"] := by decide
-- an axis without metadata: IDs the mapping does not name get an empty entry
example : (addMetadata { exTable with smd := none } exMapping .samp).smd =
    some [[], [("env", "\"Z\""), ("pH", "7")], []] := by decide
example : (addMetadata { exTable with smd := none } [("nope", [("env", "\"Q\"")])] .samp).smd = none := by decide

example : inputWF (.del exTable (some ["env"]) .whole) = true := by decide
example : (delMetadata exTable (some ["env", "barcode"]) .sample).toOption.map (·.smd) = some none := by decide
example : (delMetadata exTable (some ["env"]) .whole).toOption.map (fun t => (keyOf t .samp "S1" "env",
    keyOf t .samp "S1" "barcode", keyOf t .obs "O1" "taxonomy")) = some (none, some "\"AT\"", some "[\"k__A\"]") := by
  decide
example : delMetadata exTable none .bad = .error .unknownAxis := delMd_bad_axis exTable none

/-- `#ID⇥A⇥B`, a comment, a blank line, a quoted and padded row, a short row -/
def exFile : List GLine :=
  [.blank [' ', '\n'],
   .header [['I', 'D'], ['A'], ['B']] ['\n'],
   .comment ['#', ' ', 'n', 'o', 't', 'e', '\n'],
   .row [⟨[], false, ['S', '1'], []⟩, ⟨[' '], true, ['1', '_', '0'], [' ']⟩, ⟨[], false, ['x', ';', 'y'], ['\n']⟩],
   .blank ['\n'],
   .row [⟨[], true, ['S', '2'], [' ']⟩, ⟨[], false, ['q'], ['\n']⟩]]

def exProc : Proc := [(['A'], convInt), (['B'], convSc)]

example : inputWF (α := Nat) (.parse {} [] exProc exFile) = true := by decide
example : fileOk { stripQuotes := false, suppress := true } [['I', 'D'], ['K']] exFile = false := by decide
example : (fromFile {} [] exProc convIdent (exFile.map GLine.render)).toOption =
    some [(['S', '1'], [(['A'], Val.int 10), (['B'], Val.list [['x'], ['y']])]),
          (['S', '2'], [(['A'], Val.str ['q']), (['B'], Val.list [[]])])] := by decide
-- header override selecting the first column only (the file's own header line is then a comment)
example : fileOk {} [['I', 'D'], ['K']] (exFile.map (fun l => match l with
    | .header n t => .comment (GLine.render (.header n t)) | l => l)) = true := by decide

end Examples

end Biom.C18
