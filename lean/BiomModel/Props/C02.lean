/-
  C02 — property theorems.  Every statement is for EVERY table of the property's domain (any number
  of observations and samples, any grid, any sparsity pattern — all-zero rows anywhere, all-zero
  table, single row, single column, the 0 x 0 table), any IDs, any metadata values (arbitrarily
  nested), any table id / type / generated-by / date strings, any number type `ν`.
-/
import BiomModel.Lemmas.C02

namespace Biom.C02

variable {ν : Type}

/-- Round trip of the token layer: the canonical emission of any JSON value parses back to it
(so a text whose tokens are a canonical emission is well-formed JSON). -/
theorem parse_emit (j : J ν) : parseToks (emit j) = some j := parseToks_emit j

/-- The returned-string path writes exactly the canonical emission of the document the table
denotes: every comma is in place for every shape of the domain. -/
theorem writeToks_eq_emit [DecidableEq ν] [Zero ν] (t : JT ν) (genBy date : String)
    (hwf : t.wfb = true) (hdom : t.inDomain = true) :
    writeToks t genBy date = emit (docOf t genBy date) := by
  unfold writeToks
  cases ho : t.obs with
  | nil =>
    have hs : t.samp = [] := by
      cases hs : t.samp with
      | nil => rfl
      | cons a b => simp [JT.inDomain, ho, hs] at hdom
    simpa using toJsonToks_empty false t genBy date hwf ho hs
  | cons o os =>
    have hs : t.samp ≠ [] := by
      intro hs; simp [JT.inDomain, ho, hs] at hdom
    simpa using toJsonToks_nonempty false t genBy date hwf (by simp [ho]) hs

/-- The streamed (`direct_io`) path writes the canonical emission of the same fields in its own key order. -/
theorem writeToksDirect_eq_emit [DecidableEq ν] [Zero ν] (t : JT ν) (genBy date : String)
    (hwf : t.wfb = true) (hdom : t.inDomain = true) :
    writeToksDirect t genBy date = emit (docOfDirect t genBy date) := by
  unfold writeToksDirect
  cases ho : t.obs with
  | nil =>
    have hs : t.samp = [] := by
      cases hs : t.samp with
      | nil => rfl
      | cons a b => simp [JT.inDomain, ho, hs] at hdom
    simpa using toJsonToks_empty true t genBy date hwf ho hs
  | cons o os =>
    have hs : t.samp ≠ [] := by
      intro hs; simp [JT.inDomain, ho, hs] at hdom
    simpa using toJsonToks_nonempty true t genBy date hwf (by simp [ho]) hs

/-- "The writer emits well-formed JSON": both texts parse, to the documents the table denotes. -/
theorem well_formed [DecidableEq ν] [Zero ν] (t : JT ν) (genBy date : String)
    (hwf : t.wfb = true) (hdom : t.inDomain = true) :
    parseToks (writeToks t genBy date) = some (docOf t genBy date) ∧
    parseToks (writeToksDirect t genBy date) = some (docOfDirect t genBy date) := by
  rw [writeToks_eq_emit t genBy date hwf hdom, writeToksDirect_eq_emit t genBy date hwf hdom]
  exact ⟨parse_emit _, parse_emit _⟩

/-- "The streamed form emits the same document as the returned-string form": both parse, and the
two documents are equal as JSON values (identical once the fields of every object are sorted by
key — the two paths only differ in key order). -/
theorem direct_same_doc [DecidableEq ν] [Zero ν] (t : JT ν) (genBy date : String)
    (hwf : t.wfb = true) (hdom : t.inDomain = true) :
    ∃ dS dD, parseToks (writeToks t genBy date) = some dS ∧
      parseToks (writeToksDirect t genBy date) = some dD ∧
      dD.canon = dS.canon ∧ J.eqv dS dD = true := by
  obtain ⟨h1, h2⟩ := well_formed t genBy date hwf hdom
  refine ⟨_, _, h1, h2, docOfDirect_canon t genBy date, ?_⟩
  unfold J.eqv
  rw [docOfDirect_canon]
  exact J.beq_refl _

/-- every field a reader looks up has the same value in both documents -/
theorem direct_same_fields [DecidableEq ν] [Zero ν] (t : JT ν) (genBy date : String) (k : String)
    (hk : k ∈ ["id", "format", "format_url", "matrix_type", "generated_by", "date", "type",
               "matrix_element_type", "shape", "data", "rows", "columns"]) :
    (docOfDirect t genBy date).get? k = (docOf t genBy date).get? k := by
  simp only [List.mem_cons, List.mem_nil_iff, or_false] at hk
  rcases hk with rfl | rfl | rfl | rfl | rfl | rfl | rfl | rfl | rfl | rfl | rfl | rfl <;>
    simp [docOfDirect, docOf, J.get?, lookupLast]

/-- the table's validity conditions for reading back: shape, distinct IDs on each axis (a table
invariant), every metadata entry `None` or a mapping -/
def JT.valid (t : JT ν) : Bool :=
  t.wfb && decide t.obs.Nodup && decide t.samp.Nodup && mdOk t.omd && mdOk t.smd

theorem JT.valid_iff (t : JT ν) : t.valid = true ↔
    t.wfb = true ∧ t.obs.Nodup ∧ t.samp.Nodup ∧ mdOk t.omd = true ∧ mdOk t.smd = true := by
  simp [JT.valid, and_assoc]

/-- "Parsing it back yields the same IDs in order, the same per-ID metadata, table type,
generated-by and creation date, and exactly the same matrix values": `from_json` applied to the
document returns the table (metadata in the constructor's normal form: an axis whose entries are
all empty has no metadata, otherwise `None` entries are empty mappings).  `hadd` is the only fact
about the number type that is used (an entry named once is summed with nothing). -/
theorem docToTable_docOf [DecidableEq ν] [Add ν] [Zero ν] [IntCast ν] (hadd : ∀ v : ν, v + 0 = v)
    (t : JT ν) (genBy date : String) (hv : t.valid = true) :
    docToTable (docOf t genBy date) =
      .ok { obs := t.obs, samp := t.samp, omd := normMd t.omd, smd := normMd t.smd, ttype := t.ttype,
            genBy := some genBy, date := some date, rows := t.rows } := by
  obtain ⟨hwf, hno, hns, hmo, hms⟩ := (JT.valid_iff t).1 hv
  exact docToTable_docOf_aux hadd t genBy date hwf hno hns hmo hms

/-- "no value is rounded, truncated or dropped": the data block lists, for every cell, exactly the
cell's value when it is not zero and nothing otherwise -/
theorem data_exact [DecidableEq ν] [Zero ν] (rows : List (List ν)) (i j : Nat) :
    entriesAt (triplesFrom 0 rows) i j =
      (match cellAt rows i j with
       | some v => if v = 0 then [] else [v]
       | none => []) := by
  rw [entriesAt_triples]; cases cellAt rows i j <;> simp [cellEntries]

/-- reading the written text back gives exactly the grid -/
theorem roundtrip_grid [DecidableEq ν] [Add ν] [Zero ν] [IntCast ν] (hadd : ∀ v : ν, v + 0 = v)
    (t : JT ν) (genBy date : String) (hv : t.valid = true) (hdom : t.inDomain = true) :
    ∃ d r, parseToks (writeToks t genBy date) = some d ∧ docToTable d = .ok r ∧
      r.rows = t.rows ∧ r.obs = t.obs ∧ r.samp = t.samp ∧ r.ttype = t.ttype ∧
      r.genBy = some genBy ∧ r.date = some date ∧ r.omd = normMd t.omd ∧ r.smd = normMd t.smd := by
  have hwf := ((JT.valid_iff t).1 hv).1
  exact ⟨_, _, (well_formed t genBy date hwf hdom).1, docToTable_docOf hadd t genBy date hv,
    rfl, rfl, rfl, rfl, rfl, rfl, rfl, rfl⟩

/-- The property's predicate holds of the model's observation, for every table of the domain. -/
theorem model_holds [DecidableEq ν] [Add ν] [Zero ν] [IntCast ν] (hadd : ∀ v : ν, v + 0 = v)
    (inp : Input ν) (hv : inp.t.valid = true) (hdom : inp.t.inDomain = true) :
    holds inp (model inp) = true := by
  have hwf := ((JT.valid_iff inp.t).1 hv).1
  obtain ⟨hS, hD⟩ := well_formed inp.t inp.genBy inp.date hwf hdom
  obtain ⟨hcS, hcD⟩ := checkDoc_docOf inp "string" hwf
  obtain ⟨_, hcD'⟩ := checkDoc_docOf inp "direct" hwf
  have hread := docToTable_docOf hadd inp.t inp.genBy inp.date hv
  have heqv : J.eqv (docOf inp.t inp.genBy inp.date) (docOfDirect inp.t inp.genBy inp.date) = true := by
    unfold J.eqv; rw [docOfDirect_canon]; exact J.beq_refl _
  unfold holds verdict model
  simp only [hS, hD]
  rw [Codec.allV, show (none : Codec.Verdict) = none from rfl]
  have : ∀ v ∈ ([Codec.chk "same-document" (J.eqv (docOf inp.t inp.genBy inp.date) (docOfDirect inp.t inp.genBy inp.date)),
        checkDoc inp "string" (docOf inp.t inp.genBy inp.date),
        checkDoc inp "direct" (docOfDirect inp.t inp.genBy inp.date)] ++
        List.map (fun nr => checkRead inp nr.1 nr.2)
          [("from_json", docToTable (docOf inp.t inp.genBy inp.date))]), v = none := by
    intro v hvm
    simp only [List.map_cons, List.map_nil, List.cons_append, List.nil_append, List.mem_cons,
      List.mem_nil_iff, or_false] at hvm
    rcases hvm with rfl | rfl | rfl | rfl
    · exact chk_true _ _ heqv
    · exact hcS
    · exact hcD'
    · rw [hread]
      simp only [checkRead]
      apply allV_none
      intro v hvm
      simp only [List.mem_cons, List.mem_nil_iff, or_false] at hvm
      rcases hvm with rfl | rfl | rfl | rfl | rfl | rfl | rfl | rfl <;>
        apply chk_true <;> simp [mdSame_refl]
  rw [allV_aux _ this none]
  rfl

/-! ### the domain hypothesis is needed (remarks; tables with exactly one empty axis are outside
the property's quantifier) -/

/-- A 1 x 0 table: the closing bracket of `columns` is only written with the last sample, so the
text is not JSON. -/
theorem nx0_not_wellformed_witness :
    (parseToks (writeToks (ν := Int) ⟨"None", none, ["a"], [], [.null], [], [[]]⟩ "g" "d")).isNone = true := by
  decide

/-- A 0 x 1 table: the empty-table special case fires on "no rows" and discards the sample IDs. -/
theorem zeroxm_drops_samples_witness :
    writeToks (ν := Int) ⟨"None", none, [], ["x"], [], [.null], []⟩ "g" "d" ≠
      emit (docOf (ν := Int) ⟨"None", none, [], ["x"], [], [.null], []⟩ "g" "d") := by
  decide

/-! ### non-vacuity: the hypotheses are met by concrete non-trivial inputs -/

/-- 3 x 2, an all-zero row in the middle, metadata of several kinds with nesting, quotes in strings -/
def demoT : JT Int :=
  { tableId := "a\"b\\c", ttype := some "OTU \"table\"",
    obs := ["o\"1", "o2", "o\\3"], samp := ["s1", "s2"],
    omd := [.obj [("k", .arr [.int 1, .arr [.null, .bool true]]), ("t", .str "x\"y")], .obj [], .null],
    smd := [.null, .null],
    rows := [[1, 0], [0, 0], [0, -7]] }

def demoIn : Input Int := { t := demoT, genBy := "gen\"by", date := "2020-01-02T03:04:05" }

example : demoT.valid = true ∧ demoT.inDomain = true := by decide
example : (triplesFrom 0 demoT.rows) = [(0, 0, 1), (2, 1, -7)] := by decide
example : holds demoIn (model demoIn) = true :=
  model_holds (by intro v; omega) demoIn (by decide) (by decide)
example : (writeToks demoT "g" "d").length = 136 := by decide +kernel
/-- the all-zero table and the 0 x 0 table are in the domain -/
example : (⟨"None", none, ["a", "b"], ["x"], [.null, .null], [.null], [[0], [0]]⟩ : JT Int).valid = true ∧
    (⟨"None", none, ["a", "b"], ["x"], [.null, .null], [.null], [[0], [0]]⟩ : JT Int).inDomain = true := by decide
example : (⟨"None", none, [], [], [], [], []⟩ : JT Int).valid = true ∧
    (⟨"None", none, [], [], [], [], []⟩ : JT Int).inDomain = true := by decide
/-- the predicate is not trivially true: dropping the comma between two data entries, or changing a
value, makes it false -/
example : holds demoIn { model demoIn with toksS := (writeToks demoT "gen\"by" "2020-01-02T03:04:05").eraseIdx 51 } = false := by
  decide +kernel
example : holds demoIn { model demoIn with
    reads := [("r", .ok { obs := demoT.obs, samp := demoT.samp, omd := normMd demoT.omd, smd := normMd demoT.smd,
                          ttype := demoT.ttype, genBy := some "gen\"by", date := some "2020-01-02T03:04:05",
                          rows := [[1, 0], [0, 0], [0, 7]] })] } = false := by
  decide +kernel

end Biom.C02
