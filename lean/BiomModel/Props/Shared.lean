/-
  BiomModel.Props.Shared — theorems about the two shared layers (Basic: the abstract table,
  Sparse: flat compressed storage) that every property model is built on.
  Core Lean only.
-/
import BiomModel.Sparse

namespace Biom

variable {α β : Type}

/-! ### prefix sums: the shape of `indptr` -/

/-- running totals `b+l₀, b+l₀+l₁, …` -/
def runSums (b : Nat) : List Nat → List Nat
  | [] => []
  | l :: ls => (b + l) :: runSums (b + l) ls

theorem runSums_length (b : Nat) (ls : List Nat) : (runSums b ls).length = ls.length := by
  induction ls generalizing b with
  | nil => rfl
  | cons l ls ih => simp [runSums, ih]

theorem indptr_fold (ents : List (List β)) (acc : List Nat) (h : acc ≠ []) :
    ents.foldl (fun acc e => acc ++ [acc.getLast! + e.length]) acc
      = acc ++ runSums (acc.getLast!) (ents.map List.length) := by
  induction ents generalizing acc with
  | nil => simp [runSums]
  | cons e es ih =>
    have hne : acc ++ [acc.getLast! + e.length] ≠ [] := by simp
    rw [List.foldl_cons, ih _ hne]
    simp [runSums, List.getLast!_eq_getLast?_getD]

/-- sum of the first `i` lengths -/
def offs (ls : List Nat) (i : Nat) : Nat := (ls.take i).foldr (· + ·) 0

theorem offs_zero (ls : List Nat) : offs ls 0 = 0 := by simp [offs]

theorem offs_cons_succ (l : Nat) (ls : List Nat) (i : Nat) : offs (l :: ls) (i + 1) = l + offs ls i := by
  simp [offs]

theorem runSums_getD (b : Nat) (ls : List Nat) (i : Nat) (hi : i < ls.length) :
    (runSums b ls).getD i 0 = b + offs ls (i + 1) := by
  induction ls generalizing b i with
  | nil => simp at hi
  | cons l ls ih =>
    cases i with
    | zero => simp [runSums, offs]
    | succ i =>
      have : i < ls.length := by simpa using hi
      simp only [runSums, List.getD_cons_succ]
      rw [ih _ _ this, offs_cons_succ l ls (i + 1)]; omega

theorem ptr_getD (ls : List Nat) (i : Nat) (hi : i ≤ ls.length) :
    ([0] ++ runSums 0 ls).getD i 0 = offs ls i := by
  cases i with
  | zero => simp [offs]
  | succ i =>
    have : i < ls.length := by omega
    simp only [List.singleton_append, List.getD_cons_succ]
    rw [runSums_getD _ _ _ this]; omega

theorem offs_succ (ls : List Nat) (i : Nat) (hi : i < ls.length) : offs ls (i + 1) = offs ls i + ls[i] := by
  induction ls generalizing i with
  | nil => simp at hi
  | cons l ls ih =>
    cases i with
    | zero => simp [offs]
    | succ i =>
      have h' : i < ls.length := by simpa using hi
      rw [offs_cons_succ, offs_cons_succ, ih i h']; simp; omega

theorem flatten_drop_take (L : List (List β)) (i : Nat) (hi : i < L.length) :
    (L.flatten.drop (offs (L.map List.length) i)).take (L[i].length) = L[i] := by
  induction L generalizing i with
  | nil => simp at hi
  | cons l L ih =>
    cases i with
    | zero => simp [offs]
    | succ i =>
      have h' : i < L.length := by simpa using hi
      simp only [List.map_cons, offs_cons_succ, List.flatten_cons, List.getElem_cons_succ]
      rw [List.drop_append]
      have h1 : List.drop (l.length + offs (List.map List.length L) i) l = [] :=
        List.drop_eq_nil_of_le (by omega)
      have h2 : l.length + offs (List.map List.length L) i - l.length = offs (List.map List.length L) i := by omega
      rw [h1, h2, List.nil_append]
      exact ih i h'

theorem zip_fst_snd {γ δ : Type} (l : List (γ × δ)) : (l.map (·.1)).zip (l.map (·.2)) = l := by
  induction l with
  | nil => rfl
  | cons x xs ih => simp [ih]

namespace CS

/-- the stored entries `ofDense` makes of one dense vector: (position, value) of the non-zero cells, in order -/
def entsOf [Zero α] [DecidableEq α] (r : List α) : List (Nat × α) :=
  (r.zipIdx.filter (fun p => p.1 ≠ 0)).map (fun p => (p.2, p.1))

theorem ofDense_indptr [Zero α] [DecidableEq α] (n : Nat) (rows : List (List α)) :
    (ofDense n rows).indptr = [0] ++ runSums 0 ((rows.map entsOf).map List.length) := by
  simp only [ofDense]
  rw [indptr_fold _ _ (by simp)]
  rfl

theorem ofDense_indices [Zero α] [DecidableEq α] (n : Nat) (rows : List (List α)) :
    (ofDense n rows).indices = ((rows.map entsOf).map (·.map (·.1))).flatten := by
  simp only [ofDense, List.flatMap_def]; rfl

theorem ofDense_data [Zero α] [DecidableEq α] (n : Nat) (rows : List (List α)) :
    (ofDense n rows).data = ((rows.map entsOf).map (·.map (·.2))).flatten := by
  simp only [ofDense, List.flatMap_def]; rfl

theorem ofDense_slice [Zero α] [DecidableEq α] (n : Nat) (rows : List (List α)) (i : Nat)
    (hi : i < rows.length) : (ofDense n rows).slice i = entsOf rows[i] := by
  have hlen : i < ((rows.map entsOf).map List.length).length := by simpa using hi
  have hs : (ofDense n rows).indptr.getD i 0 = offs ((rows.map entsOf).map List.length) i := by
    rw [ofDense_indptr]; exact ptr_getD _ _ (by omega)
  have he : (ofDense n rows).indptr.getD (i + 1) 0
      = offs ((rows.map entsOf).map List.length) i + (entsOf rows[i]).length := by
    rw [ofDense_indptr, ptr_getD _ _ (by omega), offs_succ _ _ hlen]; simp
  unfold slice
  simp only [hs, he, Nat.add_sub_cancel_left]
  rw [ofDense_indices, ofDense_data]
  have h1 := flatten_drop_take ((rows.map entsOf).map (·.map (·.1))) i (by simpa using hi)
  have h2 := flatten_drop_take ((rows.map entsOf).map (·.map (·.2))) i (by simpa using hi)
  simp only [List.map_map, Function.comp_def, List.length_map, List.getElem_map] at h1 h2 ⊢
  rw [h1, h2]
  exact zip_fst_snd _

theorem entryAt_zipIdx [Zero α] [DecidableEq α] (r : List α) (k j : Nat) :
    entryAt (((r.zipIdx k).filter (fun p => p.1 ≠ 0)).map (fun p => (p.2, p.1))) j
      = if k ≤ j then (r[j - k]?).getD 0 else 0 := by
  induction r generalizing k with
  | nil => simp [entryAt]
  | cons x xs ih =>
    have ih' := ih (k + 1)
    simp only [List.zipIdx_cons]
    by_cases hx : x = 0
    · have : List.filter (fun p : α × Nat => decide (p.1 ≠ 0)) ((x, k) :: xs.zipIdx (k + 1))
          = List.filter (fun p : α × Nat => decide (p.1 ≠ 0)) (xs.zipIdx (k + 1)) := by
        simp [hx]
      rw [this, ih']
      by_cases h1 : k + 1 ≤ j
      · have : j - k = (j - (k + 1)) + 1 := by omega
        simp [h1, this, show k ≤ j by omega]
      · by_cases h2 : k ≤ j
        · have : j - k = 0 := by omega
          simp [h1, h2, this, hx]
        · simp [h1, h2]
    · have : List.filter (fun p : α × Nat => decide (p.1 ≠ 0)) ((x, k) :: xs.zipIdx (k + 1))
          = (x, k) :: List.filter (fun p : α × Nat => decide (p.1 ≠ 0)) (xs.zipIdx (k + 1)) := by
        simp [hx]
      rw [this]
      by_cases hkj : k = j
      · subst hkj; simp [entryAt]
      · have hne : (k == j) = false := by simpa using hkj
        have : entryAt (List.map (fun p : α × Nat => (p.2, p.1))
              ((x, k) :: List.filter (fun p : α × Nat => decide (p.1 ≠ 0)) (xs.zipIdx (k + 1)))) j
            = entryAt (List.map (fun p : α × Nat => (p.2, p.1))
              (List.filter (fun p : α × Nat => decide (p.1 ≠ 0)) (xs.zipIdx (k + 1)))) j := by
          simp [entryAt, hne]
        rw [this, ih']
        by_cases h1 : k + 1 ≤ j
        · have : j - k = (j - (k + 1)) + 1 := by omega
          simp [h1, this, show k ≤ j by omega]
        · have : ¬ k ≤ j := by omega
          simp [h1, this]

theorem denseVec_entsOf [Zero α] [DecidableEq α] (r : List α) :
    denseVec r.length (entsOf r) = r := by
  apply List.ext_getElem
  · simp [denseVec]
  · intro j h1 h2
    have hj : j < r.length := by simpa [denseVec] using h1
    simp only [denseVec, List.getElem_map, List.getElem_range, entsOf]
    have := entryAt_zipIdx r 0 j
    simp only [Nat.zero_le, if_true, Nat.sub_zero] at this
    rw [this]; simp [hj]

/-- **round trip**: the canonical compressed form of a dense grid holds exactly that grid -/
theorem toDense_ofDense [Zero α] [DecidableEq α] (n : Nat) (rows : List (List α))
    (h : ∀ r ∈ rows, r.length = n) : (ofDense n rows).toDense = rows := by
  have hM : (ofDense n rows).nMajor = rows.length := rfl
  have hN : (ofDense n rows).nMinor = n := rfl
  apply List.ext_getElem
  · simp [toDense, hM]
  · intro i h1 h2
    simp only [toDense, List.getElem_map, List.getElem_range, hN]
    rw [ofDense_slice n rows i h2]
    have := h rows[i] (List.getElem_mem h2)
    rw [← this]; exact denseVec_entsOf _

theorem entsOf_fst_sorted [Zero α] [DecidableEq α] (r : List α) :
    ((entsOf r).map (·.1)).Pairwise (· < ·) := by
  have h : (entsOf r).map (·.1) = ((r.zipIdx.filter (fun p => p.1 ≠ 0)).map Prod.snd) := by
    simp [entsOf, Function.comp_def]
  rw [h]
  have hs : ((r.zipIdx.filter (fun p => p.1 ≠ 0)).map Prod.snd).Sublist (r.zipIdx.map Prod.snd) :=
    List.Sublist.map _ List.filter_sublist
  rw [List.zipIdx_map_snd] at hs
  exact List.Pairwise.sublist hs List.pairwise_lt_range'

theorem entsOf_fst_lt [Zero α] [DecidableEq α] (r : List α) : ∀ e ∈ entsOf r, e.1 < r.length := by
  intro e he
  simp only [entsOf, List.mem_map, List.mem_filter] at he
  obtain ⟨p, ⟨hp, _⟩, rfl⟩ := he
  simpa using List.snd_lt_of_mem_zipIdx hp

theorem entsOf_snd_ne [Zero α] [DecidableEq α] (r : List α) : ∀ e ∈ entsOf r, e.2 ≠ 0 := by
  intro e he
  simp only [entsOf, List.mem_map, List.mem_filter] at he
  obtain ⟨p, ⟨_, hp⟩, rfl⟩ := he
  simpa using hp

theorem ofDense_noStoredZeros [Zero α] [DecidableEq α] (n : Nat) (rows : List (List α)) :
    (ofDense n rows).NoStoredZeros := by
  intro v hv
  rw [ofDense_data] at hv
  simp only [List.mem_flatten, List.mem_map] at hv
  obtain ⟨l, ⟨es, ⟨r, _, rfl⟩, rfl⟩, hv⟩ := hv
  simp only [List.mem_map] at hv
  obtain ⟨e, he, rfl⟩ := hv
  exact entsOf_snd_ne r e he

theorem ofDense_sorted [Zero α] [DecidableEq α] (n : Nat) (rows : List (List α)) :
    (ofDense n rows).SortedIndices := by
  intro i hi
  have hi' : i < rows.length := hi
  rw [ofDense_slice n rows i hi']
  exact entsOf_fst_sorted _

theorem offs_full (ls : List Nat) : offs ls ls.length = ls.sum := by
  simp [offs, List.sum]

theorem ofDense_wf [Zero α] [DecidableEq α] (n : Nat) (rows : List (List α))
    (h : ∀ r ∈ rows, r.length = n) : (ofDense n rows).WF := by
  have hM : (ofDense n rows).nMajor = rows.length := rfl
  have hN : (ofDense n rows).nMinor = n := rfl
  have hlens : ((rows.map entsOf).map List.length).length = rows.length := by simp
  refine ⟨?_, ?_, ?_, ?_, ?_, ?_, ?_⟩
  · rw [ofDense_indptr, hM]; simp [runSums_length]
  · rw [ofDense_indptr]; rfl
  · intro i hi
    rw [hM] at hi
    rw [ofDense_indptr, ptr_getD _ _ (by omega), ptr_getD _ _ (by omega), offs_succ _ _ (by omega)]
    omega
  · rw [hM, ofDense_indptr, ptr_getD _ _ (by omega), ← hlens, offs_full, ofDense_data, List.length_flatten]
    simp [Function.comp_def]
  · rw [ofDense_indices, ofDense_data, List.length_flatten, List.length_flatten]
    simp [Function.comp_def]
  · intro j hj
    rw [ofDense_indices] at hj
    simp only [List.mem_flatten, List.mem_map] at hj
    obtain ⟨l, ⟨es, ⟨r, hr, rfl⟩, rfl⟩, hj⟩ := hj
    simp only [List.mem_map] at hj
    obtain ⟨e, he, rfl⟩ := hj
    rw [hN, ← h r hr]; exact entsOf_fst_lt r e he
  · intro i hi
    have := ofDense_sorted n rows i hi
    exact this.imp (fun hlt => Nat.ne_of_lt hlt)

/-! ### what a compressed vector holds does not depend on how it is stored -/

theorem nodup_map_inj {γ δ : Type} (f : γ → δ) (l : List γ) (hn : (l.map f).Nodup) (a b : γ)
    (ha : a ∈ l) (hb : b ∈ l) (h : f a = f b) : a = b := by
  induction l with
  | nil => simp at ha
  | cons x xs ih =>
    simp only [List.map_cons, List.nodup_cons] at hn
    rcases List.mem_cons.mp ha with ha1 | ha1 <;> rcases List.mem_cons.mp hb with hb1 | hb1
    · rw [ha1, hb1]
    · rw [ha1] at h; exact absurd (show f x ∈ xs.map f from List.mem_map.mpr ⟨b, hb1, h.symm⟩) hn.1
    · rw [hb1] at h; exact absurd (show f x ∈ xs.map f from List.mem_map.mpr ⟨a, ha1, h⟩) hn.1
    · exact ih hn.2 ha1 hb1

theorem entryAt_of_not_mem [Zero α] (ents : List (Nat × α)) (j : Nat) (h : j ∉ ents.map (·.1)) :
    entryAt ents j = 0 := by
  unfold entryAt
  have : ents.find? (fun e => e.1 == j) = none := by
    rw [List.find?_eq_none]
    intro e he hej
    exact h (List.mem_map.mpr ⟨e, he, by simpa using hej⟩)
  rw [this]

theorem entryAt_of_mem [Zero α] (ents : List (Nat × α)) (j : Nat) (v : α)
    (hn : (ents.map (·.1)).Nodup) (h : (j, v) ∈ ents) : entryAt ents j = v := by
  induction ents with
  | nil => simp at h
  | cons e es ih =>
    simp only [List.map_cons, List.nodup_cons] at hn
    rcases List.mem_cons.mp h with h | h
    · subst h; simp [entryAt]
    · have hne : e.1 ≠ j := by
        intro he; apply hn.1; rw [he]; exact List.mem_map.mpr ⟨(j, v), h, rfl⟩
      have : entryAt (e :: es) j = entryAt es j := by
        simp [entryAt, hne]
      rw [this]; exact ih hn.2 h

/-- index order inside a stored vector is irrelevant (scipy's "unsorted indices") -/
theorem denseVec_perm [Zero α] (n : Nat) (e₁ e₂ : List (Nat × α)) (hp : e₁.Perm e₂)
    (hn : (e₁.map (·.1)).Nodup) : denseVec n e₁ = denseVec n e₂ := by
  have hn2 : (e₂.map (·.1)).Nodup := (hp.map _).nodup_iff.mp hn
  unfold denseVec
  apply List.map_congr_left
  intro j _
  by_cases hj : j ∈ e₁.map (·.1)
  · obtain ⟨e, he, rfl⟩ := List.mem_map.mp hj
    rw [entryAt_of_mem e₁ e.1 e.2 hn he, entryAt_of_mem e₂ e.1 e.2 hn2 (hp.mem_iff.mp he)]
  · have hj2 : j ∉ e₂.map (·.1) := fun h => hj ((hp.map _).mem_iff.mpr h)
    rw [entryAt_of_not_mem _ _ hj, entryAt_of_not_mem _ _ hj2]

/-- explicitly stored zeros are irrelevant to the content (scipy's `eliminate_zeros`) -/
theorem denseVec_dropZeros [Zero α] [DecidableEq α] (n : Nat) (ents : List (Nat × α))
    (hn : (ents.map (·.1)).Nodup) :
    denseVec n (ents.filter (fun e => e.2 ≠ 0)) = denseVec n ents := by
  have hs : ((ents.filter (fun e => e.2 ≠ 0)).map (·.1)).Sublist (ents.map (·.1)) :=
    List.Sublist.map _ List.filter_sublist
  have hn' := hn.sublist hs
  unfold denseVec
  apply List.map_congr_left
  intro j _
  by_cases hj : j ∈ ents.map (·.1)
  · obtain ⟨e, he, rfl⟩ := List.mem_map.mp hj
    rw [entryAt_of_mem ents e.1 e.2 hn he]
    by_cases hz : e.2 = 0
    · rw [hz]; apply entryAt_of_not_mem
      intro hmem
      obtain ⟨e', he', h1⟩ := List.mem_map.mp hmem
      have he'' := List.mem_filter.mp he'
      -- e' and e share an index in a list with distinct indices: the same entry
      have : e' = e := by
        exact nodup_map_inj _ _ hn e' e he''.1 he h1
      subst this; simp [hz] at he''
    · exact entryAt_of_mem _ e.1 e.2 hn' (List.mem_filter.mpr ⟨he, by simpa using hz⟩)
  · have hj2 : j ∉ (ents.filter (fun e => e.2 ≠ 0)).map (·.1) := fun h => hj (hs.subset h)
    rw [entryAt_of_not_mem _ _ hj, entryAt_of_not_mem _ _ hj2]

/-- `toDense` always is a grid of the announced shape -/
theorem toDense_shape [Zero α] (cs : CS α) :
    cs.toDense.length = cs.nMajor ∧ ∀ r ∈ cs.toDense, r.length = cs.nMinor := by
  refine ⟨by simp [toDense], ?_⟩
  intro r hr
  simp only [toDense, List.mem_map] at hr
  obtain ⟨i, _, rfl⟩ := hr
  simp [denseVec]

/-- **layout independence, vector order**: two well-formed stores whose vectors hold the same entries in
any order have the same content (`sort_indices`, `has_sorted_indices = False`) -/
theorem toDense_perm [Zero α] (c₁ c₂ : CS α) (hM : c₁.nMajor = c₂.nMajor) (hN : c₁.nMinor = c₂.nMinor)
    (hw : c₁.WF) (hp : ∀ i, i < c₁.nMajor → (c₁.slice i).Perm (c₂.slice i)) :
    c₁.toDense = c₂.toDense := by
  unfold toDense
  rw [← hM, ← hN]
  apply List.map_congr_left
  intro i hi
  have hi' : i < c₁.nMajor := List.mem_range.mp hi
  exact denseVec_perm _ _ _ (hp i hi') (hw.distinct i hi')

/-- the decidable check used by the drivers is the structural invariant -/
theorem wfb_iff (cs : CS α) : cs.wfb = true ↔ cs.WF := by
  constructor
  · intro h
    simp only [wfb, Bool.and_eq_true, beq_iff_eq, List.all_eq_true, List.mem_range,
      decide_eq_true_eq] at h
    obtain ⟨⟨⟨⟨⟨⟨h1, h2⟩, h3⟩, h4⟩, h5⟩, h6⟩, h7⟩ := h
    exact ⟨h1, h2, h3, h4, h5, h6, h7⟩
  · intro ⟨h1, h2, h3, h4, h5, h6, h7⟩
    simp only [wfb, Bool.and_eq_true, beq_iff_eq, List.all_eq_true, List.mem_range,
      decide_eq_true_eq]
    exact ⟨⟨⟨⟨⟨⟨h1, h2⟩, h3⟩, h4⟩, h5⟩, h6⟩, h7⟩

end CS


/-! ### the abstract layer: rectangular grids and their transpose -/

namespace Layer

variable {γ : Type}

theorem filterMap_congr' {f g : β → Option γ} {l : List β} (h : ∀ a ∈ l, f a = g a) :
    l.filterMap f = l.filterMap g := by
  induction l with
  | nil => rfl
  | cons a as ih =>
    rw [List.filterMap_cons, List.filterMap_cons, h a List.mem_cons_self,
      ih (fun b hb => h b (List.mem_cons_of_mem _ hb))]

theorem getElem?_filterMap_of_isSome {f : β → Option γ} {l : List β}
    (h : ∀ x ∈ l, (f x).isSome = true) (i : Nat) : (l.filterMap f)[i]? = l[i]?.bind f := by
  induction l generalizing i with
  | nil => rfl
  | cons a as ih =>
    obtain ⟨y, hy⟩ := Option.isSome_iff_exists.mp (h a List.mem_cons_self)
    have has : ∀ x ∈ as, (f x).isSome = true := fun x hx => h x (List.mem_cons_of_mem _ hx)
    rw [List.filterMap_cons, hy]
    cases i with
    | zero => simp [hy]
    | succ k => simpa using ih has k

theorem length_filterMap_of_isSome {f : β → Option γ} {l : List β}
    (h : ∀ x ∈ l, (f x).isSome = true) : (l.filterMap f).length = l.length := by
  induction l with
  | nil => rfl
  | cons a as ih =>
    obtain ⟨y, hy⟩ := Option.isSome_iff_exists.mp (h a List.mem_cons_self)
    rw [List.filterMap_cons, hy]
    simp [ih (fun x hx => h x (List.mem_cons_of_mem _ hx))]

theorem colAt_getElem? {rows : List (List α)} {j : Nat} (h : ∀ r ∈ rows, j < r.length) (i : Nat) :
    (colAt rows j)[i]? = rows[i]?.bind (·[j]?) := by
  unfold colAt
  exact getElem?_filterMap_of_isSome (fun r hr => by simp [h r hr]) i

theorem colAt_length {rows : List (List α)} {j : Nat} (h : ∀ r ∈ rows, j < r.length) :
    (colAt rows j).length = rows.length := by
  unfold colAt
  exact length_filterMap_of_isSome (fun r hr => by simp [h r hr])

theorem transposeGrid_getElem? (m : Nat) (rows : List (List α)) (j : Nat) :
    (transposeGrid m rows)[j]? = if j < m then some (colAt rows j) else none := by
  unfold transposeGrid
  rw [List.getElem?_map]
  by_cases h : j < m
  · rw [List.getElem?_range h, if_pos h]; rfl
  · rw [List.getElem?_eq_none (by simpa using Nat.le_of_not_lt h), if_neg h]; rfl

theorem filterMap_range_getElem? (r : List β) : (List.range r.length).filterMap (r[·]?) = r := by
  apply List.ext_getElem?
  intro k
  rw [getElem?_filterMap_of_isSome (fun x hx => by simp [List.mem_range.mp hx])]
  by_cases h : k < r.length
  · rw [List.getElem?_range h]; rfl
  · rw [List.getElem?_eq_none (by simpa using Nat.le_of_not_lt h),
      List.getElem?_eq_none (Nat.le_of_not_lt h)]; rfl

theorem transposeGrid_transposeGrid {rows : List (List α)} {n m : Nat} (hn : rows.length = n)
    (hm : ∀ r ∈ rows, r.length = m) : transposeGrid n (transposeGrid m rows) = rows := by
  apply List.ext_getElem?
  intro i
  rw [transposeGrid_getElem?]
  by_cases hi : i < n
  · rw [if_pos hi]
    have hi' : i < rows.length := hn ▸ hi
    rw [List.getElem?_eq_getElem hi']
    congr 1
    unfold colAt transposeGrid
    rw [List.filterMap_map]
    have hrow : (rows[i]).length = m := hm _ (List.getElem_mem hi')
    have : (List.range m).filterMap ((fun x => x[i]?) ∘ colAt rows) =
        (List.range m).filterMap ((rows[i])[·]?) := by
      apply filterMap_congr'
      intro j hj
      have hj' : j < m := List.mem_range.mp hj
      simp only [Function.comp]
      rw [colAt_getElem? (fun r hr => by rw [hm r hr]; exact hj'), List.getElem?_eq_getElem hi']
      rfl
    rw [this, ← hrow]
    exact filterMap_range_getElem? _
  · rw [if_neg hi, List.getElem?_eq_none (by omega)]

theorem transposeGrid_shape (m : Nat) (rows : List (List α)) (h : ∀ r ∈ rows, r.length = m) :
    (transposeGrid m rows).length = m ∧ ∀ c ∈ transposeGrid m rows, c.length = rows.length := by
  refine ⟨by simp [transposeGrid], ?_⟩
  intro c hc
  simp only [transposeGrid, List.mem_map, List.mem_range] at hc
  obtain ⟨j, hj, rfl⟩ := hc
  exact colAt_length (fun r hr => by rw [h r hr]; exact hj)

theorem table_wfb_iff (t : Table α) : t.wfb = true ↔ t.WF := by
  unfold Table.wfb Table.WF
  cases ho : t.omd <;> cases hs : t.smd <;>
    simp [Bool.and_eq_true, List.all_eq_true, and_assoc]

/-- transposing a well-formed table twice gives the table back -/
theorem table_transpose_transpose (t : Table α) (hw : t.WF) : t.transpose.transpose = t := by
  obtain ⟨h1, h2, _, _⟩ := hw
  cases t with
  | mk obs samp rows omd smd ttype =>
    simp only [Table.transpose]
    congr
    exact transposeGrid_transposeGrid h1 h2

end Layer

namespace CS

/-- the other compressed layout of the same matrix (`tocsc` of a CSR store and vice versa), specified by content -/
def flip [Zero α] [DecidableEq α] (cs : CS α) : CS α :=
  ofDense cs.nMajor (transposeGrid cs.nMinor cs.toDense)

/-- **layout independence, orientation**: the flipped store holds the transposed content … -/
theorem toDense_flip [Zero α] [DecidableEq α] (cs : CS α) :
    cs.flip.toDense = transposeGrid cs.nMinor cs.toDense := by
  unfold flip
  apply toDense_ofDense
  have hs := toDense_shape cs
  intro r hr
  rw [(Layer.transposeGrid_shape cs.nMinor cs.toDense hs.2).2 r hr, hs.1]

/-- … and flipping twice restores the content, whatever order and stored zeros the original had -/
theorem toDense_flip_flip [Zero α] [DecidableEq α] (cs : CS α) : cs.flip.flip.toDense = cs.toDense := by
  have hs := toDense_shape cs
  rw [toDense_flip, toDense_flip]
  have h1 : cs.flip.nMinor = cs.nMajor := rfl
  rw [h1]
  exact Layer.transposeGrid_transposeGrid hs.1 hs.2

theorem flip_canonical [Zero α] [DecidableEq α] (cs : CS α) :
    cs.flip.WF ∧ cs.flip.NoStoredZeros ∧ cs.flip.SortedIndices := by
  have hs := toDense_shape cs
  refine ⟨?_, ofDense_noStoredZeros _ _, ofDense_sorted _ _⟩
  apply ofDense_wf
  intro r hr
  rw [(Layer.transposeGrid_shape cs.nMinor cs.toDense hs.2).2 r hr, hs.1]

end CS

end Biom
