/-
  C07 — property theorems.  Everything is for EVERY heap satisfying the separation invariant
  (in particular every heap reachable from the empty one), EVERY operation with EVERY content
  function / kernel / mask / ID list, and EVERY history — no bound anywhere.
-/
import BiomModel.Lemmas.C07

namespace Biom.C07
set_option linter.unusedSectionVars false
set_option linter.unusedSimpArgs false
variable {γ : Type} [Inhabited γ]

/-! ### frame at the level of API operations -/

theorem stepOp_objs_length_le (h : Heap γ) (op : Op γ) : h.objs.length ≤ (stepOp h op).objs.length := by
  unfold stepOp
  generalize op.micro h.objs.length = ms
  induction ms generalizing h with
  | nil => exact Nat.le_refl _
  | cons m r ih => exact Nat.le_trans (step_objs_length_le h m) (ih (step h m))

/-- an operation that is not an in-place call on `t` does not target `t` with any of its steps,
except for re-layouts (read accessors caching a format conversion), which change no content -/
theorem op_micro_target (n : Nat) (op : Op γ) (t : Nat) (hlt : t < n)
    (hne : ∀ r bs, op = .inplace r bs → r ≠ t) : ∀ m ∈ op.micro n, m.target ≠ some t ∨ m.quiet = true := by
  intro m hm
  cases op with
  | extIds l => simp only [Op.micro, List.mem_singleton] at hm; subst hm; simp [Micro.target]
  | read pre =>
    simp only [Op.micro, List.mem_map] at hm
    obtain ⟨p, _, rfl⟩ := hm
    right; rfl
  | inplace r bs =>
    left
    rw [bodiesMicro_target r bs m hm]
    intro e; exact hne r bs rfl (Option.some.inj e)
  | new pre srcs F os ss post =>
    simp only [Op.micro, List.mem_append, List.mem_map, List.mem_cons] at hm
    rcases hm with ⟨p, _, rfl⟩ | rfl | hm
    · right; rfl
    · left; simp [Micro.target]
    · left
      rw [bodiesMicro_target n post m hm]
      intro e; have := Option.some.inj e; omega

/-- **frame** for one API call: every live table other than an in-place receiver — in particular
the receiver and every argument of a non-in-place call — is observably unchanged. -/
theorem stepOp_frame {h : Heap γ} (s : Sep h) (op : Op γ) (t : Nat) (hlt : t < h.objs.length)
    (hne : ∀ r bs, op = .inplace r bs → r ≠ t) : (stepOp h op).abs t = h.abs t :=
  run_frame_quiet s _ t hlt (op_micro_target _ op t hlt hne)

/-- "Every operation invoked with inplace=False, and every operation documented to return a new
table, leaves the receiver and all argument tables observably unchanged". -/
theorem noninplace_inputs_unchanged {h : Heap γ} (s : Sep h) (pre srcs F os ss) (post : List (Body γ)) (t : Nat)
    (hlt : t < h.objs.length) : (stepOp h (.new pre srcs F os ss post)).abs t = h.abs t :=
  stepOp_frame s _ t hlt (fun _ _ e => by cases e)

/-- **frame over histories**: a table is unchanged by any sequence of calls none of which is an
in-place call on it ("later in-place changes to the result never show through in the original"). -/
theorem history_frame {h : Heap γ} (s : Sep h) (ops : List (Op γ)) (t : Nat) (hlt : t < h.objs.length)
    (hne : ∀ op ∈ ops, ∀ r bs, op = .inplace r bs → r ≠ t) : (runOps h ops).abs t = h.abs t := by
  induction ops generalizing h with
  | nil => rfl
  | cons op r ih =>
    simp only [runOps, List.foldl_cons]
    have h1 := stepOp_frame s op t hlt (hne op (by simp))
    have := ih (stepOp_sep s op) (Nat.lt_of_lt_of_le hlt (stepOp_objs_length_le h op))
      (fun op' hm => hne op' (by simp [hm]))
    simp only [runOps] at this
    rw [this, h1]

/-- caller-held and shared ID arrays are never modified by any history -/
theorem history_ids_never_written (h : Heap γ) (ops : List (Op γ)) (l : Nat) (hl : l < h.ids.length) :
    (runOps h ops).ids[l]? = h.ids[l]? := by
  induction ops generalizing h with
  | nil => rfl
  | cons op r ih =>
    simp only [runOps, List.foldl_cons]
    obtain ⟨e, he⟩ := run_ids_prefix h (op.micro h.objs.length)
    have hl' : l < (stepOp h op).ids.length := by unfold stepOp; rw [he]; simp; omega
    have := ih (stepOp h op) hl'
    simp only [runOps] at this
    rw [this]
    unfold stepOp
    rw [he, List.getElem?_append_left hl]

/-! ### in-place ≡ non-in-place -/

/-- the in-place variant returns the receiver itself; the other variant returns a new object -/
theorem inplace_returns_receiver (r n : Nat) (bs : List (Body γ)) :
    (Op.inplace r bs).result n = some r ∧ (Op.copyThen r bs).result n = some n := ⟨rfl, rfl⟩

/-- state of the receiver after the in-place variant: the bodies' content function applied to its content -/
theorem inplace_content {h : Heap γ} (s : Sep h) (r : Nat) (bs : List (Body γ)) (o : Obj)
    (ho : h.objs[r]? = some o) :
    (stepOp h (.inplace r bs)).abs r = some (absRun (bodiesMicro r bs) (h.absObj o)) :=
  run_inplace_abs s _ r o (bodiesMicro_target r bs) ho

theorem copyF_single (c : Content γ) : copyF [c] = c := rfl

/-- content of the table the non-in-place variant returns: the same content function applied to
what `copy()` makes of the receiver's content -/
theorem copy_content {h : Heap γ} (s : Sep h) (r : Nat) (bs : List (Body γ)) (o : Obj)
    (ho : h.objs[r]? = some o) :
    (stepOp h (Op.copyThen r bs)).abs h.objs.length =
      some (absRun (bodiesMicro r bs) (h.absObj o).norm) := by
  unfold stepOp Op.copyThen
  simp only [Op.micro, List.map_nil, List.nil_append, run, List.foldl_cons, step]
  have hc := abs_construct h [r] copyF .fresh .fresh
  have hsrc : [r].filterMap h.abs = [h.absObj o] := by simp [Heap.abs, ho]
  rw [hsrc, copyF_single] at hc
  obtain ⟨o', ho', e⟩ := abs_some_obj hc
  have := run_inplace_abs (sep_construct s [r] copyF .fresh .fresh) (bodiesMicro h.objs.length bs)
    h.objs.length o' (bodiesMicro_target _ bs) ho'
  simp only [run] at this
  rw [this, e, absRun_target_irrel h.objs.length r]
  rfl

theorem norm_of_mdNormal (c : Content γ) (hn : c.mdNormal = true) : c.norm = c := by
  rw [mdNormal_iff] at hn
  simp [Content.norm, hn.1, hn.2]

/-- the invariant of every reachable heap: separation of the writable locations, and no table
holding a metadata tuple without information (constructor, `_cast_metadata`, `filter` and
`del_metadata` all turn such a tuple into `None`) -/
def Inv (h : Heap γ) : Prop := Sep h ∧ Normal h

theorem inv_empty : Inv (Heap.empty : Heap γ) := ⟨sep_empty, normal_empty⟩

theorem stepOp_inv {h : Heap γ} (i : Inv h) (op : Op γ) : Inv (stepOp h op) :=
  ⟨stepOp_sep i.1 op, run_normal i.1 i.2 _⟩

theorem runOps_inv {h : Heap γ} (i : Inv h) (ops : List (Op γ)) : Inv (runOps h ops) := by
  induction ops generalizing h with
  | nil => exact i
  | cons m r ih => exact ih (stepOp_inv i m)

/-- **in-place ≡ non-in-place**: "the in-place variant leaves the receiver in exactly the state the
non-in-place variant returns" — for every reachable heap (any layout of the receiver, any sharing
of its ID arrays, any history), every body (filter, transform, norm, pa, rankdata, remove_empty,
update_ids, add/del metadata and any sequence of them) and every content function. -/
theorem inplace_equiv {h : Heap γ} (i : Inv h) (r : Nat) (bs : List (Body γ)) (o : Obj)
    (ho : h.objs[r]? = some o) :
    (stepOp h (.inplace r bs)).abs r = (stepOp h (Op.copyThen r bs)).abs h.objs.length := by
  rw [inplace_content i.1 r bs o ho, copy_content i.1 r bs o ho, norm_of_mdNormal _ (i.2 r o ho)]

/-- a 1×2 table whose second sample has an empty metadata entry -/
def wC0 : Content Nat :=
  { obs := ["o"], samp := ["s1", "s2"], mat := 7, omd := none, smd := some [[("a", "1")], []], ttype := none }

/-- build it, then keep only the second sample in place: the kept entry is empty, so the receiver
now has no sample metadata (before the repair of `filter` it kept the tuple `({},)`, and the
in-place and copying variants of every later operation disagreed) -/
def wHeap : Heap Nat :=
  runOps Heap.empty [.new [] [] (fun _ => wC0) .fresh .fresh [], .inplace 0 [.filter .samp id ["s2"] [false, true]]]

theorem inplace_equiv_formerly_failing :
    (wHeap.abs 0).map (·.smd) = some none ∧
    (stepOp wHeap (.inplace 0 [.transform .samp (· * 2)])).abs 0 =
      (stepOp wHeap (Op.copyThen 0 [.transform .samp (· * 2)])).abs wHeap.objs.length := by
  decide

/-! ### the declarative predicate holds of the model's own observations -/

section holds
variable [DecidableEq γ]
open Codec

theorem snaps_get (h : Heap γ) (i : Nat) : (snaps h)[i]? = h.abs i := by
  simp [snaps, Heap.abs]

theorem snaps_length (h : Heap γ) : (snaps h).length = h.objs.length := by simp [snaps]

theorem holds_of_inplace (c : CallObs γ) (hi : c.inplace = true)
    (h1 : ((List.range c.before.length).all (fun i => i == c.recv || c.after[i]? == c.before[i]?)
            && c.after.length == c.before.length) = true)
    (h2 : (c.extAfter == c.extBefore) = true)
    (h3 : (c.raised || c.resultIds == [c.recv]) = true)
    (h4 : (c.raised || c.after[c.recv]? == c.results.head?) = true)
    (h5 : (c.raised || (c.reference.isSome && c.results.head? == c.reference)) = true)
    (h6 : ((List.range c.gBefore.length).all (fun i => i == c.recv || c.gAfter[i]? == c.gBefore[i]?)) = true) :
    holds c = true := by
  simp only [holds, holdsV, hi, if_true, allV, List.foldl, chk, h1, h2, h3, h4, h5, h6, Verdict.and]
  rfl

theorem holds_of_new (c : CallObs γ) (hi : c.inplace = false)
    (h1 : (c.after == c.before) = true)
    (h2 : (c.extAfter == c.extBefore) = true)
    (h3 : (c.resultIds.all (fun i => decide (c.before.length ≤ i))) = true)
    (h4 : (c.raised || (c.resultIds.length == c.results.length)) = true)
    (h5 : (c.afterPoke == c.before) = true)
    (h6 : (c.extAfterPoke == c.extBefore) = true)
    (h7 : (c.gAfter == c.gBefore) = true) (h8 : (c.gAfterPoke == c.gBefore) = true) : holds c = true := by
  simp only [holds, holdsV, hi, allV, List.foldl, chk, h1, h2, h3, h4, h5, h6, h7, h8, Verdict.and]
  rfl

theorem take_snaps_eq {h h' : Heap γ} (_hle : h.objs.length ≤ h'.objs.length)
    (hfr : ∀ t, t < h.objs.length → h'.abs t = h.abs t) : (snaps h').take h.objs.length = snaps h := by
  apply List.ext_getElem?
  intro i
  rw [List.getElem?_take]
  by_cases hi : i < h.objs.length
  · simp only [hi, if_true, snaps_get]; exact hfr i hi
  · simp only [hi, if_false]
    rw [List.getElem?_eq_none]
    simp [snaps_length]; omega

theorem stepOp_ids_take (h : Heap γ) (op : Op γ) : (stepOp h op).ids.take h.ids.length = h.ids := by
  obtain ⟨e, he⟩ := run_ids_prefix h (op.micro h.objs.length)
  unfold stepOp
  rw [he]; simp

theorem stepOp_ids_length_le (h : Heap γ) (op : Op γ) : h.ids.length ≤ (stepOp h op).ids.length := by
  obtain ⟨e, he⟩ := run_ids_prefix h (op.micro h.objs.length)
  unfold stepOp
  rw [he]; simp

/-- one in-place call -/
theorem obs_holds_inplace {h : Heap γ} (i : Inv h) (r : Nat) (bs poke : List (Body γ)) (o : Obj)
    (ho : h.objs[r]? = some o) :
    holds (obsOp h (.inplace r bs) poke).1 = true := by
  have s := i.1
  have hr := getElem?_some_lt ho
  have hle := stepOp_objs_length_le h (.inplace r bs)
  have hc := inplace_content s r bs o ho
  apply holds_of_inplace
  · rfl
  · simp only [obsOp, Bool.and_eq_true, List.all_eq_true, List.mem_range, beq_iff_eq, Bool.or_eq_true,
      snaps_length, List.length_take]
    refine ⟨fun i hi => ?_, by omega⟩
    by_cases e : i = r
    · exact Or.inl e
    · right
      rw [List.getElem?_take, if_pos hi, snaps_get, snaps_get]
      exact stepOp_frame s _ i hi (fun r' bs' e' => by cases e'; exact fun e'' => e e''.symm)
  · simp only [obsOp, beq_iff_eq]; exact stepOp_ids_take h _
  · simp [obsOp]
  · simp only [obsOp, Bool.false_or, beq_iff_eq]
    rw [List.getElem?_take, if_pos hr, snaps_get, hc]; rfl
  · simp only [obsOp, Bool.false_or, Bool.and_eq_true, beq_iff_eq]
    rw [← inplace_equiv i r bs o ho, hc]
    exact ⟨rfl, rfl⟩
  · simp [obsOp]

/-- one call that returns new tables, followed by ANY in-place poke of the result -/
theorem obs_holds_new {h : Heap γ} (s : Sep h) (op : Op γ) (poke : List (Body γ))
    (hop : ∀ r bs, op ≠ .inplace r bs) : holds (obsOp h op poke).1 = true := by
  have s1 := stepOp_sep s op
  have hle := stepOp_objs_length_le h op
  have hle2 := stepOp_objs_length_le (stepOp h op) (.inplace h.objs.length poke)
  have f1 : ∀ t, t < h.objs.length → (stepOp h op).abs t = h.abs t :=
    fun t ht => stepOp_frame s op t ht (fun r bs e => absurd e (hop r bs))
  have f2 : ∀ t, t < h.objs.length →
      (stepOp (stepOp h op) (.inplace h.objs.length poke)).abs t = h.abs t := by
    intro t ht
    rw [stepOp_frame s1 _ t (by omega) (fun r bs e => by cases e; omega)]
    exact f1 t ht
  have e1 := take_snaps_eq hle f1
  have e2 := take_snaps_eq (Nat.le_trans hle hle2) f2
  have i1 := stepOp_ids_take h op
  have i2 : (stepOp (stepOp h op) (.inplace h.objs.length poke)).ids.take h.ids.length = h.ids := by
    have a := stepOp_ids_take (stepOp h op) (.inplace h.objs.length poke)
    have b := stepOp_ids_length_le h op
    have : h.ids.length = min h.ids.length (stepOp h op).ids.length := by omega
    rw [this, ← List.take_take, a, i1]
  cases op with
  | inplace r bs => exact absurd rfl (hop r bs)
  | extIds l =>
    apply holds_of_new
    · rfl
    · simp only [obsOp, beq_iff_eq]; exact e1
    · simp only [obsOp, beq_iff_eq]; exact i1
    · simp [obsOp, snaps_length]
    · simp [obsOp, snaps_length]
    · simp only [obsOp, beq_iff_eq]; exact e2
    · simp only [obsOp, beq_iff_eq]; exact i2
    · simp [obsOp]
    · simp [obsOp]
  | read pre =>
    apply holds_of_new
    · rfl
    · simp only [obsOp, beq_iff_eq]; exact e1
    · simp only [obsOp, beq_iff_eq]; exact i1
    · simp [obsOp, snaps_length]
    · simp [obsOp, snaps_length]
    · simp only [obsOp, beq_iff_eq]; exact e2
    · simp only [obsOp, beq_iff_eq]; exact i2
    · simp [obsOp]
    · simp [obsOp]
  | new pre srcs F os ss post =>
    apply holds_of_new
    · rfl
    · simp only [obsOp, beq_iff_eq]; exact e1
    · simp only [obsOp, beq_iff_eq]; exact i1
    · simp [obsOp, snaps_length]
    · simp [obsOp, snaps_length]
    · simp only [obsOp, beq_iff_eq]; exact e2
    · simp only [obsOp, beq_iff_eq]; exact i2
    · simp [obsOp]
    · simp [obsOp]

theorem obsOp_inv {h : Heap γ} (s : Inv h) (op : Op γ) (poke : List (Body γ)) : Inv (obsOp h op poke).2 := by
  cases op with
  | inplace r bs => exact stepOp_inv s _
  | extIds l => exact stepOp_inv (stepOp_inv s _) _
  | read pre => exact stepOp_inv (stepOp_inv s _) _
  | new pre srcs F os ss post => exact stepOp_inv (stepOp_inv s _) _

/-- **model_holds**: the declarative predicate is true of the model's observation of every call of
every history from every heap satisfying the invariant, whatever the operations, their arguments,
content functions and pokes (`okRun`: every in-place call names a table that is live). -/
theorem model_holds {h : Heap γ} (i : Inv h) (calls : List (Op γ × List (Body γ)))
    (hok : okRun h calls = true) : (runObs h calls).all holds = true := by
  induction calls generalizing h with
  | nil => rfl
  | cons c rest ih =>
    obtain ⟨op, poke⟩ := c
    simp only [okRun, Bool.and_eq_true] at hok
    simp only [runObs, List.all_cons, Bool.and_eq_true]
    refine ⟨?_, ih (obsOp_inv i op poke) hok.2⟩
    cases op with
    | inplace r bs =>
      have hk := hok.1
      simp only [okCall, decide_eq_true_eq] at hk
      exact obs_holds_inplace i r bs poke h.objs[r] (by simp [hk])
    | extIds l => exact obs_holds_new i.1 _ poke (fun _ _ e => by cases e)
    | read pre => exact obs_holds_new i.1 _ poke (fun _ _ e => by cases e)
    | new pre srcs F os ss post => exact obs_holds_new i.1 _ poke (fun _ _ e => by cases e)

/-- every history that starts from nothing (all prior histories, every layout they lead to) -/
theorem model_holds_from_empty (pre : List (Op γ)) (calls : List (Op γ × List (Body γ)))
    (hok : okRun (runOps Heap.empty pre) calls = true) :
    (runObs (runOps (Heap.empty : Heap γ) pre) calls).all holds = true :=
  model_holds (runOps_inv inv_empty pre) calls hok

end holds

/-! ### non-vacuity: concrete heaps with shared ID arrays, layouts that match / do not match -/

def exA : Content Nat :=
  { obs := ["o1", "o2"], samp := ["s1", "s2"], mat := 1, omd := some [[("g", "a")], [("g", "b")]], smd := none,
    ttype := some "OTU table" }
def exB : Content Nat := { exA with mat := 2, omd := none }
def exT (cs : List (Content Nat)) : Content Nat :=
  match cs with
  | [c] => { obs := c.samp, samp := c.obs, mat := c.mat + 100, omd := c.smd, smd := c.omd, ttype := none }
  | _ => exA

/-- the caller makes one ID array and builds two tables on it; the first is transposed (views of
both of its ID arrays); the second is put into CSC layout by an in-place transform -/
def exHeap : Heap Nat :=
  runOps Heap.empty [.extIds ["s1", "s2"], .new [] [] (fun _ => exA) .fresh (.ofLoc 0) [],
    .new [] [] (fun _ => exB) .fresh (.ofLoc 0) [], Op.transpose 0 exT,
    .inplace 1 [.transform .samp (· + 5)]]

example : Inv exHeap := runOps_inv inv_empty _
/-- tables 0 and 1 share the caller's array; the transposed table 2 uses table 0's arrays, swapped -/
example : exHeap.objs.map (fun o => (o.obsIds, o.sampIds)) = [(1, 0), (2, 0), (0, 1)] := by decide
example : exHeap.objs.map (·.fmt) = [.csr, .csc, .csr] := by decide
/-- an in-place transform on table 0 (layout matches: the buffer is written in place) changes table 0
and neither table 1, which shares its sample IDs, nor table 2, which shares both ID arrays -/
example :
    let h' := stepOp exHeap (.inplace 0 [.transform .obs (· + 10), .updateIds .samp ["x", "y"]])
    h'.abs 0 ≠ exHeap.abs 0 ∧ h'.abs 1 = exHeap.abs 1 ∧ h'.abs 2 = exHeap.abs 2 ∧
    (h'.objs.map (·.mat)) = (exHeap.objs.map (·.mat)) := by decide
/-- the hypothesis of `model_holds` is met by a history with in-place and non-in-place calls,
a layout that matches (table 1, CSC, sample axis) and one that does not, and pokes -/
example : okRun exHeap
    [(.inplace 1 [.filter .samp (· + 1) ["s2"] [false, true]], []),
     (Op.copyThen 0 [.transform .samp (· * 2)], [.transform .obs (· * 3), .addMd .obs [some (fun m => ("k", "v") :: m)],
                                                   .delMd .obs (some (fun m => m.filter (·.1 != "k")))]),
     (Op.partition 0 .samp [(0, .samp)] (fun _ => exB) [], [.updateIds .obs ["p", "q"]]),
     (.inplace 0 [.updateIds .obs ["n1", "n2"]], [])] = true := by decide
example : (runObs exHeap
    [(.inplace 1 [.filter .samp (· + 1) ["s2"] [false, true]], []),
     (Op.copyThen 0 [.transform .samp (· * 2)], [.transform .obs (· * 3)])]).map (·.results.length) = [1, 1] := by decide

end Biom.C07
