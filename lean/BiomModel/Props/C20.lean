/-
  C20 — property theorems.  Everything is for EVERY registry (any distinct kinds, any valid
  current reactions), EVERY program (any nesting depth, any exit path) — no bound anywhere.
-/
import BiomModel.Lemmas.C20

namespace Biom.C20

/-- A successful `seterr` call is characterised kind by kind; a refused one changes nothing. -/
theorem seterr_spec (s : State) (kw : Kw) (h : KwWF kw) :
    seterr s kw = if validKw s kw then some (expectedAfter s kw) else none := by
  unfold seterr
  split
  · rw [applyKw_eq_expected s kw h]
  · rfl

/-- "unknown kinds or reactions are refused without changing the profile" -/
theorem seterr_refused_unchanged (p : Profile) (kw : Kw) (h : validKw p.state kw = false) :
    (exec (.seterr kw) p).1 = p ∧ (exec (.seterr kw) p).2.out = .keyError := by
  simp [exec, seterr, h, Obs.out]

theorem seterrcall_refused_unchanged (p : Profile) (k : Kind) (cb : Nat)
    (h : (kinds p.state).contains k = false) :
    (exec (.seterrcall k cb) p).1 = p ∧ (exec (.seterrcall k cb) p).2.out = .keyError := by
  have h' : k ∉ kinds p.state := by simpa using h
  simp [exec, h', Obs.out]

theorem exec_pre (prog : Prog) (p : Profile) : (exec prog p).2.pre = p.state := by
  induction prog generalizing p with
  | seterr kw => simp only [exec]; split <;> rfl
  | seterrcall k cb => simp only [exec]; split <;> rfl
  | check trig => simp [exec, Obs.pre]
  | raise => rfl
  | seq a b iha _ =>
    simp only [exec]
    split <;> simp only [Obs.pre] <;> exact iha p
  | errstate kw body _ => simp only [exec]; split <;> rfl

theorem exec_post (prog : Prog) (p : Profile) : (exec prog p).2.post = (exec prog p).1.state := by
  induction prog generalizing p with
  | seterr kw => simp only [exec]; split <;> rfl
  | seterrcall k cb => simp only [exec]; split <;> rfl
  | check trig => simp [exec, Obs.post]
  | raise => rfl
  | seq a b iha ihb =>
    simp only [exec]
    split
    · simp only [Obs.post]; exact ihb _
    · simp only [Obs.post]; exact iha p
  | errstate kw body _ => simp only [exec]; split <;> rfl

/-- No program changes the set of kinds or installs an invalid reaction. -/
theorem exec_wf (prog : Prog) (p : Profile) (hp : ProgWF prog) (hs : StateWF p.state) :
    StateWF (exec prog p).1.state ∧ kinds (exec prog p).1.state = kinds p.state := by
  induction prog generalizing p with
  | seterr kw =>
    simp only [exec]
    rw [seterr_spec p.state kw hp]
    by_cases hv : validKw p.state kw = true
    · simp only [hv, if_true]
      exact ⟨stateWF_expectedAfter _ _ hs hv, kinds_expectedAfter _ _⟩
    · simp only [hv]; exact ⟨hs, rfl⟩
  | seterrcall k cb => simp only [exec]; split <;> exact ⟨hs, rfl⟩
  | check trig => exact ⟨hs, rfl⟩
  | raise => exact ⟨hs, rfl⟩
  | seq a b iha ihb =>
    simp only [exec]
    have ha := iha p hp.1 hs
    split
    · have hb := ihb (exec a p).1 hp.2 ha.1
      exact ⟨hb.1, hb.2.trans ha.2⟩
    · exact ha
  | errstate kw body ih =>
    simp only [exec]
    rw [seterr_spec p.state kw hp.1]
    by_cases hv : validKw p.state kw = true
    · simp only [hv, if_true]
      have hin : StateWF (expectedAfter p.state kw) := stateWF_expectedAfter _ _ hs hv
      have hb := ih { p with state := expectedAfter p.state kw } hp.2 hin
      have hk : kinds (exec body { p with state := expectedAfter p.state kw }).1.state = kinds p.state :=
        hb.2.trans (kinds_expectedAfter _ _)
      rw [restore p.state _ hs hk]
      exact ⟨hs, rfl⟩
    · simp only [hv]; exact ⟨hs, rfl⟩

/-- "the previous profile is restored on exit, whether the block completes normally or raises":
for every body (nested blocks, refused calls, raised table errors, exceptions of its own). -/
theorem errstate_restores (kw : Kw) (body : Prog) (p : Profile)
    (hp : ProgWF (.errstate kw body)) (hs : StateWF p.state) :
    (exec (.errstate kw body) p).1.state = p.state := by
  simp only [exec]
  rw [seterr_spec p.state kw hp.1]
  by_cases hv : validKw p.state kw = true
  · simp only [hv, if_true]
    have hin : StateWF (expectedAfter p.state kw) := stateWF_expectedAfter _ _ hs hv
    have hb := exec_wf body { p with state := expectedAfter p.state kw } hp.2 hin
    have hk := hb.2.trans (kinds_expectedAfter p.state kw)
    rw [restore p.state _ hs hk]; rfl
  · simp only [hv]; rfl

/-- "A scoped override is in force exactly within its block": the body starts from the previous
profile overridden by the keywords. -/
theorem errstate_in_force (kw : Kw) (body : Prog) (p : Profile) (hkw : KwWF kw)
    (hv : validKw p.state kw = true) :
    ∃ after, (exec (.errstate kw body) p).2 =
      .errstate p.state
        (some (expectedAfter p.state kw, (exec body { p with state := expectedAfter p.state kw }).2)) after := by
  simp only [exec]
  rw [seterr_spec p.state kw hkw]
  simp only [hv, if_true]
  exact ⟨_, rfl⟩

theorem firstTriggered_nil (s : State) : firstTriggered s [] = none := by
  unfold firstTriggered
  exact List.find?_eq_none.mpr (by simp)

theorem firstTriggered_single_mem (s : State) (k : Kind) (hmem : k ∈ kinds s) :
    firstTriggered s [k] = some k := by
  unfold firstTriggered
  generalize kinds s = ks at hmem
  induction ks with
  | nil => cases hmem
  | cons x xs ih =>
    by_cases hx : x = k
    · simp [List.find?, hx]
    · have : k ∈ xs := by
        rcases List.mem_cons.mp hmem with h | h
        · exact absurd h.symm hx
        · exact h
      have hne : ([k].contains x) = false := by simp [hx]
      simp only [List.find?, hne]
      exact ih this

theorem firstTriggered_single_not_mem (s : State) (k : Kind) (hnm : k ∉ kinds s) :
    firstTriggered s [k] = none := by
  unfold firstTriggered
  rw [List.find?_eq_none]
  intro x hx
  have : ¬ (x = k) := fun e => hnm (e ▸ hx)
  simpa using this

/-- "the configured reaction is what happens" for an item triggering exactly kind `k`. -/
theorem reaction_honoured (p : Profile) (k : Kind) (r : String) (hs : StateWF p.state)
    (hk : (k, r) ∈ p.state) :
    (exec (.check [k]) p).2 =
      .check p.state ((p.calls.lookup k).getD 0) (reactionEv k r ((p.calls.lookup k).getD 0)) := by
  have hlook : p.state.lookup k = some r := lookup_of_mem_nodup p.state hs.nodup (k, r) hk
  have hfirst : firstTriggered p.state [k] = some k :=
    firstTriggered_single_mem _ _ (List.mem_map_of_mem (f := (·.1)) hk)
  simp only [exec, react, hfirst, hlook, Option.getD]

/-- An item on which no test fires passes silently whatever the profile. -/
theorem no_trigger_quiet (p : Profile) : (exec (.check []) p).2 = .check p.state 0 .quiet := by
  simp only [exec, react, firstTriggered_nil]

/-- The whole property on the observation tree, for every program and registry. -/
theorem model_holds (prog : Prog) (p : Profile) (hp : ProgWF prog) (hs : StateWF p.state) :
    holds prog (exec prog p).2 = true := by
  induction prog generalizing p with
  | seterr kw =>
    simp only [exec]
    rw [seterr_spec p.state kw hp]
    by_cases hv : validKw p.state kw = true
    · simp [hv, holds]
    · simp [hv, holds]
  | seterrcall k cb =>
    simp only [exec]
    split <;> rename_i h <;> simp only [holds] <;> simp at h <;> simp [h]
  | check trig =>
    match trig with
    | [] => rw [no_trigger_quiet]; simp [holds]
    | [k] =>
      cases hl : p.state.lookup k with
      | none =>
        have hnm : k ∉ kinds p.state := by
          intro hm
          unfold kinds at hm
          rw [List.mem_map] at hm
          obtain ⟨kr, hkr, he⟩ := hm
          have := lookup_of_mem_nodup p.state hs.nodup kr hkr
          rw [he, hl] at this; cases this
        simp only [exec, react, firstTriggered_single_not_mem _ _ hnm, holds, hl]
        simp
      | some r =>
        have hk : (k, r) ∈ p.state := mem_of_lookup _ _ _ hl
        rw [reaction_honoured p k r hs hk]
        simp [holds, hl]
    | _ :: _ :: _ => simp [exec, holds]
  | raise => rfl
  | seq a b iha ihb =>
    simp only [exec]
    have ha := iha p hp.1 hs
    have hwa := exec_wf a p hp.1 hs
    split
    · rename_i hn
      simp only [holds, ha, Bool.true_and, Bool.and_eq_true]
      refine ⟨⟨by simpa using hn, ihb _ hp.2 hwa.1⟩, ?_⟩
      rw [exec_pre, exec_post]; simp
    · rename_i hn
      simp only [holds, ha, Bool.true_and]
      simpa using hn
  | errstate kw body ih =>
    have hres := errstate_restores kw body p hp hs
    simp only [exec] at hres ⊢
    rw [seterr_spec p.state kw hp.1] at hres ⊢
    by_cases hv : validKw p.state kw = true
    · simp only [hv, if_true] at hres ⊢
      have hin : StateWF (expectedAfter p.state kw) := stateWF_expectedAfter _ _ hs hv
      simp only [holds, hv, Bool.true_and, Bool.and_eq_true]
      refine ⟨by simpa using hres, ⟨by simp, ?_⟩, ih _ hp.2 hin⟩
      rw [exec_pre]; simp
    · simp [hv, holds]

/-! Non-vacuity: a concrete registry and a nested program meet the hypotheses, and the block
really is entered, raises, and is restored. -/
def demoState : State := [("empty", "ignore"), ("obsdup", "raise"), ("sampdup", "raise")]
def demoProg : Prog :=
  .seq (.errstate [("empty", "raise")] (.seq (.errstate [("all", "warn")] (.check ["obsdup"])) (.check ["empty"])))
       (.check ["empty"])

example : StateWF demoState :=
  ⟨by decide, by decide, by decide⟩
example : ProgWF demoProg := by simp [demoProg, ProgWF, KwWF]
example : (exec demoProg ⟨demoState, []⟩).1.state = demoState := by decide
example : (exec demoProg ⟨demoState, []⟩).2.out = .tableException := by decide

end Biom.C20

/-! ### the save/restore idiom of `seterrcall` -/

namespace Biom.C20

theorem setCall_lookup_self (calls : List (Kind × Nat)) (k : Kind) (cb : Nat) :
    (setCall calls k cb).lookup k = some cb := by
  simp [setCall]

theorem setCall_lookup_other (calls : List (Kind × Nat)) (k k' : Kind) (cb : Nat) (h : k' ≠ k) :
    (setCall calls k cb).lookup k' = calls.lookup k' := by
  have hb : (k' == k) = false := by simpa using h
  simp only [setCall, List.lookup, hb]
  induction calls with
  | nil => rfl
  | cons kc rest ih =>
    obtain ⟨a, b⟩ := kc
    by_cases hak : a = k
    · subst hak
      have hb' : (k' == a) = false := by simpa using h
      simp [List.filter, List.lookup, hb', ih]
    · have : ((a, b).1 != k) = true := by simpa using hak
      simp only [List.filter, this, List.lookup]
      cases hk : (k' == a) <;> simp [ih]

/-- registering a callback and then putting back the one that was registered before (what the first
`seterrcall` returned) leaves every kind with the callback it had: each later trigger reacts as if neither
call had happened. Callback 0 stands for "none registered" (quiet under 'call'). -/
theorem seterrcall_save_restore (calls : List (Kind × Nat)) (k : Kind) (cb : Nat) (k' : Kind) :
    ((setCall (setCall calls k cb) k ((calls.lookup k).getD 0)).lookup k').getD 0
      = (calls.lookup k').getD 0 := by
  by_cases h : k' = k
  · subst h; rw [setCall_lookup_self]; rfl
  · rw [setCall_lookup_other _ _ _ _ h, setCall_lookup_other _ _ _ _ h]

/-- … and therefore the reaction to any trigger is the same as before the two calls -/
theorem react_after_save_restore (p : Profile) (k : Kind) (cb : Nat) (trig : List Kind) :
    react { p with calls := setCall (setCall p.calls k cb) k ((p.calls.lookup k).getD 0) } trig = react p trig := by
  unfold react
  cases firstTriggered p.state trig with
  | none => rfl
  | some k' => simp only [seterrcall_save_restore]

end Biom.C20
