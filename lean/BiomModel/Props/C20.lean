/-
  C20 — property theorems.  Everything is for EVERY registry (any distinct kinds, any valid
  current reactions), EVERY program (any nesting depth, any exit path) — no bound anywhere.
-/
import BiomModel.Lemmas.C20

namespace Biom.C20

/-- A successful `seterr` call is characterised kind by kind; a refused one changes nothing. -/
theorem seterr_spec (s : State) (kw : Kw) (h : KwWF kw) :
    seterr s kw = if validKw s kw then some (expectedAfter s kw) else none := by
  unfold seterr
  split
  · rw [applyKw_eq_expected s kw h]
  · rfl

/-- "unknown kinds or reactions are refused without changing the profile" -/
theorem seterr_refused_unchanged (p : Profile) (kw : Kw) (h : validKw p.state kw = false) :
    (exec (.seterr kw) p).1 = p ∧ (exec (.seterr kw) p).2.out = .keyError := by
  simp [exec, seterr, h, Obs.out]

theorem seterrcall_refused_unchanged (p : Profile) (k : Kind) (cb : Nat)
    (h : (kinds p.state).contains k = false) :
    (exec (.seterrcall k cb) p).1 = p ∧ (exec (.seterrcall k cb) p).2.out = .keyError := by
  have h' : k ∉ kinds p.state := by simpa using h
  simp [exec, h', Obs.out]

theorem exec_pre (prog : Prog) (p : Profile) : (exec prog p).2.pre = p.state := by
  induction prog generalizing p with
  | seterr kw => simp only [exec]; split <;> rfl
  | seterrcall k cb => simp only [exec]; split <;> rfl
  | check trig => simp [exec, Obs.pre]
  | raise => rfl
  | seq a b iha _ =>
    simp only [exec]
    split <;> simp only [Obs.pre] <;> exact iha p
  | errstate kw body _ => simp only [exec]; split <;> rfl

theorem exec_post (prog : Prog) (p : Profile) : (exec prog p).2.post = (exec prog p).1.state := by
  induction prog generalizing p with
  | seterr kw => simp only [exec]; split <;> rfl
  | seterrcall k cb => simp only [exec]; split <;> rfl
  | check trig => simp [exec, Obs.post]
  | raise => rfl
  | seq a b iha ihb =>
    simp only [exec]
    split
    · simp only [Obs.post]; exact ihb _
    · simp only [Obs.post]; exact iha p
  | errstate kw body _ => simp only [exec]; split <;> rfl

/-- No program changes the set of kinds or installs an invalid reaction. -/
theorem exec_wf (prog : Prog) (p : Profile) (hp : ProgWF prog) (hs : StateWF p.state) :
    StateWF (exec prog p).1.state ∧ kinds (exec prog p).1.state = kinds p.state := by
  induction prog generalizing p with
  | seterr kw =>
    simp only [exec]
    rw [seterr_spec p.state kw hp]
    by_cases hv : validKw p.state kw = true
    · simp only [hv, if_true]
      exact ⟨stateWF_expectedAfter _ _ hs hv, kinds_expectedAfter _ _⟩
    · simp only [hv]; exact ⟨hs, rfl⟩
  | seterrcall k cb => simp only [exec]; split <;> exact ⟨hs, rfl⟩
  | check trig => exact ⟨hs, rfl⟩
  | raise => exact ⟨hs, rfl⟩
  | seq a b iha ihb =>
    simp only [exec]
    have ha := iha p hp.1 hs
    split
    · have hb := ihb (exec a p).1 hp.2 ha.1
      exact ⟨hb.1, hb.2.trans ha.2⟩
    · exact ha
  | errstate kw body ih =>
    simp only [exec]
    rw [seterr_spec p.state kw hp.1]
    by_cases hv : validKw p.state kw = true
    · simp only [hv, if_true]
      have hin : StateWF (expectedAfter p.state kw) := stateWF_expectedAfter _ _ hs hv
      have hb := ih { p with state := expectedAfter p.state kw } hp.2 hin
      have hk : kinds (exec body { p with state := expectedAfter p.state kw }).1.state = kinds p.state :=
        hb.2.trans (kinds_expectedAfter _ _)
      rw [restore p.state _ hs hk]
      exact ⟨hs, rfl⟩
    · simp only [hv]; exact ⟨hs, rfl⟩

/-- "the previous profile is restored on exit, whether the block completes normally or raises":
for every body (nested blocks, refused calls, raised table errors, exceptions of its own). -/
theorem errstate_restores (kw : Kw) (body : Prog) (p : Profile)
    (hp : ProgWF (.errstate kw body)) (hs : StateWF p.state) :
    (exec (.errstate kw body) p).1.state = p.state := by
  simp only [exec]
  rw [seterr_spec p.state kw hp.1]
  by_cases hv : validKw p.state kw = true
  · simp only [hv, if_true]
    have hin : StateWF (expectedAfter p.state kw) := stateWF_expectedAfter _ _ hs hv
    have hb := exec_wf body { p with state := expectedAfter p.state kw } hp.2 hin
    have hk := hb.2.trans (kinds_expectedAfter p.state kw)
    rw [restore p.state _ hs hk]; rfl
  · simp only [hv]; rfl

/-- "A scoped override is in force exactly within its block": the body starts from the previous
profile overridden by the keywords. -/
theorem errstate_in_force (kw : Kw) (body : Prog) (p : Profile) (hkw : KwWF kw)
    (hv : validKw p.state kw = true) :
    ∃ after, (exec (.errstate kw body) p).2 =
      .errstate p.state
        (some (expectedAfter p.state kw, (exec body { p with state := expectedAfter p.state kw }).2)) after := by
  simp only [exec]
  rw [seterr_spec p.state kw hkw]
  simp only [hv, if_true]
  exact ⟨_, rfl⟩

theorem firstTriggered_nil (s : State) : firstTriggered s [] = none := by
  unfold firstTriggered
  exact List.find?_eq_none.mpr (by simp)

theorem firstTriggered_single_mem (s : State) (k : Kind) (hmem : k ∈ kinds s) :
    firstTriggered s [k] = some k := by
  unfold firstTriggered
  generalize kinds s = ks at hmem
  induction ks with
  | nil => cases hmem
  | cons x xs ih =>
    by_cases hx : x = k
    · simp [List.find?, hx]
    · have : k ∈ xs := by
        rcases List.mem_cons.mp hmem with h | h
        · exact absurd h.symm hx
        · exact h
      have hne : ([k].contains x) = false := by simp [hx]
      simp only [List.find?, hne]
      exact ih this

theorem firstTriggered_single_not_mem (s : State) (k : Kind) (hnm : k ∉ kinds s) :
    firstTriggered s [k] = none := by
  unfold firstTriggered
  rw [List.find?_eq_none]
  intro x hx
  have : ¬ (x = k) := fun e => hnm (e ▸ hx)
  simpa using this

/-- "the configured reaction is what happens" for an item triggering exactly kind `k`. -/
theorem reaction_honoured (p : Profile) (k : Kind) (r : String) (hs : StateWF p.state)
    (hk : (k, r) ∈ p.state) :
    (exec (.check [k]) p).2 =
      .check p.state ((p.calls.lookup k).getD 0) (reactionEv k r ((p.calls.lookup k).getD 0)) := by
  have hlook : p.state.lookup k = some r := lookup_of_mem_nodup p.state hs.nodup (k, r) hk
  have hfirst : firstTriggered p.state [k] = some k :=
    firstTriggered_single_mem _ _ (List.mem_map_of_mem (f := (·.1)) hk)
  simp only [exec, react, hfirst, hlook, Option.getD]

/-- An item on which no test fires passes silently whatever the profile. -/
theorem no_trigger_quiet (p : Profile) : (exec (.check []) p).2 = .check p.state 0 .quiet := by
  simp only [exec, react, firstTriggered_nil]

/-- The whole property on the observation tree, for every program and registry. -/
theorem model_holds (prog : Prog) (p : Profile) (hp : ProgWF prog) (hs : StateWF p.state) :
    holds prog (exec prog p).2 = true := by
  induction prog generalizing p with
  | seterr kw =>
    simp only [exec]
    rw [seterr_spec p.state kw hp]
    by_cases hv : validKw p.state kw = true
    · simp [hv, holds]
    · simp [hv, holds]
  | seterrcall k cb =>
    simp only [exec]
    split <;> rename_i h <;> simp only [holds] <;> simp at h <;> simp [h]
  | check trig =>
    match trig with
    | [] => rw [no_trigger_quiet]; simp [holds]
    | [k] =>
      cases hl : p.state.lookup k with
      | none =>
        have hnm : k ∉ kinds p.state := by
          intro hm
          unfold kinds at hm
          rw [List.mem_map] at hm
          obtain ⟨kr, hkr, he⟩ := hm
          have := lookup_of_mem_nodup p.state hs.nodup kr hkr
          rw [he, hl] at this; cases this
        simp only [exec, react, firstTriggered_single_not_mem _ _ hnm, holds, hl]
        simp
      | some r =>
        have hk : (k, r) ∈ p.state := mem_of_lookup _ _ _ hl
        rw [reaction_honoured p k r hs hk]
        simp [holds, hl]
    | _ :: _ :: _ => simp [exec, holds]
  | raise => rfl
  | seq a b iha ihb =>
    simp only [exec]
    have ha := iha p hp.1 hs
    have hwa := exec_wf a p hp.1 hs
    split
    · rename_i hn
      simp only [holds, ha, Bool.true_and, Bool.and_eq_true]
      refine ⟨⟨by simpa using hn, ihb _ hp.2 hwa.1⟩, ?_⟩
      rw [exec_pre, exec_post]; simp
    · rename_i hn
      simp only [holds, ha, Bool.true_and]
      simpa using hn
  | errstate kw body ih =>
    have hres := errstate_restores kw body p hp hs
    simp only [exec] at hres ⊢
    rw [seterr_spec p.state kw hp.1] at hres ⊢
    by_cases hv : validKw p.state kw = true
    · simp only [hv, if_true] at hres ⊢
      have hin : StateWF (expectedAfter p.state kw) := stateWF_expectedAfter _ _ hs hv
      simp only [holds, hv, Bool.true_and, Bool.and_eq_true]
      refine ⟨by simpa using hres, ⟨by simp, ?_⟩, ih _ hp.2 hin⟩
      rw [exec_pre]; simp
    · simp [hv, holds]

/-! Non-vacuity: a concrete registry and a nested program meet the hypotheses, and the block
really is entered, raises, and is restored. -/
def demoState : State := [("empty", "ignore"), ("obsdup", "raise"), ("sampdup", "raise")]
def demoProg : Prog :=
  .seq (.errstate [("empty", "raise")] (.seq (.errstate [("all", "warn")] (.check ["obsdup"])) (.check ["empty"])))
       (.check ["empty"])

example : StateWF demoState :=
  ⟨by decide, by decide, by decide⟩
example : ProgWF demoProg := by simp [demoProg, ProgWF, KwWF]
example : (exec demoProg ⟨demoState, []⟩).1.state = demoState := by decide
example : (exec demoProg ⟨demoState, []⟩).2.out = .tableException := by decide

end Biom.C20

/-! ### the save/restore idiom of `seterrcall` -/

namespace Biom.C20

theorem setCall_lookup_self (calls : List (Kind × Nat)) (k : Kind) (cb : Nat) :
    (setCall calls k cb).lookup k = some cb := by
  simp [setCall]

theorem setCall_lookup_other (calls : List (Kind × Nat)) (k k' : Kind) (cb : Nat) (h : k' ≠ k) :
    (setCall calls k cb).lookup k' = calls.lookup k' := by
  have hb : (k' == k) = false := by simpa using h
  simp only [setCall, List.lookup, hb]
  induction calls with
  | nil => rfl
  | cons kc rest ih =>
    obtain ⟨a, b⟩ := kc
    by_cases hak : a = k
    · subst hak
      have hb' : (k' == a) = false := by simpa using h
      simp [List.filter, List.lookup, hb', ih]
    · have : ((a, b).1 != k) = true := by simpa using hak
      simp only [List.filter, this, List.lookup]
      cases hk : (k' == a) <;> simp [ih]

/-- registering a callback and then putting back the one that was registered before (what the first
`seterrcall` returned) leaves every kind with the callback it had: each later trigger reacts as if neither
call had happened. Callback 0 stands for "none registered" (quiet under 'call'). -/
theorem seterrcall_save_restore (calls : List (Kind × Nat)) (k : Kind) (cb : Nat) (k' : Kind) :
    ((setCall (setCall calls k cb) k ((calls.lookup k).getD 0)).lookup k').getD 0
      = (calls.lookup k').getD 0 := by
  by_cases h : k' = k
  · subst h; rw [setCall_lookup_self]; rfl
  · rw [setCall_lookup_other _ _ _ _ h, setCall_lookup_other _ _ _ _ h]

/-- … and therefore the reaction to any trigger is the same as before the two calls -/
theorem react_after_save_restore (p : Profile) (k : Kind) (cb : Nat) (trig : List Kind) :
    react { p with calls := setCall (setCall p.calls k cb) k ((p.calls.lookup k).getD 0) } trig = react p trig := by
  unfold react
  cases firstTriggered p.state trig with
  | none => rfl
  | some k' => simp only [seterrcall_save_restore]

end Biom.C20

/-! ### the registry itself (`ErrorProfile.register / unregister / state= / setcall / getcall / in / test`):
every registry reachable from a fresh profile, every call — in particular `test` when several kinds fire or
`*args` restricts the kinds visited -/

namespace Biom.C20.Reg
def RegWF (g : Registry) : Prop := (rkinds g).Nodup
theorem find_some {g : Registry} {k : Kind} {e : Entry} (h : find g k = some e) : e ∈ g ∧ e.kind = k := by
  unfold find at h
  have h1 := List.mem_of_find?_eq_some h
  have h2 := List.find?_some h
  exact ⟨h1, by simpa using h2⟩
theorem find_none {g : Registry} {k : Kind} : find g k = none ↔ k ∉ rkinds g := by
  unfold find rkinds
  rw [List.find?_eq_none]
  simp only [List.mem_map, not_exists, not_and]
  constructor
  · intro h e he hk; exact absurd (by simp [hk]) (h e he)
  · intro h e he hk; exact h e he (by simpa using hk)
theorem sameEntries_refl (g : Registry) : sameEntries g g = true := by
  simp [sameEntries]

theorem find_of_mem_nodup {g : Registry} (hw : RegWF g) {e : Entry} (he : e ∈ g) : find g e.kind = some e := by
  unfold RegWF rkinds at hw
  unfold find
  induction g with
  | nil => cases he
  | cons x xs ih =>
    simp only [List.map_cons, List.nodup_cons] at hw
    rcases List.mem_cons.mp he with rfl | h
    · simp [List.find?]
    · have hne : x.kind ≠ e.kind := by
        intro heq; exact hw.1 (heq ▸ List.mem_map_of_mem (f := (·.kind)) h)
      have : (x.kind == e.kind) = false := by simpa using hne
      simp only [List.find?, this]
      exact ih hw.2 h

/-- the loop of `test` answers with the configured reaction of the first firing candidate -/
theorem testLoop_spec (g : Registry) (trig : List Kind) (cands : List Kind)
    (hreg : ∀ k ∈ cands, k ∈ rkinds g) :
    (cands.filter (fun k => trig.contains k) = [] ∧ testLoop g trig cands = .ev .quiet) ∨
    (∃ k e rest, cands.filter (fun k => trig.contains k) = k :: rest ∧ find g k = some e ∧
       testLoop g trig cands = .ev (reactionEv k e.reaction e.cb)) := by
  induction cands with
  | nil => left; exact ⟨rfl, rfl⟩
  | cons c cs ih =>
    have hc : c ∈ rkinds g := hreg c (List.mem_cons_self)
    have ih' := ih (fun k hk => hreg k (List.mem_cons_of_mem _ hk))
    cases hf : find g c with
    | none => exact absurd hc (find_none.mp hf)
    | some e =>
      by_cases ht : trig.contains c = true
      · right
        refine ⟨c, e, cs.filter (fun k => trig.contains k), ?_, hf, ?_⟩
        · exact List.filter_cons_of_pos (p := fun k => trig.contains k) ht
        · simp only [testLoop, hf, ht, if_true]
      · have ht' : trig.contains c = false := by simpa using ht
        have hfc : List.filter (fun k => trig.contains k) (c :: cs) = List.filter (fun k => trig.contains k) cs :=
          List.filter_cons_of_neg (p := fun k => trig.contains k) ht
        have htl : testLoop g trig (c :: cs) = testLoop g trig cs := by
          simp only [testLoop, hf, ht']; rfl
        rw [hfc, htl]
        exact ih'

theorem leStr_trans (a b c : String) : leStr a b = true → leStr b c = true → leStr a c = true := by
  simp only [leStr, decide_eq_true_eq]; exact String.le_trans
theorem leStr_total (a b : String) : (leStr a b || leStr b a) = true := by
  simp only [leStr, Bool.or_eq_true, decide_eq_true_eq]; exact String.le_total a b

/-- the head of the sorted firing candidates precedes every firing candidate -/
theorem head_least (l : List Kind) (p : Kind → Bool) (k : Kind) (rest : List Kind)
    (h : (l.mergeSort leStr).filter p = k :: rest) :
    k ∈ l ∧ p k = true ∧ ∀ k' ∈ l, p k' = true → leStr k k' = true := by
  have hs := List.pairwise_mergeSort leStr_trans leStr_total l
  have hsub : List.Pairwise (fun a b => leStr a b = true) ((l.mergeSort leStr).filter p) :=
    List.Pairwise.sublist List.filter_sublist hs
  rw [h] at hsub
  have hk : k ∈ (l.mergeSort leStr).filter p := by rw [h]; exact List.mem_cons_self
  rw [List.mem_filter, List.mem_mergeSort] at hk
  refine ⟨hk.1, hk.2, ?_⟩
  intro k' hk' hp
  have : k' ∈ (l.mergeSort leStr).filter p := by
    rw [List.mem_filter, List.mem_mergeSort]; exact ⟨hk', hp⟩
  rw [h] at this
  rcases List.mem_cons.mp this with rfl | hr
  · have := leStr_total k' k'; simpa using this
  · exact (List.pairwise_cons.mp hsub).1 k' hr
theorem rkinds_map_reaction (g : Registry) (f : Entry → String) :
    rkinds (g.map (fun e => { e with reaction := f e })) = rkinds g := by
  simp [rkinds, List.map_map, Function.comp_def]

theorem rkinds_map_cb (g : Registry) (k : Kind) (cb : Nat) :
    rkinds (g.map (fun x => if x.kind == k then { x with cb := cb } else x)) = rkinds g := by
  unfold rkinds
  rw [List.map_map]
  apply List.map_congr_left
  intro x _
  simp only [Function.comp]
  split <;> rfl

theorem step_wf (g : Registry) (op : Op) (hw : RegWF g) : RegWF (step g op).1 := by
  unfold RegWF at *
  cases op with
  | register k r cb =>
    simp only [step]
    split
    · exact hw
    · split
      · exact hw
      · rename_i hk _
        have hk' : k ∉ rkinds g := by simpa using hk
        simp only [rkinds, List.map_append, List.map_cons, List.map_nil]
        rw [List.nodup_append]
        refine ⟨hw, by simp, ?_⟩
        intro a ha b hb
        simp at hb; subst hb
        intro h; subst h; exact hk' ha
  | unregister k =>
    simp only [step]
    split
    · exact hw
    · simp only [rkinds]
      exact (List.Nodup.sublist (List.Sublist.map _ List.filter_sublist) hw)
  | setState kw =>
    simp only [step]
    split
    · rw [rkinds_map_reaction]; exact hw
    · exact hw
  | setcall k cb =>
    simp only [step]
    split
    · exact hw
    · rw [rkinds_map_cb]; exact hw
  | getcall k => simp only [step]; split <;> exact hw
  | contains k => exact hw
  | test trig args => exact hw

theorem run_wf (g : Registry) (ops : List Op) (hw : RegWF g) : RegWF (run g ops).1 := by
  induction ops generalizing g with
  | nil => exact hw
  | cons op ops ih => simp only [run]; exact ih _ (step_wf g op hw)

/-- every registry reachable from a fresh `ErrorProfile()` has distinct kinds -/
theorem reachable_wf (ops : List Op) : RegWF (run [] ops).1 := run_wf [] ops List.nodup_nil

theorem mem_contains {g : Registry} {e : Entry} (h : e ∈ g) : g.contains e = true := by simpa using h

theorem filter_length_of_unique (k : Kind) (e : Entry) (hkind : e.kind = k) :
    ∀ (l : Registry), (rkinds l).Nodup → e ∈ l → (l.filter (fun x => x.kind != k)).length + 1 = l.length := by
  intro l hl he
  induction l with
  | nil => cases he
  | cons x xs ih =>
    simp only [rkinds, List.map_cons, List.nodup_cons] at hl
    rcases List.mem_cons.mp he with rfl | h
    · have hx : (e.kind != k) = false := by simp [hkind]
      have hall : xs.filter (fun x => x.kind != k) = xs := by
        rw [List.filter_eq_self]
        intro y hy
        have : y.kind ≠ k := by
          intro hyk; exact hl.1 (by rw [hkind, ← hyk]; exact List.mem_map_of_mem (f := (·.kind)) hy)
        simpa using this
      simp [List.filter, hx, hall]
    · have hx : (x.kind != k) = true := by
        have : x.kind ≠ k := by
          intro hxk; exact hl.1 (by rw [hxk, ← hkind]; exact List.mem_map_of_mem (f := (·.kind)) h)
        simpa using this
      simp only [List.filter, hx, List.length_cons]
      have := ih hl.2 h
      omega

/-- The registry clauses hold of every call on every registry with distinct kinds. -/
theorem model_holds (g : Registry) (op : Op) (hw : RegWF g) :
    holdsStep g op (step g op).2 (step g op).1 = true := by
  cases op with
  | register k r cb =>
    simp only [step, holdsStep]
    by_cases hk : k ∈ rkinds g
    · simp [hk, sameEntries_refl]
    · by_cases hr : r ∈ validReactions
      · simp [hk, hr]
        exact fun x hx => Or.inl hx
      · simp [hk, hr, sameEntries_refl]
  | unregister k =>
    simp only [step, holdsStep]
    cases hf : find g k with
    | none => simp [sameEntries_refl]
    | some e =>
      obtain ⟨hmem, hkind⟩ := find_some hf
      simp only [beq_self_eq_true, Bool.true_and, Bool.and_eq_true, Bool.not_eq_true', beq_iff_eq,
        List.all_eq_true, Bool.or_eq_true]
      refine ⟨⟨?_, ?_⟩, ?_⟩
      · simp [rkinds]
      · exact filter_length_of_unique k e hkind g hw hmem
      · intro x hx
        by_cases hxk : x.kind = k
        · left; exact hxk
        · right; simp [List.mem_filter, hx, hxk]
  | setState kw =>
    simp only [step, holdsStep]
    by_cases hv : validKwR g kw = true
    · simp only [hv, if_true, beq_self_eq_true, Bool.true_and, List.length_map, List.all_eq_true]
      intro e he
      apply mem_contains
      exact List.mem_map.mpr ⟨e, he, rfl⟩
    · simp [hv, sameEntries_refl]
  | setcall k cb =>
    simp only [step, holdsStep]
    cases hf : find g k with
    | none => simp [sameEntries_refl]
    | some e =>
      simp only [beq_self_eq_true, Bool.true_and, List.length_map, List.all_eq_true]
      intro x hx
      apply mem_contains
      exact List.mem_map.mpr ⟨x, hx, rfl⟩
  | getcall k =>
    simp only [step, holdsStep]
    cases hf : find g k with
    | none => simp [sameEntries_refl]
    | some e => simp [sameEntries_refl]
  | contains k => simp [step, holdsStep, sameEntries_refl]
  | test trig args =>
    simp only [step, holdsStep, sameEntries_refl, Bool.true_and, candidates]
    generalize (if args.isEmpty = true then rkinds g else args) = cands
    by_cases hany : (cands.any fun k => !(rkinds g).contains k) = true
    · simp only [hany, if_true]
    · simp only [hany, Bool.false_eq_true, if_false]
      have hreg : ∀ k ∈ cands, k ∈ rkinds g := by
        intro k hk
        simp only [List.any_eq_true, not_exists, not_and, Bool.not_eq_true', Bool.not_eq_false] at hany
        have h2 := hany k hk
        simpa using h2
      have hreg' : ∀ k ∈ cands.mergeSort leStr, k ∈ rkinds g := by
        intro k hk; rw [List.mem_mergeSort] at hk; exact hreg k hk
      rcases testLoop_spec g trig (cands.mergeSort leStr) hreg' with ⟨h1, h2⟩ | ⟨k, e, rest, h1, h2, h3⟩
      · rw [h2]
        have : cands.filter (fun k => trig.contains k) = [] := by
          rw [List.filter_eq_nil_iff] at h1 ⊢
          intro a ha; exact h1 a (by rw [List.mem_mergeSort]; exact ha)
        simp only [this, List.isEmpty_nil, if_true, beq_self_eq_true]
      · rw [h3]
        obtain ⟨hkm, hkp, hleast⟩ := head_least _ _ k rest h1
        have hne : (cands.filter (fun k => trig.contains k)).isEmpty = false := by
          rw [List.isEmpty_eq_false_iff]
          intro hnil
          have : k ∈ cands.filter (fun k => trig.contains k) :=
            List.mem_filter.mpr ⟨hkm, hkp⟩
          rw [hnil] at this; cases this
        simp only [hne, Bool.false_eq_true, if_false, List.any_eq_true]
        refine ⟨k, List.mem_filter.mpr ⟨hkm, hkp⟩, ?_⟩
        simp only [h2, beq_self_eq_true]

/-- "unknown … reactions are refused without changing the profile", and so is a kind registered twice -/
theorem register_refused_unchanged (g : Registry) (k r : String) (cb : Nat)
    (h : k ∈ rkinds g ∨ r ∉ validReactions) : step g (.register k r cb) = (g, .keyError) := by
  simp only [step]
  by_cases hk : k ∈ rkinds g
  · simp [hk]
  · rcases h with h | h
    · exact absurd h hk
    · simp [hk, h]

theorem filter_ne_self (g : Registry) (k : Kind) (h : k ∉ rkinds g) : g.filter (fun x => x.kind != k) = g := by
  rw [List.filter_eq_self]
  intro y hy
  have : y.kind ≠ k := fun hyk => h (hyk ▸ List.mem_map_of_mem (f := (·.kind)) hy)
  simpa using this

theorem find_append_new (g : Registry) (k r : String) (cb : Nat) (h : k ∉ rkinds g) :
    find (g ++ [⟨k, r, cb⟩]) k = some ⟨k, r, cb⟩ := by
  unfold find
  rw [List.find?_append]
  have : g.find? (fun e => e.kind == k) = none := find_none.mpr h
  rw [this]; simp [List.find?]

/-- registering a kind and unregistering it again hands back exactly what was registered and leaves the
registry as it was -/
theorem register_then_unregister (g : Registry) (k r : String) (cb : Nat)
    (hk : k ∉ rkinds g) (hr : r ∈ validReactions) :
    step (step g (.register k r cb)).1 (.unregister k) = (g, .removed r cb) := by
  have h1 : step g (.register k r cb) = (g ++ [⟨k, r, cb⟩], .ok) := by simp [step, hk, hr]
  rw [h1]
  simp only [step, find_append_new g k r cb hk, List.filter_append, filter_ne_self g k hk]
  simp [List.filter]

/-- when several kinds fire on an item (and every requested kind is registered) the reaction is that of the
firing kind that sorts first — whatever it is configured to, silent reactions included -/
theorem test_least_firing_decides (g : Registry) (trig args : List Kind)
    (hargs : ∀ k ∈ (if args.isEmpty then rkinds g else args), k ∈ rkinds g)
    (k : Kind) (hk : k ∈ (if args.isEmpty then rkinds g else args)) (hf : trig.contains k = true)
    (hleast : ∀ k' ∈ (if args.isEmpty then rkinds g else args), trig.contains k' = true → k' = k ∨ ¬ leStr k' k = true) :
    ∃ e, find g k = some e ∧ (step g (.test trig args)).2 = .ev (reactionEv k e.reaction e.cb) := by
  simp only [step, candidates]
  generalize (if args.isEmpty = true then rkinds g else args) = cands at *
  have hreg' : ∀ k ∈ cands.mergeSort leStr, k ∈ rkinds g := by
    intro k hk; rw [List.mem_mergeSort] at hk; exact hargs k hk
  rcases testLoop_spec g trig (cands.mergeSort leStr) hreg' with ⟨h1, _⟩ | ⟨k0, e, rest, h1, h2, h3⟩
  · rw [List.filter_eq_nil_iff] at h1
    exact absurd hf (h1 k (by rw [List.mem_mergeSort]; exact hk))
  · obtain ⟨hkm, hkp, hl⟩ := head_least _ _ k0 rest h1
    have : k0 = k := by
      rcases hleast k0 hkm hkp with h | h
      · exact h
      · exact absurd (hl k hk hf) h
    subst this
    exact ⟨e, h2, h3⟩

/-! non-vacuity: a fresh profile, three kinds registered out of alphabetical order, one refused, a state update,
an item on which two kinds fire: the one that sorts first decides -/
def demoOps : List Op :=
  [.register "sampdup" "raise" 0, .register "empty" "ignore" 0, .register "obsdup" "raise" 3,
   .register "empty" "warn" 0, .setState [("obsdup", "call")], .getcall "obsdup", .unregister "obsdup",
   .contains "obsdup"]

example : (run [] demoOps).2 =
    [.ok, .ok, .ok, .keyError, .ok, .cb 3, .removed "call" 3, .bool false] := by decide
example : RegWF (run [] demoOps).1 := reachable_wf demoOps
/-- two kinds fire; visited in sorted order, "obsdup" decides although "sampdup" was registered first -/
example : testLoop [⟨"sampdup", "raise", 0⟩, ⟨"empty", "ignore", 0⟩, ⟨"obsdup", "call", 3⟩] ["sampdup", "obsdup"]
    ["empty", "obsdup", "sampdup"] = .ev (.called "obsdup" 3) := by decide
end Biom.C20.Reg

/-! ### the two levels of the model are one: the program-level `check` / `seterr` are the registry-level `test` /
`state =`, and the registry err.py builds at import time meets the hypotheses of the program-level theorems -/
namespace Biom.C20.Reg
theorem kinds_toState (g : Registry) : kinds (toState g) = (rkinds g).mergeSort leStr := by
  simp [kinds, toState, List.map_map, Function.comp_def]

theorem lookup_map_self (ks : List Kind) (f : Kind → String) (k : Kind) (hk : k ∈ ks) :
    (ks.map (fun k => (k, f k))).lookup k = some (f k) := by
  induction ks with
  | nil => cases hk
  | cons x xs ih =>
    simp only [List.map_cons, List.lookup_cons]
    by_cases hx : k = x
    · subst hx; simp
    · have : (k == x) = false := by simpa using hx
      rw [this]
      rcases List.mem_cons.mp hk with h | h
      · exact absurd h hx
      · exact ih h

theorem lookup_callsOf (g : Registry) (k : Kind) :
    ((callsOf g).lookup k).getD 0 = ((find g k).map (·.cb)).getD 0 := by
  unfold callsOf find
  induction g with
  | nil => rfl
  | cons x xs ih =>
    simp only [List.map_cons, List.lookup_cons, List.find?_cons]
    by_cases hx : k = x.kind
    · subst hx; simp
    · have h1 : (k == x.kind) = false := by simpa using hx
      have h2 : (x.kind == k) = false := by simpa using (fun h => hx h.symm)
      rw [h1, h2]; exact ih

/-- the loop of `test` over any registered candidates = "first firing candidate decides" -/
theorem testLoop_eq_find (g : Registry) (trig ks : List Kind) (hreg : ∀ k ∈ ks, k ∈ rkinds g) :
    testLoop g trig ks = .ev (match ks.find? (fun k => trig.contains k) with
      | none => .quiet
      | some k => reactionEv k (((find g k).map (·.reaction)).getD "ignore") (((find g k).map (·.cb)).getD 0)) := by
  induction ks with
  | nil => rfl
  | cons c cs ih =>
    have hc : c ∈ rkinds g := hreg c List.mem_cons_self
    have ih' := ih (fun k hk => hreg k (List.mem_cons_of_mem _ hk))
    cases hf : find g c with
    | none => exact absurd hc (find_none.mp hf)
    | some e =>
      by_cases ht : trig.contains c = true
      · simp only [testLoop, hf, ht, if_true, List.find?_cons, Option.map_some, Option.getD_some]
      · have ht' : trig.contains c = false := by simpa using ht
        simp only [testLoop, hf, ht', List.find?_cons]
        exact ih'

/-- **The program-level model stands on the registry-level one**: `errcheck(item)` as the program model describes it
(`react` over the sorted reaction table and the callback table) is exactly what `ErrorProfile.test(item)` does on the
registry those tables come from. -/
theorem check_refines_test (g : Registry) (trig : List Kind) :
    step g (.test trig []) = (g, .ev (react ⟨toState g, callsOf g⟩ trig).2) := by
  have hreg : ∀ k ∈ (rkinds g).mergeSort leStr, k ∈ rkinds g := by
    intro k hk; rwa [List.mem_mergeSort] at hk
  simp only [step, candidates, List.isEmpty_nil, if_true]
  rw [testLoop_eq_find g trig _ hreg]
  simp only [react, firstTriggered, kinds_toState]
  cases hfd : ((rkinds g).mergeSort leStr).find? (fun k => trig.contains k) with
  | none => rfl
  | some k =>
    have hk : k ∈ (rkinds g).mergeSort leStr := List.mem_of_find?_eq_some hfd
    simp only [lookup_callsOf, toState, lookup_map_self _ _ k hk, Option.getD_some]

theorem find_map_reaction (g : Registry) (f : Entry → String) (k : Kind) :
    find (g.map (fun e => { e with reaction := f e })) k = (find g k).map (fun e => { e with reaction := f e }) := by
  unfold find
  induction g with
  | nil => rfl
  | cons x xs ih =>
    simp only [List.map_cons, List.find?_cons]
    by_cases hx : (x.kind == k) = true
    · simp [hx]
    · have : (x.kind == k) = false := by simpa using hx
      simp only [this]; exact ih

theorem validKw_toState (g : Registry) (kw : Kw) : validKw (toState g) kw = validKwR g kw := by
  unfold validKw validKwR
  congr 1
  funext kr
  have : (kinds (toState g)).contains kr.1 = (rkinds g).contains kr.1 := by
    rw [kinds_toState]
    by_cases h : kr.1 ∈ rkinds g
    · have h' : kr.1 ∈ (rkinds g).mergeSort leStr := List.mem_mergeSort.mpr h
      simp [h, h']
    · have h' : kr.1 ∉ (rkinds g).mergeSort leStr := fun hm => h (List.mem_mergeSort.mp hm)
      simp [h, h']
  rw [this]

/-- `seterr(**kw)` as the program model describes it is the registry's `state = kw`: refused together, and an accepted
call leaves the reaction table of the updated registry -/
theorem setState_refines_seterr (g : Registry) (kw : Kw) (hkw : KwWF kw) :
    seterr (toState g) kw =
      if (step g (.setState kw)).2 = .ok then some (toState (step g (.setState kw)).1) else none := by
  rw [seterr_spec (toState g) kw hkw, validKw_toState]
  simp only [step]
  by_cases hv : validKwR g kw = true
  · simp only [hv, if_true]
    congr 1
    simp only [toState, rkinds_map_reaction, expectedAfter, List.map_map]
    apply List.map_congr_left
    intro k hk
    have hk' : k ∈ rkinds g := List.mem_mergeSort.mp hk
    simp only [Function.comp, find_map_reaction]
    cases hf : find g k with
    | none => exact absurd hk' (find_none.mp hf)
    | some e =>
      have hek : e.kind = k := (find_some hf).2
      simp only [Option.map_some, Option.getD_some, newReaction, hek]
      cases kw.lookup "all" <;> rfl
  · simp [hv]

/-- reactions stay valid under every call -/
def RegValid (g : Registry) : Prop := ∀ e ∈ g, e.reaction ∈ validReactions

theorem newReaction_valid (g : Registry) (kw : Kw) (hv : validKwR g kw = true) (e : Entry)
    (he : e.reaction ∈ validReactions) : newReaction kw e ∈ validReactions := by
  have hall : ∀ kr ∈ kw, kr.2 ∈ validReactions := by
    intro kr hkr
    have := (List.all_eq_true.mp hv) kr hkr
    simp only [Bool.and_eq_true] at this
    simpa using this.1
  have hl : ∀ (k : String) (r : String), kw.lookup k = some r → r ∈ validReactions := by
    intro k r h
    exact hall (k, r) (mem_of_lookup kw k r h)
  unfold newReaction
  cases h1 : kw.lookup "all" with
  | some r => exact hl _ _ h1
  | none =>
    cases h2 : kw.lookup e.kind with
    | some r => exact hl _ _ h2
    | none => exact he

theorem step_valid (g : Registry) (op : Op) (hv : RegValid g) : RegValid (step g op).1 := by
  unfold RegValid at *
  cases op with
  | register k r cb =>
    simp only [step]
    split
    · exact hv
    · split
      · exact hv
      · rename_i _ hr
        intro e he
        rcases List.mem_append.mp he with h | h
        · exact hv e h
        · simp at h; subst h; simpa using hr
  | unregister k =>
    simp only [step]
    split
    · exact hv
    · intro e he; exact hv e (List.mem_filter.mp he).1
  | setState kw =>
    simp only [step]
    split
    · rename_i hvk
      intro e he
      obtain ⟨e0, he0, rfl⟩ := List.mem_map.mp he
      exact newReaction_valid g kw hvk e0 (hv e0 he0)
    · exact hv
  | setcall k cb =>
    simp only [step]
    split
    · exact hv
    · intro e he
      obtain ⟨e0, he0, rfl⟩ := List.mem_map.mp he
      split
      · exact hv e0 he0
      · exact hv e0 he0
  | getcall k => simp only [step]; split <;> exact hv
  | contains k => exact hv
  | test trig args => exact hv

theorem run_valid (g : Registry) (ops : List Op) (hv : RegValid g) : RegValid (run g ops).1 := by
  induction ops generalizing g with
  | nil => exact hv
  | cons op ops ih => simp only [run]; exact ih _ (step_valid g op hv)

/-- the reaction table of a registry meets the hypothesis `StateWF` the program-level theorems are stated under -/
theorem toState_wf (g : Registry) (hw : RegWF g) (hv : RegValid g) (hall : "all" ∉ rkinds g) : StateWF (toState g) := by
  refine ⟨?_, ?_, ?_⟩
  · rw [kinds_toState]
    exact (List.mergeSort_perm (rkinds g) leStr).nodup_iff.mpr hw
  · rw [kinds_toState]
    intro h; exact hall (List.mem_mergeSort.mp h)
  · intro kr hkr
    unfold toState at hkr
    obtain ⟨k, hk, rfl⟩ := List.mem_map.mp hkr
    have hk' : k ∈ rkinds g := List.mem_mergeSort.mp hk
    cases hf : find g k with
    | none => exact absurd hk' (find_none.mp hf)
    | some e => simpa using hv e (find_some hf).1

/-- the process-wide profile as err.py builds it satisfies `StateWF`: every program-level theorem (`model_holds`,
`errstate_restores`, `reaction_honoured`, …) applies to it and — by `exec_wf` — to every profile a program reaches from it -/
theorem module_state_wf : StateWF (toState moduleRegistry) := by
  apply toState_wf
  · exact reachable_wf moduleOps
  · exact run_valid [] moduleOps (by intro e he; cases he)
  · decide

example : (run [] moduleOps).2 = [.ok, .ok, .ok, .ok, .ok, .ok, .ok] := by decide
end Biom.C20.Reg

namespace Biom.C20.Reg

theorem find_map_cb (g : Registry) (k : Kind) (cb : Nat) (k' : Kind) :
    find (g.map (fun x => if x.kind == k then { x with cb := cb } else x)) k' =
      (find g k').map (fun x => if x.kind == k then { x with cb := cb } else x) := by
  unfold find
  induction g with
  | nil => rfl
  | cons x xs ih =>
    simp only [List.map_cons, List.find?_cons]
    have hk : (if (x.kind == k) = true then ({ x with cb := cb } : Entry) else x).kind = x.kind := by
      split <;> rfl
    rw [hk]
    by_cases hx : (x.kind == k') = true
    · simp [hx]
    · have : (x.kind == k') = false := by simpa using hx
      simp only [this]; exact ih

/-- program-level `seterrcall` is the registry's `setcall`: refused together (unknown kind), and afterwards every kind
has the same callback in both -/
theorem setcall_refines_seterrcall (g : Registry) (k : Kind) (cb : Nat) (k' : Kind) :
    (if (kinds (toState g)).contains k then
        ((setCall (callsOf g) k cb).lookup k').getD 0
      else ((callsOf g).lookup k').getD 0)
      = ((callsOf (step g (.setcall k cb)).1).lookup k').getD 0
    ∧ ((step g (.setcall k cb)).2 = .keyError ↔ (kinds (toState g)).contains k = false) := by
  have hc : (kinds (toState g)).contains k = (rkinds g).contains k := by
    rw [kinds_toState]
    by_cases h : k ∈ rkinds g
    · have h' : k ∈ (rkinds g).mergeSort leStr := List.mem_mergeSort.mpr h
      simp [h, h']
    · have h' : k ∉ (rkinds g).mergeSort leStr := fun hm => h (List.mem_mergeSort.mp hm)
      simp [h, h']
  rw [hc]
  simp only [step]
  cases hf : find g k with
  | none =>
    have hk : k ∉ rkinds g := find_none.mp hf
    have : (rkinds g).contains k = false := by simpa using hk
    simp only [this, Bool.false_eq_true, if_false]
    exact ⟨trivial, by simp⟩
  | some e =>
    have hk : k ∈ rkinds g := by
      have := find_some hf
      rw [← this.2]; exact List.mem_map_of_mem (f := (·.kind)) this.1
    have hkc : (rkinds g).contains k = true := by simpa using hk
    simp only [hkc, if_true]
    refine ⟨?_, by simp⟩
    rw [lookup_callsOf, find_map_cb]
    by_cases hkk : k' = k
    · subst hkk
      rw [setCall_lookup_self, hf]
      have hek : e.kind = k' := (find_some hf).2
      simp [hek]
    · rw [setCall_lookup_other _ _ _ _ hkk, lookup_callsOf]
      cases hf' : find g k' with
      | none => rfl
      | some e' =>
        have : ¬ e'.kind = k := by
          have := (find_some hf').2
          rw [this]; exact hkk
        simp [this]
end Biom.C20.Reg
