/-
  C01 — property theorems.  For EVERY table (any shape incl. empty axes, any grid, any IDs, metadata
  of the per-category-homogeneous domain with '@'-free category names and list-valued hierarchical categories, type / id absent or non-empty,
  any group metadata), every `generated_by`, every date, every utf-8 and date codec satisfying the
  round-trip contracts and EVERY pair of matrix layouts satisfying the scipy contract: loading the
  written tree — through either axis and through any of the three loaders — gives back the IDs in
  order, the grid, the metadata, type, id-or-placeholder, generated-by, date and group-metadata payload.
-/
import BiomModel.Lemmas.C01
import BiomModel.Props.C04

set_option linter.unusedSectionVars false

namespace Biom.C01
open Biom Biom.Hdf5 Biom.C04

variable {α δ : Type} [Zero α] [DecidableEq α]

theorem type_rt (ty : Option String) (h : ty ≠ some "") :
    (if typeAttr ty = "" then none else some (typeAttr ty)) = ty := by
  cases ty with
  | none => simp [typeAttr]
  | some s =>
    have : s ≠ "" := fun e => h (e ▸ rfl)
    simp [typeAttr, this]

/-- The reader on the written tree, through either axis: everything comes back (FULL: IDs, grid,
metadata, header fields, group metadata). -/
theorem fromH5_written (c : Utf8) (hc : c.RT) (dc : DateC δ) (hdc : dc.RT) (t : Src α) (genBy : String)
    (date : Option δ) (now : δ) (csr csc : CS α) (hw : SrcWF t) (hv : Views t csr csc)
    (hmo : mdDomain t.omd = true) (hms : mdDomain t.smd = true) (hao : rtDomain t.omd) (has : rtDomain t.smd)
    (hh : HeaderOK t) (ax : Axis) :
    fromH5 c dc (written c dc t genBy date now csr csc) ax = .ok (expected t genBy (date.getD now)) := by
  have hid : attrStr (written c dc t genBy date now csr csc) "id" = .ok (idAttr t.tableId) := by
    simp [attrStr, written, attrTree]
  have hcd : attrStr (written c dc t genBy date now csr csc) "creation-date" = .ok (dc.iso (date.getD now)) := by
    simp [attrStr, written, attrTree, List.lookup]
  have hgb : attrStr (written c dc t genBy date now csr csc) "generated-by" = .ok genBy := by
    simp [attrStr, written, attrTree, List.lookup]
  have hty : attrStr (written c dc t genBy date now csr csc) "type" = .ok (typeAttr t.ttype) := by
    simp [attrStr, written, attrTree, List.lookup]
  have hshape : attrShape (written c dc t genBy date now csr csc) = .ok (t.obs.length, t.samp.length) := by
    simp [attrShape, written, attrTree, List.lookup, hv.csrMajor, hv.csrMinor]
  have hobs : (written c dc t genBy date now csr csc).obs = some (axTree c t.obs t.omd (gmdAll t.ogmd t.ogmdBare) csr) := rfl
  have hsamp : (written c dc t genBy date now csr csc).samp = some (axTree c t.samp t.smd (gmdAll t.sgmd t.sgmdBare) csc) := rfl
  have hlo := axisLoad_axTree c hc t.obs t.omd (gmdAll t.ogmd t.ogmdBare) csr hw.omdLen hmo hao
  have hls := axisLoad_axTree c hc t.samp t.smd (gmdAll t.sgmd t.sgmdBare) csc hw.smdLen hms has
  unfold fromH5
  simp only [hid, hcd, hgb, hty, hshape, hdc _, hobs, hsamp, reqE, hlo, hls, type_rt t.ttype hh.typeNe,
    bind, Except.bind]
  cases ax with
  | obs =>
    simp only [H5.ax, hobs, axTree, loadView_matTree csr _ _ hv.csrMajor hv.csrMinor, wfb_of_WF hv.csrWF, if_true,
      hv.csrDense, pure, Except.pure, and_self, expected]
  | samp =>
    simp only [H5.ax, hsamp, axTree, loadView_matTree csc _ _ hv.cscMajor hv.cscMinor, wfb_of_WF hv.cscWF, if_true,
      hv.cscDense, transpose_transpose t.rows _ _ hw.rowsLen hw.rowLen, pure, Except.pure, and_self, expected]

/-- `from_hdf5(to_hdf5(t))`, as a statement about the two model functions -/
theorem fromH5_toH5 (c : Utf8) (hc : c.RT) (dc : DateC δ) (hdc : dc.RT) (t : Src α) (genBy : String)
    (date : Option δ) (now : δ) (csr csc : CS α) (hw : SrcWF t) (hv : Views t csr csc)
    (hmo : mdDomain t.omd = true) (hms : mdDomain t.smd = true) (hao : rtDomain t.omd) (has : rtDomain t.smd)
    (hh : HeaderOK t) (ax : Axis) :
    (toH5 c dc t genBy date now csr csc).bind (fun h => fromH5 c dc h ax) =
      .ok (expected t genBy (date.getD now)) := by
  rw [toH5_written c dc t genBy date now csr csc hw hv hmo hms]
  exact fromH5_written c hc dc hdc t genBy date now csr csc hw hv hmo hms hao has hh ax

/-- The three loaders differ only by their sniffing prelude: whenever `from_hdf5` succeeds on a
tree that was written as an HDF5 file, `parse_table` and `load_table` return the same table. -/
theorem loaders_agree (c : Utf8) (dc : DateC δ) (h : H5 α) (r : Loaded α δ)
    (hr : fromH5 c dc h .samp = .ok r) (l : Loader) : load c dc Sniff.written l h = .ok r := by
  cases l <;> simp [load, loadTable, parseBiomTable, Sniff.written, hr]

/-- what `holds` demands is true of the expected result -/
theorem holds_expected [DecidableEq δ] (t : Src α) (genBy : String) (date : Option δ) (now : δ)
    (hw : SrcWF t) (hmo : mdDomain t.omd = true) (hms : mdDomain t.smd = true) (hh : HeaderOK t) :
    holds t genBy date (.ok (expected t genBy (date.getD now))) = true := by
  have hid : idAttr t.tableId = (match t.tableId with | some s => s | none => "No Table ID") := by
    cases hti : t.tableId with
    | none => rfl
    | some s =>
      have : s ≠ "" := fun e => hh.idNe (by rw [hti, e])
      simp [idAttr, this]
  have hshape1 : (t.rows.length == t.obs.length) = true := by simpa using hw.rowsLen
  have hshape2 : t.rows.all (fun r => r.length == t.samp.length) = true := by
    simp only [beq_iff_eq, List.all_eq_true]; exact hw.rowLen
  have hdate : (match date with | some d => (DateVal.date (date.getD now) == DateVal.date d) | none => true) = true := by
    cases date <;> simp
  simp only [holds, clauses, expected, List.all_cons, List.all_nil, Bool.and_true, Bool.and_eq_true]
  refine ⟨by simp, by simp, ⟨hshape1, hshape2⟩, by simp, mdClause_normMd t.obs t.omd hmo, mdClause_normMd t.samp t.smd hms,
    by simp, by rw [hid]; exact beq_self_eq_true _, by simp, hdate, gmdClause_loaded t.ogmd t.ogmdBare hh.ogmdKeys, gmdClause_loaded t.sgmd t.sgmdBare hh.sgmdKeys⟩

/-- The property on the model: write, then load with any loader — `C01.holds` is true. `compress`
is not an input of `toH5`, so the statement covers both settings. -/
theorem model_holds [DecidableEq δ] (c : Utf8) (hc : c.RT) (dc : DateC δ) (hdc : dc.RT) (t : Src α)
    (genBy : String) (date : Option δ) (now : δ) (csr csc : CS α) (hw : SrcWF t) (hv : Views t csr csc)
    (hmo : mdDomain t.omd = true) (hms : mdDomain t.smd = true) (hao : rtDomain t.omd) (has : rtDomain t.smd)
    (hh : HeaderOK t) (l : Loader) :
    holds t genBy date ((toH5 c dc t genBy date now csr csc).bind (load c dc Sniff.written l)) = true := by
  rw [toH5_written c dc t genBy date now csr csc hw hv hmo hms]
  have := fromH5_written c hc dc hdc t genBy date now csr csc hw hv hmo hms hao has hh .samp
  simp only [Except.bind, loaders_agree c dc _ _ this l]
  exact holds_expected t genBy date now hw hmo hms hh

/-- through the observation axis as well (`Table.from_hdf5(h, axis='observation')`) -/
theorem model_holds_obs_axis [DecidableEq δ] (c : Utf8) (hc : c.RT) (dc : DateC δ) (hdc : dc.RT) (t : Src α)
    (genBy : String) (date : Option δ) (now : δ) (csr csc : CS α) (hw : SrcWF t) (hv : Views t csr csc)
    (hmo : mdDomain t.omd = true) (hms : mdDomain t.smd = true) (hao : rtDomain t.omd) (has : rtDomain t.smd)
    (hh : HeaderOK t) :
    holds t genBy date ((toH5 c dc t genBy date now csr csc).bind (fun h => fromH5 c dc h .obs)) = true := by
  rw [fromH5_toH5 c hc dc hdc t genBy date now csr csc hw hv hmo hms hao has hh .obs]
  exact holds_expected t genBy date now hw hmo hms hh

/-- A category name containing the escape text itself does not survive: `'a@@SLASH@@b'` is read
back as `'a/b'` (outside the guard `rtDomain`). -/
theorem slash_witness : unsanitize (sanitize "a@@SLASH@@b") = "a/b" := by decide

/-- … while names with '/' do -/
example : unsanitize (sanitize "na/me/") = "na/me/" := by decide

/-! Non-vacuity: the demo table of C04 (text + hierarchical + numeric metadata, a '/' in a category
name, unsorted indices in the row view) meets every hypothesis, and the round trip is computed. -/
example : rtDomain demoSrc.omd := by
  intro e0 es h k hk
  simp only [demoSrc, Option.some.injEq, List.cons.injEq] at h
  obtain ⟨rfl, rfl⟩ := h
  revert k hk; decide
example : HeaderOK demoSrc := ⟨by decide, by decide, by decide, by decide⟩
example : fromH5 Utf8.ident DateC.ident (written Utf8.ident DateC.ident demoSrc "g" (some "2020-01-02") "" demoCsr demoCsc) .samp
    = .ok (expected demoSrc "g" "2020-01-02") := by decide
example : (expected demoSrc "g" "d" : Loaded Int String).omd =
    some [[("taxonomy", .list ["k__A", "p__x"]), ("na/me", .text "é")],
          [("taxonomy", .list ["k__B"]), ("na/me", .text "v")]] := by decide
/-- `holds` is not trivially true: a reader that forgets to strip the padding is refused -/
example : holds demoSrc "g" (none : Option String)
    (.ok { (expected demoSrc "g" "d" : Loaded Int String) with
      omd := some [[("taxonomy", .list ["k__A", "p__x"]), ("na/me", .text "é")],
                   [("taxonomy", .list ["k__B", ""]), ("na/me", .text "v")]] }) = false := by decide

end Biom.C01
